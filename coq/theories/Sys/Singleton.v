(* C20 -- the process-wide default Lexer (sqlparse/lexer.py, Lexer.get_default_instance).

   A tiny multi-threaded machine: N threads all execute the same straight-line program (the body
   of `get_default_instance`, with the called `default_initialization` inlined); one instruction
   = one Python statement (the GIL makes a statement atomic at this granularity); the scheduler
   is an arbitrary list of thread ids.  Everything in this file is executable and first-order
   (no Prop in computational parts) so that [step]/[run] can be extracted and compared with real
   Python threads driven statement by statement.

   Two program shapes are understood (the translator tools/regen/gen_singleton.py emits whichever
   the source has):
     publish-then-initialise   cls._default_instance = cls()                 INewAssign
                               cls._default_instance.default_initialization() ILoadSelf; <body>
     initialise-then-publish   instance = cls()                              INewLocal
                               instance.default_initialization()             <body>   (receiver = the local)
                               cls._default_instance = instance              IPublishSelf

   Not modelled: exceptions raised inside the with-block by the environment (MemoryError,
   KeyboardInterrupt; see Sys/HistoryX.v for the interrupted FIRST initialisation), re-entrancy (`threading.Lock` is not re-entrant: a thread that acquires
   twice blocks for ever, as here), fork. *)
From SqlModel Require Import Base.

Definition tid := nat.
Definition objid := nat.   (* index into the heap *)

Inductive instr :=
| IAcquire                   (* enter `with cls._lock:`; blocks while the lock is held *)
| IRelease                   (* leave the with-block *)
| IJumpIfInst (target : nat) (* `if cls._default_instance is None:` falls through when None, else jumps *)
| INewAssign                 (* cls._default_instance = cls() *)
| ILoadSelf                  (* receiver of `.default_initialization()`: self := cls._default_instance *)
| INewLocal                  (* <local> = cls(): a fresh object NOT reachable from the shared variable;
                                self := it (the local is the receiver of `.default_initialization()`) *)
| IPublishSelf               (* cls._default_instance = <local> *)
| IClear                     (* self._SQL_REGEX = []; self._keywords = []   (Lexer.clear) *)
| ISetRegex                  (* self.set_SQL_REGEX(keywords.SQL_REGEX) *)
| IAddKw (k : nat)           (* self.add_keywords(<k-th dictionary>)  :  self._keywords.append(d) *)
| IReturn.                   (* return cls._default_instance  (read NOW, outside the lock) *)

(* A Lexer object.  `cls()` runs no __init__: the attributes _SQL_REGEX/_keywords do not exist
   ([cleared] = false) until clear() has run. *)
Record obj := mkObj { cleared : bool; regex_set : bool; kws : list nat }.
Definition fresh_obj : obj := mkObj false false [].

Record thread := mkThread { pc : nat; self : option objid; ret : option objid }.
Definition thread0 : thread := mkThread 0 None None.

Record state := mkState {
  lock : option tid;        (* holder of Lexer._lock *)
  inst : option objid;      (* Lexer._default_instance *)
  heap : list obj;          (* every object ever allocated, in allocation order *)
  threads : list thread }.  (* thread t = t-th entry *)

Fixpoint upd {A} (l : list A) (k : nat) (x : A) : list A :=
  match l, k with
  | [], _ => []
  | _ :: l', 0 => x :: l'
  | y :: l', S k' => y :: upd l' k' x
  end.

(* ---- effect of the statements of default_initialization on the receiver ------------------- *)
(* None = the statement raises (AttributeError: `self._keywords` does not exist yet). *)
Definition exec_obj (i : instr) (ob : obj) : option obj :=
  match i with
  | IClear => Some (mkObj true false [])
  | ISetRegex => Some (mkObj (cleared ob) true (kws ob))
  | IAddKw k => if cleared ob then Some (mkObj true (regex_set ob) (kws ob ++ [k])) else None
  | _ => None
  end.

Fixpoint exec_body (l : list instr) (ob : obj) : option obj :=
  match l with
  | [] => Some ob
  | i :: l' => match exec_obj i ob with Some ob' => exec_body l' ob' | None => None end
  end.

(* ---- one step of thread t ------------------------------------------------------------------ *)
Definition advance (th : thread) : thread := mkThread (S (pc th)) (self th) (ret th).
(* an uncaught exception ends the thread without a result: pc := past the end *)
Definition halt (p : list instr) (th : thread) : thread := mkThread (length p) (self th) (ret th).
Definition set_thread (st : state) (t : tid) (th : thread) : state :=
  mkState (lock st) (inst st) (heap st) (upd (threads st) t th).

Definition step_obj (p : list instr) (st : state) (t : tid) (th : thread) (i : instr) : state :=
  match self th with
  | Some o =>
      match nth_error (heap st) o with
      | Some ob =>
          match exec_obj i ob with
          | Some ob' =>
              mkState (lock st) (inst st) (upd (heap st) o ob') (upd (threads st) t (advance th))
          | None => set_thread st t (halt p th)
          end
      | None => set_thread st t (halt p th)
      end
  | None => set_thread st t (halt p th)      (* None.clear(): AttributeError *)
  end.

Definition exec_instr (p : list instr) (st : state) (t : tid) (th : thread) (i : instr) : state :=
  match i with
  | IAcquire =>
      match lock st with
      | None => mkState (Some t) (inst st) (heap st) (upd (threads st) t (advance th))
      | Some _ => st                                   (* blocked *)
      end
  | IRelease =>
      (* threading.Lock has no owner: release() by anybody unlocks; unlocked -> RuntimeError *)
      match lock st with
      | Some _ => mkState None (inst st) (heap st) (upd (threads st) t (advance th))
      | None => set_thread st t (halt p th)
      end
  | IJumpIfInst tg =>
      match inst st with
      | None => set_thread st t (advance th)
      | Some _ => set_thread st t (mkThread tg (self th) (ret th))
      end
  | INewAssign =>
      mkState (lock st) (Some (length (heap st))) (heap st ++ [fresh_obj])
              (upd (threads st) t (advance th))
  | ILoadSelf => set_thread st t (mkThread (S (pc th)) (inst st) (ret th))
  | INewLocal =>
      mkState (lock st) (inst st) (heap st ++ [fresh_obj])
              (upd (threads st) t (mkThread (S (pc th)) (Some (length (heap st))) (ret th)))
  | IPublishSelf =>
      match self th with
      | Some o => mkState (lock st) (Some o) (heap st) (upd (threads st) t (advance th))
      | None => set_thread st t (halt p th)            (* UnboundLocalError: the local was never assigned *)
      end
  | IReturn => set_thread st t (mkThread (length p) (self th) (inst st))
  | IClear | ISetRegex | IAddKw _ => step_obj p st t th i
  end.

(* A blocked / finished / out-of-range thread does not move: the state is returned unchanged. *)
Definition step (p : list instr) (st : state) (t : tid) : state :=
  match nth_error (threads st) t with
  | None => st
  | Some th =>
      match nth_error p (pc th) with
      | None => st
      | Some i => exec_instr p st t th i
      end
  end.

Definition init (n : nat) : state := mkState None None [] (repeat thread0 n).

Definition run_from (p : list instr) (st : state) (sched : list tid) : state :=
  fold_left (step p) sched st.

Definition run (p : list instr) (n : nat) (sched : list tid) : state :=
  run_from p (init n) sched.

(* fair scheduler: k rounds 0,1,...,n-1 *)
Definition round_robin (n k : nat) : list tid := concat (repeat (seq 0 n) k).

(* ---- observations --------------------------------------------------------------------------- *)
Definition returned (st : state) (t : tid) : option objid :=
  match nth_error (threads st) t with Some th => ret th | None => None end.

Definition finished (p : list instr) (st : state) (t : tid) : bool :=
  match nth_error (threads st) t with Some th => length p <=? pc th | None => true end.

Fixpoint nat_list_eqb (a b : list nat) : bool :=
  match a, b with
  | [], [] => true
  | x :: a', y :: b' => Nat.eqb x y && nat_list_eqb a' b'
  | _, _ => false
  end.

Definition obj_fullyb (expected : list nat) (ob : obj) : bool :=
  regex_set ob && nat_list_eqb (kws ob) expected.

Definition fully_initialisedb (expected : list nat) (st : state) (o : objid) : bool :=
  match nth_error (heap st) o with Some ob => obj_fullyb expected ob | None => false end.

(* usable as a lexer: the rule list is set and the keyword list is exactly the expected one *)
Definition fully_initialised (expected : list nat) (st : state) (o : objid) : Prop :=
  exists ob, nth_error (heap st) o = Some ob /\ regex_set ob = true /\ kws ob = expected.

(* ---- the structural check the proofs rest on ------------------------------------------------
   Two shapes are accepted.  With r = 4 + |body| in both (and |prog| = r + 2 in both):
     publish-then-initialise (prog_of false body):
       IAcquire; IJumpIfInst r; INewAssign; ILoadSelf; <body>; IRelease(at r); IReturn
     initialise-then-publish (prog_of true body):
       IAcquire; IJumpIfInst r; INewLocal; <body>; IPublishSelf; IRelease(at r); IReturn
   where running <body> sequentially on a fresh object raises nothing and yields a fully
   initialised object.  (Any number/order of IClear/ISetRegex/IAddKw is accepted as long as the
   sequential result is right; a missing lock, a release before the end of the initialisation,
   or a wrong jump target make the check fail.)
   In the first shape the lock is what hides the half-built published object from the other
   threads; in the second nothing half-built is ever reachable from the shared variable (lock or
   no lock: SingletonFacts.v, C20_unlocked_new_init_safe) and the lock is needed only to make the
   initialisation happen once. *)
Definition prog_of (nw : bool) (body : list instr) : list instr :=
  IAcquire :: IJumpIfInst (4 + length body)
    :: (if nw then INewLocal :: body ++ [IPublishSelf; IRelease; IReturn]
        else INewAssign :: ILoadSelf :: body ++ [IRelease; IReturn]).

Definition body_okb (expected : list nat) (r : nat) (body : list instr) : bool :=
  Nat.eqb r (4 + length body)
  && match exec_body body fresh_obj with
     | Some ob => obj_fullyb expected ob
     | None => false
     end.

(* Some false = publish-then-initialise, Some true = initialise-then-publish, None = neither *)
Definition shape_of (expected : list nat) (p : list instr) : option bool :=
  match p with
  | IAcquire :: IJumpIfInst r :: INewAssign :: ILoadSelf :: rest =>
      match rev rest with
      | IReturn :: IRelease :: rbody =>
          if body_okb expected r (rev rbody) then Some false else None
      | _ => None
      end
  | IAcquire :: IJumpIfInst r :: INewLocal :: rest =>
      match rev rest with
      | IReturn :: IRelease :: IPublishSelf :: rbody =>
          if body_okb expected r (rev rbody) then Some true else None
      | _ => None
      end
  | _ => None
  end.

Definition well_locked (expected : list nat) (p : list instr) : bool :=
  match shape_of expected p with Some _ => true | None => false end.
