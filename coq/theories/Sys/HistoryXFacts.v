(* C20 -- interrupted initialisation: the history theorem is FALSE once an exception may interrupt
   the first initialisation (refuted with a witness that is replayed on the implementation:
   finding KF-C20-1), and it holds for every history outside that class (partial theorem). *)
From Coq Require Import String.
From SqlModel Require Import Base.
From SqlModel.Sys Require Import Singleton History HistoryX.
From SqlModel.Gen Require Import SingletonProg StateInv.
From SqlModel.Sys Require Import HistoryFacts.

Lemma xeff_emb st : xeff (emb st) = Some (eff st).
Proof. destruct st as [[c|]]; reflexivity. Qed.

Lemma xensure_emb st : xensure (emb st) = emb (ensure st).
Proof. destruct st as [[c|]]; reflexivity. Qed.

Lemma xapply_op_emb st o : xapply_op (emb st) o = emb (apply st o).
Proof.
  destruct o; cbn [xapply_op apply]; try (destruct (touches_lexer _); [apply xensure_emb|reflexivity]);
    try reflexivity; rewrite xensure_emb; destruct st as [[c|]]; reflexivity.
Qed.

Lemma xrun_emb : forall h st,
  kf_interrupted_init h = false -> xrun h (emb st) = emb (run_hist (strip h) st).
Proof.
  induction h as [|x h IH]; intros st Hk; [reflexivity|].
  cbn [kf_interrupted_init existsb] in Hk. destruct x as [o|k o]; [|discriminate].
  cbn [orb] in Hk. cbn [xrun fold_left strip map run_hist xapply].
  rewrite xapply_op_emb. apply (IH (apply st o) Hk).
Qed.

Section Results.
  Variable R : Type.
  Variable sem : option cfg -> op -> R.

  (* everything outside the finding's class is still covered *)
  Theorem C20_xhistory_partial : forall h call,
    kf_interrupted_init h = false -> ends_defaultb (strip h) = true ->
    xresult_after R sem h call = xresult_fresh R sem call.
  Proof.
    intros h call Hk He. unfold xresult_after, xresult_fresh, xresult.
    change xfresh with (emb fresh). rewrite (xrun_emb h fresh Hk), !xeff_emb.
    rewrite (C20_history_state _ He). reflexivity.
  Qed.
End Results.
Print Assumptions C20_xhistory_partial.

(* The full statement is false.  Witness 1: interrupted right after the assignment -> the instance
   has no attributes: every later call raises AttributeError.  Witness 2: interrupted inside
   set_SQL_REGEX (3 statements done) -> empty rule list, no dictionaries: every later call silently
   yields one Error token per character.  No reconfiguration operation in either history. *)
Theorem C20_xhistory_refuted :
  exists h call,
    existsb is_reconf (strip h) = false /\
    xresult_after (option cfg) (fun c _ => c) h call <> xresult_fresh (option cfg) (fun c _ => c) call.
Proof.
  exists [XInterrupted 1 (OParse [115; 101; 108]%N)], (OParse [115; 101; 108]%N).
  split; [reflexivity|]. vm_compute. discriminate.
Qed.
Print Assumptions C20_xhistory_refuted.

Theorem C20_xhistory_refuted_silent :
  exists h call,
    existsb is_reconf (strip h) = false /\
    xresult_after (option cfg) (fun c _ => c) h call = Some cleared_cfg /\
    xresult_fresh (option cfg) (fun c _ => c) call = Some default_cfg /\
    cleared_cfg <> default_cfg.
Proof.
  exists [XInterrupted 3 (OParse [115; 101; 108]%N)], (OParse [115; 101; 108]%N).
  repeat split; try reflexivity. vm_compute. discriminate.
Qed.

(* exactly which interruption points are harmless: before the assignment, or after the last
   statement of default_initialization (checked for every k up to past the end) *)
Definition harmless (k : nat) : bool :=
  match xeff (xapply xfresh (XInterrupted k (OParse []))) with
  | Some c => cfg_eqb c default_cfg
  | None => false
  end.

Example interrupted_harmless_table :
  map harmless (seq 0 (xinit_len + 3))
  = map (fun k => Nat.eqb k 0 || Nat.leb xinit_len k) (seq 0 (xinit_len + 3)).
Proof. vm_compute. reflexivity. Qed.

Lemma interrupted_after_end k : xinit_len <= k -> interrupted_init k = interrupted_init xinit_len.
Proof.
  intros H. unfold interrupted_init, interrupted_init_of, xinit_len in *.
  rewrite !firstn_all2; [reflexivity| |]; lia.
Qed.

Theorem C20_interrupted_complete_is_harmless : forall k o,
  xinit_len <= k -> xeff (xapply xfresh (XInterrupted k o)) = xeff xfresh.
Proof.
  intros k o H. cbn [xapply]. destruct (touches_lexer o); [|reflexivity].
  cbn [xlexer xfresh]. unfold xeff. cbn [xlexer]. rewrite (interrupted_after_end k H).
  vm_compute. reflexivity.
Qed.

Example xinit_obs_table :
  map xinit_obs [0; 1; 2; 3; 4; 5]
  = [None; Some (false, (false, [])); Some (false, (false, [])); Some (true, (false, []));
     Some (true, (true, [])); Some (true, (true, [0]))].
Proof. vm_compute. reflexivity. Qed.

(* the hypotheses of the partial theorem are satisfiable on a non-trivial history *)
Example ex_xhistory_partial_hyps :
  let h := [XOp (OParse [1]%N); XOp OClear; XOp (OAddKw 100); XOp ODefaultInit; XOp (OSplit [2]%N)] in
  kf_interrupted_init h = false /\ ends_defaultb (strip h) = true
  /\ xeff (xrun h xfresh) = Some default_cfg.
Proof. vm_compute. repeat split. Qed.
