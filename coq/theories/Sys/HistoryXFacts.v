(* C20 -- interrupted initialisation.  Whether an exception during the FIRST initialisation of the
   default lexer can be observed later depends on the shape of the generated program, summarised by
   the generated flag [publishes_before_init] (Gen/SingletonProg.v), which is re-derived here from the
   instruction list ([publishes_flag_ok]):

   * [C20_xhistory_if_publishes_last]   flag = false -> the history theorem holds UNCONDITIONALLY,
     interrupted first initialisations included (nothing is published before it is complete: the next
     call starts from scratch);
   * [C20_xhistory_refuted_if_publishes] flag = true -> the history theorem is FALSE, with a witness
     that is replayed on the implementation (finding KF-C20-1);
   * [C20_xhistory_partial]              in both cases it holds for every history without an
     interrupted initialisation.
   Which case holds NOW is one vm_compute obligation in Inst/C20Finding.v (resp. Inst/C20Fixed.v).
   Generic in the program: every program of the publish-last shape has flag false
   ([new_shape_publishes_last]), every program of the publish-first shape has flag true
   ([old_shape_publishes_first]). *)
From Coq Require Import String.
From SqlModel Require Import Base.
From SqlModel.Sys Require Import Singleton History HistoryX.
From SqlModel.Gen Require Import SingletonProg StateInv.
From SqlModel.Sys Require Import SingletonFacts HistoryFacts.

Lemma xeff_emb st : xeff (emb st) = Some (eff st).
Proof. destruct st as [[c|]]; reflexivity. Qed.

Lemma xensure_emb st : xensure (emb st) = emb (ensure st).
Proof. destruct st as [[c|]]; reflexivity. Qed.

Lemma xapply_op_emb st o : xapply_op (emb st) o = emb (apply st o).
Proof.
  destruct o; cbn [xapply_op apply]; try (destruct (touches_lexer _); [apply xensure_emb|reflexivity]);
    try reflexivity; rewrite xensure_emb; destruct st as [[c|]]; reflexivity.
Qed.

Lemma xrun_emb : forall h st,
  kf_interrupted_init h = false -> xrun h (emb st) = emb (run_hist (strip h) st).
Proof.
  induction h as [|x h IH]; intros st Hk; [reflexivity|].
  cbn [kf_interrupted_init existsb] in Hk. destruct x as [o|k o]; [|discriminate].
  cbn [orb] in Hk. cbn [xrun fold_left strip map run_hist xapply].
  rewrite xapply_op_emb. apply (IH (apply st o) Hk).
Qed.

Section Results.
  Variable R : Type.
  Variable sem : option cfg -> op -> R.

  (* every history without an interrupted initialisation is covered, whatever the program shape *)
  Theorem C20_xhistory_partial : forall h call,
    kf_interrupted_init h = false -> ends_defaultb (strip h) = true ->
    xresult_after R sem h call = xresult_fresh R sem call.
  Proof.
    intros h call Hk He. unfold xresult_after, xresult_fresh, xresult.
    change xfresh with (emb fresh). rewrite (xrun_emb h fresh Hk), !xeff_emb.
    rewrite (C20_history_state _ He). reflexivity.
  Qed.
End Results.
Print Assumptions C20_xhistory_partial.

(* ============================== boolean equalities ============================================== *)
Lemma opt_nat_eqb_eq a b : opt_nat_eqb a b = true <-> a = b.
Proof.
  destruct a as [x|], b as [y|]; cbn [opt_nat_eqb]; split; intros H; try discriminate; try reflexivity.
  - apply Nat.eqb_eq in H. congruence.
  - injection H as ->. apply Nat.eqb_refl.
Qed.

Lemma cfg_eqb_eq a b : cfg_eqb a b = true <-> a = b.
Proof.
  destruct a as [r1 k1], b as [r2 k2]. unfold cfg_eqb. cbn [c_rx c_kws].
  rewrite andb_true_iff, opt_nat_eqb_eq, nat_list_eqb_eq. split.
  - intros [-> ->]. reflexivity.
  - intros H. injection H as -> ->. auto.
Qed.

Lemma lex_eqb_eq a b : lex_eqb a b = true <-> a = b.
Proof.
  destruct a as [|x], b as [|y]; cbn [lex_eqb]; split; intros H; try discriminate; try reflexivity.
  - apply cfg_eqb_eq in H. congruence.
  - injection H as ->. apply cfg_eqb_eq. reflexivity.
Qed.

Lemma forallb_false_witness {A} (f : A -> bool) l :
  forallb f l = false -> exists x, In x l /\ f x = false.
Proof.
  induction l as [|a l IH]; cbn [forallb]; intros H; [discriminate|].
  destruct (f a) eqn:E.
  - cbn [andb] in H. destruct (IH H) as (x & Hin & Hx). exists x. split; [right; assumption|assumption].
  - exists a. split; [left; reflexivity|assumption].
Qed.

(* ============================== generic in the program ========================================== *)
Lemma interrupted_of_after_end p k :
  length (init_steps p) <= k -> interrupted_init_of p k = interrupted_init_of p (length (init_steps p)).
Proof.
  intros H. unfold interrupted_init_of. rewrite !firstn_all2; [reflexivity| |]; lia.
Qed.

(* flag false: whatever the interruption point, either nothing is published or the finished lexer *)
Lemma publishes_last_spec p :
  publishes_before_initb p = false ->
  forall k, interrupted_init_of p k = None
            \/ interrupted_init_of p k = Some (LCfg (default_init_of p cleared_cfg)).
Proof.
  unfold publishes_before_initb. intros H k. apply negb_false_iff in H.
  assert (G : forall k', k' <= length (init_steps p) ->
              interrupted_init_of p k' = None
              \/ interrupted_init_of p k' = Some (LCfg (default_init_of p cleared_cfg))).
  { intros k' Hk'. rewrite forallb_forall in H.
    assert (Hin : In k' (seq 0 (S (length (init_steps p))))) by (apply in_seq; lia).
    specialize (H k' Hin). unfold harmless_of in H.
    destruct (interrupted_init_of p k') as [l|]; [|left; reflexivity].
    right. apply lex_eqb_eq in H. congruence. }
  destruct (Nat.le_gt_cases k (length (init_steps p))) as [Hle|Hgt].
  - apply G. exact Hle.
  - rewrite (interrupted_of_after_end p k) by lia. apply G. lia.
Qed.

(* flag true: some interruption point leaves a published instance that is not the finished lexer *)
Lemma publishes_first_spec p :
  publishes_before_initb p = true ->
  exists k l, interrupted_init_of p k = Some l /\ l <> LCfg (default_init_of p cleared_cfg).
Proof.
  unfold publishes_before_initb. intros H. apply negb_true_iff in H.
  apply forallb_false_witness in H. destruct H as (k & _ & Hk). unfold harmless_of in Hk.
  destruct (interrupted_init_of p k) as [l|] eqn:E; [|discriminate].
  exists k, l. split; [exact E|]. intros ->.
  assert (Ht : lex_eqb (LCfg (default_init_of p cleared_cfg)) (LCfg (default_init_of p cleared_cfg)) = true)
    by (apply lex_eqb_eq; reflexivity).
  congruence.
Qed.

(* ---- every program of the publish-last shape has flag false ---------------------------------- *)
Lemma is_obj_is_init i : is_obj i = true -> is_init_instr i = true.
Proof. destruct i; try discriminate; reflexivity. Qed.
Lemma is_obj_is_cfg i : is_obj i = is_cfg_instr i.
Proof. destruct i; reflexivity. Qed.

Lemma filter_all {A} (f : A -> bool) l : (forall x, In x l -> f x = true) -> filter f l = l.
Proof.
  induction l as [|a l IH]; intros H; [reflexivity|]. cbn [filter].
  rewrite (H a (or_introl eq_refl)). f_equal. apply IH. intros x Hx. apply H. right. exact Hx.
Qed.

Lemma body_all_obj e nw p body : shape e nw p body -> forall i, In i body -> is_obj i = true.
Proof. intros [_ (fin & Hex & _)] i Hin. eapply exec_body_is_obj; eauto. Qed.

Lemma init_steps_shape e nw p body :
  shape e nw p body ->
  init_steps p = if nw then INewLocal :: body ++ [IPublishSelf] else INewAssign :: ILoadSelf :: body.
Proof.
  intros Hs. pose proof (body_all_obj _ _ _ _ Hs) as Hb. destruct Hs as [-> _].
  assert (Hf : filter is_init_instr body = body)
    by (apply filter_all; intros x Hx; apply is_obj_is_init, Hb, Hx).
  unfold init_steps, prog_of. destruct nw; cbn [filter is_init_instr]; rewrite filter_app, Hf;
    cbn [filter is_init_instr]; [reflexivity|rewrite app_nil_r; reflexivity].
Qed.

Lemma init_body_shape e nw p body : shape e nw p body -> init_body p = body.
Proof.
  intros Hs. rewrite <- (shape_body _ _ _ _ Hs). unfold init_body.
  apply filter_ext. intros i. symmetry. apply is_obj_is_cfg.
Qed.

(* as long as nothing has been published, statements on the local object publish nothing *)
Lemma fold_exec_lex_unpublished l : forall loc,
  (forall i, In i l -> is_obj i = true) ->
  fold_left exec_lex l (None, loc) = (None, match loc with Some _ => fold_left upd_lex l loc | None => None end).
Proof.
  induction l as [|i l IH]; intros loc Hl; [destruct loc; reflexivity|].
  cbn [fold_left]. assert (Hi : is_obj i = true) by (apply Hl; left; reflexivity).
  assert (Hl' : forall i', In i' l -> is_obj i' = true) by (intros i' H'; apply Hl; right; exact H').
  destruct loc as [lo|].
  - assert (E : exec_lex (None, Some lo) i = (None, upd_lex (Some lo) i))
      by (destruct i; try discriminate; reflexivity).
    rewrite E. rewrite (IH _ Hl').
    assert (Hsome : exists lo', upd_lex (Some lo) i = Some lo').
    { destruct i; try discriminate; cbn [upd_lex]; [eexists; reflexivity| |];
        destruct lo; eexists; reflexivity. }
    destruct Hsome as [lo' ->]. reflexivity.
  - assert (E : exec_lex (None, None) i = (None, None)) by (destruct i; try discriminate; reflexivity).
    rewrite E. apply (IH None Hl').
Qed.

Lemma fold_upd_lex_cfg l : forall c,
  (forall i, In i l -> is_obj i = true) ->
  fold_left upd_lex l (Some (LCfg c)) = Some (LCfg (fold_left exec_cfg l c)).
Proof.
  induction l as [|i l IH]; intros c Hl; [reflexivity|]. cbn [fold_left].
  assert (Hi : is_obj i = true) by (apply Hl; left; reflexivity).
  assert (E : upd_lex (Some (LCfg c)) i = Some (LCfg (exec_cfg c i)))
    by (destruct i; try discriminate; reflexivity).
  rewrite E. apply IH. intros i' H'. apply Hl. right. exact H'.
Qed.

Lemma in_firstn_in {A} (x : A) : forall k l, In x (firstn k l) -> In x l.
Proof.
  induction k as [|k IH]; intros l H; [destruct H|]. destruct l as [|a l]; [destruct H|].
  cbn [firstn] in H. destruct H as [->|H]; [left; reflexivity|right; apply IH; exact H].
Qed.

Lemma firstn_cons_app_prefix {A} (a : A) body tl k :
  k <= S (length body) -> firstn k (a :: body ++ tl) = firstn k (a :: body).
Proof.
  intros H. destruct k as [|k]; [reflexivity|]. cbn [firstn]. f_equal.
  rewrite firstn_app. replace (k - length body) with 0 by lia. cbn [firstn]. apply app_nil_r.
Qed.

Theorem new_shape_publishes_last e p body :
  shape e true p body -> starts_with_clear (init_body p) = true -> publishes_before_initb p = false.
Proof.
  intros Hs Hclr. pose proof (body_all_obj _ _ _ _ Hs) as Hb.
  pose proof (init_steps_shape _ _ _ _ Hs) as Hst. cbn iota in Hst.
  pose proof (init_body_shape _ _ _ _ Hs) as Hib.
  unfold publishes_before_initb. apply negb_false_iff. apply forallb_forall. intros k Hk.
  apply in_seq in Hk. unfold harmless_of, interrupted_init_of. rewrite Hst in *.
  cbn [length] in Hk. rewrite app_length in Hk. cbn [length] in Hk.
  destruct (Nat.le_gt_cases k (S (length body))) as [Hle|Hgt].
  - (* the publication has not happened *)
    rewrite firstn_cons_app_prefix by exact Hle.
    destruct k as [|k]; [reflexivity|]. cbn [firstn fold_left exec_lex fst snd].
    rewrite fold_exec_lex_unpublished; [reflexivity|].
    intros i Hi. apply Hb. exact (in_firstn_in _ _ _ Hi).
  - (* everything ran: the finished object is published *)
    rewrite firstn_all2 by (cbn [length]; rewrite app_length; cbn [length]; lia).
    cbn [fold_left exec_lex fst snd]. rewrite fold_left_app.
    rewrite fold_exec_lex_unpublished by exact Hb. cbn [fold_left].
    unfold default_init_of. rewrite Hib in *.
    destruct body as [|i0 b']; [discriminate|]. destruct i0; try discriminate.
    cbn [fold_left upd_lex exec_cfg].
    rewrite fold_upd_lex_cfg by (intros i Hi; apply Hb; right; exact Hi).
    cbn [exec_lex snd fst]. apply lex_eqb_eq. reflexivity.
Qed.
Print Assumptions new_shape_publishes_last.

(* ---- ... and every program of the publish-first shape has flag true --------------------------- *)
Theorem old_shape_publishes_first e p body : shape e false p body -> publishes_before_initb p = true.
Proof.
  intros Hs. pose proof (init_steps_shape _ _ _ _ Hs) as Hst. cbn iota in Hst.
  unfold publishes_before_initb. apply negb_true_iff.
  destruct (forallb (harmless_of p) (seq 0 (S (length (init_steps p))))) eqn:E; [|reflexivity].
  exfalso. rewrite forallb_forall in E.
  assert (Hin : In 1 (seq 0 (S (length (init_steps p))))).
  { apply in_seq. rewrite Hst. cbn [length]. lia. }
  specialize (E 1 Hin). unfold harmless_of, interrupted_init_of in E. rewrite Hst in E.
  cbn [firstn fold_left exec_lex fst snd lex_eqb] in E. discriminate.
Qed.
Print Assumptions old_shape_publishes_first.

(* ============================== the generated program =========================================== *)
(* the translator's syntactic flag agrees with what the instruction list does (both sources) *)
Lemma publishes_flag_ok : publishes_before_init = publishes_before_initb get_default_instance_prog.
Proof. vm_compute. reflexivity. Qed.

(* ... and with the shape found by the structural check *)
Lemma publishes_flag_shape :
  shape_of expected_kws get_default_instance_prog = Some (negb publishes_before_init).
Proof. vm_compute. reflexivity. Qed.

Lemma interrupted_after_end k : xinit_len <= k -> interrupted_init k = interrupted_init xinit_len.
Proof. intros H. apply interrupted_of_after_end. exact H. Qed.

Definition xop_op (x : xop) : op := match x with XOp o => o | XInterrupted _ o => o end.

Section PublishesLast.
  (* nothing but the finished lexer is ever published.  (The section is stated over this consequence
     of "flag = false" rather than over the flag, so that no tactic can decide the hypothesis by
     computation: the scripts below are the same whichever shape the source has.) *)
  Hypothesis interrupted_none_or_default : forall k,
    interrupted_init k = None \/ interrupted_init k = Some (LCfg default_cfg).

  (* one (possibly interrupted) operation on a state without bare instance: no bare instance
     afterwards; a default_initialization() restores the default; a call changes nothing visible *)
  Lemma xapply_emb st x :
    exists st', xapply (emb st) x = emb st'
      /\ (is_default_init (xop_op x) = true -> eff st' = default_cfg)
      /\ (is_reconf (xop_op x) = false -> eff st' = eff st).
  Proof.
    assert (Hop : forall o, exists st', xapply_op (emb st) o = emb st'
                   /\ (is_default_init o = true -> eff st' = default_cfg)
                   /\ (is_reconf o = false -> eff st' = eff st)).
    { intros o. exists (apply st o). split; [apply xapply_op_emb|]. split.
      - intros Hd. destruct o; try discriminate. apply C20_reinit_eff.
      - intros Hr. apply C20_calls_pure_eff. exact Hr. }
    destruct x as [o|k o]; cbn [xapply xop_op]; [apply Hop|].
    destruct (touches_lexer o) eqn:Ht.
    - destruct st as [[c|]]; cbn [emb xlexer lexer option_map].
      + apply (Hop o).
      + (* the first initialisation is interrupted: nothing, or the finished lexer, is left *)
        destruct (interrupted_none_or_default k) as [->| ->].
        * exists (mkP None). split; [reflexivity|]. split; intros _; reflexivity.
        * exists (mkP (Some default_cfg)). split; [reflexivity|]. split; intros _; reflexivity.
    - exists st. split; [reflexivity|]. split; [|reflexivity].
      intros Hd. destruct o; discriminate.
  Qed.

  Lemma xrun_default : forall h st b,
    (b = true -> eff st = default_cfg) ->
    fold_left (fun b o => if is_reconf o then is_default_init o else b) (strip h) b = true ->
    exists st', xrun h (emb st) = emb st' /\ eff st' = default_cfg.
  Proof.
    induction h as [|x h IH]; intros st b Hb He; cbn [strip map fold_left xrun] in *.
    - exists st. split; [reflexivity|]. apply Hb. exact He.
    - destruct (xapply_emb st x) as (st1 & E1 & Hd & Hr). rewrite E1.
      fold (xrun h (emb st1)). fold (strip h) in He.
      apply (IH st1 (if is_reconf (xop_op x) then is_default_init (xop_op x) else b)).
      + destruct (is_reconf (xop_op x)) eqn:Er.
        * exact Hd.
        * intros Hb'. rewrite (Hr eq_refl). apply Hb. exact Hb'.
      + destruct x as [o|k o]; exact He.
  Qed.

  Section Results.
    Variable R : Type.
    Variable sem : option cfg -> op -> R.

    (* THE history theorem, interrupted first initialisations included *)
    Theorem xhistory_publishes_last : forall h call,
      ends_defaultb (strip h) = true ->
      xresult_after R sem h call = xresult_fresh R sem call.
    Proof.
      intros h call He. unfold xresult_after, xresult_fresh, xresult.
      change xfresh with (emb fresh).
      destruct (xrun_default h fresh true (fun _ => eq_refl) He) as (st' & -> & Hd).
      rewrite !xeff_emb, Hd. reflexivity.
    Qed.
  End Results.

  (* no bare (attribute-less) instance is ever left behind *)
  Theorem never_bare_publishes_last : forall h, xlexer (xrun h xfresh) <> Some LBare.
  Proof.
    intros h. change xfresh with (emb fresh).
    assert (G : forall h st, exists st', xrun h (emb st) = emb st').
    { clear h. induction h as [|x h IH]; intros st; [exists st; reflexivity|].
      cbn [xrun fold_left]. destruct (xapply_emb st x) as (st1 & -> & _). apply IH. }
    destruct (G h fresh) as (st' & ->). destruct st' as [[c|]]; discriminate.
  Qed.
End PublishesLast.

Lemma flag_false_interrupted :
  publishes_before_init = false ->
  forall k, interrupted_init k = None \/ interrupted_init k = Some (LCfg default_cfg).
Proof.
  intros Hlast. apply (publishes_last_spec get_default_instance_prog).
  rewrite <- publishes_flag_ok. exact Hlast.
Qed.

(* THE history theorem, interrupted first initialisations included, when nothing is published before
   it is complete *)
Theorem C20_xhistory_if_publishes_last :
  publishes_before_init = false ->
  forall (R : Type) (sem : option cfg -> op -> R) h call,
    ends_defaultb (strip h) = true ->
    xresult_after R sem h call = xresult_fresh R sem call.
Proof.
  intros Hlast R sem. exact (xhistory_publishes_last (flag_false_interrupted Hlast) R sem).
Qed.
Print Assumptions C20_xhistory_if_publishes_last.

(* ... and no attribute-less instance is ever left behind *)
Theorem C20_never_bare_if_publishes_last :
  publishes_before_init = false -> forall h, xlexer (xrun h xfresh) <> Some LBare.
Proof. intros Hlast. exact (never_bare_publishes_last (flag_false_interrupted Hlast)). Qed.

(* The full statement is false when the instance is published first: an interruption point leaves a
   published instance that is not the finished lexer; the next call works with it. *)
Theorem C20_xhistory_refuted_if_publishes :
  publishes_before_init = true ->
  exists h call,
    existsb is_reconf (strip h) = false /\
    xresult_after (option cfg) (fun c _ => c) h call <> xresult_fresh (option cfg) (fun c _ => c) call.
Proof.
  intros Hp. rewrite publishes_flag_ok in Hp.
  destruct (publishes_first_spec _ Hp) as (k & l & Hk & Hl).
  exists [XInterrupted k (OParse [])], (OParse []). split; [reflexivity|].
  unfold xresult_after, xresult_fresh, xresult. cbn [xrun fold_left xapply touches_lexer xlexer xfresh].
  fold (interrupted_init k). unfold interrupted_init. rewrite Hk. unfold xeff. cbn [xlexer].
  destruct l as [|c]; [discriminate|].
  intros E. injection E as ->. apply Hl. reflexivity.
Qed.
Print Assumptions C20_xhistory_refuted_if_publishes.

(* Concrete witnesses for the publish-first shape.  Witness 1: interrupted right after the assignment
   -> the instance has no attributes: every later call raises AttributeError.  Witness 2: interrupted
   inside set_SQL_REGEX (3 statements done) -> empty rule list, no dictionaries: every later call
   silently yields one Error token per character.  No reconfiguration operation in either history.
   (Proof script valid for both sources: the hypothesis is decided by computation.) *)
Theorem C20_xhistory_refuted_witness :
  publishes_before_init = true ->
  let h := [XInterrupted 1 (OParse [115; 101; 108]%N)] in
  let call := OParse [115; 101; 108]%N in
  existsb is_reconf (strip h) = false /\
  xresult_after (option cfg) (fun c _ => c) h call = None /\
  xresult_fresh (option cfg) (fun c _ => c) call = Some default_cfg.
Proof.
  vm_compute. intros H; first [discriminate H | repeat split].
Qed.

Theorem C20_xhistory_refuted_silent :
  publishes_before_init = true ->
  exists h call,
    existsb is_reconf (strip h) = false /\
    xresult_after (option cfg) (fun c _ => c) h call = Some cleared_cfg /\
    xresult_fresh (option cfg) (fun c _ => c) call = Some default_cfg /\
    cleared_cfg <> default_cfg.
Proof.
  intros H. exists [XInterrupted 3 (OParse [115; 101; 108]%N)], (OParse [115; 101; 108]%N).
  revert H. vm_compute. intros H; first [discriminate H | (repeat split; discriminate)].
Qed.

(* the dichotomy, decided by the generated flag: exactly one of the two holds *)
Theorem C20_xhistory_dichotomy :
  (publishes_before_init = false /\
   forall (R : Type) (sem : option cfg -> op -> R) h call,
     ends_defaultb (strip h) = true -> xresult_after R sem h call = xresult_fresh R sem call)
  \/ (publishes_before_init = true /\
      exists h call,
        existsb is_reconf (strip h) = false /\
        xresult_after (option cfg) (fun c _ => c) h call <> xresult_fresh (option cfg) (fun c _ => c) call).
Proof.
  destruct publishes_before_init eqn:E.
  - right. split; [reflexivity|]. apply C20_xhistory_refuted_if_publishes. exact E.
  - left. split; [reflexivity|]. exact (C20_xhistory_if_publishes_last E).
Qed.
Print Assumptions C20_xhistory_dichotomy.

(* the two are never both true *)
Lemma xhistory_not_both :
  (forall h call, ends_defaultb (strip h) = true ->
     xresult_after (option cfg) (fun c _ => c) h call = xresult_fresh (option cfg) (fun c _ => c) call) ->
  (exists h call, existsb is_reconf (strip h) = false /\
     xresult_after (option cfg) (fun c _ => c) h call <> xresult_fresh (option cfg) (fun c _ => c) call) ->
  False.
Proof.
  intros Hall (h & call & Hnr & Hne). apply Hne. apply Hall.
  unfold ends_defaultb. clear Hne.
  assert (G : forall l b, existsb is_reconf l = false ->
              fold_left (fun b o => if is_reconf o then is_default_init o else b) l b = b).
  { induction l as [|o l IH]; intros b H; [reflexivity|]. cbn [existsb] in H.
    apply orb_false_iff in H. destruct H as [Ho Hl]. cbn [fold_left]. rewrite Ho. apply IH. exact Hl. }
  apply G. exact Hnr.
Qed.

(* one statement covering both sources: the guard "no interrupted initialisation" is needed only while
   the instance is published before it is initialised *)
Theorem C20_xhistory_guarded : forall (R : Type) (sem : option cfg -> op -> R) h call,
  publishes_before_init = false \/ kf_interrupted_init h = false ->
  ends_defaultb (strip h) = true ->
  xresult_after R sem h call = xresult_fresh R sem call.
Proof.
  intros R sem h call [Hl|Hk] He.
  - apply C20_xhistory_if_publishes_last; assumption.
  - apply C20_xhistory_partial; assumption.
Qed.
Print Assumptions C20_xhistory_guarded.

(* exactly which interruption points are harmless: before anything is published, or after the last
   statement of the initialisation sequence (checked for every k up to past the end).  Publish-first:
   only k = 0 and k >= xinit_len; publish-last: every k. *)
Definition harmless (k : nat) : bool :=
  match xeff (xapply xfresh (XInterrupted k (OParse []))) with
  | Some c => cfg_eqb c default_cfg
  | None => false
  end.

Example interrupted_harmless_table :
  map harmless (seq 0 (xinit_len + 3))
  = map (fun k => negb publishes_before_init || Nat.eqb k 0 || Nat.leb xinit_len k) (seq 0 (xinit_len + 3)).
Proof. vm_compute. reflexivity. Qed.

Theorem C20_interrupted_complete_is_harmless : forall k o,
  xinit_len <= k -> xeff (xapply xfresh (XInterrupted k o)) = xeff xfresh.
Proof.
  intros k o H. cbn [xapply]. destruct (touches_lexer o); [|reflexivity].
  cbn [xlexer xfresh]. unfold xeff. cbn [xlexer]. rewrite (interrupted_after_end k H).
  vm_compute. reflexivity.
Qed.

(* the states the driver command `xinit` prints, for both reference programs *)
Definition xinit_obs_of (p : list instr) (k : nat) : option (bool * (bool * list nat)) :=
  match interrupted_init_of p k with
  | None => None
  | Some LBare => Some (false, (false, []))
  | Some (LCfg c) => Some (true, (match c_rx c with Some _ => true | None => false end, c_kws c))
  end.

Example xinit_obs_table_old :
  map (xinit_obs_of old_prog) [0; 1; 2; 3; 4; 5]
  = [None; Some (false, (false, [])); Some (false, (false, [])); Some (true, (false, []));
     Some (true, (true, [])); Some (true, (true, [0]))].
Proof. vm_compute. reflexivity. Qed.

Example xinit_obs_table_new :
  map (xinit_obs_of new_prog) (seq 0 (length (init_steps new_prog)))
  = repeat None (length (init_steps new_prog))
  /\ xinit_obs_of new_prog (length (init_steps new_prog)) = Some (true, (true, expected_kws)).
Proof. vm_compute. split; reflexivity. Qed.

Example xinit_obs_is_of : forall k, xinit_obs k = xinit_obs_of get_default_instance_prog k.
Proof. reflexivity. Qed.

Example flags_of_reference_programs :
  publishes_before_initb old_prog = true /\ publishes_before_initb new_prog = false.
Proof. vm_compute. split; reflexivity. Qed.

(* a local that is published BEFORE it is initialised (x = cls(); cls._default_instance = x;
   x.default_initialization()) is the same defect: the statements act on the published object *)
Definition publish_early_prog : list instr :=
  IAcquire :: IJumpIfInst (4 + length gen_body) :: INewLocal :: IPublishSelf :: gen_body ++ [IRelease; IReturn].
Example publish_early_flag :
  publishes_before_initb publish_early_prog = true /\ well_locked expected_kws publish_early_prog = false
  /\ map (xinit_obs_of publish_early_prog) [0; 1; 2; 3; 4]
     = [None; None; Some (false, (false, [])); Some (true, (false, [])); Some (true, (true, []))].
Proof. vm_compute. repeat split. Qed.

(* the hypotheses of the partial theorem are satisfiable on a non-trivial history *)
Example ex_xhistory_partial_hyps :
  let h := [XOp (OParse [1]%N); XOp OClear; XOp (OAddKw 100); XOp ODefaultInit; XOp (OSplit [2]%N)] in
  kf_interrupted_init h = false /\ ends_defaultb (strip h) = true
  /\ xeff (xrun h xfresh) = Some default_cfg.
Proof. vm_compute. repeat split. Qed.

(* a history with interrupted initialisations satisfying the hypothesis of the unconditional theorem *)
Example ex_xhistory_interrupted_hyps :
  let h := [XInterrupted 2 (OParse [1]%N); XInterrupted 5 (OSplit [2]%N); XOp (OParse [1]%N);
            XOp OClear; XInterrupted 4 ODefaultInit; XOp (OSplit [2]%N)] in
  kf_interrupted_init h = true /\ ends_defaultb (strip h) = true.
Proof. vm_compute. split; reflexivity. Qed.
