(* Types shared by the generated description of the command line front end (Gen/CliTab.v, extracted
   from the AST of sqlparse/cli.py by tools/regen/gen_cli.py) and the hand-written model of
   argparse + cli.main (Sys/CliDefs.v).  Definitions only. *)
From SqlModel Require Import Base.
From SqlModel.Filters Require Import OptDefs.

(* the `action=` of an add_argument call (absent = 'store'); -h/--help is the action argparse adds
   itself when the parser is built with add_help=True (the default) *)
Inductive cli_action := ActStore | ActStoreTrue | ActHelp | ActVersion.

(* the `type=` of an add_argument call: absent (the string itself), int, bool *)
Inductive cli_type := TyNone | TyInt | TyBool.

(* one action of the parser, in the order of parser._actions *)
Record cli_arg := {
  ca_flags : list text;             (* option strings; [] for the positional *)
  ca_dest : text;                   (* attribute of the namespace *)
  ca_action : cli_action;
  ca_type : cli_type;
  ca_default : option pval;         (* None = argparse.SUPPRESS: no attribute unless the flag is used *)
  ca_choices : option (list text)   (* choices= (only with type absent) *)
}.

(* where the `encoding=` of an open()/TextIOWrapper() call comes from *)
Inductive enc_src :=
| EncArgs                   (* encoding=args.encoding *)
| EncConst (name : text).   (* encoding='<a constant>' *)

(* the `newline=` of an open()/TextIOWrapper() call *)
Inductive nl_mode :=
| NlUniversal               (* absent or None: reading translates CR LF and CR to LF; writing
                               translates LF to os.linesep *)
| NlNone.                   (* '' or '\n': nothing is translated in either direction *)

Record open_spec := { os_enc : enc_src; os_nl : nl_mode }.

Definition enc_src_is_args (e : enc_src) : bool := match e with EncArgs => true | EncConst _ => false end.
Definition nl_is_universal (m : nl_mode) : bool := match m with NlUniversal => true | NlNone => false end.
