(* Executable model of the front ends of sqlparse: what `Lexer.get_tokens` does with its `text`
   argument (str | bytes [+ encoding] | text stream | anything else) before lexing, and the public
   entry points parse / parsestream / split / format as "decode, then the text function".
   Includes a total model of CPython's `bytes.decode('unicode-escape')` (errors='strict'), the
   codec the lexer falls back to for bytes that are not UTF-8.
   Definitions only; the facts are in FrontendsFacts.v. *)
From SqlModel Require Import Base PyStr Utf8 Lexer.
From SqlModel.Sys Require Import FrontDefs.
From SqlModel.Gen Require Import CaseTabs.
From SqlModel.Gen Require Frontends.
From SqlModel.Inst Require Import Cur.
Local Open Scope N_scope.

(* ---- bytes.decode('unicode-escape'), errors='strict' (CPython 3.12 unicodeobject.c,
        _PyUnicode_DecodeUnicodeEscapeInternal) ------------------------------------------------ *)

Definition oct_digit (b : N) : option N :=
  if (48 <=? b) && (b <=? 55) then Some (b - 48) else None.

Definition hex_digit (b : N) : option N :=
  if (48 <=? b) && (b <=? 57) then Some (b - 48)
  else if (97 <=? b) && (b <=? 102) then Some (b - 87)
  else if (65 <=? b) && (b <=? 70) then Some (b - 55)
  else None.

(* the byte after a backslash *)
Inductive esc_kind :=
| ESkip                (* \<newline>: nothing *)
| EChar (c : N)        (* \\ \quote \dquote \a \b \f \n \r \t \v *)
| EOctal (d : N)       (* \o, \oo, \ooo *)
| EHexN (k : nat)      (* \xhh \uXXXX \UXXXXXXXX *)
| EName                (* \N{...} *)
| EUnknown.            (* kept verbatim (CPython emits a DeprecationWarning) *)

Definition esc_class (b : N) : esc_kind :=
  if b =? 10 then ESkip
  else if b =? 92 then EChar 92
  else if b =? 39 then EChar 39
  else if b =? 34 then EChar 34
  else if b =? 98 then EChar 8        (* \b *)
  else if b =? 102 then EChar 12      (* \f *)
  else if b =? 116 then EChar 9       (* \t *)
  else if b =? 110 then EChar 10      (* \n *)
  else if b =? 114 then EChar 13      (* \r *)
  else if b =? 118 then EChar 11      (* \v *)
  else if b =? 97 then EChar 7        (* \a *)
  else match oct_digit b with
       | Some d => EOctal d
       | None =>
           if b =? 120 then EHexN 2         (* x *)
           else if b =? 117 then EHexN 4    (* u *)
           else if b =? 85 then EHexN 8     (* U *)
           else if b =? 78 then EName       (* N *)
           else EUnknown
       end.

(* decoder state: one byte is consumed per step *)
Inductive ust :=
| UNorm                      (* between escapes *)
| UEsc                       (* just after a backslash *)
| UOct (k : nat) (v : N)     (* inside an octal escape: up to k more digits, value so far v *)
| UHex (k : nat) (v : N)     (* inside \x \u \U: exactly k more hex digits *)
| UNameOpen                  (* after \N: a '{' must follow *)
| UName (nonempty : bool).   (* inside \N{ ... *)

(* \N{name}: the character database is not modelled.  If name is unknown CPython raises
   UnicodeDecodeError at once; if it is known decoding goes on.  So when the rest of the input
   contains a definite error the result is UnicodeDecodeError either way; otherwise Stuck. *)
Definition stuck_after (r : res (list N)) : res (list N) :=
  match r with Ok _ => Err Stuck | Err e => Err e end.

Fixpoint ue_go (st : ust) (bs : list N) : res (list N) :=
  match bs with
  | [] =>
      match st with
      | UNorm => Ok []
      | UOct _ v => Ok [v]
      | _ => Err UnicodeDecodeError     (* backslash at end of string, truncated \x.., malformed \N *)
      end
  | b :: r =>
      let norm := if b =? 92 then ue_go UEsc r else rcons b (ue_go UNorm r) in
      match st with
      | UNorm => norm
      | UEsc =>
          match esc_class b with
          | ESkip => ue_go UNorm r
          | EChar c => rcons c (ue_go UNorm r)
          | EOctal d => ue_go (UOct 2 d) r
          | EHexN k => ue_go (UHex k 0) r
          | EName => ue_go UNameOpen r
          | EUnknown => rcons 92 (rcons b (ue_go UNorm r))
          end
      | UOct k v =>
          match k, oct_digit b with
          | S k', Some d => ue_go (UOct k' (v * 8 + d)) r
          | _, _ => rcons v norm
          end
      | UHex k v =>
          match hex_digit b with
          | None => Err UnicodeDecodeError                 (* truncated \xXX escape *)
          | Some d =>
              let v' := v * 16 + d in
              match k with
              | S (S k') => ue_go (UHex (S k') v') r
              | _ => if v' <=? 0x10FFFF then rcons v' (ue_go UNorm r)
                     else Err UnicodeDecodeError           (* illegal Unicode character *)
              end
          end
      | UNameOpen => if b =? 123 then ue_go (UName false) r else Err UnicodeDecodeError
      | UName ne =>
          if b =? 125 then (if ne then stuck_after (ue_go UNorm r) else Err UnicodeDecodeError)
          else ue_go (UName true) r
      end
  end.

Definition is_byte (b : N) : bool := b <? 256.

(* total: a list with an element >= 256 is not a bytes object; rejected like the other decoders do *)
Definition unicode_escape_decode (bs : list N) : res (list N) :=
  if forallb is_byte bs then ue_go UNorm bs else Err UnicodeDecodeError.

(* ---- the argument of parse/split/format ------------------------------------------------------ *)
Inductive codec :=
| CUtf8
| CLatin1
| COther (decode : list N -> res (list N)).   (* any other codec name: its strict decoder; an
                                                 unknown name is `fun _ => Err LookupError` *)

Inductive input :=
| IStr (s : list N)                            (* a str *)
| IBytes (bs : list N) (enc : option codec)    (* bytes, with a (truthy) `encoding` or without *)
| IStream (s : list N)                         (* an io.TextIOBase whose read() returns s *)
| IOther.                                      (* anything else: bytearray, BytesIO, None, ... *)

Definition codec_decode (c : codec) (bs : list N) : res (list N) :=
  match c with
  | CUtf8 => utf8_decode bs
  | CLatin1 => latin1_decode bs
  | COther d => d bs
  end.

Definition fallback_decode (fb : fbcodec) (bs : list N) : res (list N) :=
  match fb with
  | FbUnicodeEscape => unicode_escape_decode bs
  | FbLatin1 => latin1_decode bs
  end.

(* Lexer.get_tokens, the part before the lexing loop; parametrised by the fallback codec so that
   the theorems say which part depends on it *)
Definition decode_input_with (fb : fbcodec) (i : input) : res (list N) :=
  match i with
  | IStream s => Ok s            (* text = text.read(); then isinstance(text, str) *)
  | IStr s => Ok s
  | IBytes bs (Some c) => codec_decode c bs
  | IBytes bs None =>
      match utf8_decode bs with
      | Ok s => Ok s
      | Err UnicodeDecodeError => fallback_decode fb bs
      | Err e => Err e
      end
  | IOther => Err TypeError
  end.

(* with the fallback codec found in the current source *)
Definition decode_input : input -> res (list N) := decode_input_with Frontends.fe_fallback.

(* ---- the entry points: decode, then the text function ---------------------------------------- *)
Definition api {A : Type} (f : list N -> res A) (i : input) : res A :=
  t <- decode_input i ;; f t.

Definition api_parse : input -> res (list Node.node) := api cur_parse.
(* parsestream: the same generator, observed by exhausting it *)
Definition api_parsestream : input -> res (list Node.node) := api cur_parse.

(* split(): [str(stmt).strip() for stmt in stack.run(sql, encoding)] *)
Definition split_strings (stmts : list (list tok)) : list (list N) :=
  map (fun st => strip space_set (flat_map snd st)) stmts.
Definition split_text (t : list N) : res (list (list N)) :=
  stmts <- cur_split_stream t ;; Ok (split_strings stmts).
Definition api_split : input -> res (list (list N)) := api split_text.

(* format(sql, encoding, **options): the filter stack built from `options` does not depend on
   sql/encoding; it is an arbitrary text function here *)
Definition api_format (fmt : list N -> res (list N)) : input -> res (list N) := api fmt.
(* the statements that reach the serializer when no option is set *)
Definition api_format_plain : input -> res (list (list tok)) := api cur_split_stream.

(* ---- the facts about the source the model relies on (Gen/Frontends.v) ------------------------ *)
Definition fe_expected : list (fe_name * fe_name * fe_wrap) :=
  [ (FParse, FParsestream, WTuple);
    (FParsestream, FRun, WReturn);
    (FFormat, FRun, WJoin);
    (FSplit, FRun, WStripList);
    (FRun, FTokenize, WStream);
    (FTokenize, FGetTokens, WReturn) ].

Definition fe_args_ok (l : list fe_arg) : bool :=
  match l with [ASql; AEnc] => true | _ => false end.

Definition fe_fun_ok (f : fe_fun) (e : fe_name * fe_name * fe_wrap) : bool :=
  let '(n, c, w) := e in
  fe_name_eqb (ff_name f) n && fe_name_eqb (ff_callee f) c && fe_wrap_eqb (ff_wrap f) w
  && fe_args_ok (ff_args f) && Nat.eqb (ff_kwargs f) 0 && Nat.eqb (ff_other_uses f) 0.

Fixpoint fe_all_ok (fs : list fe_fun) (es : list (fe_name * fe_name * fe_wrap)) : bool :=
  match fs, es with
  | [], [] => true
  | f :: fs', e :: es' => fe_fun_ok f e && fe_all_ok fs' es'
  | _, _ => false
  end.

(* every entry point passes (sql, encoding) unchanged, positionally, exactly once, down to
   Lexer.get_tokens; nothing else in these functions reads or re-binds them; get_tokens does not
   re-bind `text` or read `encoding` after the ladder *)
Definition fe_single_decode : bool :=
  fe_all_ok Frontends.fe_funs fe_expected
  && Nat.eqb Frontends.fe_late_text_stores 0 && Nat.eqb Frontends.fe_late_encoding_uses 0.

(* parse(sql, encoding) = tuple(parsestream(sql, encoding)) *)
Definition fe_parse_is_tuple_parsestream : bool :=
  match Frontends.fe_funs with
  | f :: _ => fe_fun_ok f (FParse, FParsestream, WTuple)
  | [] => false
  end.
