(* C20 -- history independence: the public API as a state machine over the abstract PERSISTENT state.

   Part 1: the vocabulary of the generated inventory Gen/StateInv.v (tools/regen/gen_state.py) and the
           rule [state_ok] every binding of the package has to satisfy: the only persistent state that is
           ever written after import is the configuration of the default Lexer, and it is written only by
           the five configuration methods.
   Part 2: the state machine.  The persistent state is [lexer : option cfg] (None = no default instance
           yet).  parse/split/format/parsestream READ the configuration (creating the default instance
           on first use) and never write it; clear/set_SQL_REGEX/add_keywords/default_initialization
           write it.  The effect of default_initialization() is obtained by executing the instructions
           of the GENERATED program Gen/SingletonProg.v (the inlined body of default_initialization).

   Everything here is executable; the proofs are in Sys/HistoryFacts.v. *)
From Coq Require Import String.     (* before Base: List's length/concat/... must win *)
From SqlModel Require Import Base.
From SqlModel.Sys Require Import Singleton.
From SqlModel.Gen Require Import SingletonProg.

Notation str := String.string (only parsing).

(* ============================== Part 1: inventory vocabulary ==================================== *)
Inductive kind :=
| KImmutable    (* str/number/None/tuple of immutables/token type/compiled regex/sentinel/function/class *)
| KConstTable   (* list/dict/set object bound at module or class level: admissible iff never written *)
| KLexerConfig  (* Lexer._default_instance, Lexer._lock, Lexer#_SQL_REGEX, Lexer#_keywords *)
| KTokenAttr    (* attributes of _TokenType instances (created by _TokenType.__getattr__) *)
| KOther.       (* anything else: persistent mutable state the model does not know *)

Inductive scope := SApi | SCli.

Record binding := mkBinding {
  b_name : str;
  b_kind : kind;
  b_writers : list str;     (* functions containing a write site for this binding (after import) *)
  b_stable : bool;          (* deep fingerprint unchanged by the probe workload in a fresh interpreter *)
  b_scope : scope }.

Definition smem (s : str) (l : list str) : bool := existsb (String.eqb s) l.

Definition lexer_config_writers : list str :=
  [ "sqlparse.lexer.Lexer.clear"%string;
    "sqlparse.lexer.Lexer.set_SQL_REGEX"%string;
    "sqlparse.lexer.Lexer.add_keywords"%string;
    "sqlparse.lexer.Lexer.default_initialization"%string;
    "sqlparse.lexer.Lexer.get_default_instance"%string ].

Definition tokenattr_writers : list str := [ "sqlparse.tokens._TokenType.__getattr__"%string ].

Definition required_config : list str :=
  [ "sqlparse.lexer.Lexer._default_instance"%string;
    "sqlparse.lexer.Lexer._lock"%string;
    "sqlparse.lexer.Lexer#_SQL_REGEX"%string;
    "sqlparse.lexer.Lexer#_keywords"%string ].

Definition is_nil {A} (l : list A) : bool := match l with [] => true | _ => false end.
Definition is_config (k : kind) : bool := match k with KLexerConfig => true | _ => false end.

Definition state_ok (b : binding) : bool :=
  b_stable b &&
  match b_kind b with
  | KImmutable | KConstTable => is_nil (b_writers b)
  | KLexerConfig => smem (b_name b) required_config
                    && forallb (fun w => smem w lexer_config_writers) (b_writers b)
  | KTokenAttr => forallb (fun w => smem w tokenattr_writers) (b_writers b)
  | KOther => false
  end.

(* the four configuration bindings the state machine below is about do exist in the inventory *)
Definition has_config (bs : list binding) : bool :=
  forallb (fun n => existsb (fun b => String.eqb (b_name b) n && is_config (b_kind b)) bs) required_config.

Definition inventory_ok (bs : list binding) (tt_uses : list (str * str * bool))
           (created_tt created_attrs changed_defaults : list str) : bool :=
  forallb state_ok bs && has_config bs
  && forallb (fun u => snd u) tt_uses            (* every T.<path> of the package exists after import *)
  && is_nil created_tt && is_nil created_attrs && is_nil changed_defaults.

(* ============================== Part 2: the state machine ====================================== *)
(* abstract configuration of a Lexer: which rule list is installed (None = the empty list left by
   clear()), and the keyword dictionaries in lookup order.  Identifiers: rule list 0 =
   keywords.SQL_REGEX; dictionary k < |expected_kws| = the k-th dictionary of
   default_initialization; anything else = user supplied. *)
Record cfg := mkCfg { c_rx : option nat; c_kws : list nat }.
Definition cleared_cfg : cfg := mkCfg None [].
Definition default_rx : nat := 0.

Definition opt_nat_eqb (a b : option nat) : bool :=
  match a, b with
  | None, None => true
  | Some x, Some y => Nat.eqb x y
  | _, _ => false
  end.
Definition cfg_eqb (a b : cfg) : bool := opt_nat_eqb (c_rx a) (c_rx b) && nat_list_eqb (c_kws a) (c_kws b).

(* the statements of default_initialization on a configuration *)
Definition exec_cfg (c : cfg) (i : instr) : cfg :=
  match i with
  | IClear => cleared_cfg
  | ISetRegex => mkCfg (Some default_rx) (c_kws c)
  | IAddKw k => mkCfg (c_rx c) (c_kws c ++ [k])
  | _ => c
  end.

Definition is_cfg_instr (i : instr) : bool :=
  match i with IClear | ISetRegex | IAddKw _ => true | _ => false end.

Definition init_body (p : list instr) : list instr := filter is_cfg_instr p.
Definition default_init_of (p : list instr) (c : cfg) : cfg := fold_left exec_cfg (init_body p) c.
Definition starts_with_clear (l : list instr) : bool :=
  match l with IClear :: _ => true | _ => false end.

(* the generated program *)
Definition default_init : cfg -> cfg := default_init_of get_default_instance_prog.
Definition default_cfg : cfg := default_init cleared_cfg.

Record pstate := mkP { lexer : option cfg }.
Definition fresh : pstate := mkP None.

(* the configuration a call works with: get_default_instance() creates and initialises on demand *)
Definition eff (st : pstate) : cfg := match lexer st with Some c => c | None => default_cfg end.
Definition ensure (st : pstate) : pstate := match lexer st with Some _ => st | None => mkP (Some default_cfg) end.

Inductive op :=
| OParse (t : list N)                  (* sqlparse.parse(t)  (result or exception) *)
| OSplit (t : list N)
| OFormat (opts : nat) (t : list N)    (* valid options; may still raise inside the generator *)
| OFormatInvalid (opts : nat)          (* validate_options raises SQLParseError before the lexer is touched *)
| OAbandonedStream (t : list N) (k : nat)   (* parsestream(t), k items taken, generator dropped *)
| OClear                               (* Lexer.get_default_instance().clear() *)
| OSetRegex (id : nat)                 (* ....set_SQL_REGEX(<rule list id>) *)
| OAddKw (id : nat)                    (* ....add_keywords(<dictionary id>) *)
| ODefaultInit                         (* ....default_initialization() *)
| OGetInstance.                        (* Lexer.get_default_instance() *)

Definition is_reconf (o : op) : bool :=
  match o with OClear | OSetRegex _ | OAddKw _ | ODefaultInit => true | _ => false end.
Definition is_default_init (o : op) : bool := match o with ODefaultInit => true | _ => false end.

(* does the call reach lexer.tokenize?  format() with invalid options raises before; a generator
   of parsestream() that is never advanced has not run a single statement of FilterStack.run *)
Definition touches_lexer (o : op) : bool :=
  match o with
  | OFormatInvalid _ => false
  | OAbandonedStream _ 0 => false
  | _ => true
  end.

Definition apply (st : pstate) (o : op) : pstate :=
  match o with
  | OClear => mkP (Some cleared_cfg)
  | OSetRegex id => mkP (Some (mkCfg (Some id) (c_kws (eff st))))
  | OAddKw id => mkP (Some (mkCfg (c_rx (eff st)) (c_kws (eff st) ++ [id])))
  | ODefaultInit => mkP (Some (default_init (eff st)))
  | _ => if touches_lexer o then ensure st else st
  end.

Definition run_hist (h : list op) (st : pstate) : pstate := fold_left apply h st.

(* every intermediate state (element k = state after the first k+1 operations) *)
Fixpoint hist_states (st : pstate) (h : list op) : list pstate :=
  match h with
  | [] => []
  | o :: h' => let st' := apply st o in st' :: hist_states st' h'
  end.

(* no reconfiguration at all, or the last reconfiguration is default_initialization() *)
Definition ends_defaultb (h : list op) : bool :=
  fold_left (fun b o => if is_reconf o then is_default_init o else b) h true.

(* What a call returns is a function [sem] of the configuration it reads and of its arguments: that
   is the content of the inventory obligation (no other persistent state is read that could have
   been written).  [sem] is arbitrary. *)
Section Results.
  Variable R : Type.
  Variable sem : cfg -> op -> R.
  Definition result (st : pstate) (o : op) : R := sem (eff st) o.
  Definition result_after (h : list op) (call : op) : R := result (run_hist h fresh) call.
  Definition result_fresh (call : op) : R := result fresh call.
End Results.

(* bridge to the thread machine: the configuration of a heap object of Sys/Singleton.v *)
Definition cfg_of_obj (ob : obj) : cfg :=
  mkCfg (if regex_set ob then Some default_rx else None) (kws ob).
