(* C11 at the lexer level: a whitespace run at a token boundary is lexed into one token per unit,
   whatever follows it; and what follows a run is lexed independently of the run's last character
   (the rules look at the character before a position only through look-behind sets and \b).
   Generic in the tables; instantiated in Inst/WsRunInst.v. *)
From SqlModel Require Import Base Re Lexer WsRun.
From Coq Require Import Lia.

Section Regex.
Variable lower : N -> N.

Lemma zero_width_ends r x c :
  zero_width r = true -> ends lower r x c = [] \/ ends lower r x c = [(x, c)].
Proof.
  destruct r; cbn [zero_width]; intros H; try discriminate; cbn [ends].
  - right; reflexivity.
  - destruct (ends lower r x c); destruct neg; auto.
  - destruct (Bool.eqb _ _); auto.
  - destruct (xorb _ _); auto.
  - destruct (at_end _); auto.
Qed.

Lemma nomatch_sound : forall r ch tl p c,
  nomatch r ch = true -> ends lower r (mkSt p (ch :: tl)) c = [].
Proof.
  induction r as [| s | a IHa b IHb | a IHa b IHb | g lo hi r IH | n r IH | n | neg r IH
                 | neg s | w | ]; intros ch tl p c H; cbn [nomatch] in H; try discriminate.
  - cbn [ends rest]. apply negb_true_iff in H. rewrite H. reflexivity.
  - cbn [ends]. apply orb_true_iff in H. destruct H as [H|H].
    + rewrite (IHa _ _ _ _ H). reflexivity.
    + apply andb_true_iff in H. destruct H as [Hz Hb].
      destruct (zero_width_ends a (mkSt p (ch :: tl)) c Hz) as [E|E]; rewrite E; [reflexivity|].
      cbn [flat_map fst snd]. rewrite (IHb _ _ _ _ Hb). reflexivity.
  - cbn [ends]. apply andb_true_iff in H. destruct H as [Ha Hb].
    rewrite (IHa _ _ _ _ Ha), (IHb _ _ _ _ Hb). reflexivity.
  - cbn [ends]. apply andb_true_iff in H. destruct H as [Hlo Hr].
    assert (L : Nat.leb lo 0 = false).
    { destruct lo; [discriminate|reflexivity]. }
    destruct (rep_fuel hi (mkSt p (ch :: tl))) as [|f]; cbn [iter]; rewrite L.
    + destruct g; reflexivity.
    + rewrite (IH _ _ _ _ Hr). cbn [flat_map].
      destruct (match hi with Some h => Nat.ltb 0 h | None => true end); destruct g; reflexivity.
  - cbn [ends]. rewrite (IH _ _ _ _ H). reflexivity.
Qed.

Lemma nomatch_rmatch r ch tl p : nomatch r ch = true -> rmatch lower r (mkSt p (ch :: tl)) = None.
Proof. intros H. unfold rmatch. rewrite (nomatch_sound _ _ _ _ _ H). reflexivity. Qed.

(* \s+? at a whitespace character: exactly one character, whatever follows *)
Lemma lazy_ws_match s p ch tl :
  cmem ch s = true -> rmatch lower (lazy_ws_re s) (mkSt p (ch :: tl)) = Some 1.
Proof.
  intros H. unfold rmatch, lazy_ws_re. cbn [ends rep_fuel rest length].
  cbn [iter Nat.leb]. cbn [ends rest]. rewrite H. cbn [flat_map fst snd app].
  destruct (length tl) as [|n] eqn:E; cbn [iter Nat.leb app rest length]; rewrite E; f_equal; lia.
Qed.

(* (\r\n|\r|\n) *)
Lemma newline_match_lf n cr lf p tl :
  cmem 10%N cr = false -> cmem 10%N lf = true ->
  rmatch lower (newline_re n cr lf) (mkSt p (10%N :: tl)) = Some 1.
Proof.
  intros H1 H2. unfold rmatch, newline_re. cbn [ends rest flat_map]. rewrite H1, H2.
  cbn [flat_map app map fst snd rest length]. f_equal. lia.
Qed.

Lemma newline_match_crlf n cr lf p tl :
  cmem 13%N cr = true -> cmem 10%N lf = true ->
  rmatch lower (newline_re n cr lf) (mkSt p (13%N :: 10%N :: tl)) = Some 2.
Proof.
  intros H1 H2. unfold rmatch, newline_re. cbn [ends rest flat_map]. rewrite H1.
  cbn [flat_map fst snd ends rest]. rewrite H2.
  cbn [flat_map app map fst snd rest length]. f_equal. lia.
Qed.

Lemma first_match_skip : forall pre r a post x,
  Forall (fun ra => rmatch lower (fst ra) x = None) pre ->
  first_match lower (pre ++ (r, a) :: post) x
  = match rmatch lower r x with Some k => Some (a, k) | None => first_match lower post x end.
Proof.
  induction pre as [|[r0 a0] pre IH]; intros r a post x H; [reflexivity|].
  cbn [app first_match]. inversion H as [|y l Hy Hl]; subst. cbn [fst] in Hy. rewrite Hy.
  apply IH, Hl.
Qed.

(* ---- what a rule sees of the character before the position ------------------------------------- *)
Section Prev.
Variables p0 p0' : option N.

Definition look_same (s : cset) : Prop := mem_opt p0 s = mem_opt p0' s.

Fixpoint look_ok (r : re) : Prop :=
  match r with
  | Behind _ s | Bound s => look_same s
  | Seq a b | Alt a b => look_ok a /\ look_ok b
  | Rep _ _ _ r' | Group _ r' | Ahead _ r' => look_ok r'
  | _ => True
  end.

(* same remaining text; same previous character, or the two previous characters under comparison *)
Definition srel (x x' : st) : Prop :=
  rest x = rest x' /\ (prev x = prev x' \/ (prev x = p0 /\ prev x' = p0')).
Definition rrel (a b : result) : Prop := srel (fst a) (fst b) /\ snd a = snd b.

Lemma srel_refl x : srel x x.
Proof. split; auto. Qed.

Lemma single_rrel x x' c : srel x x' -> Forall2 rrel [(x, c)] [(x', c)].
Proof. intros H. constructor; [split; [exact H|reflexivity]|constructor]. Qed.

Lemma mem_opt_srel s x x' : look_same s -> srel x x' -> mem_opt (prev x) s = mem_opt (prev x') s.
Proof. intros Hs [_ [H|[H1 H2]]]; [rewrite H; reflexivity|rewrite H1, H2; exact Hs]. Qed.

Lemma eat_srel : forall t x x', srel x x' ->
  match eat lower t x, eat lower t x' with
  | Some y, Some y' => srel y y'
  | None, None => True
  | _, _ => False
  end.
Proof.
  destruct t as [|a t]; intros x x' Hx; cbn [eat]; [exact Hx|].
  destruct Hx as [Hr _]. rewrite <- Hr. destruct (rest x) as [|d r]; [exact I|].
  destruct (N.eqb (lower a) (lower d)); [|exact I].
  destruct (eat lower t (mkSt (Some d) r)); [apply srel_refl|exact I].
Qed.

Lemma Forall2_flat_map2 {A B} (P : A -> A -> Prop) (Q : B -> B -> Prop) (f : A -> list B) l l' :
  Forall2 P l l' -> (forall a b, P a b -> Forall2 Q (f a) (f b)) -> Forall2 Q (flat_map f l) (flat_map f l').
Proof.
  intros H Hf. induction H as [|a b l l' Hab _ IH]; cbn [flat_map]; [constructor|].
  apply Forall2_app; auto.
Qed.

Lemma iter_srel body g lo hi :
  (forall x x' c, srel x x' -> Forall2 rrel (body x c) (body x' c)) ->
  forall fuel count x x' c, srel x x' ->
    Forall2 rrel (iter body g lo hi fuel count x c) (iter body g lo hi fuel count x' c).
Proof.
  intros Hb. induction fuel as [|f IH]; intros count x x' c Hx; cbn [iter].
  - assert (Hs : Forall2 rrel (if Nat.leb lo count then [(x, c)] else [])
                                (if Nat.leb lo count then [(x', c)] else [])).
    { destruct (Nat.leb lo count); [apply single_rrel; assumption | constructor]. }
    destruct g; apply Forall2_app; try exact Hs; constructor.
  - assert (Hs : Forall2 rrel (if Nat.leb lo count then [(x, c)] else [])
                                (if Nat.leb lo count then [(x', c)] else [])).
    { destruct (Nat.leb lo count); [apply single_rrel; assumption | constructor]. }
    assert (Hm : Forall2 rrel
                   (if match hi with Some h => Nat.ltb count h | None => true end
                    then flat_map (fun xc => iter body g lo hi f (S count) (fst xc) (snd xc)) (body x c)
                    else [])
                   (if match hi with Some h => Nat.ltb count h | None => true end
                    then flat_map (fun xc => iter body g lo hi f (S count) (fst xc) (snd xc)) (body x' c)
                    else [])).
    { destruct (match hi with Some h => Nat.ltb count h | None => true end); [|constructor].
      eapply Forall2_flat_map2; [apply Hb; assumption|].
      intros [x1 c1] [x2 c2] [H1 H2]. cbn [fst snd] in *. subst c2. apply IH; assumption. }
    destruct g; apply Forall2_app; assumption.
Qed.

Lemma Forall2_length2 {A} (P : A -> A -> Prop) l l' : Forall2 P l l' -> length l = length l'.
Proof. induction 1; cbn [length]; congruence. Qed.

Theorem ends_srel r : look_ok r -> forall x x' c, srel x x' ->
  Forall2 rrel (ends lower r x c) (ends lower r x' c).
Proof.
  induction r as [| s | a IHa b IHb | a IHa b IHb | g lo hi r IH | n r IH | n | neg r IH
                 | neg s | w | ]; intros Hl x x' c Hx; cbn [ends look_ok] in *.
  - apply single_rrel; assumption.
  - destruct Hx as [Hr _]. rewrite <- Hr. destruct (rest x) as [|ch tl]; [constructor|].
    destruct (cmem ch s); [|constructor]. apply single_rrel, srel_refl.
  - destruct Hl as [Ha Hb]. eapply Forall2_flat_map2; [apply IHa; assumption|].
    intros [x1 c1] [x2 c2] [H1 H2]. cbn [fst snd] in *. subst c2. apply IHb; assumption.
  - destruct Hl as [Ha Hb]. apply Forall2_app; [apply IHa|apply IHb]; assumption.
  - replace (rep_fuel hi x') with (rep_fuel hi x)
      by (unfold rep_fuel; rewrite (proj1 Hx); reflexivity).
    apply iter_srel; [|assumption]. intros y y' d Hy. apply IH; assumption.
  - pose proof (IH Hl x x' c Hx) as H.
    induction H as [|[x1 c1] [x2 c2] l l' [H1 H2] _ IHl]; cbn [map]; constructor; auto.
    cbn [fst snd] in *. subst c2. split; cbn [fst snd]; [exact H1|].
    rewrite (proj1 Hx), (proj1 H1). reflexivity.
  - destruct (cap_get n c) as [t|]; [|constructor].
    pose proof (eat_srel t x x' Hx) as He.
    destruct (eat lower t x) as [y|], (eat lower t x') as [y'|]; try contradiction; [|constructor].
    apply single_rrel; assumption.
  - pose proof (IH Hl x x' c Hx) as H.
    destruct H as [|r1 r2 l1 l2 _ _]; destruct neg;
      first [apply single_rrel; assumption | constructor].
  - rewrite <- (mem_opt_srel s _ _ Hl Hx).
    destruct (Bool.eqb _ _); [apply single_rrel; assumption | constructor].
  - rewrite <- (mem_opt_srel w _ _ Hl Hx). rewrite <- (proj1 Hx).
    destruct (xorb _ _); [apply single_rrel; assumption | constructor].
  - rewrite <- (proj1 Hx). destruct (at_end (rest x)); [apply single_rrel; assumption | constructor].
Qed.

Corollary rmatch_srel r x x' : look_ok r -> srel x x' -> rmatch lower r x = rmatch lower r x'.
Proof.
  intros Hl Hx. unfold rmatch. pose proof (ends_srel r Hl x x' [] Hx) as H.
  destruct H as [|[x1 c1] [x2 c2] l l' [H1 _] _]; [reflexivity|].
  cbn [fst] in H1. rewrite (proj1 Hx), (proj1 H1). reflexivity.
Qed.

Lemma first_match_srel rs x x' :
  Forall (fun ra => look_ok (fst ra)) rs -> srel x x' -> first_match lower rs x = first_match lower rs x'.
Proof.
  intros Hrs Hx. induction Hrs as [|[r a] rs Hr _ IH]; cbn [first_match]; [reflexivity|].
  cbn [fst] in Hr. rewrite <- (rmatch_srel r x x' Hr Hx).
  destruct (rmatch lower r x); [reflexivity|exact IH].
Qed.

(* a boolean route to look_ok *)
Lemma look_ok_of_b (P : cset -> bool) :
  (forall s, P s = true -> look_same s) -> forall r, look_forall_b P r = true -> look_ok r.
Proof.
  intros HP. induction r as [| s | a IHa b IHb | a IHa b IHb | g lo hi r IH | n r IH | n | neg r IH
                            | neg s | w | ]; cbn [look_forall_b look_ok]; intros H; auto.
  - apply andb_true_iff in H. destruct H; split; auto.
  - apply andb_true_iff in H. destruct H; split; auto.
Qed.

End Prev.
End Regex.

(* ================================================================================================
   the scan loop
   ================================================================================================ *)
Section Lex.
Variable lower : N -> N.
Variable upper : text -> text.
Variable rules : list rule.
Variable kws : list kwdict.

Notation LG := (lex_go lower upper rules kws).

(* the text after a position is lexed the same after p and after p' when no rule can tell them apart *)
Theorem lex_go_prev p p' t :
  Forall (fun ra => look_ok p p' (fst ra)) rules -> LG p 0 t = LG p' 0 t.
Proof.
  intros H. destruct t as [|ch tl]; [reflexivity|]. cbn [lex_go].
  rewrite (first_match_srel lower p p' rules (mkSt p (ch :: tl)) (mkSt p' (ch :: tl)) H); [reflexivity|].
  split; cbn [rest prev]; auto.
Qed.

(* the table: <rules that cannot start with a whitespace character> (\r\n|\r|\n) <idem> \s+? ... *)
Variables (pre1 pre2 post : list rule) (nn : nat) (cr lf sp : cset) (tn tw : ttype).
Hypothesis rules_eq :
  rules = pre1 ++ (newline_re nn cr lf, Emit tn) :: pre2 ++ (lazy_ws_re sp, Emit tw) :: post.

Definition blank_ok (c : N) : Prop :=
  cmem c sp = true /\ cmem c cr = false /\ cmem c lf = false
  /\ Forall (fun ra => nomatch (fst ra) c = true) pre1
  /\ Forall (fun ra => nomatch (fst ra) c = true) pre2.
Definition breaks_ok : Prop :=
  cmem 10%N cr = false /\ cmem 10%N lf = true /\ cmem 13%N cr = true
  /\ Forall (fun ra => nomatch (fst ra) 10%N = true) pre1
  /\ Forall (fun ra => nomatch (fst ra) 13%N = true) pre1.

Lemma pre_none pre c p tl :
  Forall (fun ra => nomatch (fst ra) c = true) pre ->
  Forall (fun ra : rule => rmatch lower (fst ra) (mkSt p (c :: tl)) = None) pre.
Proof. intros H. eapply Forall_impl; [|exact H]. intros ra Hra. apply nomatch_rmatch, Hra. Qed.

Lemma lex_blank c p tl : blank_ok c ->
  LG p 0 (c :: tl) = match LG (Some c) 0 tl with Ok ts => Ok ((tw, [c]) :: ts) | Err e => Err e end.
Proof.
  intros (Hs & Hcr & Hlf & H1 & H2). cbn [lex_go]. rewrite rules_eq.
  rewrite (first_match_skip lower pre1 _ _ _ _ (pre_none pre1 c p tl H1)).
  assert (N1 : rmatch lower (newline_re nn cr lf) (mkSt p (c :: tl)) = None).
  { apply nomatch_rmatch. cbn [newline_re nomatch zero_width]. rewrite Hcr, Hlf. reflexivity. }
  rewrite N1, (first_match_skip lower pre2 _ _ _ _ (pre_none pre2 c p tl H2)).
  rewrite (lazy_ws_match lower sp p c tl Hs). reflexivity.
Qed.

Lemma lex_lf p tl : breaks_ok ->
  LG p 0 (10%N :: tl)
  = match LG (Some 10%N) 0 tl with Ok ts => Ok ((tn, [10%N]) :: ts) | Err e => Err e end.
Proof.
  intros (H1 & H2 & _ & H4 & _). cbn [lex_go]. rewrite rules_eq.
  rewrite (first_match_skip lower pre1 _ _ _ _ (pre_none pre1 _ p tl H4)).
  rewrite (newline_match_lf lower nn cr lf p tl H1 H2). reflexivity.
Qed.

Lemma lex_crlf p tl : breaks_ok ->
  LG p 0 (13%N :: 10%N :: tl)
  = match LG (Some 10%N) 0 tl with Ok ts => Ok ((tn, [13%N; 10%N]) :: ts) | Err e => Err e end.
Proof.
  intros (_ & H2 & H3 & _ & H5). cbn [lex_go]. rewrite rules_eq.
  rewrite (first_match_skip lower pre1 _ _ _ _ (pre_none pre1 _ p (10%N :: tl) H5)).
  rewrite (newline_match_crlf lower nn cr lf p tl H3 H2). reflexivity.
Qed.

Definition unit_ok (u : wsunit) : Prop := match u with UC c => blank_ok c | _ => breaks_ok end.

(* a run of units at a token boundary: one token per unit, then the rest of the text *)
Theorem lex_ws_run : forall us p b, Forall unit_ok us ->
  LG p 0 (utext us ++ b)
  = match LG (ulast p us) 0 b with Ok ts => Ok (utoks tw tn us ++ ts) | Err e => Err e end.
Proof.
  induction us as [|u us IH]; intros p b H.
  - cbn [utext flat_map app ulast utoks map]. destruct (LG p 0 b); reflexivity.
  - inversion H as [|u0 l Hu Hus]; subst u0 l. cbn [utext flat_map]. rewrite <- app_assoc.
    fold (utext us). cbn [ulast utoks map].
    destruct u as [c| |]; cbn [utext1 app ulast1 utok1].
    + rewrite (lex_blank c p _ Hu), (IH _ b Hus). destruct (LG _ 0 b); reflexivity.
    + rewrite (lex_lf p _ Hu), (IH _ b Hus). destruct (LG _ 0 b); reflexivity.
    + rewrite (lex_crlf p _ Hu), (IH _ b Hus). destruct (LG _ 0 b); reflexivity.
Qed.

End Lex.

Print Assumptions lex_ws_run.
Print Assumptions lex_go_prev.
