(* A conservative FIRST-CHARACTER analysis of regular expressions.  Definitions only.
   [first_class r ch] classifies what [r] can do at a position whose next character is [ch]:
     FNo    no match at all,
     FStay  every match is zero-width (the state is unchanged; captures may differ),
     FAny   nothing is known.
   FNo is stronger than FStay, which is stronger than FAny. *)
From SqlModel Require Import Base Re Lexer.

Inductive fclass := FNo | FStay | FAny.

Fixpoint first_class (r : re) (ch : N) : fclass :=
  match r with
  | Eps => FStay
  | Atom s => if cmem ch s then FAny else FNo
  | Seq a b =>
      match first_class a ch with
      | FNo => FNo
      | FStay => first_class b ch
      | FAny => FAny
      end
  | Alt a b =>
      match first_class a ch, first_class b ch with
      | FNo, FNo => FNo
      | FAny, _ | _, FAny => FAny
      | _, _ => FStay
      end
  | Rep _ lo _ r' =>
      match first_class r' ch with
      | FNo => if Nat.leb 1 lo then FNo else FStay
      | FStay => FStay
      | FAny => FAny
      end
  | Group _ r' => first_class r' ch
  | Backref _ => FAny
  | Ahead neg r' =>
      if neg then FStay
      else match first_class r' ch with FNo => FNo | _ => FStay end
  | Behind _ _ => FStay
  | Bound _ => FStay
  | AtEnd => if N.eqb ch 10 then FStay else FNo
  end.

(* [no_start r ch = true]: [r] has no match at any position whose next character is [ch] *)
Definition no_start (r : re) (ch : N) : bool :=
  match first_class r ch with FNo => true | _ => false end.

(* the complementary, over-approximating view *)
Definition can_start (r : re) (ch : N) : bool := negb (no_start r ch).

(* no rule of [rs] can start with [ch] *)
Definition none_start (rs : list rule) (ch : N) : bool :=
  forallb (fun ra => no_start (fst ra) ch) rs.
