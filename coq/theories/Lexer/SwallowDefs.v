(* Which lexer rules can take a quote character INTO their match (C14: "whatever delimiter or whitespace
   surrounds it").  The region theorems of Lexer/Regions.v are stated with the lexer positioned at the opener; a
   rule that starts EARLIER and runs over the opener (today: the TZCast rule  AT TIME ZONE '...') takes the literal
   into another token.  Definitions only. *)
From SqlModel Require Import Base Re Lexer FirstDefs.

(* a sound over-approximation of "some match of r contains the code point c" *)
Fixpoint consumes (c : N) (r : re) : bool :=
  match r with
  | Eps | Ahead _ _ | Behind _ _ | Bound _ | AtEnd => false
  | Atom s => cmem c s
  | Seq a b | Alt a b => consumes c a || consumes c b
  | Rep _ _ _ r | Group _ r => consumes c r
  | Backref _ => true
  end.

(* code points 0 .. 767 *)
Definition lowcps : list N := map N.of_nat (seq 0 768).

(* (rule index, code points below 768 a match can start with) for every rule that can consume a single quote,
   a double quote or a backtick *)
Fixpoint swallow_tab (i : nat) (rs : list rule) : list (nat * list N) :=
  match rs with
  | [] => []
  | r :: rs' =>
      if consumes 39 (fst r) || consumes 34 (fst r) || consumes 96 (fst r)
      then (i, filter (can_start (fst r)) lowcps) :: swallow_tab (S i) rs'
      else swallow_tab (S i) rs'
  end.
