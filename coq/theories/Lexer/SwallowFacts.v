(* Soundness of the `consumes` analysis (Lexer/SwallowDefs.v): a rule r with consumes c r = false never takes the code
   point c into a match -- for every text, position and capture state.  Lifted to the lexer: in the token list of ANY
   text, a token whose value contains c is a one-character Error token or was produced by a rule that `consumes` c.
   With the pinned table of such rules (Inst/C14Swallow.swallowers_pinned) this says which rules can run over a quote. *)
From SqlModel Require Import Base Re MinWidth Lexer LexFacts FirstDefs SwallowDefs.
From Coq Require Import Lia.

Section Sw.
Variable lower : N -> N.
Variable c : N.

(* x' is x advanced over characters none of which is c *)
Definition clean (x x' : st) : Prop := exists w, rest x = w ++ rest x' /\ ~ In c w.

Lemma clean_refl x : clean x x.
Proof. exists []. split; [reflexivity | intros []]. Qed.

Lemma clean_trans x y z : clean x y -> clean y z -> clean x z.
Proof.
  intros (w1 & E1 & N1) (w2 & E2 & N2). exists (w1 ++ w2).
  rewrite <- app_assoc, <- E2, <- E1. split; [reflexivity|].
  intros H. apply in_app_or in H. tauto.
Qed.

Lemma iter_clean (body : st -> caps -> list (st * caps)) :
  (forall x cs x' cs', In (x', cs') (body x cs) -> clean x x') ->
  forall g lo hi fuel count x cs x' cs',
    In (x', cs') (iter body g lo hi fuel count x cs) -> clean x x'.
Proof.
  intros Hb g lo hi fuel.
  induction fuel as [|f IH]; intros count x cs x' cs' H.
  - cbn [iter] in H.
    assert (Hs : In (x', cs') (if Nat.leb lo count then [(x, cs)] else [])).
    { destruct g; [rewrite app_nil_l in H | rewrite app_nil_r in H]; exact H. }
    destruct (Nat.leb lo count); [|contradiction].
    destruct Hs as [Hs|[]]. injection Hs as <- <-. apply clean_refl.
  - cbn [iter] in H.
    assert (Hor : In (x', cs') (if Nat.leb lo count then [(x, cs)] else []) \/
                  In (x', cs')
                     (if match hi with Some h => Nat.ltb count h | None => true end
                      then flat_map (fun xc => iter body g lo hi f (S count) (fst xc) (snd xc))
                                    (body x cs)
                      else [])).
    { destruct g; apply in_app_or in H; tauto. }
    destruct Hor as [Hs|Hm].
    + destruct (Nat.leb lo count); [|contradiction].
      destruct Hs as [Hs|[]]. injection Hs as <- <-. apply clean_refl.
    + destruct (match hi with Some h => Nat.ltb count h | None => true end); [|contradiction].
      apply in_flat_map in Hm. destruct Hm as ([x1 c1] & Hin & Hrec). simpl in Hrec.
      apply Hb in Hin. apply IH in Hrec. eapply clean_trans; eassumption.
Qed.

Theorem ends_clean r : consumes c r = false -> forall x cs x' cs',
  In (x', cs') (ends lower r x cs) -> clean x x'.
Proof.
  induction r as [| s | a IHa b IHb | a IHa b IHb | g lo hi r IH | n r IH | n | neg r IH
                 | neg s | w | ]; intros Hc x cs x' cs' H; cbn [ends consumes] in *.
  - destruct H as [H|[]]. injection H as <- <-. apply clean_refl.
  - destruct (rest x) as [|ch tl] eqn:E; [contradiction|].
    destruct (cmem ch s) eqn:M; [|contradiction].
    destruct H as [H|[]]. injection H as <- <-.
    exists [ch]. cbn [rest app]. split; [exact E|].
    intros [K|[]]. subst ch. congruence.
  - apply orb_false_iff in Hc. destruct Hc as [Ha Hb].
    apply in_flat_map in H. destruct H as ([x1 c1] & H1 & H2). simpl in H2.
    eapply clean_trans; [eapply IHa | eapply IHb]; eauto.
  - apply orb_false_iff in Hc. destruct Hc as [Ha Hb].
    apply in_app_or in H. destruct H as [H|H]; [eapply IHa | eapply IHb]; eauto.
  - eapply iter_clean in H; [exact H|]. intros. eapply IH; eauto.
  - apply in_map_iff in H. destruct H as ([x1 c1] & E & H). simpl in E.
    injection E as <- <-. eapply IH; eauto.
  - discriminate.
  - destruct (ends lower r x cs), neg; try contradiction;
      destruct H as [H|[]]; injection H as <- <-; apply clean_refl.
  - destruct (Bool.eqb _ _); [|contradiction].
    destruct H as [H|[]]. injection H as <- <-. apply clean_refl.
  - destruct (xorb _ _); [|contradiction].
    destruct H as [H|[]]. injection H as <- <-. apply clean_refl.
  - destruct (at_end (rest x)); [|contradiction].
    destruct H as [H|[]]. injection H as <- <-. apply clean_refl.
Qed.

(* re.match: the matched text contains no c *)
Corollary rmatch_clean r x k :
  consumes c r = false -> rmatch lower r x = Some k -> ~ In c (firstn k (rest x)).
Proof.
  unfold rmatch. intros Hc H.
  destruct (ends lower r x []) as [|[x' c'] l] eqn:E; [discriminate|].
  injection H as <-.
  assert (Hin : In (x', c') (ends lower r x [])) by (rewrite E; left; reflexivity).
  destruct (ends_clean r Hc _ _ _ _ Hin) as (w & Ew & Nw).
  rewrite Ew, app_length.
  replace (length w + length (rest x') - length (rest x')) with (length w) by lia.
  rewrite firstn_app, firstn_all, Nat.sub_diag. cbn [firstn]. rewrite app_nil_r. exact Nw.
Qed.

(* the first matching rule: if the matched text contains c, the rule that matched consumes c *)
Lemma first_match_clean rs x a k :
  first_match lower rs x = Some (a, k) -> In c (firstn k (rest x)) ->
  exists r, In (r, a) rs /\ consumes c r = true.
Proof.
  induction rs as [|[r a'] rs IH]; cbn [first_match]; intros H Hin; [discriminate|].
  destruct (rmatch lower r x) as [k'|] eqn:E.
  - injection H as <- <-. exists r. split; [left; reflexivity|].
    destruct (consumes c r) eqn:Hc; [reflexivity|]. exfalso. exact (rmatch_clean r x k' Hc E Hin).
  - destruct (IH H Hin) as (r0 & H1 & H2). exists r0. split; [right; exact H1 | exact H2].
Qed.

Variable upper : text -> text.
Variable rules : list rule.
Variable kws : list kwdict.

(* every token of a lexed text that contains c: a one-character Error token, or made by a rule that consumes c *)
Definition made_by_consumer (tk : tok) : Prop :=
  (tk = (T_Error, [c])) \/
  exists r a, In (r, a) rules /\ consumes c r = true /\ tk = mk_tok upper kws a (snd tk).

Theorem LexSpec_consumers p t toks :
  LexSpec lower upper rules kws p t toks ->
  Forall (fun tk => In c (snd tk) -> made_by_consumer tk) toks.
Proof.
  induction 1 as [p | p t a k v t' toks Hm Hk Ht Hl _ IH | p ch t toks Hm _ IH]; constructor; try exact IH.
  - intros Hin. rewrite mk_tok_snd in Hin. right.
    assert (Hf : firstn k (rest (mkSt p t)) = v).
    { cbn [rest]. rewrite Ht, <- Hl, firstn_app, firstn_all, Nat.sub_diag. cbn [firstn]. apply app_nil_r. }
    destruct (first_match_clean rules (mkSt p t) a k Hm) as (r & Hr & Hc); [rewrite Hf; exact Hin|].
    exists r, a. split; [exact Hr|]. split; [exact Hc|]. rewrite mk_tok_snd. reflexivity.
  - intros Hin. left. cbn [snd] in Hin. destruct Hin as [<-|[]]. reflexivity.
Qed.

End Sw.
