(* Soundness of the first-character analysis, and its use to skip rules in [first_match]. *)
From SqlModel Require Import Base Re MinWidth RepFacts Lexer FirstDefs.

Lemma flat_map_nil_in {A B} (f : A -> list B) (l : list A) :
  (forall a, In a l -> f a = []) -> flat_map f l = [].
Proof.
  induction l as [|a l IH]; intros H; [reflexivity|].
  cbn [flat_map]. rewrite (H a (or_introl eq_refl)). cbn [app].
  apply IH. intros a' Ha'. apply H. right. exact Ha'.
Qed.

Section First.
Variable lower : N -> N.
Notation ends := (ends lower).

Definition sem_no (r : re) (ch : N) : Prop :=
  forall p t c, ends r (mkSt p (ch :: t)) c = [].

Definition sem_stay (r : re) (ch : N) : Prop :=
  forall p t c x' c', In (x', c') (ends r (mkSt p (ch :: t)) c) -> x' = mkSt p (ch :: t).

Definition sem_class (k : fclass) (r : re) (ch : N) : Prop :=
  match k with FNo => sem_no r ch | FStay => sem_stay r ch | FAny => True end.

Lemma sem_no_stay r ch : sem_no r ch -> sem_stay r ch.
Proof. intros H p t c x' c' Hin. rewrite H in Hin. contradiction. Qed.

Lemma iter_stay (body : st -> caps -> list (st * caps)) x :
  (forall c x' c', In (x', c') (body x c) -> x' = x) ->
  forall g lo hi fuel count c x' c',
    In (x', c') (iter body g lo hi fuel count x c) -> x' = x.
Proof.
  intros Hb g lo hi fuel.
  induction fuel as [|f IH]; intros count c x' c' H.
  - cbn [iter] in H.
    assert (Hs : In (x', c') (if Nat.leb lo count then [(x, c)] else [])).
    { destruct g; [rewrite app_nil_l in H | rewrite app_nil_r in H]; exact H. }
    destruct (Nat.leb lo count); [|contradiction].
    destruct Hs as [Hs|[]]. injection Hs as <- _. reflexivity.
  - cbn [iter] in H.
    assert (Hor : In (x', c') (if Nat.leb lo count then [(x, c)] else []) \/
                  In (x', c')
                     (if match hi with Some h => Nat.ltb count h | None => true end
                      then flat_map (fun xc => iter body g lo hi f (S count) (fst xc) (snd xc))
                                    (body x c)
                      else [])).
    { destruct g; apply in_app_or in H; tauto. }
    destruct Hor as [Hs|Hm].
    + destruct (Nat.leb lo count); [|contradiction].
      destruct Hs as [Hs|[]]. injection Hs as <- _. reflexivity.
    + destruct (match hi with Some h => Nat.ltb count h | None => true end); [|contradiction].
      apply in_flat_map in Hm. destruct Hm as ([x1 c1] & Hin & Hrec). cbn [fst snd] in Hrec.
      apply Hb in Hin. subst x1. eapply IH. exact Hrec.
Qed.

Lemma iter_no (body : st -> caps -> list (st * caps)) x g lo hi fuel c :
  (forall c0, body x c0 = []) -> 1 <= lo -> iter body g lo hi fuel 0 x c = [].
Proof.
  intros Hb Hlo. destruct fuel as [|f]; cbn [iter].
  - destruct (Nat.leb_spec lo 0) as [H|_]; [lia|]. destruct g; reflexivity.
  - destruct (Nat.leb_spec lo 0) as [H|_]; [lia|]. rewrite Hb.
    destruct (match hi with Some h => Nat.ltb 0 h | None => true end), g; reflexivity.
Qed.

Theorem first_class_sound r ch : sem_class (first_class r ch) r ch.
Proof.
  induction r as [| s | a IHa b IHb | a IHa b IHb | g lo hi r IH | n r IH | n | neg r IH
                 | neg s | w | ]; cbn [first_class].
  - (* Eps *) intros p t c x' c' [H|[]]. injection H as <- _. reflexivity.
  - (* Atom *) destruct (cmem ch s) eqn:E; cbn [sem_class]; [exact I|].
    intros p t c. rewrite ends_atom, E. reflexivity.
  - (* Seq *) destruct (first_class a ch); cbn [sem_class] in *.
    + intros p t c. apply seq_nil_l. apply IHa.
    + destruct (first_class b ch); cbn [sem_class] in *.
      * intros p t c. rewrite ends_seq. apply flat_map_nil_in.
        intros [x2 c2] Hin. cbn [fst snd]. apply IHa in Hin. subst x2. apply IHb.
      * intros p t c x' c' Hin. rewrite ends_seq in Hin. apply in_flat_map in Hin.
        destruct Hin as ([x1 c1] & H1 & H2). cbn [fst snd] in H2.
        apply IHa in H1. subst x1. apply IHb in H2. exact H2.
      * exact I.
    + exact I.
  - (* Alt *)
    destruct (first_class a ch), (first_class b ch); cbn [sem_class] in *; try exact I.
    + intros p t c. rewrite ends_alt, IHa, IHb. reflexivity.
    + intros p t c x' c' Hin. rewrite ends_alt, IHa in Hin. eapply IHb. exact Hin.
    + intros p t c x' c' Hin. rewrite ends_alt, IHb, app_nil_r in Hin. eapply IHa. exact Hin.
    + intros p t c x' c' Hin. rewrite ends_alt in Hin. apply in_app_or in Hin.
      destruct Hin as [Hin|Hin]; [eapply IHa | eapply IHb]; exact Hin.
  - (* Rep *)
    destruct (first_class r ch); cbn [sem_class] in *.
    + destruct (Nat.leb_spec 1 lo) as [Hlo|Hlo]; cbn [sem_class].
      * intros p t c. rewrite ends_rep. apply iter_no; [|exact Hlo]. intros c0. apply IH.
      * intros p t c x' c' Hin. rewrite ends_rep in Hin. eapply iter_stay; [|exact Hin].
        intros c0 x1 c1 H1. rewrite IH in H1. contradiction.
    + intros p t c x' c' Hin. rewrite ends_rep in Hin. eapply iter_stay; [|exact Hin].
      intros c0 x1 c1 H1. eapply IH. exact H1.
    + exact I.
  - (* Group *)
    destruct (first_class r ch); cbn [sem_class] in *.
    + intros p t c. apply group_nil. apply IH.
    + intros p t c x' c' Hin. rewrite ends_group in Hin. apply in_map_iff in Hin.
      destruct Hin as ([x1 c1] & E & Hin). cbn [fst snd] in E. injection E as <- _.
      eapply IH. exact Hin.
    + exact I.
  - (* Backref *) exact I.
  - (* Ahead *)
    assert (Hstay : sem_stay (Ahead neg r) ch).
    { intros p t c x' c' Hin. cbn [Re.ends] in Hin.
      destruct (ends r (mkSt p (ch :: t)) c), neg; try contradiction;
        destruct Hin as [Hin|[]]; injection Hin as <- _; reflexivity. }
    destruct neg; [exact Hstay|].
    destruct (first_class r ch); cbn [sem_class] in *; try exact Hstay.
    intros p t c. cbn [Re.ends]. rewrite IH. reflexivity.
  - (* Behind *)
    intros p t c x' c' Hin. rewrite ends_behind in Hin.
    destruct (Bool.eqb _ _); [|contradiction].
    destruct Hin as [Hin|[]]. injection Hin as <- _. reflexivity.
  - (* Bound *)
    intros p t c x' c' Hin. cbn [Re.ends] in Hin.
    destruct (xorb _ _); [|contradiction].
    destruct Hin as [Hin|[]]. injection Hin as <- _. reflexivity.
  - (* AtEnd *)
    destruct (N.eqb_spec ch 10) as [E|E]; cbn [sem_class].
    + intros p t c x' c' Hin. rewrite ends_atend in Hin.
      destruct (at_end _); [|contradiction].
      destruct Hin as [Hin|[]]. injection Hin as <- _. reflexivity.
    + intros p t c. rewrite ends_atend. cbn [rest at_end].
      destruct t as [|d t']; [|reflexivity].
      destruct (N.eqb_spec ch 10) as [E'|_]; [contradiction|reflexivity].
Qed.

Theorem no_start_sound r ch :
  no_start r ch = true -> forall p t c, ends r (mkSt p (ch :: t)) c = [].
Proof.
  unfold no_start. intros H. pose proof (first_class_sound r ch) as S.
  destruct (first_class r ch); try discriminate. exact S.
Qed.

(* the over-approximating reading: a regex that has a match at a position whose next character
   is [ch] is flagged by [can_start] *)
Corollary can_start_complete r ch p t c :
  ends r (mkSt p (ch :: t)) c <> [] -> can_start r ch = true.
Proof.
  intros H. unfold can_start. destruct (no_start r ch) eqn:E; [|reflexivity].
  exfalso. apply H. apply no_start_sound. exact E.
Qed.

Corollary no_start_rmatch r ch p t :
  no_start r ch = true -> rmatch lower r (mkSt p (ch :: t)) = None.
Proof. intros H. apply rmatch_nil. apply no_start_sound. exact H. Qed.

(* ---- skipping rules ------------------------------------------------------------------------ *)
Lemma first_match_app_none rs1 rs2 x :
  (forall ra, In ra rs1 -> rmatch lower (fst ra) x = None) ->
  first_match lower (rs1 ++ rs2) x = first_match lower rs2 x.
Proof.
  induction rs1 as [|[r a] rs1 IH]; intros H; [reflexivity|].
  cbn [app first_match]. pose proof (H (r, a) (or_introl eq_refl)) as Hr. cbn [fst] in Hr. rewrite Hr.
  apply IH. intros ra Hin. apply H. right. exact Hin.
Qed.

Lemma first_match_skip rs1 rs2 ch p t :
  none_start rs1 ch = true ->
  first_match lower (rs1 ++ rs2) (mkSt p (ch :: t)) = first_match lower rs2 (mkSt p (ch :: t)).
Proof.
  intros H. apply first_match_app_none. intros ra Hin.
  unfold none_start in H. rewrite forallb_forall in H.
  apply no_start_rmatch. apply H. exact Hin.
Qed.

(* the form used by the region theorems: rule [i] is the first that can start with [ch] *)
Theorem first_match_at rules i r a ch p t k :
  nth_error rules i = Some (r, a) ->
  none_start (firstn i rules) ch = true ->
  rmatch lower r (mkSt p (ch :: t)) = Some k ->
  first_match lower rules (mkSt p (ch :: t)) = Some (a, k).
Proof.
  intros Hn Hs Hm.
  rewrite <- (firstn_skipn i rules) at 1.
  rewrite first_match_skip by exact Hs.
  assert (E : exists tl, skipn i rules = (r, a) :: tl).
  { clear Hs. revert rules Hn. induction i as [|i IH]; intros [|x rs] Hn; try discriminate.
    - injection Hn as ->. exists rs. reflexivity.
    - cbn [skipn]. apply IH. exact Hn. }
  destruct E as (tl & ->). cbn [first_match]. rewrite Hm. reflexivity.
Qed.

(* general form: every earlier rule fails at [x] (for whatever reason) *)
Theorem first_match_first rules x : forall i r a k,
  nth_error rules i = Some (r, a) ->
  (forall j rj aj, j < i -> nth_error rules j = Some (rj, aj) -> rmatch lower rj x = None) ->
  rmatch lower r x = Some k ->
  first_match lower rules x = Some (a, k).
Proof.
  induction rules as [|[r0 a0] rs IH]; intros i r a k Hn Hlt Hm.
  - destruct i; discriminate.
  - destruct i as [|i].
    + injection Hn as -> ->. cbn [first_match]. rewrite Hm. reflexivity.
    + cbn [first_match].
      rewrite (Hlt 0 r0 a0) by (try lia; reflexivity).
      apply (IH i r a k); [exact Hn| |exact Hm].
      intros j rj aj Hj Hnj. apply (Hlt (S j) rj aj); [lia|exact Hnj].
Qed.

(* a rule that fails is skipped as well *)
Lemma first_match_cons_none r a rs x :
  rmatch lower r x = None -> first_match lower ((r, a) :: rs) x = first_match lower rs x.
Proof. intros H. cbn [first_match]. rewrite H. reflexivity. Qed.

End First.

Print Assumptions first_class_sound.
Print Assumptions no_start_sound.
Print Assumptions can_start_complete.
Print Assumptions first_match_at.
Print Assumptions first_match_first.
