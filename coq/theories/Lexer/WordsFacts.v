(* Generic facts about the definitions of Lexer/WordsDefs.v (no table is mentioned here, so nothing
   can be unfolded into a long computation by the unifier). *)
From SqlModel Require Import Base Re Lexer WordsDefs.

Lemma tok_eqb_eq (a b : tok) : tok_eqb a b = true -> a = b.
Proof.
  destruct a as [ta va], b as [tb vb]. unfold tok_eqb. cbn [fst snd].
  rewrite andb_true_iff, ttype_eqb_eq, text_eqb_eq. intros [-> ->]. reflexivity.
Qed.

Lemma toks_eqb_eq (a : list tok) : forall b, toks_eqb a b = true -> a = b.
Proof.
  induction a as [|x a IH]; intros [|y b] H; cbn [toks_eqb] in H; try discriminate; [reflexivity|].
  apply andb_true_iff in H. destruct H as [H1 H2].
  apply tok_eqb_eq in H1. apply IH in H2. congruence.
Qed.

Section WordsFacts.
Variable lower : N -> N.
Variable upper : text -> text.
Variable rules : list rule.
Variable kws : list kwdict.

Notation lexf := (lexf lower upper rules kws).
Notation words_ok := (words_ok lower upper rules kws).
Notation word_in_ctx_ok := (word_in_ctx_ok lower upper rules kws).

Lemma word_in_ctx_ok_spec w c :
  word_in_ctx_ok w c = true ->
  exists tl tr,
    lexf (fst c) = Ok tl /\ length tl = ntoks_left lower upper rules kws c
    /\ lexf (fst c ++ w ++ snd c) = Ok (tl ++ (expected_type lower upper rules kws w, w) :: tr).
Proof.
  unfold WordsDefs.word_in_ctx_ok, ntoks_left.
  destruct (lexf (fst c ++ w ++ snd c)) as [ts|]; [|discriminate].
  destruct (lexf (fst c)) as [tl|]; [|discriminate].
  destruct (lex_go lower upper rules kws (last_opt (fst c ++ w)) 0 (snd c)) as [tr|]; [|discriminate].
  intros H. apply toks_eqb_eq in H. exists tl, tr. subst ts. auto.
Qed.

Lemma words_ok_spec ws :
  words_ok ws = true ->
  forall w, In w ws -> is_word lower rules w = true ->
  forall c, In c Ctx -> word_in_ctx_ok w c = true.
Proof.
  unfold WordsDefs.words_ok. intros H w Hw Hi c Hc. rewrite forallb_forall in H.
  specialize (H w Hw). unfold word_ok in H. rewrite Hi in H. cbn [negb orb] in H.
  rewrite forallb_forall in H. apply H. exact Hc.
Qed.

Lemma words_ok_forallb ws :
  words_ok ws = true ->
  forallb (fun w => negb (is_word lower rules w) || forallb (fun c => word_in_ctx_ok w c) Ctx) ws
  = true.
Proof. intros H. exact H. Qed.

Lemma words_ok_shards n (l : list text) :
  words_ok (firstn n l) = true -> words_ok (skipn n l) = true -> words_ok l = true.
Proof.
  intros H1 H2. rewrite <- (firstn_skipn n l). unfold WordsDefs.words_ok in *.
  rewrite forallb_app, H1, H2. reflexivity.
Qed.

End WordsFacts.
