(* Region specifications for C14: boolean predicates on the body / surroundings of quoted strings,
   quoted names, comments and dollar-quoted bodies, and the regex shapes the rule table is pinned
   to.  Definitions only (no proofs). *)
From SqlModel Require Import Base Re.

(* ---- code points ---------------------------------------------------------------------------- *)
(* a Python str only contains code points below 0x110000 *)
Definition cp_ok (c : N) : bool := N.ltb c 1114112.
Definition text_ok (t : text) : bool := forallb cp_ok t.

Definition starts_with (c : N) (t : text) : bool :=
  match t with d :: _ => N.eqb d c | [] => false end.

Definition is_nil (t : text) : bool := match t with [] => true | _ => false end.

(* ---- character sets as sre compiles them (decision trees) ----------------------------------- *)
Definition c_lit (q : N) : cset :=                       (* LITERAL q (no case variants) *)
  CNode (q + 1) (CNode q (CLeaf false) (CLeaf true)) (CLeaf false).
Definition c_not (q : N) : cset :=                       (* NOT_LITERAL q *)
  CNode (q + 1) (CNode q (CNode 0 (CLeaf false) (CLeaf true)) (CLeaf false))
        (CNode 1114112 (CLeaf true) (CLeaf false)).
Definition c_any : cset :=                               (* [\s\S] *)
  CNode 1114112 (CNode 0 (CLeaf false) (CLeaf true)) (CLeaf false).
Definition c_dot : cset := c_not 10.                     (* . without DOTALL *)

(* ---- regex shapes --------------------------------------------------------------------------- *)
(* q(qq|\\q|[^q])*q *)
Definition item3 (q : N) : re :=
  Group 1 (Alt (Seq (Atom (c_lit q)) (Atom (c_lit q)))
               (Alt (Seq (Atom (c_lit 92)) (Atom (c_lit q))) (Atom (c_not q)))).
Definition quoted3 (q : N) : re :=
  Seq (Atom (c_lit q)) (Seq (Rep true 0 None (item3 q)) (Atom (c_lit q))).

(* q(qq|[^q])*q *)
Definition item2 (q : N) : re :=
  Group 1 (Alt (Seq (Atom (c_lit q)) (Atom (c_lit q))) (Atom (c_not q))).
Definition quoted2 (q : N) : re :=
  Seq (Atom (c_lit q)) (Seq (Rep true 0 None (item2 q)) (Atom (c_lit q))).

(* /\*[\s\S]*?\*/  and  /\*\+[\s\S]*?\*/ *)
Definition bc_tail : re :=
  Seq (Rep false 0 None (Atom c_any)) (Seq (Atom (c_lit 42)) (Atom (c_lit 47))).
Definition bc_re : re := Seq (Atom (c_lit 47)) (Seq (Atom (c_lit 42)) bc_tail).
Definition bc_hint_re : re :=
  Seq (Atom (c_lit 47)) (Seq (Atom (c_lit 42)) (Seq (Atom (c_lit 43)) bc_tail)).

(* (--|# ).*?(\r\n|\r|\n|$)  and  (--|# )\+.*?(\r\n|\r|\n|$) *)
Definition lc_open : re :=
  Group 1 (Alt (Seq (Atom (c_lit 45)) (Atom (c_lit 45))) (Seq (Atom (c_lit 35)) (Atom (c_lit 32)))).
Definition lc_close : re :=
  Group 2 (Alt (Seq (Atom (c_lit 13)) (Atom (c_lit 10)))
               (Alt (Atom (c_lit 13)) (Alt (Atom (c_lit 10)) AtEnd))).
Definition lc_tail : re := Seq (Rep false 0 None (Atom c_dot)) lc_close.
Definition lc_re : re := Seq lc_open lc_tail.
Definition lc_hint_re : re := Seq lc_open (Seq (Atom (c_lit 43)) lc_tail).

(* ---- body / context predicates ------------------------------------------------------------- *)
(* Body of a quote-delimited region with quote character [q]: a sequence of
     - characters other than [q] (and, when [esc], other than backslash),
     - doubled quotes [q q],
     - when [esc]: a backslash that is followed, inside the body, by a character other than [q]
       (that character is then scanned as an item of its own). *)
Fixpoint quoted_body_ok (q : N) (esc : bool) (t : text) : bool :=
  match t with
  | [] => true
  | c :: t' =>
      if N.eqb c q then
        match t' with
        | d :: t'' => N.eqb d q && quoted_body_ok q esc t''
        | [] => false
        end
      else if esc && N.eqb c 92 then
        match t' with
        | d :: _ => negb (N.eqb d q) && quoted_body_ok q esc t'
        | [] => false
        end
      else cp_ok c && quoted_body_ok q esc t'
  end.

(* the plain reading of the property: no backslash at all *)
Fixpoint quoted_body_simple (q : N) (t : text) : bool :=
  match t with
  | [] => true
  | c :: t' =>
      if N.eqb c q then
        match t' with
        | d :: t'' => N.eqb d q && quoted_body_simple q t''
        | [] => false
        end
      else cp_ok c && negb (N.eqb c 92) && quoted_body_simple q t'
  end.

(* what follows the closing quote must not be another quote *)
Definition quoted_right_ok (q : N) (rest : text) : bool := negb (starts_with q rest).

(* block comment body: valid code points, no occurrence of "*/" (a trailing '*' is fine) *)
Fixpoint no_star_slash (t : text) : bool :=
  match t with
  | [] => true
  | c :: t' => negb (N.eqb c 42 && starts_with 47 t') && no_star_slash t'
  end.
Definition bc_body_ok (t : text) : bool := text_ok t && no_star_slash t.
Definition bc_type (body : text) : ttype :=
  if starts_with 43 body then T_CMultilineHint else T_CMultiline.

(* line comment: opener "--" or "# ", body without CR / LF, closer CR LF | CR | LF | end of text *)
Definition lc_opener_ok (o : text) : bool := text_eqb o [45; 45]%N || text_eqb o [35; 32]%N.
Definition lc_body_ok (t : text) : bool :=
  forallb (fun c => cp_ok c && negb (N.eqb c 10) && negb (N.eqb c 13)) t.
Definition lc_close_ok (closer rest : text) : bool :=
  text_eqb closer [13; 10]%N
  || (text_eqb closer [13]%N && negb (starts_with 10 rest))
  || text_eqb closer [10]%N
  || (is_nil closer && is_nil rest).
Definition lc_type (body : text) : ttype :=
  if starts_with 43 body then T_CSingleHint else T_CSingle.

(* ---- dollar-quoted bodies ------------------------------------------------------------------- *)
(* ((?<![\w<dq>\$])\$(?:[_A-ZÀ-Ü]\w* )?\$)[\s\S]*?\1   -- parametric in the three character classes *)
Definition dq_open_body (left first word : cset) : re :=
  Seq (Behind true left)
      (Seq (Atom (c_lit 36))
           (Seq (Rep true 0 (Some 1) (Seq (Atom first) (Rep true 0 None (Atom word))))
                (Atom (c_lit 36)))).
Definition dq_open (left first word : cset) : re := Group 1 (dq_open_body left first word).
Definition dq_tail : re := Seq (Rep false 0 None (Atom c_any)) (Backref 1).
Definition dq_re (left first word : cset) : re := Seq (dq_open left first word) dq_tail.

Definition dq_left_ok (left : cset) (p : option N) : bool := negb (mem_opt p left).

(* the tag between the two dollars: empty, or a first character followed by word characters *)
Definition dq_tag_ok (first word : cset) (tag : text) : bool :=
  match tag with
  | [] => true
  | c0 :: ws => cmem c0 first && forallb (fun c => cmem c word) ws
  end.

Definition dq_delim (tag : text) : text := (36 :: tag ++ [36])%N.

Section CI.
Variable lower : N -> N.

(* case-insensitive equality of two delimiters (what the back-reference accepts) *)
Fixpoint ci_eqb (d d' : text) : bool :=
  match d, d' with
  | [], [] => true
  | c :: d1, c' :: d1' => N.eqb (lower c) (lower c') && ci_eqb d1 d1'
  | _, _ => false
  end.

(* some character of [d] differs (case-insensitively) from the character of [t] at the same
   position; for |t| >= |d| this is "d is not a case-insensitive prefix of t" *)
Fixpoint ci_mismatch (d t : text) : bool :=
  match d, t with
  | c :: d1, c' :: t1 => negb (N.eqb (lower c) (lower c')) || ci_mismatch d1 t1
  | _, _ => false
  end.

(* the delimiter does not occur (case-insensitively) in body ++ closer before position |body| *)
Fixpoint dq_body_ok (d closer body : text) : bool :=
  match body with
  | [] => true
  | ch :: b => cp_ok ch && ci_mismatch d (body ++ closer) && dq_body_ok d closer b
  end.
End CI.
