(* C11 at the lexer level: whitespace runs.  Definitions only (proofs: WsRunFacts.v).
   A whitespace run is a sequence of UNITS: one character of the blank class (every \s character
   other than CR and LF), a line feed, or CR LF.  The lexer turns every unit into exactly one token
   (rule `\s+?` is lazy: one Whitespace token per character; rule `(\r\n|\r|\n)`: one Newline
   token per line break). *)
From SqlModel Require Import Base Re Lexer.

Inductive wsunit := UC (c : N) | ULF | UCRLF.

Definition utext1 (u : wsunit) : text :=
  match u with UC c => [c] | ULF => [10%N] | UCRLF => [13%N; 10%N] end.
Definition utext (us : list wsunit) : text := flat_map utext1 us.

Definition utok1 (tw tn : ttype) (u : wsunit) : tok :=
  match u with UC c => (tw, [c]) | ULF => (tn, [10%N]) | UCRLF => (tn, [13%N; 10%N]) end.
Definition utoks (tw tn : ttype) (us : list wsunit) : list tok := map (utok1 tw tn) us.

(* the character before the position that follows the run *)
Definition ulast1 (u : wsunit) : N := match u with UC c => c | _ => 10%N end.
Fixpoint ulast (p : option N) (us : list wsunit) : option N :=
  match us with [] => p | u :: r => ulast (Some (ulast1 u)) r end.

(* ---- a conservative first-character test: [nomatch r c = true] implies that r has no match at
        a position whose first character is c ------------------------------------------------- *)
Definition zero_width (r : re) : bool :=
  match r with
  | Eps | Behind _ _ | Bound _ | AtEnd | Ahead _ _ => true
  | _ => false
  end.

Fixpoint nomatch (r : re) (c : N) : bool :=
  match r with
  | Atom s => negb (cmem c s)
  | Seq a b => nomatch a c || (zero_width a && nomatch b c)
  | Alt a b => nomatch a c && nomatch b c
  | Group _ r' => nomatch r' c
  | Rep _ lo _ r' => Nat.leb 1 lo && nomatch r' c
  | _ => false
  end.

(* ---- the character sets a rule consults about the character BEFORE the position ------------- *)
Fixpoint look_forall_b (P : cset -> bool) (r : re) : bool :=
  match r with
  | Behind _ s | Bound s => P s
  | Seq a b | Alt a b => look_forall_b P a && look_forall_b P b
  | Rep _ _ _ r' | Group _ r' | Ahead _ r' => look_forall_b P r'
  | _ => true
  end.

(* the shape of the line-break rule (\r\n|\r|\n) *)
Definition newline_re (n : nat) (cr lf : cset) : re :=
  Group n (Alt (Seq (Atom cr) (Atom lf)) (Alt (Atom cr) (Atom lf))).
(* the shape of the whitespace rule \s+? *)
Definition lazy_ws_re (s : cset) : re := Rep false 1 None (Atom s).

(* true-intervals [lo, hi) of a character set (for the examples) *)
Fixpoint cset_ivs (s : cset) (lo hi : N) : list (N * N) :=
  match s with
  | CLeaf true => if N.ltb lo hi then [(lo, hi)] else []
  | CLeaf false => []
  | CNode p l r => cset_ivs l lo (N.min p hi) ++ cset_ivs r (N.max p lo) hi
  end.
