(* C14: concrete instances of the region theorems (hypotheses satisfiable, conclusions agree with
   the executable model), and refuted variants showing that each side condition is needed. *)
From SqlModel Require Import Base Re MinWidth Lexer FirstDefs First RegionDefs Regions.
From SqlModel.Gen Require Import Atoms CaseTabs Rules.
From SqlModel Require Import Cur.
Local Open Scope N_scope.

(* ---- the first-character analysis on the current table ---------------------------------------- *)
(* number of rules that may start with: quote, double quote, backtick, slash, minus, hash, dollar *)
Example can_start_counts :
  map (fun ch => length (filter (fun ra => can_start (fst ra) ch) sql_regex)) [39; 34; 96; 47; 45; 35; 36]
  = [1; 2; 1; 3; 8; 5; 2]%nat.
Proof. vm_compute. reflexivity. Qed.

(* ---- 1: single-quoted string; the body has a doubled quote, semicolon, comment openers, the
   other quote characters, LF, NUL, e-acute, the euro sign, backslash n; after =, before ; ---- *)
Definition ex_single : text := [97; 39; 39; 59; 45; 45; 47; 42; 34; 96; 10; 0; 233; 8364; 92; 110].
Example single_quoted_ex :
  quoted_body_ok 39 true ex_single = true /\ quoted_right_ok 39 [59] = true
  /\ cur_first_match (mkSt (Some 61) ([39] ++ ex_single ++ [39] ++ [59]))
     = Some (Emit [Literal; String; Single], 18%nat).
Proof. vm_compute. repeat split; reflexivity. Qed.
Example single_quoted_ex_thm :
  cur_first_match (mkSt (Some 61) ([39] ++ ex_single ++ [39] ++ [59]))
  = Some (Emit [Literal; String; Single], (1 + length ex_single + 1)%nat).
Proof. apply single_quoted_region; reflexivity. Qed.

(* ---- 4: double-quoted name ------------------------------------------------------------------- *)
Definition ex_double : text := [97; 34; 34; 59; 45; 45; 47; 42; 39; 96; 10; 0; 233; 92; 110].
Example double_quoted_ex :
  quoted_body_ok 34 true ex_double = true /\ quoted_right_ok 34 [59] = true
  /\ cur_first_match (mkSt (Some 61) ([34] ++ ex_double ++ [34] ++ [59]))
     = Some (Emit [Literal; String; Symbol], 17%nat).
Proof. vm_compute. repeat split; reflexivity. Qed.
Example double_quoted_ex_thm :
  cur_first_match (mkSt (Some 61) ([34] ++ ex_double ++ [34] ++ [59]))
  = Some (Emit [Literal; String; Symbol], (1 + length ex_double + 1)%nat).
Proof. apply double_quoted_region; reflexivity. Qed.

(* ---- 5: backtick name; the body ends in backslash quote: backslash is ordinary here ---------- *)
Definition ex_backtick : text := [97; 96; 96; 59; 45; 45; 47; 42; 39; 34; 10; 0; 233; 92; 39].
Example backtick_ex :
  quoted_body_ok 96 false ex_backtick = true /\ quoted_right_ok 96 [59] = true
  /\ cur_first_match (mkSt (Some 61) ([96] ++ ex_backtick ++ [96] ++ [59]))
     = Some (Emit [Name], 17%nat).
Proof. vm_compute. repeat split; reflexivity. Qed.
Example backtick_ex_thm :
  cur_first_match (mkSt (Some 61) ([96] ++ ex_backtick ++ [96] ++ [59]))
  = Some (Emit [Name], (1 + length ex_backtick + 1)%nat).
Proof. apply backtick_region; reflexivity. Qed.

(* ---- 2: block comment; the body has a semicolon, both comment openers, all quote characters,
   LF, CR, NUL, e-acute and ends in two stars; another star-slash follows the region ---- *)
Definition ex_block : text := [32; 97; 59; 45; 45; 47; 42; 39; 34; 96; 10; 13; 0; 233; 42; 42].
Example block_comment_ex :
  bc_body_ok ex_block = true
  /\ cur_first_match (mkSt (Some 61) ([47; 42] ++ ex_block ++ [42; 47] ++ [42; 47]))
     = Some (Emit [Comment; Multiline], 20%nat).
Proof. vm_compute. repeat split; reflexivity. Qed.
Example block_comment_hint_ex :
  bc_body_ok (43 :: ex_block) = true
  /\ cur_first_match (mkSt (Some 61) ([47; 42] ++ (43 :: ex_block) ++ [42; 47] ++ [42; 47]))
     = Some (Emit [Comment; Multiline; Hint], 21%nat).
Proof. vm_compute. repeat split; reflexivity. Qed.
Example block_comment_ex_thm :
  cur_first_match (mkSt (Some 61) ([47; 42] ++ ex_block ++ [42; 47] ++ [42; 47]))
  = Some (Emit (bc_type ex_block), (2 + length ex_block + 2)%nat).
Proof. apply block_comment_region; reflexivity. Qed.

(* ---- 3: line comment; the body has a semicolon, comment openers and closers, quote characters,
   NUL, e-acute; tried with the four closers ---- *)
Definition ex_line : text := [32; 97; 59; 45; 45; 47; 42; 42; 47; 39; 34; 96; 0; 233].
Example line_comment_ex :
  lc_body_ok ex_line = true
  /\ map (fun cr => (lc_close_ok (fst cr) (snd cr),
                     cur_first_match (mkSt (Some 61) ([45; 45] ++ ex_line ++ fst cr ++ snd cr))))
         [([13; 10], [10]); ([13], [97]); ([10], [10]); ([], [])]
     = [(true, Some (Emit [Comment; Single], 18%nat)); (true, Some (Emit [Comment; Single], 17%nat));
        (true, Some (Emit [Comment; Single], 17%nat)); (true, Some (Emit [Comment; Single], 16%nat))].
Proof. vm_compute. repeat split; reflexivity. Qed.
Example line_comment_hint_ex :
  lc_body_ok (43 :: ex_line) = true
  /\ cur_first_match (mkSt (Some 61) ([35; 32] ++ (43 :: ex_line) ++ [10] ++ [120]))
     = Some (Emit [Comment; Single; Hint], 18%nat).
Proof. vm_compute. repeat split; reflexivity. Qed.
Example line_comment_ex_thm :
  cur_first_match (mkSt (Some 61) ([45; 45] ++ ex_line ++ [13] ++ [97]))
  = Some (Emit (lc_type ex_line), (2 + length ex_line + 1)%nat).
Proof. apply line_comment_region; reflexivity. Qed.

(* ---- 6: dollar quoting; tag a1_, closing delimiter in upper case, the body has LF, a quote,
   dollars, a shorter dollar tag, semicolon, minus minus, NUL, e-acute; dollar x follows ---- *)
Definition ex_dollar : text := [10; 39; 36; 97; 36; 36; 59; 45; 45; 0; 233].
Example dollar_quoted_ex :
  dq_left_ok a_17 (Some 32) = true /\ dq_tag_ok a_19 word_set [97; 49; 95] = true
  /\ ci_eqb lower (dq_delim [97; 49; 95]) [36; 65; 49; 95; 36] = true
  /\ dq_body_ok lower (dq_delim [97; 49; 95]) [36; 65; 49; 95; 36] ex_dollar = true
  /\ cur_first_match (mkSt (Some 32)
                           (dq_delim [97; 49; 95] ++ ex_dollar ++ [36; 65; 49; 95; 36] ++ [36; 120]))
     = Some (Emit [Literal], 21%nat).
Proof. vm_compute. repeat split; reflexivity. Qed.
Example dollar_quoted_empty_tag_ex :
  dq_body_ok lower (dq_delim []) [36; 36] [97; 36; 98] = true
  /\ cur_first_match (mkSt None (dq_delim [] ++ [97; 36; 98] ++ [36; 36] ++ [36]))
     = Some (Emit [Literal], 7%nat).
Proof. vm_compute. repeat split; reflexivity. Qed.
Example dollar_quoted_ex_thm :
  cur_first_match (mkSt (Some 32)
                        (dq_delim [97; 49; 95] ++ ex_dollar ++ [36; 65; 49; 95; 36] ++ [36; 120]))
  = Some (Emit [Literal],
          Nat.add (Nat.add (length (dq_delim [97; 49; 95])) (length ex_dollar))
                  (length [36; 65; 49; 95; 36])).
Proof. apply dollar_quoted_region; vm_compute; reflexivity. Qed.

(* ---- a whole text: SELECT, a string, a block comment, a quoted name, a backtick name (each
   containing a semicolon), a line comment, a semicolon ---- *)
Example regions_in_a_statement :
  cur_lex [83; 69; 76; 69; 67; 84; 32; 39; 97; 59; 39; 39; 98; 39; 32; 47; 42; 32; 59; 32; 42; 47; 32;
           34; 120; 59; 121; 34; 32; 96; 112; 59; 113; 96; 32; 45; 45; 32; 122; 59; 10; 59]
  = Ok [([Keyword; DML], [83; 69; 76; 69; 67; 84]); ([Text; Whitespace], [32]);
        ([Literal; String; Single], [39; 97; 59; 39; 39; 98; 39]); ([Text; Whitespace], [32]);
        ([Comment; Multiline], [47; 42; 32; 59; 32; 42; 47]); ([Text; Whitespace], [32]);
        ([Literal; String; Symbol], [34; 120; 59; 121; 34]); ([Text; Whitespace], [32]);
        ([Name], [96; 112; 59; 113; 96]); ([Text; Whitespace], [32]);
        ([Comment; Single], [45; 45; 32; 122; 59; 10]); ([Punctuation], [59])].
Proof. vm_compute. reflexivity. Qed.

(* ================================================================================================
   refuted variants: what happens when a side condition is dropped
   ================================================================================================ *)
(* a backslash directly before the closing quote: the token runs on to a later quote
   (quote a backslash quote space b quote is ONE string of 7 characters) *)
Theorem single_quoted_backslash_refuted :
  exists body rest,
    forallb (fun c => negb (N.eqb c 39)) body = true /\ text_ok body = true
    /\ quoted_right_ok 39 rest = true
    /\ cur_first_match (mkSt None ([39] ++ body ++ [39] ++ rest))
       <> Some (Emit [Literal; String; Single], (1 + length body + 1)%nat).
Proof. exists [97; 92], [32; 98; 39]. vm_compute. repeat split; discriminate. Qed.

(* `whatever delimiter surrounds it` fails for the own quote of the region: two adjacent strings
   are one token *)
Theorem single_quoted_adjacent_refuted :
  exists body rest,
    quoted_body_simple 39 body = true
    /\ cur_first_match (mkSt None ([39] ++ body ++ [39] ++ rest))
       <> Some (Emit [Literal; String; Single], (1 + length body + 1)%nat).
Proof. exists [97], [39; 98; 39]. vm_compute. split; [reflexivity | discriminate]. Qed.

(* a line comment also ends at a lone CR:  --a CR b LF  is cut after the CR *)
Theorem line_comment_cr_refuted :
  exists body,
    forallb (fun c => negb (N.eqb c 10)) body = true /\ text_ok body = true
    /\ cur_first_match (mkSt None ([45; 45] ++ body ++ [10]))
       <> Some (Emit [Comment; Single], (2 + length body + 1)%nat).
Proof. exists [97; 13; 98]. vm_compute. repeat split; discriminate. Qed.

(* the left condition of the dollar rule is needed: after a word character no rule matches at all *)
Theorem dollar_left_refuted :
  exists p, cur_first_match (mkSt p (dq_delim [] ++ [97] ++ [36; 36])) = None.
Proof. exists (Some 97). vm_compute. reflexivity. Qed.

(* the closing delimiter is found case-insensitively:  $a$ $A$ $a$  ends at $A$ *)
Theorem dollar_case_refuted :
  exists body,
    dq_body_ok (fun c => c) (dq_delim [97]) (dq_delim [97]) body = true
    /\ cur_first_match (mkSt None (dq_delim [97] ++ body ++ dq_delim [97]))
       <> Some (Emit [Literal], (3 + length body + 3)%nat).
Proof. exists [32; 36; 65; 36; 32]. vm_compute. split; [reflexivity | discriminate]. Qed.

Print Assumptions single_quoted_backslash_refuted.
Print Assumptions single_quoted_adjacent_refuted.
Print Assumptions line_comment_cr_refuted.
Print Assumptions dollar_left_refuted.
Print Assumptions dollar_case_refuted.
