(* Lifting of Regex/RelInv.v to the lexer: if no rule of the table can observe the character
   relation [R] and [upper] identifies related words (keyword lookup), then related texts are
   lexed into the same number of tokens with the same types and pointwise related values.
   Generic in [lower], [upper], [rules], [kws], [R]. *)
From SqlModel Require Import Base Re Lexer RelInv.

Section LexRel.
Variable lower : N -> N.
Variable upper : text -> text.
Variable rules : list rule.
Variable kws : list kwdict.
Variable R : N -> N -> Prop.
Hypothesis R_lower : forall a b, R a b -> lower a = lower b.
Hypothesis R_upper : forall t t', Forall2 R t t' -> upper t = upper t'.

Definition rules_closed (rs : list rule) : Prop := Forall (fun ra => re_closed R (fst ra)) rs.

(* same type, related spelling *)
Definition tok_rel (a b : tok) : Prop := fst a = fst b /\ Forall2 R (snd a) (snd b).

Definition lex_res_rel (m m' : res (list tok)) : Prop :=
  match m, m' with
  | Ok ts, Ok ts' => Forall2 tok_rel ts ts'
  | Err e, Err e' => e = e'
  | _, _ => False
  end.

Lemma first_match_rel rs x x' :
  rules_closed rs -> st_rel R x x' -> first_match lower rs x = first_match lower rs x'.
Proof.
  intros Hrs Hx. induction Hrs as [|[r a] rs Hr _ IH]; cbn [first_match]; [reflexivity|].
  cbn [fst] in Hr. rewrite <- (rmatch_rel lower R R_lower r x x' Hr Hx).
  destruct (rmatch lower r x); [reflexivity | exact IH].
Qed.

Lemma mk_tok_rel a v v' :
  Forall2 R v v' -> tok_rel (mk_tok upper kws a v) (mk_tok upper kws a v').
Proof.
  intros Hv. destruct a as [ty|]; cbn [mk_tok]; split; cbn [fst snd]; auto.
  rewrite (R_upper _ _ Hv). reflexivity.
Qed.

Lemma lex_go_rel : rules_closed rules -> forall t t', Forall2 R t t' ->
  forall p p' skip, opt_rel R p p' ->
    lex_res_rel (lex_go lower upper rules kws p skip t) (lex_go lower upper rules kws p' skip t').
Proof.
  intros Hrs t t' Ht.
  induction Ht as [|ch ch' tl tl' Hch Htl IH]; intros p p' skip Hp; cbn [lex_go].
  - constructor.
  - destruct skip as [|k]; [|apply IH; exact Hch].
    assert (Hx : st_rel R (mkSt p (ch :: tl)) (mkSt p' (ch' :: tl'))).
    { split; cbn [prev rest]; [exact Hp | constructor; assumption]. }
    rewrite <- (first_match_rel rules _ _ Hrs Hx).
    destruct (first_match lower rules (mkSt p (ch :: tl))) as [[a n]|].
    + destruct n as [|n']; [reflexivity|].
      pose proof (IH (Some ch) (Some ch') n' Hch) as Hrec.
      destruct (lex_go lower upper rules kws (Some ch) n' tl) as [ts|e],
               (lex_go lower upper rules kws (Some ch') n' tl') as [ts'|e'];
        cbn [lex_res_rel] in *; try contradiction; [|exact Hrec].
      constructor; [|exact Hrec].
      apply mk_tok_rel. apply Forall2_firstn_rel. constructor; assumption.
    + pose proof (IH (Some ch) (Some ch') 0 Hch) as Hrec.
      destruct (lex_go lower upper rules kws (Some ch) 0 tl) as [ts|e],
               (lex_go lower upper rules kws (Some ch') 0 tl') as [ts'|e'];
        cbn [lex_res_rel] in *; try contradiction; [|exact Hrec].
      constructor; [|exact Hrec].
      split; cbn [fst snd]; [reflexivity | constructor; [exact Hch | constructor]].
Qed.

Theorem lex_rel : Forall (fun ra => re_closed R (fst ra)) rules ->
  forall t t', Forall2 R t t' ->
  match lex lower upper rules kws t, lex lower upper rules kws t' with
  | Ok ts, Ok ts' => Forall2 (fun a b => fst a = fst b /\ Forall2 R (snd a) (snd b)) ts ts'
  | Err e, Err e' => e = e'
  | _, _ => False
  end.
Proof.
  intros Hrs t t' Ht. unfold lex.
  exact (lex_go_rel Hrs t t' Ht None None 0 I).
Qed.

(* consequences in the shape clients use *)
Lemma tok_rel_types ts ts' : Forall2 tok_rel ts ts' -> map fst ts = map fst ts'.
Proof. induction 1 as [|a b ts ts' [Hab _] _ IH]; cbn [map]; congruence. Qed.

Lemma tok_rel_lengths ts ts' :
  Forall2 tok_rel ts ts' -> map (fun tk => length (snd tk)) ts = map (fun tk => length (snd tk)) ts'.
Proof.
  induction 1 as [|a b ts ts' [_ Hab] _ IH]; cbn [map]; [reflexivity|].
  rewrite (Forall2_len _ _ _ Hab), IH. reflexivity.
Qed.

Corollary lex_rel_ok : rules_closed rules -> forall t t' ts, Forall2 R t t' ->
  lex lower upper rules kws t = Ok ts ->
  exists ts', lex lower upper rules kws t' = Ok ts'
              /\ Forall2 tok_rel ts ts'
              /\ map fst ts = map fst ts'
              /\ map (fun tk => length (snd tk)) ts = map (fun tk => length (snd tk)) ts'.
Proof.
  intros Hrs t t' ts Ht E. pose proof (lex_rel Hrs t t' Ht) as H. rewrite E in H.
  destruct (lex lower upper rules kws t') as [ts'|e']; [|contradiction].
  exists ts'. split; [reflexivity|]. split; [exact H|].
  split; [apply tok_rel_types | apply tok_rel_lengths]; exact H.
Qed.

End LexRel.

Print Assumptions lex_rel.
Print Assumptions lex_rel_ok.
