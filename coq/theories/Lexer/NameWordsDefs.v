(* C14, "a word in no dictionary is a Name": executable analyses.  Definitions only (no proofs).

   [a_ends r x] runs the backtracking matcher on a text of which only a PREFIX (rest x) is known:
   it returns the known initial segment of the ordered list of result states and a flag telling
   whether that segment is the whole list (the run never looked past the known prefix).
   On top of it: a search over the finitely many known prefixes of an unknown identifier showing
   that no dedicated rule can match it, whatever its remaining characters are. *)
From SqlModel Require Import Base PyStr Re Lexer FirstDefs CaseDefs WordsDefs.

(* ---- matching with a known prefix ------------------------------------------------------------ *)
Definition ares := (list st * bool)%type.      (* known results (in order), complete? *)

Definition a_app (a b : ares) : ares := if snd a then (fst a ++ fst b, snd b) else a.

Fixpoint a_flat (f : st -> ares) (l : list st) (complete : bool) : ares :=
  match l with
  | [] => ([], complete)
  | x :: l' => a_app (f x) (a_flat f l' complete)
  end.

Fixpoint a_iter (body : st -> ares) (greedy : bool) (lo : nat) (hi : option nat)
         (fuel count : nat) (x : st) : ares :=
  let stop : ares := (if Nat.leb lo count then [x] else [], true) in
  let more : ares :=
    if (match hi with Some h => Nat.ltb count h | None => true end)
    then match fuel with
         | O => ([], false)
         | S f => a_flat (fun x1 => a_iter body greedy lo hi f (S count) x1)
                         (fst (body x)) (snd (body x))
         end
    else ([], true) in
  if greedy then a_app more stop else a_app stop more.

Fixpoint a_ends (r : re) (x : st) : ares :=
  match r with
  | Eps => ([x], true)
  | Atom s =>
      match rest x with
      | ch :: tl => (if cmem ch s then [mkSt (Some ch) tl] else [], true)
      | [] => ([], false)
      end
  | Seq a b => a_flat (a_ends b) (fst (a_ends a x)) (snd (a_ends a x))
  | Alt a b => a_app (a_ends a x) (a_ends b x)
  | Rep g lo hi r' =>
      a_iter (a_ends r') g lo hi
             (match hi with Some h => h | None => S (length (rest x)) end) 0 x
  | Group _ r' => a_ends r' x
  | Backref _ => ([], false)
  | Ahead neg r' =>
      match a_ends r' x with
      | (_ :: _, _) => (if neg then [] else [x], true)
      | ([], true) => (if neg then [x] else [], true)
      | ([], false) => ([], false)
      end
  | Behind neg s => (if Bool.eqb (mem_opt (prev x) s) (negb neg) then [x] else [], true)
  | Bound w =>
      match rest x with
      | ch :: _ => (if xorb (mem_opt (prev x) w) (cmem ch w) then [x] else [], true)
      | [] => ([], false)
      end
  | AtEnd =>
      match rest x with
      | _ :: _ :: _ => ([], true)
      | _ => ([], false)
      end
  end.

(* the known prefix [u] after [p] rules out every match of [r], whatever follows *)
Definition a_dead (r : re) (p : option N) (u : text) : bool :=
  match a_ends r (mkSt p u) with
  | ([], true) => true
  | _ => false
  end.

(* first matching rule, decided on the known prefix alone *)
Fixpoint a_first_match (rs : list rule) (x : st) : option (action * nat) :=
  match rs with
  | [] => None
  | (r, a) :: rs' =>
      match a_ends r x with
      | ([], true) => a_first_match rs' x
      | (x1 :: _, _) => Some (a, length (rest x) - length (rest x1))
      | ([], false) => None
      end
  end.

(* ---- the prefix search ------------------------------------------------------------------------- *)
Section Search.
Variable lower : N -> N.
Variable P : list (option N).        (* look-behind characters *)
Variable R : list text.              (* right contexts *)
Variable alphabet : list N.          (* characters of the unknown part *)
Variable excl : text -> bool.        (* identifiers the theorem does not speak about *)

Definition none_at (D : list re) (p : option N) (t : text) : bool :=
  forallb (fun r => match rmatch lower r (mkSt p t) with None => true | Some _ => false end) D.

Definition live (D : list re) (u : text) : list re :=
  filter (fun r => negb (forallb (fun p => a_dead r p u) P)) D.

(* every identifier  u ++ s'  (s' over the alphabet, at most ... any length) that is not excluded
   is matched by no rule of D, after any p of P and before any r of R *)
Fixpoint covered (d : nat) (D : list re) (u : text) : bool :=
  match live D u with
  | [] => true
  | L =>
      match d with
      | O => false
      | S d' =>
          (excl u || forallb (fun p => forallb (fun r => none_at L p (u ++ r)) R) P)
          && forallb (fun c => covered d' L (u ++ [c])) alphabet
      end
  end.

End Search.

(* ---- rule shapes --------------------------------------------------------------------------------- *)
(* A W* (?=X) : the qualified-name / function-name rules *)
Definition star_shape (r : re) : option (cset * cset * re) :=
  match r with
  | Seq (Atom A) (Seq (Rep true 0 None (Atom W)) (Ahead false X)) => Some (A, W, X)
  | _ => None
  end.

(* A W* : the generic word rule *)
Definition word_shape (r : re) : option (cset * cset) :=
  match r with
  | Seq (Atom A) (Rep true 0 None (Atom W)) => Some (A, W)
  | _ => None
  end.

Definition head_not_in (W : cset) (t : text) : bool :=
  match t with d :: _ => negb (cmem d W) | [] => true end.

Section Shapes.
Variable lower : N -> N.
Variable R : list text.
Variable starts alphabet : list N.

Definition star_rule_ok (r : re) : bool :=
  match star_shape r with
  | Some (A, W, X) =>
      forallb (fun ch => no_start X ch) alphabet
      && forallb (fun rt => head_not_in W rt
                            && forallb (fun p' => match ends lower X (mkSt (Some p') rt) [] with
                                                  | [] => true | _ :: _ => false end) alphabet) R
  | None => true
  end.

Definition word_rule_ok (r : re) : bool :=
  match word_shape r with
  | Some (A, W) =>
      forallb (fun ch => cmem ch A) starts && forallb (fun ch => cmem ch W) alphabet
      && forallb (head_not_in W) R
  | None => false
  end.

End Shapes.

Definition is_star (r : re) : bool := match star_shape r with Some _ => true | None => false end.

(* ---- the identifier alphabet (upper-case normal form) ----------------------------------------- *)
Definition up_letters : list N := letters.
Definition digits : list N := map (fun k => (48 + N.of_nat k)%N) (seq 0 10).
Definition up_starts : list N := up_letters ++ [95%N].
Definition up_alphabet : list N := up_letters ++ digits ++ [95%N].

(* a left context is at most one character, lexed as one token on its own whatever follows *)
Definition left_ok (rules : list rule) (l : text) : bool :=
  match l with
  | [] => true
  | [ch] => match a_first_match rules (mkSt None [ch]) with
            | Some (Emit _, 1) => true
            | _ => false
            end
  | _ => false
  end.
