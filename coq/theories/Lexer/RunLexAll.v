(* RUN INVARIANCE of the WHOLE LEXER, for texts in which every token start is covered by the class `good`
   (Regex/RunInvDefs.v): two texts that are equal outside their white-space runs and have non-empty runs at the same
   places are lexed into the same sequence of significant tokens (same types, same values up to white space),
   separated by white-space tokens at the same places.  The conditions on the rule table are section hypotheses,
   discharged for the current SQL_REGEX in Inst/C11RunAll.v; the condition on the texts ([oktext]) is abstract:
   closed under suffixes, and at every position whose next character is not white space every rule is in the class or
   matches neither text. *)
From SqlModel Require Import Base PyStr Re MinWidth SplitApi SplitApiFacts RunInvDefs RunInv Lexer LexFacts.
From SqlModel Require Import SwallowDefs SwallowFacts RunLex.
From Coq Require Import Lia.

(* ---- generic facts ------------------------------------------------------------------------------------ *)
Section Gen.
Variable lower : N -> N.
Variable upper : text -> text.
Variable rules : list rule.
Variable kws : list kwdict.
Variable S : cset.
Notation inS := (inS S).
Notation snext_t := (snext_t S).
Notation LexSpec := (LexSpec lower upper rules kws).

Definition ws_action (a : action) : bool :=
  match a with Emit ty => tin ty T_Whitespace | AsKeyword => false end.
Definition ws_tok (tk : tok) : bool := tin (fst tk) T_Whitespace.

(* every character r consumes is in S *)
Fixpoint within (r : re) : bool :=
  match r with
  | Eps | Ahead _ _ | Behind _ _ | Bound _ | AtEnd => true
  | Atom s => csubset s S
  | Seq a b | Alt a b => within a && within b
  | Rep _ _ _ a | Group _ a => within a
  | Backref _ => false
  end.

Lemma within_consumes r c : within r = true -> inS c = false -> consumes c r = false.
Proof.
  intros H Hc. induction r as [| s | a IHa b IHb | a IHa b IHb | g lo hi r IH | n r IH | n | neg r IH
                              | neg s | w | ]; cbn [within consumes] in *; try reflexivity; try discriminate; auto.
  - destruct (cmem c s) eqn:M; [|reflexivity]. apply (csubset_sound _ _ H) in M. unfold RunInvDefs.inS in Hc. congruence.
  - apply andb_true_iff in H. destruct H as [Ha Hb]. rewrite (IHa Ha), (IHb Hb). reflexivity.
  - apply andb_true_iff in H. destruct H as [Ha Hb]. rewrite (IHa Ha), (IHb Hb). reflexivity.
Qed.

(* the text matched by a rule within S lies in S *)
Lemma within_match r x k : within r = true -> rmatch lower r x = Some k ->
  forallb inS (firstn k (rest x)) = true.
Proof.
  intros Hw E. apply forallb_forall. intros c Hin. destruct (inS c) eqn:Hc; [reflexivity|]. exfalso.
  exact (rmatch_clean lower c r x k (within_consumes r c Hw Hc) E Hin).
Qed.

Lemma first_match_rule rs x a k :
  first_match lower rs x = Some (a, k) -> exists r, In (r, a) rs /\ rmatch lower r x = Some k.
Proof.
  induction rs as [|[r a'] rs IH]; cbn [first_match]; intros H; [discriminate|].
  destruct (rmatch lower r x) as [k'|] eqn:E.
  - injection H as <- <-. exists r. split; [left; reflexivity | exact E].
  - destruct (IH H) as (r0 & H1 & H2). exists r0. split; [right; exact H1 | exact H2].
Qed.

Lemma first_match_some rs x r a : In (r, a) rs -> rmatch lower r x <> None -> first_match lower rs x <> None.
Proof.
  induction rs as [|[r' a'] rs IH]; intros Hin Hm; [contradiction|]. cbn [first_match].
  destruct (rmatch lower r' x) as [k'|] eqn:E; [discriminate|].
  destruct Hin as [Hin|Hin]; [injection Hin as -> ->; congruence | apply IH; assumption].
Qed.

(* a stuck rule matches nothing of positive width at a position whose next character is in S *)
Lemma stuck_rmatch r x : stuck S r = true -> snext S x = true ->
  rmatch lower r x = None \/ rmatch lower r x = Some 0.
Proof.
  intros Hs Hx. pose proof (stuck_unmoved lower S r Hs x [] Hx) as U. unfold rmatch.
  destruct (ends lower r x []) as [|[x1 c1] l]; [left; reflexivity|]. right.
  inversion U as [|? ? H1 _]; subst. cbn [fst] in H1. rewrite H1, Nat.sub_diag. reflexivity.
Qed.

(* `\s+` at a white-space character matches *)
Lemma iter_stop_nonempty (body : st -> caps -> list (st * caps)) g lo hi fuel count x c :
  lo <= count -> iter body g lo hi fuel count x c <> [].
Proof.
  intros Hle. assert (E : Nat.leb lo count = true) by (apply Nat.leb_le; exact Hle).
  destruct fuel as [|f]; cbn [iter]; rewrite E; destruct g; intros H;
    try (apply app_eq_nil in H; destruct H as [H1 H2]; discriminate).
Qed.

Lemma rmatch_plus_atom g s p c t : cmem c s = true ->
  rmatch lower (Rep g 1 None (Atom s)) (mkSt p (c :: t)) <> None.
Proof.
  intros M. unfold rmatch.
  change (ends lower (Rep g 1 None (Atom s)) (mkSt p (c :: t)) [])
    with (iter (abody lower s) g 1 None (Datatypes.S (length (c :: t))) 0 (mkSt p (c :: t)) []).
  rewrite (iter_atom_step lower s g 1 (length (c :: t)) 0 p c t [] M). cbn [Nat.leb].
  pose proof (iter_stop_nonempty (abody lower s) g 1 None (length (c :: t)) 1 (mkSt (Some c) t) [] (le_n 1)) as Hne.
  destruct (iter (abody lower s) g 1 None (length (c :: t)) 1 (mkSt (Some c) t) []) as [|[x1 c1] l]; [congruence|].
  destruct g; cbn [app]; discriminate.
Qed.

(* ---- LexSpec, inverted ----------------------------------------------------------------------------------- *)
Lemma LexSpec_nil_inv p l : LexSpec p [] l -> l = [].
Proof.
  intros H. inversion H as [| ? ? a k v t' toks Hm Hk Ht Hl Hrec |]; subst; [reflexivity|].
  destruct v; [cbn [length] in Hk; lia | discriminate].
Qed.

Lemma LexSpec_cons_inv p c t l : LexSpec p (c :: t) l ->
  match first_match lower rules (mkSt p (c :: t)) with
  | Some (a, k) =>
      exists toks, l = mk_tok upper kws a (firstn k (c :: t)) :: toks /\ 1 <= k
                   /\ LexSpec (push_prev p (firstn k (c :: t))) (skipn k (c :: t)) toks
  | None => exists toks, l = (T_Error, [c]) :: toks /\ LexSpec (Some c) t toks
  end.
Proof.
  intros H. inversion H as [| ? ? a k v t' toks Hm Hk Ht Hl Hrec | ? ? ? toks Hm Hrec]; subst.
  - rewrite Hm. exists toks. rewrite Ht, firstn_app, Nat.sub_diag, firstn_all, skipn_app, Nat.sub_diag, skipn_all.
    cbn [firstn skipn]. rewrite app_nil_r, app_nil_l. auto.
  - rewrite Hm. exists toks. auto.
Qed.

End Gen.

(* ---- the whole lexer -------------------------------------------------------------------------------------- *)
Section All.
Variable lower : N -> N.
Variable upper : text -> text.
Variable rules : list rule.
Variable kws : list kwdict.
Variable S : cset.
Variable oktext : text -> Prop.
Notation inS := (inS S).
Notation snext_t := (snext_t S).
Notation srel := (srel S).
Notation RS := (RS S).
Notation LexSpec := (LexSpec lower upper rules kws).

(* the conditions on the rule table and on the texts, as ONE hypothesis *)
Definition table_ok : Prop :=
  rules_wide rules = true
  /\ Forall (fun ra => if ws_action (snd ra) then within S (fst ra) = true else stuck S (fst ra) = true) rules
  /\ (forall p c t, inS c = true -> first_match lower rules (mkSt p (c :: t)) <> None)
  /\ forallb (fun d => forallb (fun e : text * ttype => negb (tin (snd e) T_Whitespace)) d) kws = true
  /\ action_free S rules AsKeyword
  /\ tin T_Error T_Whitespace = false
  /\ (forall w u, oktext (w ++ u) -> oktext u)
  /\ (forall p p' c t t', oktext (c :: t) -> oktext (c :: t') -> inS c = false ->
        srel (mkSt p (c :: t)) (mkSt p' (c :: t')) ->
        Forall (run_ok lower S (mkSt p (c :: t)) (mkSt p' (c :: t'))) rules).
Hypothesis HT : table_ok.

Let H_wide := proj1 HT.
Let H_rules := proj1 (proj2 HT).
Let H_wsmatch := proj1 (proj2 (proj2 HT)).
Let H_kws := proj1 (proj2 (proj2 (proj2 HT))).
Let H_free := proj1 (proj2 (proj2 (proj2 (proj2 HT)))).
Let H_err := proj1 (proj2 (proj2 (proj2 (proj2 (proj2 HT))))).
Let H_suf := proj1 (proj2 (proj2 (proj2 (proj2 (proj2 (proj2 HT)))))).
Let H_ok := proj2 (proj2 (proj2 (proj2 (proj2 (proj2 (proj2 HT)))))).

(* significant tokens: same type, values related by RS (equal outside their white-space runs, runs at the same places) *)
Definition tokrel (a b : tok) : Prop := fst a = fst b /\ RS (snd a) (snd b).

Inductive Lrel0 : list tok -> list tok -> Prop :=
| L0_nil : Lrel0 [] []
| L0_sig a b l l' : ws_tok a = false -> ws_tok b = false -> tokrel a b -> Lrel l l' -> Lrel0 (a :: l) (b :: l')
with Lrel : list tok -> list tok -> Prop :=
| L_direct l l' : Lrel0 l l' -> Lrel l l'
| L_run w w' l l' : w <> [] -> w' <> [] -> forallb ws_tok w = true -> forallb ws_tok w' = true ->
    Lrel0 l l' -> Lrel (w ++ l) (w' ++ l').

Scheme Lrel0_mind := Minimality for Lrel0 Sort Prop
  with Lrel_mind := Minimality for Lrel Sort Prop.

Lemma kw_lookup_not_ws w : forall ds,
  forallb (fun d => forallb (fun e : text * ttype => negb (tin (snd e) T_Whitespace)) d) ds = true ->
  tin (kw_lookup w ds) T_Whitespace = false.
Proof.
  induction ds as [|d ds IH]; cbn [kw_lookup forallb]; intros H; [reflexivity|].
  apply andb_true_iff in H. destruct H as [Hd Hds].
  destruct (dict_find w d) as [ty|] eqn:E; [|apply IH, Hds].
  clear - Hd E. induction d as [|[k ty'] d IH]; cbn [dict_find forallb] in *; [discriminate|].
  apply andb_true_iff in Hd. destruct Hd as [H1 H2].
  destruct (text_eqb w k); [injection E as <-; cbn [snd] in H1; destruct (tin ty' T_Whitespace); [discriminate | reflexivity] | auto].
Qed.

Lemma rule_of rs ra : Forall (fun ra => if ws_action (snd ra) then within S (fst ra) = true else stuck S (fst ra) = true) rs ->
  In ra rs -> if ws_action (snd ra) then within S (fst ra) = true else stuck S (fst ra) = true.
Proof. intros H Hin. exact (proj1 (Forall_forall _ _) H ra Hin). Qed.

(* a prefix of R ++ u that lies in S lies in R, when u does not start with a character of S *)
Lemma run_prefix k R u : forallb inS (firstn k (R ++ u)) = true -> snext_t u = false -> k <= length (R ++ u) ->
  k <= length R.
Proof.
  intros Hf Hu Hk. destruct (Nat.le_gt_cases k (length R)) as [Hle|Hgt]; [exact Hle|]. exfalso.
  rewrite firstn_app, forallb_app in Hf. apply andb_true_iff in Hf. destruct Hf as [_ Hf].
  rewrite app_length in Hk. destruct u as [|c u]; [cbn [length] in Hk; lia|].
  replace (k - length R) with (Datatypes.S (k - length R - 1)) in Hf by lia. cbn [firstn forallb] in Hf.
  apply andb_true_iff in Hf. cbn [RunInvDefs.snext_t] in Hu. destruct Hf as [Hc _]. congruence.
Qed.

(* lexing through a white-space run: white-space tokens only, and the lexer stops exactly at the end of the run *)
Lemma lex_ws_run : forall n R u p l, length R <= n -> R <> [] -> forallb inS R = true -> snext_t u = false ->
  LexSpec p (R ++ u) l ->
  exists w l2 p2, l = w ++ l2 /\ w <> [] /\ forallb ws_tok w = true /\ LexSpec p2 u l2 /\ mem_opt p2 S = true.
Proof.
  induction n as [|n IH]; intros R u p l Hn HR FR Hu HL.
  - destruct R; [congruence | cbn [length] in Hn; lia].
  - destruct R as [|r0 R1]; [congruence|]. cbn [app] in HL.
    pose proof (LexSpec_cons_inv lower upper rules kws p r0 (R1 ++ u) l HL) as Hinv.
    assert (Hr0 : inS r0 = true) by (cbn [forallb] in FR; apply andb_true_iff in FR; apply FR).
    destruct (first_match lower rules (mkSt p (r0 :: R1 ++ u))) as [[a k]|] eqn:Em;
      [|exfalso; exact (H_wsmatch p r0 (R1 ++ u) Hr0 Em)].
    destruct Hinv as (toks & -> & Hk1 & Hrec).
    destruct (first_match_width lower _ _ _ _ H_wide Em) as [_ Hk2]. cbn [rest] in Hk2.
    destruct (first_match_rule lower _ _ _ _ Em) as (r & Hin & Er).
    pose proof (rule_of rules (r, a) H_rules Hin) as Hra. cbn [fst snd] in Hra.
    destruct (ws_action a) eqn:Ha.
    + (* a white-space rule: its match lies in the run *)
      pose proof (within_match lower S r _ k Hra Er) as Hin_S. cbn [rest] in Hin_S.
      change (r0 :: R1 ++ u) with ((r0 :: R1) ++ u) in *.
      pose proof (run_prefix k (r0 :: R1) u Hin_S Hu Hk2) as Hkl.
      assert (E1 : firstn k ((r0 :: R1) ++ u) = firstn k (r0 :: R1)).
      { rewrite firstn_app. replace (k - length (r0 :: R1)) with 0 by lia. cbn [firstn]. apply app_nil_r. }
      assert (E2 : skipn k ((r0 :: R1) ++ u) = skipn k (r0 :: R1) ++ u).
      { rewrite skipn_app. replace (k - length (r0 :: R1)) with 0 by lia. reflexivity. }
      rewrite E1, E2 in Hrec. rewrite E1.
      assert (Htok : ws_tok (mk_tok upper kws a (firstn k (r0 :: R1))) = true).
      { destruct a as [ty|]; [exact Ha | discriminate]. }
      assert (Hv_ne : firstn k (r0 :: R1) <> []) by (destruct k; [lia | discriminate]).
      assert (Hv_S : forallb inS (firstn k (r0 :: R1)) = true).
      { rewrite <- (firstn_skipn k (r0 :: R1)), forallb_app in FR. apply andb_true_iff in FR. apply FR. }
      destruct (skipn k (r0 :: R1)) as [|r2 R2] eqn:Esk.
      * exists [mk_tok upper kws a (firstn k (r0 :: R1))], toks, (push_prev p (firstn k (r0 :: R1))).
        cbn [app forallb]. rewrite Htok. repeat split; [discriminate | exact Hrec |].
        apply (push_prev_inS S); assumption.
      * assert (Hlen : length (r2 :: R2) <= n).
        { rewrite <- Esk, skipn_length. cbn [length] in *. lia. }
        assert (FR2 : forallb inS (r2 :: R2) = true).
        { rewrite <- Esk. rewrite <- (firstn_skipn k (r0 :: R1)), forallb_app in FR. apply andb_true_iff in FR. apply FR. }
        destruct (IH (r2 :: R2) u _ toks Hlen ltac:(discriminate) FR2 Hu Hrec) as (w & l2 & p2 & -> & Hw & Fw & HL2 & Hp2).
        exists (mk_tok upper kws a (firstn k (r0 :: R1)) :: w), l2, p2. cbn [app forallb]. rewrite Htok, Fw.
        repeat split; [discriminate | exact HL2 | exact Hp2].
    + (* any other rule is stuck here *)
      exfalso. assert (Hx : snext S (mkSt p (r0 :: R1 ++ u)) = true) by exact Hr0.
      destruct (stuck_rmatch lower S r _ Hra Hx) as [E0|E0]; rewrite E0 in Er; [discriminate | injection Er as <-; lia].
Qed.

Lemma RS_cons_inv c t c' t' : RS (c :: t) (c' :: t') -> inS c = false -> c = c' /\ RS t t'.
Proof.
  intros H Hc. inversion H as [| c0 t0 t0' Hc0 Ht0 | R R' t0 t0' HR HR' FR FR' Hn Hn' Ht0 E1 E2]; subst; [auto|].
  exfalso. destruct R as [|r R]; [congruence|]. cbn [app] in E1. injection E1 as -> _.
  cbn [forallb] in FR. apply andb_true_iff in FR. destruct FR as [Hr _]. congruence.
Qed.

Lemma strip_prefix_eq v u v' u' :
  strip S (v ++ u) = strip S (v' ++ u') -> strip S u = strip S u' -> strip S v = strip S v'.
Proof. rewrite !strip_app. intros H E. rewrite E in H. apply app_inv_tail in H. exact H. Qed.

Lemma not_ws_tok a v : ws_action a = false -> ws_tok (mk_tok upper kws a v) = false.
Proof.
  destruct a as [ty|]; cbn [ws_action mk_tok]; intros H; [exact H|]. unfold ws_tok. cbn [fst].
  apply kw_lookup_not_ws. exact H_kws.
Qed.

(* the boundary after a token of k >= 1 characters is not inside a run when the state after it is not interior *)
Lemma after_bnd k p t0 : 1 <= k -> interior S (after k (mkSt p t0)) = false ->
  bnd S (firstn k t0) (skipn k t0).
Proof.
  intros Hk Hi. unfold bnd. unfold interior, snext, after in Hi. cbn [prev rest] in Hi.
  destruct (firstn k t0) as [|d v] eqn:E.
  - reflexivity.
  - assert (Hl : mem_opt (push_prev p (d :: v)) S = lastS S (d :: v)).
    { unfold lastS, push_prev. rewrite <- fold_left_rev_right. destruct (rev (d :: v)) as [|z r] eqn:Er.
      - exfalso. assert (H0 : d :: v = []) by (rewrite <- (rev_involutive (d :: v)), Er; reflexivity). discriminate.
      - cbn [fold_right mem_opt]. reflexivity. }
    rewrite <- Hl. exact Hi.
Qed.

Theorem lex_all : forall n t t' p p' l l', length t <= n ->
  LexSpec p t l -> LexSpec p' t' l' -> srel (mkSt p t) (mkSt p' t') -> oktext t -> oktext t' ->
  if snext_t t then Lrel l l' else Lrel0 l l'.
Proof.
  induction n as [|n IH]; intros t t' p p' l l' Hn HL HL' Hs Ho Ho'.
  - destruct t; [|cbn [length] in Hn; lia]. destruct Hs as (Ht & _). cbn [rest] in Ht.
    inversion Ht as [| | R R' t0 t0' HR HR' FR FR' Hn0 Hn0' Ht0 E1 E2]; subst.
    + rewrite (LexSpec_nil_inv lower upper rules kws _ _ HL), (LexSpec_nil_inv lower upper rules kws _ _ HL'). constructor.
    + destruct R; [congruence | discriminate].
  - pose proof Hs as (Ht & Hp & Hi & Hi'). cbn [rest prev] in Ht, Hp.
    destruct Ht as [| c t t' Hc Ht | R R' t t' HR HR' FR FR' Hnx Hnx' Ht].
    + rewrite (LexSpec_nil_inv lower upper rules kws _ _ HL), (LexSpec_nil_inv lower upper rules kws _ _ HL'). constructor.
    + (* a character outside S: the same rule on both sides *)
      cbn [RunInvDefs.snext_t]. rewrite Hc.
      pose proof (H_ok p p' c t t' Ho Ho' Hc Hs) as Hrules.
      pose proof (first_match_run lower S rules _ _ Hs Hrules) as Hfr. unfold first_rel in Hfr.
      pose proof (LexSpec_cons_inv lower upper rules kws p c t l HL) as Hinv.
      pose proof (LexSpec_cons_inv lower upper rules kws p' c t' l' HL') as Hinv'.
      destruct (first_match lower rules (mkSt p (c :: t))) as [[a k]|] eqn:Em;
        destruct (first_match lower rules (mkSt p' (c :: t'))) as [[a' k']|] eqn:Em'; try contradiction.
      * destruct Hfr as [<- Hafter]. destruct Hinv as (toks & -> & Hk1 & Hrec). destruct Hinv' as (toks' & -> & Hk1' & Hrec').
        destruct (first_match_width lower _ _ _ _ H_wide Em) as [_ Hk2]. cbn [rest] in Hk2.
        (* the matching rule is no white-space rule *)
        assert (Ha : ws_action a = false).
        { destruct (first_match_rule lower _ _ _ _ Em) as (r & Hin & Er).
          pose proof (rule_of rules (r, a) H_rules Hin) as Hra. cbn [fst snd] in Hra.
          destruct (ws_action a); [|reflexivity]. exfalso.
          pose proof (within_match lower S r _ k Hra Er) as HS. cbn [rest] in HS.
          destruct k as [|k0]; [lia|]. cbn [firstn forallb] in HS. apply andb_true_iff in HS. destruct HS as [HS _]. congruence. }
        assert (Hrest : Lrel toks toks').
        { assert (Hlen : length (skipn k (c :: t)) <= n) by (rewrite skipn_length; cbn [length] in *; lia).
          assert (Ho2 : oktext (skipn k (c :: t))) by (apply (H_suf (firstn k (c :: t))); rewrite firstn_skipn; exact Ho).
          assert (Ho2' : oktext (skipn k' (c :: t'))) by (apply (H_suf (firstn k' (c :: t'))); rewrite firstn_skipn; exact Ho').
          pose proof (IH _ _ _ _ _ _ Hlen Hrec Hrec' Hafter Ho2 Ho2') as R0.
          destruct (snext_t (skipn k (c :: t))); [exact R0 | apply L_direct, R0]. }
        apply L0_sig; [apply not_ws_tok, Ha | apply not_ws_tok, Ha | | exact Hrest].
        assert (Hstrip : strip S (firstn k (c :: t)) = strip S (firstn k' (c :: t'))).
        { apply (strip_prefix_eq _ (skipn k (c :: t)) _ (skipn k' (c :: t'))).
          - rewrite !firstn_skipn. apply RS_strip. constructor; assumption.
          - apply RS_strip. exact (proj1 Hafter). }
        assert (HRSv : RS (firstn k (c :: t)) (firstn k' (c :: t'))).
        { apply (RS_prefix_inv S (c :: t) (c :: t') ltac:(constructor; assumption)
                   (firstn k (c :: t)) (skipn k (c :: t)) (firstn k' (c :: t')) (skipn k' (c :: t'))).
          - symmetry. apply firstn_skipn.
          - symmetry. apply firstn_skipn.
          - exact (proj1 Hafter).
          - exact Hstrip.
          - exact (after_bnd k p (c :: t) Hk1 (proj1 (proj2 (proj2 Hafter)))).
          - exact (after_bnd k' p' (c :: t') Hk1' (proj2 (proj2 (proj2 Hafter)))). }
        split; [|rewrite !mk_tok_snd; exact HRSv].
        destruct a as [ty|]; [reflexivity|]. cbn [mk_tok fst].
        assert (HRS : RS (rest (mkSt p (c :: t))) (rest (mkSt p' (c :: t')))) by (constructor; assumption).
        pose proof (first_match_value lower S rules (mkSt p (c :: t)) (mkSt p' (c :: t')) AsKeyword k k' H_free HRS Em Em' Hafter) as Hv.
        cbn [rest] in Hv. rewrite Hv. reflexivity.
      * destruct Hinv as (toks & -> & Hrec). destruct Hinv' as (toks' & -> & Hrec').
        apply L0_sig; [exact H_err | exact H_err | split; [reflexivity | apply RS_refl] |].
        assert (Hs2 : srel (mkSt (Some c) t) (mkSt (Some c) t')).
        { repeat split; cbn [rest prev]; [exact Ht | left; reflexivity | |];
            unfold interior; cbn [prev mem_opt]; unfold RunInvDefs.inS in Hc; rewrite Hc; reflexivity. }
        assert (Hlen : length t <= n) by (cbn [length] in Hn; lia).
        pose proof (IH _ _ _ _ _ _ Hlen Hrec Hrec' Hs2 (H_suf [c] t Ho) (H_suf [c] t' Ho')) as R0.
        destruct (snext_t t); [exact R0 | apply L_direct, R0].
    + (* a run on both sides *)
      assert (Hsn : snext_t (R ++ t) = true).
      { destruct R as [|r R]; [congruence|]. cbn [forallb] in FR. apply andb_true_iff in FR. apply FR. }
      rewrite Hsn.
      destruct (lex_ws_run (length R) R t p l (le_n _) HR FR Hnx HL) as (w & l2 & p2 & -> & Hw & Fw & HL2 & Hp2).
      destruct (lex_ws_run (length R') R' t' p' l' (le_n _) HR' FR' Hnx' HL') as (w' & l2' & p2' & -> & Hw' & Fw' & HL2' & Hp2').
      apply L_run; try assumption.
      assert (Hs2 : srel (mkSt p2 t) (mkSt p2' t')).
      { repeat split; cbn [rest prev]; [exact Ht | right; split; assumption | |];
          unfold interior, snext; cbn [rest]; rewrite ?Hnx, ?Hnx'; apply andb_false_r. }
      assert (Hlen : length t <= n).
      { rewrite app_length in Hn. destruct R; [congruence | cbn [length] in Hn; lia]. }
      pose proof (IH _ _ _ _ _ _ Hlen HL2 HL2' Hs2 (H_suf R t Ho) (H_suf R' t' Ho')) as R0.
      rewrite Hnx in R0. exact R0.
Qed.

End All.
