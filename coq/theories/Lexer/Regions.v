(* C14 (first half): quoted strings, quoted names, comments and dollar-quoted bodies are matched
   as ONE region by the rule table, whatever the body contains.  Proofs. *)
From SqlModel Require Import Base Re MinWidth RepFacts Lexer LexFacts FirstDefs First RegionDefs.
From SqlModel.Gen Require Import Atoms CaseTabs Rules.
From SqlModel Require Import Cur.

Local Open Scope N_scope.

(* ---- character sets -------------------------------------------------------------------------- *)
Lemma cmem_lit q c : cmem c (c_lit q) = N.eqb c q.
Proof.
  unfold c_lit. cbn [cmem].
  destruct (N.ltb_spec c (q + 1)) as [H1|H1], (N.ltb_spec c q) as [H2|H2],
           (N.eqb_spec c q) as [H3|H3]; try reflexivity; lia.
Qed.

Lemma cmem_not q c : q < 1114112 -> cmem c (c_not q) = negb (N.eqb c q) && cp_ok c.
Proof.
  intros Hq. unfold c_not, cp_ok. cbn [cmem].
  destruct (N.ltb_spec c (q + 1)) as [H1|H1], (N.ltb_spec c q) as [H2|H2],
           (N.eqb_spec c q) as [H3|H3], (N.ltb_spec c 0) as [H4|H4],
           (N.ltb_spec c 1114112) as [H5|H5]; try reflexivity; lia.
Qed.

Lemma cmem_any c : cmem c c_any = cp_ok c.
Proof.
  unfold c_any, cp_ok. cbn [cmem].
  destruct (N.ltb_spec c 1114112) as [H1|H1], (N.ltb_spec c 0) as [H2|H2]; try reflexivity; lia.
Qed.

Lemma cmem_dot c : cmem c c_dot = negb (N.eqb c 10) && cp_ok c.
Proof. apply cmem_not. reflexivity. Qed.

Lemma eqb_neq_false a b : a <> b -> N.eqb a b = false.
Proof. apply N.eqb_neq. Qed.

Lemma length_app_sub {A} (w r : list A) : (length (w ++ r) - length r = length w)%nat.
Proof. rewrite app_length. lia. Qed.

Local Notation ends := (ends lower).

(* from "the rule's first result ends at [rest]" to [cur_first_match] *)
Lemma region_first_match i r a ch p w rest p' :
  nth_error sql_regex i = Some (r, a) ->
  none_start (firstn i sql_regex) ch = true ->
  first_is (ends r (mkSt p (ch :: w ++ rest)) []) (mkSt p' rest) ->
  cur_first_match (mkSt p (ch :: w ++ rest)) = Some (a, S (length w)).
Proof.
  intros Hn Hs Hf. unfold cur_first_match.
  apply (first_match_at lower sql_regex i r a ch p (w ++ rest) _ Hn Hs).
  rewrite (rmatch_first_is lower _ _ _ Hf). cbn [Re.rest length].
  f_equal. rewrite app_length. lia.
Qed.

(* ================================================================================================
   1, 4, 5: quote-delimited regions
   ================================================================================================ *)
Section Quoted3.
Variable q : N.
Hypothesis Hq : q < 1114112.
Hypothesis Hq92 : q <> 92.
Variable rest : text.
Hypothesis Hrest : quoted_right_ok q rest = true.

Lemma item3_minw : (1 <= minw (item3 q))%nat.
Proof. unfold item3. cbn [minw Nat.min Nat.add]. lia. Qed.

Lemma item3_qq p t c :
  exists c1, ends (item3 q) (mkSt p (q :: q :: t)) c = [(mkSt (Some q) t, c1)].
Proof.
  unfold item3. rewrite ends_group, !ends_alt, !ends_atom2, ends_atom.
  rewrite !cmem_lit, (cmem_not q q Hq), !N.eqb_refl, (eqb_neq_false q 92 Hq92).
  cbn [andb negb app map fst snd]. eexists. reflexivity.
Qed.

Lemma item3_plain p ch t c :
  ch <> q -> ch <> 92 -> cp_ok ch = true ->
  exists c1, ends (item3 q) (mkSt p (ch :: t)) c = [(mkSt (Some ch) t, c1)].
Proof.
  intros H1 H2 H3.
  unfold item3. rewrite ends_group, !ends_alt, !ends_atom2, ends_atom.
  rewrite !cmem_lit, (cmem_not q ch Hq), (eqb_neq_false ch q H1), (eqb_neq_false ch 92 H2), H3.
  cbn [andb negb].
  destruct t as [|d t']; cbn [app map fst snd]; eexists; reflexivity.
Qed.

Lemma item3_esc p d t c :
  d <> q ->
  exists c1, ends (item3 q) (mkSt p (92 :: d :: t)) c = [(mkSt (Some 92) (d :: t), c1)].
Proof.
  intros H1.
  unfold item3. rewrite ends_group, !ends_alt, !ends_atom2, ends_atom.
  rewrite !cmem_lit, (cmem_not q 92 Hq), (eqb_neq_false d q H1).
  assert (E : N.eqb 92 q = false) by (apply eqb_neq_false; congruence).
  rewrite E. change (cp_ok 92) with true.
  cbn [andb negb app map fst snd]. rewrite andb_false_r. cbn [app map fst snd].
  eexists. reflexivity.
Qed.

Lemma item3_stop p c : ends (item3 q) (mkSt p (q :: rest)) c = [].
Proof.
  unfold quoted_right_ok, starts_with in Hrest.
  destruct rest as [|d t'].
  - unfold item3. rewrite ends_group, !ends_alt, !ends_atom2, ends_atom.
    rewrite (cmem_not q q Hq), !N.eqb_refl. reflexivity.
  - apply negb_true_iff in Hrest.
    unfold item3. rewrite ends_group, !ends_alt, !ends_atom2, ends_atom.
    rewrite !cmem_lit, (cmem_not q q Hq), !N.eqb_refl, (eqb_neq_false q 92 Hq92), Hrest.
    reflexivity.
Qed.

Lemma quoted3_body n : forall body,
  (length body <= n)%nat -> quoted_body_ok q true body = true ->
  forall p c,
    first_is (ends (Seq (Rep true 0 None (item3 q)) (Atom (c_lit q)))
                   (mkSt p (body ++ q :: rest)) c)
             (mkSt (Some q) rest).
Proof.
  induction n as [|n IH]; intros body Hlen Hok p c.
  - destruct body as [|ch t]; [|cbn [length] in Hlen; lia].
    cbn [app]. rewrite (seq_star_greedy_stop lower _ item3_minw _ _ _ (item3_stop p c)).
    rewrite ends_atom, cmem_lit, N.eqb_refl. apply first_is_cons.
  - destruct body as [|ch t].
    + cbn [app]. rewrite (seq_star_greedy_stop lower _ item3_minw _ _ _ (item3_stop p c)).
      rewrite ends_atom, cmem_lit, N.eqb_refl. apply first_is_cons.
    + cbn [length] in Hlen. cbn [quoted_body_ok andb] in Hok.
      destruct (N.eqb_spec ch q) as [E|E].
      * subst ch. destruct t as [|d t']; [discriminate|].
        apply andb_true_iff in Hok. destruct Hok as [Hd Hok].
        apply N.eqb_eq in Hd. subst d.
        cbn [app]. destruct (item3_qq p (t' ++ q :: rest) c) as (c1 & E1).
        eapply (first_is_star_greedy_det lower _ item3_minw); [exact E1|].
        apply IH; [cbn [length] in Hlen; lia | exact Hok].
      * destruct (N.eqb_spec ch 92) as [E2|E2].
        -- subst ch. destruct t as [|d t']; [discriminate|].
           apply andb_true_iff in Hok. destruct Hok as [Hd Hok].
           apply negb_true_iff, N.eqb_neq in Hd.
           cbn [app]. destruct (item3_esc p d (t' ++ q :: rest) c Hd) as (c1 & E1).
           eapply (first_is_star_greedy_det lower _ item3_minw); [exact E1|].
           apply (IH (d :: t')); [lia | exact Hok].
        -- apply andb_true_iff in Hok. destruct Hok as [Hc Hok].
           cbn [app]. destruct (item3_plain p ch (t ++ q :: rest) c E E2 Hc) as (c1 & E1).
           eapply (first_is_star_greedy_det lower _ item3_minw); [exact E1|].
           apply IH; [lia | exact Hok].
Qed.

Lemma quoted3_first body p c :
  quoted_body_ok q true body = true ->
  first_is (ends (quoted3 q) (mkSt p (q :: body ++ q :: rest)) c) (mkSt (Some q) rest).
Proof.
  intros Hok. unfold quoted3.
  rewrite ends_seq_atom_hit by (rewrite cmem_lit; apply N.eqb_refl).
  apply (quoted3_body (length body)); [lia | exact Hok].
Qed.

End Quoted3.

Section Quoted2.
Variable q : N.
Hypothesis Hq : q < 1114112.
Variable rest : text.
Hypothesis Hrest : quoted_right_ok q rest = true.

Lemma item2_minw : (1 <= minw (item2 q))%nat.
Proof. unfold item2. cbn [minw Nat.min Nat.add]. lia. Qed.

Lemma item2_qq p t c :
  exists c1, ends (item2 q) (mkSt p (q :: q :: t)) c = [(mkSt (Some q) t, c1)].
Proof.
  unfold item2. rewrite ends_group, !ends_alt, !ends_atom2, ends_atom.
  rewrite !cmem_lit, (cmem_not q q Hq), !N.eqb_refl.
  cbn [andb negb app map fst snd]. eexists. reflexivity.
Qed.

Lemma item2_plain p ch t c :
  ch <> q -> cp_ok ch = true ->
  exists c1, ends (item2 q) (mkSt p (ch :: t)) c = [(mkSt (Some ch) t, c1)].
Proof.
  intros H1 H3.
  unfold item2. rewrite ends_group, !ends_alt, !ends_atom2, ends_atom.
  rewrite !cmem_lit, (cmem_not q ch Hq), (eqb_neq_false ch q H1), H3.
  cbn [andb negb].
  destruct t as [|d t']; cbn [app map fst snd]; eexists; reflexivity.
Qed.

Lemma item2_stop p c : ends (item2 q) (mkSt p (q :: rest)) c = [].
Proof.
  unfold quoted_right_ok, starts_with in Hrest.
  destruct rest as [|d t'].
  - unfold item2. rewrite ends_group, !ends_alt, !ends_atom2, ends_atom.
    rewrite (cmem_not q q Hq), !N.eqb_refl. reflexivity.
  - apply negb_true_iff in Hrest.
    unfold item2. rewrite ends_group, !ends_alt, !ends_atom2, ends_atom.
    rewrite !cmem_lit, (cmem_not q q Hq), !N.eqb_refl, Hrest.
    reflexivity.
Qed.

Lemma quoted2_body n : forall body,
  (length body <= n)%nat -> quoted_body_ok q false body = true ->
  forall p c,
    first_is (ends (Seq (Rep true 0 None (item2 q)) (Atom (c_lit q)))
                   (mkSt p (body ++ q :: rest)) c)
             (mkSt (Some q) rest).
Proof.
  induction n as [|n IH]; intros body Hlen Hok p c.
  - destruct body as [|ch t]; [|cbn [length] in Hlen; lia].
    cbn [app]. rewrite (seq_star_greedy_stop lower _ item2_minw _ _ _ (item2_stop p c)).
    rewrite ends_atom, cmem_lit, N.eqb_refl. apply first_is_cons.
  - destruct body as [|ch t].
    + cbn [app]. rewrite (seq_star_greedy_stop lower _ item2_minw _ _ _ (item2_stop p c)).
      rewrite ends_atom, cmem_lit, N.eqb_refl. apply first_is_cons.
    + cbn [length] in Hlen. cbn [quoted_body_ok andb] in Hok.
      destruct (N.eqb_spec ch q) as [E|E].
      * subst ch. destruct t as [|d t']; [discriminate|].
        apply andb_true_iff in Hok. destruct Hok as [Hd Hok].
        apply N.eqb_eq in Hd. subst d.
        cbn [app]. destruct (item2_qq p (t' ++ q :: rest) c) as (c1 & E1).
        eapply (first_is_star_greedy_det lower _ item2_minw); [exact E1|].
        apply IH; [cbn [length] in Hlen; lia | exact Hok].
      * apply andb_true_iff in Hok. destruct Hok as [Hc Hok].
        cbn [app]. destruct (item2_plain p ch (t ++ q :: rest) c E Hc) as (c1 & E1).
        eapply (first_is_star_greedy_det lower _ item2_minw); [exact E1|].
        apply IH; [lia | exact Hok].
Qed.

Lemma quoted2_first body p c :
  quoted_body_ok q false body = true ->
  first_is (ends (quoted2 q) (mkSt p (q :: body ++ q :: rest)) c) (mkSt (Some q) rest).
Proof.
  intros Hok. unfold quoted2.
  rewrite ends_seq_atom_hit by (rewrite cmem_lit; apply N.eqb_refl).
  apply (quoted2_body (length body)); [lia | exact Hok].
Qed.

End Quoted2.

(* the plain body (no backslash) is a special case *)
Lemma quoted_simple_ok q : forall n body,
  (length body <= n)%nat -> quoted_body_simple q body = true -> quoted_body_ok q true body = true.
Proof.
  induction n as [|n IH]; intros body Hlen H.
  - destruct body; [reflexivity | cbn [length] in Hlen; lia].
  - destruct body as [|ch t]; [reflexivity|].
    cbn [length] in Hlen. cbn [quoted_body_simple quoted_body_ok andb] in *.
    destruct (N.eqb ch q).
    + destruct t as [|d t']; [discriminate|].
      apply andb_true_iff in H. destruct H as [Hd H]. rewrite Hd. cbn [andb].
      apply IH; [cbn [length] in Hlen; lia | exact H].
    + apply andb_true_iff in H. destruct H as [H H2].
      apply andb_true_iff in H. destruct H as [Hc H1].
      apply negb_true_iff in H1. rewrite H1, Hc. cbn [andb]. apply IH; [lia | exact H2].
Qed.

(* ---- 1: single-quoted string ---------------------------------------------------------------- *)
Lemma pin_single : nth_error sql_regex 25 = Some (quoted3 39, Emit [Literal; String; Single]).
Proof. reflexivity. Qed.

Lemma single_no_earlier : none_start (firstn 25 sql_regex) 39 = true.
Proof. vm_compute. reflexivity. Qed.

Theorem single_quoted_region p body rest :
  quoted_body_ok 39 true body = true -> quoted_right_ok 39 rest = true ->
  cur_first_match (mkSt p ([39] ++ body ++ [39] ++ rest))
  = Some (Emit [Literal; String; Single], (1 + length body + 1)%nat).
Proof.
  intros Hb Hr. cbn [app].
  replace (1 + length body + 1)%nat with (S (length (body ++ [39]))) by (rewrite app_length; cbn [length]; lia).
  change (39 :: body ++ 39 :: rest) with (39 :: body ++ [39] ++ rest). rewrite app_assoc.
  apply (region_first_match 25 _ _ 39 p (body ++ [39]) rest (Some 39) pin_single single_no_earlier).
  rewrite <- app_assoc. cbn [app].
  apply quoted3_first; [reflexivity | discriminate | exact Hr | exact Hb].
Qed.

Corollary single_quoted_region_simple p body rest :
  quoted_body_simple 39 body = true -> quoted_right_ok 39 rest = true ->
  cur_first_match (mkSt p ([39] ++ body ++ [39] ++ rest))
  = Some (Emit [Literal; String; Single], (1 + length body + 1)%nat).
Proof.
  intros Hb Hr. apply single_quoted_region; [|exact Hr].
  apply (quoted_simple_ok 39 (length body)); [lia | exact Hb].
Qed.

(* ---- 4: double-quoted name -------------------------------------------------------------------- *)
Lemma pin_double : nth_error sql_regex 26 = Some (quoted3 34, Emit [Literal; String; Symbol]).
Proof. reflexivity. Qed.

Lemma double_no_earlier : none_start (firstn 26 sql_regex) 34 = true.
Proof. vm_compute. reflexivity. Qed.

Theorem double_quoted_region p body rest :
  quoted_body_ok 34 true body = true -> quoted_right_ok 34 rest = true ->
  cur_first_match (mkSt p ([34] ++ body ++ [34] ++ rest))
  = Some (Emit [Literal; String; Symbol], (1 + length body + 1)%nat).
Proof.
  intros Hb Hr. cbn [app].
  replace (1 + length body + 1)%nat with (S (length (body ++ [34]))) by (rewrite app_length; cbn [length]; lia).
  change (34 :: body ++ 34 :: rest) with (34 :: body ++ [34] ++ rest). rewrite app_assoc.
  apply (region_first_match 26 _ _ 34 p (body ++ [34]) rest (Some 34) pin_double double_no_earlier).
  rewrite <- app_assoc. cbn [app].
  apply quoted3_first; [reflexivity | discriminate | exact Hr | exact Hb].
Qed.

(* ---- 5: backtick-quoted name ------------------------------------------------------------------ *)
Lemma pin_backtick : nth_error sql_regex 9 = Some (quoted2 96, Emit [Name]).
Proof. reflexivity. Qed.

Lemma backtick_no_earlier : none_start (firstn 9 sql_regex) 96 = true.
Proof. vm_compute. reflexivity. Qed.

Theorem backtick_region p body rest :
  quoted_body_ok 96 false body = true -> quoted_right_ok 96 rest = true ->
  cur_first_match (mkSt p ([96] ++ body ++ [96] ++ rest))
  = Some (Emit [Name], (1 + length body + 1)%nat).
Proof.
  intros Hb Hr. cbn [app].
  replace (1 + length body + 1)%nat with (S (length (body ++ [96]))) by (rewrite app_length; cbn [length]; lia).
  change (96 :: body ++ 96 :: rest) with (96 :: body ++ [96] ++ rest). rewrite app_assoc.
  apply (region_first_match 9 _ _ 96 p (body ++ [96]) rest (Some 96) pin_backtick backtick_no_earlier).
  rewrite <- app_assoc. cbn [app].
  apply quoted2_first; [reflexivity | exact Hr | exact Hb].
Qed.

(* the acute-accent variant of the backtick rule *)
Lemma pin_acute : nth_error sql_regex 10 = Some (quoted2 180, Emit [Name]).
Proof. reflexivity. Qed.

Lemma acute_no_earlier : none_start (firstn 10 sql_regex) 180 = true.
Proof. vm_compute. reflexivity. Qed.

Theorem acute_region p body rest :
  quoted_body_ok 180 false body = true -> quoted_right_ok 180 rest = true ->
  cur_first_match (mkSt p ([180] ++ body ++ [180] ++ rest))
  = Some (Emit [Name], (1 + length body + 1)%nat).
Proof.
  intros Hb Hr. cbn [app].
  replace (1 + length body + 1)%nat with (S (length (body ++ [180]))) by (rewrite app_length; cbn [length]; lia).
  change (180 :: body ++ 180 :: rest) with (180 :: body ++ [180] ++ rest). rewrite app_assoc.
  apply (region_first_match 10 _ _ 180 p (body ++ [180]) rest (Some 180) pin_acute acute_no_earlier).
  rewrite <- app_assoc. cbn [app].
  apply quoted2_first; [reflexivity | exact Hr | exact Hb].
Qed.

Print Assumptions single_quoted_region.
Print Assumptions double_quoted_region.
Print Assumptions backtick_region.
Print Assumptions acute_region.

(* ================================================================================================
   2: block comments
   ================================================================================================ *)
Lemma pin_lc_hint : nth_error sql_regex 0 = Some (lc_hint_re, Emit [Comment; Single; Hint]).
Proof. reflexivity. Qed.
Lemma pin_bc_hint : nth_error sql_regex 1 = Some (bc_hint_re, Emit [Comment; Multiline; Hint]).
Proof. reflexivity. Qed.
Lemma pin_lc : nth_error sql_regex 2 = Some (lc_re, Emit [Comment; Single]).
Proof. reflexivity. Qed.
Lemma pin_bc : nth_error sql_regex 3 = Some (bc_re, Emit [Comment; Multiline]).
Proof. reflexivity. Qed.

Ltac use_pin Hn pin :=
  let E := fresh "E" in
  pose proof (eq_trans (eq_sym Hn) pin) as E; injection E as -> ->.

Lemma any_minw : (1 <= minw (Atom c_any))%nat.
Proof. cbn [minw]. lia. Qed.
Lemma dot_minw : (1 <= minw (Atom c_dot))%nat.
Proof. cbn [minw]. lia. Qed.

Lemma seq_plus_miss r p t c :
  starts_with 43 t = false -> ends (Seq (Atom (c_lit 43)) r) (mkSt p t) c = [].
Proof.
  intros H. destruct t as [|d t']; [reflexivity|].
  apply ends_seq_atom_miss. rewrite cmem_lit. exact H.
Qed.

Section BlockComment.
Variable rest : text.

Lemma bc_body_ok_cons ch t :
  bc_body_ok (ch :: t) = true ->
  cp_ok ch = true /\ (N.eqb ch 42 && starts_with 47 t = false) /\ bc_body_ok t = true.
Proof.
  unfold bc_body_ok. cbn [text_ok forallb no_star_slash]. intros H.
  apply andb_true_iff in H. destruct H as [H1 H2].
  apply andb_true_iff in H1. destruct H1 as [Hc Ht].
  apply andb_true_iff in H2. destruct H2 as [Hs Hn].
  apply negb_true_iff in Hs. unfold text_ok. rewrite Ht, Hn. auto.
Qed.

Lemma bc_tail_first : forall body,
  bc_body_ok body = true ->
  forall p c, first_is (ends bc_tail (mkSt p (body ++ 42 :: 47 :: rest)) c) (mkSt (Some 47) rest).
Proof.
  induction body as [|ch t IH]; intros Hok p c.
  - cbn [app]. unfold bc_tail. apply (first_is_star_lazy_stop lower _ any_minw).
    rewrite ends_atom2, !cmem_lit, !N.eqb_refl. apply first_is_cons.
  - apply bc_body_ok_cons in Hok. destruct Hok as (Hc & Hs & Hok).
    cbn [app]. unfold bc_tail.
    eapply (first_is_star_lazy_step lower _ any_minw).
    + rewrite ends_atom2. destruct t as [|d t']; cbn [app]; rewrite !cmem_lit.
      * change (N.eqb 42 47) with false. rewrite andb_false_r. reflexivity.
      * cbn [starts_with] in Hs. rewrite Hs. reflexivity.
    + rewrite ends_atom, cmem_any, Hc. reflexivity.
    + apply IH. exact Hok.
Qed.

Lemma bc_first body p c :
  bc_body_ok body = true ->
  first_is (ends bc_re (mkSt p (47 :: 42 :: body ++ 42 :: 47 :: rest)) c) (mkSt (Some 47) rest).
Proof.
  intros Hok. unfold bc_re.
  rewrite ends_seq_atom_hit by (rewrite cmem_lit; reflexivity).
  rewrite ends_seq_atom_hit by (rewrite cmem_lit; reflexivity).
  apply bc_tail_first. exact Hok.
Qed.

Lemma bc_hint_first body p c :
  bc_body_ok (43 :: body) = true ->
  first_is (ends bc_hint_re (mkSt p (47 :: 42 :: (43 :: body) ++ 42 :: 47 :: rest)) c)
           (mkSt (Some 47) rest).
Proof.
  intros Hok. apply bc_body_ok_cons in Hok. destruct Hok as (_ & _ & Hok).
  unfold bc_hint_re. cbn [app].
  rewrite ends_seq_atom_hit by (rewrite cmem_lit; reflexivity).
  rewrite ends_seq_atom_hit by (rewrite cmem_lit; reflexivity).
  rewrite ends_seq_atom_hit by (rewrite cmem_lit; reflexivity).
  apply bc_tail_first. exact Hok.
Qed.

Lemma bc_hint_fail body p c :
  starts_with 43 body = false ->
  ends bc_hint_re (mkSt p (47 :: 42 :: body ++ 42 :: 47 :: rest)) c = [].
Proof.
  intros H. unfold bc_hint_re.
  rewrite ends_seq_atom_hit by (rewrite cmem_lit; reflexivity).
  rewrite ends_seq_atom_hit by (rewrite cmem_lit; reflexivity).
  apply seq_plus_miss. destruct body as [|d t]; [reflexivity | exact H].
Qed.

End BlockComment.

Theorem block_comment_region p body rest :
  bc_body_ok body = true ->
  cur_first_match (mkSt p ([47; 42] ++ body ++ [42; 47] ++ rest))
  = Some (Emit (bc_type body), (2 + length body + 2)%nat).
Proof.
  intros Hok. cbn [app]. unfold cur_first_match, bc_type.
  assert (Hlen : forall p', Nat.sub (length (Re.rest (mkSt p (47 :: 42 :: body ++ 42 :: 47 :: rest))))
                                    (length (Re.rest (mkSt p' rest)))
                            = (2 + length body + 2)%nat).
  { intros p'. cbn [Re.rest length]. rewrite app_length. cbn [length]. lia. }
  destruct (starts_with 43 body) eqn:Hs.
  - destruct body as [|d t]; [discriminate|]. cbn [starts_with] in Hs.
    apply N.eqb_eq in Hs. subst d.
    apply (first_match_first lower sql_regex _ 1%nat _ _ _ pin_bc_hint).
    + intros j rj aj Hj Hn. destruct j as [|j]; [|lia].
      use_pin Hn pin_lc_hint.
      apply no_start_rmatch. reflexivity.
    + rewrite (rmatch_first_is lower _ _ _ (bc_hint_first rest t p [] Hok)).
      rewrite Hlen. reflexivity.
  - apply (first_match_first lower sql_regex _ 3%nat _ _ _ pin_bc).
    + intros j rj aj Hj Hn. destruct j as [|[|[|j]]]; [| | |lia].
      * use_pin Hn pin_lc_hint. apply no_start_rmatch. reflexivity.
      * use_pin Hn pin_bc_hint.
        apply rmatch_nil. apply bc_hint_fail. exact Hs.
      * use_pin Hn pin_lc. apply no_start_rmatch. reflexivity.
    + rewrite (rmatch_first_is lower _ _ _ (bc_first rest body p [] Hok)).
      rewrite Hlen. reflexivity.
Qed.

Print Assumptions block_comment_region.

(* ================================================================================================
   3: line comments
   ================================================================================================ *)
Section LineComment.
Variable rest : text.

Lemma lc_open_exact o p t c :
  lc_opener_ok o = true ->
  exists o2 c1, ends lc_open (mkSt p (o ++ t)) c = [(mkSt (Some o2) t, c1)].
Proof.
  unfold lc_opener_ok. intros H. apply orb_true_iff in H.
  destruct H as [H|H]; apply text_eqb_eq in H; subst o; cbn [app];
    unfold lc_open; rewrite ends_group, ends_alt, !ends_atom2, !cmem_lit;
    cbn [N.eqb Pos.eqb andb app map fst snd]; eexists; eexists; reflexivity.
Qed.

Lemma lc_close_first closer p c :
  lc_close_ok closer rest = true ->
  first_is (ends lc_close (mkSt p (closer ++ rest)) c) (mkSt (push_prev p closer) rest).
Proof.
  unfold lc_close_ok. intros H.
  apply orb_true_iff in H. destruct H as [H|H];
    [apply orb_true_iff in H; destruct H as [H|H];
     [apply orb_true_iff in H; destruct H as [H|H]|]|].
  - apply text_eqb_eq in H. subst closer. cbn [app].
    unfold lc_close. apply first_is_group. apply first_is_alt_l.
    rewrite ends_atom2, !cmem_lit. cbn [N.eqb Pos.eqb andb]. apply first_is_cons.
  - apply andb_true_iff in H. destruct H as [H Hr]. apply text_eqb_eq in H. subst closer.
    apply negb_true_iff in Hr. cbn [app].
    unfold lc_close. apply first_is_group. apply first_is_alt_r.
    + rewrite ends_atom2. destruct rest as [|d t']; [reflexivity|].
      cbn [starts_with] in Hr. rewrite !cmem_lit, Hr, andb_false_r. reflexivity.
    + apply first_is_alt_l. rewrite ends_atom, cmem_lit. cbn [N.eqb Pos.eqb].
      apply first_is_cons.
  - apply text_eqb_eq in H. subst closer. cbn [app].
    unfold lc_close. apply first_is_group. apply first_is_alt_r.
    + rewrite ends_atom2. destruct rest as [|d t']; [reflexivity|].
      rewrite !cmem_lit. cbn [N.eqb Pos.eqb andb]. reflexivity.
    + apply first_is_alt_r.
      * rewrite ends_atom, cmem_lit. cbn [N.eqb Pos.eqb]. reflexivity.
      * apply first_is_alt_l. rewrite ends_atom, cmem_lit. cbn [N.eqb Pos.eqb].
        apply first_is_cons.
  - apply andb_true_iff in H. destruct H as [H Hr].
    destruct closer; [|discriminate]. destruct rest; [|discriminate]. cbn [app].
    unfold lc_close. apply first_is_group. apply first_is_alt_r; [reflexivity|].
    apply first_is_alt_r; [reflexivity|]. apply first_is_alt_r; [reflexivity|].
    rewrite ends_atend. cbn [Re.rest at_end push_prev fold_left]. apply first_is_cons.
Qed.

Lemma lc_close_fail ch t p c :
  ch <> 10 -> ch <> 13 -> ends lc_close (mkSt p (ch :: t)) c = [].
Proof.
  intros H10 H13. unfold lc_close. apply group_nil.
  rewrite !ends_alt, ends_atom2, !ends_atom, ends_atend.
  destruct t as [|d t']; rewrite ?cmem_lit, (eqb_neq_false ch 13 H13), (eqb_neq_false ch 10 H10);
    cbn [Re.rest at_end andb app]; [rewrite (eqb_neq_false ch 10 H10)|]; reflexivity.
Qed.

Lemma lc_body_ok_cons ch t :
  lc_body_ok (ch :: t) = true ->
  cp_ok ch = true /\ ch <> 10 /\ ch <> 13 /\ lc_body_ok t = true.
Proof.
  unfold lc_body_ok. cbn [forallb]. intros H.
  apply andb_true_iff in H. destruct H as [H Ht].
  apply andb_true_iff in H. destruct H as [H H13].
  apply andb_true_iff in H. destruct H as [Hc H10].
  apply negb_true_iff, N.eqb_neq in H10. apply negb_true_iff, N.eqb_neq in H13. auto.
Qed.

Lemma lc_tail_first closer :
  lc_close_ok closer rest = true ->
  forall body, lc_body_ok body = true ->
  forall p c, exists p',
    first_is (ends lc_tail (mkSt p (body ++ closer ++ rest)) c) (mkSt p' rest).
Proof.
  intros Hcl. induction body as [|ch t IH]; intros Hok p c.
  - cbn [app]. exists (push_prev p closer). unfold lc_tail.
    apply (first_is_star_lazy_stop lower _ dot_minw). apply lc_close_first. exact Hcl.
  - apply lc_body_ok_cons in Hok. destruct Hok as (Hc & H10 & H13 & Hok).
    destruct (IH Hok (Some ch) c) as (p' & IH').
    exists p'. cbn [app]. unfold lc_tail.
    eapply (first_is_star_lazy_step lower _ dot_minw).
    + apply lc_close_fail; assumption.
    + rewrite ends_atom, cmem_dot, (eqb_neq_false ch 10 H10), Hc. reflexivity.
    + exact IH'.
Qed.

Lemma lc_first o closer body p c :
  lc_opener_ok o = true -> lc_close_ok closer rest = true -> lc_body_ok body = true ->
  exists p', first_is (ends lc_re (mkSt p (o ++ body ++ closer ++ rest)) c) (mkSt p' rest).
Proof.
  intros Ho Hcl Hok. destruct (lc_open_exact o p (body ++ closer ++ rest) c Ho) as (o2 & c1 & E).
  destruct (lc_tail_first closer Hcl body Hok (Some o2) c1) as (p' & Hf).
  exists p'. unfold lc_re. rewrite ends_seq, E, flat_map_single. exact Hf.
Qed.

Lemma lc_hint_first o closer body p c :
  lc_opener_ok o = true -> lc_close_ok closer rest = true -> lc_body_ok (43 :: body) = true ->
  exists p',
    first_is (ends lc_hint_re (mkSt p (o ++ (43 :: body) ++ closer ++ rest)) c) (mkSt p' rest).
Proof.
  intros Ho Hcl Hok. apply lc_body_ok_cons in Hok. destruct Hok as (_ & _ & _ & Hok).
  destruct (lc_open_exact o p ((43 :: body) ++ closer ++ rest) c Ho) as (o2 & c1 & E).
  destruct (lc_tail_first closer Hcl body Hok (Some 43) c1) as (p' & Hf).
  exists p'. unfold lc_hint_re. rewrite ends_seq, E, flat_map_single. cbn [fst snd app].
  rewrite ends_seq_atom_hit by (rewrite cmem_lit; reflexivity). exact Hf.
Qed.

Lemma lc_close_no_plus closer :
  lc_close_ok closer rest = true -> starts_with 43 (closer ++ rest) = false.
Proof.
  unfold lc_close_ok. intros H.
  apply orb_true_iff in H. destruct H as [H|H];
    [apply orb_true_iff in H; destruct H as [H|H];
     [apply orb_true_iff in H; destruct H as [H|H]|]|].
  - apply text_eqb_eq in H. subst closer. reflexivity.
  - apply andb_true_iff in H. destruct H as [H _]. apply text_eqb_eq in H. subst closer.
    reflexivity.
  - apply text_eqb_eq in H. subst closer. reflexivity.
  - apply andb_true_iff in H. destruct H as [H Hr].
    destruct closer; [|discriminate]. destruct rest; [|discriminate]. reflexivity.
Qed.

Lemma lc_hint_fail o closer body p c :
  lc_opener_ok o = true -> lc_close_ok closer rest = true -> starts_with 43 body = false ->
  ends lc_hint_re (mkSt p (o ++ body ++ closer ++ rest)) c = [].
Proof.
  intros Ho Hcl Hs. destruct (lc_open_exact o p (body ++ closer ++ rest) c Ho) as (o2 & c1 & E).
  unfold lc_hint_re. rewrite ends_seq, E, flat_map_single. cbn [fst snd].
  apply seq_plus_miss. destruct body as [|d t]; [|exact Hs].
  cbn [app]. apply lc_close_no_plus. exact Hcl.
Qed.

End LineComment.

Lemma lc_opener_cases o :
  lc_opener_ok o = true -> o = [45; 45] \/ o = [35; 32].
Proof.
  unfold lc_opener_ok. intros H. apply orb_true_iff in H.
  destruct H as [H|H]; apply text_eqb_eq in H; auto.
Qed.

Theorem line_comment_region p o body closer rest :
  lc_opener_ok o = true -> lc_body_ok body = true -> lc_close_ok closer rest = true ->
  cur_first_match (mkSt p (o ++ body ++ closer ++ rest))
  = Some (Emit (lc_type body), (length o + length body + length closer)%nat).
Proof.
  intros Ho Hok Hcl. unfold cur_first_match, lc_type.
  assert (Hlen : forall p', (length (Re.rest (mkSt p (o ++ body ++ closer ++ rest)))
                             - length (Re.rest (mkSt p' rest))
                             = length o + length body + length closer)%nat).
  { intros p'. cbn [Re.rest]. rewrite !app_length. lia. }
  destruct (starts_with 43 body) eqn:Hs.
  - destruct body as [|d t]; [discriminate|]. cbn [starts_with] in Hs.
    apply N.eqb_eq in Hs. subst d.
    destruct (lc_hint_first rest o closer t p [] Ho Hcl Hok) as (p' & Hf).
    apply (first_match_first lower sql_regex _ 0%nat _ _ _ pin_lc_hint).
    + intros j rj aj Hj Hn. lia.
    + rewrite (rmatch_first_is lower _ _ _ Hf). rewrite Hlen. reflexivity.
  - destruct (lc_first rest o closer body p [] Ho Hcl Hok) as (p' & Hf).
    apply (first_match_first lower sql_regex _ 2%nat _ _ _ pin_lc).
    + intros j rj aj Hj Hn. destruct j as [|[|j]]; [| |lia].
      * use_pin Hn pin_lc_hint.
        apply rmatch_nil. apply lc_hint_fail; assumption.
      * use_pin Hn pin_bc_hint.
        destruct (lc_opener_cases o Ho) as [-> | ->]; cbn [app];
          apply no_start_rmatch; reflexivity.
    + rewrite (rmatch_first_is lower _ _ _ Hf). rewrite Hlen. reflexivity.
Qed.

Print Assumptions line_comment_region.

(* ================================================================================================
   6: dollar-quoted bodies
   ================================================================================================ *)
Lemma firstn_len_sub {A} (w r : list A) : firstn (length (w ++ r) - length r) (w ++ r) = w.
Proof.
  rewrite length_app_sub, firstn_app, firstn_all, Nat.sub_diag. cbn [firstn]. apply app_nil_r.
Qed.

Lemma eat_mismatch d : forall t p, ci_mismatch lower d t = true -> eat lower d (mkSt p t) = None.
Proof.
  induction d as [|c d IH]; intros t p H; [discriminate|].
  destruct t as [|c' t']; [discriminate|].
  cbn [ci_mismatch] in H. cbn [eat Re.rest].
  destruct (N.eqb (lower c) (lower c')); [|reflexivity].
  cbn [negb orb] in H. apply IH. exact H.
Qed.

Lemma mismatch_app d : forall t r, ci_mismatch lower d t = true -> ci_mismatch lower d (t ++ r) = true.
Proof.
  induction d as [|c d IH]; intros t r H; [discriminate|].
  destruct t as [|c' t']; [discriminate|].
  cbn [ci_mismatch app] in *. apply orb_true_iff in H. apply orb_true_iff.
  destruct H as [H|H]; [left; exact H | right; apply IH; exact H].
Qed.

Lemma eat_ci_eq d : forall d' p r,
  ci_eqb lower d d' = true -> eat lower d (mkSt p (d' ++ r)) = Some (mkSt (push_prev p d') r).
Proof.
  induction d as [|c d IH]; intros d' p r H; destruct d' as [|c' d']; try discriminate.
  - reflexivity.
  - cbn [ci_eqb] in H. apply andb_true_iff in H. destruct H as [Hc H].
    cbn [eat Re.rest app]. rewrite Hc. rewrite (IH d' (Some c') r H). reflexivity.
Qed.

Lemma ci_eqb_length d : forall d', ci_eqb lower d d' = true -> length d = length d'.
Proof.
  induction d as [|c d IH]; intros [|c' d'] H; try discriminate; [reflexivity|].
  cbn [ci_eqb] in H. apply andb_true_iff in H. destruct H as [_ H].
  cbn [length]. f_equal. apply IH. exact H.
Qed.

Section Dollar.
Variables left first word : cset.
Hypothesis Hfirst : cmem 36 first = false.
Hypothesis Hword : cmem 36 word = false.

Lemma dq_open_inner p tag R c :
  dq_left_ok left p = true -> dq_tag_ok first word tag = true ->
  exists l,
    ends (dq_open_body left first word) (mkSt p (36 :: tag ++ 36 :: R)) c
    = (mkSt (Some 36) R, c) :: l.
Proof.
  intros Hp Ht. unfold dq_left_ok in Hp. apply negb_true_iff in Hp. unfold dq_open_body.
  rewrite ends_seq, ends_behind. cbn [prev]. rewrite Hp. cbn [negb Bool.eqb].
  rewrite flat_map_single. cbn [fst snd].
  rewrite ends_seq_atom_hit by (rewrite cmem_lit; reflexivity).
  rewrite ends_seq, ends_opt_greedy.
  destruct tag as [|c0 ws].
  - cbn [app]. rewrite (ends_seq_atom_miss lower first _ _ 36 R c Hfirst).
    cbn [app]. rewrite flat_map_single. cbn [fst snd].
    rewrite ends_atom, cmem_lit. cbn [N.eqb Pos.eqb]. exists []. reflexivity.
  - cbn [dq_tag_ok] in Ht. apply andb_true_iff in Ht. destruct Ht as [H0 Hws].
    cbn [app]. rewrite (ends_seq_atom_hit lower first _ _ c0 _ c H0).
    destruct (star_atom_run lower word ws (Some c0) (36 :: R) c Hws Hword) as (l & E).
    rewrite E. cbn [app flat_map fst snd].
    rewrite ends_atom, cmem_lit. cbn [N.eqb Pos.eqb app]. eexists. reflexivity.
Qed.

Lemma dq_open_first p tag R c :
  dq_left_ok left p = true -> dq_tag_ok first word tag = true ->
  exists l,
    ends (dq_open left first word) (mkSt p (dq_delim tag ++ R)) c
    = (mkSt (Some 36) R, (1%nat, dq_delim tag) :: c) :: l.
Proof.
  intros Hp Ht. unfold dq_open.
  assert (Esh : dq_delim tag ++ R = 36 :: tag ++ 36 :: R).
  { unfold dq_delim. cbn [app]. rewrite <- app_assoc. reflexivity. }
  destruct (dq_open_inner p tag R c Hp Ht) as (l & E). rewrite <- Esh in E.
  rewrite ends_group, E.
  cbn [map fst snd Re.rest]. rewrite firstn_len_sub. eexists. reflexivity.
Qed.

Lemma dq_tail_first d closer rest c0 :
  ci_eqb lower d closer = true ->
  forall body, dq_body_ok lower d closer body = true ->
  forall p, exists p',
    first_is (ends dq_tail (mkSt p (body ++ closer ++ rest)) ((1%nat, d) :: c0)) (mkSt p' rest).
Proof.
  intros Hcl. induction body as [|ch b IH]; intros Hok p.
  - cbn [app]. exists (push_prev p closer). unfold dq_tail.
    apply (first_is_star_lazy_stop lower _ any_minw).
    rewrite ends_backref. cbn [cap_get Nat.eqb]. rewrite (eat_ci_eq d closer p rest Hcl).
    apply first_is_cons.
  - cbn [dq_body_ok] in Hok. apply andb_true_iff in Hok. destruct Hok as [Hok Hb].
    apply andb_true_iff in Hok. destruct Hok as [Hc Hm].
    destruct (IH Hb (Some ch)) as (p' & IH'). exists p'.
    unfold dq_tail. cbn [app].
    eapply (first_is_star_lazy_step lower _ any_minw).
    + rewrite ends_backref. cbn [cap_get Nat.eqb].
      rewrite (eat_mismatch d _ p); [reflexivity|].
      apply (mismatch_app d ((ch :: b) ++ closer) rest) in Hm.
      rewrite <- app_assoc in Hm. exact Hm.
    + rewrite ends_atom, cmem_any, Hc. reflexivity.
    + exact IH'.
Qed.

Lemma dq_first p tag closer body rest :
  dq_left_ok left p = true -> dq_tag_ok first word tag = true ->
  ci_eqb lower (dq_delim tag) closer = true ->
  dq_body_ok lower (dq_delim tag) closer body = true ->
  exists p',
    first_is (ends (dq_re left first word) (mkSt p (dq_delim tag ++ body ++ closer ++ rest)) [])
             (mkSt p' rest).
Proof.
  intros Hp Ht Hcl Hok.
  destruct (dq_open_first p tag (body ++ closer ++ rest) [] Hp Ht) as (l & E).
  destruct (dq_tail_first (dq_delim tag) closer rest [] Hcl body Hok (Some 36)) as (p' & Hf).
  exists p'. unfold dq_re. rewrite ends_seq, E. cbn [flat_map fst snd].
  apply first_is_app_l. exact Hf.
Qed.

End Dollar.

Lemma pin_dollar : nth_error sql_regex 11 = Some (dq_re a_17 a_19 word_set, Emit [Literal]).
Proof. reflexivity. Qed.

Lemma dollar_no_earlier : none_start (firstn 11 sql_regex) 36 = true.
Proof. vm_compute. reflexivity. Qed.

Lemma dollar_first_class : cmem 36 a_19 = false.
Proof. vm_compute. reflexivity. Qed.
Lemma dollar_word_class : cmem 36 word_set = false.
Proof. vm_compute. reflexivity. Qed.

Theorem dollar_quoted_region p tag closer body rest :
  dq_left_ok a_17 p = true -> dq_tag_ok a_19 word_set tag = true ->
  ci_eqb lower (dq_delim tag) closer = true ->
  dq_body_ok lower (dq_delim tag) closer body = true ->
  cur_first_match (mkSt p (dq_delim tag ++ body ++ closer ++ rest))
  = Some (Emit [Literal], (length (dq_delim tag) + length body + length closer)%nat).
Proof.
  intros Hp Ht Hcl Hok. unfold cur_first_match.
  destruct (dq_first a_17 a_19 word_set dollar_first_class dollar_word_class
                     p tag closer body rest Hp Ht Hcl Hok) as (p' & Hf).
  assert (Esh : dq_delim tag ++ body ++ closer ++ rest
                = 36 :: (tag ++ [36]) ++ body ++ closer ++ rest) by reflexivity.
  rewrite Esh in *.
  apply (first_match_at lower sql_regex 11 _ _ 36 p _ _ pin_dollar dollar_no_earlier).
  rewrite (rmatch_first_is lower _ _ _ Hf). f_equal.
  unfold dq_delim. cbn [Re.rest length]. rewrite !app_length. cbn [length]. lia.
Qed.

Print Assumptions dollar_quoted_region.

(* ================================================================================================
   hint variants are sub-types of the plain comment types
   ================================================================================================ *)
Lemma bc_type_in body : tin (bc_type body) T_CMultiline = true.
Proof. unfold bc_type. destruct (starts_with 43 body); reflexivity. Qed.

Lemma lc_type_in body : tin (lc_type body) T_CSingle = true.
Proof. unfold lc_type. destruct (starts_with 43 body); reflexivity. Qed.

(* ================================================================================================
   from [first_match] to the scan loop: the region becomes exactly ONE token
   ================================================================================================ *)
Section LexRegion.
Variable upper : text -> text.
Variable rules : list rule.
Variable kws : list kwdict.
Local Notation lex_go := (lex_go lower upper rules kws).

Lemma lex_go_skip : forall w p rest,
  lex_go p (length w) (w ++ rest) = lex_go (push_prev p w) 0%nat rest.
Proof.
  induction w as [|ch w IH]; intros p rest; [reflexivity|].
  cbn [length app Lexer.lex_go]. rewrite IH. reflexivity.
Qed.

(* if the first matching rule at the current position matches exactly [v], the scan loop emits
   the single token [v] and resumes, with nothing left to skip, right after it *)
Theorem lex_go_emit p v rest a :
  v <> [] ->
  first_match lower rules (mkSt p (v ++ rest)) = Some (a, length v) ->
  lex_go p 0%nat (v ++ rest) =
  match lex_go (push_prev p v) 0%nat rest with
  | Ok ts => Ok (mk_tok upper kws a v :: ts)
  | Err e => Err e
  end.
Proof.
  intros Hv Hm. destruct v as [|ch v']; [contradiction|].
  cbn [app] in *. cbn [Lexer.lex_go]. rewrite Hm. cbn [length].
  rewrite lex_go_skip. cbn [push_prev fold_left firstn].
  rewrite firstn_app, Nat.sub_diag, firstn_all. cbn [firstn]. rewrite app_nil_r. reflexivity.
Qed.

End LexRegion.

Notation cur_lex_go := (Lexer.lex_go lower upper sql_regex KwTabs.kws).

Theorem region_lexed p v rest ty :
  v <> [] ->
  cur_first_match (mkSt p (v ++ rest)) = Some (Emit ty, length v) ->
  cur_lex_go p 0%nat (v ++ rest) =
  match cur_lex_go (push_prev p v) 0%nat rest with
  | Ok ts => Ok ((ty, v) :: ts)
  | Err e => Err e
  end.
Proof.
  intros Hv Hm.
  rewrite (lex_go_emit upper sql_regex KwTabs.kws p v rest (Emit ty) Hv Hm). reflexivity.
Qed.

(* a region standing alone is lexed as exactly one token *)
Corollary region_alone v ty :
  v <> [] -> cur_first_match (mkSt None v) = Some (Emit ty, length v) -> cur_lex v = Ok [(ty, v)].
Proof.
  intros Hv Hm. unfold cur_lex, lex.
  rewrite <- (app_nil_r v) at 1. rewrite <- (app_nil_r v) in Hm at 1.
  pose proof (region_lexed None v [] ty Hv Hm) as H.
  rewrite H. reflexivity.
Qed.

(* the six region kinds, in the scan loop *)
Theorem single_quoted_lexed p body rest :
  quoted_body_ok 39 true body = true -> quoted_right_ok 39 rest = true ->
  cur_lex_go p 0%nat (([39] ++ body ++ [39]) ++ rest) =
  match cur_lex_go (Some 39) 0%nat rest with
  | Ok ts => Ok ((T_Single, [39] ++ body ++ [39]) :: ts)
  | Err e => Err e
  end.
Proof.
  intros Hb Hr.
  rewrite (region_lexed p ([39] ++ body ++ [39]) rest T_Single).
  - unfold push_prev. rewrite !fold_left_app. reflexivity.
  - discriminate.
  - rewrite <- !app_assoc. rewrite (single_quoted_region p body rest Hb Hr).
    rewrite !app_length. reflexivity.
Qed.

Theorem double_quoted_lexed p body rest :
  quoted_body_ok 34 true body = true -> quoted_right_ok 34 rest = true ->
  cur_lex_go p 0%nat (([34] ++ body ++ [34]) ++ rest) =
  match cur_lex_go (Some 34) 0%nat rest with
  | Ok ts => Ok ((T_Symbol, [34] ++ body ++ [34]) :: ts)
  | Err e => Err e
  end.
Proof.
  intros Hb Hr.
  rewrite (region_lexed p ([34] ++ body ++ [34]) rest T_Symbol).
  - unfold push_prev. rewrite !fold_left_app. reflexivity.
  - discriminate.
  - rewrite <- !app_assoc. rewrite (double_quoted_region p body rest Hb Hr).
    rewrite !app_length. reflexivity.
Qed.

Theorem backtick_lexed p body rest :
  quoted_body_ok 96 false body = true -> quoted_right_ok 96 rest = true ->
  cur_lex_go p 0%nat (([96] ++ body ++ [96]) ++ rest) =
  match cur_lex_go (Some 96) 0%nat rest with
  | Ok ts => Ok ((T_Name, [96] ++ body ++ [96]) :: ts)
  | Err e => Err e
  end.
Proof.
  intros Hb Hr.
  rewrite (region_lexed p ([96] ++ body ++ [96]) rest T_Name).
  - unfold push_prev. rewrite !fold_left_app. reflexivity.
  - discriminate.
  - rewrite <- !app_assoc. rewrite (backtick_region p body rest Hb Hr).
    rewrite !app_length. reflexivity.
Qed.

Theorem block_comment_lexed p body rest :
  bc_body_ok body = true ->
  cur_lex_go p 0%nat (([47; 42] ++ body ++ [42; 47]) ++ rest) =
  match cur_lex_go (Some 47) 0%nat rest with
  | Ok ts => Ok ((bc_type body, [47; 42] ++ body ++ [42; 47]) :: ts)
  | Err e => Err e
  end.
Proof.
  intros Hb.
  rewrite (region_lexed p ([47; 42] ++ body ++ [42; 47]) rest (bc_type body)).
  - unfold push_prev. rewrite !fold_left_app. reflexivity.
  - discriminate.
  - rewrite <- !app_assoc. rewrite (block_comment_region p body rest Hb).
    rewrite !app_length. reflexivity.
Qed.

Theorem line_comment_lexed p o body closer rest :
  lc_opener_ok o = true -> lc_body_ok body = true -> lc_close_ok closer rest = true ->
  cur_lex_go p 0%nat ((o ++ body ++ closer) ++ rest) =
  match cur_lex_go (push_prev p (o ++ body ++ closer)) 0%nat rest with
  | Ok ts => Ok ((lc_type body, o ++ body ++ closer) :: ts)
  | Err e => Err e
  end.
Proof.
  intros Ho Hb Hc.
  apply (region_lexed p (o ++ body ++ closer) rest (lc_type body)).
  - destruct (lc_opener_cases o Ho) as [-> | ->]; discriminate.
  - rewrite <- !app_assoc. rewrite (line_comment_region p o body closer rest Ho Hb Hc).
    rewrite !app_length. rewrite Nat.add_assoc. reflexivity.
Qed.

Theorem dollar_quoted_lexed p tag closer body rest :
  dq_left_ok a_17 p = true -> dq_tag_ok a_19 word_set tag = true ->
  ci_eqb lower (dq_delim tag) closer = true ->
  dq_body_ok lower (dq_delim tag) closer body = true ->
  cur_lex_go p 0%nat ((dq_delim tag ++ body ++ closer) ++ rest) =
  match cur_lex_go (push_prev p (dq_delim tag ++ body ++ closer)) 0%nat rest with
  | Ok ts => Ok ((T_Literal, dq_delim tag ++ body ++ closer) :: ts)
  | Err e => Err e
  end.
Proof.
  intros Hp Ht Hc Hb.
  apply (region_lexed p (dq_delim tag ++ body ++ closer) rest T_Literal).
  - unfold dq_delim. discriminate.
  - rewrite <- !app_assoc. rewrite (dollar_quoted_region p tag closer body rest Hp Ht Hc Hb).
    rewrite !app_length. rewrite Nat.add_assoc. reflexivity.
Qed.

Print Assumptions lex_go_emit.
Print Assumptions single_quoted_lexed.
Print Assumptions double_quoted_lexed.
Print Assumptions backtick_lexed.
Print Assumptions block_comment_lexed.
Print Assumptions line_comment_lexed.
Print Assumptions dollar_quoted_lexed.
