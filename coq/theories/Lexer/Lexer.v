(* Model of sqlparse.lexer.Lexer.get_tokens (the scan loop) and is_keyword.  No proofs here. *)
From SqlModel Require Import Base Re.

Inductive action := Emit (ty : ttype) | AsKeyword.
Definition rule := (re * action)%type.
Definition kwdict := list (text * ttype).

Fixpoint dict_find (w : text) (d : kwdict) : option ttype :=
  match d with
  | [] => None
  | (k, ty) :: d' => if text_eqb w k then Some ty else dict_find w d'
  end.

(* Lexer.is_keyword on the already upper-cased word: first dictionary, in registration order *)
Fixpoint kw_lookup (w : text) (ds : list kwdict) : ttype :=
  match ds with
  | [] => T_Name
  | d :: ds' => match dict_find w d with Some ty => ty | None => kw_lookup w ds' end
  end.

Section Lex.
Variable lower : N -> N.          (* _sre.unicode_tolower *)
Variable upper : text -> text.    (* str.upper *)
Variable rules : list rule.       (* SQL_REGEX, in order *)
Variable kws : list kwdict.       (* dictionaries, in registration order *)

Fixpoint first_match (rs : list rule) (x : st) : option (action * nat) :=
  match rs with
  | [] => None
  | (r, a) :: rs' =>
      match rmatch lower r x with
      | Some k => Some (a, k)
      | None => first_match rs' x
      end
  end.

Definition mk_tok (a : action) (v : text) : tok :=
  match a with
  | Emit ty => (ty, v)
  | AsKeyword => (kw_lookup (upper v) kws, v)
  end.

(* the scan loop: [skip] is what consume(iterable, n) still has to swallow *)
Fixpoint lex_go (p : option N) (skip : nat) (t : text) : res (list tok) :=
  match t with
  | [] => Ok []
  | ch :: tl =>
      match skip with
      | S k => lex_go (Some ch) k tl
      | O =>
          match first_match rules (mkSt p t) with
          | Some (a, n) =>
              match n with
              | O => Err ValueError              (* consume(iterable, -1): islice rejects it *)
              | S n' =>
                  match lex_go (Some ch) n' tl with
                  | Ok ts => Ok (mk_tok a (firstn n t) :: ts)
                  | Err e => Err e
                  end
              end
          | None =>
              match lex_go (Some ch) 0 tl with
              | Ok ts => Ok ((T_Error, [ch]) :: ts)
              | Err e => Err e
              end
          end
      end
  end.

Definition lex (t : text) : res (list tok) := lex_go None 0 t.

End Lex.
