(* C14 (second half): the keyword dictionaries.  Definitions only (no proofs).
   Everything is computed from the rule table and the dictionaries handed in as parameters
   (instantiated with the regenerated tables in Inst/Words.v): nothing is written by hand. *)
From SqlModel Require Import Base Re Lexer.

Section WordsDefs.
Variable lower : N -> N.
Variable upper : text -> text.
Variable rules : list rule.
Variable kws : list kwdict.

(* the rules tried before the generic word rule (the first rule whose action is AsKeyword) *)
Fixpoint before_askw (rs : list rule) : list rule :=
  match rs with
  | [] => []
  | (r, AsKeyword) :: _ => []
  | ra :: rs' => ra :: before_askw rs'
  end.

Fixpoint askw_rule (rs : list rule) : option re :=
  match rs with
  | [] => None
  | (r, AsKeyword) :: _ => Some r
  | _ :: rs' => askw_rule rs'
  end.

(* [r] matches the text [w], standing alone, completely *)
Definition full_match (r : re) (w : text) : bool :=
  match rmatch lower r (mkSt None w) with
  | Some k => Nat.eqb k (length w)
  | None => false
  end.

(* the type given by the first dedicated lexical rule (a rule before the generic word rule)
   that matches [w] completely *)
Fixpoint dedicated_in (rs : list rule) (w : text) : option ttype :=
  match rs with
  | [] => None
  | (r, Emit ty) :: rs' => if full_match r w then Some ty else dedicated_in rs' w
  | (_, AsKeyword) :: rs' => dedicated_in rs' w
  end.

Definition dedicated_type (w : text) : option ttype := dedicated_in (before_askw rules) w.

(* THE expected type of a word: an earlier dedicated rule, else the first dictionary (in
   registration order) that lists its upper-casing, else Name *)
Definition expected_type (w : text) : ttype :=
  match dedicated_type w with
  | Some ty => ty
  | None => kw_lookup (upper w) kws
  end.

(* [w] is matched completely by the generic word rule *)
Definition is_word (w : text) : bool :=
  match askw_rule rules with
  | Some r => full_match r w
  | None => false
  end.

(* all dictionary entries, in registration order, without repetitions *)
Fixpoint mem_text (w : text) (l : list text) : bool :=
  match l with
  | [] => false
  | v :: l' => text_eqb w v || mem_text w l'
  end.

Fixpoint dedup (seen : list text) (l : list text) : list text :=
  match l with
  | [] => []
  | w :: l' => if mem_text w seen then dedup seen l' else w :: dedup (w :: seen) l'
  end.

Definition all_entries : list text := flat_map (map fst) kws.
Definition all_words : list text := dedup [] all_entries.

(* dictionary entries the generic word rule can never produce *)
Definition unreachable_entries : list text := filter (fun w => negb (is_word w)) all_words.

(* ---- delimited contexts -------------------------------------------------------------------- *)
Definition ctx := (text * text)%type.
Definition lefts : list text := [[]; [32]; [10]; [40]; [44]]%N.          (* "", " ", "\n", "(", "," *)
Definition rights : list text :=
  [[]; [59]; [44]; [41]; [32]; [32; 59]; [10; 41]]%N.      (* "", ";", ",", ")", " ", " ;", "\n)" *)
Definition Ctx : list ctx := flat_map (fun l => map (fun r => (l, r)) rights) lefts.

Definition lexf (t : text) : res (list tok) := lex lower upper rules kws t.

(* number of tokens of the left context *)
Definition ntoks_left (c : ctx) : nat :=
  match lexf (fst c) with Ok ts => length ts | Err _ => 0 end.

Definition tok_eqb (a b : tok) : bool := ttype_eqb (fst a) (fst b) && text_eqb (snd a) (snd b).

Fixpoint toks_eqb (a b : list tok) : bool :=
  match a, b with
  | [], [] => true
  | x :: a', y :: b' => tok_eqb x y && toks_eqb a' b'
  | _, _ => false
  end.

Definition last_opt (t : text) : option N := fold_left (fun _ c => Some c) t None.

(* in the context (l, r) the text  l ++ w ++ r  lexes as: the tokens of [l] alone, then the ONE
   token (expected_type w, w), then the tokens of [r] scanned after the last character of [w] *)
Definition word_in_ctx_ok (w : text) (c : ctx) : bool :=
  match lexf (fst c ++ w ++ snd c), lexf (fst c),
        lex_go lower upper rules kws (last_opt (fst c ++ w)) 0 (snd c) with
  | Ok ts, Ok tl, Ok tr => toks_eqb ts (tl ++ (expected_type w, w) :: tr)
  | _, _, _ => false
  end.

Definition word_ok (w : text) : bool :=
  negb (is_word w) || forallb (word_in_ctx_ok w) Ctx.

Definition words_ok (ws : list text) : bool := forallb word_ok ws.

(* the failing (word, context) pairs, for investigation *)
Definition failing_pairs (ws : list text) : list (text * ctx) :=
  flat_map (fun w => if is_word w
                     then map (fun c => (w, c)) (filter (fun c => negb (word_in_ctx_ok w c)) Ctx)
                     else []) ws.

(* ---- plain identifiers --------------------------------------------------------------------- *)
Definition ascii_letter (c : N) : bool :=
  ((N.leb 65 c && N.leb c 90) || (N.leb 97 c && N.leb c 122))%bool.
Definition ascii_digit (c : N) : bool := (N.leb 48 c && N.leb c 57)%bool.
Definition ident_start (c : N) : bool := ascii_letter c || N.eqb c 95.
Definition ident_char (c : N) : bool := ascii_letter c || ascii_digit c || N.eqb c 95.

(* first character an ASCII letter or '_', the others ASCII letters, digits or '_' *)
Definition plain_ident (s : text) : bool :=
  match s with
  | [] => false
  | c :: s' => ident_start c && forallb ident_char s'
  end.

End WordsDefs.
