(* RUN INVARIANCE, from one regular expression (Regex/RunInv.v) to the rule list: the rule that matches and the place
   where its match ends do not depend on the length or the spelling of the white-space runs of the text, provided
   every rule is in the class (good false) or matches neither text. *)
From SqlModel Require Import Base Re MinWidth SplitApi SplitApiFacts RunInvDefs RunInv Lexer SwallowDefs SwallowFacts.
From Coq Require Import Lia.

Section RunLex.
Variable lower : N -> N.
Variable S : cset.
Notation srel := (srel S).
Notation RS := (RS S).

(* the state after k characters *)
Definition after (k : nat) (x : st) : st :=
  mkSt (push_prev (prev x) (firstn k (rest x))) (skipn k (rest x)).

Lemma rmatch_spec r x :
  match ends lower r x [] with
  | [] => rmatch lower r x = None
  | (x1, _) :: _ => exists k, rmatch lower r x = Some k /\ after k x = x1
  end.
Proof.
  unfold rmatch. destruct (ends lower r x []) as [|[x1 c1] l] eqn:E; [reflexivity|].
  eexists. split; [reflexivity|].
  assert (Hin : In (x1, c1) (ends lower r x [])) by (rewrite E; left; reflexivity).
  apply (ends_adv lower) in Hin. destruct Hin as (w & Hr & _ & Hp).
  unfold after. rewrite Hr, app_length. replace (length w + length (rest x1) - length (rest x1)) with (length w) by lia.
  rewrite firstn_app, Nat.sub_diag, firstn_all, skipn_app, Nat.sub_diag, skipn_all. cbn [firstn skipn].
  rewrite app_nil_r, app_nil_l, <- Hp. destruct x1; reflexivity.
Qed.

Definition match_rel (x x' : st) (m m' : option nat) : Prop :=
  match m, m' with
  | Some k, Some k' => srel (after k x) (after k' x')
  | None, None => True
  | _, _ => False
  end.

Theorem rmatch_run r x x' : good S false r = true -> srel x x' ->
  match_rel x x' (rmatch lower r x) (rmatch lower r x').
Proof.
  intros Hg Hx. pose proof (good_sim lower S r false Hg x x' [] [] Hx) as H. cbn [RunInvDefs.surv] in H.
  pose proof (rmatch_spec r x) as A. pose proof (rmatch_spec r x') as B.
  destruct (ends lower r x []) as [|[x1 c1] l]; destruct (ends lower r x' []) as [|[x2 c2] l']; try (inversion H; fail).
  - rewrite A, B. exact I.
  - destruct A as (k & -> & Ek). destruct B as (k' & -> & Ek'). cbn [match_rel]. rewrite Ek, Ek'.
    inversion H as [|? ? ? ? Hr _]; subst. exact Hr.
Qed.

(* a rule is harmless for the pair of texts *)
Definition run_ok (x x' : st) (ra : rule) : Prop :=
  good S false (fst ra) = true \/ (rmatch lower (fst ra) x = None /\ rmatch lower (fst ra) x' = None).

Definition first_rel (x x' : st) (m m' : option (action * nat)) : Prop :=
  match m, m' with
  | Some (a, k), Some (a', k') => a = a' /\ srel (after k x) (after k' x')
  | None, None => True
  | _, _ => False
  end.

Theorem first_match_run rs x x' : srel x x' -> Forall (run_ok x x') rs ->
  first_rel x x' (first_match lower rs x) (first_match lower rs x').
Proof.
  intros Hx H. induction H as [|[r a] rs Hr _ IH]; cbn [first_match]; [exact I|].
  destruct Hr as [Hg | [N1 N2]]; cbn [fst] in *.
  - pose proof (rmatch_run r x x' Hg Hx) as M. unfold match_rel in M.
    destruct (rmatch lower r x) as [k|]; destruct (rmatch lower r x') as [k'|]; try contradiction.
    + split; [reflexivity | exact M].
    + exact IH.
  - rewrite N1, N2. exact IH.
Qed.

(* ---- RS is reflexive; stretching one run ------------------------------------------------------------- *)
Lemma span_run (t : text) : exists R u, t = R ++ u /\ forallb (inS S) R = true /\ snext_t S u = false.
Proof.
  induction t as [|c t IH]; [exists [], []; repeat split|].
  destruct (inS S c) eqn:Hc.
  - destruct IH as (R & u & -> & HR & Hu). exists (c :: R), u. repeat split; [|exact Hu].
    cbn [forallb]. rewrite Hc, HR. reflexivity.
  - exists [], (c :: t). repeat split. exact Hc.
Qed.

Lemma RS_refl_len n : forall t, length t <= n -> RS t t.
Proof.
  induction n as [|n IH]; intros t Hl.
  - destruct t; [constructor | cbn [length] in Hl; lia].
  - destruct t as [|c t]; [constructor|]. destruct (inS S c) eqn:Hc.
    + destruct (span_run t) as (R & u & -> & HR & Hu).
      change (c :: R ++ u) with ((c :: R) ++ u). apply RS_run; try congruence; try exact Hu;
        try (cbn [forallb]; rewrite Hc, HR; reflexivity).
      apply IH. cbn [length] in Hl. rewrite app_length in Hl. lia.
    + apply RS_char; [exact Hc|]. apply IH. cbn [length] in Hl. lia.
Qed.

Lemma RS_refl t : RS t t.
Proof. apply (RS_refl_len (length t)). lia. Qed.

(* w R u  ~  w R' u : one run re-spelled, everything else kept *)
Lemma RS_prefix w : forallb (fun c => negb (inS S c)) w = true -> forall t t', RS t t' -> RS (w ++ t) (w ++ t').
Proof.
  intros Hw t t' H. induction w as [|c w IH]; [exact H|]. cbn [forallb] in Hw. apply andb_true_iff in Hw.
  destruct Hw as [Hc Hw]. cbn [app]. apply RS_char; [destruct (inS S c); [discriminate | reflexivity] | auto].
Qed.

Theorem RS_respell w R R' u :
  forallb (fun c => negb (inS S c)) w = true ->
  R <> [] -> R' <> [] -> forallb (inS S) R = true -> forallb (inS S) R' = true -> snext_t S u = false ->
  RS (w ++ R ++ u) (w ++ R' ++ u).
Proof.
  intros Hw HR HR' FR FR' Hu. apply RS_prefix; [exact Hw|]. apply RS_run; auto. apply RS_refl.
Qed.


(* ---- the matched TEXT, for rules that cannot consume a character of S ---------------------------------- *)
Fixpoint consumes_set (r : re) : bool :=
  match r with
  | Eps | Ahead _ _ | Behind _ _ | Bound _ | AtEnd => false
  | Atom s => negb (cdisjoint s S)
  | Seq a b | Alt a b => consumes_set a || consumes_set b
  | Rep _ _ _ r | Group _ r => consumes_set r
  | Backref _ => true
  end.

Lemma consumes_set_sound r c : consumes_set r = false -> inS S c = true -> consumes c r = false.
Proof.
  intros H Hc. induction r as [| s | a IHa b IHb | a IHa b IHb | g lo hi r IH | n r IH | n | neg r IH
                              | neg s | w | ]; cbn [consumes_set consumes] in *; try reflexivity; try discriminate; auto.
  - destruct (cdisjoint s S) eqn:D; [|discriminate]. destruct (cmem c s) eqn:M; [|reflexivity].
    apply (cdisjoint_sound s S D) in M. unfold inS in Hc. congruence.
  - apply orb_false_iff in H. destruct H as [Ha Hb]. rewrite (IHa Ha), (IHb Hb). reflexivity.
  - apply orb_false_iff in H. destruct H as [Ha Hb]. rewrite (IHa Ha), (IHb Hb). reflexivity.
Qed.

Definition strip (t : text) : text := filter (fun c => negb (inS S c)) t.

Lemma strip_app a b : strip (a ++ b) = strip a ++ strip b.
Proof. apply filter_app. Qed.

Lemma RS_strip t t' : RS t t' -> strip t = strip t'.
Proof.
  assert (Hrun : forall R, forallb (inS S) R = true -> strip R = []).
  { induction R as [|r R IH]; [reflexivity|]. cbn [forallb]. intros H. apply andb_true_iff in H.
    destruct H as [Hr HR]. unfold strip. cbn [filter]. rewrite Hr. cbn [negb]. apply IH, HR. }
  induction 1 as [| c t t' Hc _ IH | R R' t t' _ _ FR FR' _ _ _ IH]; [reflexivity | |].
  - unfold strip in *. cbn [filter]. rewrite Hc. cbn [negb]. rewrite IH. reflexivity.
  - rewrite !strip_app, (Hrun R FR), (Hrun R' FR'), IH. reflexivity.
Qed.

Lemma strip_free w : (forall c, In c w -> inS S c = false) -> strip w = w.
Proof.
  induction w as [|c w IH]; intros H; [reflexivity|]. unfold strip in *. cbn [filter].
  rewrite (H c (or_introl eq_refl)). cbn [negb]. rewrite IH; [reflexivity|]. intros d Hd. apply H. right. exact Hd.
Qed.

(* two S-free prefixes in front of related remainders of related texts are EQUAL *)
Lemma free_prefix_eq w w' u u' :
  RS (w ++ u) (w' ++ u') -> RS u u' ->
  (forall c, In c w -> inS S c = false) -> (forall c, In c w' -> inS S c = false) -> w = w'.
Proof.
  intros Ht Hu Hw Hw'. apply RS_strip in Ht. apply RS_strip in Hu. rewrite !strip_app in Ht.
  rewrite (strip_free w Hw), (strip_free w' Hw'), Hu in Ht. apply app_inv_tail in Ht. exact Ht.
Qed.

Lemma after_split k x : rest x = firstn k (rest x) ++ rest (after k x).
Proof. unfold after. cbn [rest]. symmetry. apply firstn_skipn. Qed.

(* the action a is only attached to rules that cannot consume a character of S *)
Definition action_free (rs : list rule) (a : action) : Prop :=
  forall r, In (r, a) rs -> consumes_set r = false.

Theorem first_match_value rs x x' a k k' :
  action_free rs a -> RS (rest x) (rest x') ->
  first_match lower rs x = Some (a, k) -> first_match lower rs x' = Some (a, k') ->
  srel (after k x) (after k' x') ->
  firstn k (rest x) = firstn k' (rest x').
Proof.
  intros Hfree Ht E E' Hafter.
  assert (Hw : forall y j, first_match lower rs y = Some (a, j) -> forall c, In c (firstn j (rest y)) -> inS S c = false).
  { intros y j Ey c Hin. destruct (inS S c) eqn:Hc; [|reflexivity]. exfalso.
    destruct (first_match_clean lower c rs y a j Ey Hin) as (r & Hr & Hcons).
    rewrite (consumes_set_sound r c (Hfree r Hr) Hc) in Hcons. discriminate. }
  apply (free_prefix_eq _ _ (rest (after k x)) (rest (after k' x'))).
  - rewrite <- !after_split. exact Ht.
  - exact (proj1 Hafter).
  - exact (Hw x k E).
  - exact (Hw x' k' E').
Qed.

(* ---- a decidable sufficient test for RS: equal after collapsing every run to one marker ------------------- *)
Fixpoint sq (inrun : bool) (t : text) : list (option N) :=
  match t with
  | [] => []
  | c :: u => if inS S c then (if inrun then sq true u else None :: sq true u) else Some c :: sq false u
  end.

Lemma sq_run R v : forallb (inS S) R = true -> snext_t S v = false -> sq true (R ++ v) = sq false v.
Proof.
  intros FR Hv. induction R as [|r R IH].
  - cbn [app]. destruct v as [|d v]; [reflexivity|]. cbn [RunInvDefs.snext_t] in Hv. cbn [sq]. rewrite Hv. reflexivity.
  - cbn [forallb] in FR. apply andb_true_iff in FR. destruct FR as [Hr FR]. cbn [app sq]. rewrite Hr. apply IH, FR.
Qed.

Lemma sq_RS_len n : forall t t', length t <= n -> sq false t = sq false t' -> RS t t'.
Proof.
  induction n as [|n IH]; intros t t' Hl E.
  - destruct t; [|cbn [length] in Hl; lia]. destruct t' as [|c' u']; [constructor|].
    cbn [sq] in E. destruct (inS S c'); discriminate.
  - destruct t as [|c u].
    + destruct t' as [|c' u']; [constructor|]. cbn [sq] in E. destruct (inS S c'); discriminate.
    + destruct (inS S c) eqn:Hc.
      * (* a run *)
        destruct (span_run u) as (R & v & -> & FR & Hv).
        destruct t' as [|c' u']; [cbn [sq] in E; rewrite Hc in E; discriminate|].
        destruct (inS S c') eqn:Hc'; [|cbn [sq] in E; rewrite Hc, Hc' in E; discriminate].
        destruct (span_run u') as (R' & v' & -> & FR' & Hv').
        cbn [sq] in E. rewrite Hc, Hc' in E. injection E as E. rewrite (sq_run R v FR Hv), (sq_run R' v' FR' Hv') in E.
        change (c :: R ++ v) with ((c :: R) ++ v). change (c' :: R' ++ v') with ((c' :: R') ++ v').
        apply RS_run; try discriminate; try assumption; try (cbn [forallb]; rewrite ?Hc, ?Hc'; assumption).
        apply IH; [|exact E]. cbn [length] in Hl. rewrite app_length in Hl. lia.
      * destruct t' as [|c' u']; [cbn [sq] in E; rewrite Hc in E; discriminate|].
        cbn [sq] in E. rewrite Hc in E. destruct (inS S c') eqn:Hc'; [discriminate|].
        injection E as <- E. apply RS_char; [exact Hc|]. apply IH; [cbn [length] in Hl; lia | exact E].
Qed.

Theorem sq_RS t t' : sq false t = sq false t' -> RS t t'.
Proof. apply (sq_RS_len (length t)). lia. Qed.

(* ---- the matched texts themselves are related ----------------------------------------------------------------- *)
Definition lastS (v : text) : bool := match rev v with c :: _ => inS S c | [] => false end.
(* the boundary between v and u is not inside a run *)
Definition bnd (v u : text) : Prop := lastS v && snext_t S u = false.

Lemma lastS_cons d v : v <> [] -> lastS (d :: v) = lastS v.
Proof.
  intros Hv. unfold lastS. cbn [rev]. destruct (rev v) as [|c r] eqn:E; [|reflexivity].
  exfalso. apply Hv. rewrite <- (rev_involutive v), E. reflexivity.
Qed.

Lemma lastS_app a m : m <> [] -> lastS (a ++ m) = lastS m.
Proof.
  intros Hm. unfold lastS. rewrite rev_app_distr. destruct (rev m) as [|c r] eqn:E; [|reflexivity].
  exfalso. apply Hm. rewrite <- (rev_involutive m), E. reflexivity.
Qed.

Lemma lastS_all v : v <> [] -> forallb (inS S) v = true -> lastS v = true.
Proof.
  intros Hv Fv. unfold lastS. destruct (rev v) as [|c r] eqn:E.
  - exfalso. apply Hv. rewrite <- (rev_involutive v), E. reflexivity.
  - assert (Hin : In c v) by (apply in_rev; rewrite E; left; reflexivity).
    exact (proj1 (forallb_forall _ _) Fv c Hin).
Qed.

Lemma strip_all w : forallb (inS S) w = true -> strip w = [].
Proof.
  induction w as [|c w IH]; [reflexivity|]. cbn [forallb]. intros H. apply andb_true_iff in H. destruct H as [Hc Hw].
  unfold strip in *. cbn [filter]. rewrite Hc. cbn [negb]. apply IH, Hw.
Qed.

Lemma strip_nil w : strip w = [] -> forallb (inS S) w = true.
Proof.
  induction w as [|c w IH]; [reflexivity|]. unfold strip in *. cbn [filter forallb].
  destruct (inS S c); cbn [negb]; [intros H; apply IH, H | discriminate].
Qed.

Lemma snext_app_all w u : w <> [] -> forallb (inS S) w = true -> snext_t S (w ++ u) = true.
Proof. destruct w as [|c w]; [congruence|]. cbn [forallb app]. intros _ H. apply andb_true_iff in H. apply H. Qed.

(* an all-S prefix in front of u' cannot be related to nothing in front of u *)
Lemma empty_prefix u v' u' :
  RS u (v' ++ u') -> RS u u' -> forallb (inS S) v' = true -> bnd v' u' -> v' = [].
Proof.
  intros H1 H2 Fv B. destruct v' as [|r v']; [reflexivity|]. exfalso.
  assert (Hs : snext_t S ((r :: v') ++ u') = true) by (apply snext_app_all; [discriminate | exact Fv]).
  rewrite <- (RS_snext S _ _ H1) in Hs. rewrite (RS_snext S _ _ H2) in Hs.
  unfold bnd in B. rewrite Hs, (lastS_all (r :: v')) in B by (try discriminate; exact Fv). discriminate.
Qed.

Lemma RS_sym t t' : RS t t' -> RS t' t.
Proof. induction 1; constructor; auto. Qed.

Theorem RS_prefix_inv x y : RS x y -> forall v u v' u',
  x = v ++ u -> y = v' ++ u' -> RS u u' -> strip v = strip v' -> bnd v u -> bnd v' u' -> RS v v'.
Proof.
  induction 1 as [| c t t' Hc Ht IH | R R' t t' HR HR' FR FR' Hn Hn' Ht IH]; intros v u v' u' Ex Ey Hu Hst B B'.
  - symmetry in Ex, Ey. apply app_eq_nil in Ex. apply app_eq_nil in Ey. destruct Ex as [-> _], Ey as [-> _]. constructor.
  - destruct v as [|d v1].
    + cbn [app] in Ex. subst u.
      assert (Fv' : forallb (inS S) v' = true) by (apply strip_nil; rewrite <- Hst; reflexivity).
      destruct v' as [|d' v1']; [constructor|]. exfalso. cbn [app] in Ey. injection Ey as <- _.
      cbn [forallb] in Fv'. apply andb_true_iff in Fv'. destruct Fv' as [H1 _]. congruence.
    + cbn [app] in Ex. injection Ex as <- Ex.
      assert (Hsv : strip (c :: v1) = c :: strip v1) by (unfold strip; cbn [filter]; rewrite Hc; reflexivity).
      destruct v' as [|d' v1']; [rewrite Hsv in Hst; discriminate|].
      cbn [app] in Ey. injection Ey as <- Ey.
      assert (Hsv' : strip (c :: v1') = c :: strip v1') by (unfold strip; cbn [filter]; rewrite Hc; reflexivity).
      rewrite Hsv, Hsv' in Hst. injection Hst as Hst.
      apply RS_char; [exact Hc|]. apply (IH v1 u v1' u' Ex Ey Hu Hst).
      * destruct v1 as [|e v1]; [reflexivity|]. unfold bnd in *. rewrite lastS_cons in B by discriminate. exact B.
      * destruct v1' as [|e v1']; [reflexivity|]. unfold bnd in *. rewrite lastS_cons in B' by discriminate. exact B'.
  - apply app_eq_app in Ex. destruct Ex as (m & [[ER Eu] | [Ev Et]]).
    + (* v lies inside R *)
      assert (Fv : forallb (inS S) v = true).
      { rewrite ER, forallb_app in FR. apply andb_true_iff in FR. apply FR. }
      assert (Fv' : forallb (inS S) v' = true) by (apply strip_nil; rewrite <- Hst; apply strip_all, Fv).
      destruct v as [|d v1].
      * (* v empty: so is v' *)
        cbn [app] in ER. subst m.
        assert (E0 : v' = []).
        { apply (empty_prefix u v' u'); try assumption. rewrite Eu, <- Ey. apply RS_run; assumption. }
        subst v'. constructor.
      * destruct m as [|e m].
        -- (* v = R, u = t *)
           rewrite app_nil_r in ER. cbn [app] in Eu. subst u. subst R.
           apply app_eq_app in Ey. destruct Ey as (m' & [[ER' Eu'] | [Ev' Et']]).
           ++ destruct v' as [|d' v1'].
              ** exfalso. cbn [app] in ER'. subst m'.
                 assert (Hs : snext_t S u' = true) by (rewrite Eu'; apply snext_app_all; assumption).
                 rewrite <- (RS_snext S _ _ Hu) in Hs. congruence.
              ** destruct m' as [|e' m'].
                 --- rewrite app_nil_r in ER'. subst R'.
                     rewrite <- (app_nil_r (d :: v1)), <- (app_nil_r (d' :: v1')).
                     apply RS_run; try assumption; try reflexivity; constructor.
                 --- exfalso. unfold bnd in B'. rewrite (lastS_all (d' :: v1')) in B' by (try discriminate; exact Fv').
                     rewrite Eu' in B'. cbn [app RunInvDefs.snext_t] in B'.
                     rewrite ER', forallb_app in FR'. apply andb_true_iff in FR'. destruct FR' as [_ FR'].
                     cbn [forallb] in FR'. apply andb_true_iff in FR'. destruct FR' as [He _]. rewrite He in B'. discriminate.
           ++ destruct m' as [|e' m'].
              ** rewrite app_nil_r in Ev'. cbn [app] in Et'. subst v'.
                 rewrite <- (app_nil_r (d :: v1)), <- (app_nil_r R').
                 apply RS_run; try assumption; try reflexivity; constructor.
              ** exfalso. rewrite Ev', forallb_app in Fv'. apply andb_true_iff in Fv'. destruct Fv' as [_ Fm].
                 cbn [forallb] in Fm. apply andb_true_iff in Fm. destruct Fm as [He _].
                 rewrite Et' in Hn'. cbn [app RunInvDefs.snext_t] in Hn'. congruence.
        -- exfalso. unfold bnd in B. rewrite (lastS_all (d :: v1)) in B by (try discriminate; exact Fv).
           rewrite Eu in B. cbn [app RunInvDefs.snext_t] in B.
           rewrite ER, forallb_app in FR. apply andb_true_iff in FR. destruct FR as [_ FR].
           cbn [forallb] in FR. apply andb_true_iff in FR. destruct FR as [He _]. rewrite He in B. discriminate.
    + (* v = R ++ m reaches beyond R *)
      destruct m as [|e m].
      * (* m empty: v = R, the previous case with nothing left of R *)
        rewrite app_nil_r in Ev. cbn [app] in Et. subst v. subst t.
        assert (Fv' : forallb (inS S) v' = true) by (apply strip_nil; rewrite <- Hst; apply strip_all, FR).
        apply app_eq_app in Ey. destruct Ey as (m' & [[ER' Eu'] | [Ev' Et']]).
        -- destruct v' as [|d' v1'].
           ++ exfalso. cbn [app] in ER'. subst m'.
              assert (Hs : snext_t S u' = true) by (rewrite Eu'; apply snext_app_all; assumption).
              rewrite <- (RS_snext S _ _ Hu) in Hs. congruence.
           ++ destruct m' as [|e' m'].
              ** rewrite app_nil_r in ER'. subst R'.
                 rewrite <- (app_nil_r R), <- (app_nil_r (d' :: v1')).
                 apply RS_run; try assumption; try reflexivity; constructor.
              ** exfalso. unfold bnd in B'. rewrite (lastS_all (d' :: v1')) in B' by (try discriminate; exact Fv').
                 rewrite Eu' in B'. cbn [app RunInvDefs.snext_t] in B'.
                 rewrite ER', forallb_app in FR'. apply andb_true_iff in FR'. destruct FR' as [_ FR'].
                 cbn [forallb] in FR'. apply andb_true_iff in FR'. destruct FR' as [He _]. rewrite He in B'. discriminate.
        -- destruct m' as [|e' m'].
           ++ rewrite app_nil_r in Ev'. subst v'.
              rewrite <- (app_nil_r R), <- (app_nil_r R').
              apply RS_run; try assumption; try reflexivity; constructor.
           ++ exfalso. rewrite Ev', forallb_app in Fv'. apply andb_true_iff in Fv'. destruct Fv' as [_ Fm].
              cbn [forallb] in Fm. apply andb_true_iff in Fm. destruct Fm as [He _].
              rewrite Et' in Hn'. cbn [app RunInvDefs.snext_t] in Hn'. congruence.
      * assert (He : inS S e = false) by (rewrite Et in Hn; exact Hn).
        assert (Hsm : strip v = e :: strip m).
        { rewrite Ev, strip_app, (strip_all R FR). unfold strip. cbn [app filter]. rewrite He. reflexivity. }
        apply app_eq_app in Ey. destruct Ey as (m' & [[ER' Eu'] | [Ev' Et']]).
        -- exfalso. assert (Fv' : forallb (inS S) v' = true).
           { rewrite ER', forallb_app in FR'. apply andb_true_iff in FR'. apply FR'. }
           rewrite (strip_all v' Fv'), Hsm in Hst. discriminate.
        -- destruct m' as [|e' m'].
           ++ exfalso. rewrite app_nil_r in Ev'. subst v'. rewrite (strip_all R' FR'), Hsm in Hst. discriminate.
           ++ assert (He' : inS S e' = false) by (rewrite Et' in Hn'; exact Hn').
              rewrite Ev, Ev'. apply RS_run; try assumption.
              apply (IH (e :: m) u (e' :: m') u' Et Et' Hu).
              ** rewrite Ev, Ev', !strip_app, (strip_all R FR), (strip_all R' FR') in Hst. exact Hst.
              ** unfold bnd in *. rewrite Ev, lastS_app in B by discriminate. exact B.
              ** unfold bnd in *. rewrite Ev', lastS_app in B' by discriminate. exact B'.
Qed.

End RunLex.
