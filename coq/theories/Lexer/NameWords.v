(* Soundness of the analyses of Lexer/NameWordsDefs.v: matching with a known prefix, the prefix
   search, the two rule shapes, and the resulting generic theorem: an identifier over the alphabet
   that is not excluded is matched by the generic word rule, and by no earlier rule. *)
From SqlModel Require Import Base PyStr Re MinWidth RepFacts Lexer LexFacts FirstDefs First CaseDefs
     WordsDefs NameWordsDefs.

(* ---- extension of a known prefix --------------------------------------------------------------- *)
Definition ext (T : text) (x : st) : st := mkSt (prev x) (rest x ++ T).

(* [a] describes the state components of the result list [L] on the text extended by [T] *)
Definition sound_for (T : text) (a : ares) (L : list (st * caps)) : Prop :=
  exists tail, map fst L = map (ext T) (fst a) ++ tail /\ (snd a = true -> tail = []).

Lemma sound_app T a b L M :
  sound_for T a L -> sound_for T b M -> sound_for T (a_app a b) (L ++ M).
Proof.
  intros (ta & Ea & Ha) (tb & Eb & Hb). unfold a_app. destruct a as [la ca]. cbn [fst snd] in *.
  destruct ca.
  - rewrite (Ha eq_refl), app_nil_r in Ea. exists tb. cbn [fst snd].
    rewrite map_app, Ea, Eb, map_app, app_assoc. auto.
  - exists (ta ++ map fst M). cbn [fst snd]. rewrite map_app, Ea, app_assoc. split; [reflexivity|].
    discriminate.
Qed.

Lemma sound_flat T (f : st -> ares) (F : st -> caps -> list (st * caps)) :
  (forall x c, sound_for T (f x) (F (ext T x) c)) ->
  forall l cpl L, sound_for T (l, cpl) L ->
    sound_for T (a_flat f l cpl) (flat_map (fun xc => F (fst xc) (snd xc)) L).
Proof.
  intros Hf. induction l as [|x l IH]; intros cpl L (tl & E & H); cbn [fst snd] in *.
  - cbn [a_flat map app] in *. exists (map fst (flat_map (fun xc => F (fst xc) (snd xc)) L)).
    split; [reflexivity|]. cbn [snd]. intros Hc. specialize (H Hc). subst tl.
    destruct L; [reflexivity | discriminate].
  - cbn [map app] in E. destruct L as [|[X c] L]; [discriminate|].
    cbn [map fst] in E. injection E as -> E.
    cbn [a_flat flat_map fst snd]. apply sound_app; [apply Hf|].
    apply IH. exists tl. auto.
Qed.

Section Sound.
Variable lower : N -> N.
Notation ends := (ends lower).

Lemma sound_iter T (body : st -> ares) (B : st -> caps -> list (st * caps)) g lo hi :
  (forall x c, sound_for T (body x) (B (ext T x) c)) ->
  forall fa fc count x c, fa <= fc ->
    sound_for T (a_iter body g lo hi fa count x) (iter B g lo hi fc count (ext T x) c).
Proof.
  intros Hb. induction fa as [|fa IH]; intros fc count x c Hle.
  - (* no abstract fuel *)
    assert (Hstop : sound_for T (if Nat.leb lo count then [x] else [], true)
                              (if Nat.leb lo count then [(ext T x, c)] else [])).
    { exists []. destruct (Nat.leb lo count); auto. }
    cbn [a_iter].
    destruct (match hi with Some h => Nat.ltb count h | None => true end) eqn:Eh.
    + (* unknown continuation *)
      assert (Hmore : forall M, sound_for T ([], false) M).
      { intros M. exists (map fst M). split; [reflexivity | discriminate]. }
      destruct fc as [|fc]; cbn [iter]; rewrite ?Eh; destruct g;
        try (apply sound_app; [apply Hmore | exact Hstop]);
        try (apply sound_app; [exact Hstop | apply Hmore]).
    + assert (Hmore : sound_for T ([], true) []) by (exists []; auto).
      destruct fc as [|fc]; cbn [iter]; rewrite ?Eh; destruct g;
        try (apply sound_app; [exact Hmore | exact Hstop]);
        try (apply sound_app; [exact Hstop | exact Hmore]).
  - destruct fc as [|fc]; [lia|].
    assert (Hstop : sound_for T (if Nat.leb lo count then [x] else [], true)
                              (if Nat.leb lo count then [(ext T x, c)] else [])).
    { exists []. destruct (Nat.leb lo count); auto. }
    cbn [a_iter iter].
    destruct (match hi with Some h => Nat.ltb count h | None => true end) eqn:Eh.
    + assert (Hmore : sound_for T
                (a_flat (fun x1 => a_iter body g lo hi fa (S count) x1) (fst (body x)) (snd (body x)))
                (flat_map (fun xc => iter B g lo hi fc (S count) (fst xc) (snd xc)) (B (ext T x) c))).
      { apply (sound_flat T (fun x1 => a_iter body g lo hi fa (S count) x1)
                          (fun X c1 => iter B g lo hi fc (S count) X c1)).
        - intros x1 c1. apply IH. lia.
        - specialize (Hb x c). destruct (body x) as [l cpl]. exact Hb. }
      destruct g; [apply sound_app; [exact Hmore | exact Hstop]
                  | apply sound_app; [exact Hstop | exact Hmore]].
    + assert (Hmore : sound_for T ([], true) []) by (exists []; auto).
      destruct g; [apply sound_app; [exact Hmore | exact Hstop]
                  | apply sound_app; [exact Hstop | exact Hmore]].
Qed.

Theorem a_ends_sound T r : forall x c, sound_for T (a_ends r x) (ends r (ext T x) c).
Proof.
  induction r as [| s | a IHa b IHb | a IHa b IHb | g lo hi r IH | n r IH | n | neg r IH
                 | neg s | w | ]; intros x c.
  - exists []. auto.
  - cbn [a_ends Re.ends ext rest]. destruct (rest x) as [|ch tl]; cbn [app].
    + eexists. split; [reflexivity | discriminate].
    + exists []. destruct (cmem ch s); auto.
  - cbn [a_ends Re.ends]. apply (sound_flat T (a_ends b) (ends b)); [exact IHb|].
    specialize (IHa x c). destruct (a_ends a x) as [l cpl]. exact IHa.
  - cbn [a_ends Re.ends]. apply sound_app; [apply IHa | apply IHb].
  - cbn [a_ends Re.ends]. apply sound_iter; [exact IH|].
    unfold rep_fuel. destruct hi as [h|]; [lia|]. cbn [ext rest]. rewrite app_length. lia.
  - cbn [a_ends Re.ends]. destruct (IH x c) as (tl & E & H). exists tl. split; [|exact H].
    rewrite map_map. cbn [fst]. exact E.
  - exists (map fst (ends (Backref n) (ext T x) c)). split; [reflexivity | discriminate].
  - cbn [a_ends Re.ends]. destruct (IH x c) as (tl & E & H).
    destruct (a_ends r x) as [[|x1 l] cpl]; cbn [fst snd map app] in *.
    + destruct cpl.
      * rewrite (H eq_refl) in E. destruct (ends r (ext T x) c); [|discriminate].
        exists []. destruct neg; auto.
      * eexists. split; [reflexivity | discriminate].
    + destruct (ends r (ext T x) c); [discriminate|]. exists []. destruct neg; auto.
  - cbn [a_ends Re.ends ext prev]. exists [].
    destruct (Bool.eqb (mem_opt (prev x) s) (negb neg)); auto.
  - cbn [a_ends Re.ends ext prev rest]. destruct (rest x) as [|ch tl]; cbn [app].
    + eexists. split; [reflexivity | discriminate].
    + exists []. destruct (xorb (mem_opt (prev x) w) (cmem ch w)); auto.
  - cbn [a_ends Re.ends ext rest]. destruct (rest x) as [|c1 [|c2 tl]].
    + eexists. split; [reflexivity | discriminate].
    + eexists. split; [reflexivity | discriminate].
    + exists []. cbn [app at_end]. auto.
Qed.

Corollary a_dead_sound r p u T :
  a_dead r p u = true -> rmatch lower r (mkSt p (u ++ T)) = None.
Proof.
  unfold a_dead. intros H. destruct (a_ends_sound T r (mkSt p u) []) as (tl & E & Hc).
  destruct (a_ends r (mkSt p u)) as [[|x1 l] [|]]; try discriminate.
  cbn [fst snd map app] in *. rewrite (Hc eq_refl) in E. apply rmatch_nil.
  change (mkSt p (u ++ T)) with (ext T (mkSt p u)).
  destruct (ends r (ext T (mkSt p u)) []); [reflexivity | discriminate].
Qed.

Corollary a_first_sound r x T x1 l cpl :
  a_ends r x = (x1 :: l, cpl) ->
  rmatch lower r (ext T x) = Some (length (rest x) - length (rest x1)).
Proof.
  intros H. destruct (a_ends_sound T r x []) as (tl & E & _). rewrite H in E.
  cbn [fst map app] in E. unfold rmatch.
  destruct (ends r (ext T x) []) as [|[X c] L]; [discriminate|].
  cbn [map fst] in E. injection E as -> _. cbn [ext rest]. rewrite !app_length. f_equal. lia.
Qed.

Theorem a_first_match_sound rs x T a k :
  a_first_match rs x = Some (a, k) -> first_match lower rs (ext T x) = Some (a, k).
Proof.
  induction rs as [|[r a0] rs IH]; cbn [a_first_match first_match]; [discriminate|].
  destruct (a_ends r x) as [[|x1 l] cpl] eqn:E.
  - destruct cpl; [|discriminate]. intros H.
    assert (Hd : a_dead r (prev x) (rest x) = true).
    { unfold a_dead. destruct x as [p u]. cbn [prev rest]. rewrite E. reflexivity. }
    pose proof (a_dead_sound r (prev x) (rest x) T Hd) as Hn.
    change (mkSt (prev x) (rest x ++ T)) with (ext T x) in Hn. rewrite Hn. apply IH. exact H.
  - intros H. injection H as <- <-. rewrite (a_first_sound r x T x1 l cpl E). reflexivity.
Qed.

(* ---- the prefix search ------------------------------------------------------------------------ *)
Section SearchSound.
Variable P : list (option N).
Variable R : list text.
Variable alphabet : list N.
Variable excl : text -> bool.

Notation covered := (covered lower P R alphabet excl).

Lemma live_spec D u r :
  In r D -> In r (live P D u) \/ (forall p T, In p P -> rmatch lower r (mkSt p (u ++ T)) = None).
Proof.
  intros Hr. unfold live.
  destruct (forallb (fun p => a_dead r p u) P) eqn:E.
  - right. intros p T Hp. rewrite forallb_forall in E. apply a_dead_sound. apply E. exact Hp.
  - left. apply filter_In. split; [exact Hr|]. rewrite E. reflexivity.
Qed.

Theorem covered_sound : forall d D u,
  covered d D u = true ->
  forall s', Forall (fun c => In c alphabet) s' -> excl (u ++ s') = false ->
  forall r p rt, In r D -> In p P -> In rt R ->
    rmatch lower r (mkSt p (u ++ s' ++ rt)) = None.
Proof.
  induction d as [|d IH]; intros D u Hc s' Hs Hex r p rt Hr Hp Hrt.
  - cbn [NameWordsDefs.covered] in Hc.
    destruct (live_spec D u r Hr) as [Hl | Hd]; [|apply Hd; exact Hp].
    destruct (live P D u); [contradiction | discriminate].
  - cbn [NameWordsDefs.covered] in Hc.
    destruct (live_spec D u r Hr) as [Hl | Hd]; [|apply Hd; exact Hp].
    destruct (live P D u) as [|r0 L] eqn:EL; [contradiction|].
    apply andb_true_iff in Hc. destruct Hc as [H1 H2].
    destruct s' as [|ch s''].
    + rewrite app_nil_r in Hex. rewrite Hex in H1. cbn [orb] in H1. cbn [app].
      rewrite forallb_forall in H1. specialize (H1 p Hp). rewrite forallb_forall in H1.
      specialize (H1 rt Hrt). unfold none_at in H1. rewrite forallb_forall in H1.
      specialize (H1 r Hl). destruct (rmatch lower r (mkSt p (u ++ rt))); [discriminate | reflexivity].
    + inversion Hs as [|c0 l0 Hch Hs'' E0]; subst.
      rewrite forallb_forall in H2. specialize (H2 ch Hch).
      replace (u ++ (ch :: s'') ++ rt) with ((u ++ [ch]) ++ s'' ++ rt)
        by (rewrite <- app_assoc; reflexivity).
      apply (IH (r0 :: L) (u ++ [ch]) H2 s'' Hs''); try assumption.
      rewrite <- app_assoc. exact Hex.
Qed.

End SearchSound.

(* ---- the two rule shapes ---------------------------------------------------------------------- *)
Section ShapesSound.
Variable R : list text.
Variable starts alphabet : list N.

Lemma star_shape_eq r A W X :
  star_shape r = Some (A, W, X) ->
  r = Seq (Atom A) (Seq (Rep true 0 None (Atom W)) (Ahead false X)).
Proof.
  destruct r as [| | a b | | | | | | | |]; try discriminate.
  destruct a as [|A0| | | | | | | | |]; try discriminate.
  destruct b as [| | b1 b2 | | | | | | | |]; try discriminate.
  destruct b1 as [| | | |g lo hi b1| | | | | |]; try discriminate.
  destruct g; try discriminate. destruct lo; try discriminate. destruct hi; try discriminate.
  destruct b1 as [|W0| | | | | | | | |]; try discriminate.
  destruct b2 as [| | | | | | |neg X0| | |]; try discriminate.
  destruct neg; try discriminate.
  cbn [star_shape]. intros H. injection H as -> -> ->. reflexivity.
Qed.

Lemma word_shape_eq r A W :
  word_shape r = Some (A, W) -> r = Seq (Atom A) (Rep true 0 None (Atom W)).
Proof.
  destruct r as [| | a b | | | | | | | |]; try discriminate.
  destruct a as [|A0| | | | | | | | |]; try discriminate.
  destruct b as [| | | |g lo hi b| | | | | |]; try discriminate.
  destruct g; try discriminate. destruct lo; try discriminate. destruct hi; try discriminate.
  destruct b as [|W0| | | | | | | | |]; try discriminate.
  cbn [word_shape]. intros H. injection H as -> ->. reflexivity.
Qed.

Lemma ahead_no_start X ch p t c :
  no_start X ch = true -> ends (Ahead false X) (mkSt p (ch :: t)) c = [].
Proof.
  intros H. cbn [Re.ends]. rewrite (no_start_sound lower X ch H). reflexivity.
Qed.

(* W* (?=X) has no result inside or at the end of a run over the alphabet *)
Lemma star_ahead_dead W X rt :
  (forall ch, In ch alphabet -> no_start X ch = true) ->
  head_not_in W rt = true ->
  (forall p', In p' alphabet -> ends X (mkSt (Some p') rt) [] = []) ->
  forall s p', Forall (fun c => In c alphabet) s -> In p' alphabet ->
    ends (Seq (Rep true 0 None (Atom W)) (Ahead false X)) (mkSt (Some p') (s ++ rt)) [] = [].
Proof.
  intros Hns Hrt HX.
  assert (Hw : 1 <= minw (Atom W)) by (cbn [minw]; lia).
  induction s as [|ch s IH]; intros p' Hs Hp'.
  - cbn [app]. rewrite (ends_seq_star_greedy lower (Atom W) Hw).
    assert (E1 : ends (Atom W) (mkSt (Some p') rt) [] = []).
    { destruct rt as [|d rt']; [reflexivity|]. rewrite ends_atom. cbn [head_not_in] in Hrt.
      destruct (cmem d W); [discriminate | reflexivity]. }
    rewrite E1. cbn [flat_map app Re.ends]. rewrite (HX p' Hp'). reflexivity.
  - inversion Hs as [|c0 l0 Hch Hs' E0]; subst. cbn [app].
    rewrite (ends_seq_star_greedy lower (Atom W) Hw).
    rewrite (ahead_no_start X ch _ _ _ (Hns ch Hch)), app_nil_r.
    rewrite ends_atom. destruct (cmem ch W); [|reflexivity].
    rewrite flat_map_single. cbn [fst snd]. apply IH; assumption.
Qed.

Theorem star_rule_dead r :
  is_star r = true -> star_rule_ok lower R alphabet r = true ->
  forall c0 s p rt, In c0 alphabet -> Forall (fun c => In c alphabet) s -> In rt R ->
    rmatch lower r (mkSt p (c0 :: s ++ rt)) = None.
Proof.
  unfold is_star, star_rule_ok. destruct (star_shape r) as [[[A W] X]|] eqn:E; [|discriminate].
  intros _ Hok c0 s p rt Hc0 Hs Hrt. apply star_shape_eq in E. subst r.
  apply andb_true_iff in Hok. destruct Hok as [H1 H2].
  rewrite forallb_forall in H1, H2. specialize (H2 rt Hrt).
  apply andb_true_iff in H2. destruct H2 as [H2 H3]. rewrite forallb_forall in H3.
  apply rmatch_nil. rewrite ends_seq, ends_atom.
  destruct (cmem c0 A); [|reflexivity]. rewrite flat_map_single. cbn [fst snd].
  apply star_ahead_dead; try assumption.
  intros p' Hp'. specialize (H3 p' Hp').
  destruct (ends X (mkSt (Some p') rt) []); [reflexivity | discriminate].
Qed.

Theorem word_rule_match r :
  word_rule_ok R starts alphabet r = true ->
  forall c0 s p rt, In c0 starts -> Forall (fun c => In c alphabet) s -> In rt R ->
    rmatch lower r (mkSt p (c0 :: s ++ rt)) = Some (S (length s)).
Proof.
  unfold word_rule_ok. destruct (word_shape r) as [[A W]|] eqn:E; [|discriminate].
  intros Hok c0 s p rt Hc0 Hs Hrt. apply word_shape_eq in E. subst r.
  apply andb_true_iff in Hok. destruct Hok as [Hok H3].
  apply andb_true_iff in Hok. destruct Hok as [H1 H2].
  rewrite forallb_forall in H1, H2, H3. specialize (H3 rt Hrt).
  assert (Hall : forallb (fun ch => cmem ch W) s = true).
  { apply forallb_forall. intros ch Hin. apply H2. rewrite Forall_forall in Hs. apply Hs. exact Hin. }
  assert (HR : match rt with d :: _ => cmem d W = false | [] => True end).
  { destruct rt as [|d rt']; [exact I|]. cbn [head_not_in] in H3.
    destruct (cmem d W); [discriminate | reflexivity]. }
  destruct (star_atom_run lower W s (Some c0) rt [] Hall HR) as (l & El).
  unfold rmatch. rewrite ends_seq, ends_atom, (H1 c0 Hc0), flat_map_single. cbn [fst snd].
  rewrite El. cbn [rest length]. rewrite app_length. f_equal. lia.
Qed.

End ShapesSound.

(* ---- the generic word rule wins ---------------------------------------------------------------- *)
Lemma askw_split (rs : list rule) r :
  askw_rule rs = Some r -> exists tl, rs = before_askw rs ++ (r, AsKeyword) :: tl.
Proof.
  induction rs as [|[r0 a0] rs IH]; cbn [askw_rule before_askw]; [discriminate|].
  destruct a0 as [ty|].
  - intros H. destruct (IH H) as (tl & E). exists tl. cbn [app]. rewrite <- E. reflexivity.
  - intros H. injection H as ->. exists rs. reflexivity.
Qed.

Lemma before_askw_incl (rs : list rule) ra : In ra (before_askw rs) -> In ra rs.
Proof.
  induction rs as [|[r0 a0] rs IH]; cbn [before_askw]; [tauto|].
  destruct a0 as [ty|]; [|contradiction]. intros [H|H]; [left; exact H | right; apply IH; exact H].
Qed.

Section Main.
Variable rules : list rule.
Variable P : list (option N).
Variable R : list text.
Variable starts alphabet : list N.
Variable excl : text -> bool.
Variable depth : nat.

Definition D_all : list re := map fst (before_askw rules).
Definition D_tree : list re := filter (fun r => negb (is_star r)) D_all.

(* the closed boolean obligations *)
Definition name_obligations : bool :=
  forallb (fun c0 => covered lower P R alphabet excl depth D_tree [c0]) starts
  && forallb (star_rule_ok lower R alphabet) D_all
  && (match askw_rule rules with Some r => word_rule_ok R starts alphabet r | None => false end)
  && forallb (fun c0 => existsb (N.eqb c0) alphabet) starts.

Theorem ident_first_match :
  name_obligations = true ->
  forall c0 s p rt, In c0 starts -> Forall (fun c => In c alphabet) s -> excl (c0 :: s) = false ->
    In p P -> In rt R ->
    first_match lower rules (mkSt p ((c0 :: s) ++ rt)) = Some (AsKeyword, length (c0 :: s)).
Proof.
  unfold name_obligations. intros Hob c0 s p rt Hc0 Hs Hex Hp Hrt.
  apply andb_true_iff in Hob. destruct Hob as [Hob H4].
  apply andb_true_iff in Hob. destruct Hob as [Hob H3].
  apply andb_true_iff in Hob. destruct Hob as [H1 H2].
  rewrite forallb_forall in H1, H2, H4.
  destruct (askw_rule rules) as [rw|] eqn:Ew; [|discriminate].
  destruct (askw_split rules rw Ew) as (tl & Esplit).
  assert (Hc0a : In c0 alphabet).
  { specialize (H4 c0 Hc0). apply existsb_exists in H4. destruct H4 as (y & Hy & E).
    apply N.eqb_eq in E. subst y. exact Hy. }
  rewrite Esplit. rewrite first_match_app_none.
  - cbn [first_match app]. cbn [app] in *.
    rewrite (word_rule_match R starts alphabet rw H3 c0 s p rt Hc0 Hs Hrt). reflexivity.
  - intros [r a] Hin. cbn [fst].
    assert (HrD : In r D_all) by (unfold D_all; apply in_map_iff; exists (r, a); auto).
    destruct (is_star r) eqn:Es.
    + cbn [app]. apply (star_rule_dead R alphabet r Es (H2 r HrD)); assumption.
    + change ((c0 :: s) ++ rt) with ([c0] ++ s ++ rt).
      apply (covered_sound P R alphabet excl depth D_tree [c0] (H1 c0 Hc0) s Hs Hex); try assumption.
      unfold D_tree. apply filter_In. split; [exact HrD|]. rewrite Es. reflexivity.
Qed.

End Main.
End Sound.

Print Assumptions a_ends_sound.
Print Assumptions a_first_match_sound.
Print Assumptions covered_sound.
Print Assumptions ident_first_match.
