(* The lexer is total and lossless for any rule table whose rules have minimum width >= 1, and
   its output is the one the "first matching rule at the current position wins" specification
   describes. *)
From SqlModel Require Import Base Re MinWidth Lexer.

Section Facts.
Variable lower : N -> N.
Variable upper : text -> text.
Variable rules : list rule.
Variable kws : list kwdict.

Definition rules_wide (rs : list rule) : bool := forallb (fun ra => Nat.leb 1 (minw (fst ra))) rs.

Lemma first_match_width rs x a k :
  rules_wide rs = true -> first_match lower rs x = Some (a, k) ->
  1 <= k /\ k <= length (rest x).
Proof.
  induction rs as [|[r a'] rs IH]; cbn [first_match]; intros Hw H; [discriminate|].
  unfold rules_wide in Hw. cbn [forallb fst] in Hw.
  apply andb_true_iff in Hw. destruct Hw as [Hr Hw].
  destruct (rmatch lower r x) as [k'|] eqn:E.
  - injection H as <- <-. apply rmatch_width in E. apply Nat.leb_le in Hr. lia.
  - auto.
Qed.

(* specification: first matching rule wins, else a one-character Error token *)
Inductive LexSpec : option N -> text -> list tok -> Prop :=
| LS_nil p : LexSpec p [] []
| LS_match p t a k v t' toks :
    first_match lower rules (mkSt p t) = Some (a, k) ->
    1 <= k -> t = v ++ t' -> length v = k ->
    LexSpec (push_prev p v) t' toks ->
    LexSpec p t (mk_tok upper kws a v :: toks)
| LS_error p c t toks :
    first_match lower rules (mkSt p (c :: t)) = None ->
    LexSpec (Some c) t toks ->
    LexSpec p (c :: t) ((T_Error, [c]) :: toks).

Lemma mk_tok_snd a v : snd (mk_tok upper kws a v) = v.
Proof. destruct a; reflexivity. Qed.

Lemma LexSpec_lossless p t toks :
  LexSpec p t toks ->
  concat (map snd toks) = t /\ Forall (fun tk => snd tk <> []) toks.
Proof.
  induction 1 as [p | p t a k v t' toks Hm Hk Ht Hl _ [IH1 IH2] | p c t toks Hm _ [IH1 IH2]].
  - simpl; auto.
  - simpl. rewrite mk_tok_snd, IH1. split; [auto|].
    constructor; [|assumption]. rewrite mk_tok_snd. destruct v; simpl in *; [lia|discriminate].
  - simpl. rewrite IH1. split; [reflexivity|]. constructor; [discriminate|assumption].
Qed.

Lemma lex_go_spec :
  rules_wide rules = true ->
  forall t p k, k <= length t ->
    exists toks, lex_go lower upper rules kws p k t = Ok toks
                 /\ LexSpec (push_prev p (firstn k t)) (skipn k t) toks.
Proof.
  intros Hw. induction t as [|ch tl IH]; intros p k Hk.
  - simpl in Hk. assert (k = 0) by lia. subst. exists []. split; [reflexivity|]. constructor.
  - destruct k as [|k].
    + cbn [lex_go firstn skipn push_prev fold_left].
      destruct (first_match lower rules (mkSt p (ch :: tl))) as [[a n]|] eqn:Em.
      * destruct (first_match_width _ _ _ _ Hw Em) as [Hn1 Hn2]. simpl in Hn2.
        destruct n as [|n']; [lia|].
        destruct (IH (Some ch) n') as (toks & E & S); [lia|].
        rewrite E. eexists; split; [reflexivity|].
        eapply LS_match with (t' := skipn n' tl); eauto.
        -- cbn [firstn]. simpl. f_equal. symmetry. apply firstn_skipn.
        -- rewrite firstn_length. simpl. lia.
      * destruct (IH (Some ch) 0) as (toks & E & S); [lia|].
        rewrite E. eexists; split; [reflexivity|].
        apply LS_error; auto.
    + cbn [lex_go firstn skipn]. simpl in Hk.
      destruct (IH (Some ch) k) as (toks & E & S); [lia|].
      exists toks; split; auto.
Qed.

Theorem lex_total_lossless :
  rules_wide rules = true ->
  forall t, exists toks,
    lex lower upper rules kws t = Ok toks
    /\ concat (map snd toks) = t
    /\ Forall (fun tk => snd tk <> []) toks
    /\ LexSpec None t toks.
Proof.
  intros Hw t. destruct (lex_go_spec Hw t None 0) as (toks & E & S); [lia|].
  simpl in S. exists toks. split; [exact E|].
  destruct (LexSpec_lossless _ _ _ S). auto.
Qed.

End Facts.
