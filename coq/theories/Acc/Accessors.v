(* The read-only accessors of sqlparse/sql.py as res-valued functions on the tree model.
   Faithful to the Python code, including what it raises:
     Statement.get_type
     NameAliasMixin.get_real_name / get_alias            (Identifier, Function)
     TokenList.get_name / get_alias / get_real_name / get_parent_name / has_alias / _get_first_name
     Identifier.is_wildcard / get_typecast / get_ordering / get_array_indices
     IdentifierList.get_identifiers, Function.get_parameters / get_window, Case.get_cases,
     Comparison.left / right, Comment.is_multiline
   Strings are code-point lists; tokens an accessor returns are given as (relative path, node).
   Definitions only: the facts are in AccFacts.v. *)
From SqlModel Require Import Base PyStr Node Passes.
From SqlModel.Gen Require Import CaseTabs.

Definition s_WHEN := [87; 72; 69; 78]%N.
Definition s_THEN := [84; 72; 69; 78]%N.
Definition s_ELSE := [69; 76; 83; 69]%N.
Definition s_UNKNOWN := [85; 78; 75; 78; 79; 87; 78]%N.

(* ---- utils.remove_quotes (val is a str at every call site) ---------------------------------- *)
Definition quote_chars : list N := [34; 39; 96]%N.       (* double quote, single quote, backtick *)
Definition is_quote (c : N) : bool := existsb (N.eqb c) quote_chars.

(* val[1:-1] if val[0] is one of the three quote characters and val[0] == val[-1] else val
   (val non-empty) *)
Definition unquote (v : text) : text :=
  match v with
  | [] => []
  | c :: rest => if is_quote c && N.eqb c (last v c) then removelast rest else v
  end.

Definition remove_quotes (v : text) : res text :=
  match v with
  | [] => Err IndexError                                   (* val[0] on the empty str *)
  | _ :: _ => Ok (unquote v)
  end.

(* ---- children with their positions ---------------------------------------------------------- *)
Fixpoint indexed_from {A} (i : nat) (l : list A) : list (nat * A) :=
  match l with
  | [] => []
  | x :: l' => (i, x) :: indexed_from (S i) l'
  end.
Definition indexed {A} (l : list A) : list (nat * A) := indexed_from 0 l.

(* a token handed out by an accessor: its path below the node the accessor was called on *)
Definition pnode := (list nat * node)%type.

Definition dot_pat : pat := (T_Punctuation, Some [s_dot]).
Definition comma_pat : pat := (T_Punctuation, Some [s_comma]).
Definition dcolon_pat : pat := (T_Punctuation, Some [s_dcolon]).
Definition as_pat : pat := (T_Keyword, Some [s_AS]).
Definition kw_pat (s : text) : pat := (T_Keyword, Some [s]).

(* token_next_by(m=p) / (t=T.X) / (i=C), from the start *)
Definition next_by_m (p : pat) (l : list node) : option (nat * node) := next_by_from [] [p] TNone 0 l.
Definition next_by_t (ty : ttype) (l : list node) : option (nat * node) := next_by_from [] [] (TOne ty) 0 l.
Definition next_by_i (c : cls) (l : list node) : option (nat * node) := next_by_from [c] [] TNone 0 l.

(* ---- TokenList._get_first_name ---------------------------------------------------------------- *)
(* types = [T.Name, T.Wildcard, T.String.Symbol] (+ [T.Keyword]): list membership, i.e. equality *)
Definition name_types (keywords : bool) : list ttype :=
  [T_Name; T_Wildcard; T_Symbol] ++ (if keywords then [T_Keyword] else []).

(* the loop; every child comes with the result the recursive call on it would give *)
Fixpoint first_name_scan (keywords : bool) (l : list (node * res (option text))) : res (option text) :=
  match l with
  | [] => Ok None
  | (t, r) :: l' =>
      if tt_among t (name_types keywords) then v <- remove_quotes (nvalue t) ;; Ok (Some v)
      else if inst_any t [CIdentifier; CFunction] then r
      else first_name_scan keywords l'
  end.

(* self.tokens[idx:] if idx else self.tokens   (idx None or 0: everything) *)
Definition slice_opt {A} (idx : option nat) (l : list A) : list A :=
  match idx with
  | Some (S k) => skipn (S k) l
  | _ => l
  end.

Definition first_name (idx : option nat) (reverse keywords : bool) (kids : list node)
    (sub : list (res (option text))) : res (option text) :=
  let l := slice_opt idx (combine kids sub) in
  first_name_scan keywords (if reverse then rev l else l).

(* classes deriving from NameAliasMixin *)
Definition name_alias_cls (c : cls) : bool :=
  match c with CIdentifier | CFunction => true | _ => false end.

(* get_real_name: NameAliasMixin's on Identifier/Function, TokenList's (None) elsewhere *)
Fixpoint get_real_name (n : node) : res (option text) :=
  match n with
  | Leaf _ _ => Err AttributeError
  | Grp c _ kids =>
      if name_alias_cls c
      then first_name (option_map fst (next_by_m dot_pat kids)) false false kids (map get_real_name kids)
      else Ok None
  end.

(* a or b  on Optional[str]: the empty str and None are falsy *)
Definition py_or (a b : res (option text)) : res (option text) :=
  x <- a ;; match x with Some (_ :: _) => Ok x | _ => b end.

(* NameAliasMixin.get_alias, given get_name() of every child *)
Definition alias_of (kids : list node) (sub : list (res (option text))) : res (option text) :=
  match next_by_m as_pat kids with
  | Some (kw_idx, _) => first_name (Some (S kw_idx)) false true kids sub
  | None =>
      match next_by_t T_Whitespace kids with
      | Some _ => if 2 <? length kids then first_name None true false kids sub else Ok None
      | None => Ok None
      end
  end.

Fixpoint get_name (n : node) : res (option text) :=
  match n with
  | Leaf _ _ => Err AttributeError
  | Grp c _ kids =>
      if name_alias_cls c
      then py_or (alias_of kids (map get_name kids)) (get_real_name n)
      else Ok None                                   (* None or None *)
  end.

Definition get_alias (n : node) : res (option text) :=
  match n with
  | Leaf _ _ => Err AttributeError
  | Grp c _ kids => if name_alias_cls c then alias_of kids (map get_name kids) else Ok None
  end.

Definition is_some {A} (o : option A) : bool := match o with Some _ => true | None => false end.

Definition has_alias (n : node) : res bool := a <- get_alias n ;; Ok (is_some a).

(* _get_first_name() with its default arguments, callable on every TokenList *)
Definition get_first_name0 (n : node) : res (option text) :=
  match n with
  | Leaf _ _ => Err AttributeError
  | Grp _ _ kids => first_name None false false kids (map get_name kids)
  end.

Definition get_parent_name (n : node) : res (option text) :=
  match n with
  | Leaf _ _ => Err AttributeError
  | Grp _ _ kids =>
      match next_by_m dot_pat kids with
      | None => Ok None                               (* token_prev(None) = (None, None) *)
      | Some (dot_idx, _) =>
          match token_prev true false dot_idx kids with
          | None => Ok None
          | Some (_, p) => v <- remove_quotes (nvalue p) ;; Ok (Some v)
          end
      end
  end.

(* ---- Statement.get_type ------------------------------------------------------------------------ *)
(* the while loop of the CTE branch; tidx strictly increases, so length kids rounds suffice *)
Fixpoint cte_loop (fuel : nat) (tidx : nat) (kids : list node) : res text :=
  match fuel with
  | O => Err Stuck
  | S f =>
      match token_next true false tidx kids with
      | None => Ok s_UNKNOWN                              (* tidx is None: the loop ends *)
      | Some (i, t) =>
          if inst_any t [CIdentifier; CIdentifierList]
          then match token_next true false i kids with
               | None => Ok s_UNKNOWN
               | Some (j, t2) => if tt_is t2 T_DML then Ok (normalized t2) else cte_loop f j kids
               end
          else cte_loop f i kids
      end
  end.

Definition get_type_kids (kids : list node) : res text :=
  match find_from (skip_matcher true true) 0 kids with
  | None => Ok s_UNKNOWN
  | Some (i, t) =>
      if tt_among t [T_DML; T_DDL] then Ok (normalized t)
      else if tt_is t T_CTE then cte_loop (S (length kids)) i kids
      else Ok s_UNKNOWN
  end.

Definition get_type (n : node) : res text :=
  match n with
  | Leaf _ _ => Err AttributeError
  | Grp _ _ kids => get_type_kids kids
  end.

(* ---- Identifier -------------------------------------------------------------------------------- *)
Definition is_wildcard (kids : list node) : bool := is_some (next_by_t T_Wildcard kids).

Definition get_typecast (kids : list node) : option text :=
  match next_by_m dcolon_pat kids with
  | None => None
  | Some (midx, _) =>
      match token_next false false midx kids with
      | Some (_, t) => Some (nvalue t)                    (* a token object is always truthy *)
      | None => None
      end
  end.

Definition get_ordering (kids : list node) : option text :=
  match next_by_t T_Order kids with
  | Some (_, t) => Some (normalized t)
  | None => None
  end.

(* tokens[1:-1] with positions *)
Definition inner_slice {A} (l : list A) : list A := removelast (tl l).

Definition get_array_indices (kids : list node) : list (list pnode) :=
  flat_map (fun it : nat * node =>
              let (i, t) := it in
              if inst t CSquareBrackets
              then [map (fun jt : nat * node => ([i; fst jt], snd jt)) (inner_slice (indexed (nkids t)))]
              else [])
           (indexed kids).

(* ---- IdentifierList.get_identifiers ------------------------------------------------------------ *)
Definition ident_item (t : node) : bool := negb (is_ws t || match_pat t comma_pat).

Definition get_identifiers (kids : list node) : list (nat * node) :=
  filter (fun it => ident_item (snd it)) (indexed kids).

(* ---- Function ---------------------------------------------------------------------------------- *)
Definition param_item (t : node) : bool :=
  imt (Some t) [CFunction; CIdentifier; CTypedLiteral] [] (TOne T_Literal).

Fixpoint params_scan (p : nat) (l : list (nat * node)) (acc : list pnode) : list pnode :=
  match l with
  | [] => rev acc
  | (i, t) :: l' =>
      if inst t CIdentifierList
      then map (fun jt : nat * node => ([p; i; fst jt], snd jt)) (get_identifiers (nkids t))
      else if param_item t then params_scan p l' (([p; i], t) :: acc)
      else params_scan p l' acc
  end.

Definition get_parameters (kids : list node) : res (list pnode) :=
  match next_by_i CParenthesis kids with
  | None => Err AttributeError                            (* None.tokens *)
  | Some (p, par) => Ok (params_scan p (indexed (nkids par)) [])
  end.

Definition last_indexed {A} (l : list A) : option (nat * A) :=
  match rev l with
  | [] => None
  | x :: _ => Some (pred (length l), x)
  end.

(* `_, over_clause = self.token_next_by(i=Over)`; None when there is no OVER clause
   (since the library fix "Function.get_window() returns None when there is no OVER clause") *)
Definition get_window (kids : list node) : res (option pnode) :=
  match next_by_i COver kids with
  | None => Ok None
  | Some (o, ov) =>
      match last_indexed (nkids ov) with
      | None => Err IndexError
      | Some (j, t) => Ok (Some ([o; j], t))
      end
  end.

(* ---- Case.get_cases ---------------------------------------------------------------------------- *)
Inductive cmode := MCond | MVal | MNone.

(* The loop is written over items of any type T carrying a token (nd): get_cases runs it on
   (position, token) pairs, the facts are proved on plain tokens and transported. *)
Section Cases.
Context {T : Type}.
Variable nd : T -> node.

(* (condition, value); the lists are kept reversed while the loop runs; newest entry first *)
Definition centry := (option (list T) * list T)%type.

Definition case_step (skip_ws : bool) (st : cmode * list centry) (it : T) : res (cmode * list centry) :=
  let t := nd it in
  let mode := fst st in
  let ret := snd st in
  if match_pat t (kw_pat s_CASE) then Ok st                          (* continue *)
  else if skip_ws && tt_in t T_Whitespace then Ok st                 (* continue *)
  else
    let mr :=
      if match_pat t (kw_pat s_WHEN) then (MCond, (Some [], []) :: ret)
      else if match_pat t (kw_pat s_THEN) then (MVal, ret)
      else if match_pat t (kw_pat s_ELSE) then (MVal, (None, []) :: ret)
      else if match_pat t (kw_pat s_END) then (MNone, ret)
      else (mode, ret) in
    let mode1 := fst mr in
    let ret1 := match mode1, snd mr with
                | MNone, r => r
                | _, [] => [(Some [], [])]                           (* first condition without WHEN *)
                | _, r => r
                end in
    match mode1, ret1 with
    | MNone, _ => Ok (mode1, ret1)
    | MCond, (Some c, v) :: r => Ok (mode1, (Some (it :: c), v) :: r)
    | MCond, (None, _) :: _ => Err AttributeError                     (* None.append *)
    | MVal, (c, v) :: r => Ok (mode1, (c, it :: v) :: r)
    | _, [] => Err IndexError                                         (* ret[-1] on [] *)
    end.

Fixpoint cases_fold (skip_ws : bool) (l : list T) (st : cmode * list centry) : res (cmode * list centry) :=
  match l with
  | [] => Ok st
  | it :: l' => st' <- case_step skip_ws st it ;; cases_fold skip_ws l' st'
  end.

Definition finish_cases (ret : list centry) : list centry :=
  rev (map (fun e : centry => (option_map (@rev _) (fst e), rev (snd e))) ret).

Definition cases_of (skip_ws : bool) (l : list T) : res (list centry) :=
  st <- cases_fold skip_ws l (MCond, []) ;; Ok (finish_cases (snd st)).
End Cases.

Definition case_entry := @centry (nat * node).

Definition get_cases (skip_ws : bool) (kids : list node) : res (list case_entry) :=
  cases_of (@snd nat node) skip_ws (indexed kids).

(* ---- Comparison, Comment ------------------------------------------------------------------------ *)
Definition cmp_left (kids : list node) : res (nat * node) :=
  match kids with
  | [] => Err IndexError
  | t :: _ => Ok (0, t)
  end.

Definition cmp_right (kids : list node) : res (nat * node) :=
  match last_indexed kids with
  | None => Err IndexError
  | Some it => Ok it
  end.

(* self.tokens and self.tokens[0].ttype == T.Comment.Multiline : [] when there is no child *)
Definition is_multiline (kids : list node) : option bool :=
  match kids with
  | [] => None
  | t :: _ => Some (tt_is t T_CMultiline)
  end.

(* ---- the accessors a node's class offers, with canonical results ------------------------------ *)
Inductive aname :=
| A_get_type | A_get_alias | A_get_real_name | A_get_name | A_get_parent_name | A_has_alias
| A_first_name | A_is_wildcard | A_get_typecast | A_get_ordering | A_get_array_indices
| A_get_identifiers | A_get_parameters | A_get_window | A_get_cases | A_get_cases_skip
| A_left | A_right | A_is_multiline.

Inductive aval :=
| VNone
| VBool (b : bool)
| VText (t : text)
| VPath (p : list nat)
| VList (l : list aval)
| VPair (a b : aval)
| VErr (e : exn).

Definition v_res {A} (f : A -> aval) (r : res A) : aval :=
  match r with Ok a => f a | Err e => VErr e end.
Definition v_opt {A} (f : A -> aval) (o : option A) : aval :=
  match o with Some a => f a | None => VNone end.
Definition v_pnodes (l : list pnode) : aval := VList (map (fun pn => VPath (fst pn)) l).
Definition v_kids (l : list (nat * node)) : aval := VList (map (fun it => VPath [fst it]) l).
Definition v_case (e : case_entry) : aval := VPair (v_opt v_kids (fst e)) (v_kids (snd e)).

Definition accessors (n : node) : list (aname * aval) :=
  match n with
  | Leaf _ _ => []
  | Grp c _ kids =>
      (match c with CStatement => [(A_get_type, v_res VText (get_type n))] | _ => [] end) ++
      [(A_get_alias, v_res (v_opt VText) (get_alias n));
       (A_get_real_name, v_res (v_opt VText) (get_real_name n));
       (A_get_name, v_res (v_opt VText) (get_name n));
       (A_get_parent_name, v_res (v_opt VText) (get_parent_name n));
       (A_has_alias, v_res VBool (has_alias n));
       (A_first_name, v_res (v_opt VText) (get_first_name0 n))] ++
      match c with
      | CIdentifier =>
          [(A_is_wildcard, VBool (is_wildcard kids));
           (A_get_typecast, v_opt VText (get_typecast kids));
           (A_get_ordering, v_opt VText (get_ordering kids));
           (A_get_array_indices, VList (map v_pnodes (get_array_indices kids)))]
      | CIdentifierList => [(A_get_identifiers, v_kids (get_identifiers kids))]
      | CFunction =>
          [(A_get_parameters, v_res v_pnodes (get_parameters kids));
           (A_get_window, v_res (v_opt (fun pn : pnode => VPath (fst pn))) (get_window kids))]
      | CCase =>
          [(A_get_cases, v_res (fun l => VList (map v_case l)) (get_cases false kids));
           (A_get_cases_skip, v_res (fun l => VList (map v_case l)) (get_cases true kids))]
      | CComparison =>
          [(A_left, v_res (fun it : nat * node => VPath [fst it]) (cmp_left kids));
           (A_right, v_res (fun it : nat * node => VPath [fst it]) (cmp_right kids))]
      | CComment => [(A_is_multiline, v_opt VBool (is_multiline kids))]
      | _ => []
      end
  end.

(* every node in pre-order with its path (statement index first) *)
Fixpoint walk (path : list nat) (n : node) : list (list nat * node) :=
  (path, n) :: match n with
               | Leaf _ _ => []
               | Grp _ _ kids =>
                   (fix go (i : nat) (l : list node) : list (list nat * node) :=
                      match l with
                      | [] => []
                      | k :: l' => walk (path ++ [i]) k ++ go (S i) l'
                      end) 0 kids
               end.

Definition acc_dump (stmts : list node) : list (list nat * aname * aval) :=
  flat_map (fun sn : nat * node =>
              flat_map (fun pn : list nat * node =>
                          map (fun av : aname * aval => (fst pn, fst av, snd av)) (accessors (snd pn)))
                       (walk [fst sn] (snd sn)))
           (indexed stmts).
