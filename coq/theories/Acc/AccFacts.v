(* Facts about the accessor model (Acc/Accessors.v): C18 (get_type), C12 (names of identifier
   shapes), C13 (get_identifiers / get_parameters / get_cases / left, right), C07 (totality of the
   accessors, and the ones that raise on reachable trees). *)
From SqlModel Require Import Base PyStr Node Inv Passes.
From SqlModel.Gen Require Import CaseTabs.
From SqlModel.Inst Require Import Cur.
From SqlModel.Acc Require Import Accessors.

(* ================================================================================================ *)
(* searching the children                                                                           *)
Lemma find_from_0 f l : find_from f 0 l = find_from_aux f l 0.
Proof. reflexivity. Qed.

Lemma find_aux_skip f pre l b :
  forallb (fun x => negb (f x)) pre = true ->
  find_from_aux f (pre ++ l) b = find_from_aux f l (b + length pre).
Proof.
  revert b. induction pre as [|x pre IH]; intros b H.
  - cbn [app length]. rewrite Nat.add_0_r. reflexivity.
  - cbn [forallb] in H. apply andb_true_iff in H. destruct H as [Hx Hp].
    cbn [app find_from_aux length]. apply negb_true_iff in Hx. rewrite Hx.
    rewrite IH by exact Hp. f_equal. lia.
Qed.

Lemma find_aux_hit f x l b : f x = true -> find_from_aux f (x :: l) b = Some (b, x).
Proof. intros H. cbn [find_from_aux]. rewrite H. reflexivity. Qed.

Lemma find_aux_none f l b :
  forallb (fun x => negb (f x)) l = true -> find_from_aux f l b = None.
Proof.
  revert b. induction l as [|x l IH]; intros b H; [reflexivity|].
  cbn [forallb] in H. apply andb_true_iff in H. destruct H as [Hx Hp].
  cbn [find_from_aux]. apply negb_true_iff in Hx. rewrite Hx. apply IH. exact Hp.
Qed.

(* first hit after a prefix without hits *)
Lemma find_aux_first f pre x l b :
  forallb (fun y => negb (f y)) pre = true -> f x = true ->
  find_from_aux f (pre ++ x :: l) b = Some (b + length pre, x).
Proof. intros Hp Hx. rewrite find_aux_skip by exact Hp. apply find_aux_hit. exact Hx. Qed.

Lemma find_aux_sound f l b i t :
  find_from_aux f l b = Some (i, t) ->
  b <= i /\ i < b + length l /\ nth_error l (i - b) = Some t /\ f t = true.
Proof.
  revert b. induction l as [|x l IH]; intros b H; [discriminate|].
  cbn [find_from_aux] in H. destruct (f x) eqn:E.
  - injection H as <- <-. cbn [length]. rewrite Nat.sub_diag. repeat split; try lia; auto.
  - apply IH in H. destruct H as (H1 & H2 & H3 & H4). cbn [length].
    repeat split; try lia; auto.
    replace (i - b) with (S (i - S b)) by lia. exact H3.
Qed.

Lemma find_from_sound f s l i t :
  find_from f s l = Some (i, t) -> s <= i /\ i < length l /\ nth_error l i = Some t /\ f t = true.
Proof.
  unfold find_from. intros H. apply find_aux_sound in H. destruct H as (H1 & H2 & H3 & H4).
  assert (Hlen : length (skipn s l) = length l - s) by apply skipn_length.
  repeat split; try lia; auto.
  rewrite <- (firstn_skipn s l) at 1.
  assert (Hs : s <= length l) by lia.
  rewrite nth_error_app2; rewrite firstn_length; rewrite Nat.min_l by lia; [exact H3 | lia].
Qed.

(* find_from with an explicit split of the list *)
Lemma find_from_split f pre l :
  find_from f (length pre) (pre ++ l) = find_from_aux f l (length pre).
Proof.
  unfold find_from. rewrite skipn_app, skipn_all, Nat.sub_diag. reflexivity.
Qed.

Lemma token_next_at sw sc pfx x l :
  token_next sw sc (length pfx) (pfx ++ x :: l) = find_from_aux (skip_matcher sw sc) l (S (length pfx)).
Proof.
  unfold token_next.
  replace (pfx ++ x :: l) with ((pfx ++ [x]) ++ l) by (rewrite <- app_assoc; reflexivity).
  replace (S (length pfx)) with (length (pfx ++ [x])) by (rewrite app_length; cbn [length]; lia).
  apply find_from_split.
Qed.

Lemma snoc_len {A} (pfx : list A) x : length (pfx ++ [x]) = S (length pfx).
Proof. rewrite app_length. cbn [length]. lia. Qed.

Lemma snoc_app {A} (pfx : list A) x l : pfx ++ x :: l = (pfx ++ [x]) ++ l.
Proof. rewrite <- app_assoc. reflexivity. Qed.

(* ================================================================================================ *)
(* C18: Statement.get_type                                                                          *)

(* what token_first(skip_cm=True) skips: whitespace leaves, Comment groups, comment leaves *)
Definition skippable (n : node) : bool := negb (skip_matcher true true n).

Lemma skippable_spec n :
  skippable n = is_ws n || inst n CComment || tt_in n T_Comment.
Proof.
  unfold skippable, skip_matcher, imt, inst_any, tmatch. cbn [existsb andb].
  rewrite negb_involutive. rewrite !orb_false_r. rewrite orb_assoc. reflexivity.
Qed.

Lemma skippable_forall pre :
  forallb skippable pre = true -> forallb (fun y => negb (skip_matcher true true y)) pre = true.
Proof. intros H. exact H. Qed.

(* the first child that is not whitespace / comment is a DML or DDL keyword leaf: its value, upper-cased *)
Theorem get_type_keyword : forall c v pre ty kw rest,
  forallb skippable pre = true -> ty = T_DML \/ ty = T_DDL ->
  get_type (Grp c v (pre ++ Leaf ty kw :: rest)) = Ok (knorm kw).
Proof.
  intros c v pre ty kw rest Hpre Hty.
  unfold get_type, get_type_kids. rewrite find_from_0.
  rewrite (find_aux_first (skip_matcher true true) pre (Leaf ty kw) rest 0 (skippable_forall _ Hpre)).
  - destruct Hty as [-> | ->]; reflexivity.
  - destruct Hty as [-> | ->]; reflexivity.
Qed.
Print Assumptions get_type_keyword.

(* no child besides whitespace and comments *)
Theorem get_type_unknown_blank : forall c v kids,
  forallb skippable kids = true -> get_type (Grp c v kids) = Ok s_UNKNOWN.
Proof.
  intros c v kids H. unfold get_type, get_type_kids. rewrite find_from_0.
  rewrite find_aux_none by exact (skippable_forall _ H). reflexivity.
Qed.

(* the first significant child is neither a DML/DDL keyword leaf nor the CTE keyword leaf *)
Theorem get_type_unknown_other : forall c v pre t rest,
  forallb skippable pre = true -> skippable t = false ->
  tt_among t [T_DML; T_DDL] = false -> tt_is t T_CTE = false ->
  get_type (Grp c v (pre ++ t :: rest)) = Ok s_UNKNOWN.
Proof.
  intros c v pre t rest Hpre Ht Hk Hc. unfold get_type, get_type_kids. rewrite find_from_0.
  rewrite (find_aux_first (skip_matcher true true) pre t rest 0 (skippable_forall _ Hpre)).
  - rewrite Hk, Hc. reflexivity.
  - unfold skippable in Ht. apply negb_false_iff in Ht. exact Ht.
Qed.

(* ---- the CTE branch ------------------------------------------------------------------------- *)
Definition is_cte_def (t : node) : bool := inst_any t [CIdentifier; CIdentifierList].

Lemma is_cte_def_not_ws t : is_cte_def t = true -> skip_matcher true false t = true.
Proof. destruct t as [ty v | c v k]; [discriminate | reflexivity]. Qed.

Lemma sm_tf n : skip_matcher true false n = negb (is_ws n).
Proof. unfold skip_matcher. cbn [andb]. rewrite orb_false_r. reflexivity. Qed.

Lemma ws_forall l :
  forallb is_ws l = true -> forallb (fun y => negb (skip_matcher true false y)) l = true.
Proof.
  intros H. rewrite forallb_forall in *. intros x Hx. rewrite sm_tf, negb_involutive. auto.
Qed.

Lemma cte_loop_skip_ws fuel pfx x m l :
  is_ws m = true ->
  cte_loop fuel (length pfx) (pfx ++ x :: m :: l) = cte_loop fuel (S (length pfx)) (pfx ++ x :: m :: l).
Proof.
  intros Hm. destruct fuel as [|f]; [reflexivity|]. cbn [cte_loop].
  rewrite token_next_at. cbn [find_from_aux]. rewrite sm_tf, Hm. cbn [negb].
  rewrite (snoc_app pfx x (m :: l)). rewrite <- (snoc_len pfx x). rewrite token_next_at.
  reflexivity.
Qed.

Lemma cte_loop_reach : forall mid pfx x fuel I ws2 kw rest,
  length mid < fuel ->
  forallb (fun t => negb (is_cte_def t)) mid = true ->
  is_cte_def I = true -> forallb is_ws ws2 = true ->
  cte_loop fuel (length pfx) (pfx ++ x :: mid ++ I :: ws2 ++ Leaf T_DML kw :: rest) = Ok (knorm kw).
Proof.
  induction mid as [|m mid IH]; intros pfx x fuel I ws2 kw rest Hf Hmid HI Hws.
  - destruct fuel as [|f]; [cbn [length] in Hf; lia|].
    cbn [app cte_loop]. rewrite token_next_at.
    rewrite find_aux_hit by (apply is_cte_def_not_ws; exact HI).
    fold (is_cte_def I). rewrite HI.
    rewrite (snoc_app pfx x (I :: _)). rewrite <- (snoc_len pfx x). rewrite token_next_at.
    rewrite find_aux_first; [reflexivity | apply ws_forall; exact Hws | reflexivity].
  - cbn [forallb] in Hmid. apply andb_true_iff in Hmid. destruct Hmid as [Hm Hmid].
    apply negb_true_iff in Hm. cbn [app].
    destruct (is_ws m) eqn:Ews.
    + rewrite cte_loop_skip_ws by exact Ews.
      rewrite (snoc_app pfx x (m :: _)). rewrite <- (snoc_len pfx x).
      apply IH; auto. cbn [length] in Hf. lia.
    + destruct fuel as [|f]; [cbn [length] in Hf; lia|].
      cbn [cte_loop]. rewrite token_next_at.
      rewrite find_aux_hit by (rewrite sm_tf, Ews; reflexivity).
      fold (is_cte_def m). rewrite Hm.
      rewrite (snoc_app pfx x (m :: _)). rewrite <- (snoc_len pfx x).
      apply IH; auto. cbn [length] in Hf. lia.
Qed.

(* WITH, then anything that is not an Identifier/IdentifierList group (whitespace, RECURSIVE, ...),
   then the CTE definitions as one Identifier or IdentifierList, whitespace, a DML keyword leaf *)
Theorem get_type_cte : forall c v pre w mid I ws2 kw rest,
  forallb skippable pre = true ->
  forallb (fun t => negb (is_cte_def t)) mid = true ->
  is_cte_def I = true -> forallb is_ws ws2 = true ->
  get_type (Grp c v (pre ++ Leaf T_CTE w :: mid ++ I :: ws2 ++ Leaf T_DML kw :: rest)) = Ok (knorm kw).
Proof.
  intros c v pre w mid I ws2 kw rest Hpre Hmid HI Hws.
  unfold get_type, get_type_kids. rewrite find_from_0.
  rewrite (find_aux_first (skip_matcher true true) pre (Leaf T_CTE w) _ 0 (skippable_forall _ Hpre))
    by reflexivity.
  cbn [tt_among existsb ttype_eqb tcomp_eqb andb orb tt_is T_DML T_DDL T_CTE]. cbn [Nat.add].
  apply cte_loop_reach; auto.
  rewrite !app_length. cbn [length]. rewrite !app_length. cbn [length]. lia.
Qed.
Print Assumptions get_type_cte.

(* ---- get_type never raises (C07) ------------------------------------------------------------- *)
Lemma cte_loop_total : forall fuel tidx kids,
  tidx < length kids -> length kids < tidx + fuel -> exists t, cte_loop fuel tidx kids = Ok t.
Proof.
  induction fuel as [|f IH]; intros tidx kids Hlt Hf; [lia|].
  cbn [cte_loop]. unfold token_next.
  destruct (find_from (skip_matcher true false) (S tidx) kids) as [[i t]|] eqn:E1; [|eexists; reflexivity].
  apply find_from_sound in E1. destruct E1 as (Hi1 & Hi2 & _ & _).
  destruct (inst_any t [CIdentifier; CIdentifierList]).
  - destruct (find_from (skip_matcher true false) (S i) kids) as [[j t2]|] eqn:E2; [|eexists; reflexivity].
    apply find_from_sound in E2. destruct E2 as (Hj1 & Hj2 & _ & _).
    destruct (tt_is t2 T_DML); [eexists; reflexivity|]. apply IH; lia.
  - apply IH; lia.
Qed.

Theorem get_type_total : forall c v kids, exists t, get_type (Grp c v kids) = Ok t.
Proof.
  intros c v kids. unfold get_type, get_type_kids.
  destruct (find_from (skip_matcher true true) 0 kids) as [[i t]|] eqn:E; [|eexists; reflexivity].
  apply find_from_sound in E. destruct E as (_ & Hi & _ & _).
  destruct (tt_among t [T_DML; T_DDL]); [eexists; reflexivity|].
  destruct (tt_is t T_CTE); [|eexists; reflexivity].
  apply cte_loop_total; lia.
Qed.
Print Assumptions get_type_total.

(* ---- C18 at full strength is false of the model: witnesses through cur_parse ----------------- *)
Definition x_select := [115; 101; 108; 101; 99; 116]%N.                       (* select *)
Definition x_SELECT := [83; 69; 76; 69; 67; 84]%N.
Definition x_create := [99; 114; 101; 97; 116; 101]%N.
Definition x_or := [111; 114]%N.
Definition x_replace := [114; 101; 112; 108; 97; 99; 101]%N.
Definition x_CREATE_OR_REPLACE :=
  [67; 82; 69; 65; 84; 69; 32; 79; 82; 32; 82; 69; 80; 76; 65; 67; 69]%N.    (* CREATE OR REPLACE *)
Definition x_view_tail :=
  [32; 118; 105; 101; 119; 32; 118; 32; 97; 115; 32; 115; 101; 108; 101; 99; 116; 32; 49]%N.
                                                                              (*  view v as select 1 *)

(* ASCII characters that cannot continue a word *)
Definition ascii_nonword (c : N) : bool :=
  (c <? 128)%N &&
  negb (((48 <=? c) && (c <=? 57)) || ((65 <=? c) && (c <=? 90)) || ((97 <=? c) && (c <=? 122))
        || (c =? 95) || (c =? 36) || (c =? 64) || (c =? 35))%N.

(* "The answer ignores ... everything after the leading keyword", for the keyword select *)
Definition C18_rest_ignored : Prop :=
  forall c rest s stmts, ascii_nonword c = true ->
    cur_parse (x_select ++ c :: rest) = Ok (s :: stmts) -> get_type s = Ok x_SELECT.

(* select(1) and select.1 : the word before ( or . is lexed as a Name, the statement is UNKNOWN *)
Theorem C18_rest_ignored_refuted : ~ C18_rest_ignored.
Proof.
  intros H.
  assert (E : exists s, cur_parse (x_select ++ 40 :: [49; 41])%N = Ok [s] /\ get_type s = Ok s_UNKNOWN)
    by (eexists; split; [vm_compute; reflexivity | vm_compute; reflexivity]).
  destruct E as (s & E1 & E2).
  specialize (H 40%N [49; 41]%N s [] eq_refl E1). rewrite E2 in H. discriminate H.
Qed.
Print Assumptions C18_rest_ignored_refuted.

Example C18_select_dot_unknown :
  exists s, cur_parse (x_select ++ [46; 49])%N = Ok [s] /\ get_type s = Ok s_UNKNOWN.
Proof. eexists; split; [vm_compute; reflexivity | vm_compute; reflexivity]. Qed.

(* drop::t : the typecast pass groups the keyword into an Identifier *)
Example C18_drop_typecast_unknown :
  exists s, cur_parse [100; 114; 111; 112; 58; 58; 116]%N = Ok [s] /\ get_type s = Ok s_UNKNOWN.
Proof. eexists; split; [vm_compute; reflexivity | vm_compute; reflexivity]. Qed.

Definition blank_run (l : text) : bool :=
  negb (match l with [] => true | _ => false end) && forallb (fun c => (c =? 32) || (c =? 9) || (c =? 10))%N l.

(* "for CREATE OR REPLACE the whole keyword", read as the three words joined by single blanks *)
Definition C18_create_or_replace : Prop :=
  forall sp1 sp2 s stmts, blank_run sp1 = true -> blank_run sp2 = true ->
    cur_parse (x_create ++ sp1 ++ x_or ++ sp2 ++ x_replace ++ x_view_tail) = Ok (s :: stmts) ->
    get_type s = Ok x_CREATE_OR_REPLACE.

(* create  or\n replace view v as select 1 : until Token.normalized collapsed the white space inside compound keywords
   (fix in /repo) the type string kept the whitespace as written and this witness REFUTED the statement above *)
Example C18_create_or_replace_ws_ex :
  exists s, cur_parse (x_create ++ [32; 32] ++ x_or ++ [10; 32] ++ x_replace ++ x_view_tail)%N = Ok [s]
            /\ get_type s = Ok x_CREATE_OR_REPLACE.
Proof. eexists; split; [vm_compute; reflexivity | vm_compute; reflexivity]. Qed.

(* token level, EVERY blank run: a DDL leaf spelled create<run>or<run>replace has the type CREATE OR REPLACE *)
Lemma blank_run_spec l : blank_run l = true ->
  l <> [] /\ Forall (fun c => c = 32 \/ c = 9 \/ c = 10)%N l.
Proof.
  unfold blank_run. intros H. apply andb_true_iff in H. destruct H as [H1 H2]. split.
  - destruct l; [discriminate|discriminate].
  - apply Forall_forall. intros c Hc. rewrite forallb_forall in H2. specialize (H2 c Hc).
    apply orb_true_iff in H2. destruct H2 as [H2|H2]; [apply orb_true_iff in H2; destruct H2 as [H2|H2]|];
      apply N.eqb_eq in H2; auto.
Qed.

Lemma upper_app a b : upper (a ++ b) = upper a ++ upper b.
Proof. unfold upper, py_upper. apply flat_map_app. Qed.

Lemma upper_blanks l : Forall (fun c => c = 32 \/ c = 9 \/ c = 10)%N l -> upper l = l.
Proof.
  induction 1 as [|c l Hc _ IH]; [reflexivity|].
  change (c :: l) with ([c] ++ l) at 1. rewrite upper_app, IH.
  destruct Hc as [-> | [-> | ->]]; reflexivity.
Qed.

Lemma js_go_blanks : forall l st r, Forall (fun c => c = 32 \/ c = 9 \/ c = 10)%N l -> l <> [] ->
  js_go space_set st (l ++ r) = js_go space_set (match st with JsStart => JsStart | _ => JsGap end) r.
Proof.
  induction l as [|c l IH]; intros st r H Hne; [congruence|].
  inversion H as [|? ? Hc Hl]; subst. cbn [app js_go].
  assert (E : cmem c space_set = true) by (destruct Hc as [-> | [-> | ->]]; reflexivity).
  rewrite E. destruct l as [|d l'].
  - reflexivity.
  - rewrite (IH _ r Hl) by discriminate. destruct st; reflexivity.
Qed.

Theorem knorm_create_or_replace : forall sp1 sp2, blank_run sp1 = true -> blank_run sp2 = true ->
  knorm (x_create ++ sp1 ++ x_or ++ sp2 ++ x_replace) = x_CREATE_OR_REPLACE.
Proof.
  intros sp1 sp2 H1 H2. destruct (blank_run_spec _ H1) as [N1 F1]. destruct (blank_run_spec _ H2) as [N2 F2].
  unfold knorm, join_split. rewrite !upper_app, (upper_blanks _ F1), (upper_blanks _ F2).
  change (upper x_create) with [67; 82; 69; 65; 84; 69]%N.
  change (upper x_or) with [79; 82]%N. change (upper x_replace) with [82; 69; 80; 76; 65; 67; 69]%N.
  cbn [app js_go cmem]. change (cmem 67 space_set) with false. change (cmem 82 space_set) with false.
  change (cmem 69 space_set) with false. change (cmem 65 space_set) with false. change (cmem 84 space_set) with false.
  cbv iota. rewrite (js_go_blanks sp1 JsWord _ F1 N1).
  cbn [app js_go]. change (cmem 79 space_set) with false. change (cmem 82 space_set) with false. cbv iota.
  rewrite (js_go_blanks sp2 JsWord _ F2 N2). vm_compute. reflexivity.
Qed.

Theorem C18_create_or_replace_token : forall c v pre sp1 sp2 rest,
  forallb skippable pre = true -> blank_run sp1 = true -> blank_run sp2 = true ->
  get_type (Grp c v (pre ++ Leaf T_DDL (x_create ++ sp1 ++ x_or ++ sp2 ++ x_replace) :: rest))
  = Ok x_CREATE_OR_REPLACE.
Proof.
  intros c v pre sp1 sp2 rest Hp H1 H2.
  rewrite (get_type_keyword c v pre T_DDL _ rest Hp (or_intror eq_refl)), (knorm_create_or_replace _ _ H1 H2).
  reflexivity.
Qed.
Print Assumptions C18_create_or_replace_token.

(* the hypotheses of the three positive theorems are met by parsed statements *)
Example get_type_keyword_ex :
  exists c v pre kw rest,
    cur_parse [32; 47; 42; 99; 42; 47; 10; 83; 101; 108; 101; 99; 116; 32; 49]%N     (*  /*c*/\nSelect 1 *)
      = Ok [Grp c v (pre ++ Leaf T_DML kw :: rest)]
    /\ forallb skippable pre = true /\ length pre = 2 /\ upper kw = x_SELECT.
Proof.
  exists CStatement. eexists.
  exists [Leaf T_Whitespace [32]%N;
          Grp CComment [47; 42; 99; 42; 47; 10]%N [Leaf T_CMultiline [47; 42; 99; 42; 47]%N; Leaf T_Newline [10]%N]].
  do 2 eexists. split; [vm_compute; reflexivity|]. split; [|split]; vm_compute; reflexivity.
Qed.

Example get_type_cte_ex :
  exists c v pre w mid I ws2 kw rest,
    cur_parse [119; 105; 116; 104; 32; 120; 32; 97; 115; 32; 40; 115; 101; 108; 101; 99; 116; 32; 49; 41; 32;
               100; 101; 108; 101; 116; 101; 32; 102; 114; 111; 109; 32; 116]%N
      (* with x as (select 1) delete from t *)
      = Ok [Grp c v (pre ++ Leaf T_CTE w :: mid ++ I :: ws2 ++ Leaf T_DML kw :: rest)]
    /\ forallb skippable pre = true /\ forallb (fun t => negb (is_cte_def t)) mid = true
    /\ is_cte_def I = true /\ forallb is_ws ws2 = true /\ upper kw = [68; 69; 76; 69; 84; 69]%N.
Proof.
  exists CStatement. eexists. exists []. eexists. exists [Leaf T_Whitespace [32]%N]. eexists.
  exists [Leaf T_Whitespace [32]%N]. do 2 eexists.
  split; [vm_compute; reflexivity|]. repeat split; vm_compute; reflexivity.
Qed.

(* ================================================================================================ *)
(* C12: names of identifier shapes                                                                  *)

(* ---- _get_first_name as a scan over the children ---------------------------------------------- *)
Fixpoint scan_names (keywords : bool) (g : node -> res (option text)) (l : list node) : res (option text) :=
  match l with
  | [] => Ok None
  | t :: l' =>
      if tt_among t (name_types keywords) then v <- remove_quotes (nvalue t) ;; Ok (Some v)
      else if inst_any t [CIdentifier; CFunction] then g t
      else scan_names keywords g l'
  end.

Lemma first_name_scan_combine kw g l : first_name_scan kw (combine l (map g l)) = scan_names kw g l.
Proof.
  induction l as [|t l IH]; [reflexivity|]. cbn [map combine first_name_scan scan_names].
  rewrite IH. reflexivity.
Qed.

Lemma combine_map_app {A B} (g : A -> B) a b :
  combine (a ++ b) (map g (a ++ b)) = combine a (map g a) ++ combine b (map g b).
Proof.
  induction a as [|x a IH]; [reflexivity|]. cbn [app map combine]. rewrite IH. reflexivity.
Qed.

Lemma rev_combine_map {A B} (g : A -> B) l : rev (combine l (map g l)) = combine (rev l) (map g (rev l)).
Proof.
  induction l as [|x l IH]; [reflexivity|]. cbn [map combine rev]. rewrite IH.
  rewrite combine_map_app. reflexivity.
Qed.

Lemma skipn_combine_map {A B} (g : A -> B) n l :
  skipn n (combine l (map g l)) = combine (skipn n l) (map g (skipn n l)).
Proof.
  revert l. induction n as [|n IH]; intros l; [reflexivity|].
  destruct l as [|x l]; [reflexivity|]. cbn [map combine skipn]. apply IH.
Qed.

Lemma slice_opt_combine_map {A B} (g : A -> B) idx l :
  slice_opt idx (combine l (map g l)) = combine (slice_opt idx l) (map g (slice_opt idx l)).
Proof.
  destruct idx as [[|k]|]; try reflexivity. unfold slice_opt. apply skipn_combine_map.
Qed.

Lemma first_name_spec idx rv kw g kids :
  first_name idx rv kw kids (map g kids) =
  scan_names kw g (if rv then rev (slice_opt idx kids) else slice_opt idx kids).
Proof.
  unfold first_name. rewrite slice_opt_combine_map. destruct rv.
  - rewrite rev_combine_map. apply first_name_scan_combine.
  - apply first_name_scan_combine.
Qed.

(* NameAliasMixin.get_alias in terms of the scan *)
Definition alias_spec (kids : list node) : res (option text) :=
  match next_by_m as_pat kids with
  | Some (k, _) => scan_names true get_name (skipn (S k) kids)
  | None =>
      match next_by_t T_Whitespace kids with
      | Some _ => if 2 <? length kids then scan_names false get_name (rev kids) else Ok None
      | None => Ok None
      end
  end.

Lemma alias_of_spec kids : alias_of kids (map get_name kids) = alias_spec kids.
Proof.
  unfold alias_of, alias_spec. destruct (next_by_m as_pat kids) as [[k t]|].
  - rewrite first_name_spec. reflexivity.
  - destruct (next_by_t T_Whitespace kids); [|reflexivity].
    destruct (2 <? length kids); [|reflexivity]. rewrite first_name_spec. reflexivity.
Qed.

Lemma get_real_name_eq c v kids :
  name_alias_cls c = true ->
  get_real_name (Grp c v kids) =
  scan_names false get_real_name (slice_opt (option_map fst (next_by_m dot_pat kids)) kids).
Proof. intros H. cbn [get_real_name]. rewrite H. rewrite first_name_spec. reflexivity. Qed.

Lemma get_alias_eq c v kids : name_alias_cls c = true -> get_alias (Grp c v kids) = alias_spec kids.
Proof. intros H. cbn [get_alias]. rewrite H. apply alias_of_spec. Qed.

Lemma get_name_eq c v kids :
  name_alias_cls c = true ->
  get_name (Grp c v kids) = py_or (alias_spec kids) (get_real_name (Grp c v kids)).
Proof. intros H. cbn [get_name]. rewrite H. rewrite alias_of_spec. reflexivity. Qed.

(* ---- the searches of the accessors as plain first-match searches ------------------------------- *)
Lemma find_aux_ext f g l b : (forall x, f x = g x) -> find_from_aux f l b = find_from_aux g l b.
Proof.
  intros H. revert b. induction l as [|x l IH]; intros b; [reflexivity|].
  cbn [find_from_aux]. rewrite H, IH. reflexivity.
Qed.

Lemma next_by_m_eq p l : next_by_m p l = find_from_aux (fun n => match_pat n p) l 0.
Proof.
  unfold next_by_m, next_by_from. rewrite find_from_0. apply find_aux_ext. intros x.
  unfold imt, inst_any, tmatch. cbn [existsb]. rewrite !orb_false_r. reflexivity.
Qed.

Lemma next_by_t_eq ty l : next_by_t ty l = find_from_aux (fun n => tt_in n ty) l 0.
Proof.
  unfold next_by_t, next_by_from. rewrite find_from_0. apply find_aux_ext. intros x.
  unfold imt, inst_any, tmatch. cbn [existsb]. reflexivity.
Qed.

Lemma next_by_i_eq c l : next_by_i c l = find_from_aux (fun n => inst n c) l 0.
Proof.
  unfold next_by_i, next_by_from. rewrite find_from_0. apply find_aux_ext. intros x.
  unfold imt, inst_any, tmatch. cbn [existsb]. rewrite !orb_false_r. reflexivity.
Qed.

(* ---- whitespace leaves are invisible to the name machinery ------------------------------------- *)
Lemma is_ws_inv t : is_ws t = true -> exists ty v, t = Leaf (Text :: Whitespace :: ty) v.
Proof.
  destruct t as [ty v | c v k]; [|discriminate]. unfold is_ws, tt_in, T_Whitespace. intros H.
  destruct ty as [|a ty]; [discriminate|]. destruct a; try discriminate.
  destruct ty as [|b ty]; [discriminate|]. destruct b; try discriminate.
  eauto.
Qed.

Lemma ws_not_name kw t : is_ws t = true -> tt_among t (name_types kw) = false.
Proof. intros H. apply is_ws_inv in H. destruct H as (ty & v & ->). destruct kw; reflexivity. Qed.

Lemma ws_not_inst cs t : is_ws t = true -> inst_any t cs = false.
Proof.
  intros H. apply is_ws_inv in H. destruct H as (ty & v & ->).
  induction cs as [|c cs IH]; [reflexivity|]. cbn [inst_any existsb inst orb]. exact IH.
Qed.

Lemma ws_not_pat t ty vals :
  is_ws t = true -> tin ty T_Whitespace = false -> match_pat t (ty, vals) = false.
Proof.
  intros H Hty. apply is_ws_inv in H. destruct H as (ty' & v & ->).
  unfold match_pat. cbn [fst].
  destruct (ttype_eqb (Text :: Whitespace :: ty') ty) eqn:E; [|reflexivity].
  apply ttype_eqb_eq in E. subst ty. unfold T_Whitespace in Hty. cbn [tin tcomp_eqb andb] in Hty.
  destruct ty'; discriminate Hty.
Qed.

Lemma scan_names_ws kw g w l : forallb is_ws w = true -> scan_names kw g (w ++ l) = scan_names kw g l.
Proof.
  induction w as [|t w IH]; intros H; [reflexivity|].
  cbn [forallb] in H. apply andb_true_iff in H. destruct H as [Ht Hw].
  cbn [app scan_names]. rewrite (ws_not_name kw t Ht), (ws_not_inst _ t Ht). apply IH. exact Hw.
Qed.

Lemma forallb_app_intro {A} (f : A -> bool) a b :
  forallb f a = true -> forallb f b = true -> forallb f (a ++ b) = true.
Proof. intros Ha Hb. rewrite forallb_app, Ha, Hb. reflexivity. Qed.

Lemma ws_forall_not_pat w ty vals :
  forallb is_ws w = true -> tin ty T_Whitespace = false ->
  forallb (fun t => negb (match_pat t (ty, vals))) w = true.
Proof.
  intros H Hty. rewrite forallb_forall in *. intros x Hx.
  rewrite (ws_not_pat x ty vals (H x Hx) Hty). reflexivity.
Qed.

(* ---- remove_quotes ------------------------------------------------------------------------------ *)
Lemma remove_quotes_ok v : v <> [] -> remove_quotes v = Ok (unquote v).
Proof. destruct v; [congruence | reflexivity]. Qed.

Lemma last_snoc {A} (l : list A) x d : last (l ++ [x]) d = x.
Proof. apply last_last. Qed.

(* a value written with surrounding double quotes / backticks / single quotes: the body *)
Lemma unquote_quoted q body : is_quote q = true -> unquote (q :: body ++ [q]) = body.
Proof.
  intros Hq. unfold unquote. rewrite Hq.
  replace (last (q :: body ++ [q]) q) with q.
  - rewrite N.eqb_refl. cbn [andb]. apply removelast_last.
  - change (q :: body ++ [q]) with ((q :: body) ++ [q]). rewrite last_last. reflexivity.
Qed.

Lemma unquote_dq body : unquote (34 :: body ++ [34])%N = body.
Proof. apply unquote_quoted. reflexivity. Qed.
Lemma unquote_bt body : unquote (96 :: body ++ [96])%N = body.
Proof. apply unquote_quoted. reflexivity. Qed.

(* a value that does not begin with a quote character is returned unchanged *)
Lemma unquote_plain c rest : is_quote c = false -> unquote (c :: rest) = c :: rest.
Proof. intros H. unfold unquote. rewrite H. reflexivity. Qed.

(* ---- aliases, for any head (name, qualified name, function call, parenthesis, ...) -------------- *)
Definition no_as (l : list node) : bool := forallb (fun t => negb (match_pat t as_pat)) l.
Definition as_leaf (askw : text) : node := Leaf T_Keyword askw.

Lemma upper_AS : upper s_AS = s_AS.
Proof. vm_compute. reflexivity. Qed.

Lemma as_leaf_match askw : upper askw = s_AS -> match_pat (as_leaf askw) as_pat = true.
Proof.
  intros H. unfold match_pat, as_leaf, as_pat, knorm. cbn [fst snd map existsb].
  rewrite H, upper_AS. reflexivity.
Qed.

Lemma skipn_S_app {A} (hd : list A) x rest : skipn (S (length hd)) (hd ++ x :: rest) = rest.
Proof.
  rewrite (snoc_app hd x rest). rewrite <- (snoc_len hd x). rewrite skipn_app, skipn_all, Nat.sub_diag.
  reflexivity.
Qed.

Lemma group_not_name kw t : is_group t = true -> tt_among t (name_types kw) = false.
Proof. destruct t; [discriminate | reflexivity]. Qed.

Lemma group_not_pat p t : is_group t = true -> match_pat t p = false.
Proof. destruct t; [discriminate | reflexivity]. Qed.

(* "head AS alias": the alias is get_name() of the first Identifier/Function group after AS *)
Theorem alias_as_general : forall c v hd askw ws2 tgt tl,
  name_alias_cls c = true -> no_as hd = true -> upper askw = s_AS -> forallb is_ws ws2 = true ->
  is_group tgt = true -> inst_any tgt [CIdentifier; CFunction] = true ->
  get_alias (Grp c v (hd ++ as_leaf askw :: ws2 ++ tgt :: tl)) = get_name tgt.
Proof.
  intros c v hd askw ws2 tgt tl Hc Hhd Has Hws Hg Hi.
  rewrite get_alias_eq by exact Hc. unfold alias_spec. rewrite next_by_m_eq.
  rewrite find_aux_first; [| exact Hhd | apply as_leaf_match; exact Has].
  cbn [Nat.add]. rewrite skipn_S_app. rewrite scan_names_ws by exact Hws.
  cbn [scan_names]. rewrite (group_not_name true tgt Hg), Hi. reflexivity.
Qed.
Print Assumptions alias_as_general.

Lemma existsb_find_aux f l b :
  existsb f l = true -> exists i t, find_from_aux f l b = Some (i, t).
Proof.
  revert b. induction l as [|x l IH]; intros b H; [discriminate|].
  cbn [existsb] in H. cbn [find_from_aux]. destruct (f x); [eauto|]. apply IH. exact H.
Qed.

(* "head alias": the alias is get_name() of the last child when that is an Identifier/Function group *)
Theorem alias_implicit_general : forall c v hd tgt,
  name_alias_cls c = true -> no_as hd = true -> existsb is_ws hd = true -> 2 <= length hd ->
  is_group tgt = true -> inst_any tgt [CIdentifier; CFunction] = true ->
  get_alias (Grp c v (hd ++ [tgt])) = get_name tgt.
Proof.
  intros c v hd tgt Hc Hhd Hws Hlen Hg Hi.
  rewrite get_alias_eq by exact Hc. unfold alias_spec. rewrite next_by_m_eq.
  rewrite find_aux_none.
  2:{ apply forallb_app_intro; [exact Hhd|]. cbn [forallb]. rewrite (group_not_pat as_pat tgt Hg). reflexivity. }
  rewrite next_by_t_eq.
  destruct (existsb_find_aux (fun n => tt_in n T_Whitespace) (hd ++ [tgt]) 0) as (i & t & E).
  { rewrite existsb_app. fold is_ws. rewrite Hws. reflexivity. }
  rewrite E. rewrite snoc_len.
  destruct (Nat.ltb_spec 2 (S (length hd))) as [_|Hbad]; [|lia].
  rewrite rev_app_distr. cbn [rev app scan_names].
  rewrite (group_not_name false tgt Hg), Hi. reflexivity.
Qed.
Print Assumptions alias_implicit_general.

(* no AS keyword leaf and either no whitespace child or at most two children: no alias *)
Theorem alias_none_general : forall c v kids,
  name_alias_cls c = true -> no_as kids = true ->
  existsb is_ws kids = false \/ length kids <= 2 ->
  get_alias (Grp c v kids) = Ok None.
Proof.
  intros c v kids Hc Hno H. rewrite get_alias_eq by exact Hc. unfold alias_spec.
  rewrite next_by_m_eq, find_aux_none by exact Hno. rewrite next_by_t_eq.
  destruct H as [H | H].
  - rewrite find_aux_none; [reflexivity|]. fold is_ws.
    rewrite forallb_forall. intros x Hx. apply negb_true_iff.
    destruct (is_ws x) eqn:E; [|exact E].
    assert (existsb is_ws kids = true) by (apply existsb_exists; eauto). congruence.
  - destruct (find_from_aux _ kids 0); [|reflexivity].
    destruct (Nat.ltb_spec 2 (length kids)); [lia | reflexivity].
Qed.

(* ---- the shapes the grouping produces for object references ------------------------------------ *)
(* a name token: Name (unquoted or backticks) or Literal.String.Symbol (double quotes) *)
Definition nm_tok (sym : bool) (v : text) : node := Leaf (if sym then T_Symbol else T_Name) v.
(* the alias as the grouping leaves it: a nested Identifier around the name token *)
Definition alias_node (cv : text) (sym : bool) (a : text) : node := Grp CIdentifier cv [nm_tok sym a].

Inductive alias_form :=
| NoAlias
| AsAlias (ws1 : list node) (askw : text) (ws2 : list node) (cv : text) (sym : bool) (a : text)
| ImplicitAlias (ws1 : list node) (cv : text) (sym : bool) (a : text).

Definition alias_part (af : alias_form) : list node :=
  match af with
  | NoAlias => []
  | AsAlias ws1 askw ws2 cv sym a => ws1 ++ as_leaf askw :: ws2 ++ [alias_node cv sym a]
  | ImplicitAlias ws1 cv sym a => ws1 ++ [alias_node cv sym a]
  end.

Definition qual_part (q : option (bool * text)) : list node :=
  match q with
  | Some (sym, v) => [nm_tok sym v; Leaf T_Punctuation s_dot]
  | None => []
  end.

Definition ident_kids (q : option (bool * text)) (sym : bool) (n : text) (af : alias_form) : list node :=
  qual_part q ++ nm_tok sym n :: alias_part af.

Definition ident_node (cv : text) (q : option (bool * text)) (sym : bool) (n : text) (af : alias_form) : node :=
  Grp CIdentifier cv (ident_kids q sym n af).

(* whitespace runs are lists of whitespace leaves; the run before an implicit alias is not empty;
   the keyword is AS in any spelling str.upper() maps to AS; written names are not empty *)
Definition alias_wf (af : alias_form) : Prop :=
  match af with
  | NoAlias => True
  | AsAlias ws1 askw ws2 _ _ a =>
      forallb is_ws ws1 = true /\ upper askw = s_AS /\ forallb is_ws ws2 = true /\ a <> []
  | ImplicitAlias ws1 _ _ a => ws1 <> [] /\ forallb is_ws ws1 = true /\ a <> []
  end.

Definition qual_wf (q : option (bool * text)) : Prop :=
  match q with Some (_, v) => v <> [] | None => True end.

Definition alias_text (af : alias_form) : option text :=
  match af with
  | NoAlias => None
  | AsAlias _ _ _ _ _ a => Some (unquote a)
  | ImplicitAlias _ _ _ a => Some (unquote a)
  end.

Lemma nm_tok_not_pat sym v ty vals :
  ttype_eqb T_Name ty = false -> ttype_eqb T_Symbol ty = false -> match_pat (nm_tok sym v) (ty, vals) = false.
Proof. intros H1 H2. unfold nm_tok, match_pat. cbn [fst]. destruct sym; [rewrite H2 | rewrite H1]; reflexivity. Qed.

Lemma nm_tok_name kw sym v : tt_among (nm_tok sym v) (name_types kw) = true.
Proof. destruct sym, kw; reflexivity. Qed.

Lemma nm_tok_not_ws sym v : is_ws (nm_tok sym v) = false.
Proof. destruct sym; reflexivity. Qed.

Lemma get_real_name_single cv sym a :
  a <> [] -> get_real_name (Grp CIdentifier cv [nm_tok sym a]) = Ok (Some (unquote a)).
Proof.
  intros Ha. rewrite get_real_name_eq by reflexivity. rewrite next_by_m_eq.
  cbn [find_from_aux]. unfold dot_pat. rewrite nm_tok_not_pat by reflexivity.
  cbn [option_map slice_opt scan_names]. rewrite nm_tok_name.
  assert (E : nvalue (nm_tok sym a) = a) by (destruct sym; reflexivity). rewrite E.
  rewrite remove_quotes_ok by exact Ha. reflexivity.
Qed.

Lemma get_name_alias_node cv sym a : a <> [] -> get_name (alias_node cv sym a) = Ok (Some (unquote a)).
Proof.
  intros Ha. unfold alias_node. rewrite get_name_eq by reflexivity.
  rewrite get_real_name_single by exact Ha.
  assert (E : alias_spec [nm_tok sym a] = Ok None).
  { unfold alias_spec. rewrite next_by_m_eq. cbn [find_from_aux]. unfold as_pat.
    rewrite nm_tok_not_pat by reflexivity. rewrite next_by_t_eq. cbn [find_from_aux].
    fold (is_ws (nm_tok sym a)). rewrite nm_tok_not_ws. reflexivity. }
  rewrite E. reflexivity.
Qed.

Lemma alias_node_inst cv sym a : inst_any (alias_node cv sym a) [CIdentifier; CFunction] = true.
Proof. reflexivity. Qed.

(* the parts of a reference contain no dot / no AS where they should not *)
Definition no_pat (p : pat) (l : list node) : bool := forallb (fun t => negb (match_pat t p)) l.

Lemma alias_part_no_dot af : alias_wf af -> no_pat dot_pat (alias_part af) = true.
Proof.
  unfold no_pat. destruct af as [|ws1 askw ws2 cv sym a | ws1 cv sym a]; intros H; [reflexivity| |].
  - destruct H as (H1 & _ & H2 & _). cbn [alias_part].
    apply forallb_app_intro; [apply ws_forall_not_pat; [exact H1 | reflexivity]|].
    cbn [forallb]. rewrite andb_true_iff. split; [reflexivity|].
    apply forallb_app_intro; [apply ws_forall_not_pat; [exact H2 | reflexivity] | reflexivity].
  - destruct H as (_ & H1 & _). cbn [alias_part].
    apply forallb_app_intro; [apply ws_forall_not_pat; [exact H1 | reflexivity] | reflexivity].
Qed.

Lemma qual_part_no_as q : no_as (qual_part q) = true.
Proof. destruct q as [[[|] v]|]; reflexivity. Qed.

Lemma qual_part_no_ws q : existsb is_ws (qual_part q) = false.
Proof. destruct q as [[[|] v]|]; reflexivity. Qed.

Lemma nm_tok_no_as sym v : match_pat (nm_tok sym v) as_pat = false.
Proof. apply nm_tok_not_pat; reflexivity. Qed.

Lemma nm_tok_no_dot sym v : match_pat (nm_tok sym v) dot_pat = false.
Proof. apply nm_tok_not_pat; reflexivity. Qed.

Lemma ws_no_as w : forallb is_ws w = true -> no_as w = true.
Proof. intros H. apply ws_forall_not_pat; [exact H | reflexivity]. Qed.

Lemma head_no_as q sym n w : forallb is_ws w = true -> no_as (qual_part q ++ nm_tok sym n :: w) = true.
Proof.
  intros H. unfold no_as. apply forallb_app_intro; [apply qual_part_no_as|].
  cbn [forallb]. rewrite nm_tok_no_as. apply ws_no_as. exact H.
Qed.

Lemma ident_kids_as q sym n ws1 askw ws2 cv sa a :
  ident_kids q sym n (AsAlias ws1 askw ws2 cv sa a) =
  (qual_part q ++ nm_tok sym n :: ws1) ++ as_leaf askw :: ws2 ++ alias_node cv sa a :: [].
Proof. unfold ident_kids. cbn [alias_part]. rewrite <- app_assoc. reflexivity. Qed.

Lemma ident_kids_implicit q sym n ws1 cv sa a :
  ident_kids q sym n (ImplicitAlias ws1 cv sa a) = (qual_part q ++ nm_tok sym n :: ws1) ++ [alias_node cv sa a].
Proof. unfold ident_kids. cbn [alias_part]. rewrite <- app_assoc. reflexivity. Qed.

(* C12, get_alias: the written alias with its quotes removed, None when none is written *)
Theorem C12_get_alias : forall cv q sym n af,
  alias_wf af -> get_alias (ident_node cv q sym n af) = Ok (alias_text af).
Proof.
  intros cv q sym n af Hwf. unfold ident_node.
  destruct af as [|ws1 askw ws2 cva sa a | ws1 cva sa a].
  - apply alias_none_general; [reflexivity | | left].
    + unfold ident_kids. cbn [alias_part]. apply (head_no_as q sym n []). reflexivity.
    + unfold ident_kids. cbn [alias_part]. rewrite existsb_app, qual_part_no_ws. cbn [existsb orb].
      rewrite nm_tok_not_ws. reflexivity.
  - destruct Hwf as (H1 & H2 & H3 & H4). rewrite ident_kids_as.
    rewrite alias_as_general; auto using head_no_as.
    apply get_name_alias_node. exact H4.
  - destruct Hwf as (H0 & H1 & H4). rewrite ident_kids_implicit.
    rewrite alias_implicit_general; auto using head_no_as.
    + apply get_name_alias_node. exact H4.
    + rewrite existsb_app. cbn [existsb]. destruct ws1 as [|w ws1]; [congruence|].
      cbn [forallb] in H1. apply andb_true_iff in H1. destruct H1 as [Hw _].
      cbn [existsb]. rewrite Hw. rewrite !orb_true_r. reflexivity.
    + rewrite app_length. cbn [length]. destruct ws1; [congruence|]. cbn [length]. lia.
Qed.
Print Assumptions C12_get_alias.

Theorem C12_has_alias : forall cv q sym n af,
  alias_wf af ->
  has_alias (ident_node cv q sym n af) = Ok (match af with NoAlias => false | _ => true end).
Proof.
  intros cv q sym n af Hwf. unfold has_alias. rewrite C12_get_alias by exact Hwf.
  destruct af; reflexivity.
Qed.
Print Assumptions C12_has_alias.

(* C12, get_real_name: the written name with its quotes removed (the token after the first dot) *)
Theorem C12_get_real_name : forall cv q sym n af,
  n <> [] -> alias_wf af -> get_real_name (ident_node cv q sym n af) = Ok (Some (unquote n)).
Proof.
  intros cv q sym n af Hn Hwf. unfold ident_node. rewrite get_real_name_eq by reflexivity.
  rewrite next_by_m_eq. unfold ident_kids.
  assert (Hscan : forall rest, scan_names false get_real_name (nm_tok sym n :: rest) = Ok (Some (unquote n))).
  { intros rest. cbn [scan_names]. rewrite nm_tok_name.
    assert (E : nvalue (nm_tok sym n) = n) by (destruct sym; reflexivity). rewrite E.
    rewrite remove_quotes_ok by exact Hn. reflexivity. }
  destruct q as [[sq qv]|]; cbn [qual_part app].
  - cbn [find_from_aux]. rewrite nm_tok_no_dot.
    assert (Ed : match_pat (Leaf T_Punctuation s_dot) dot_pat = true) by reflexivity. rewrite Ed.
    cbn [option_map fst slice_opt skipn scan_names].
    assert (E1 : tt_among (Leaf T_Punctuation s_dot) (name_types false) = false) by reflexivity.
    assert (E2 : inst_any (Leaf T_Punctuation s_dot) [CIdentifier; CFunction] = false) by reflexivity.
    rewrite E1, E2. apply Hscan.
  - rewrite find_aux_none.
    + cbn [option_map slice_opt]. apply Hscan.
    + cbn [forallb]. rewrite nm_tok_no_dot. apply (alias_part_no_dot af Hwf).
Qed.
Print Assumptions C12_get_real_name.

(* C12, get_parent_name: the written qualifier with its quotes removed, None when there is none *)
Theorem C12_get_parent_name : forall cv q sym n af,
  qual_wf q -> alias_wf af ->
  get_parent_name (ident_node cv q sym n af) = Ok (option_map (fun sv => unquote (snd sv)) q).
Proof.
  intros cv q sym n af Hq Hwf. unfold ident_node, get_parent_name. rewrite next_by_m_eq. unfold ident_kids.
  destruct q as [[sq qv]|]; cbn [qual_part app].
  - cbn [find_from_aux]. rewrite nm_tok_no_dot.
    assert (Ed : match_pat (Leaf T_Punctuation s_dot) dot_pat = true) by reflexivity. rewrite Ed.
    unfold token_prev, find_before. cbn [firstn find_last_aux].
    rewrite sm_tf, nm_tok_not_ws. cbn [negb option_map snd].
    assert (E : nvalue (nm_tok sq qv) = qv) by (destruct sq; reflexivity). rewrite E.
    cbn [qual_wf] in Hq. rewrite remove_quotes_ok by exact Hq. reflexivity.
  - rewrite find_aux_none; [reflexivity|].
    cbn [forallb]. rewrite nm_tok_no_dot. apply (alias_part_no_dot af Hwf).
Qed.
Print Assumptions C12_get_parent_name.

(* C12, get_name: the alias if one is written (and is not the empty string), else the name *)
Theorem C12_get_name : forall cv q sym n af,
  n <> [] -> alias_wf af ->
  get_name (ident_node cv q sym n af) =
  Ok (Some (match alias_text af with Some (x :: xs) => x :: xs | _ => unquote n end)).
Proof.
  intros cv q sym n af Hn Hwf.
  pose proof (C12_get_alias cv q sym n af Hwf) as Ha.
  pose proof (C12_get_real_name cv q sym n af Hn Hwf) as Hr.
  unfold ident_node in *. rewrite get_name_eq by reflexivity.
  rewrite get_alias_eq in Ha by reflexivity. rewrite Ha, Hr.
  unfold py_or, bind. destruct (alias_text af) as [[|x xs]|]; reflexivity.
Qed.
Print Assumptions C12_get_name.

(* ---- C12 for the three quotings x with/without qualifier x {no alias, AS alias, implicit alias} -- *)
Inductive quoting := QPlain | QDouble | QBacktick.

(* the token value as written *)
Definition written (s : quoting) (b : text) : text :=
  match s with
  | QPlain => b
  | QDouble => (34 :: b ++ [34])%N
  | QBacktick => (96 :: b ++ [96])%N
  end.
(* double-quoted names are Literal.String.Symbol tokens, the others Name tokens *)
Definition sym_of (s : quoting) : bool := match s with QDouble => true | _ => false end.

(* a written name is not empty; an unquoted one does not begin with a quote character *)
Definition body_ok (s : quoting) (b : text) : Prop :=
  b <> [] /\ (s = QPlain -> match b with c :: _ => is_quote c = false | [] => False end).

Inductive alias_kind := KNone | KAs (ws1 : list node) (askw : text) (ws2 : list node) | KImplicit (ws1 : list node).

Definition kind_wf (k : alias_kind) : Prop :=
  match k with
  | KNone => True
  | KAs ws1 askw ws2 => forallb is_ws ws1 = true /\ upper askw = s_AS /\ forallb is_ws ws2 = true
  | KImplicit ws1 => ws1 <> [] /\ forallb is_ws ws1 = true
  end.

Definition mk_alias (k : alias_kind) (cva : text) (sa : quoting) (ab : text) : alias_form :=
  match k with
  | KNone => NoAlias
  | KAs ws1 askw ws2 => AsAlias ws1 askw ws2 cva (sym_of sa) (written sa ab)
  | KImplicit ws1 => ImplicitAlias ws1 cva (sym_of sa) (written sa ab)
  end.

Definition has_kind (k : alias_kind) : bool := match k with KNone => false | _ => true end.

(* the Identifier for  [qualifier.]name [[AS] alias]  ; cv, cva: the cached values of the two groups *)
Definition ref_node (cv cva : text) (q : option (quoting * text)) (sn : quoting) (nb : text)
    (k : alias_kind) (sa : quoting) (ab : text) : node :=
  ident_node cv (option_map (fun sb : quoting * text => (sym_of (fst sb), written (fst sb) (snd sb))) q)
             (sym_of sn) (written sn nb) (mk_alias k cva sa ab).

Lemma written_nonempty s b : b <> [] -> written s b <> [].
Proof. destruct s; cbn [written]; [auto | discriminate | discriminate]. Qed.

Lemma unquote_written s b : body_ok s b -> unquote (written s b) = b.
Proof.
  intros [Hb Hp]. destruct s; cbn [written].
  - destruct b as [|c b]; [congruence|]. apply unquote_plain. apply Hp. reflexivity.
  - apply unquote_dq.
  - apply unquote_bt.
Qed.

Theorem C12_reference : forall cv cva q sn nb k sa ab,
  body_ok sn nb ->
  match q with Some (sq, qb) => body_ok sq qb | None => True end ->
  (has_kind k = true -> body_ok sa ab) -> kind_wf k ->
  let r := ref_node cv cva q sn nb k sa ab in
  get_real_name r = Ok (Some nb) /\
  get_parent_name r = Ok (option_map snd q) /\
  get_alias r = Ok (if has_kind k then Some ab else None) /\
  has_alias r = Ok (has_kind k) /\
  get_name r = Ok (Some (if has_kind k then ab else nb)).
Proof.
  intros cv cva q sn nb k sa ab Hn Hq Ha Hk r. subst r. unfold ref_node.
  assert (Hwf : alias_wf (mk_alias k cva sa ab)).
  { destruct k as [|ws1 askw ws2 | ws1]; cbn [mk_alias alias_wf]; [exact I | |].
    - destruct Hk as (H1 & H2 & H3). repeat split; auto.
      apply written_nonempty. apply (Ha eq_refl).
    - destruct Hk as (H1 & H2). repeat split; auto. apply written_nonempty. apply (Ha eq_refl). }
  assert (Hnn : written sn nb <> []) by (apply written_nonempty; apply Hn).
  assert (Hat : alias_text (mk_alias k cva sa ab) = if has_kind k then Some ab else None).
  { destruct k; cbn [mk_alias alias_text has_kind]; [reflexivity | |];
      rewrite unquote_written by (apply Ha; reflexivity); reflexivity. }
  repeat split.
  - rewrite C12_get_real_name by assumption. rewrite unquote_written by exact Hn. reflexivity.
  - rewrite C12_get_parent_name; [| | exact Hwf].
    + destruct q as [[sq qb]|]; cbn [option_map fst snd]; [|reflexivity].
      rewrite unquote_written by exact Hq. reflexivity.
    + destruct q as [[sq qb]|]; cbn [option_map qual_wf fst snd]; [|exact I].
      apply written_nonempty. apply Hq.
  - rewrite C12_get_alias by exact Hwf. rewrite Hat. reflexivity.
  - rewrite C12_has_alias by exact Hwf. destruct k; reflexivity.
  - rewrite C12_get_name by assumption. rewrite Hat. rewrite unquote_written by exact Hn.
    destruct (has_kind k) eqn:E; [|reflexivity].
    destruct ab as [|x xs]; [|reflexivity]. destruct (Ha eq_refl) as [Hab _]. congruence.
Qed.
Print Assumptions C12_reference.

(* the shapes are what parsing produces: the select-list / FROM item of a parsed statement *)
Definition child_at (i : nat) (r : res (list node)) : option node :=
  match r with
  | Ok [Grp _ _ kids] => nth_error kids i
  | _ => None
  end.
Definition sp := Leaf T_Whitespace [32]%N.

(* select a from t *)
Example C12_shape_plain :
  child_at 2 (cur_parse [115; 101; 108; 101; 99; 116; 32; 97; 32; 102; 114; 111; 109; 32; 116]%N)
  = Some (ref_node [97]%N [] None QPlain [97]%N KNone QPlain []).
Proof. vm_compute. reflexivity. Qed.

(* select "S"."T" AS `al` from t *)
Example C12_shape_quoted_as :
  child_at 2 (cur_parse [115; 101; 108; 101; 99; 116; 32; 34; 83; 34; 46; 34; 84; 34; 32; 65; 83; 32; 96; 97;
                         108; 96; 32; 102; 114; 111; 109; 32; 116]%N)
  = Some (ref_node [34; 83; 34; 46; 34; 84; 34; 32; 65; 83; 32; 96; 97; 108; 96]%N [96; 97; 108; 96]%N
            (Some (QDouble, [83]%N)) QDouble [84]%N (KAs [sp] [65; 83]%N [sp]) QBacktick [97; 108]%N).
Proof. vm_compute. reflexivity. Qed.

(* select s.a  x from t   (two blanks are two whitespace tokens) *)
Example C12_shape_implicit :
  child_at 2 (cur_parse [115; 101; 108; 101; 99; 116; 32; 115; 46; 97; 32; 32; 120; 32; 102; 114; 111; 109; 32; 116]%N)
  = Some (ref_node [115; 46; 97; 32; 32; 120]%N [120]%N (Some (QPlain, [115]%N)) QPlain [97]%N
            (KImplicit [sp; sp]) QPlain [120]%N).
Proof. vm_compute. reflexivity. Qed.

Example C12_reference_ex :
  let r := ref_node [34; 83; 34; 46; 34; 84; 34; 32; 65; 83; 32; 96; 97; 108; 96]%N [96; 97; 108; 96]%N
            (Some (QDouble, [83]%N)) QDouble [84]%N (KAs [sp] [65; 83]%N [sp]) QBacktick [97; 108]%N in
  get_real_name r = Ok (Some [84]%N) /\ get_parent_name r = Ok (Some [83]%N) /\
  get_alias r = Ok (Some [97; 108]%N) /\ has_alias r = Ok true /\ get_name r = Ok (Some [97; 108]%N).
Proof.
  apply C12_reference; cbn [has_kind kind_wf]; repeat split; try discriminate; try reflexivity.
Qed.

(* ---- function and parenthesis targets ------------------------------------------------------------ *)
(* f(x) y : Identifier [Function [Identifier [f]; Parenthesis]; ws; Identifier [y]] *)
Theorem C12_function_target : forall cv fv cvf sf f frest af,
  f <> [] -> alias_wf af -> no_pat dot_pat frest = true ->
  let fn := Grp CFunction fv (alias_node cvf sf f :: frest) in
  let r := Grp CIdentifier cv (fn :: alias_part af) in
  get_real_name r = Ok (Some (unquote f)) /\ get_parent_name r = Ok None /\ get_alias r = Ok (alias_text af).
Proof.
  intros cv fv cvf sf f frest af Hf Hwf Hfr fn r. subst r.
  assert (Hfn : get_real_name fn = Ok (Some (unquote f))).
  { subst fn. rewrite get_real_name_eq by reflexivity. rewrite next_by_m_eq.
    rewrite find_aux_none by (cbn [forallb]; exact Hfr).
    cbn [option_map slice_opt scan_names].
    assert (E1 : tt_among (alias_node cvf sf f) (name_types false) = false) by reflexivity.
    rewrite E1, alias_node_inst. apply get_real_name_single. exact Hf. }
  assert (Hnd : no_pat dot_pat (fn :: alias_part af) = true).
  { unfold no_pat. cbn [forallb]. apply (alias_part_no_dot af Hwf). }
  repeat split.
  - rewrite get_real_name_eq by reflexivity. rewrite next_by_m_eq. rewrite find_aux_none by exact Hnd.
    cbn [option_map slice_opt scan_names].
    assert (E1 : tt_among fn (name_types false) = false) by reflexivity.
    assert (E2 : inst_any fn [CIdentifier; CFunction] = true) by reflexivity.
    rewrite E1, E2. exact Hfn.
  - unfold get_parent_name. rewrite next_by_m_eq. rewrite find_aux_none by exact Hnd. reflexivity.
  - destruct af as [|ws1 askw ws2 cva sa a | ws1 cva sa a].
    + apply alias_none_general; [reflexivity | reflexivity | right; cbn [alias_part length]; lia].
    + destruct Hwf as (H1 & H2 & H3 & H4). cbn [alias_part alias_text].
      change (fn :: ws1 ++ as_leaf askw :: ws2 ++ [alias_node cva sa a])
        with ((fn :: ws1) ++ as_leaf askw :: ws2 ++ alias_node cva sa a :: []).
      rewrite alias_as_general; auto.
      * apply get_name_alias_node. exact H4.
      * unfold no_as. cbn [forallb]. apply ws_no_as. exact H1.
    + destruct Hwf as (H0 & H1 & H4). cbn [alias_part alias_text].
      change (fn :: ws1 ++ [alias_node cva sa a]) with ((fn :: ws1) ++ [alias_node cva sa a]).
      rewrite alias_implicit_general; auto.
      * apply get_name_alias_node. exact H4.
      * unfold no_as. cbn [forallb]. apply ws_no_as. exact H1.
      * cbn [existsb]. destruct ws1 as [|w ws1]; [congruence|].
        cbn [forallb] in H1. apply andb_true_iff in H1. destruct H1 as [Hw _].
        cbn [existsb]. rewrite Hw. rewrite orb_true_r. reflexivity.
      * destruct ws1; [congruence|]. cbn [length]. lia.
Qed.
Print Assumptions C12_function_target.

(* select f(x) y from t *)
Example C12_shape_function :
  exists cv fv cvf frest,
    child_at 2 (cur_parse [115; 101; 108; 101; 99; 116; 32; 102; 40; 120; 41; 32; 121; 32; 102; 114; 111; 109; 32; 116]%N)
    = Some (Grp CIdentifier cv (Grp CFunction fv (alias_node cvf false [102]%N :: frest)
                                 :: alias_part (ImplicitAlias [sp] [121]%N false [121]%N)))
    /\ no_pat dot_pat frest = true.
Proof. do 4 eexists. split; [vm_compute; reflexivity | vm_compute; reflexivity]. Qed.

(* ================================================================================================ *)
(* C13: get_identifiers, get_parameters, get_cases, left / right                                    *)

Lemma map_snd_indexed_from {A} i (l : list A) : map snd (indexed_from i l) = l.
Proof. revert i. induction l as [|x l IH]; intros i; [reflexivity|]. cbn [indexed_from map snd]. rewrite IH. reflexivity. Qed.

Lemma filter_indexed_from {A} (f : A -> bool) i (l : list A) :
  map snd (filter (fun it => f (snd it)) (indexed_from i l)) = filter f l.
Proof.
  revert i. induction l as [|x l IH]; intros i; [reflexivity|].
  cbn [indexed_from filter snd]. destruct (f x); cbn [map snd]; rewrite IH; reflexivity.
Qed.

Lemma indexed_from_nth {A} i (l : list A) it :
  In it (indexed_from i l) -> i <= fst it /\ nth_error l (fst it - i) = Some (snd it).
Proof.
  revert i. induction l as [|x l IH]; intros i H; [destruct H|].
  cbn [indexed_from] in H. destruct H as [<- | H].
  - cbn [fst snd]. rewrite Nat.sub_diag. split; [lia | reflexivity].
  - apply IH in H. destruct H as [H1 H2]. split; [lia|].
    replace (fst it - i) with (S (fst it - S i)) by lia. exact H2.
Qed.

(* get_identifiers: exactly the children that are neither whitespace nor the ',' punctuation,
   in order, each with its position *)
Theorem get_identifiers_spec : forall kids,
  map snd (get_identifiers kids) = filter ident_item kids /\
  Forall (fun it => nth_error kids (fst it) = Some (snd it)) (get_identifiers kids).
Proof.
  intros kids. split.
  - unfold get_identifiers, indexed. apply filter_indexed_from.
  - apply Forall_forall. intros it H. unfold get_identifiers in H. apply filter_In in H.
    destruct H as [H _]. apply indexed_from_nth in H. rewrite Nat.sub_0_r in H. apply H.
Qed.
Print Assumptions get_identifiers_spec.

(* item (sep item)* : the items, in order *)
Definition id_list (x : node) (rest : list (list node * node)) : list node :=
  x :: flat_map (fun p => fst p ++ [snd p]) rest.

Theorem get_identifiers_items : forall x rest,
  ident_item x = true ->
  Forall (fun p => forallb (fun t => negb (ident_item t)) (fst p) = true /\ ident_item (snd p) = true) rest ->
  map snd (get_identifiers (id_list x rest)) = x :: map snd rest.
Proof.
  intros x rest Hx Hrest. rewrite (proj1 (get_identifiers_spec _)). unfold id_list.
  cbn [filter]. rewrite Hx. f_equal.
  induction Hrest as [|[sep it] rest [Hs Hi] _ IH]; [reflexivity|].
  cbn [flat_map fst snd map]. rewrite !filter_app. cbn [filter]. cbn [fst snd] in Hs, Hi. rewrite Hi, IH.
  assert (E : filter ident_item sep = []).
  { clear -Hs. induction sep as [|t sep IHs]; [reflexivity|]. cbn [forallb] in Hs.
    apply andb_true_iff in Hs. destruct Hs as [Ht Hs]. apply negb_true_iff in Ht.
    cbn [filter]. rewrite Ht. apply IHs. exact Hs. }
  rewrite E. reflexivity.
Qed.
Print Assumptions get_identifiers_items.

(* select a, b from t : the select list is an IdentifierList of that shape *)
Example get_identifiers_items_ex :
  exists cv x rest,
    child_at 2 (cur_parse [115; 101; 108; 101; 99; 116; 32; 97; 44; 32; 98; 32; 102; 114; 111; 109; 32; 116]%N)
    = Some (Grp CIdentifierList cv (id_list x rest))
    /\ ident_item x = true
    /\ Forall (fun p => forallb (fun t => negb (ident_item t)) (fst p) = true /\ ident_item (snd p) = true) rest
    /\ map text_of (x :: map snd rest) = [[97]; [98]]%N.
Proof.
  eexists. exists (Grp CIdentifier [97]%N [Leaf T_Name [97]%N]).
  exists [([Leaf T_Punctuation [44]%N; sp], Grp CIdentifier [98]%N [Leaf T_Name [98]%N])].
  split; [vm_compute; reflexivity|]. split; [reflexivity|]. split; [|reflexivity].
  constructor; [split; reflexivity | constructor].
Qed.

(* ---- Comparison.left / right ------------------------------------------------------------------- *)
Theorem comparison_operands : forall l mid r,
  cmp_left (l :: mid ++ [r]) = Ok (0, l) /\ cmp_right (l :: mid ++ [r]) = Ok (S (length mid), r).
Proof.
  intros l mid r. split; [reflexivity|]. unfold cmp_right, last_indexed.
  change (l :: mid ++ [r]) with ((l :: mid) ++ [r]). rewrite rev_app_distr. cbn [rev app].
  cbn [length pred]. rewrite app_length. cbn [length]. f_equal. f_equal. lia.
Qed.

Theorem comparison_total : forall kids, kids <> [] ->
  (exists it, cmp_left kids = Ok it) /\ (exists it, cmp_right kids = Ok it).
Proof.
  intros kids H. split.
  - destruct kids; [congruence | eexists; reflexivity].
  - unfold cmp_right, last_indexed. destruct (rev kids) eqn:E; [|eexists; reflexivity].
    apply (f_equal (@rev node)) in E. rewrite rev_involutive in E. cbn [rev] in E. congruence.
Qed.

(* select 1 from t where a.b >= f(x) *)
Example comparison_operands_ex :
  exists s wh cmp l mid r,
    cur_parse [115; 101; 108; 101; 99; 116; 32; 49; 32; 102; 114; 111; 109; 32; 116; 32; 119; 104; 101; 114; 101; 32;
               97; 46; 98; 32; 62; 61; 32; 102; 40; 120; 41]%N = Ok [s]
    /\ nth_error (nkids s) 8 = Some wh /\ nth_error (nkids wh) 2 = Some cmp
    /\ cmp = Grp CComparison (nvalue cmp) (l :: mid ++ [r])
    /\ text_of l = [97; 46; 98]%N /\ text_of r = [102; 40; 120; 41]%N.
Proof.
  do 3 eexists. eexists. exists [sp; Leaf T_Comparison [62; 61]%N; sp]. eexists.
  split; [vm_compute; reflexivity|]. split; [vm_compute; reflexivity|]. split; [vm_compute; reflexivity|].
  split; [vm_compute; reflexivity|]. split; vm_compute; reflexivity.
Qed.

(* ---- Function.get_parameters --------------------------------------------------------------------- *)
Definition res_map {A B} (f : A -> B) (r : res A) : res B :=
  match r with Ok a => Ok (f a) | Err e => Err e end.

(* what the loop over the parenthesis returns, as tokens: the identifiers of the first IdentifierList
   child if there is one (everything else is dropped), else the children that are Function /
   Identifier / TypedLiteral groups or Literal leaves *)
Definition params_nodes (pk : list node) : list node :=
  match find (fun t => inst t CIdentifierList) pk with
  | Some L => filter ident_item (nkids L)
  | None => filter param_item pk
  end.

Lemma params_scan_spec p l : forall i acc,
  map snd (params_scan p (indexed_from i l) acc) =
  match find (fun t => inst t CIdentifierList) l with
  | Some L => filter ident_item (nkids L)
  | None => rev (map snd acc) ++ filter param_item l
  end.
Proof.
  induction l as [|t l IH]; intros i acc.
  - cbn [indexed_from params_scan find filter]. rewrite map_rev, app_nil_r. reflexivity.
  - cbn [indexed_from params_scan find filter]. destruct (inst t CIdentifierList).
    + rewrite map_map. cbn [snd]. apply (proj1 (get_identifiers_spec _)).
    + destruct (param_item t).
      * rewrite IH. destruct (find _ l); [reflexivity|].
        cbn [map snd rev]. rewrite <- app_assoc. reflexivity.
      * apply IH.
Qed.

Theorem get_parameters_spec : forall kids,
  res_map (map snd) (get_parameters kids) =
  match next_by_i CParenthesis kids with
  | Some (_, par) => Ok (params_nodes (nkids par))
  | None => Err AttributeError
  end.
Proof.
  intros kids. unfold get_parameters. destruct (next_by_i CParenthesis kids) as [[p par]|]; [|reflexivity].
  cbn [res_map]. unfold indexed. rewrite params_scan_spec. unfold params_nodes.
  destruct (find _ (nkids par)); reflexivity.
Qed.
Print Assumptions get_parameters_spec.

(* f(arg): a sole argument is returned exactly when it is a Function / Identifier / TypedLiteral
   group or a Literal leaf; anything else (an Operation such as a+1, a keyword such as NULL, the
   wildcard, a Parenthesis, a Case, a Comparison, a placeholder ...) is dropped *)
Theorem get_parameters_partial : forall hd pv lpv arg rpv tl,
  forallb (fun t => negb (inst t CParenthesis)) hd = true ->
  inst arg CIdentifierList = false ->
  res_map (map snd)
    (get_parameters (hd ++ Grp CParenthesis pv [Leaf T_Punctuation lpv; arg; Leaf T_Punctuation rpv] :: tl))
  = Ok (if param_item arg then [arg] else []).
Proof.
  intros hd pv lpv arg rpv tl Hhd Harg. rewrite get_parameters_spec. rewrite next_by_i_eq.
  rewrite find_aux_first; [| exact Hhd | reflexivity].
  unfold params_nodes. cbn [nkids find]. rewrite Harg.
  assert (E1 : forall x, inst (Leaf T_Punctuation x) CIdentifierList = false) by reflexivity.
  assert (E2 : forall x, param_item (Leaf T_Punctuation x) = false) by reflexivity.
  rewrite !E1. cbn [filter]. rewrite !E2. destruct (param_item arg); reflexivity.
Qed.
Print Assumptions get_parameters_partial.

(* f(a, b, ...): the argument list is one IdentifierList; its items are returned *)
Theorem get_parameters_list : forall hd pv lpv lv items rpv tl,
  forallb (fun t => negb (inst t CParenthesis)) hd = true ->
  res_map (map snd)
    (get_parameters (hd ++ Grp CParenthesis pv [Leaf T_Punctuation lpv; Grp CIdentifierList lv items;
                                               Leaf T_Punctuation rpv] :: tl))
  = Ok (filter ident_item items).
Proof.
  intros hd pv lpv lv items rpv tl Hhd. rewrite get_parameters_spec. rewrite next_by_i_eq.
  rewrite find_aux_first; [| exact Hhd | reflexivity]. reflexivity.
Qed.

(* "a call f(a, b, ...) is a Function whose get_parameters() yields the written arguments", for
   select f(<arg>) : the texts of the returned tokens make up the written argument *)
Definition x_select_f := [115; 101; 108; 101; 99; 116; 32; 102; 40]%N.        (* select f( *)
Definition C13_sole_argument (arg : text) : Prop :=
  forall s fn l, cur_parse (x_select_f ++ arg ++ [41]%N) = Ok [s] -> nth_error (nkids s) 2 = Some fn ->
    get_parameters (nkids fn) = Ok l -> text_of_list (map snd l) = arg.

Lemma sole_argument_dropped arg :
  arg <> [] ->
  (exists s fn, cur_parse (x_select_f ++ arg ++ [41]%N) = Ok [s] /\ nth_error (nkids s) 2 = Some fn
                /\ inst fn CFunction = true /\ get_parameters (nkids fn) = Ok []) ->
  ~ C13_sole_argument arg.
Proof.
  intros Ha (s & fn & E1 & E2 & _ & E3) H. specialize (H s fn [] E1 E2 E3). cbn in H. congruence.
Qed.

(* f(a+1), f(NULL), f( * ) as in count( * ): the sole argument is dropped *)
Theorem get_parameters_refuted :
  ~ C13_sole_argument [97; 43; 49]%N /\ ~ C13_sole_argument [78; 85; 76; 76]%N /\ ~ C13_sole_argument [42]%N.
Proof.
  repeat split; (apply sole_argument_dropped; [discriminate|]);
    do 2 eexists; (split; [vm_compute; reflexivity|]); (split; [vm_compute; reflexivity|]);
    (split; [vm_compute; reflexivity|]); vm_compute; reflexivity.
Qed.
Print Assumptions get_parameters_refuted.

(* ... while f(a) and f(a, b) are returned as written *)
Example get_parameters_ok_ex :
  (exists s fn l, cur_parse (x_select_f ++ [97] ++ [41])%N = Ok [s] /\ nth_error (nkids s) 2 = Some fn
                  /\ get_parameters (nkids fn) = Ok l /\ map text_of (map snd l) = [[97]]%N) /\
  (exists s fn l, cur_parse (x_select_f ++ [97; 44; 32; 98] ++ [41])%N = Ok [s] /\ nth_error (nkids s) 2 = Some fn
                  /\ get_parameters (nkids fn) = Ok l /\ map text_of (map snd l) = [[97]; [98]]%N).
Proof.
  split; do 3 eexists; (split; [vm_compute; reflexivity|]); (split; [vm_compute; reflexivity|]);
    (split; [vm_compute; reflexivity|]); vm_compute; reflexivity.
Qed.

(* ---- Case.get_cases ------------------------------------------------------------------------------ *)
(* transport along a map of the items that keeps the token *)
Section CasesNat.
Context {T U : Type}.
Variable ndT : T -> node.
Variable ndU : U -> node.
Variable g : T -> U.
Hypothesis Hg : forall x, ndU (g x) = ndT x.

Definition map_entry (e : @centry T) : @centry U := (option_map (map g) (fst e), map g (snd e)).
Definition map_state (st : cmode * list (@centry T)) : cmode * list (@centry U) :=
  (fst st, map map_entry (snd st)).

Lemma case_step_nat s st it :
  case_step ndU s (map_state st) (g it) = res_map map_state (case_step ndT s st it).
Proof.
  destruct st as [mode ret]. unfold case_step, map_state. cbn [fst snd]. rewrite Hg.
  destruct (match_pat (ndT it) (kw_pat s_CASE)); [reflexivity|].
  destruct (s && tt_in (ndT it) T_Whitespace); [reflexivity|].
  destruct (match_pat (ndT it) (kw_pat s_WHEN)); [reflexivity|].
  destruct (match_pat (ndT it) (kw_pat s_THEN)).
  { cbn [fst snd]. destruct ret as [|[[c|] v] r]; reflexivity. }
  destruct (match_pat (ndT it) (kw_pat s_ELSE)); [reflexivity|].
  destruct (match_pat (ndT it) (kw_pat s_END)).
  { cbn [fst snd]. reflexivity. }
  cbn [fst snd]. destruct mode; destruct ret as [|[[c|] v] r]; reflexivity.
Qed.

Lemma cases_fold_nat s l : forall st,
  cases_fold ndU s (map g l) (map_state st) = res_map map_state (cases_fold ndT s l st).
Proof.
  induction l as [|it l IH]; intros st; [reflexivity|].
  cbn [map cases_fold]. rewrite case_step_nat.
  destruct (case_step ndT s st it) as [st'|e]; [|reflexivity]. cbn [res_map bind]. apply IH.
Qed.

Lemma finish_cases_nat ret : finish_cases (map map_entry ret) = map map_entry (finish_cases ret).
Proof.
  unfold finish_cases. rewrite map_rev. f_equal. rewrite !map_map. apply map_ext.
  intros [c v]. unfold map_entry. cbn [fst snd]. rewrite map_rev. f_equal.
  destruct c as [c|]; [|reflexivity]. cbn [option_map]. rewrite map_rev. reflexivity.
Qed.

Lemma cases_of_nat s l :
  cases_of ndU s (map g l) = res_map (map map_entry) (cases_of ndT s l).
Proof.
  unfold cases_of. change (MCond, @nil (@centry U)) with (map_state (MCond, @nil (@centry T))).
  rewrite cases_fold_nat. destruct (cases_fold ndT s l (MCond, [])) as [st|e]; [|reflexivity].
  cbn [res_map bind map_state snd]. rewrite finish_cases_nat. reflexivity.
Qed.
End CasesNat.

Definition node_id (t : node) : node := t.

(* get_cases as tokens: forget the positions *)
Theorem get_cases_tokens : forall s kids,
  res_map (map (map_entry (@snd nat node))) (get_cases s kids) = cases_of node_id s kids.
Proof.
  intros s kids. unfold get_cases.
  rewrite <- (cases_of_nat (@snd nat node) node_id (@snd nat node)) by reflexivity.
  unfold indexed. rewrite map_snd_indexed_from. reflexivity.
Qed.

(* keyword leaves of a CASE expression, in any spelling str.upper() maps to the keyword *)
Definition kw_leaf (v : text) : node := Leaf T_Keyword v.
Definition case_kw (t : node) : bool :=
  match_pat t (kw_pat s_CASE) || match_pat t (kw_pat s_WHEN) || match_pat t (kw_pat s_THEN) ||
  match_pat t (kw_pat s_ELSE) || match_pat t (kw_pat s_END).
(* what get_cases(skip_ws) keeps of a run of ordinary tokens *)
Definition keep (s : bool) (t : node) : bool := negb (s && tt_in t T_Whitespace).

Lemma upper_case_kws :
  upper s_CASE = s_CASE /\ upper s_WHEN = s_WHEN /\ upper s_THEN = s_THEN /\ upper s_ELSE = s_ELSE /\
  upper s_END = s_END.
Proof. repeat split; vm_compute; reflexivity. Qed.

Lemma kw_leaf_match v k : match_pat (kw_leaf v) (kw_pat k) = text_eqb (knorm v) (upper k).
Proof. unfold match_pat, kw_leaf, kw_pat. cbn [fst snd map existsb ttype_eqb T_Keyword tcomp_eqb tin andb]. rewrite orb_false_r. reflexivity. Qed.

Lemma text_eqb_refl t : text_eqb t t = true.
Proof. apply text_eqb_eq. reflexivity. Qed.

Section CaseSteps.
Variable s : bool.
Notation step := (case_step node_id s).
Notation fold := (cases_fold node_id s).

Lemma step_plain mode ret t :
  case_kw t = false ->
  step (mode, ret) t =
  if keep s t then
    match mode, ret with
    | MNone, _ => Ok (MNone, ret)
    | MCond, [] => Ok (MCond, [(Some [t], [])])
    | MCond, (Some c, v) :: r => Ok (MCond, (Some (t :: c), v) :: r)
    | MCond, (None, _) :: _ => Err AttributeError
    | MVal, [] => Ok (MVal, [(Some [], [t])])
    | MVal, (c, v) :: r => Ok (MVal, (c, t :: v) :: r)
    end
  else Ok (mode, ret).
Proof.
  unfold case_kw. intros H. apply orb_false_iff in H. destruct H as [H H5].
  apply orb_false_iff in H. destruct H as [H H4]. apply orb_false_iff in H. destruct H as [H H3].
  apply orb_false_iff in H. destruct H as [H1 H2].
  unfold case_step, keep, node_id. cbn [fst snd]. rewrite H1, H2, H3, H4, H5.
  destruct (s && tt_in t T_Whitespace); cbn [negb]; [reflexivity|].
  cbn [fst snd]. destruct mode; destruct ret as [|[[c|] v] r]; reflexivity.
Qed.

(* a run of ordinary tokens while collecting a condition *)
Lemma fold_plain_cond p : forall c v r,
  forallb (fun t => negb (case_kw t)) p = true ->
  fold p (MCond, (Some c, v) :: r) = Ok (MCond, (Some (rev (filter (keep s) p) ++ c), v) :: r).
Proof.
  induction p as [|t p IH]; intros c v r H; [reflexivity|].
  cbn [forallb] in H. apply andb_true_iff in H. destruct H as [Ht Hp]. apply negb_true_iff in Ht.
  cbn [cases_fold filter]. rewrite (step_plain _ _ _ Ht). destruct (keep s t); cbn [bind].
  - rewrite IH by exact Hp. cbn [rev]. rewrite <- app_assoc. reflexivity.
  - apply IH. exact Hp.
Qed.

(* ... a value *)
Lemma fold_plain_val p : forall c v r,
  forallb (fun t => negb (case_kw t)) p = true ->
  fold p (MVal, (c, v) :: r) = Ok (MVal, (c, rev (filter (keep s) p) ++ v) :: r).
Proof.
  induction p as [|t p IH]; intros c v r H; [reflexivity|].
  cbn [forallb] in H. apply andb_true_iff in H. destruct H as [Ht Hp]. apply negb_true_iff in Ht.
  cbn [cases_fold filter]. rewrite (step_plain _ _ _ Ht). destruct (keep s t); cbn [bind].
  - rewrite IH by exact Hp. cbn [rev]. rewrite <- app_assoc. reflexivity.
  - apply IH. exact Hp.
Qed.

(* ... after END *)
Lemma fold_plain_none p : forall ret,
  forallb (fun t => negb (case_kw t)) p = true -> fold p (MNone, ret) = Ok (MNone, ret).
Proof.
  induction p as [|t p IH]; intros ret H; [reflexivity|].
  cbn [forallb] in H. apply andb_true_iff in H. destruct H as [Ht Hp]. apply negb_true_iff in Ht.
  cbn [cases_fold]. rewrite (step_plain _ _ _ Ht). destruct (keep s t); cbn [bind]; apply IH; exact Hp.
Qed.

(* ... between CASE and the first WHEN: the "first condition without preceding WHEN" *)
Lemma fold_plain_first p :
  forallb (fun t => negb (case_kw t)) p = true ->
  fold p (MCond, []) =
  Ok (MCond, match filter (keep s) p with [] => [] | _ :: _ => [(Some (rev (filter (keep s) p)), [])] end).
Proof.
  induction p as [|t p IH]; intros H; [reflexivity|].
  cbn [forallb] in H. apply andb_true_iff in H. destruct H as [Ht Hp]. pose proof Ht as Ht'.
  apply negb_true_iff in Ht. cbn [cases_fold filter]. rewrite (step_plain _ _ _ Ht).
  destruct (keep s t); cbn [bind].
  - rewrite fold_plain_cond by exact Hp. cbn [rev]. reflexivity.
  - apply IH. exact Hp.
Qed.

Lemma fold_app a b st : fold (a ++ b) st = (st' <- fold a st ;; fold b st').
Proof.
  revert st. induction a as [|t a IH]; intros st; [reflexivity|].
  cbn [app cases_fold]. destruct (step st t) as [st1|e]; [|reflexivity]. cbn [bind]. apply IH.
Qed.

Variables kCASE kWHEN kTHEN kELSE kEND : text.
Hypothesis HCASE : upper kCASE = s_CASE.
Hypothesis HWHEN : upper kWHEN = s_WHEN.
Hypothesis HTHEN : upper kTHEN = s_THEN.
Hypothesis HELSE : upper kELSE = s_ELSE.
Hypothesis HEND : upper kEND = s_END.
Lemma KCASE : knorm kCASE = s_CASE. Proof. unfold knorm. rewrite HCASE. reflexivity. Qed.
Lemma KWHEN : knorm kWHEN = s_WHEN. Proof. unfold knorm. rewrite HWHEN. reflexivity. Qed.
Lemma KTHEN : knorm kTHEN = s_THEN. Proof. unfold knorm. rewrite HTHEN. reflexivity. Qed.
Lemma KELSE : knorm kELSE = s_ELSE. Proof. unfold knorm. rewrite HELSE. reflexivity. Qed.
Lemma KEND : knorm kEND = s_END. Proof. unfold knorm. rewrite HEND. reflexivity. Qed.

Lemma step_CASE st : step st (kw_leaf kCASE) = Ok st.
Proof.
  unfold case_step, node_id. rewrite kw_leaf_match, KCASE, (proj1 upper_case_kws), text_eqb_refl. reflexivity.
Qed.

Lemma step_WHEN mode ret : step (mode, ret) (kw_leaf kWHEN) = Ok (MCond, (Some [kw_leaf kWHEN], []) :: ret).
Proof.
  destruct upper_case_kws as (U1 & U2 & U3 & U4 & U5).
  unfold case_step, node_id. rewrite !kw_leaf_match, KWHEN, U1, U2.
  assert (E1 : text_eqb s_WHEN s_CASE = false) by reflexivity. rewrite E1, text_eqb_refl.
  assert (E2 : tt_in (kw_leaf kWHEN) T_Whitespace = false) by reflexivity. rewrite E2, andb_false_r.
  reflexivity.
Qed.

Lemma step_THEN mode c v r :
  step (mode, (c, v) :: r) (kw_leaf kTHEN) = Ok (MVal, (c, kw_leaf kTHEN :: v) :: r).
Proof.
  destruct upper_case_kws as (U1 & U2 & U3 & U4 & U5).
  unfold case_step, node_id. rewrite !kw_leaf_match, KTHEN, U1, U2, U3.
  assert (E1 : text_eqb s_THEN s_CASE = false) by reflexivity.
  assert (E3 : text_eqb s_THEN s_WHEN = false) by reflexivity. rewrite E1, E3, text_eqb_refl.
  assert (E2 : tt_in (kw_leaf kTHEN) T_Whitespace = false) by reflexivity. rewrite E2, andb_false_r.
  reflexivity.
Qed.

Lemma step_ELSE mode ret :
  step (mode, ret) (kw_leaf kELSE) = Ok (MVal, (None, [kw_leaf kELSE]) :: ret).
Proof.
  destruct upper_case_kws as (U1 & U2 & U3 & U4 & U5).
  unfold case_step, node_id. rewrite !kw_leaf_match, KELSE, U1, U2, U3, U4.
  assert (E1 : text_eqb s_ELSE s_CASE = false) by reflexivity.
  assert (E3 : text_eqb s_ELSE s_WHEN = false) by reflexivity.
  assert (E4 : text_eqb s_ELSE s_THEN = false) by reflexivity. rewrite E1, E3, E4, text_eqb_refl.
  assert (E2 : tt_in (kw_leaf kELSE) T_Whitespace = false) by reflexivity. rewrite E2, andb_false_r.
  reflexivity.
Qed.

Lemma step_END mode ret : step (mode, ret) (kw_leaf kEND) = Ok (MNone, ret).
Proof.
  destruct upper_case_kws as (U1 & U2 & U3 & U4 & U5).
  unfold case_step, node_id. rewrite !kw_leaf_match, KEND, U1, U2, U3, U4, U5.
  assert (E1 : text_eqb s_END s_CASE = false) by reflexivity.
  assert (E3 : text_eqb s_END s_WHEN = false) by reflexivity.
  assert (E4 : text_eqb s_END s_THEN = false) by reflexivity.
  assert (E5 : text_eqb s_END s_ELSE = false) by reflexivity. rewrite E1, E3, E4, E5, text_eqb_refl.
  assert (E2 : tt_in (kw_leaf kEND) T_Whitespace = false) by reflexivity. rewrite E2, andb_false_r.
  reflexivity.
Qed.

(* the written parts: WHEN cond THEN value *)
Definition when_tokens (cv : list node * list node) : list node :=
  kw_leaf kWHEN :: fst cv ++ kw_leaf kTHEN :: snd cv.
Definition when_entry (cv : list node * list node) : @centry node :=
  (Some (kw_leaf kWHEN :: filter (keep s) (fst cv)), kw_leaf kTHEN :: filter (keep s) (snd cv)).
(* the same entry as the loop holds it *)
Definition when_entry_rev (cv : list node * list node) : @centry node :=
  (Some (rev (filter (keep s) (fst cv)) ++ [kw_leaf kWHEN]), rev (filter (keep s) (snd cv)) ++ [kw_leaf kTHEN]).

Definition parts_ok (l : list node) : bool := forallb (fun t => negb (case_kw t)) l.

Lemma when_tokens_app c v X :
  when_tokens (c, v) ++ X = kw_leaf kWHEN :: c ++ kw_leaf kTHEN :: v ++ X.
Proof. unfold when_tokens. cbn [fst snd app]. rewrite <- app_assoc. reflexivity. Qed.

Lemma fold_whens whens : forall mode ret rest,
  Forall (fun cv => parts_ok (fst cv) = true /\ parts_ok (snd cv) = true) whens ->
  fold (flat_map when_tokens whens ++ rest) (mode, ret) =
  fold rest (match whens with [] => mode | _ => MVal end, rev (map when_entry_rev whens) ++ ret).
Proof.
  induction whens as [|[c v] whens IH]; intros mode ret rest H; [reflexivity|].
  inversion H as [|x l [Hc Hv] Hrest]; subst. cbn [fst snd] in Hc, Hv.
  cbn [flat_map]. rewrite <- app_assoc. rewrite when_tokens_app. cbn [cases_fold].
  rewrite step_WHEN. cbn [bind]. rewrite fold_app. rewrite fold_plain_cond by exact Hc. cbn [bind].
  cbn [cases_fold]. rewrite step_THEN. cbn [bind]. rewrite fold_app.
  rewrite fold_plain_val by exact Hv. cbn [bind].
  rewrite IH by exact Hrest. cbn [map rev]. unfold when_entry_rev at 2. cbn [fst snd].
  rewrite <- app_assoc. cbn [app]. destruct whens; reflexivity.
Qed.

Lemma finish_app (a b : list (@centry node)) : finish_cases (a ++ b) = finish_cases b ++ finish_cases a.
Proof. unfold finish_cases. rewrite map_app, rev_app_distr. reflexivity. Qed.

Lemma finish_whens whens : finish_cases (rev (map when_entry_rev whens)) = map when_entry whens.
Proof.
  unfold finish_cases. rewrite map_rev, rev_involutive, map_map. apply map_ext. intros [c v].
  unfold when_entry_rev, when_entry. cbn [fst snd option_map].
  rewrite !rev_app_distr, !rev_involutive. reflexivity.
Qed.

(* CASE [operand] (WHEN cond THEN value)* [ELSE value] END ... *)
Theorem get_cases_wellformed : forall w0 whens els tail,
  parts_ok w0 = true ->
  Forall (fun cv => parts_ok (fst cv) = true /\ parts_ok (snd cv) = true) whens ->
  match els with Some ve => parts_ok ve = true | None => True end ->
  parts_ok tail = true ->
  cases_of node_id s
    (kw_leaf kCASE :: w0 ++ flat_map when_tokens whens ++
     match els with Some ve => kw_leaf kELSE :: ve | None => [] end ++ kw_leaf kEND :: tail)
  = Ok (match filter (keep s) w0 with [] => [] | w => [(Some w, [])] end ++
        map when_entry whens ++
        match els with Some ve => [(None, kw_leaf kELSE :: filter (keep s) ve)] | None => [] end).
Proof.
  intros w0 whens els tail Hw0 Hwh Hels Htail. unfold cases_of.
  cbn [cases_fold]. rewrite step_CASE. cbn [bind]. rewrite fold_app.
  rewrite fold_plain_first by exact Hw0. cbn [bind].
  rewrite fold_whens by exact Hwh.
  set (ret0 := match filter (keep s) w0 with [] => [] | _ :: _ => [(Some (rev (filter (keep s) w0)), [])] end).
  assert (F0 : finish_cases ret0 = match filter (keep s) w0 with [] => [] | w => [(Some w, [])] end).
  { subst ret0. destruct (filter (keep s) w0) as [|x xs] eqn:E; [reflexivity|].
    unfold finish_cases. cbn [map fst snd option_map]. rewrite rev_involutive. reflexivity. }
  destruct els as [ve|].
  - cbn [app cases_fold]. rewrite step_ELSE. cbn [bind]. rewrite fold_app.
    rewrite fold_plain_val by exact Hels. cbn [bind]. cbn [cases_fold]. rewrite step_END. cbn [bind].
    rewrite fold_plain_none by exact Htail. cbn [bind snd].
    change ((None, rev (filter (keep s) ve) ++ [kw_leaf kELSE]) :: rev (map when_entry_rev whens) ++ ret0)
      with ([(@None (list node), rev (filter (keep s) ve) ++ [kw_leaf kELSE])] ++ rev (map when_entry_rev whens) ++ ret0).
    rewrite !finish_app, finish_whens, F0. f_equal. rewrite <- app_assoc. f_equal. f_equal.
    unfold finish_cases. cbn [map rev app fst snd option_map].
    rewrite rev_app_distr, rev_involutive. reflexivity.
  - cbn [app cases_fold]. rewrite step_END. cbn [bind].
    rewrite fold_plain_none by exact Htail. cbn [bind snd].
    rewrite finish_app, finish_whens, F0. rewrite app_nil_r. reflexivity.
Qed.
End CaseSteps.
Print Assumptions get_cases_wellformed.

(* select CASE WHEN a THEN b END from t : the Case node has the shape of the theorem *)
Example get_cases_wellformed_ex :
  exists cv a b,
    child_at 2 (cur_parse [115; 101; 108; 101; 99; 116; 32; 67; 65; 83; 69; 32; 87; 72; 69; 78; 32; 97; 32; 84; 72;
                           69; 78; 32; 98; 32; 69; 78; 68; 32; 102; 114; 111; 109; 32; 116]%N)
    = Some (Grp CCase cv
              (kw_leaf s_CASE :: [sp] ++ flat_map (when_tokens s_WHEN s_THEN) [([sp; a; sp], [sp; b; sp])] ++
               match @None (list node) with Some ve => kw_leaf s_ELSE :: ve | None => [] end ++ kw_leaf s_END :: []))
    /\ parts_ok [sp] = true /\ parts_ok [sp; a; sp] = true /\ parts_ok [sp; b; sp] = true.
Proof.
  do 3 eexists. split; [vm_compute; reflexivity|]. repeat split; vm_compute; reflexivity.
Qed.

(* "Case.get_cases() yields the written WHEN/THEN/ELSE parts": with the default skip_ws=False the
   whitespace between CASE and the first WHEN makes a leading entry ([' '], []) of its own;
   with skip_ws=True it does not (but an operand, CASE x WHEN ..., still does) *)
Theorem get_cases_leading_entry :
  exists cs l1 l2,
    child_at 2 (cur_parse [115; 101; 108; 101; 99; 116; 32; 67; 65; 83; 69; 32; 87; 72; 69; 78; 32; 97; 32; 84; 72;
                           69; 78; 32; 98; 32; 69; 78; 68; 32; 102; 114; 111; 109; 32; 116]%N) = Some cs
    /\ inst cs CCase = true
    /\ get_cases false (nkids cs) = Ok l1 /\ length l1 = 2 /\ hd_error l1 = Some (Some [(1, sp)], [])
    /\ get_cases true (nkids cs) = Ok l2 /\ length l2 = 1.
Proof.
  do 3 eexists. split; [vm_compute; reflexivity|]. split; [vm_compute; reflexivity|].
  split; [vm_compute; reflexivity|]. split; [vm_compute; reflexivity|]. split; [vm_compute; reflexivity|].
  split; [vm_compute; reflexivity|]. vm_compute; reflexivity.
Qed.
Print Assumptions get_cases_leading_entry.

(* ================================================================================================ *)
(* C07: which accessors can raise                                                                   *)

(* get_cases never raises, on any child list *)
Lemma case_step_inv {T} (nd : T -> node) s mode ret it :
  (mode = MCond -> match ret with (None, _) :: _ => False | _ => True end) ->
  exists mode' ret', case_step nd s (mode, ret) it = Ok (mode', ret') /\
    (mode' = MCond -> match ret' with (None, _) :: _ => False | _ => True end).
Proof.
  intros Hinv. unfold case_step. cbn [fst snd].
  destruct (match_pat (nd it) (kw_pat s_CASE)); [eauto|].
  destruct (s && tt_in (nd it) T_Whitespace); [eauto|].
  destruct (match_pat (nd it) (kw_pat s_WHEN)).
  { cbn [fst snd]. do 2 eexists. split; [reflexivity|]. intros _. exact I. }
  destruct (match_pat (nd it) (kw_pat s_THEN)).
  { cbn [fst snd]. destruct ret as [|[c v] r]; do 2 eexists; (split; [reflexivity|]); discriminate. }
  destruct (match_pat (nd it) (kw_pat s_ELSE)).
  { cbn [fst snd]. do 2 eexists. split; [reflexivity|]. discriminate. }
  destruct (match_pat (nd it) (kw_pat s_END)).
  { cbn [fst snd]. do 2 eexists. split; [reflexivity|]. discriminate. }
  cbn [fst snd]. destruct mode.
  - specialize (Hinv eq_refl). destruct ret as [|[[c|] v] r]; [| |destruct Hinv];
      do 2 eexists; (split; [reflexivity|]); intros _; exact I.
  - destruct ret as [|[c v] r]; do 2 eexists; (split; [reflexivity|]); discriminate.
  - do 2 eexists. split; [reflexivity|]. discriminate.
Qed.

Lemma cases_fold_total {T} (nd : T -> node) s l : forall mode ret,
  (mode = MCond -> match ret with (None, _) :: _ => False | _ => True end) ->
  exists st, cases_fold nd s l (mode, ret) = Ok st.
Proof.
  induction l as [|it l IH]; intros mode ret Hinv; [eexists; reflexivity|].
  cbn [cases_fold]. destruct (case_step_inv nd s mode ret it Hinv) as (m' & r' & E & Hinv').
  rewrite E. cbn [bind]. apply IH. exact Hinv'.
Qed.

Theorem get_cases_total : forall s kids, exists l, get_cases s kids = Ok l.
Proof.
  intros s kids.
  destruct (cases_fold_total (@snd nat node) s (indexed kids) MCond (@nil (@centry (nat * node))))
    as (st & E); [intros _; exact I|].
  exists (finish_cases (snd st)). unfold get_cases, cases_of. unfold centry in *. rewrite E. reflexivity.
Qed.
Print Assumptions get_cases_total.

(* ---- the name accessors raise only through remove_quotes('') ----------------------------------- *)
Definition is_nil {A} (l : list A) : bool := match l with [] => true | _ => false end.

(* every leaf value, every cached group value and every child list is non-empty *)
Fixpoint wf_vals (n : node) : bool :=
  match n with
  | Leaf _ v => negb (is_nil v)
  | Grp _ cv kids => negb (is_nil cv) && negb (is_nil kids) && forallb wf_vals kids
  end.

Lemma wf_vals_nvalue n : wf_vals n = true -> nvalue n <> [].
Proof.
  destruct n as [ty v | c cv kids]; cbn [wf_vals nvalue]; intros H.
  - destruct v; [discriminate | discriminate].
  - apply andb_true_iff in H. destruct H as [H _]. apply andb_true_iff in H. destruct H as [H _].
    destruct cv; discriminate.
Qed.

Lemma scan_total kw g l :
  (forall t, In t l -> nvalue t <> []) ->
  (forall t, In t l -> is_group t = true -> exists r, g t = Ok r) ->
  exists r, scan_names kw g l = Ok r.
Proof.
  induction l as [|t l IH]; intros Hv Hg; [eexists; reflexivity|].
  cbn [scan_names]. destruct (tt_among t (name_types kw)).
  - rewrite remove_quotes_ok by (apply Hv; left; reflexivity). eexists. reflexivity.
  - destruct (inst_any t [CIdentifier; CFunction]) eqn:E.
    + apply Hg; [left; reflexivity|]. destruct t; [discriminate E | reflexivity].
    + apply IH; intros; [apply Hv | apply Hg]; try right; assumption.
Qed.

Lemma In_skipn {A} n (l : list A) x : In x (skipn n l) -> In x l.
Proof. intros H. rewrite <- (firstn_skipn n l). apply in_or_app. right. exact H. Qed.

Lemma In_slice_opt {A} idx (l : list A) x : In x (slice_opt idx l) -> In x l.
Proof. destruct idx as [[|k]|]; cbn [slice_opt]; auto. apply In_skipn. Qed.

Lemma py_or_total a b : (exists x, a = Ok x) -> (exists y, b = Ok y) -> exists z, py_or a b = Ok z.
Proof. intros [x ->] [y ->]. unfold py_or, bind. destruct x as [[|c t]|]; eexists; reflexivity. Qed.

Theorem names_total : forall n, wf_vals n = true -> is_group n = true ->
  (exists r, get_real_name n = Ok r) /\ (exists r, get_name n = Ok r) /\ (exists r, get_alias n = Ok r).
Proof.
  induction n as [ty v | c cv kids IH] using node_ind'; intros Hwf Hgrp; [discriminate Hgrp|].
  cbn [wf_vals] in Hwf. apply andb_true_iff in Hwf. destruct Hwf as [_ Hk].
  rewrite forallb_forall in Hk. rewrite Forall_forall in IH.
  assert (Hval : forall t, In t kids -> nvalue t <> []) by (intros t Ht; apply wf_vals_nvalue; auto).
  assert (Hreal : exists r, get_real_name (Grp c cv kids) = Ok r).
  { destruct (name_alias_cls c) eqn:Ec.
    - rewrite get_real_name_eq by exact Ec. apply scan_total.
      + intros t Ht. apply Hval. eapply In_slice_opt. exact Ht.
      + intros t Ht Hg. apply In_slice_opt in Ht. apply (IH t Ht (Hk t Ht) Hg).
    - cbn [get_real_name]. rewrite Ec. eexists. reflexivity. }
  assert (Halias : name_alias_cls c = true -> exists r, alias_spec kids = Ok r).
  { intros Ec. unfold alias_spec. destruct (next_by_m as_pat kids) as [[k t0]|].
    - apply scan_total.
      + intros t Ht. apply Hval. eapply In_skipn. exact Ht.
      + intros t Ht Hg. apply In_skipn in Ht. apply (IH t Ht (Hk t Ht) Hg).
    - destruct (next_by_t T_Whitespace kids); [|eexists; reflexivity].
      destruct (2 <? length kids); [|eexists; reflexivity]. apply scan_total.
      + intros t Ht. apply Hval. apply in_rev. exact Ht.
      + intros t Ht Hg. apply in_rev in Ht. apply (IH t Ht (Hk t Ht) Hg). }
  split; [exact Hreal|]. destruct (name_alias_cls c) eqn:Ec.
  - split.
    + rewrite get_name_eq by exact Ec. apply py_or_total; auto.
    + rewrite get_alias_eq by exact Ec. auto.
  - split; cbn [get_name get_alias]; rewrite Ec; eexists; reflexivity.
Qed.
Print Assumptions names_total.

Theorem name_accessors_total : forall c cv kids, wf_vals (Grp c cv kids) = true ->
  (exists r, has_alias (Grp c cv kids) = Ok r) /\ (exists r, get_first_name0 (Grp c cv kids) = Ok r) /\
  (exists r, get_parent_name (Grp c cv kids) = Ok r).
Proof.
  intros c cv kids Hwf. destruct (names_total _ Hwf eq_refl) as (_ & _ & [a Ha]).
  cbn [wf_vals] in Hwf. apply andb_true_iff in Hwf. destruct Hwf as [_ Hk]. rewrite forallb_forall in Hk.
  split; [|split].
  - unfold has_alias. rewrite Ha. eexists. reflexivity.
  - cbn [get_first_name0]. rewrite first_name_spec. apply scan_total.
    + intros t Ht. apply wf_vals_nvalue. apply Hk. exact Ht.
    + intros t Ht Hg. apply (names_total t (Hk t Ht) Hg).
  - cbn [get_parent_name]. destruct (next_by_m dot_pat kids) as [[i d]|]; [|eexists; reflexivity].
    destruct (token_prev true false i kids) as [[j p]|] eqn:E; [|eexists; reflexivity].
    unfold token_prev, find_before in E.
    assert (Hin : In p kids).
    { assert (G : forall l b best, find_last_aux (skip_matcher true false) l b best = Some (j, p) ->
                   In p l \/ best = Some (j, p)).
      { induction l as [|x l IHl]; intros b best H; cbn [find_last_aux] in H; [right; exact H|].
        apply IHl in H. destruct H as [H | H]; [left; right; exact H|].
        destruct (skip_matcher true false x); [|right; exact H]. injection H as _ ->. left. left. reflexivity. }
      apply G in E. destruct E as [E | E]; [|discriminate E].
      rewrite <- (firstn_skipn i kids). apply in_or_app. left. exact E. }
    rewrite remove_quotes_ok by (apply wf_vals_nvalue; apply Hk; exact Hin). eexists. reflexivity.
Qed.
Print Assumptions name_accessors_total.

(* C07 for the accessor table: on a tree with non-empty values and child lists, the only accessors
   that can raise are Function.get_window (no OVER child: AttributeError) and
   Function.get_parameters (no Parenthesis child: AttributeError) *)
Lemma v_res_not_err {A} (f : A -> aval) r e :
  (exists x, r = Ok x) -> (forall x, f x <> VErr e) -> v_res f r <> VErr e.
Proof. intros [x ->] H. cbn [v_res]. apply H. Qed.

Lemma v_opt_not_err {A} (f : A -> aval) o e : (forall x, f x <> VErr e) -> v_opt f o <> VErr e.
Proof. intros H. destruct o; cbn [v_opt]; [apply H | discriminate]. Qed.

Theorem accessors_raise_only : forall n a e,
  wf_vals n = true -> In (a, VErr e) (accessors n) -> a = A_get_window \/ a = A_get_parameters.
Proof.
  intros n a e Hwf Hin. destruct n as [ty v | c cv kids]; [destruct Hin|].
  destruct (names_total _ Hwf eq_refl) as (Hr & Hn & Ha).
  destruct (name_accessors_total _ _ _ Hwf) as (Hh & Hf & Hp).
  assert (Hkids : kids <> []).
  { cbn [wf_vals] in Hwf. apply andb_true_iff in Hwf. destruct Hwf as [Hwf _].
    apply andb_true_iff in Hwf. destruct Hwf as [_ Hwf]. destruct kids; [discriminate | discriminate]. }
  assert (T1 : forall o : option text, v_opt VText o <> VErr e) by (intros o; apply v_opt_not_err; discriminate).
  unfold accessors in Hin. apply in_app_or in Hin. destruct Hin as [Hin | Hin].
  { destruct c; try (destruct Hin; fail). destruct Hin as [Hin | []]. injection Hin as _ Hv. exfalso.
    revert Hv. apply v_res_not_err; [apply (get_type_total CStatement cv kids) | discriminate]. }
  apply in_app_or in Hin. destruct Hin as [Hin | Hin].
  { cbn [In] in Hin. exfalso.
    destruct Hin as [Hin | [Hin | [Hin | [Hin | [Hin | [Hin | []]]]]]]; injection Hin as _ Hv; revert Hv;
      apply v_res_not_err; auto; discriminate. }
  destruct c; cbn [In] in Hin; try (destruct Hin; fail).
  - (* Identifier *) exfalso.
    destruct Hin as [Hin | [Hin | [Hin | [Hin | []]]]]; injection Hin as _ Hv; revert Hv;
      try discriminate; apply T1.
  - (* IdentifierList *) destruct Hin as [Hin | []]. discriminate Hin.
  - (* Comparison *) exfalso. destruct (comparison_total kids Hkids) as [Hl Hrr].
    destruct Hin as [Hin | [Hin | []]]; injection Hin as _ Hv; revert Hv;
      apply v_res_not_err; auto; discriminate.
  - (* Comment *) exfalso. destruct Hin as [Hin | []]. injection Hin as _ Hv. revert Hv.
    apply v_opt_not_err. discriminate.
  - (* Case *) exfalso.
    destruct Hin as [Hin | [Hin | []]]; injection Hin as _ Hv; revert Hv;
      apply v_res_not_err; try apply get_cases_total; discriminate.
  - (* Function *) destruct Hin as [Hin | [Hin | []]]; injection Hin as <- _; auto.
Qed.
Print Assumptions accessors_raise_only.

(* get_window: None when there is no OVER child (since the library fix); the last token of the OVER clause otherwise *)
Theorem get_window_spec : forall kids,
  get_window kids =
  match next_by_i COver kids with
  | None => Ok None
  | Some (o, ov) => match last_indexed (nkids ov) with None => Err IndexError | Some (j, t) => Ok (Some ([o; j], t)) end
  end.
Proof. reflexivity. Qed.

Theorem get_window_no_over : forall kids,
  forallb (fun t => negb (inst t COver)) kids = true -> get_window kids = Ok None.
Proof. intros kids H. unfold get_window. rewrite next_by_i_eq, find_aux_none by exact H. reflexivity. Qed.

(* the former finding (select f(x): AttributeError, fixed in the library): the accessor answers None now *)
Theorem C07_accessors_get_window_fixed :
  exists stmts s fn,
    cur_parse [115; 101; 108; 101; 99; 116; 32; 102; 40; 120; 41]%N = Ok stmts /\ stmts = [s]
    /\ nth_error (nkids s) 2 = Some fn /\ inst fn CFunction = true /\ wf_vals s = true
    /\ get_window (nkids fn) = Ok None.
Proof.
  do 3 eexists. split; [vm_compute; reflexivity|]. split; [reflexivity|].
  split; [vm_compute; reflexivity|]. split; [vm_compute; reflexivity|]. split; [vm_compute; reflexivity|].
  vm_compute; reflexivity.
Qed.
Print Assumptions C07_accessors_get_window_fixed.

(* with a window the accessor returns the last token of the OVER clause *)
Example get_window_ok_ex :
  exists s fn p t,
    cur_parse [115; 101; 108; 101; 99; 116; 32; 102; 40; 120; 41; 32; 111; 118; 101; 114; 32; 119]%N = Ok [s]
    (* select f(x) over w *)
    /\ nth_error (nkids s) 2 = Some fn /\ get_window (nkids fn) = Ok (Some (p, t)) /\ text_of t = [119]%N.
Proof.
  do 4 eexists. split; [vm_compute; reflexivity|]. split; [vm_compute; reflexivity|].
  split; [vm_compute; reflexivity|]. vm_compute; reflexivity.
Qed.

(* ================================================================================================ *)
(* witnesses for the deviations of the implementation from C12 / C13 found by the direct oracles     *)
Definition opt_text_eqb (a b : option text) : bool :=
  match a, b with
  | Some x, Some y => text_eqb x y
  | None, None => true
  | _, _ => false
  end.
Definition res_opt_eqb (r : res (option text)) (o : option text) : bool :=
  match r with Ok x => opt_text_eqb x o | Err _ => false end.

(* some Identifier of the statement answers get_real_name / get_alias as given *)
Definition has_ident_with (s : node) (real : text) (alias : option text) : bool :=
  existsb (fun pn : list nat * node =>
             inst (snd pn) CIdentifier && res_opt_eqb (get_real_name (snd pn)) (Some real)
             && res_opt_eqb (get_alias (snd pn)) alias)
          (walk [] s).
Definition has_class (s : node) (c : cls) : bool :=
  existsb (fun pn : list nat * node => match snd pn with Grp c' _ _ => cls_eqb c' c | Leaf _ _ => false end) (walk [] s).

(* insert into n a (p1) values (1): the implicit alias before a column list is grouped with the
   column list as a Function `a (p1)`; no Identifier has real name n and alias a *)
Theorem C12_insert_implicit_alias_refuted :
  (exists s, cur_parse [105; 110; 115; 101; 114; 116; 32; 105; 110; 116; 111; 32; 110; 32; 97; 32; 40; 112; 49; 41;
                        32; 118; 97; 108; 117; 101; 115; 32; 40; 49; 41]%N = Ok [s]
             /\ has_ident_with s [110]%N (Some [97]%N) = false /\ has_ident_with s [110]%N None = true) /\
  (exists s, cur_parse [115; 101; 108; 101; 99; 116; 32; 49; 32; 102; 114; 111; 109; 32; 110; 32; 97]%N = Ok [s]
             /\ has_ident_with s [110]%N (Some [97]%N) = true).
Proof.
  split; eexists; (split; [vm_compute; reflexivity|]); [split|]; vm_compute; reflexivity.
Qed.

(* select r0, (a + 1) from t0 : a parenthesised item keeps the select list from being grouped *)
Example C13_list_with_parenthesis_refuted :
  exists s, cur_parse [115; 101; 108; 101; 99; 116; 32; 114; 48; 44; 32; 40; 97; 32; 43; 32; 49; 41; 32; 102; 114;
                       111; 109; 32; 116; 48]%N = Ok [s] /\ has_class s CIdentifierList = false.
Proof. eexists. split; [vm_compute; reflexivity | vm_compute; reflexivity]. Qed.

(* select 1 from t0 where l = a[1] : the right operand of the Comparison is a, the index is outside *)
Example C13_comparison_array_refuted :
  exists s wh cmp it,
    cur_parse [115; 101; 108; 101; 99; 116; 32; 49; 32; 102; 114; 111; 109; 32; 116; 48; 32; 119; 104; 101; 114; 101;
               32; 108; 32; 61; 32; 97; 91; 49; 93]%N = Ok [s]
    /\ nth_error (nkids s) 8 = Some wh /\ nth_error (nkids wh) 2 = Some cmp /\ inst cmp CComparison = true
    /\ cmp_right (nkids cmp) = Ok it /\ text_of (snd it) = [97]%N.
Proof.
  do 4 eexists. split; [vm_compute; reflexivity|]. split; [vm_compute; reflexivity|].
  split; [vm_compute; reflexivity|]. split; [vm_compute; reflexivity|]. split; vm_compute; reflexivity.
Qed.

Print Assumptions get_type_unknown_blank.
Print Assumptions get_type_unknown_other.
Print Assumptions alias_none_general.
Print Assumptions comparison_operands.
Print Assumptions comparison_total.
Print Assumptions get_parameters_list.
Print Assumptions get_cases_tokens.
Print Assumptions get_window_no_over.
Print Assumptions C12_insert_implicit_alias_refuted.
