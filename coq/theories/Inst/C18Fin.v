(* C18, pipeline level, FINITE family (bound in the statement): every DML/DDL word of the REGENERATED keyword
   dictionaries x letter casings {as listed, lower} x prefixes (nothing / whitespace / comments) x continuations
   (what follows the keyword after one blank or a line break), evaluated through the WHOLE model pipeline (lexer, splitter,
   all 25 grouping passes, Statement.get_type): get_type() of the first statement is the upper-cased keyword.
   The unbounded theorems (Acc/AccFacts.v get_type_keyword ...) are about the accessor on a given tree; this family ties
   them to the trees the grouping passes really build.  Every vm_compute is on a closed term. *)
From SqlModel Require Import Base PyStr Str Node Passes Accessors WordsDefs.
From SqlModel.Gen Require Import CaseTabs KwTabs Rules.
From SqlModel.Inst Require Import Cur WordsCur.
From Coq Require Import String.
Open Scope string_scope.
Open Scope list_scope.

Definition tt_eqb (a b : ttype) : bool := tin a b && tin b a.

(* the words whose type (dictionary or dedicated rule) is Keyword.DML / Keyword.DDL *)
Definition dml_ddl_words : list text :=
  filter (fun w => cur_is_word w &&
                   (tt_eqb (cur_expected_type w) T_DML || tt_eqb (cur_expected_type w) T_DDL)) cur_all_words.

Definition prefixes : list text := map tx [
  ""; " "; "/*+ h */"; "  /* a */  /* b */ " ].
Definition nl : text := [10%N].
Definition prefixes_nl : list text := [tx "# c" ++ nl ++ tx "  "; tx " -- a" ++ nl ++ tx "/* b */" ++ nl].

(* after the keyword: one separator, then the rest *)
Definition seps : list text := [tx " "; nl; tx " /* c */ "].
Definition rests : list text := map tx [
  ""; "a"; "* from t where x = 1"; "a, b from t;"; "table t (a int)"; "1 + 2"; "x as y";
  "case when a then b end"; "into t values (1)"; "t set a = 1 where b";
  "distinct f(a) over (partition by b)"; "'s' || 't'"; "a.b, c.d e";
  "(a)"; "[a]"; "date '2020-01-01'"; "a::int"; "a := 1" ].

Definition first_type (t : text) : option text :=
  match cur_parse t with
  | Ok (s :: _) => match get_type s with Ok ty => Some ty | Err _ => None end
  | _ => None
  end.

Definition opt_text_eqb (a : option text) (b : text) : bool :=
  match a with Some x => text_eqb x b | None => false end.

Definition word_ok (w : text) : bool :=
  forallb (fun w' =>
    forallb (fun p =>
      forallb (fun s =>
        forallb (fun r => opt_text_eqb (first_type (p ++ w' ++ s ++ r)) (upper w)) rests) seps)
      (prefixes ++ prefixes_nl))
    [w; map lower w].


(* CREATE OR REPLACE (a dedicated lexer rule makes it ONE DDL token when the words are separated by single blanks) *)
Definition cor : text := tx "create or replace".
Definition cor_rests : list text := map tx [" view v as select 1"; " function f() returns int"; ""; ";"].
Definition c18_cor_fin : bool :=
  forallb (fun w' => forallb (fun p => forallb (fun r =>
     opt_text_eqb (first_type (p ++ w' ++ r)) (upper cor)) cor_rests) (prefixes ++ prefixes_nl)) [cor; upper cor].

(* ---- the theorems ------------------------------------------------------------------------------ *)
Lemma c18_words_listed : List.length dml_ddl_words = 14%nat.
Proof. vm_compute. reflexivity. Qed.

(* stated with the generic functions applied to the closed lists directly (no wrapper constant: the kernel would unfold
   the word list to compare a wrapper with its body) *)
Theorem C18_pipeline_fin : forallb word_ok dml_ddl_words = true.
Proof. vm_compute. reflexivity. Qed.

Theorem C18_create_or_replace_fin : c18_cor_fin = true.
Proof. vm_compute. reflexivity. Qed.

Lemma forallb_In {A} (f : A -> bool) (l : list A) (x : A) : forallb f l = true -> In x l -> f x = true.
Proof. intros H Hx. exact (proj1 (forallb_forall f l) H x Hx). Qed.

Lemma word_ok_member : forall w w' p s r,
  word_ok w = true -> In w' [w; map lower w] -> In p (prefixes ++ prefixes_nl) -> In s seps -> In r rests ->
  first_type (p ++ w' ++ s ++ r) = Some (upper w).
Proof.
  intros w w' p s r H Hw' Hp Hs Hr. unfold word_ok in H.
  pose proof (forallb_In _ _ _ H Hw') as H1. cbv beta in H1.
  pose proof (forallb_In _ _ _ H1 Hp) as H2. cbv beta in H2.
  pose proof (forallb_In _ _ _ H2 Hs) as H3. cbv beta in H3.
  pose proof (forallb_In _ _ _ H3 Hr) as H4. cbv beta in H4.
  unfold opt_text_eqb in H4. destruct (first_type (p ++ w' ++ s ++ r)) as [x|]; [|discriminate].
  apply text_eqb_eq in H4. rewrite H4. reflexivity.
Qed.

(* unfolded: what the family says about one member *)
Theorem C18_pipeline_fin_member : forall w w' p s r,
  In w dml_ddl_words -> In w' [w; map lower w] -> In p (prefixes ++ prefixes_nl) -> In s seps -> In r rests ->
  first_type (p ++ w' ++ s ++ r) = Some (upper w).
Proof.
  intros w w' p s r Hw. apply word_ok_member. exact (forallb_In word_ok dml_ddl_words w C18_pipeline_fin Hw).
Qed.
Print Assumptions C18_pipeline_fin_member.

