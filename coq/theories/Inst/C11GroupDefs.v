(* C11, letter case, grouping layer: the callbacks of the `_group` passes as generated in Gen/PassTab.v,
   listed with their names, and the example texts.  Definitions only (proofs: Inst/C11Group.v). *)
From Coq Require String.
From SqlModel Require Import Base PyStr Node Passes PassIR CaseDefs CaseRelDefs.
From SqlModel.Gen Require Import CaseTabs PassTab.

Module CbNames.
Import String.
(* the boolean callbacks: match / valid_prev / valid_next of the eleven `_group` calls *)
Definition pt_callbacks : list (string * pexpr) := [
  ("group_period.match"%string, pt_group_period_match);
  ("group_period.valid_prev"%string, pt_group_period_valid_prev);
  ("group_period.valid_next"%string, pt_group_period_valid_next);
  ("group_arrays.match"%string, pt_group_arrays_match);
  ("group_arrays.valid_prev"%string, pt_group_arrays_valid_prev);
  ("group_arrays.valid_next"%string, pt_group_arrays_valid_next);
  ("group_typecasts.match"%string, pt_group_typecasts_match);
  ("group_typecasts.valid_prev"%string, pt_group_typecasts_valid_prev);
  ("group_typecasts.valid_next"%string, pt_group_typecasts_valid_next);
  ("group_tzcasts.match"%string, pt_group_tzcasts_match);
  ("group_tzcasts.valid_prev"%string, pt_group_tzcasts_valid_prev);
  ("group_tzcasts.valid_next"%string, pt_group_tzcasts_valid_next);
  ("group_typed_literal.c1.match"%string, pt_group_typed_literal_c1_match);
  ("group_typed_literal.c1.valid_prev"%string, pt_group_typed_literal_c1_valid_prev);
  ("group_typed_literal.c1.valid_next"%string, pt_group_typed_literal_c1_valid_next);
  ("group_typed_literal.c2.match"%string, pt_group_typed_literal_c2_match);
  ("group_typed_literal.c2.valid_prev"%string, pt_group_typed_literal_c2_valid_prev);
  ("group_typed_literal.c2.valid_next"%string, pt_group_typed_literal_c2_valid_next);
  ("group_operator.match"%string, pt_group_operator_match);
  ("group_operator.valid_prev"%string, pt_group_operator_valid_prev);
  ("group_operator.valid_next"%string, pt_group_operator_valid_next);
  ("group_comparison.match"%string, pt_group_comparison_match);
  ("group_comparison.valid_prev"%string, pt_group_comparison_valid_prev);
  ("group_comparison.valid_next"%string, pt_group_comparison_valid_next);
  ("group_as.match"%string, pt_group_as_match);
  ("group_as.valid_prev"%string, pt_group_as_valid_prev);
  ("group_as.valid_next"%string, pt_group_as_valid_next);
  ("group_assignment.match"%string, pt_group_assignment_match);
  ("group_assignment.valid_prev"%string, pt_group_assignment_valid_prev);
  ("group_assignment.valid_next"%string, pt_group_assignment_valid_next);
  ("group_identifier_list.match"%string, pt_group_identifier_list_match);
  ("group_identifier_list.valid_prev"%string, pt_group_identifier_list_valid_prev);
  ("group_identifier_list.valid_next"%string, pt_group_identifier_list_valid_next)
].
(* the post callbacks *)
Definition pt_posts : list (string * ppost) := [
  ("group_period.post"%string, pt_group_period_post);
  ("group_arrays.post"%string, pt_group_arrays_post);
  ("group_typecasts.post"%string, pt_group_typecasts_post);
  ("group_tzcasts.post"%string, pt_group_tzcasts_post);
  ("group_typed_literal.c1.post"%string, pt_group_typed_literal_c1_post);
  ("group_typed_literal.c2.post"%string, pt_group_typed_literal_c2_post);
  ("group_operator.post"%string, pt_group_operator_post);
  ("group_comparison.post"%string, pt_group_comparison_post);
  ("group_as.post"%string, pt_group_as_post);
  ("group_assignment.post"%string, pt_group_assignment_post);
  ("group_identifier_list.post"%string, pt_group_identifier_list_post)
].
Definition unsafe_callbacks : list string :=
  map fst (filter (fun x => negb (case_safe (snd x))) pt_callbacks).
Definition unsafe_posts : list string :=
  map fst (filter (fun x => negb (post_case_safe (snd x))) pt_posts).
Definition operator_post_name : string := "group_operator.post"%string.
End CbNames.
Definition pt_callbacks := CbNames.pt_callbacks.
Definition pt_posts := CbNames.pt_posts.
Definition unsafe_callbacks := CbNames.unsafe_callbacks.
Definition unsafe_posts := CbNames.unsafe_posts.

(* ---- example texts ------------------------------------------------------------------------------------ *)
(* select case when a = 1 then f(x) else 2 end as c, (select max(y) from u where u.k > 0) from t join v on t.i = v.i where x in (1, 2) group by c order by c desc; insert into t values (1) *)
Definition ex_g_a : text := [115; 101; 108; 101; 99; 116; 32; 99; 97; 115; 101; 32; 119; 104; 101; 110; 32; 97; 32; 61; 32; 49; 32; 116; 104; 101; 110; 32; 102; 40; 120; 41; 32; 101; 108; 115; 101; 32; 50; 32; 101; 110; 100; 32; 97; 115; 32; 99; 44; 32; 40; 115; 101; 108; 101; 99; 116; 32; 109; 97; 120; 40; 121; 41; 32; 102; 114; 111; 109; 32; 117; 32; 119; 104; 101; 114; 101; 32; 117; 46; 107; 32; 62; 32; 48; 41; 32; 102; 114; 111; 109; 32; 116; 32; 106; 111; 105; 110; 32; 118; 32; 111; 110; 32; 116; 46; 105; 32; 61; 32; 118; 46; 105; 32; 119; 104; 101; 114; 101; 32; 120; 32; 105; 110; 32; 40; 49; 44; 32; 50; 41; 32; 103; 114; 111; 117; 112; 32; 98; 121; 32; 99; 32; 111; 114; 100; 101; 114; 32; 98; 121; 32; 99; 32; 100; 101; 115; 99; 59; 32; 105; 110; 115; 101; 114; 116; 32; 105; 110; 116; 111; 32; 116; 32; 118; 97; 108; 117; 101; 115; 32; 40; 49; 41]%N.
(* SELECT CASE WHEN a = 1 THEN f(x) ELSE 2 END As c, (SELECT max(y) FROM u WHERE u.k > 0) FROM t JOIN v ON t.i = v.i WHERE x IN (1, 2) GROUP BY c ORDER BY c DESC; INSERT INTO t VALUES (1) *)
Definition ex_g_b : text := [83; 69; 76; 69; 67; 84; 32; 67; 65; 83; 69; 32; 87; 72; 69; 78; 32; 97; 32; 61; 32; 49; 32; 84; 72; 69; 78; 32; 102; 40; 120; 41; 32; 69; 76; 83; 69; 32; 50; 32; 69; 78; 68; 32; 65; 115; 32; 99; 44; 32; 40; 83; 69; 76; 69; 67; 84; 32; 109; 97; 120; 40; 121; 41; 32; 70; 82; 79; 77; 32; 117; 32; 87; 72; 69; 82; 69; 32; 117; 46; 107; 32; 62; 32; 48; 41; 32; 70; 82; 79; 77; 32; 116; 32; 74; 79; 73; 78; 32; 118; 32; 79; 78; 32; 116; 46; 105; 32; 61; 32; 118; 46; 105; 32; 87; 72; 69; 82; 69; 32; 120; 32; 73; 78; 32; 40; 49; 44; 32; 50; 41; 32; 71; 82; 79; 85; 80; 32; 66; 89; 32; 99; 32; 79; 82; 68; 69; 82; 32; 66; 89; 32; 99; 32; 68; 69; 83; 67; 59; 32; 73; 78; 83; 69; 82; 84; 32; 73; 78; 84; 79; 32; 116; 32; 86; 65; 76; 85; 69; 83; 32; 40; 49; 41]%N.

(* classes only: what a re-casing cannot change *)
Inductive cskel := KL (ty : ttype) | KG (c : cls) (l : list cskel).
Fixpoint cskel_of (n : node) : cskel :=
  match n with
  | Leaf ty _ => KL ty
  | Grp c _ k => KG c (map cskel_of k)
  end.
Fixpoint cskel_eqb (a b : cskel) : bool :=
  match a, b with
  | KL ty, KL ty' => ttype_eqb ty ty'
  | KG c l, KG c' l' =>
      cls_eqb c c' &&
      (fix go (x y : list cskel) : bool :=
         match x, y with
         | [], [] => true
         | p :: x1, q :: y1 => cskel_eqb p q && go x1 y1
         | _, _ => false
         end) l l'
  | _, _ => false
  end.
(* the classes of the groups, in document order *)
Fixpoint classes_of (n : node) : list cls :=
  match n with
  | Leaf _ _ => []
  | Grp c _ k => c :: flat_map classes_of k
  end.
