(* C11, FROM THE TEXT TO THE STATEMENTS, white-space runs of any length and spelling: composition of the whole-lexer
   run invariance (Inst/C11RunAll.v) with the splitter's skeleton invariance (Split/SkeletonFacts.v).
   Two texts over the covered characters that are equal after collapsing every white-space run to one marker are split
   into the same statements (same significant tokens per statement). *)
From SqlModel Require Import Base PyStr Re Lexer LexFacts SplitDefs Splitter Skeleton SkeletonFacts.
From SqlModel Require Import RunInvDefs RunInv RunLex RunLexAll.
From SqlModel.Gen Require Import Atoms Rules CaseTabs KwTabs SplitTab.
From SqlModel.Inst Require Import Cur C11Run C11RunAll C18Barrier.
From SqlModel Require Import Node BarrierDefs.
From SqlModel.Acc Require Import Accessors.
From Coq Require Import Lia.

(* the regex \s set and the str.isspace() set are the same set *)
Lemma sp_same : isS RSp space_set = true.
Proof. vm_compute. reflexivity. Qed.
Lemma sp_mem c : cmem c space_set = inS RSp c.
Proof. exact (isS_mem RSp space_set c sp_same). Qed.

(* ---- collapse_go on words and runs ---------------------------------------------------------------------- *)
Lemma cg_word w X b : w <> [] -> forallb (fun d => negb (cmem d space_set)) w = true ->
  collapse_go space_set b (w ++ X) = w ++ collapse_go space_set false X.
Proof.
  revert b. induction w as [|d w IH]; intros b Hne Hw; [congruence|].
  cbn [forallb] in Hw. apply andb_true_iff in Hw. destruct Hw as [Hd Hw].
  cbn [app collapse_go]. destruct (cmem d space_set); [discriminate|]. f_equal.
  destruct w as [|e w]; [reflexivity|]. apply IH; [discriminate | exact Hw].
Qed.

Lemma cg_run_true R Y : forallb (fun d => cmem d space_set) R = true ->
  collapse_go space_set true (R ++ Y) = collapse_go space_set true Y.
Proof.
  induction R as [|r R IH]; intros FR; [reflexivity|]. cbn [forallb] in FR. apply andb_true_iff in FR.
  destruct FR as [Hr FR]. cbn [app collapse_go]. rewrite Hr. apply IH, FR.
Qed.

Lemma cg_run R Y : R <> [] -> forallb (fun d => cmem d space_set) R = true ->
  collapse_go space_set false (R ++ Y) = 32%N :: collapse_go space_set true Y.
Proof.
  destruct R as [|r R]; [congruence|]. intros _ FR. cbn [forallb] in FR. apply andb_true_iff in FR.
  destruct FR as [Hr FR]. cbn [app collapse_go]. rewrite Hr. f_equal. apply cg_run_true, FR.
Qed.

Lemma upper_run R : forallb (fun d => cmem d space_set) R = true -> upper R = R.
Proof.
  induction R as [|r R IH]; intros FR; [reflexivity|]. cbn [forallb] in FR. apply andb_true_iff in FR.
  destruct FR as [Hr FR]. rewrite upper_cons, (upper_img_space r Hr), (IH FR). reflexivity.
Qed.

Lemma upper_app_l a b : upper (a ++ b) = upper a ++ upper b.
Proof.
  induction a as [|c a IH]; [reflexivity|]. cbn [app]. rewrite !upper_cons, IH, app_assoc. reflexivity.
Qed.

(* after a run: the text does not start with a white-space character, so the flag does not matter *)
Lemma cg_true_upper t : snext_t RSp t = false ->
  collapse_go space_set true (upper t) = collapse_go space_set false (upper t).
Proof.
  destruct t as [|d t]; [reflexivity|]. cbn [RunInvDefs.snext_t]. intros Hd.
  assert (Hd' : cmem d space_set = false) by (rewrite sp_mem; exact Hd).
  destruct (upper_img_nonspace d Hd') as [Hne Hn]. rewrite upper_cons, !cg_word by assumption. reflexivity.
Qed.

Lemma all_S_sp R : forallb (inS RSp) R = true -> forallb (fun d => cmem d space_set) R = true.
Proof.
  intros H. apply forallb_forall. intros d Hd. rewrite sp_mem. exact (proj1 (forallb_forall _ _) H d Hd).
Qed.

(* related values have the same keyword key *)
Theorem RS_kw_key v v' : RS RSp v v' -> kw_key v = kw_key v'.
Proof.
  unfold kw_key, collapse. induction 1 as [| c t t' Hc _ IH | R R' t t' HR HR' FR FR' Hn Hn' _ IH]; [reflexivity| |].
  - assert (Hc' : cmem c space_set = false) by (rewrite sp_mem; exact Hc).
    destruct (upper_img_nonspace c Hc') as [Hne Hw]. rewrite !upper_cons, !cg_word by assumption. rewrite IH. reflexivity.
  - rewrite !upper_app_l, (upper_run R (all_S_sp R FR)), (upper_run R' (all_S_sp R' FR')).
    rewrite !cg_run by (try assumption; apply all_S_sp; assumption).
    rewrite (cg_true_upper t Hn), (cg_true_upper t' Hn'), IH. reflexivity.
Qed.

(* related values without white space are equal *)
Lemma RS_nospace v v' : RS RSp v v' -> has_space v = false -> v = v'.
Proof.
  unfold has_space. induction 1 as [| c t t' Hc _ IH | R R' t t' HR HR' FR FR' _ _ _ _]; intros Hs; [reflexivity| |].
  - cbn [existsb] in Hs. apply orb_false_iff in Hs. destruct Hs as [_ Hs]. rewrite (IH Hs). reflexivity.
  - exfalso. destruct R as [|r R]; [congruence|]. cbn [app existsb forallb] in *.
    apply andb_true_iff in FR. destruct FR as [Hr _]. rewrite sp_mem, Hr in Hs. discriminate.
Qed.

(* ---- from Lrel to the skeleton relation ---------------------------------------------------------------- *)
(* every significant token that is no keyword token has a value without white space (it excludes the two-word
   builtin DOUBLE PRECISION: the skeleton relation compares such values as they are) *)
Definition nonkw_nospace (l : list tok) : bool :=
  forallb (fun tk => is_ws_tok tk || is_kw_tok tk || negb (has_space (snd tk))) l.

Lemma chunks_ws w : forallb is_ws_tok w = true -> chunks w = ([], w).
Proof.
  induction w as [|x w IH]; intros H; [reflexivity|]. cbn [forallb] in H. apply andb_true_iff in H.
  destruct H as [Hx Hw]. cbn [chunks]. rewrite (IH Hw), Hx. reflexivity.
Qed.

Lemma chunks_run_sig w a r : forallb is_ws_tok w = true -> is_ws_tok a = false ->
  chunks (w ++ a :: r) = let '(cs, tr) := chunks r in ((w, a) :: cs, tr).
Proof.
  intros Hw Ha. induction w as [|x w IH].
  - cbn [app chunks]. destruct (chunks r) as [cs tr]. rewrite Ha. reflexivity.
  - cbn [forallb] in Hw. apply andb_true_iff in Hw. destruct Hw as [Hx Hw]. cbn [app chunks]. rewrite (IH Hw).
    destruct (chunks r) as [cs tr]. rewrite Hx. reflexivity.
Qed.

Lemma tokrel_skel a b : tokrel RSp a b -> is_ws_tok a = false ->
  is_kw_tok a || negb (has_space (snd a)) = true -> tok_skel0b a b = true.
Proof.
  intros [Hty Hv] Hws Hk. unfold tok_skel0b, skey, is_kw_tok in *. rewrite <- Hty. cbn [fst snd].
  rewrite (proj2 (ttype_eqb_eq (fst a) (fst a)) eq_refl). cbn [andb]. apply text_eqb_eq.
  destruct (tin (fst a) T_Keyword); [exact (RS_kw_key _ _ Hv)|].
  cbn [orb] in Hk. apply negb_true_iff in Hk. exact (RS_nospace _ _ Hv Hk).
Qed.

Theorem Lrel_skel : forall l l', Lrel l l' -> nonkw_nospace l = true -> skel0b l l' = true.
Proof.
  unfold Lrel, skel0b.
  pose (P0 := fun l l' : list tok => nonkw_nospace l = true -> forall w w',
                forallb is_ws_tok w = true -> forallb is_ws_tok w' = true -> nilb w = nilb w' ->
                skel_gen false true (w ++ l) (w' ++ l') = true).
  pose (P := fun l l' : list tok => nonkw_nospace l = true -> skel_gen false true l l' = true).
  apply (Lrel_mind RSp P0 P); unfold P0, P.
  - (* L0_nil *)
    intros _ w w' Fw Fw' Hnil. rewrite !app_nil_r. unfold skel_gen. rewrite (chunks_ws w Fw), (chunks_ws w' Fw').
    cbn [forall2b negb orb andb]. rewrite Fw, Fw', Hnil. cbn [andb]. apply eqb_reflx.
  - (* L0_sig *)
    intros a b r r' Ha Hb Hab _ IHr Hn0 w w' Fw Fw' Hnil.
    change (ws_tok a) with (is_ws_tok a) in Ha. change (ws_tok b) with (is_ws_tok b) in Hb.
    unfold nonkw_nospace in Hn0. cbn [forallb] in Hn0. apply andb_true_iff in Hn0. destruct Hn0 as [Hn1 Hnr].
    pose proof (IHr Hnr) as Hs. unfold skel_gen in Hs |- *.
    rewrite (chunks_run_sig w a r Fw Ha), (chunks_run_sig w' b r' Fw' Hb).
    destruct (chunks r) as [cs tr]. destruct (chunks r') as [cs' tr']. cbn [forall2b].
    assert (Hc : chunk_relb false true (w, a) (w', b) = true).
    { unfold chunk_relb. rewrite Fw, Fw', Ha, Hb. cbn [negb andb orb].
      unfold tok_skelb. cbn [negb orb]. rewrite andb_true_r.
      rewrite Ha in Hn1. cbn [orb] in Hn1.
      rewrite (tokrel_skel a b Hab Ha Hn1), Hnil. cbn [andb]. rewrite eqb_reflx. reflexivity. }
    rewrite Hc. cbn [andb]. exact Hs.
  - (* L_direct *)
    intros l l' _ IH0 Hn. exact (IH0 Hn [] [] eq_refl eq_refl eq_refl).
  - (* L_run *)
    intros w w' l l' Hw Hw' Fw Fw' _ IH0 Hn.
    assert (Hnl : nonkw_nospace l = true).
    { unfold nonkw_nospace in *. rewrite forallb_app in Hn. apply andb_true_iff in Hn. apply Hn. }
    apply (IH0 Hnl w w' Fw Fw'). destruct w; [congruence|]. destruct w'; [congruence|]. reflexivity.
Qed.

(* ---- THE theorem: from the texts to the statements ------------------------------------------------------ *)
Theorem C11_text_split_run t t' l l' :
  sq RSp false t = sq RSp false t' -> oktextb t = true -> oktextb t' = true ->
  cur_lex t = Ok l -> cur_lex t' = Ok l' ->
  nonkw_nospace l = true -> brk_agreeb l l' = true ->
  stmt_sigs (cur_process l) = stmt_sigs (cur_process l').
Proof.
  intros Hsq Ho Ho' El El' Hn Hb. apply split_skel0_invariant; [|exact Hb].
  apply Lrel_skel; [|exact Hn]. exact (C11_lex_run_all t t' l l' Hsq Ho Ho' El El').
Qed.
Print Assumptions C11_text_split_run.

(* ---- the statement type of the first statement ------------------------------------------------------------ *)
Lemma first_nonws_split (w pre : list tok) a0 a r0 rest :
  w ++ a0 :: r0 = pre ++ a :: rest -> forallb ws_tok w = true -> forallb ws_tok pre = true ->
  ws_tok a0 = false -> ws_tok a = false -> w = pre /\ a0 = a /\ r0 = rest.
Proof.
  revert pre. induction w as [|x w IH]; intros pre E Fw Fp Ha0 Ha.
  - destruct pre as [|y pre]; cbn [app] in E.
    + injection E as -> ->. auto.
    + injection E as -> _. cbn [forallb] in Fp. apply andb_true_iff in Fp. destruct Fp as [Hy _]. congruence.
  - cbn [forallb] in Fw. apply andb_true_iff in Fw. destruct Fw as [Hx Fw].
    destruct pre as [|y pre]; cbn [app] in E.
    + injection E as <- _. congruence.
    + injection E as -> E. cbn [forallb] in Fp. apply andb_true_iff in Fp. destruct Fp as [_ Fp].
      destruct (IH pre E Fw Fp Ha0 Ha) as (-> & -> & ->). auto.
Qed.

Lemma Lrel_first l l' pre a rest : Lrel l l' -> l = pre ++ a :: rest -> forallb ws_tok pre = true -> ws_tok a = false ->
  exists pre' b rest', l' = pre' ++ b :: rest' /\ forallb ws_tok pre' = true /\ ws_tok b = false /\ tokrel RSp a b.
Proof.
  unfold Lrel. intros H E Fp Ha. destruct H as [l l' H0 | w w' l l' Hw Hw' Fw Fw' H0].
  - destruct H0 as [| a0 b0 r r' Ha0 Hb0 Hab _].
    + destruct pre; discriminate.
    + destruct (first_nonws_split [] pre a0 a r rest E eq_refl Fp Ha0 Ha) as (<- & -> & ->).
      exists [], b0, r'. auto.
  - destruct H0 as [| a0 b0 r r' Ha0 Hb0 Hab _].
    + exfalso. rewrite app_nil_r in E. subst w.
      rewrite forallb_app in Fw. apply andb_true_iff in Fw. destruct Fw as [_ Fw]. cbn [forallb] in Fw.
      apply andb_true_iff in Fw. destruct Fw as [Fa _]. congruence.
    + destruct (first_nonws_split w pre a0 a r rest E Fw Fp Ha0 Ha) as (-> & -> & ->).
      exists w', b0, r'. auto.
Qed.

Lemma RS_knorm v v' : RS RSp v v' -> knorm v = knorm v'.
Proof. intros H. unfold knorm. apply join_split_collapse. exact (RS_kw_key v v' H). Qed.

(* the first statement of the two texts has the same type, whenever the guard of C18_barrier holds on both token lists
   (the leading DML/DDL keyword is preceded by white space only; it may be a compound keyword spelled with any runs) *)
Theorem C11_text_get_type_run t t' pre ty kw rest :
  sq RSp false t = sq RSp false t' -> oktextb t = true -> oktextb t' = true ->
  cur_lex t = Ok (pre ++ (ty, kw) :: rest) -> forallb ws_tok pre = true -> ws_tok (ty, kw) = false ->
  barrier_guard pre ty kw rest = true ->
  forall l', cur_lex t' = Ok l' ->
  (forall pre' kw' rest', l' = pre' ++ (ty, kw') :: rest' -> barrier_guard pre' ty kw' rest' = true) ->
  exists s ss s' ss', cur_parse t = Ok (s :: ss) /\ cur_parse t' = Ok (s' :: ss')
                      /\ get_type s = get_type s'.
Proof.
  intros Hsq Ho Ho' El Fp Ha Hg l' El' Hg'.
  pose proof (C11_lex_run_all t t' _ l' Hsq Ho Ho' El El') as HL.
  destruct (Lrel_first _ _ pre (ty, kw) rest HL eq_refl Fp Ha) as (pre' & [ty' kw'] & rest' & -> & Fp' & Hb & [Hty Hv]).
  cbn [fst snd] in Hty, Hv. subst ty'.
  destruct (C18Barrier.C18_barrier_lexed t pre ty kw rest El Hg) as (s & ss & Ep & Eg).
  destruct (C18Barrier.C18_barrier_lexed t' pre' ty kw' rest' El' (Hg' pre' kw' rest' eq_refl)) as (s' & ss' & Ep' & Eg').
  exists s, ss, s', ss'. split; [exact Ep|]. split; [exact Ep'|]. rewrite Eg, Eg', (RS_knorm kw kw' Hv). reflexivity.
Qed.
Print Assumptions C11_text_get_type_run.

(* example: two statements, runs re-spelled (blank / tab / line breaks / several), ORDER BY with an inner run *)
Definition ex_sp_a : text :=
  [115;101;108;101;99;116;32;97;44;98;32;32;102;114;111;109;10;32;116;49;32;111;114;100;101;114;32;9;32;98;121;32;120;59;10;10;115;101;108;101;99;116;32;50]%N.
Definition ex_sp_b : text :=
  [115;101;108;101;99;116;9;97;44;98;32;102;114;111;109;32;116;49;32;111;114;100;101;114;32;98;121;32;120;59;32;115;101;108;101;99;116;10;50]%N.
Example ex_sp_hyps :
  sq RSp false ex_sp_a = sq RSp false ex_sp_b /\ oktextb ex_sp_a = true /\ oktextb ex_sp_b = true
  /\ match cur_lex ex_sp_a, cur_lex ex_sp_b with
     | Ok l, Ok l' => nonkw_nospace l = true /\ brk_agreeb l l' = true
                      /\ map (@length tok) (stmt_sigs (cur_process l)) = [9; 2]
     | _, _ => False
     end.
Proof. split; [vm_compute; reflexivity|]. split; [vm_compute; reflexivity|]. split; [vm_compute; reflexivity|]. vm_compute. repeat split. Qed.

(* example for C11_text_get_type_run: CREATE<2 blanks>OR<LF, blank>REPLACE ... and the single-blank spelling *)
Definition ex_gt_a : text := [99;114;101;97;116;101;32;32;111;114;10;32;114;101;112;108;97;99;101;32;118;105;101;119;32;118;32;97;115;32;115;101;108;101;99;116;32;49]%N.
Definition ex_gt_b_kw : text := [99;114;101;97;116;101;32;111;114;32;114;101;112;108;97;99;101]%N.
Definition ex_gt_b : text := [99;114;101;97;116;101;32;111;114;32;114;101;112;108;97;99;101;32;118;105;101;119;32;118;32;97;115;32;115;101;108;101;99;116;32;49]%N.
Example ex_gt_hyps :
  sq RSp false ex_gt_a = sq RSp false ex_gt_b /\ oktextb ex_gt_a = true /\ oktextb ex_gt_b = true
  /\ match cur_lex ex_gt_a, cur_lex ex_gt_b with
     | Ok ((ty, kw) :: rest), Ok ((ty', kw') :: rest') =>
         ws_tok (ty, kw) = false /\ barrier_guard [] ty kw rest = true /\ barrier_guard [] ty' kw' rest' = true
         /\ List.length kw = 19 /\ List.length kw' = 17
     | _, _ => False
     end
  /\ match cur_parse ex_gt_a with Ok [s] => get_type s = Ok (upper ex_gt_b_kw) | _ => False end.
Proof. split; [vm_compute; reflexivity|]. split; [vm_compute; reflexivity|]. split; [vm_compute; reflexivity|]. split; vm_compute; repeat split. Qed.
