(* Definitions used by Inst/C18Barrier.v (the text-level form of the C18 barrier theorem, the boolean readers behind
   the closed witnesses, the known-prefix test for the keyword's token boundary).  No proofs in this file. *)
From SqlModel Require Import Base PyStr Str Re Lexer Node Passes BarrierDefs NameWordsDefs RegionDefs WsRun.
From SqlModel.Gen Require Import CaseTabs KwTabs Rules.
From SqlModel.Inst Require Import Cur WsRunInst.
From SqlModel.Acc Require Import Accessors.
From Coq Require Import String.
Open Scope list_scope.

Definition first_type_is (t ty : text) : bool :=
  match cur_parse t with
  | Ok (s :: _) => match get_type s with Ok x => text_eqb x ty | Err _ => false end
  | _ => false
  end.
Definition typed_through_parse (t ty : text) : Prop :=
  exists s ss, cur_parse t = Ok (s :: ss) /\ get_type s = Ok ty.
Definition unknown_through_parse (t : text) : Prop := typed_through_parse t s_UNKNOWN.


Definition tk_ws : tok := (T_Whitespace, [32%N]).
Definition group_type_is (toks : list tok) (ty : text) : bool :=
  match group (statement_of toks) with
  | Ok s => match get_type s with Ok x => text_eqb x ty | Err _ => false end
  | Err _ => false
  end.

Definition ex_text : text :=
  tx "  /* c */ -- d" ++ [10%N] ++ tx "sElEcT a::int, b.c AS d, x := 1 FROM t WHERE u = 'v' ORDER BY 1; drop table t".
Definition ex_toks : list tok := match cur_lex ex_text with Ok l => l | Err _ => [] end.


(* ---- what may precede the keyword: whitespace units, block comments, line comments closed by LF -- *)
Inductive pitem := PWs (u : wsunit) | PBlock (body : text) | PLine (o body : text).

Definition ptext (it : pitem) : text :=
  match it with
  | PWs u => utext1 u
  | PBlock body => [47; 42]%N ++ body ++ [42; 47]%N                (* /* body */ *)
  | PLine o body => o ++ body ++ [10%N]                            (* -- body LF   or   # body LF *)
  end.
Definition ptok (it : pitem) : tok :=
  match it with
  | PWs u => utok1 T_Whitespace T_Newline u
  | PBlock body => (bc_type body, ptext it)
  | PLine o body => (lc_type body, ptext it)
  end.
Definition pitem_ok (it : pitem) : Prop :=
  match it with
  | PWs u => unit_wf u
  | PBlock body => bc_body_ok body = true                          (* no "*/" inside *)
  | PLine o body => lc_opener_ok o = true /\ lc_body_ok body = true (* "--" or "# ", no CR/LF inside *)
  end.
(* the character the lexer sees before the next position (after whitespace: equivalent to a blank) *)
Definition plast1 (it : pitem) : N :=
  match it with PWs _ => 32%N | PBlock _ => 47%N | PLine _ _ => 10%N end.
Fixpoint plast (p : option N) (items : list pitem) : option N :=
  match items with [] => p | it :: r => plast (Some (plast1 it)) r end.


Definition is_dd (ty : ttype) : bool := existsb (ttype_eqb ty) [T_DML; T_DDL].
Definition cut_ok (p : option N) (W : text) (u : wsunit) (c : N) : bool :=
  match a_first_match sql_regex (mkSt p (W ++ utext1 u ++ [c])) with
  | Some (a, k) => Nat.eqb k (List.length W) && is_dd (fst (mk_tok upper kws a W))
  | None => false
  end.


Definition sep_units : list wsunit := [UC 32; UC 9; ULF; UCRLF].            (* blank, tab, LF, CR LF *)
Definition next_chars : list N := map (fun k => (33 + N.of_nat k)%N) (seq 0 94).   (* printable ASCII, no blank *)
Definition lookbehinds : list (option N) := [None; Some 32%N; Some 47%N; Some 10%N].
Definition W_CREATE : text := [67; 82; 69; 65; 84; 69]%N.
(* after the separator: "." makes the word a Name (rule [A-Z]\w*(?=\s*\.)); after CREATE, "o"/"O" may start
   OR REPLACE (one DDL token CREATE OR REPLACE) *)
Definition cut_excluded (W : text) (c : N) : bool :=
  N.eqb c 46 || (text_eqb W W_CREATE && (N.eqb c 79 || N.eqb c 111)).

