(* C13, pipeline composition, FINITE families (evaluation of the whole model: lexer, splitter, all
   25 grouping passes, on texts assembled from small lists of pieces, so that the expected extents
   are known by construction):
     C13_where_fin       Conditions x Followers x Nesting: one Where node per WHERE keyword, with
                         exactly the text `where <cond>` up to just before the follower
     C13_idlist_fin      select-list / FROM-list item families x separators spellings
     C13_function_fin    f(a, b), f(a), f(), f(a, g(b, c)), f (a): Function = name + Parenthesis
     C13_typed_fin       DATE / TIMESTAMP / INTERVAL literals x contexts: one TypedLiteral node
     C13_comparison_fin  operand kinds x operators: Comparison[left .. right]
   plus closed examples of the pass-local specifications through group_upto k (statement_of toks).
   Every vm_compute is on a CLOSED term. *)
From SqlModel Require Import Base PyStr Str Node Passes TotalDefs ClauseSpec.
From SqlModel.Inst Require Import Cur.
From Coq Require Import String.
Open Scope string_scope.
Open Scope list_scope.

(* ---- checkers ------------------------------------------------------------------------------------ *)
Fixpoint list_eqb {A} (eq : A -> A -> bool) (a b : list A) : bool :=
  match a, b with
  | [], [] => true
  | x :: a', y :: b' => eq x y && list_eqb eq a' b'
  | _, _ => false
  end.

(* all groups of class c in preorder *)
Fixpoint nodes_of (c : cls) (n : node) : list node :=
  match n with
  | Leaf _ _ => []
  | Grp c' _ kids => (if cls_eqb c' c then [n] else []) ++ flat_map (nodes_of c) kids
  end.

Definition where_texts (n : node) : list text := map text_of (nodes_of CWhere n).
Definition typed_texts (n : node) : list text := map text_of (nodes_of CTypedLiteral n).
Definition function_texts (n : node) : list text := map text_of (nodes_of CFunction n).

(* the written items of an IdentifierList: its children that are neither whitespace nor a comma *)
Definition is_comma (n : node) : bool := match_pat n (T_Punctuation, Some [s_comma]).
Definition item_texts (n : node) : list text :=
  map text_of (filter (fun k => negb (is_ws k || is_comma k)) (nkids n)).
Definition idlist_items (n : node) : list (list text) := map item_texts (nodes_of CIdentifierList n).

(* Function = [name-Identifier ws* Parenthesis]: (name text, parenthesis text) *)
Definition function_parts (n : node) : list (list text) :=
  map (fun f => map text_of (filter (fun k => negb (is_ws k)) (nkids f))) (nodes_of CFunction n).

(* Comparison: first and last child *)
Definition cmp_ends (n : node) : list (text * text) :=
  map (fun c => match nkids c, rev (nkids c) with
                | a :: _, b :: _ => (text_of a, text_of b)
                | _, _ => ([], [])
                end) (nodes_of CComparison n).

Definition parse1 (t : text) : option node :=
  match cur_parse t with Ok [n] => Some n | _ => None end.

Definition check {A} (obs : node -> A) (eq : A -> A -> bool) (c : text * A) : bool :=
  match parse1 (fst c) with Some n => eq (obs n) (snd c) | None => false end.

Definition texts_eqb := list_eqb text_eqb.

(* closed evaluation, one conjunct at a time *)
Ltac conj_vm :=
  match goal with
  | |- _ /\ _ => split; [vm_compute; reflexivity | conj_vm]
  | _ => vm_compute; reflexivity
  end.

(* ---- the Where family ---------------------------------------------------------------------------- *)
Definition conditions : list text := map tx [
  "a = 1"; "a = 1 and b like 'x'"; "a in (select 1)"; "a between 1 and 2"; "f(a, b) > 0";
  "case when a then 1 else 2 end = 1" ].

(* "" = nothing follows *)
Definition followers : list text := map tx [
  ""; "group by x"; "order by x"; "limit 1"; "union select 2"; "except select 2"; "having y";
  "union all select 2"; "except all select 2";
  "returning z"; "into t" ].

Definition sp : text := tx " ".
(* `where <cond>` and what follows it; the Where node's text is `where <cond>` plus the blank before
   the follower *)
Definition clause (cond fol : text) : text :=
  tx "where " ++ cond ++ (match fol with [] => [] | _ => sp ++ fol end).
Definition where_text (cond fol : text) : text :=
  tx "where " ++ cond ++ (match fol with [] => [] | _ => sp end).

Inductive nesting := NTop | NFrom | NWhere.

Definition where_case (nst : nesting) (cond fol : text) : text * list text :=
  match nst with
  | NTop => (tx "select * from t " ++ clause cond fol, [where_text cond fol])
  | NFrom => (tx "select * from (select * from t " ++ clause cond fol ++ tx ") x",
              [where_text cond fol])
  | NWhere =>
      let inner := tx "(select k from t " ++ clause cond fol ++ tx ")" in
      (tx "select * from u where k in " ++ inner ++ tx " order by 1",
       [tx "where k in " ++ inner ++ sp; where_text cond fol])
  end.

Definition where_family (nst : nesting) : list (text * list text) :=
  flat_map (fun c => map (fun f => where_case nst c f) followers) conditions.

Theorem C13_where_fin_top : forallb (check where_texts texts_eqb) (where_family NTop) = true.
Proof. vm_compute. reflexivity. Qed.
Theorem C13_where_fin_from : forallb (check where_texts texts_eqb) (where_family NFrom) = true.
Proof. vm_compute. reflexivity. Qed.
Theorem C13_where_fin_where : forallb (check where_texts texts_eqb) (where_family NWhere) = true.
Proof. vm_compute. reflexivity. Qed.

Theorem C13_where_fin :
  forall nst c f, In c conditions -> In f followers ->
  check where_texts texts_eqb (where_case nst c f) = true.
Proof.
  intros nst c f Hc Hf.
  assert (H : forallb (check where_texts texts_eqb) (where_family nst) = true)
    by (destruct nst; [apply C13_where_fin_top | apply C13_where_fin_from | apply C13_where_fin_where]).
  rewrite forallb_forall in H. apply H. unfold where_family. apply in_flat_map. exists c.
  split; [exact Hc|]. apply in_map, Hf.
Qed.
Print Assumptions C13_where_fin.

Example where_family_size : List.length (where_family NTop ++ where_family NFrom ++ where_family NWhere) = 198.
Proof. reflexivity. Qed.

(* `order  by` (two blanks) is ONE Keyword token whose normalized value is 'ORDER BY' (the white space inside
   compound keywords is collapsed since the fix in /repo; before, the Where node swallowed the ORDER BY clause) *)
Example where_two_blank_order_by :
  check where_texts texts_eqb
        (tx "select * from t where a = 1 order  by x", [tx "where a = 1 "]) = true.
Proof. vm_compute. reflexivity. Qed.

(* the code's "scan continues after the group": a set operator that is not in Where.M_CLOSE
   (INTERSECT, MINUS) lets the first Where swallow the second WHERE *)
Example where_intersect_swallows :
  check where_texts texts_eqb
        (tx "select a from t where a intersect select b from u where c",
         [tx "where a intersect select b from u where c"]) = true.
Proof. vm_compute. reflexivity. Qed.

(* ---- IdentifierList families ----------------------------------------------------------------------- *)
Definition seps : list text := map tx [","; ", "; " ,"; " , "].
Definition item_lists : list (list text) := map (map tx) [
  ["a"; "b"]; ["a"; "b"; "c"]; ["a"; "b"; "c"; "d"]; ["t.a"; "u.b"]; ["f(x)"; "g(y, z)"; "c"];
  ["1"; "'x'"; "a"]; ["a as x"; "b as y"]; ["a + 1"; "b * 2"]; ["a x"; "b y"; "c"];
  ["case when a then 1 else 2 end"; "b"]; ["count(*)"; "a"]; ["a = 1"; "b"] ].
Definition from_lists : list (list text) := map (map tx) [ ["t1"; "t2"]; ["t1 x"; "t2 y"; "t3"]; ["s.t1"; "t2 as y"] ].

Fixpoint join_with (sep : text) (l : list text) : text :=
  match l with
  | [] => []
  | [x] => x
  | x :: r => x ++ sep ++ join_with sep r
  end.

(* an item that is itself a call with several arguments contains an inner IdentifierList: the
   expected inner lists are given with the family *)
Definition inner_lists (items : list text) : list (list text) :=
  flat_map (fun it => if text_eqb it (tx "g(y, z)") then [[tx "y"; tx "z"]] else []) items.

Definition idlist_case (sep : text) (items froms : list text) : text * list (list text) :=
  (tx "select " ++ join_with sep items ++ tx " from " ++ join_with sep froms,
   [items] ++ inner_lists items ++ [froms]).

Definition idlist_family (sep : text) : list (text * list (list text)) :=
  flat_map (fun its => map (fun fr => idlist_case sep its fr) from_lists) item_lists.

Definition lists_eqb := list_eqb texts_eqb.

Theorem C13_idlist_fin :
  forallb (fun sep => forallb (check idlist_items lists_eqb) (idlist_family sep)) seps = true.
Proof. vm_compute. reflexivity. Qed.
Print Assumptions C13_idlist_fin.

(* ---- Function family --------------------------------------------------------------------------------
   calls x contexts; expected: the Function nodes in preorder, each as [name; parenthesis] *)
Definition calls : list (text * list (list text)) := [
  (tx "f(a, b)", [[tx "f"; tx "(a, b)"]]);
  (tx "f(a)", [[tx "f"; tx "(a)"]]);
  (tx "f()", [[tx "f"; tx "()"]]);
  (tx "f (a)", [[tx "f"; tx "(a)"]]);
  (tx "f(a, g(b, c))", [[tx "f"; tx "(a, g(b, c))"]; [tx "g"; tx "(b, c)"]]);
  (tx "f(a + 1)", [[tx "f"; tx "(a + 1)"]]);
  (tx "count(*)", [[tx "count"; tx "(*)"]]);
  (tx "f(DATE '2020-01-01', 1)", [[tx "f"; tx "(DATE '2020-01-01', 1)"]]) ].

Definition call_contexts : list (text * text) := [
  (tx "select ", tx " from t");
  (tx "select x, ", tx " from t");
  (tx "select * from t where ", tx " > 0");
  (tx "select * from (select ", tx " from t) y");
  (tx "select * from t where a in (select ", tx " from u) limit 1") ].

Definition function_family : list (text * list (list text)) :=
  flat_map (fun ctx => map (fun c => (fst ctx ++ fst c ++ snd ctx, snd c)) calls) call_contexts.

Theorem C13_function_fin : forallb (check function_parts lists_eqb) function_family = true.
Proof. vm_compute. reflexivity. Qed.
Print Assumptions C13_function_fin.

(* the arguments of a call with two or more arguments are ONE IdentifierList inside the parenthesis *)
Theorem C13_function_args_fin :
  forallb (check idlist_items lists_eqb)
    [ (tx "select f(a, b) from t", [[tx "a"; tx "b"]]);
      (tx "select f(a, b, c) from t", [[tx "a"; tx "b"; tx "c"]]);
      (tx "select f(a, g(b, c)) from t", [[tx "a"; tx "g(b, c)"]; [tx "b"; tx "c"]]);
      (tx "select f( a , 1 , 'x' ) from t", [[tx "a"; tx "1"; tx "'x'"]]);
      (tx "select * from t where f(a, b) > 0", [[tx "a"; tx "b"]]) ] = true.
Proof. vm_compute. reflexivity. Qed.

(* the early exit of group_functions, end to end: in a CREATE TABLE without AS (any letter case since the
   fix of C11-as-case) no Function is built, in any nesting level of that statement's top list only *)
Example function_create_table :
  check function_texts texts_eqb (tx "create table t (a int, b varchar(10))", [tx "varchar(10)"]) = true /\
  check function_texts texts_eqb (tx "create table t(a int)", []) = true /\
  check function_texts texts_eqb (tx "create table t AS select f(1)", [tx "f(1)"]) = true /\
  check function_texts texts_eqb (tx "create table t as select f(1)", [tx "f(1)"]) = true.
Proof. conj_vm. Qed.

(* ---- TypedLiteral family ------------------------------------------------------------------------ *)
Definition typed_lits : list text := map tx [
  "DATE '2020-01-01'"; "date '2020-01-01'"; "TIMESTAMP '2020-01-01 00:00:00'"; "timestamp '2020'";
  "INTERVAL '1' day"; "INTERVAL '1' DAY"; "interval '2' month"; "INTERVAL '1' hour";
  "INTERVAL '1' minute"; "INTERVAL '1' second"; "INTERVAL '1' year"; "DATE  '2020-01-01'" ].

Definition typed_contexts : list (text * text) := [
  (tx "select ", tx " from t");
  (tx "select a, ", tx ", b from t");
  (tx "select * from t where d > ", tx "");
  (tx "select * from t where d > ", tx " order by d");
  (tx "select f(", tx ") from t");
  (tx "select * from (select ", tx " as d) x");
  (tx "select * from t where d in (select ", tx ")") ].

Definition typed_family : list (text * list text) :=
  flat_map (fun ctx => map (fun l => (fst ctx ++ l ++ snd ctx, [l])) typed_lits) typed_contexts.

Theorem C13_typed_fin : forallb (check typed_texts texts_eqb) typed_family = true.
Proof. vm_compute. reflexivity. Qed.
Print Assumptions C13_typed_fin.

(* outside the family: at the very beginning of a statement there is no previous token *)
Example typed_at_start : check typed_texts texts_eqb (tx "DATE '2020-01-01'", []) = true.
Proof. vm_compute. reflexivity. Qed.

(* outside the property's wording (DATE, TIMESTAMP, INTERVAL): TIME is lexed as a plain Keyword,
   not Name.Builtin, and is not in TypedLiteral.M_OPEN: no TypedLiteral; an interval unit that is
   not in M_EXTEND (WEEK) stays outside the node *)
Example typed_time_not_typed :
  check typed_texts texts_eqb (tx "select TIME '10:00' from t", []) = true /\
  check typed_texts texts_eqb (tx "select INTERVAL '1' week from t", [tx "INTERVAL '1'"]) = true.
Proof. conj_vm. Qed.

(* ---- Comparison family ---------------------------------------------------------------------------- *)
Definition operands : list text := map tx [
  "a"; "t.a"; "1"; "1.5"; "'x'"; "f(a)"; "(a + 1)"; "a + 1"; "NULL"; "DATE '2020-01-01'"; "%s"; """a""" ].
Definition operators : list text := map tx ["="; " = "; " <> "; " >= "; " like "].

Definition cmp_family (op : text) : list (text * list (text * text)) :=
  flat_map (fun l => map (fun r => (tx "select * from t where " ++ l ++ op ++ r, [(l, r)])) operands)
           operands.

Definition pair_eqb (a b : text * text) := text_eqb (fst a) (fst b) && text_eqb (snd a) (snd b).

Theorem C13_comparison_fin :
  forallb (fun op => forallb (check cmp_ends (list_eqb pair_eqb)) (cmp_family op)) operators = true.
Proof. vm_compute. reflexivity. Qed.
Print Assumptions C13_comparison_fin.

(* what the code does with a chain, end to end: ((a = b) = c) *)
Example comparison_chain_e2e :
  check cmp_ends (list_eqb pair_eqb)
        (tx "select * from t where a = b = c", [(tx "a = b", tx "c"); (tx "a", tx "b")]) = true.
Proof. vm_compute. reflexivity. Qed.

Example comparison_bool_e2e :
  check cmp_ends (list_eqb pair_eqb)
        (tx "select * from t where a = b and c = d or not e <> f",
         [(tx "a", tx "b"); (tx "c", tx "d"); (tx "e", tx "f")]) = true.
Proof. vm_compute. reflexivity. Qed.

(* operands that group_comparison does not accept: no Comparison node at all *)
Example comparison_case_operand :
  check cmp_ends (list_eqb pair_eqb) (tx "select * from t where case when a then 1 else 2 end = 1", []) = true /\
  check cmp_ends (list_eqb pair_eqb) (tx "select * from t where a = case when b then 1 end", []) = true /\
  check cmp_ends (list_eqb pair_eqb) (tx "select * from t where a = true", []) = true.
Proof. conj_vm. Qed.

(* ---- the pass-local specifications on explicit token lists, through group_upto ------------------- *)
Definition tk (ty : ttype) (s : string) : tok := (ty, tx s).
Definition w_ : tok := tk T_Whitespace " ".

(* select f (a) from t where a = 1 limit 1 *)
Definition toks1 : list tok :=
  [tk T_DML "select"; w_; tk T_Name "f"; w_; tk T_Punctuation "("; tk T_Name "a"; tk T_Punctuation ")"; w_;
   tk T_Keyword "from"; w_; tk T_Name "t"; w_; tk T_Keyword "where"; w_; tk T_Name "a"; w_;
   tk T_Comparison "="; w_; tk T_Integer "1"; w_; tk T_Keyword "limit"; w_; tk T_Integer "1"].

Definition obs_upto {A} (k : nat) (obs : node -> A) (toks : list tok) : option A :=
  match group_upto k (statement_of toks) with Ok n => Some (obs n) | Err _ => None end.

(* pass 9 (index 8) is group_functions, pass 10 group_where, 17 typed literal, 19 comparison,
   24 identifier list *)
Example upto_functions :
  obs_upto 8 function_texts toks1 = Some [] /\ obs_upto 9 function_texts toks1 = Some [tx "f (a)"].
Proof. conj_vm. Qed.
Example upto_where :
  obs_upto 9 where_texts toks1 = Some [] /\ obs_upto 10 where_texts toks1 = Some [tx "where a = 1 "].
Proof. conj_vm. Qed.
Example upto_comparison :
  obs_upto 18 cmp_ends toks1 = Some [] /\ obs_upto 19 cmp_ends toks1 = Some [(tx "a", tx "1")].
Proof. conj_vm. Qed.

(* select a , b,c from t1, t2 where d > DATE '2020-01-01' *)
Definition toks2 : list tok :=
  [tk T_DML "select"; w_; tk T_Name "a"; w_; tk T_Punctuation ","; w_; tk T_Name "b"; tk T_Punctuation ",";
   tk T_Name "c"; w_; tk T_Keyword "from"; w_; tk T_Name "t1"; tk T_Punctuation ","; w_; tk T_Name "t2"; w_;
   tk T_Keyword "where"; w_; tk T_Name "d"; w_; tk T_Comparison ">"; w_; tk T_Builtin "DATE"; w_;
   tk T_Single "'2020-01-01'"].
Example upto_typed :
  obs_upto 16 typed_texts toks2 = Some [] /\ obs_upto 17 typed_texts toks2 = Some [tx "DATE '2020-01-01'"].
Proof. conj_vm. Qed.
Example upto_idlist :
  obs_upto 23 idlist_items toks2 = Some [] /\
  obs_upto 24 idlist_items toks2 = Some [[tx "a"; tx "b"; tx "c"]; [tx "t1"; tx "t2"]].
Proof. conj_vm. Qed.

(* the specification functions applied to the tree before their pass give the tree after it *)
Definition node_eqb_by_dump (a b : node) : bool :=
  texts_eqb (map text_of (flatten a)) (map text_of (flatten b)) &&
  list_eqb (fun x y => cls_eqb (fst x) (fst y) && text_eqb (snd x) (snd y))
           ((fix d (n : node) : list (cls * text) :=
               match n with Leaf _ _ => [] | Grp c _ k => (c, text_of n) :: flat_map d k end) a)
           ((fix d (n : node) : list (cls * text) :=
               match n with Leaf _ _ => [] | Grp c _ k => (c, text_of n) :: flat_map d k end) b).

Definition spec_step (k : nat) (spec : node -> node) (toks : list tok) : bool :=
  match group_upto k (statement_of toks), group_upto (S k) (statement_of toks) with
  | Ok a, Ok b => node_eqb_by_dump (spec a) b
  | _, _ => false
  end.

Example spec_steps :
  spec_step 8 functions_rec toks1 = true /\ spec_step 9 where_rec toks1 = true /\
  spec_step 18 (join_rec p_comparison FromPrev) toks1 = true /\
  spec_step 16 typed_literal_rec toks2 = true /\
  spec_step 23 (join_rec p_identifier_list FromPrev) toks2 = true /\
  spec_step 18 (join_rec p_comparison FromPrev) toks2 = true.
Proof. conj_vm. Qed.
