(* C12, pipeline level, FINITE family (bound in the statement): syntactic contexts x quotings of the name x optional
   qualifier x alias forms, evaluated through the WHOLE model pipeline (lexer, splitter, all 25 grouping passes): the
   tree contains an Identifier whose text is exactly the written reference, and on it get_real_name / get_parent_name /
   get_alias / has_alias / get_name return the written parts with the quotes removed.  The unbounded theorem
   (Acc/AccFacts.v C12_reference) is about the accessors on the Identifier shapes; this family ties those shapes to what
   the grouping passes really build.  Every vm_compute is on a closed term. *)
From SqlModel Require Import Base PyStr Str Node Passes Accessors.
From SqlModel.Inst Require Import Cur.
From Coq Require Import String.
Open Scope string_scope.
Open Scope list_scope.

(* (written text, unquoted) *)
Definition names : list (text * text) :=
  [(tx "col", tx "col"); (tx """my col""", tx "my col"); (tx "`b q`", tx "b q"); (tx "[x]", tx "[x]")].
Definition quals : list (option (text * text)) :=
  [None; Some (tx "s", tx "s"); Some (tx """S s""", tx "S s")].
(* (written between name and alias incl. the alias, alias unquoted) *)
Definition aliases : list (text * option text) :=
  [([], None); (tx " as x", Some (tx "x")); (tx " AS ""x y""", Some (tx "x y")); (tx " x1", Some (tx "x1"));
   (tx "  As  `z`", Some (tx "z"))].
(* prefix, suffix *)
Definition contexts : list (text * text) :=
  [(tx "select ", tx " from t"); (tx "select a, ", tx ", b from t"); (tx "select * from ", []);
   (tx "select * from ", tx " where x = 1"); (tx "select * from t join ", tx " on 1 = 1");
   (tx "select * from t, ", tx " order by 1"); (tx "update ", tx " set a = 1"); (tx "delete from ", tx " where a");
   (tx "select * from (select ", tx " from u) v"); (tx "select 1 where exists (select * from ", tx ")");
   (tx "insert into ", tx " values (1)")].

Fixpoint all_nodes (fuel : nat) (n : node) : list node :=
  match fuel with
  | O => []
  | S f => n :: flat_map (all_nodes f) (nkids n)
  end.

Definition opt_text_eqb (a b : option text) : bool :=
  match a, b with
  | Some x, Some y => text_eqb x y
  | None, None => true
  | _, _ => false
  end.

Definition res_opt_is (r : res (option text)) (b : option text) : bool :=
  match r with Ok a => opt_text_eqb a b | Err _ => false end.
Definition res_bool_is (r : res bool) (b : bool) : bool :=
  match r with Ok a => Bool.eqb a b | Err _ => false end.

Definition ref_ok (n : node) (refw : text) (q : option text) (nm : text) (al : option text) : bool :=
  inst n CIdentifier && text_eqb (text_of n) refw
  && res_opt_is (get_real_name n) (Some nm)
  && res_opt_is (get_parent_name n) q
  && res_opt_is (get_alias n) al
  && res_bool_is (has_alias n) (match al with Some _ => true | None => false end)
  && res_opt_is (get_name n) (Some (match al with Some a => a | None => nm end)).

Definition case_ok (c : text * text) (q : option (text * text)) (nm : text * text) (al : text * option text) : bool :=
  let refw := (match q with Some (qw, _) => qw ++ tx "." | None => [] end) ++ fst nm ++ fst al in
  match cur_parse (fst c ++ refw ++ snd c) with
  | Ok [s] => existsb (fun n => ref_ok n refw (option_map snd q) (snd nm) (snd al)) (all_nodes 12 s)
  | _ => false
  end.

Definition c12_cases : list ((text * text) * option (text * text) * (text * text) * (text * option text)) :=
  flat_map (fun c => flat_map (fun q => flat_map (fun nm => map (fun al => (c, q, nm, al)) aliases) names) quals) contexts.

Definition c12_case_ok (x : (text * text) * option (text * text) * (text * text) * (text * option text)) : bool :=
  let '(c, q, nm, al) := x in case_ok c q nm al.

Lemma c12_family_size : List.length c12_cases = 660%nat.
Proof. vm_compute. reflexivity. Qed.

Theorem C12_pipeline_fin : forallb c12_case_ok c12_cases = true.
Proof. vm_compute. reflexivity. Qed.

Lemma forallb_In {A} (f : A -> bool) (l : list A) (x : A) : forallb f l = true -> In x l -> f x = true.
Proof. intros H Hx. exact (proj1 (forallb_forall f l) H x Hx). Qed.

(* unfolded: what the family says about one member *)
Theorem C12_pipeline_fin_member : forall c q nm al,
  In c contexts -> In q quals -> In nm names -> In al aliases ->
  let refw := (match q with Some (qw, _) => qw ++ tx "." | None => [] end) ++ fst nm ++ fst al in
  exists s n, cur_parse (fst c ++ refw ++ snd c) = Ok [s] /\ In n (all_nodes 12 s)
    /\ inst n CIdentifier = true /\ text_of n = refw
    /\ get_real_name n = Ok (Some (snd nm)) /\ get_parent_name n = Ok (option_map snd q)
    /\ get_alias n = Ok (snd al)
    /\ get_name n = Ok (Some (match snd al with Some a => a | None => snd nm end)).
Proof.
  intros c q nm al Hc Hq Hn Ha refw.
  assert (Hin : In (c, q, nm, al) c12_cases).
  { unfold c12_cases. apply in_flat_map. exists c. split; [exact Hc|].
    apply in_flat_map. exists q. split; [exact Hq|].
    apply in_flat_map. exists nm. split; [exact Hn|].
    apply in_map. exact Ha. }
  pose proof (forallb_In c12_case_ok c12_cases _ C12_pipeline_fin Hin) as H.
  cbv beta iota in H. unfold c12_case_ok, case_ok in H. fold refw in H.
  destruct (cur_parse (fst c ++ refw ++ snd c)) as [[|s [|s' l]]|e]; try discriminate.
  apply existsb_exists in H. destruct H as (n & Hnin & Hok).
  unfold ref_ok in Hok.
  repeat (apply andb_true_iff in Hok; destruct Hok as [Hok ?]).
  exists s, n. split; [reflexivity|]. split; [exact Hnin|].
  repeat match goal with
  | H : res_opt_is ?r ?b = true |- _ =>
      let a := fresh "a" in
      unfold res_opt_is in H; destruct r as [a|] eqn:?; [|discriminate];
      assert (a = b) by (destruct a, b; cbn [opt_text_eqb] in H; try discriminate; try reflexivity;
                         apply text_eqb_eq in H; now f_equal); subst a; clear H
  end.
  repeat split; try assumption; try reflexivity.
  match goal with H : text_eqb _ _ = true |- _ => apply text_eqb_eq in H; exact H end.
Qed.
Print Assumptions C12_pipeline_fin_member.
