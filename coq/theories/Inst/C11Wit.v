(* C11: model-level witnesses (by evaluation of the model on concrete texts).
   Each *_refuted theorem exhibits two texts that differ only in whitespace between tokens / inside
   a multi-word keyword / in the letter case of a keyword -- their lexings are related by the
   UNGUARDED skeleton relation skel0b -- and on which the splitter or the parser of the model
   (validated against the implementation by the parse correspondence) gives different statement
   boundaries or tree shapes. *)
From SqlModel Require Import Base PyStr Re Lexer SplitDefs Splitter Node Passes MatchSpec Cur.
From SqlModel Require Import Skeleton Skel.
From SqlModel.Gen Require Import CaseTabs SplitTab.

(* 'select 1 where x=1 order by a'  /  'select 1 where x=1 order  by a' *)
Definition w_order_by_a : text := [115; 101; 108; 101; 99; 116; 32; 49; 32; 119; 104; 101; 114; 101; 32; 120; 61; 49; 32; 111; 114; 100; 101; 114; 32; 98; 121; 32; 97]%N.
Definition w_order_by_b : text := [115; 101; 108; 101; 99; 116; 32; 49; 32; 119; 104; 101; 114; 101; 32; 120; 61; 49; 32; 111; 114; 100; 101; 114; 32; 32; 98; 121; 32; 97]%N.
(* 'select 1 where x=1 union all select 2'  /  'select 1 where x=1 union\nall select 2' *)
Definition w_union_all_a : text := [115; 101; 108; 101; 99; 116; 32; 49; 32; 119; 104; 101; 114; 101; 32; 120; 61; 49; 32; 117; 110; 105; 111; 110; 32; 97; 108; 108; 32; 115; 101; 108; 101; 99; 116; 32; 50]%N.
Definition w_union_all_b : text := [115; 101; 108; 101; 99; 116; 32; 49; 32; 119; 104; 101; 114; 101; 32; 120; 61; 49; 32; 117; 110; 105; 111; 110; 10; 97; 108; 108; 32; 115; 101; 108; 101; 99; 116; 32; 50]%N.
(* 'if x then y end if z'  /  'if x then y end  if z' *)
Definition w_end_if_a : text := [105; 102; 32; 120; 32; 116; 104; 101; 110; 32; 121; 32; 101; 110; 100; 32; 105; 102; 32; 122]%N.
Definition w_end_if_b : text := [105; 102; 32; 120; 32; 116; 104; 101; 110; 32; 121; 32; 101; 110; 100; 32; 32; 105; 102; 32; 122]%N.
(* 'for i in r loop y end loop z'  /  'for i in r loop y end\tloop z' *)
Definition w_end_loop_a : text := [102; 111; 114; 32; 105; 32; 105; 110; 32; 114; 32; 108; 111; 111; 112; 32; 121; 32; 101; 110; 100; 32; 108; 111; 111; 112; 32; 122]%N.
Definition w_end_loop_b : text := [102; 111; 114; 32; 105; 32; 105; 110; 32; 114; 32; 108; 111; 111; 112; 32; 121; 32; 101; 110; 100; 9; 108; 111; 111; 112; 32; 122]%N.
(* 'create table foo AS select f(x)'  /  'create table foo as select f(x)' *)
Definition w_as_case_a : text := [99; 114; 101; 97; 116; 101; 32; 116; 97; 98; 108; 101; 32; 102; 111; 111; 32; 65; 83; 32; 115; 101; 108; 101; 99; 116; 32; 102; 40; 120; 41]%N.
Definition w_as_case_b : text := [99; 114; 101; 97; 116; 101; 32; 116; 97; 98; 108; 101; 32; 102; 111; 111; 32; 97; 115; 32; 115; 101; 108; 101; 99; 116; 32; 102; 40; 120; 41]%N.
(* 'select 1 GO select 2'  /  'select 1 go select 2' *)
Definition w_go_case_a : text := [115; 101; 108; 101; 99; 116; 32; 49; 32; 71; 79; 32; 115; 101; 108; 101; 99; 116; 32; 50]%N.
Definition w_go_case_b : text := [115; 101; 108; 101; 99; 116; 32; 49; 32; 103; 111; 32; 115; 101; 108; 101; 99; 116; 32; 50]%N.
(* 'create procedure p() begin if x then y; end if; end; select 1'  /  'create procedure p() begin if x then y; end  if; end; select 1' *)
Definition w_split_end_if_a : text := [99; 114; 101; 97; 116; 101; 32; 112; 114; 111; 99; 101; 100; 117; 114; 101; 32; 112; 40; 41; 32; 98; 101; 103; 105; 110; 32; 105; 102; 32; 120; 32; 116; 104; 101; 110; 32; 121; 59; 32; 101; 110; 100; 32; 105; 102; 59; 32; 101; 110; 100; 59; 32; 115; 101; 108; 101; 99; 116; 32; 49]%N.
Definition w_split_end_if_b : text := [99; 114; 101; 97; 116; 101; 32; 112; 114; 111; 99; 101; 100; 117; 114; 101; 32; 112; 40; 41; 32; 98; 101; 103; 105; 110; 32; 105; 102; 32; 120; 32; 116; 104; 101; 110; 32; 121; 59; 32; 101; 110; 100; 32; 32; 105; 102; 59; 32; 101; 110; 100; 59; 32; 115; 101; 108; 101; 99; 116; 32; 49]%N.
(* 'select 1; -- c\nselect 2'  /  'select 1;\n-- c\nselect 2' *)
Definition w_comment_nl_a : text := [115; 101; 108; 101; 99; 116; 32; 49; 59; 32; 45; 45; 32; 99; 10; 115; 101; 108; 101; 99; 116; 32; 50]%N.
Definition w_comment_nl_b : text := [115; 101; 108; 101; 99; 116; 32; 49; 59; 10; 45; 45; 32; 99; 10; 115; 101; 108; 101; 99; 116; 32; 50]%N.
(* 'select 1; -- c\n'  /  'select 1;\n-- c\n' *)
Definition w_comment_nl_count_a : text := [115; 101; 108; 101; 99; 116; 32; 49; 59; 32; 45; 45; 32; 99; 10]%N.
Definition w_comment_nl_count_b : text := [115; 101; 108; 101; 99; 116; 32; 49; 59; 10; 45; 45; 32; 99; 10]%N.
(* 'select 1 GO 2 select 2'  /  'select 1 GO  2 select 2' *)
Definition w_go_n_a : text := [115; 101; 108; 101; 99; 116; 32; 49; 32; 71; 79; 32; 50; 32; 115; 101; 108; 101; 99; 116; 32; 50]%N.
Definition w_go_n_b : text := [115; 101; 108; 101; 99; 116; 32; 49; 32; 71; 79; 32; 32; 50; 32; 115; 101; 108; 101; 99; 116; 32; 50]%N.
(* 'select a, b from t where x = 1 order by a; select 2'  /  'SELECT\ta,\nb\r\nFROM  t Where x\t=\n1   Order By a;\n\nselect 2' *)
Definition w_pos_a : text := [115; 101; 108; 101; 99; 116; 32; 97; 44; 32; 98; 32; 102; 114; 111; 109; 32; 116; 32; 119; 104; 101; 114; 101; 32; 120; 32; 61; 32; 49; 32; 111; 114; 100; 101; 114; 32; 98; 121; 32; 97; 59; 32; 115; 101; 108; 101; 99; 116; 32; 50]%N.
Definition w_pos_b : text := [83; 69; 76; 69; 67; 84; 9; 97; 44; 10; 98; 13; 10; 70; 82; 79; 77; 32; 32; 116; 32; 87; 104; 101; 114; 101; 32; 120; 9; 61; 10; 49; 32; 32; 32; 79; 114; 100; 101; 114; 32; 66; 121; 32; 97; 59; 10; 10; 115; 101; 108; 101; 99; 116; 32; 50]%N.
(* 'select (a + b) as c from t join u on t.x = u.y where x in (1, 2) group by c'  /  'SELECT\t(a\n+\tb)\r\nAS c FROM\n\nt  JOIN u ON t.x  =  u.y WHERE x IN (1,\t2) GROUP BY c' *)
Definition w_pos2_a : text := [115; 101; 108; 101; 99; 116; 32; 40; 97; 32; 43; 32; 98; 41; 32; 97; 115; 32; 99; 32; 102; 114; 111; 109; 32; 116; 32; 106; 111; 105; 110; 32; 117; 32; 111; 110; 32; 116; 46; 120; 32; 61; 32; 117; 46; 121; 32; 119; 104; 101; 114; 101; 32; 120; 32; 105; 110; 32; 40; 49; 44; 32; 50; 41; 32; 103; 114; 111; 117; 112; 32; 98; 121; 32; 99]%N.
Definition w_pos2_b : text := [83; 69; 76; 69; 67; 84; 9; 40; 97; 10; 43; 9; 98; 41; 13; 10; 65; 83; 32; 99; 32; 70; 82; 79; 77; 10; 10; 116; 32; 32; 74; 79; 73; 78; 32; 117; 32; 79; 78; 32; 116; 46; 120; 32; 32; 61; 32; 32; 117; 46; 121; 32; 87; 72; 69; 82; 69; 32; 120; 32; 73; 78; 32; 40; 49; 44; 9; 50; 41; 32; 71; 82; 79; 85; 80; 32; 66; 89; 32; 99]%N.

(* observations *)
Definition lexed (t : text) : list tok := match cur_lex t with Ok l => l | Err _ => [] end.
Definition lex_ok (t : text) : bool := match cur_lex t with Ok _ => true | Err _ => false end.
Definition split_sigs (t : text) : list (list tok) := stmt_sigs (cur_process (lexed t)).
Definition parse_shapes (t : text) : res (list (ashp tok)) :=
  stmts <- cur_parse t ;; Ok (map shape stmts).

(* two texts are respellings of each other in the sense of C11 (on their lexings) *)
Definition respelling (t t' : text) : Prop :=
  lex_ok t = true /\ lex_ok t' = true /\ skel0b (lexed t) (lexed t') = true.

(* a projection of shapes that vm_compute can compare cheaply: classes and leaf counts *)
Inductive sk := SL | SG (c : cls) (l : list sk).
Fixpoint tosk {A} (x : ashp A) : sk := match x with ALeaf _ => SL | AGrp c k => SG c (map tosk k) end.
Definition parse_sk (t : text) : res (list sk) := s <- parse_shapes t ;; Ok (map tosk s).

Lemma parse_sk_neq t t' : parse_sk t <> parse_sk t' -> parse_shapes t <> parse_shapes t'.
Proof. intros H E. apply H. unfold parse_sk. rewrite E. reflexivity. Qed.

(* never [split] an equation: that would check it by lazy conversion *)
Ltac vm := vm_compute; reflexivity.
Ltac respell := unfold respelling; split; [vm | split; vm].
Ltac shapes_differ := apply parse_sk_neq; vm_compute; discriminate.

(* ---- F4 (FIXED in /repo: Token.normalized collapses the white space inside compound keywords): the former
        refutation witnesses now parse to the same shapes ------------------------------------------- *)
Example C11_order_by_ws_same :
  respelling w_order_by_a w_order_by_b /\ parse_shapes w_order_by_a = parse_shapes w_order_by_b.
Proof. split; [respell | vm]. Qed.

Example C11_union_all_ws_same :
  respelling w_union_all_a w_union_all_b /\ parse_shapes w_union_all_a = parse_shapes w_union_all_b.
Proof. split; [respell | vm]. Qed.

Example C11_end_if_ws_same :
  respelling w_end_if_a w_end_if_b /\ parse_shapes w_end_if_a = parse_shapes w_end_if_b.
Proof. split; [respell | vm]. Qed.

Example C11_end_loop_ws_same :
  respelling w_end_loop_a w_end_loop_b /\ parse_shapes w_end_loop_a = parse_shapes w_end_loop_b.
Proof. split; [respell | vm]. Qed.

(* ---- F5 (FIXED in /repo): group_functions tested value == 'AS' case-sensitively ---------------------- *)
Example C11_as_case_same :
  respelling w_as_case_a w_as_case_b /\ parse_shapes w_as_case_a = parse_shapes w_as_case_b.
Proof. split; [respell | vm]. Qed.

(* ---- the splitter (FIXED in /repo): GO was recognised in upper case only ---------------------------- *)
Example C11_go_case_same :
  respelling w_go_case_a w_go_case_b
  /\ length (split_sigs w_go_case_a) = 2 /\ split_sigs w_go_case_a = split_sigs w_go_case_b.
Proof. split; [respell | split; vm]. Qed.

(* ---- the splitter: END IF / END FOR / END WHILE lower the level only when spelled with one blank *)
Example C11_split_end_if_ws_same :
  respelling w_split_end_if_a w_split_end_if_b
  /\ length (split_sigs w_split_end_if_a) = 2 /\ split_sigs w_split_end_if_a = split_sigs w_split_end_if_b.
Proof. split; [respell | split; vm]. Qed.

(* ---- the splitter: a single-line comment after a terminator belongs to the statement before it
        iff no line break separates them ---------------------------------------------------------- *)
Theorem C11_comment_after_semi_refuted :
  respelling w_comment_nl_a w_comment_nl_b
  /\ map (@length _) (split_sigs w_comment_nl_a) = [4; 2]
  /\ map (@length _) (split_sigs w_comment_nl_b) = [3; 3].
Proof. split; [respell | split; vm]. Qed.

Theorem C11_comment_after_semi_count_refuted :
  respelling w_comment_nl_count_a w_comment_nl_count_b
  /\ length (split_sigs w_comment_nl_count_a) = 1 /\ length (split_sigs w_comment_nl_count_b) = 2.
Proof. split; [respell | split; vm]. Qed.

(* ---- the lexer (FIXED in /repo: the rule is now GO(\s+\d+)\b like every other compound keyword; before, "GO 2" was one
        token and "GO  2" three): the two spellings lex to related streams ------------------------------------- *)
Example C11_go_n_lex_same :
  lex_ok w_go_n_a = true /\ lex_ok w_go_n_b = true
  /\ skel0b (lexed w_go_n_a) (lexed w_go_n_b) = true
  /\ length (sig (lexed w_go_n_a)) = 5 /\ length (sig (lexed w_go_n_b)) = 5
  /\ split_sigs w_go_n_a = split_sigs w_go_n_b.
Proof. split; [vm|]. split; [vm|]. split; [vm|]. split; [vm|]. split; vm. Qed.

(* ---- positive examples: the hypotheses of the invariance theorems are satisfiable ---------------- *)
Example C11_pos_skel :
  skelb (lexed w_pos_a) (lexed w_pos_b) = true /\ split_sigs w_pos_a = split_sigs w_pos_b
  /\ length (split_sigs w_pos_a) = 2.
Proof. split; [vm|]. split; vm. Qed.

Example C11_pos_parse :
  skelb (lexed w_pos2_a) (lexed w_pos2_b) = true /\ parse_shapes w_pos2_a = parse_shapes w_pos2_b.
Proof. split; vm. Qed.

(* ---- grouping: two `:=` in one statement -- group_assignment (the generic _group driver) groups up to the far `;` and walks
        on with stale indices; where they land depends on HOW MANY white-space tokens precede: two leading blanks give
        Assignment(Assignment(..)), one gives Assignment(..)  (finding C11-assignment-stale-index; the same mechanism as C18-3) *)
Definition w_assign2_a : text := [32; 32; 120; 58; 61; 120; 58; 61; 59]%N.     (* two blanks, x:=x:=; *)
Definition w_assign2_b : text := [32; 120; 58; 61; 120; 58; 61; 59]%N.         (* one blank,  x:=x:=; *)
Theorem C11_assignment_run_refuted :
  respelling w_assign2_a w_assign2_b /\ parse_shapes w_assign2_a <> parse_shapes w_assign2_b.
Proof. split; [respell | shapes_differ]. Qed.

Print Assumptions C11_comment_after_semi_refuted.
Print Assumptions C11_assignment_run_refuted.
