(* C11, letter case, from text to statements: re-casing ASCII letters inside keyword tokens (GO
   excepted: the splitter recognises it in upper case only) changes neither the token types nor the
   statement boundaries.  Composition of Inst/CaseInv.v (lexer) with Split/SkeletonFacts.v. *)
From SqlModel Require Import Base PyStr Re Lexer SplitDefs Splitter CaseDefs RelInv LexRel CaseRel.
From SqlModel Require Import Skeleton SkeletonFacts.
From SqlModel.Gen Require Import Atoms CaseTabs KwTabs Rules SplitTab.
From SqlModel.Inst Require Import Cur CaseInv.

(* what the re-casing may touch: only keyword tokens; and a GO keeps the spelling the splitter reads *)
Definition case_guard (a b : tok) : Prop :=
  (is_kw_tok a = false -> snd a = snd b)
  /\ (ttype_eqb (fst a) T_Keyword = true -> go_word a = go_word b).

Definition case_rel (a b : tok) : Prop :=
  (fst a = fst b /\ Forall2 Rcase (snd a) (snd b)) /\ case_guard a b.

Lemma case_rel_skel a b : case_rel a b -> is_ws_tok a = false -> tok_skel a b.
Proof.
  intros [[Hty Hv] [Hn Hg]] _. split; [exact Hty|].
  destruct (is_kw_tok a) eqn:K.
  - pose proof (cur_Rcase_upper _ _ Hv) as Hu. split; [rewrite Hu; reflexivity|].
    split; [unfold end_multi; rewrite Hu; reflexivity|exact Hg].
  - apply Hn. reflexivity.
Qed.

Theorem C11_case_split t t' l l' :
  Forall2 Rcase t t' -> cur_lex t = Ok l -> cur_lex t' = Ok l' ->
  Forall2 case_guard l l' ->
  map fst l = map fst l'
  /\ stmt_sigs (cur_process l) = stmt_sigs (cur_process l').
Proof.
  intros Ht El El' Hg. pose proof (C_lex_case t t' Ht) as H. rewrite El, El' in H.
  split; [exact (tok_rel_types Rcase l l' H)|].
  assert (HQ : Forall2 case_rel l l').
  { clear - H Hg. revert Hg. induction H as [|a b l l' Hab _ IH]; intros Hg; [constructor|].
    inversion Hg as [|a0 b0 l0 l0' Hg1 Hg2]; subst. constructor; [split; assumption|auto]. }
  apply (split_pointwise case_rel); [|exact case_rel_skel|exact HQ].
  intros a b [[Hty _] _]. exact Hty.
Qed.
Print Assumptions C11_case_split.

(* GO included (the splitter upper-cases the first word since the fix of C11-go-case): re-casing ASCII letters
   inside keyword tokens, ANY keyword tokens *)
Definition kw_only (a b : tok) : Prop := is_kw_tok a = false -> snd a = snd b.

Lemma kw_only_guard a b : fst a = fst b -> Forall2 Rcase (snd a) (snd b) -> kw_only a b -> case_guard a b.
Proof.
  intros Hty Hv Hn. split; [exact Hn|]. intros _.
  pose proof (cur_Rcase_upper _ _ Hv) as Hu.
  apply (guard_free a b Hty). rewrite Hu. reflexivity.
Qed.

Theorem C11_case_split_full t t' l l' :
  Forall2 Rcase t t' -> cur_lex t = Ok l -> cur_lex t' = Ok l' ->
  Forall2 kw_only l l' ->
  map fst l = map fst l'
  /\ stmt_sigs (cur_process l) = stmt_sigs (cur_process l').
Proof.
  intros Ht El El' Hg. apply (C11_case_split t t' l l' Ht El El').
  pose proof (C_lex_case t t' Ht) as H. rewrite El, El' in H.
  clear - H Hg. revert Hg. induction H as [|a b l l' [Hty Hv] _ IH]; intros Hg; [constructor|].
  inversion Hg as [|a0 b0 l0 l0' Hg1 Hg2]; subst. constructor; [|auto].
  apply kw_only_guard; assumption.
Qed.
Print Assumptions C11_case_split_full.

(* example: "select a from t where x = 1 order by a; select 2" upper-casing all keywords *)
Definition ex_case_a : text :=
  [115;101;108;101;99;116;32;97;32;102;114;111;109;32;116;32;119;104;101;114;101;32;120;32;61;32;49;32;111;114;100;101;114;32;98;121;32;97;59;32;115;101;108;101;99;116;32;50]%N.
Definition ex_case_b : text :=
  [83;69;76;69;67;84;32;97;32;70;82;79;77;32;116;32;87;72;69;82;69;32;120;32;61;32;49;32;79;82;68;69;82;32;66;89;32;97;59;32;83;69;76;69;67;84;32;50]%N.

Definition case_guard_b (a b : tok) : bool :=
  (is_kw_tok a || text_eqb (snd a) (snd b))
  && (negb (ttype_eqb (fst a) T_Keyword) || Bool.eqb (go_word a) (go_word b)).

Example ex_case_hyps :
  text_Rcase_b ex_case_a ex_case_b = true
  /\ match cur_lex ex_case_a, cur_lex ex_case_b with
     | Ok l, Ok l' => forall2b case_guard_b l l'
     | _, _ => false
     end = true.
Proof. split; vm_compute; reflexivity. Qed.
