(* The model instantiated with the tables regenerated from /repo's current source. *)
From SqlModel Require Import Base PyStr Re Lexer SplitDefs Splitter Node Passes.
From SqlModel.Gen Require Import Atoms CaseTabs KwTabs Rules SplitTab.

Definition cur_lex (t : text) : res (list tok) := lex lower upper sql_regex kws t.
Definition cur_first_match (x : st) : option (action * nat) := first_match lower sql_regex x.
Definition cur_rmatch (i : nat) (x : st) : option nat :=
  match nth_error sql_regex i with
  | Some (r, _) => rmatch lower r x
  | None => None
  end.

(* statement splitter over the current decision tables *)
Definition cur_process (stream : list tok) : list (list tok) :=
  process reset_sstate change_splitlevel eos_ttypes is_terminator stream.

Definition cur_split_stream (t : text) : res (list (list tok)) :=
  toks <- cur_lex t ;; Ok (cur_process toks).

(* parse(): lex, split, group each statement; group_upto k stops after the first k passes *)
Definition cur_parse_upto (k : nat) (t : text) : res (list node) :=
  stmts <- cur_split_stream t ;; mapM (fun s => group_upto k (statement_of s)) stmts.
Definition cur_parse (t : text) : res (list node) :=
  stmts <- cur_split_stream t ;; mapM (fun s => group (statement_of s)) stmts.
