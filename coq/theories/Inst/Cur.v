(* The model instantiated with the tables regenerated from /repo's current source. *)
From SqlModel Require Import Base Re Lexer.
From SqlModel.Gen Require Import Atoms CaseTabs KwTabs Rules.

Definition cur_lex (t : text) : res (list tok) := lex lower upper sql_regex kws t.
Definition cur_first_match (x : st) : option (action * nat) := first_match lower sql_regex x.
Definition cur_rmatch (i : nat) (x : st) : option nat :=
  match nth_error sql_regex i with
  | Some (r, _) => rmatch lower r x
  | None => None
  end.
