(* C11, letter case of keywords, grouping layer and the whole parse: instances of Group/CaseRelFacts.v
   for the current tables.
     1. the callbacks of the eleven `_group` calls generated in Gen/PassTab.v are case safe (computed);
        the only post callback that is not is group_operator's re-typing, treated through
        CaseRelFacts.operator_driver_eq;
     2. every one of the 25 passes respects [crelG Rl Rg] -- group_functions under the AS guard;
     3. the instances crel / crel_as, grouping.group, and parse() from the text. *)
From SqlModel Require Import Base PyStr Re Lexer SplitDefs Splitter Node Inv Passes PassIR.
From SqlModel Require Import CaseDefs Skeleton SkeletonFacts CaseRelDefs CaseRelFacts Accessors.
From SqlModel.Gen Require Import Atoms CaseTabs KwTabs Rules SplitTab PassTab.
From SqlModel.Inst Require Import Cur CaseInv PassTabDefs PassTabOk PassTabRun C11Wit C11GroupDefs.
From Coq Require Import Bool Lia.

(* ================================================================================================ *)
(* 1. the callback tables                                                                           *)
Theorem callbacks_case_safe : forallb (fun x => case_safe (snd x)) pt_callbacks = true.
Proof. vm_compute. reflexivity. Qed.

Theorem unsafe_callbacks_none : unsafe_callbacks = [].
Proof. vm_compute. reflexivity. Qed.

Theorem unsafe_posts_operator : unsafe_posts = [CbNames.operator_post_name].
Proof. vm_compute. reflexivity. Qed.

(* the check is not trivial: what it rejects *)
Example case_safe_rejects :
  case_safe (ValueEq s_AS) = false                                   (* token.value == 'AS' *)
  /\ case_safe (NormalizedEq s_NULL) = false                          (* on a group: str(group) == 'NULL' *)
  /\ case_safe (And IsKeyword (NormalizedEq s_NULL)) = true           (* keyword leaves only: upper-cased *)
  /\ case_safe (Or (NormalizedEq s_NULL) (Not IsKeyword)) = true      (* group_as.valid_prev *)
  /\ case_safe (And (Not IsKeyword) (ValueEq s_AS)) = false           (* conservative *)
  /\ post_case_safe (PostRetype T_Operator IxP IxN) = false.
Proof. repeat split; vm_compute; reflexivity. Qed.

(* and a callback that is not case safe does tell related tokens apart *)
Example value_eq_not_invariant :
  crel (Leaf T_Keyword [65; 83]%N) (Leaf T_Keyword [97; 115]%N) /\
  eval_px (ValueEq s_AS) (Some (Leaf T_Keyword [65; 83]%N))
  <> eval_px (ValueEq s_AS) (Some (Leaf T_Keyword [97; 115]%N)).
Proof.
  split; [|vm_compute; discriminate].
  constructor. cbn. constructor; [right; left; split; [split|]; reflexivity || discriminate|].
  constructor; [right; left; split; [split|]; reflexivity || discriminate | constructor].
Qed.

(* ================================================================================================ *)
(* 2. the 25 passes, generically                                                                    *)
Section Passes.
Variables Rl Rg : text -> text -> Prop.
Hypothesis HRl : forall v v', Rl v v' ->
  knorm v = knorm v' /\ (forall s, nospace s = true -> text_eqb (upper v) s = text_eqb (upper v') s).
Hypothesis Hmk : forall k k', Forall2 (crelG Rl Rg) k k' -> Rg (text_of_list k) (text_of_list k').
Notation R := (crelG Rl Rg).
Notation PREL := (prel Rl Rg).
Notation PINV := (pinvG (crelG Rl Rg)).

Lemma pinv_tied c m vp vn po ext p :
  call_tied c m vp vn po ext p ->
  case_safe m = true -> case_safe vp = true -> case_safe vn = true -> post_case_safe po = true ->
  PINV p.
Proof.
  intros (_ & _ & Hm & Hp & Hn & Hpost) S1 S2 S3 S4.
  apply (pinv_ext Rl Rg (gparams_of c m vp vn po ext) p).
  - intros n. cbn [g_match gparams_of]. apply px_is_on_tokens_eval, Hm.
  - intros n. cbn [g_vprev gparams_of]. apply px_is_on_tokens_eval, Hp.
  - intros o. cbn [g_vnext gparams_of]. apply px_is_eval, Hn.
  - intros l pi ti ni. cbn [g_post gparams_of]. apply Hpost.
  - apply pinv_gparams_of; assumption.
Qed.

Ltac tied H := apply (pinv_tied _ _ _ _ _ _ _ H); vm_compute; reflexivity.
Lemma pinv_typecasts : PINV p_typecasts. Proof. tied typecasts_tied. Qed.
Lemma pinv_tzcasts : PINV p_tzcasts. Proof. tied tzcasts_tied. Qed.
Lemma pinv_typed1 : PINV p_typed_literal1. Proof. tied typed_literal1_tied. Qed.
Lemma pinv_typed2 : PINV p_typed_literal2. Proof. tied typed_literal2_tied. Qed.
Lemma pinv_period : PINV p_period. Proof. tied period_tied. Qed.
Lemma pinv_arrays : PINV p_arrays. Proof. tied arrays_tied. Qed.
Lemma pinv_comparison : PINV p_comparison. Proof. tied comparison_tied. Qed.
Lemma pinv_as : PINV p_as. Proof. tied as_tied. Qed.
Lemma pinv_assignment : PINV p_assignment. Proof. tied assignment_tied. Qed.
Lemma pinv_idlist : PINV p_identifier_list. Proof. tied identifier_list_tied. Qed.

Lemma prel_driver p : PINV p -> PREL (group_driver p).
Proof. intros Hp n n' H. apply group_driver_rel; assumption. Qed.
Lemma prel_driver_flat p : PINV p -> PREL (group_driver_flat p).
Proof. intros Hp n n' H. apply group_driver_flat_rel; assumption. Qed.
Lemma prel_matching c : PREL (group_matching c).
Proof. intros n n' H. apply group_matching_rel; assumption. Qed.
Lemma prel_recurse skip f : frel Rl Rg f -> PREL (recurse_pass skip f).
Proof. intros Hf n n' H. apply recurse_pass_rel; assumption. Qed.

(* group_operator: through the guarded record *)
Lemma prel_operator : PREL (group_driver p_operator).
Proof.
  apply (prel_ext Rl Rg (group_driver p_operator_safe)).
  - intros n. symmetry. apply operator_driver_eq.
  - apply prel_driver. apply (pinv_operator_safe Rl Rg HRl).
Qed.

Lemma prel_comments : PREL (recurse_pass [CComment] f_comments).
Proof. apply prel_recurse. exact (f_comments_rel Rl Rg HRl Hmk (TOne T_Comment) CComment). Qed.
Lemma prel_over : PREL (recurse_pass [COver] f_over).
Proof. apply prel_recurse. exact (f_over_rel Rl Rg HRl Hmk (m_open COver) [CParenthesis] (TOne T_Name) COver). Qed.
Lemma prel_where : PREL (recurse_pass [CWhere] f_where).
Proof. apply prel_recurse. exact (f_where_rel Rl Rg HRl Hmk (m_open CWhere) (m_close CWhere) CWhere). Qed.
Lemma prel_identifier : PREL (recurse_pass [CIdentifier] f_identifier).
Proof. apply prel_recurse. exact (f_identifier_rel Rl Rg HRl Hmk (TMany [T_Symbol; T_Name]) CIdentifier). Qed.
Lemma prel_order : PREL (recurse_pass [CIdentifier] f_order).
Proof. apply prel_recurse. exact (f_order_rel Rl Rg HRl Hmk (TOne T_Order) [CIdentifier] (TOne T_Number) CIdentifier). Qed.
Lemma prel_aliased : PREL (recurse_pass [] f_aliased).
Proof.
  apply prel_recurse.
  exact (f_aliased_rel Rl Rg HRl Hmk [CParenthesis; CFunction; CCase; CIdentifier; COperation; CComparison]
                       (TOne T_Number) CIdentifier CIdentifier true).
Qed.
Lemma prel_align : PREL (recurse_pass [] f_align_comments).
Proof. apply prel_recurse. exact (f_align_comments_rel Rl Rg HRl Hmk [CComment] CTokenList CTokenList true). Qed.
Lemma prel_values : PREL group_values.
Proof.
  intros n n' H.
  exact (group_values_rel Rl Rg HRl Hmk [(T_Keyword, Some [s_VALUES])] CParenthesis CValues true n n' H).
Qed.

(* group_functions: under the hypotheses on the three value tests *)
Definition fn_guard : Prop :=
  vinv Rl Rg (fun v => text_eqb (upper v) s_CREATE) /\ vinv Rl Rg (fun v => text_eqb (upper v) s_TABLE) /\
  vinv Rl Rg (fun v => text_eqb (upper v) s_AS).

Lemma prel_functions : fn_guard -> PREL (recurse_pass [CFunction] f_functions).
Proof.
  intros (V1 & V2 & V3). apply prel_recurse.
  exact (f_functions_rel Rl Rg HRl Hmk s_CREATE s_TABLE s_AS (TOne T_Name) CParenthesis COver CFunction
                         V1 V2 V3).
Qed.

(* the 24 passes other than group_functions, in order *)
Lemma passes_but_functions : Forall PREL (firstn 8 passes ++ skipn 9 passes).
Proof.
  cbn [passes firstn skipn app].
  repeat first
    [ apply Forall_nil
    | apply Forall_cons ].
  - exact prel_comments.
  - apply prel_matching. - apply prel_matching. - apply prel_matching.
  - apply prel_matching. - apply prel_matching. - apply prel_matching.
  - exact prel_over.
  - exact prel_where.
  - apply prel_driver, pinv_period.
  - apply prel_driver_flat, pinv_arrays.
  - exact prel_identifier.
  - exact prel_order.
  - apply prel_driver, pinv_typecasts.
  - apply prel_driver, pinv_tzcasts.
  - intros n n' H. eapply rres_bind; [apply (prel_driver _ pinv_typed1), H|].
    intros m m' Hm. apply (prel_driver _ pinv_typed2), Hm.
  - exact prel_operator.
  - apply prel_driver, pinv_comparison.
  - apply prel_driver, pinv_as.
  - exact prel_aliased.
  - apply prel_driver, pinv_assignment.
  - exact prel_align.
  - apply prel_driver, pinv_idlist.
  - exact prel_values.
Qed.

Lemma passes_prel : fn_guard -> Forall PREL passes.
Proof.
  intros G. pose proof passes_but_functions as H.
  change passes with (firstn 8 passes ++ nth 8 passes (fun n => Ok n) :: skipn 9 passes).
  apply Forall_app in H. destruct H as [H1 H2]. apply Forall_app. split; [exact H1|].
  constructor; [|exact H2]. exact (prel_functions G).
Qed.

Lemma Forall_firstn {A} (P : A -> Prop) k l : Forall P l -> Forall P (firstn k l).
Proof. intros H; revert k. induction H; intros [|k]; cbn [firstn]; constructor; auto. Qed.

Theorem group_prel : fn_guard -> PREL group.
Proof. intros G. apply run_passes_rel, passes_prel, G. Qed.

Theorem group_upto_prel k : fn_guard -> PREL (group_upto k).
Proof. intros G. apply run_passes_rel, Forall_firstn, passes_prel, G. Qed.

(* no guard is needed before group_functions ... *)
Theorem group_upto8_prel k : k <= 8 -> PREL (group_upto k).
Proof.
  intros Hk. apply run_passes_rel.
  replace (firstn k passes) with (firstn k (firstn 8 passes)).
  - apply Forall_firstn. pose proof passes_but_functions as H. apply Forall_app in H. apply H.
  - rewrite firstn_firstn. f_equal. lia.
Qed.

(* ... nor after it *)
Theorem group_after_functions_prel : PREL (run_passes (skipn 9 passes)).
Proof. apply run_passes_rel. pose proof passes_but_functions as H. apply Forall_app in H. apply H. Qed.

End Passes.

(* ================================================================================================ *)
(* 3. the instances                                                                                  *)
(* ---- ASCII re-casing of texts ----------------------------------------------------------------------- *)
Lemma Rcase_refl a : Rcase a a.
Proof. left. reflexivity. Qed.
Lemma CR_refl v : CR v v.
Proof. induction v; constructor; auto using Rcase_refl. Qed.
Lemma CR_upper v v' : CR v v' -> upper v = upper v'.
Proof. apply cur_Rcase_upper. Qed.
Lemma CR_kn v v' : CR v v' -> knorm v = knorm v'.
Proof. intros H. unfold knorm. rewrite (CR_upper _ _ H). reflexivity. Qed.
Lemma CR_ue v v' s : CR v v' -> nospace s = true -> text_eqb (upper v) s = text_eqb (upper v') s.
Proof. intros H _. rewrite (CR_upper _ _ H). reflexivity. Qed.
Lemma CR_rl v v' : CR v v' ->
  knorm v = knorm v' /\ (forall s, nospace s = true -> text_eqb (upper v) s = text_eqb (upper v') s).
Proof. intros H. split; [apply CR_kn, H | intros s; apply CR_ue, H]. Qed.
Lemma CR_length v v' : CR v v' -> length v = length v'.
Proof. induction 1; cbn [length]; congruence. Qed.
Lemma CR_sym v v' : CR v v' -> CR v' v.
Proof.
  induction 1 as [|a b v v' Hab _ IH]; constructor; [|exact IH].
  destruct Hab as [-> | [H | H]]; [left; reflexivity | right; right; exact H | right; left; exact H].
Qed.

Lemma text_Rcase_b_sound v v' : text_Rcase_b v v' = true -> CR v v'.
Proof.
  revert v'. induction v as [|a v IH]; intros [|b v'] H; cbn [text_Rcase_b] in H; try discriminate.
  - constructor.
  - apply andb_true_iff in H. destruct H as [Hab H]. constructor; [|apply IH, H].
    unfold Rcase_b in Hab. apply orb_true_iff in Hab. destruct Hab as [Hab | Hab].
    + apply orb_true_iff in Hab. destruct Hab as [Hab | Hab].
      * left. apply N.eqb_eq, Hab.
      * right; left. apply andb_true_iff in Hab. destruct Hab as [Hab E].
        apply andb_true_iff in Hab. destruct Hab as [L1 L2].
        apply N.leb_le in L1, L2. apply N.eqb_eq in E. split; [split|]; assumption.
    + right; right. apply andb_true_iff in Hab. destruct Hab as [Hab E].
      apply andb_true_iff in Hab. destruct Hab as [L1 L2].
      apply N.leb_le in L1, L2. apply N.eqb_eq in E. split; [split|]; assumption.
Qed.

(* the text of a list of leaves *)
Lemma toks_text_CR (Rl : text -> text -> Prop) : (forall v v', Rl v v' -> CR v v') ->
  forall ls ls', Forall2 (tok_relG Rl) ls ls' -> CR (flat_map snd ls) (flat_map snd ls').
Proof.
  intros HR ls ls' H. induction H as [|a b ls ls' [_ Hv] _ IH]; cbn [flat_map]; [constructor|].
  apply Forall2_app; [|exact IH]. destruct (tin (fst a) T_Keyword); [apply HR, Hv | rewrite Hv; apply CR_refl].
Qed.

Lemma Hmk_crel : forall k k', Forall2 crel k k' -> CR (text_of_list k) (text_of_list k').
Proof.
  intros k k' H. rewrite !text_of_list_leaves. apply (toks_text_CR CR); [auto|].
  apply (leaves_list_rel CR CR), H.
Qed.

(* ---- the guard: concatenations that spell AS --------------------------------------------------------- *)
Definition seg_ok (w w' : text) : Prop := length w = length w' /\ Rl_as w w'.

Lemma seg_nil w' : seg_ok [] w' -> w' = [].
Proof. intros [H _]. destruct w'; [reflexivity | discriminate]. Qed.

Lemma seg_asish w w' : seg_ok w w' -> asishb w = true -> w' = w.
Proof. intros [_ H] Ha. symmetry. apply H. rewrite Ha. reflexivity. Qed.

Lemma concat_spells ws ws' : Forall2 seg_ok ws ws' ->
  forall t, t = [] \/ t = [83%N] \/ t = [65%N; 83%N] -> concat ws = t -> concat ws' = t.
Proof.
  induction 1 as [|w w' ws ws' Hw _ IH]; intros t Ht E; cbn [concat] in *; [exact E|].
  destruct w as [|a [|b [|c w]]].
  - (* w empty *) rewrite (seg_nil _ Hw). cbn [app] in *. apply IH; assumption.
  - (* one character *)
    destruct Ht as [-> | [-> | ->]]; cbn [app] in E; try discriminate.
    + injection E as -> E. rewrite (seg_asish _ _ Hw eq_refl). cbn [app]. f_equal.
      apply IH; [left; reflexivity | exact E].
    + injection E as -> E. rewrite (seg_asish _ _ Hw eq_refl). cbn [app]. f_equal.
      apply IH; [right; left; reflexivity | exact E].
  - (* two characters *)
    destruct Ht as [-> | [-> | ->]]; cbn [app] in E; try discriminate.
    injection E as -> -> E. rewrite (seg_asish _ _ Hw eq_refl). cbn [app]. do 2 f_equal.
    apply IH; [left; reflexivity | exact E].
  - (* longer *)
    destruct Ht as [-> | [-> | ->]]; cbn [app] in E; discriminate.
Qed.

Lemma seg_ok_sym w w' : seg_ok w w' -> seg_ok w' w.
Proof.
  intros [H1 H2]. split; [auto|]. unfold Rl_as in *. intros H. symmetry. apply H2.
  rewrite orb_comm. exact H.
Qed.

Lemma Forall2_flip {A B} (P : A -> B -> Prop) l l' : Forall2 P l l' -> Forall2 (fun b a => P a b) l' l.
Proof. induction 1; constructor; auto. Qed.

Lemma concat_as ws ws' : Forall2 seg_ok ws ws' -> Rg_as (concat ws) (concat ws').
Proof.
  intros H. unfold Rg_as.
  destruct (text_eqb (concat ws) s_AS) eqn:E1.
  - apply text_eqb_eq in E1. symmetry. apply text_eqb_eq.
    apply (concat_spells ws ws' H); [right; right; reflexivity | exact E1].
  - destruct (text_eqb (concat ws') s_AS) eqn:E2; [|reflexivity].
    apply text_eqb_eq in E2.
    assert (H' : Forall2 seg_ok ws' ws).
    { clear - H. induction H as [|a b l l' Hab _ IH]; constructor; [apply seg_ok_sym, Hab | exact IH]. }
    pose proof (concat_spells ws' ws H' s_AS (or_intror (or_intror eq_refl)) E2) as E3.
    apply text_eqb_eq in E3. congruence.
Qed.

Lemma toks_seg ls ls' : Forall2 (tok_relG RlA) ls ls' -> Forall2 seg_ok (map snd ls) (map snd ls').
Proof.
  induction 1 as [|a b ls ls' [_ Hv] _ IH]; cbn [map]; constructor; [|exact IH].
  destruct (tin (fst a) T_Keyword).
  - destruct Hv as [H1 H2]. split; [apply CR_length, H1 | exact H2].
  - rewrite Hv. split; [reflexivity | intros _; reflexivity].
Qed.

Lemma Hmk_as : forall k k', Forall2 crel_as k k' -> RgA (text_of_list k) (text_of_list k').
Proof.
  intros k k' H. rewrite !text_of_list_leaves.
  pose proof (leaves_list_rel RlA RgA k k' H) as HL. split.
  - apply (toks_text_CR RlA); [intros v v' [Hc _]; exact Hc | exact HL].
  - rewrite !flat_map_concat_map. apply concat_as, toks_seg, HL.
Qed.

Lemma RlA_upper v v' : RlA v v' -> upper v = upper v'.
Proof. intros [H _]. apply CR_upper, H. Qed.
Lemma RlA_kn v v' : RlA v v' -> knorm v = knorm v'.
Proof. intros [H _]. apply CR_kn, H. Qed.
Lemma RlA_ue v v' s : RlA v v' -> nospace s = true -> text_eqb (upper v) s = text_eqb (upper v') s.
Proof. intros [H _]. apply CR_ue, H. Qed.
Lemma RlA_rl v v' : RlA v v' ->
  knorm v = knorm v' /\ (forall s, nospace s = true -> text_eqb (upper v) s = text_eqb (upper v') s).
Proof. intros [H _]. apply CR_rl, H. Qed.

(* related nodes agree on the three value tests of group_functions *)
Lemma nvalue_upper_as n n' : crel_as n n' -> upper (nvalue n) = upper (nvalue n').
Proof.
  intros [ty v v' Hv | c v v' k k' [Hv _] Hk]; cbn [nvalue]; [|apply CR_upper, Hv].
  destruct (tin ty T_Keyword); [apply RlA_upper, Hv | rewrite Hv; reflexivity].
Qed.

Lemma Rl_as_test v v' : Rl_as v v' -> text_eqb v s_AS = text_eqb v' s_AS.
Proof.
  unfold Rl_as, asishb. intros H.
  destruct (text_eqb v s_AS) eqn:E1.
  - cbn [orb] in H. rewrite <- (H eq_refl). symmetry. exact E1.
  - destruct (text_eqb v' s_AS) eqn:E2; [|reflexivity].
    rewrite (H ltac:(cbn [orb]; apply orb_true_r)) in E1. congruence.
Qed.

Lemma fn_guard_as : fn_guard RlA RgA.
Proof.
  split; [|split]; intros n n' H; cbv beta; rewrite (nvalue_upper_as n n' H); reflexivity.
Qed.

(* ... and so do nodes related by crel alone: the third test reads value.upper() since the fix of C11-as-case *)
Lemma nvalue_upper n n' : crel n n' -> upper (nvalue n) = upper (nvalue n').
Proof.
  intros [ty v v' Hv | c v v' k k' Hv Hk]; cbn [nvalue]; [|apply CR_upper, Hv].
  destruct (tin ty T_Keyword); [apply CR_upper, Hv | rewrite Hv; reflexivity].
Qed.

Lemma fn_guard_crel : fn_guard CR CR.
Proof.
  split; [|split]; intros n n' H; cbv beta; rewrite (nvalue_upper n n' H); reflexivity.
Qed.

(* ---- crel_as = crel + as_guard -------------------------------------------------------------------- *)
Lemma crel_as_crel n n' : crel_as n n' -> crel n n'.
Proof. apply crelG_mono; intros v v' [H _]; exact H. Qed.
Lemma crel_as_guard n n' : crel_as n n' -> as_guard n n'.
Proof. apply crelG_mono; intros v v' [_ H]; exact H. Qed.
Lemma crel_as_intro n n' : crel n n' -> as_guard n n' -> crel_as n n'.
Proof. intros H1 H2. exact (crelG_and CR CR Rl_as Rg_as n n' H1 H2). Qed.
Lemma crel_as_iff n n' : crel_as n n' <-> crel n n' /\ as_guard n n'.
Proof.
  split; [intros H; split; [apply crel_as_crel | apply crel_as_guard]; exact H|].
  intros [H1 H2]. apply crel_as_intro; assumption.
Qed.

Lemma crel_refl n : crel n n.
Proof. apply crelG_refl; apply CR_refl. Qed.
Lemma crel_as_refl n : crel_as n n.
Proof.
  apply crelG_refl; intros v; (split; [apply CR_refl|]); [intros _; reflexivity | reflexivity].
Qed.

(* the executable checks *)
Lemma rl_asb_sound v v' : rl_asb v v' = true -> Rl_as v v'.
Proof.
  unfold rl_asb, Rl_as. intros H Ha. rewrite Ha in H. cbn [negb orb] in H. apply text_eqb_eq, H.
Qed.
Lemma rg_asb_sound v v' : rg_asb v v' = true -> Rg_as v v'.
Proof. unfold rg_asb, Rg_as. apply eqb_true_eq. Qed.

Lemma crelb_sound n n' : crelb n n' = true -> crel n n'.
Proof. apply crelGb_sound; apply text_Rcase_b_sound. Qed.
Lemma as_guardb_sound n n' : as_guardb n n' = true -> as_guard n n'.
Proof. apply crelGb_sound; [apply rl_asb_sound | apply rg_asb_sound]. Qed.
Lemma crel_asb_sound n n' : crel_asb n n' = true -> crel_as n n'.
Proof.
  apply crelGb_sound; intros v v' H; apply andb_true_iff in H; destruct H as [H1 H2];
    (split; [apply text_Rcase_b_sound, H1|]); [apply rl_asb_sound, H2 | apply rg_asb_sound, H2].
Qed.

Lemma tok_crel_asb_sound a b : tok_crel_asb a b = true -> tok_crel_as a b.
Proof.
  unfold tok_crel_asb, tok_crel_as, tok_relG. intros H. apply andb_true_iff in H. destruct H as [Hty Hv].
  apply ttype_eqb_eq in Hty. split; [exact Hty|]. destruct (tin (fst a) T_Keyword).
  - apply andb_true_iff in Hv. destruct Hv as [H1 H2].
    split; [apply text_Rcase_b_sound, H1 | apply rl_asb_sound, H2].
  - apply text_eqb_eq, Hv.
Qed.
Lemma go_guardb_sound a b : go_guardb a b = true -> go_guard a b.
Proof.
  unfold go_guardb, go_guard. intros H K. rewrite K in H. cbn [negb orb] in H. apply eqb_true_eq, H.
Qed.
Lemma tok_prelb_sound a b : tok_prelb a b = true -> tok_prel a b.
Proof.
  unfold tok_prelb. intros H. apply andb_true_iff in H. destruct H as [H1 H2].
  split; [apply tok_crel_asb_sound, H1 | apply go_guardb_sound, H2].
Qed.

(* ================================================================================================ *)
(* 4. grouping.group                                                                                *)
Theorem group_case_rel : forall n n', crel_as n n' -> rres crel_as (group n) (group n').
Proof. exact (group_prel RlA RgA RlA_rl Hmk_as fn_guard_as). Qed.

Theorem group_upto_case_rel k : forall n n', crel_as n n' -> rres crel_as (group_upto k n) (group_upto k n').
Proof. exact (group_upto_prel RlA RgA RlA_rl Hmk_as k fn_guard_as). Qed.

(* WITHOUT ANY GUARD (since the fix of C11-as-case in /repo): all 25 passes *)
Theorem group_rel : forall n n', crel n n' -> rres crel (group n) (group n').
Proof. exact (group_prel CR CR CR_rl Hmk_crel fn_guard_crel). Qed.

Theorem group_upto_rel k : forall n n', crel n n' -> rres crel (group_upto k n) (group_upto k n').
Proof. exact (group_upto_prel CR CR CR_rl Hmk_crel k fn_guard_crel). Qed.

(* without the guard: up to (not including) group_functions, and from the pass after it on *)
Theorem group_upto8_case_rel k : k <= 8 ->
  forall n n', crel n n' -> rres crel (group_upto k n) (group_upto k n').
Proof. intros Hk. exact (group_upto8_prel CR CR CR_rl Hmk_crel k Hk). Qed.

Theorem group_rest_case_rel :
  forall n n', crel n n' -> rres crel (run_passes (skipn 9 passes) n) (run_passes (skipn 9 passes) n').
Proof. exact (group_after_functions_prel CR CR CR_rl Hmk_crel). Qed.

Theorem passes_but_functions_case : Forall (prel CR CR) (firstn 8 passes ++ skipn 9 passes).
Proof. exact (passes_but_functions CR CR CR_rl Hmk_crel). Qed.

(* the form asked for *)
Theorem C11_group_case : forall n n', crel n n' -> as_guard n n' ->
  forall m, group n = Ok m -> exists m', group n' = Ok m' /\ crel m m' /\ as_guard m m'.
Proof.
  intros n n' H1 H2 m E.
  destruct (rres_ok_l _ _ _ _ (group_case_rel n n' (crel_as_intro n n' H1 H2)) E) as (m' & E' & Hm).
  exists m'. split; [exact E'|]. split; [apply crel_as_crel | apply crel_as_guard]; exact Hm.
Qed.

Theorem C11_group_case_err : forall n n', crel n n' -> as_guard n n' ->
  forall e, group n = Err e -> group n' = Err e.
Proof.
  intros n n' H1 H2 e E.
  exact (rres_err_l _ _ _ _ (group_case_rel n n' (crel_as_intro n n' H1 H2)) E).
Qed.

Theorem C11_group_upto_case : forall k n n', crel n n' -> as_guard n n' ->
  forall m, group_upto k n = Ok m -> exists m', group_upto k n' = Ok m' /\ crel m m' /\ as_guard m m'.
Proof.
  intros k n n' H1 H2 m E.
  destruct (rres_ok_l _ _ _ _ (group_upto_case_rel k n n' (crel_as_intro n n' H1 H2)) E) as (m' & E' & Hm).
  exists m'. split; [exact E'|]. split; [apply crel_as_crel | apply crel_as_guard]; exact Hm.
Qed.

(* statement types *)
Theorem C11_get_type_case : forall n n', crel n n' -> get_type n = get_type n'.
Proof. exact (get_type_rel CR CR CR_rl). Qed.

(* ================================================================================================ *)
(* 5. the splitter, pointwise: token streams related token by token are split at the same places      *)
Section ProcessRel.
Variable Q : tok -> tok -> Prop.
Hypothesis Q_skel : forall a b, Q a b -> tok_skel a b.

Notation PGO := (process_go reset_sstate change_splitlevel eos_ttypes is_terminator).
Notation PST := (pstep change_splitlevel is_terminator).

Definition pst_rel (st st' : pstate) : Prop :=
  ss st = ss st' /\ consume_ws st = consume_ws st' /\ Forall2 Q (acc st) (acc st') /\ level st = level st'.

Lemma pstep_rel st st' a b : pst_rel st st' -> Q a b -> pst_rel (PST st a) (PST st' b).
Proof.
  intros (H1 & H2 & H3 & H4) Hab. pose proof (Q_skel a b Hab) as Hs. pose proof Hs as [Hty _].
  pose proof (csl_skel (ss st) a b Hs) as Hc.
  destruct a as [ty v], b as [ty' v']. cbn [fst snd] in *. subst ty'. unfold pstep.
  rewrite <- H1, <- Hc. destruct (change_splitlevel (ss st) ty v) as [s' d].
  unfold pst_rel. cbn [ss consume_ws acc level]. rewrite <- H2, <- H4.
  split; [reflexivity|]. split.
  - f_equal. exact (term_skel (level st + d)%Z (ty, v) (ty, v') Hs).
  - split; [constructor; assumption | reflexivity].
Qed.

Lemma Forall2_rev' {A B} (P : A -> B -> Prop) l l' : Forall2 P l l' -> Forall2 P (rev l) (rev l').
Proof.
  induction 1 as [|x y l l' Hxy _ IH]; cbn [rev]; [constructor|].
  apply Forall2_app; [exact IH | constructor; [exact Hxy | constructor]].
Qed.

Lemma ws_all_rel l l' : Forall2 Q l l' -> forallb is_ws_tok l = forallb is_ws_tok l'.
Proof.
  induction 1 as [|x y l l' Hxy _ IH]; cbn [forallb]; [reflexivity|].
  destruct (Q_skel x y Hxy) as [Hty _]. unfold is_ws_tok at 1 3. rewrite Hty, IH. reflexivity.
Qed.

Lemma pinit_rel : pst_rel (pinit reset_sstate) (pinit reset_sstate).
Proof. repeat split; constructor. Qed.

Lemma process_go_rel : forall l l', Forall2 Q l l' -> forall st st', pst_rel st st' ->
  Forall2 (Forall2 Q) (PGO st l) (PGO st' l').
Proof.
  induction 1 as [|a b l l' Hab _ IH]; intros st st' Hst; cbn [process_go].
  - destruct Hst as (_ & _ & H3 & _). pose proof (ws_all_rel _ _ H3) as Hw.
    destruct H3 as [|x y r r' Hxy Hr]; [constructor|].
    rewrite <- Hw. destruct (forallb is_ws_tok (x :: r)); [constructor|].
    constructor; [|constructor]. apply Forall2_rev'. constructor; assumption.
  - pose proof Hst as (_ & H2 & H3 & _). destruct (Q_skel a b Hab) as [Hty _].
    rewrite <- H2, <- Hty.
    destruct (consume_ws st && negb (in_eos eos_ttypes (fst a))).
    + constructor; [apply Forall2_rev', H3|]. apply IH, pstep_rel; [apply pinit_rel | exact Hab].
    + apply IH, pstep_rel; assumption.
Qed.

Theorem process_rel l l' : Forall2 Q l l' -> Forall2 (Forall2 Q) (cur_process l) (cur_process l').
Proof. intros H. unfold cur_process, process. apply process_go_rel; [exact H | apply pinit_rel]. Qed.
End ProcessRel.

(* a keyword re-cased outside GO is seen alike by the splitter *)
Lemma tok_crel_skel a b : tok_crel a b -> go_guard a b -> tok_skel a b.
Proof.
  intros [Hty Hv] Hg. split; [exact Hty|]. unfold is_kw_tok.
  destruct (tin (fst a) T_Keyword); [|exact Hv].
  pose proof (CR_upper _ _ Hv) as Hu. split; [rewrite Hu; reflexivity|].
  split; [unfold end_multi; rewrite Hu; reflexivity | exact Hg].
Qed.

Lemma tok_prel_skel a b : tok_prel a b -> tok_skel a b.
Proof.
  intros [[Hty Hv] Hg]. apply tok_crel_skel; [|exact Hg]. split; [exact Hty|].
  destruct (tin (fst a) T_Keyword); [apply Hv | exact Hv].
Qed.

(* statement boundaries, with the whitespace tokens (C11_case_split compares the significant tokens) *)
Theorem C11_case_split_pointwise : forall l l',
  Forall2 (fun a b => tok_crel a b /\ go_guard a b) l l' ->
  Forall2 (Forall2 (fun a b => tok_crel a b /\ go_guard a b)) (cur_process l) (cur_process l').
Proof. apply process_rel. intros a b [H1 H2]. apply tok_crel_skel; assumption. Qed.

(* ================================================================================================ *)
(* 6. parse()                                                                                       *)
Lemma mapM_rel2 {A A' B B'} (P : A -> A' -> Prop) (Q : B -> B' -> Prop) (f : A -> res B) (f' : A' -> res B') :
  (forall x x', P x x' -> rres Q (f x) (f' x')) ->
  forall l l', Forall2 P l l' -> rres (Forall2 Q) (mapM f l) (mapM f' l').
Proof.
  intros Hf l l' H. induction H as [|x y l l' Hxy _ IH]; cbn [mapM]; [constructor|].
  eapply rres_bind; [apply Hf, Hxy|]. intros z z' Hz.
  eapply rres_bind; [exact IH|]. intros r r' Hr. cbn [rres]. constructor; assumption.
Qed.

Lemma statement_of_as s s' : Forall2 tok_prel s s' -> crel_as (statement_of s) (statement_of s').
Proof.
  intros H. apply (statement_of_rel RlA RgA Hmk_as).
  induction H as [|a b s s' [Hab _] _ IH]; constructor; assumption.
Qed.

(* from related token streams *)
Theorem parse_case_rel k : forall t t' l l',
  cur_lex t = Ok l -> cur_lex t' = Ok l' -> Forall2 tok_prel l l' ->
  rres (Forall2 crel_as) (cur_parse_upto k t) (cur_parse_upto k t').
Proof.
  intros t t' l l' E E' H. unfold cur_parse_upto, cur_split_stream. rewrite E, E'. cbn [bind].
  apply (mapM_rel2 (Forall2 tok_prel) crel_as).
  - intros s s' Hs. apply group_upto_case_rel, statement_of_as, Hs.
  - apply process_rel; [exact tok_prel_skel | exact H].
Qed.

Lemma cur_parse_upto_all t : cur_parse t = cur_parse_upto 25 t.
Proof. reflexivity. Qed.

Lemma Forall2_mono {A B} (P Q : A -> B -> Prop) l l' :
  (forall x y, P x y -> Q x y) -> Forall2 P l l' -> Forall2 Q l l'.
Proof. intros HPQ. induction 1; constructor; auto. Qed.

Theorem C11_parse_case : forall t t' l l',
  cur_lex t = Ok l -> cur_lex t' = Ok l' -> Forall2 tok_prel l l' ->
  forall ss, cur_parse t = Ok ss ->
  exists ss', cur_parse t' = Ok ss' /\ Forall2 crel ss ss' /\ Forall2 as_guard ss ss' /\
              Forall2 (fun s s' => get_type s = get_type s') ss ss'.
Proof.
  intros t t' l l' E E' H ss Ep. change (cur_parse t) with (cur_parse_upto 25 t) in Ep.
  destruct (rres_ok_l _ _ _ _ (parse_case_rel 25 t t' l l' E E' H) Ep) as (ss' & Ep' & Hs).
  exists ss'. change (cur_parse t') with (cur_parse_upto 25 t'). split; [exact Ep'|].
  split; [eapply Forall2_mono; [|exact Hs]; apply crel_as_crel|].
  split; [eapply Forall2_mono; [|exact Hs]; apply crel_as_guard|].
  eapply Forall2_mono; [|exact Hs]. intros s s' Hss. apply C11_get_type_case, crel_as_crel, Hss.
Qed.

Theorem C11_parse_case_err : forall t t' l l',
  cur_lex t = Ok l -> cur_lex t' = Ok l' -> Forall2 tok_prel l l' ->
  forall e, cur_parse t = Err e -> cur_parse t' = Err e.
Proof.
  intros t t' l l' E E' H e Ep. change (cur_parse t) with (cur_parse_upto 25 t) in Ep.
  change (cur_parse t') with (cur_parse_upto 25 t').
  exact (rres_err_l _ _ _ _ (parse_case_rel 25 t t' l l' E E' H) Ep).
Qed.

(* from the TEXT: an ASCII re-casing that changes keyword tokens only, AS and GO excepted *)
Lemma lex_case_prel t t' l l' :
  Forall2 Rcase t t' -> cur_lex t = Ok l -> cur_lex t' = Ok l' -> Forall2 parse_guard l l' ->
  Forall2 tok_prel l l'.
Proof.
  intros Ht E E' Hg. pose proof (C_lex_case t t' Ht) as H. rewrite E, E' in H.
  clear E E'. revert Hg. induction H as [|a b l0 l0' [Hty Hv] _ IH]; intros Hg; [constructor|].
  inversion Hg as [|a0 b0 l1 l1' (G1 & G2 & G3) Hg']; subst. constructor; [|apply IH, Hg'].
  split; [|exact G3]. split; [exact Hty|].
  destruct (tin (fst a) T_Keyword) eqn:K; [split; assumption | apply G1; reflexivity].
Qed.

Theorem C11_parse_case_text : forall t t' l l',
  Forall2 Rcase t t' -> cur_lex t = Ok l -> cur_lex t' = Ok l' -> Forall2 parse_guard l l' ->
  forall ss, cur_parse t = Ok ss ->
  exists ss', cur_parse t' = Ok ss' /\ Forall2 crel ss ss' /\
              Forall2 (fun s s' => get_type s = get_type s') ss ss'.
Proof.
  intros t t' l l' Ht E E' Hg ss Ep.
  destruct (C11_parse_case t t' l l' E E' (lex_case_prel t t' l l' Ht E E' Hg) ss Ep)
    as (ss' & Ep' & H1 & _ & H3).
  exists ss'. auto.
Qed.

(* ---- no guard at all (since the fixes of C11-as-case and C11-go-case in /repo) ------------------------ *)
Lemma tok_crel_go_guard a b : tok_crel a b -> go_guard a b.
Proof.
  intros [Hty Hv] K. unfold tok_crel, tok_relG in *.
  assert (Kw : tin (fst a) T_Keyword = true) by (apply ttype_eqb_eq in K; rewrite K; reflexivity).
  rewrite Kw in Hv. pose proof (CR_upper _ _ Hv) as Hu.
  apply (guard_free a b Hty). rewrite Hu. reflexivity.
Qed.

Lemma tok_crel_skel_full a b : tok_crel a b -> tok_skel a b.
Proof. intros H. apply tok_crel_skel; [exact H | apply tok_crel_go_guard, H]. Qed.

Theorem C11_case_split_pointwise_full : forall l l',
  Forall2 tok_crel l l' -> Forall2 (Forall2 tok_crel) (cur_process l) (cur_process l').
Proof. apply process_rel. exact tok_crel_skel_full. Qed.

Lemma statement_of_crel s s' : Forall2 tok_crel s s' -> crel (statement_of s) (statement_of s').
Proof. intros H. apply (statement_of_rel CR CR Hmk_crel). exact H. Qed.

Theorem parse_rel k : forall t t' l l',
  cur_lex t = Ok l -> cur_lex t' = Ok l' -> Forall2 tok_crel l l' ->
  rres (Forall2 crel) (cur_parse_upto k t) (cur_parse_upto k t').
Proof.
  intros t t' l l' E E' H. unfold cur_parse_upto, cur_split_stream. rewrite E, E'. cbn [bind].
  apply (mapM_rel2 (Forall2 tok_crel) crel).
  - intros s s' Hs. apply group_upto_rel, statement_of_crel, Hs.
  - apply process_rel; [exact tok_crel_skel_full | exact H].
Qed.

Theorem C11_parse_case_full : forall t t' l l',
  cur_lex t = Ok l -> cur_lex t' = Ok l' -> Forall2 tok_crel l l' ->
  forall ss, cur_parse t = Ok ss ->
  exists ss', cur_parse t' = Ok ss' /\ Forall2 crel ss ss' /\
              Forall2 (fun s s' => get_type s = get_type s') ss ss'.
Proof.
  intros t t' l l' E E' H ss Ep. change (cur_parse t) with (cur_parse_upto 25 t) in Ep.
  destruct (rres_ok_l _ _ _ _ (parse_rel 25 t t' l l' E E' H) Ep) as (ss' & Ep' & Hs).
  exists ss'. change (cur_parse t') with (cur_parse_upto 25 t'). split; [exact Ep'|].
  split; [exact Hs|]. eapply Forall2_mono; [|exact Hs]. intros s s' Hss. apply C11_get_type_case, Hss.
Qed.

Theorem C11_parse_case_err_full : forall t t' l l',
  cur_lex t = Ok l -> cur_lex t' = Ok l' -> Forall2 tok_crel l l' ->
  forall e, cur_parse t = Err e -> cur_parse t' = Err e.
Proof.
  intros t t' l l' E E' H e Ep. change (cur_parse t) with (cur_parse_upto 25 t) in Ep.
  change (cur_parse t') with (cur_parse_upto 25 t').
  exact (rres_err_l _ _ _ _ (parse_rel 25 t t' l l' E E' H) Ep).
Qed.

(* from the TEXT: ANY ASCII re-casing that changes keyword tokens only *)
Definition kw_only (a b : tok) : Prop := tin (fst a) T_Keyword = false -> snd a = snd b.

Lemma lex_case_crel t t' l l' :
  Forall2 Rcase t t' -> cur_lex t = Ok l -> cur_lex t' = Ok l' -> Forall2 kw_only l l' ->
  Forall2 tok_crel l l'.
Proof.
  intros Ht E E' Hg. pose proof (C_lex_case t t' Ht) as H. rewrite E, E' in H.
  clear E E'. revert Hg. induction H as [|a b l0 l0' [Hty Hv] _ IH]; intros Hg; [constructor|].
  inversion Hg as [|a0 b0 l1 l1' G1 Hg']; subst. constructor; [|apply IH, Hg'].
  split; [exact Hty|].
  destruct (tin (fst a) T_Keyword) eqn:K; [exact Hv | apply G1; exact K].
Qed.

Theorem C11_parse_case_text_full : forall t t' l l',
  Forall2 Rcase t t' -> cur_lex t = Ok l -> cur_lex t' = Ok l' -> Forall2 kw_only l l' ->
  forall ss, cur_parse t = Ok ss ->
  exists ss', cur_parse t' = Ok ss' /\ Forall2 crel ss ss' /\
              Forall2 (fun s s' => get_type s = get_type s') ss ss'.
Proof.
  intros t t' l l' Ht E E' Hg ss Ep.
  exact (C11_parse_case_full t t' l l' E E' (lex_case_crel t t' l l' Ht E E' Hg) ss Ep).
Qed.

(* ================================================================================================ *)
(* 7. the hypotheses are satisfiable; the guard is necessary                                         *)
Lemma crelGb_complete (rl rg : text -> text -> bool) (Rl Rg : text -> text -> Prop) :
  (forall v v', Rl v v' -> rl v v' = true) -> (forall v v', Rg v v' -> rg v v' = true) ->
  forall n n', crelG Rl Rg n n' -> crelGb rl rg n n' = true.
Proof.
  intros H1 H2. apply crelG_ind'.
  - intros ty v v' Hv. cbn [crelGb]. rewrite (proj2 (ttype_eqb_eq ty ty) eq_refl). cbn [andb].
    destruct (tin ty T_Keyword); [auto | apply text_eqb_eq, Hv].
  - intros c v v' k k' Hv _ IH. cbn [crelGb]. rewrite (proj2 (cls_eqb_eq c c) eq_refl), (H2 _ _ Hv).
    cbn [andb]. induction IH as [|x y l l' Hxy _ IHl]; [reflexivity|]. rewrite Hxy. exact IHl.
Qed.

Lemma rl_asb_complete v v' : Rl_as v v' -> rl_asb v v' = true.
Proof.
  unfold Rl_as, rl_asb. intros H. destruct (asishb v || asishb v'); [|reflexivity].
  cbn [negb orb]. apply text_eqb_eq, H. reflexivity.
Qed.
Lemma rg_asb_complete v v' : Rg_as v v' -> rg_asb v v' = true.
Proof. unfold Rg_as, rg_asb. intros ->. destruct (text_eqb v' s_AS); reflexivity. Qed.
Lemma as_guardb_complete n n' : as_guard n n' -> as_guardb n n' = true.
Proof. apply crelGb_complete; [apply rl_asb_complete | apply rg_asb_complete]. Qed.

Lemma crel_cskel (Rl Rg : text -> text -> Prop) : forall n n', crelG Rl Rg n n' -> cskel_of n = cskel_of n'.
Proof.
  apply crelG_ind'; [reflexivity|].
  intros c v v' k k' _ _ IH. cbn [cskel_of]. f_equal.
  induction IH as [|x y l l' Hxy _ IHl]; cbn [map]; congruence.
Qed.

Lemma cskel_eqb_refl a : cskel_eqb a a = true.
Proof.
  revert a. fix IH 1. intros [ty | c l]; cbn [cskel_eqb].
  - apply ttype_eqb_eq. reflexivity.
  - rewrite (proj2 (cls_eqb_eq c c) eq_refl). cbn [andb].
    induction l as [|x l IHl]; [reflexivity|]. rewrite (IH x). exact IHl.
Qed.

Lemma cskel_neq n n' : cskel_eqb (cskel_of n) (cskel_of n') = false -> ~ crel n n'.
Proof. intros H C. rewrite (crel_cskel CR CR n n' C), cskel_eqb_refl in H. discriminate. Qed.

Definition lexed (t : text) : list tok := match cur_lex t with Ok l => l | Err _ => [] end.
Definition parsed (t : text) : list node := match cur_parse t with Ok l => l | Err _ => [] end.

(* -- the positive example: sub-select, CASE, functions, join, IN list, GROUP BY / ORDER BY, two
      statements; every keyword re-cased (as -> As is allowed: only the spelling AS is read literally) -- *)
Example ex_g_text : text_Rcase_b ex_g_a ex_g_b = true.
Proof. vm_compute. reflexivity. Qed.

Example ex_g_lex :
  match cur_lex ex_g_a, cur_lex ex_g_b with
  | Ok l, Ok l' => forall2b parse_guardb l l' && forall2b tok_prelb l l' && Nat.ltb 80 (length l)
  | _, _ => false
  end = true.
Proof. vm_compute. reflexivity. Qed.

(* the trees before grouping are related and satisfy the guard (hypotheses of C11_group_case) *)
Example ex_g_tree :
  let n := statement_of (lexed ex_g_a) in let n' := statement_of (lexed ex_g_b) in
  crelb n n' && as_guardb n n' && negb (crelGb text_eqb text_eqb n n') = true.
Proof. vm_compute. reflexivity. Qed.

(* and what the theorem predicts is what the model computes: two statements, related trees with
   Case / Function / Parenthesis / Where / Comparison / IdentifierList / Values groups *)
Example ex_g_parse :
  match cur_parse ex_g_a, cur_parse ex_g_b with
  | Ok ss, Ok ss' =>
      Nat.eqb (length ss) 2 && crelGb_list text_Rcase_b text_Rcase_b ss ss' &&
      forallb (fun c => existsb (cls_eqb c) (flat_map classes_of ss))
              [CCase; CFunction; CParenthesis; CWhere; CComparison; CIdentifierList; CIdentifier; CValues]
  | _, _ => false
  end = true.
Proof. vm_compute. reflexivity. Qed.

Example ex_g_types :
  map get_type (parsed ex_g_a) = map get_type (parsed ex_g_b) /\ length (parsed ex_g_a) = 2.
Proof. split; vm_compute; reflexivity. Qed.

(* -- the former witnesses of the AS guard ('create table foo AS select f(x)' / '... as ...', C11Wit): since
      group_functions reads value.upper() the two texts parse to related trees, with the Function node -- *)
Lemma tok_crelb_sound a b : tok_crelb a b = true -> tok_crel a b.
Proof.
  unfold tok_crelb. intros H1. apply andb_true_iff in H1. destruct H1 as [Hty Hv].
  apply ttype_eqb_eq in Hty. split; [exact Hty|].
  destruct (tin (fst a) T_Keyword); [apply text_Rcase_b_sound, Hv | apply text_eqb_eq, Hv].
Qed.

Example C11_as_case_witness_fixed :
  text_Rcase_b C11Wit.w_as_case_a C11Wit.w_as_case_b = true /\
  match cur_parse C11Wit.w_as_case_a, cur_parse C11Wit.w_as_case_b with
  | Ok ss, Ok ss' => crelGb_list text_Rcase_b text_Rcase_b ss ss' &&
                     existsb (cls_eqb CFunction) (flat_map classes_of ss)
  | _, _ => false
  end = true.
Proof. split; vm_compute; reflexivity. Qed.

(* ... and of the GO guard ('select 1 GO select 2' / '... go ...'): two statements each *)
Example C11_go_case_witness_fixed :
  text_Rcase_b C11Wit.w_go_case_a C11Wit.w_go_case_b = true /\
  match cur_parse C11Wit.w_go_case_a, cur_parse C11Wit.w_go_case_b with
  | Ok ss, Ok ss' => Nat.eqb (length ss) 2 && crelGb_list text_Rcase_b text_Rcase_b ss ss'
  | _, _ => false
  end = true.
Proof. split; vm_compute; reflexivity. Qed.

Print Assumptions callbacks_case_safe.
Print Assumptions group_case_rel.
Print Assumptions C11_group_case.
Print Assumptions C11_group_upto_case.
Print Assumptions group_upto8_case_rel.
Print Assumptions passes_but_functions_case.
Print Assumptions C11_get_type_case.
Print Assumptions C11_case_split_pointwise.
Print Assumptions parse_case_rel.
Print Assumptions C11_parse_case.
Print Assumptions C11_parse_case_text.
Print Assumptions group_rel.
Print Assumptions parse_rel.
Print Assumptions C11_parse_case_full.
Print Assumptions C11_parse_case_text_full.
