(* C19 finding, stated about the CURRENT source (this file stops compiling when the fallback codec
   of Lexer.get_tokens is changed to Latin-1; it is deliberately not imported by Props/C19.v). *)
From SqlModel Require Import Base Utf8.
From SqlModel.Sys Require Import FrontDefs Frontends FrontendsFacts.
From SqlModel.Gen Require Frontends.

Theorem C19_fallback_now : Frontends.fe_fallback = FbUnicodeEscape.
Proof. reflexivity. Qed.

Theorem C19_latin1_refuted_now :
  exists bs, utf8_decode bs = Err UnicodeDecodeError /\ decode_input (IBytes bs None) <> latin1_decode bs.
Proof. exact (decode_latin1_refuted_if_escape C19_fallback_now). Qed.
Print Assumptions C19_latin1_refuted_now.
