(* Totality of the composed front end lex -> split -> group over the current tables, and
   non-emptiness of every group of every parsed statement. *)
From SqlModel Require Import Base PyStr Re Lexer LexFacts SplitDefs Splitter SplitFacts Node Inv Passes GroupFacts
     TotalDefs TotalFacts.
From SqlModel.Inst Require Import Cur C01 ParseFacts.

Lemma mapM_total {A B} (f : A -> res B) l : (forall x, exists y, f x = Ok y) -> exists r, mapM f l = Ok r.
Proof.
  intros H. induction l as [|x l [r IH]]; [exists []; reflexivity|].
  destruct (H x) as [y Ey]. exists (y :: r). cbn [mapM]. rewrite Ey. cbn [bind]. rewrite IH. reflexivity.
Qed.

Theorem cur_parse_total : forall t, exists stmts, cur_parse t = Ok stmts.
Proof.
  intros t. unfold cur_parse, cur_split_stream.
  destruct (cur_lex_lossless t) as (toks & E & _). rewrite E. cbn [bind].
  apply mapM_total. intros s. apply group_total.
Qed.

Theorem cur_parse_upto_total : forall k t, exists stmts, cur_parse_upto k t = Ok stmts.
Proof.
  intros k t. unfold cur_parse_upto, cur_split_stream.
  destruct (cur_lex_lossless t) as (toks & E & _). rewrite E. cbn [bind].
  apply mapM_total. intros s. apply group_upto_total.
Qed.

Theorem cur_split_stream_total : forall t, exists stmts, cur_split_stream t = Ok stmts.
Proof.
  intros t. unfold cur_split_stream. destruct (cur_lex_lossless t) as (toks & E & _). rewrite E. eexists. reflexivity.
Qed.

(* every group below the statement node of every parsed statement is non-empty; the statement itself
   is non-empty because the splitter never yields an empty statement *)
Theorem cur_parse_nonempty : forall t stmts, cur_parse t = Ok stmts ->
  Forall (fun n => nonempty_groups n = true) stmts.
Proof.
  intros t stmts H. apply cur_parse_inv in H. destruct H as (toks & _ & Hg).
  assert (Hne : Forall (fun s => s <> []) (cur_process toks)) by apply process_nonempty.
  induction Hg as [|s n ss ns Hsn _ IH]; [constructor|].
  inversion Hne; subst. constructor; [|apply IH; assumption].
  eapply group_statement_nonempty'; eassumption.
Qed.
