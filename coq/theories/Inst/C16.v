(* (C16) The criterion of Regex/Ambig.v instantiated on the lexer rules regenerated from /repo:
   every unbounded repeat of every rule has a prefix-free or suffix-free body, hence no rule
   reaches the same end position of a repeat along two backtracking paths, and the number of
   backtracking paths / the work of one match attempt / the work of the whole scan are bounded by
   explicit polynomials in the length of the text. *)
From SqlModel Require Import Base Re MinWidth Lexer Ambig AmbigFacts.
From SqlModel.Gen Require Import Atoms CaseTabs Rules.

Theorem C16_rules_ok : forallb (fun ra => ok (fst ra)) sql_regex = true.
Proof. vm_compute. reflexivity. Qed.

(* which rules (index, number of unbounded repeats of each kind: single word / prefix-free
   alternation / suffix-free-only alternation / rejected) *)
Definition kinds_of (r : re) : list nat := map body_kind (subreps r).

(* the rules that need the suffix-free case *)
Definition suffix_rules : list nat :=
  map fst (filter (fun ir => existsb (Nat.eqb 2) (kinds_of (fst (snd ir))))
                  (combine (seq 0 (length sql_regex)) sql_regex)).
Definition prefix_alt_rules : list nat :=
  map fst (filter (fun ir => existsb (Nat.eqb 1) (kinds_of (fst (snd ir))))
                  (combine (seq 0 (length sql_regex)) sql_regex)).

Example C16_suffix_rules : suffix_rules = [25; 26].
Proof. vm_compute. reflexivity. Qed.
Example C16_prefix_alt_rules : prefix_alt_rules = [9; 10].
Proof. vm_compute. reflexivity. Qed.
Example C16_number_of_stars : length (flat_map (fun ra => subreps (fst ra)) sql_regex) = 65.
Proof. vm_compute. reflexivity. Qed.

(* (a) no unbounded repeat of any rule matches the same substring in two ways *)
Theorem C16_no_double_match i r a s x c :
  nth_error sql_regex i = Some (r, a) -> In s (subreps r) ->
  NoDup (map (fun xc : st * caps => length (rest (fst xc))) (ends lower s x c)).
Proof.
  intros Hi Hs. apply nth_error_In in Hi.
  exact (ok_all_stars_unambiguous lower r (rule_ok sql_regex C16_rules_ok r a Hi) s Hs x c).
Qed.

(* (b) degree and coefficient of the path bound, uniform over the rules *)
Lemma C16_D : max_over deg sql_regex = 4.
Proof. vm_compute. reflexivity. Qed.
Lemma C16_K : max_over coef sql_regex = 20.
Proof. vm_compute. reflexivity. Qed.

Theorem C16_lexer_paths i r a x c :
  nth_error sql_regex i = Some (r, a) ->
  length (ends lower r x c) <= 20 * S (length (rest x)) ^ 4.
Proof.
  intros Hi. apply nth_error_In in Hi.
  rewrite <- C16_K, <- C16_D. exact (rules_paths lower sql_regex C16_rules_ok r a x c Hi).
Qed.

(* (c) the work of one match attempt (all backtracking paths explored) *)
Lemma C16_WD : max_over wdeg sql_regex = 4.
Proof. vm_compute. reflexivity. Qed.
Lemma C16_WK : max_over wcoef sql_regex = 472.
Proof. vm_compute. reflexivity. Qed.

Theorem C16_lexer_work i r a x c :
  nth_error sql_regex i = Some (r, a) ->
  work lower r x c <= 472 * S (length (rest x)) ^ 4.
Proof.
  intros Hi. apply nth_error_In in Hi.
  rewrite <- C16_WK, <- C16_WD. exact (rules_work lower sql_regex C16_rules_ok r a x c Hi).
Qed.

(* (d) the work of the whole scan loop: degree 5 *)
Lemma C16_FK : fm_coef sql_regex = 1769.
Proof. vm_compute. reflexivity. Qed.

Theorem C16_lex_work t :
  lex_work lower sql_regex None 0 t <= 1 + length t * S (fm_coef sql_regex * S (length t) ^ 4).
Proof.
  rewrite <- C16_WD. exact (lex_work_poly lower sql_regex C16_rules_ok t).
Qed.

(* ---- the criterion rejects the historically vulnerable shapes --------------------------------- *)

Definition csingle (n : N) : cset :=
  CNode (n + 1) (CNode n (CLeaf false) (CLeaf true)) (CLeaf false).
Definition cnot1 (n : N) : cset :=
  CNode (n + 1) (CNode n (CLeaf true) (CLeaf false)) (CLeaf true).
Definition crange (lo hi : N) : cset :=
  CNode (hi + 1) (CNode lo (CLeaf false) (CLeaf true)) (CLeaf false).

(* remaining lengths after each result, in backtracking order *)
Definition poss (r : re) (t : text) : list nat :=
  map (fun xc : st * caps => length (rest (fst xc))) (ends lower r (mkSt None t) []).

Definition c_a := csingle 97.
Definition c_q := csingle 39.      (* ' *)
Definition c_bs := csingle 92.     (* \ *)
Definition c_nq := cnot1 39.       (* [^'] *)

(* (a|a)* *)
Definition re_aa := Rep true 0 None (Group 1 (Alt (Atom c_a) (Atom c_a))).
(* ( *[a-z]+)*   -- the shape of (\s*\w+)* *)
Definition re_nested :=
  Rep true 0 None (Group 1 (Seq (Rep true 0 None (Atom (csingle 32)))
                                (Rep true 1 None (Atom (crange 97 122))))).
(* (''|\\\\|\\'|[^'])*  -- \\ overlaps [^'][^'] *)
Definition re_overlap :=
  Rep true 0 None (Group 1 (Alt (Seq (Atom c_q) (Atom c_q))
                           (Alt (Seq (Atom c_bs) (Atom c_bs))
                           (Alt (Seq (Atom c_bs) (Atom c_q)) (Atom c_nq))))).
(* (''|\\'|[^'])*  -- the repeat of rule 25: suffix-free, not prefix-free *)
Definition re_quoted :=
  Rep true 0 None (Group 1 (Alt (Seq (Atom c_q) (Atom c_q))
                           (Alt (Seq (Atom c_bs) (Atom c_q)) (Atom c_nq)))).

Theorem ambiguous_refuted_aa :
  ok re_aa = false /\
  exists t, ~ NoDup (map (fun xc : st * caps => length (rest (fst xc)))
                         (ends lower re_aa (mkSt None t) [])).
Proof.
  split; [vm_compute; reflexivity|]. exists [97%N].
  apply has_dup_sound. vm_compute. reflexivity.
Qed.

Theorem ambiguous_refuted_nested :
  ok re_nested = false /\
  exists t, ~ NoDup (map (fun xc : st * caps => length (rest (fst xc)))
                         (ends lower re_nested (mkSt None t) [])).
Proof.
  split; [vm_compute; reflexivity|]. exists [97%N; 97%N].
  apply has_dup_sound. vm_compute. reflexivity.
Qed.

Theorem ambiguous_refuted_overlap :
  ok re_overlap = false /\
  exists t, ~ NoDup (map (fun xc : st * caps => length (rest (fst xc)))
                         (ends lower re_overlap (mkSt None t) [])).
Proof.
  split; [vm_compute; reflexivity|]. exists [92%N; 92%N].
  apply has_dup_sound. vm_compute. reflexivity.
Qed.

(* the number of backtracking paths of the rejected shapes on a^k, a^k, \^k : 2^(k+1)-1, 2^k,
   Fibonacci-like *)
Example rejected_growth :
  map (fun k => length (ends lower re_aa (mkSt None (repeat 97%N k)) [])) [1; 2; 3; 4; 5; 6; 7; 8]
    = [3; 7; 15; 31; 63; 127; 255; 511] /\
  map (fun k => length (ends lower re_nested (mkSt None (repeat 97%N k)) [])) [1; 2; 3; 4; 5; 6; 7; 8]
    = [2; 4; 8; 16; 32; 64; 128; 256] /\
  map (fun k => length (ends lower re_overlap (mkSt None (repeat 92%N k)) [])) [1; 2; 3; 4; 5; 6; 7; 8]
    = [2; 4; 7; 12; 20; 33; 54; 88].
Proof. vm_compute. repeat split. Qed.

(* the hypotheses of the theorems are satisfiable on a non-trivial input: the accepted shape *)
Example accepted_quoted :
  ok re_quoted = true /\ body_kind re_quoted = 2 /\
  poss re_quoted [92; 39; 39; 97; 92; 92]%N = [4; 0; 1; 2; 3; 5; 6] /\
  map (fun k => (length (ends lower re_quoted (mkSt None (repeat 92%N k)) []),
                 work lower re_quoted (mkSt None (repeat 92%N k)) [])) [1; 2; 3; 4; 5; 6; 7; 8]
    = [(2, 19); (3, 29); (4, 39); (5, 49); (6, 59); (7, 69); (8, 79); (9, 89)].
Proof. vm_compute. repeat split. Qed.

Example cdisjoint_examples :
  cdisjoint c_q c_nq = true /\ cdisjoint c_bs c_nq = false /\
  cdisjoint (crange 97 122) (csingle 100) = false /\ cdisjoint (crange 97 122) (csingle 123) = true.
Proof. vm_compute. repeat split. Qed.

(* rule 25 really contains the suffix-free repeat, and its results on a short text *)
Example rule25_paths :
  match nth_error sql_regex 25 with
  | Some (r, _) => (map body_kind (subreps r), poss r [39; 92; 39; 39; 39; 39]%N)
  | None => ([], [])
  end = ([2], [0; 2; 1; 3]).
Proof. vm_compute. reflexivity. Qed.

Print Assumptions C16_rules_ok.
Print Assumptions C16_no_double_match.
Print Assumptions C16_lexer_paths.
Print Assumptions C16_lexer_work.
Print Assumptions C16_lex_work.
Print Assumptions ambiguous_refuted_aa.
Print Assumptions ambiguous_refuted_nested.
Print Assumptions ambiguous_refuted_overlap.
