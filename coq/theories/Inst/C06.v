(* C06, layer 1: the obligations over the REGENERATED inventory of mutation sites
   (Gen/SiteInv.v, produced by tools/regen/gen_sites.py from /repo on every run).

   What is checked here (by vm_compute, so it is re-decided whenever the library changes):
     C06_no_unknown       the translator classified every mutation site of the four layout
                          filter classes (an unclassifiable statement is emitted as Unknown);
     C06_sites_ws_only    every site is, by its syntactic form and dominating guard, an insertion
                          of a token constructed with a whitespace type and a whitespace-only value
                          expression / a deletion or value assignment paired with an is_whitespace
                          guard / a pure re-wrapping or re-grouping;
     C06_fields_ws        the filter fields that occur in value expressions (self.n, self.char)
                          only take whitespace values under format();
     C06_stack_covered    every statement filter that build_filter_stack can install when only
                          layout options are given is one of the scanned classes.

   META-ARGUMENT (TRUSTED, not proved in Coq; see Filters/Sites.v): because of the four facts above
   and of the run-time instrumentation self-test (tools/props/C06_sites.py), every execution of
   the layout filters on a statement tree t that ends (normally or by an exception) in t' is a run
   [any_run t t'] of the abstract steps of Filters/Sites.v.  Under that reading
   [C06_leaves_preserved] (Filters/SitesFacts.v) gives: the sequence of non-whitespace-typed
   leaves (type and value) of every statement is the same before and after the layout filters.
   What layer 1 does NOT cover: (a) the text level - deleting the only whitespace between two
   leaves preserves the leaves but fuses them on re-lexing (SitesFacts.ex_fuse_is_a_run);
   (b) the serializer (SerializerUnicode, a POSTprocess filter on the text);  (c) the statement
   count.  These are the business of the direct oracle in tools/props/C06_sites.py. *)
From Coq Require Import String.
From SqlModel Require Import Base PyStr Node Sites SitesFacts.
From SqlModel.Gen Require Import SiteInv.

Lemma C06_no_unknown : forallb (fun s => negb (is_unknown s)) layout_sites = true.
Proof. vm_compute. reflexivity. Qed.

Lemma C06_sites_ws_only : forallb ws_only_site layout_sites = true.
Proof. vm_compute. reflexivity. Qed.

Lemma C06_fields_ws : forallb field_fact_ws layout_field_facts = true.
Proof. vm_compute. reflexivity. Qed.

Lemma C06_stack_covered : str_incl layout_stmt_filters covered_classes = true.
Proof. vm_compute. reflexivity. Qed.

(* the inventory is not empty (a translator that finds nothing must not pass silently) and
   contains every kind the argument talks about *)
Lemma C06_inventory_nonempty :
  (20 <=? length layout_sites)%nat = true /\
  existsb (fun s => match s_kind s with InsWs _ _ => true | _ => false end) layout_sites = true /\
  existsb (fun s => match s_kind s with DelWsGuarded _ => true | _ => false end) layout_sites = true /\
  existsb (fun s => match s_kind s with SetWsValue _ _ => true | _ => false end) layout_sites = true.
Proof. vm_compute. repeat split; reflexivity. Qed.

(* The conclusion in the form used by the property: under the meta-argument the hypothesis
   [any_run t t'] holds of (tree before, tree after) the layout filters. *)
Theorem C06_layer1 :
  forallb ws_only_site layout_sites = true /\
  forallb (fun s => negb (is_unknown s)) layout_sites = true /\
  forallb field_fact_ws layout_field_facts = true /\
  str_incl layout_stmt_filters covered_classes = true /\
  (forall t t', any_run t t' -> sigleaves t' = sigleaves t) /\
  (forall l l', any_run_list l l' -> sigleaves_list l' = sigleaves_list l).
Proof.
  exact (conj C06_sites_ws_only (conj C06_no_unknown (conj C06_fields_ws (conj C06_stack_covered
           (conj C06_leaves_preserved C06_leaves_preserved_list))))).
Qed.
Print Assumptions C06_layer1.

(* ws_only_site is not trivially true: it rejects what it must reject *)
Example ws_only_rejects_keyword_insert :
  ws_only_site (mk_site "x" 1 1 "f" (InsWs T_Keyword (VStr [32]%N)) "") = false.
Proof. reflexivity. Qed.
Example ws_only_rejects_nonws_value :
  ws_only_site (mk_site "x" 1 1 "f" (InsWs T_Whitespace (VCat (VStr [32]%N) (VStr [97]%N))) "") = false.
Proof. vm_compute. reflexivity. Qed.
Example ws_only_rejects_unpaired_delete :
  ws_only_site (mk_site "x" 1 1 "f" (DelWsGuarded PairNone) "") = false.
Proof. reflexivity. Qed.
Example ws_only_rejects_opaque :
  ws_only_site (mk_site "x" 1 1 "f" (InsWs T_Whitespace (VOpaque "g()")) "") = false.
Proof. reflexivity. Qed.
Example ws_only_rejects_bad_field :
  ws_only_site (mk_site "x" 1 1 "f" (InsWs T_Whitespace (VField "char" [[32]%N; [120]%N])) "") = false.
Proof. vm_compute. reflexivity. Qed.
