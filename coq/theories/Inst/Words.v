(* C14 (second half): lifting of the finite obligation of Inst/WordsFin.v to every ASCII letter
   casing of every dictionary word, and the contexts the family leaves out. *)
From SqlModel Require Import Base PyStr Re MinWidth Lexer LexFacts CaseDefs RelInv LexRel CaseRel
     WordsDefs WordsFacts.
From SqlModel.Gen Require Import Atoms CaseTabs KwTabs Rules.
From SqlModel.Inst Require Import Cur C01 CaseInv ParseFacts WordsCur WordsFin.

(* ---- reading the boolean --------------------------------------------------------------------- *)
Lemma words_ctx_ok_spec w c :
  In w cur_all_words -> cur_is_word w = true -> In c Ctx ->
  exists tl tr,
    cur_lex (fst c) = Ok tl /\ length tl = cur_ntoks_left c
    /\ cur_lex (fst c ++ w ++ snd c) = Ok (tl ++ (cur_expected_type w, w) :: tr).
Proof.
  intros Hw Hi Hc.
  exact (word_in_ctx_ok_spec lower upper sql_regex kws w c
           (words_ok_spec lower upper sql_regex kws cur_all_words words_ctx_ok w Hw Hi c Hc)).
Qed.

(* ---- lifting to every letter casing ---------------------------------------------------------- *)
Lemma Forall2_app_mid {A B} (P : A -> B -> Prop) l1 x l2 l' :
  Forall2 P (l1 ++ x :: l2) l' ->
  exists l1' y l2', l' = l1' ++ y :: l2' /\ Forall2 P l1 l1' /\ P x y /\ Forall2 P l2 l2'.
Proof.
  intros H. apply Forall2_app_inv_l in H. destruct H as (l1' & r' & H1 & H2 & ->).
  inversion H2 as [|x0 y l0 l2' Hxy H2' E1 E2]; subst.
  exists l1', y, l2'. auto.
Qed.

Lemma concat_len_rel (ts ts' : list tok) :
  Forall2 (fun a b => fst a = fst b /\ Forall2 Rcase (snd a) (snd b)) ts ts' ->
  length (concat (map snd ts)) = length (concat (map snd ts')).
Proof.
  induction 1 as [|a b ts ts' [_ Hab] _ IH]; [reflexivity|].
  cbn [map concat]. rewrite !app_length, IH, (Forall2_len _ _ _ Hab). reflexivity.
Qed.

Lemma app_eq_len {A} (a b c d : list A) : a ++ b = c ++ d -> length a = length c -> a = c /\ b = d.
Proof.
  revert c. induction a as [|x a IH]; intros [|y c] H L; cbn [length] in L; try discriminate.
  - auto.
  - cbn [app] in H. injection H as -> H. destruct (IH c H) as [-> ->]; [lia|]. auto.
Qed.

Theorem C14_words : forall w, In w cur_all_words -> cur_is_word w = true ->
  forall w', Forall2 Rcase w w' ->
  forall c, In c Ctx ->
  exists ts, cur_lex (fst c ++ w' ++ snd c) = Ok ts
             /\ nth_error ts (cur_ntoks_left c) = Some (cur_expected_type w, w').
Proof.
  intros w Hw Hi w' Hww c Hc.
  destruct (words_ctx_ok_spec w c Hw Hi Hc) as (tl & tr & El & Hn & E).
  assert (Hrel : Forall2 Rcase (fst c ++ w ++ snd c) (fst c ++ w' ++ snd c)).
  { apply Forall2_app; [apply Forall2_Rcase_refl|].
    apply Forall2_app; [exact Hww | apply Forall2_Rcase_refl]. }
  destruct (C_lex_case_types _ _ Hrel) as (ts & ts' & E1 & E2 & HF & _ & _).
  rewrite E in E1. injection E1 as <-.
  apply Forall2_app_mid in HF. destruct HF as (tl' & [ty' v'] & tr' & -> & Hl & [Hty Hv] & Hr).
  cbn [fst snd] in Hty, Hv. subst ty'.
  exists (tl' ++ (cur_expected_type w, v') :: tr'). split; [exact E2|].
  (* the value: losslessness + equal lengths *)
  destruct (cur_lex_lossless (fst c ++ w' ++ snd c)) as (ts2 & E3 & Hcat & _).
  rewrite E2 in E3. injection E3 as <-.
  destruct (cur_lex_lossless (fst c)) as (tl2 & E4 & Hcl & _).
  rewrite El in E4. injection E4 as <-.
  rewrite map_app, concat_app in Hcat. cbn [map concat snd] in Hcat.
  assert (L1 : length (concat (map snd tl')) = length (fst c)).
  { rewrite <- (concat_len_rel _ _ Hl), Hcl. reflexivity. }
  destruct (app_eq_len _ _ _ _ Hcat L1) as [_ H2].
  assert (L2 : length v' = length w').
  { rewrite <- (Forall2_len _ _ _ Hv). apply (Forall2_len _ _ _ Hww). }
  destruct (app_eq_len _ _ _ _ H2 L2) as [-> _].
  rewrite nth_error_app2 by (rewrite <- (Forall2_len _ _ _ Hl); lia).
  rewrite <- (Forall2_len _ _ _ Hl), Hn, Nat.sub_diag. reflexivity.
Qed.
Print Assumptions C14_words.

(* the whole token stream around the word: the left context lexes as it does alone (up to its
   own spelling, which is unchanged), then the word *)
Corollary C14_words_alone : forall w, In w cur_all_words -> cur_is_word w = true ->
  forall w', Forall2 Rcase w w' -> cur_lex w' = Ok [(cur_expected_type w, w')].
Proof.
  intros w Hw Hi w' Hww.
  apply (C_lex_case_single w w' _ Hww).
  destruct (words_ctx_ok_spec w ([], []) Hw Hi) as (tl & tr & El & _ & E).
  { vm_compute. left. reflexivity. }
  cbn [fst snd app] in El, E. rewrite app_nil_r in E.
  change (cur_lex []) with (@Ok (list tok) []) in El. injection El as <-.
  destruct (cur_lex_lossless w) as (ts & E' & Hcat & Hne).
  rewrite E in E'. injection E' as <-. cbn [app map concat snd] in Hcat.
  destruct tr as [|[ty v] tr]; [exact E|]. exfalso.
  assert (Hl : length (w ++ concat (map snd ((ty, v) :: tr))) = length w) by (rewrite Hcat; reflexivity).
  rewrite app_length in Hl. cbn [map concat snd] in Hl. rewrite app_length in Hl.
  inversion Hne as [|a l _ Hne' E0]; subst. inversion Hne' as [|a l Hv _ E0]; subst.
  cbn [snd] in Hv. destruct v; [contradiction | cbn [length] in Hl; lia].
Qed.
Print Assumptions C14_words_alone.

(* ---- what the family of contexts leaves out --------------------------------------------------- *)
(* a word directly followed by "(" or "." is a Name (rules 18 / 20):  select(  and  select. *)
Theorem C14_words_before_paren_refuted :
  exists w r, In w cur_all_words /\ cur_is_word w = true
    /\ cur_expected_type w = T_DML
    /\ (exists ts, cur_lex (w ++ r) = Ok ts /\ nth_error ts 0 = Some (T_Name, w)).
Proof.
  exists [83; 69; 76; 69; 67; 84]%N, [40]%N.
  split; [vm_compute; left; reflexivity|].
  split; [vm_compute; reflexivity|].
  split; [vm_compute; reflexivity|].
  eexists. split; vm_compute; reflexivity.
Qed.

Theorem C14_words_before_dot_refuted :
  exists w r, In w cur_all_words /\ cur_is_word w = true
    /\ cur_expected_type w = T_DML
    /\ (exists ts, cur_lex (w ++ r) = Ok ts /\ nth_error ts 0 = Some (T_Name, w)).
Proof.
  exists [83; 69; 76; 69; 67; 84]%N, [32; 46]%N.
  split; [vm_compute; left; reflexivity|].
  split; [vm_compute; reflexivity|].
  split; [vm_compute; reflexivity|].
  eexists. split; vm_compute; reflexivity.
Qed.

(* after a "." every word is a Name (rule 19) *)
Theorem C14_words_after_dot_refuted :
  exists l w, In w cur_all_words /\ cur_is_word w = true
    /\ cur_expected_type w = T_DML
    /\ (exists ts, cur_lex (l ++ w) = Ok ts /\ nth_error ts 1 = Some (T_Name, w)).
Proof.
  exists [46]%N, [83; 69; 76; 69; 67; 84]%N.
  split; [vm_compute; left; reflexivity|].
  split; [vm_compute; reflexivity|].
  split; [vm_compute; reflexivity|].
  eexists. split; vm_compute; reflexivity.
Qed.

(* a word that starts a multi-word rule, followed by blanks and the continuation, is absorbed
   into the longer token:  ORDER BY  is one Keyword token, not the word ORDER *)
Theorem C14_words_multiword_refuted :
  exists w r, In w cur_all_words /\ cur_is_word w = true
    /\ (exists ts, cur_lex (w ++ r) = Ok ts /\ nth_error ts 0 = Some (T_Keyword, w ++ r)).
Proof.
  exists [79; 82; 68; 69; 82]%N, [32; 66; 89]%N.
  split; [vm_compute; do 26 right; left; reflexivity|].
  split; [vm_compute; reflexivity|].
  eexists. split; vm_compute; reflexivity.
Qed.

(* glued to a preceding or following word character / "$" / "#" the word is part of a longer
   word:  xSELECT, SELECT$ and SELECT#1 are single Name tokens *)
Theorem C14_words_glued_refuted :
  cur_lex [120; 83; 69; 76; 69; 67; 84]%N = Ok [(T_Name, [120; 83; 69; 76; 69; 67; 84]%N)]
  /\ cur_lex [83; 69; 76; 69; 67; 84; 36]%N = Ok [(T_Name, [83; 69; 76; 69; 67; 84; 36]%N)]
  /\ cur_lex [83; 69; 76; 69; 67; 84; 35; 49]%N = Ok [(T_Name, [83; 69; 76; 69; 67; 84; 35; 49]%N)].
Proof. vm_compute. auto. Qed.

(* ---- examples: the hypotheses are satisfiable -------------------------------------------------- *)
Example C14_words_ex :    (* "sElEcT" between "(" and " ;" *)
  exists ts, cur_lex ([40] ++ [115; 69; 108; 69; 99; 84] ++ [32; 59])%N = Ok ts
             /\ nth_error ts 1 = Some (T_DML, [115; 69; 108; 69; 99; 84]%N).
Proof.
  apply (C14_words [83; 69; 76; 69; 67; 84]%N) with (c := ([40]%N, [32; 59]%N)).
  - vm_compute. left. reflexivity.
  - vm_compute. reflexivity.
  - apply text_Rcase_b_sound. vm_compute. reflexivity.
  - vm_compute. do 26 right. left. reflexivity.
Qed.
