(* grouping.group rebuilt from the generated tables (PassTabDefs.group_gen: IR evaluators as callbacks)
   computes the same function as the hand-written Passes.group, stage by stage.  Proofs only. *)
From SqlModel Require Import Base PyStr Node Inv Passes PassIR.
From SqlModel.Gen Require Import CaseTabs PassTab.
From SqlModel.Inst Require Import PassTabDefs PassTabOk.
From Coq Require Import Bool ZArith.

(* ---- the drivers depend on the parameter record only through its class, flag and the VALUES of
        its callbacks --------------------------------------------------------------------------- *)
Lemma group_loop_ext p q : gparams_eq p q ->
  forall snap idx s, group_loop p snap idx s = group_loop q snap idx s.
Proof.
  intros (Hc & He & Hm & Hp & Hn & Hpost).
  induction snap as [|token snap IH]; intros idx s; [reflexivity|].
  cbn [group_loop].
  destruct (Z.ltb (Z.of_nat idx - g_off s) 0); [apply IH|].
  destruct (is_ws token); [apply IH|].
  rewrite Hm. destruct (g_match q token); [|apply IH].
  destruct (g_prev s) as [pv|]; [|apply IH].
  destruct (g_pidx s) as [pidx|]; [|apply IH].
  rewrite Hp, Hn.
  destruct (g_vprev q pv && g_vnext q _); [|apply IH].
  rewrite Hpost, Hc, He.
  destruct (g_post q _ _ _ _) as [[[live1 from_idx] to_idx]|e]; [|reflexivity].
  cbn [bind].
  destruct (group_tokens _ _ _ _ _) as [[live2 grp]|e]; [|reflexivity].
  cbn [bind]. apply IH.
Qed.

Lemma mapM2_ext {A B C} (g1 g2 : A -> C -> res B) d (l : list A) :
  Forall (fun x => forall c, g1 x c = g2 x c) l ->
  forall m, mapM2 g1 d l m = mapM2 g2 d l m.
Proof.
  induction 1 as [|x l Hx _ IH]; intros m; [reflexivity|].
  cbn [mapM2]. rewrite Hx, IH. reflexivity.
Qed.

Lemma group_driver_ext p q : gparams_eq p q -> forall n, group_driver p n = group_driver q n.
Proof.
  intros H. pose proof H as (Hc & _).
  induction n as [ty v | c0 v kids IH] using node_ind'; [reflexivity|].
  cbn [group_driver].
  rewrite (group_loop_ext p q H).
  destruct (group_loop q kids 0 (ginit kids)) as [dry|e]; [|reflexivity].
  cbn [bind].
  rewrite (mapM2_ext _ (fun k (f : bool) => if f && is_group k && negb (inst k (g_cls q))
                                           then group_driver q k else Ok k)).
  - destruct (mapM2 _ _ _ _) as [kids1|e]; [|reflexivity].
    cbn [bind]. rewrite (group_loop_ext p q H). reflexivity.
  - clear dry. induction IH as [|k kids Hk _ IHk]; constructor; [|exact IHk].
    intros f. rewrite Hc. destruct (f && is_group k && negb (inst k (g_cls q))); [apply Hk|reflexivity].
Qed.

Lemma group_driver_flat_ext p q : gparams_eq p q ->
  forall n, group_driver_flat p n = group_driver_flat q n.
Proof.
  intros H [ty v | c0 v kids]; [reflexivity|].
  cbn [group_driver_flat]. rewrite (group_loop_ext p q H). reflexivity.
Qed.

Lemma group_drv_ext b p q : gparams_eq p q -> forall n, group_drv b p n = group_drv b q n.
Proof.
  intros H n. destruct b; [apply group_driver_ext | apply group_driver_flat_ext]; exact H.
Qed.

Lemma run_passes_ext (fs gs : list (node -> res node)) :
  Forall2 (fun f g => forall n, f n = g n) fs gs -> forall n, run_passes fs n = run_passes gs n.
Proof.
  induction 1 as [|f g fs gs Hfg _ IH]; intros n; [reflexivity|].
  cbn [run_passes]. rewrite Hfg. destruct (g n) as [n'|e]; [apply IH|reflexivity].
Qed.

Lemma Forall2_firstn {A B} (R : A -> B -> Prop) k l m :
  Forall2 R l m -> Forall2 R (firstn k l) (firstn k m).
Proof.
  intros H; revert k. induction H as [|x y l m Hxy _ IH]; intros [|k]; cbn [firstn]; constructor; auto.
Qed.

(* ---- pass by pass ---------------------------------------------------------------------------- *)
Lemma drv_true p q : gparams_eq p q ->
  forall n, plain NoDecorator (group_drv true p) n = group_driver q n.
Proof. intros H n. apply (group_drv_ext true _ _ H). Qed.

Lemma drv_false p q : gparams_eq p q ->
  forall n, plain NoDecorator (group_drv false p) n = group_driver_flat q n.
Proof. intros H n. apply (group_drv_ext false _ _ H). Qed.

Ltac same_pass := apply Forall2_cons; [intros n; reflexivity|].
Ltac drv_pass H := apply Forall2_cons; [intros n; first [exact (drv_true _ _ H n) | exact (drv_false _ _ H n)]|].

Theorem gen_passes_pointwise : Forall2 (fun f g => forall n, f n = g n) gen_pass_list passes.
Proof.
  destruct gen_params_tied as (H1 & H2 & H3 & H4 & H5 & H6 & H7 & H8 & H9 & H10 & H11).
  unfold gen_pass_list, passes.
  same_pass. (* group_comments *)
  same_pass. same_pass. same_pass. same_pass. same_pass. same_pass. (* _group_matching *)
  same_pass. (* group_over *)
  same_pass. (* group_functions *)
  same_pass. (* group_where *)
  drv_pass H5. (* group_period *)
  drv_pass H6. (* group_arrays *)
  same_pass. (* group_identifier *)
  same_pass. (* group_order *)
  drv_pass H1. (* group_typecasts *)
  drv_pass H2. (* group_tzcasts *)
  apply Forall2_cons. (* group_typed_literal: two _group calls *)
  { intros n.
    change (plain pt_group_typed_literal_decor
              (fun n0 => n1 <- group_drv pt_group_typed_literal_c1_recurse gen_typed_literal1 n0 ;;
                         group_drv pt_group_typed_literal_c2_recurse gen_typed_literal2 n1) n)
      with (n1 <- plain NoDecorator (group_drv true gen_typed_literal1) n ;;
            plain NoDecorator (group_drv true gen_typed_literal2) n1).
    rewrite (drv_true _ _ H3 n).
    destruct (group_driver p_typed_literal1 n) as [n1|e]; [|reflexivity].
    cbn [bind]. exact (drv_true _ _ H4 n1). }
  drv_pass H7. (* group_operator *)
  drv_pass H8. (* group_comparison *)
  drv_pass H9. (* group_as *)
  same_pass. (* group_aliased *)
  drv_pass H10. (* group_assignment *)
  same_pass. (* align_comments *)
  drv_pass H11. (* group_identifier_list *)
  same_pass. (* group_values *)
  apply Forall2_nil.
Qed.

(* ---- the pipeline ------------------------------------------------------------------------------ *)
Theorem group_gen_eq : forall n, group_gen n = group n.
Proof. intros n. apply run_passes_ext, gen_passes_pointwise. Qed.

Theorem group_gen_upto_eq : forall k n, group_gen_upto k n = group_upto k n.
Proof. intros k n. apply run_passes_ext, Forall2_firstn, gen_passes_pointwise. Qed.

(* SELECT a.b FROM t  -- the regenerated pipeline runs (and agrees with the hand-written one) *)
Example group_gen_runs :
  let toks := [(T_DML, [83; 69; 76; 69; 67; 84]%N); (T_Whitespace, [32]%N); (T_Name, [97]%N);
               (T_Punctuation, [46]%N); (T_Name, [98]%N); (T_Whitespace, [32]%N);
               (T_Keyword, [70; 82; 79; 77]%N); (T_Whitespace, [32]%N); (T_Name, [116]%N)] in
  match group_gen (statement_of toks) with
  | Ok (Grp CStatement _ [_; _; Grp CIdentifier _ [_; _; _]; _; _; _; Grp CIdentifier _ [_]]) => True
  | _ => False
  end.
Proof. vm_compute. exact I. Qed.

Print Assumptions group_gen_eq.
Print Assumptions group_gen_upto_eq.
