(* C12, the finite pipeline family (Inst/C12Fin.v: 660 texts through lexer, splitter and all 25 passes) LIFTED over the
   white-space token VALUES by the relational invariance of C11 (Group/WsRelFacts.v, instance: every value equal except on
   white-space leaves): for every text whose token stream differs from a family text only in the values of its white-space
   tokens (a tab for a blank, CR LF for LF ...), the parse tree has an Identifier node at the corresponding place on which
   get_real_name / get_parent_name / get_alias / has_alias / get_name return the SAME written parts. *)
From SqlModel Require Import Base PyStr Str Re Lexer SplitDefs Splitter Node Inv Passes PassIR Accessors.
From SqlModel Require Import Skeleton SkeletonFacts CaseRelDefs WsRelDefs WsRelFacts.
From SqlModel.Gen Require Import CaseTabs PassTab SplitTab.
From SqlModel.Inst Require Import Cur C12Fin C11WsVal.
From SqlModel.Acc Require Import AccFacts.
From Coq Require Import Bool Lia.

(* ---- the relation: everything equal but the values of white-space leaves ---------------------------------- *)
Definition RgT : text -> text -> Prop := WRg.
Definition wsonly : node -> node -> Prop := wrelG eq WS RgT.
Definition tok_wsonly : tok -> tok -> Prop := tok_relW eq WS.

Lemma eq_rl : forall v v' : text, v = v' ->
  knorm v = knorm v' /\ (forall s, nospace s = true -> text_eqb (upper v) s = text_eqb (upper v') s).
Proof. intros v v' ->. auto. Qed.
Lemma toks_seg_o ls ls' : Forall2 tok_wsonly ls ls' -> Forall2 C11KwSpell.seg_w (map snd ls) (map snd ls').
Proof.
  induction 1 as [|a b ls ls' [_ Hv] _ IH]; cbn [map]; constructor; [|exact IH].
  unfold C11KwSpell.seg_w. unfold lrel in Hv. destruct (tin (fst a) T_Keyword); [rewrite Hv; reflexivity|].
  destruct (tin (fst a) T_Whitespace); [|rewrite Hv; reflexivity].
  destruct Hv as [H1 H2]. rewrite (wsv_upper _ H1), (wsv_upper _ H2), (collapse_wsv _ H1), (collapse_wsv _ H2). reflexivity.
Qed.

Lemma Hmk_T : forall k k', Forall2 wsonly k k' -> RgT (text_of_list k) (text_of_list k').
Proof.
  intros k k' H. unfold RgT, WRg. rewrite !text_of_list_leaves, !flat_map_concat_map.
  apply C11KwSpell.concat_WRg, toks_seg_o. apply (leaves_list_rel eq WS RgT), H.
Qed.

Notation LRo := (Forall2 wsonly).

Lemma wsonly_nvalue n n' : wsonly n n' -> is_ws n = false -> is_group n = false -> nvalue n = nvalue n'.
Proof.
  intros [ty v v' Hv | c v v' k k' _ _] W G; [|cbn [is_group] in G; discriminate]. cbn [nvalue is_ws tt_in] in *.
  unfold lrel in Hv. destruct (tin ty T_Keyword); [exact Hv|]. rewrite W in Hv. exact Hv.
Qed.

Lemma among_not_ws t tys : tt_among t tys = true -> forallb (fun ty => negb (tin ty T_Whitespace)) tys = true ->
  is_ws t = false /\ is_group t = false.
Proof.
  destruct t as [ty v | c v k]; cbn [tt_among is_ws tt_in is_group]; [|intros H; discriminate H]. intros H F. split; [|reflexivity].
  apply existsb_exists in H. destruct H as (ty0 & Hin & E). apply ttype_eqb_eq in E. subst ty0.
  pose proof (proj1 (forallb_forall _ _) F ty Hin) as Hn. cbv beta in Hn. destruct (tin ty T_Whitespace); [discriminate Hn | reflexivity].
Qed.

Lemma name_types_not_ws kw : forallb (fun ty => negb (tin ty T_Whitespace)) (name_types kw) = true.
Proof. destruct kw; reflexivity. Qed.

Definition prel2 (a b : node * res (option text)) : Prop := wsonly (fst a) (fst b) /\ snd a = snd b.

Lemma first_name_scan_rel kw l l' : Forall2 prel2 l l' -> first_name_scan kw l = first_name_scan kw l'.
Proof.
  induction 1 as [|[t r] [t' r'] l l' [Ht Hr] _ IH]; [reflexivity|]. cbn [fst snd] in *. subst r'. cbn [first_name_scan].
  rewrite <- (cinv_tt_among eq WS RgT (name_types kw) t t' Ht).
  destruct (tt_among t (name_types kw)) eqn:A.
  - destruct (among_not_ws t _ A (name_types_not_ws kw)) as [W G]. rewrite (wsonly_nvalue t t' Ht W G). reflexivity.
  - rewrite <- (cinv_inst_any eq WS RgT [CIdentifier; CFunction] t t' Ht).
    destruct (inst_any t [CIdentifier; CFunction]); [reflexivity | exact IH].
Qed.

Lemma Forall2_combine k k' (s s' : list (res (option text))) :
  LRo k k' -> s = s' -> Forall2 prel2 (combine k s) (combine k' s').
Proof.
  intros H ->. revert s'. induction H as [|x y k k' Hxy _ IH]; intros [|r s]; cbn [combine]; try constructor.
  - split; [exact Hxy | reflexivity].
  - apply IH.
Qed.

Lemma Forall2_skipn_p {A B} (P : A -> B -> Prop) n l l' : Forall2 P l l' -> Forall2 P (skipn n l) (skipn n l').
Proof. intros H; revert n. induction H; intros [|n]; cbn [skipn]; auto. Qed.
Lemma Forall2_rev_p {A B} (P : A -> B -> Prop) l l' : Forall2 P l l' -> Forall2 P (rev l) (rev l').
Proof.
  induction 1 as [|x y l l' Hxy _ IH]; cbn [rev]; [constructor|]. apply Forall2_app; [exact IH | constructor; [exact Hxy | constructor]].
Qed.

Lemma first_name_rel idx rv kw k k' s : LRo k k' -> first_name idx rv kw k s = first_name idx rv kw k' s.
Proof.
  intros H. unfold first_name. apply first_name_scan_rel.
  assert (Hc : Forall2 prel2 (slice_opt idx (combine k s)) (slice_opt idx (combine k' s))).
  { unfold slice_opt. destruct idx as [[|i]|]; try (apply Forall2_combine; [exact H | reflexivity]).
    apply Forall2_skipn_p, Forall2_combine; [exact H | reflexivity]. }
  destruct rv; [apply Forall2_rev_p, Hc | exact Hc].
Qed.

Lemma next_by_m_rel p k k' : pat_ws_ok p = true -> LRo k k' ->
  option_map fst (next_by_m p k) = option_map fst (next_by_m p k').
Proof.
  intros Hp H. unfold next_by_m.
  pose proof (next_by_from_rel eq WS RgT eq_rl WS_rw [] [p] TNone 0 k k' ltac:(cbn [forallb]; rewrite Hp; reflexivity) H) as Hn.
  destruct (next_by_from [] [p] TNone 0 k) as [[i a]|], (next_by_from [] [p] TNone 0 k') as [[j b]|];
    cbn [ires orel fst snd option_map] in *; try contradiction; [destruct Hn as [-> _]|]; reflexivity.
Qed.

Lemma map_rel_eq (f : node -> res (option text)) k k' :
  Forall (fun x => forall y, wsonly x y -> f x = f y) k -> LRo k k' -> map f k = map f k'.
Proof.
  intros HF H. induction H as [|x y k k' Hxy _ IH]; [reflexivity|]. inversion HF; subst. cbn [map]. f_equal; auto.
Qed.

Theorem get_real_name_rel : forall n n', wsonly n n' -> get_real_name n = get_real_name n'.
Proof.
  induction n as [ty v | c v kids IH] using node_ind'; intros n' H.
  - inversion H; subst. reflexivity.
  - inversion H as [|c1 v1 v' k1 kids' Hv Hk]; subst. cbn [get_real_name].
    destruct (name_alias_cls c); [|reflexivity].
    rewrite (next_by_m_rel dot_pat kids kids' eq_refl Hk), (map_rel_eq get_real_name kids kids' IH Hk).
    apply first_name_rel, Hk.
Qed.

Lemma alias_of_rel k k' s : LRo k k' -> alias_of k s = alias_of k' s.
Proof.
  intros H. unfold alias_of.
  pose proof (next_by_m_rel as_pat k k' eq_refl H) as E.
  destruct (next_by_m as_pat k) as [[i a]|], (next_by_m as_pat k') as [[j b]|]; cbn [option_map fst] in E; try discriminate.
  - injection E as <-. apply first_name_rel, H.
  - unfold next_by_t.
    pose proof (next_by_from_rel eq WS RgT eq_rl WS_rw [] [] (TOne T_Whitespace) 0 k k' eq_refl H) as Hn.
    rewrite <- (LR_length eq WS RgT k k' H).
    destruct (next_by_from [] [] (TOne T_Whitespace) 0 k) as [[i a]|],
      (next_by_from [] [] (TOne T_Whitespace) 0 k') as [[j b]|]; cbn [ires orel] in Hn; try contradiction; [|reflexivity].
    destruct (Nat.ltb 2 (List.length k)); [apply first_name_rel, H | reflexivity].
Qed.

Theorem get_name_rel : forall n n', wsonly n n' -> get_name n = get_name n'.
Proof.
  induction n as [ty v | c v kids IH] using node_ind'; intros n' H.
  - inversion H; subst. reflexivity.
  - pose proof (get_real_name_rel _ _ H) as Hr.
    inversion H as [|c1 v1 v' k1 kids' Hv Hk]; subst. cbn [get_name].
    destruct (name_alias_cls c); [|reflexivity].
    rewrite (map_rel_eq get_name kids kids' IH Hk), (alias_of_rel kids kids' _ Hk), Hr. reflexivity.
Qed.

Theorem get_alias_rel : forall n n', wsonly n n' -> get_alias n = get_alias n'.
Proof.
  intros n n' H. destruct H as [ty v v' Hv | c v v' k k' Hv Hk]; [reflexivity|]. cbn [get_alias].
  destruct (name_alias_cls c); [|reflexivity].
  assert (E : map get_name k = map get_name k').
  { apply map_rel_eq; [|exact Hk]. apply Forall_forall. intros x _ y Hxy. apply get_name_rel, Hxy. }
  rewrite E. apply alias_of_rel, Hk.
Qed.

Theorem has_alias_rel : forall n n', wsonly n n' -> has_alias n = has_alias n'.
Proof. intros n n' H. unfold has_alias. rewrite (get_alias_rel n n' H). reflexivity. Qed.

Lemma find_last_aux_sat f : forall l b best i x,
  (forall j y, best = Some (j, y) -> f y = true) -> find_last_aux f l b best = Some (i, x) -> f x = true.
Proof.
  induction l as [|a l IH]; intros b best i x Hb H; cbn [find_last_aux] in H; [eapply Hb; exact H|].
  eapply IH; [|exact H]. intros j y E. destruct (f a) eqn:Fa; [injection E as <- <-; exact Fa | eapply Hb; exact E].
Qed.

(* get_parent_name reads the value of the token in front of the period; when that token is a GROUP its cached text contains
   the white space inside it, so the answer does depend on the spelling: the premise says it is a leaf *)
Definition parent_is_leaf (n : node) : bool :=
  match n with
  | Leaf _ _ => true
  | Grp _ _ k =>
      match next_by_m dot_pat k with
      | None => true
      | Some (i, _) => match token_prev true false i k with Some (_, p) => negb (is_group p) | None => true end
      end
  end.

Theorem get_parent_name_rel : forall n n', wsonly n n' -> parent_is_leaf n = true ->
  get_parent_name n = get_parent_name n'.
Proof.
  intros n n' H PL. destruct H as [ty v v' Hv | c v v' k k' Hv Hk]; [reflexivity|]. cbn [get_parent_name parent_is_leaf] in *.
  unfold next_by_m in *.
  pose proof (next_by_from_rel eq WS RgT eq_rl WS_rw [] [dot_pat] TNone 0 k k' eq_refl Hk) as Hn.
  destruct (next_by_from [] [dot_pat] TNone 0 k) as [[i a]|], (next_by_from [] [dot_pat] TNone 0 k') as [[j b]|];
    cbn [ires orel fst snd] in Hn; try contradiction; [|reflexivity].
  destruct Hn as [<- _].
  pose proof (token_prev_rel eq WS RgT eq_rl WS_rw true false i k k' Hk) as Hp.
  destruct (token_prev true false i k) as [[pi p]|] eqn:Ep, (token_prev true false i k') as [[pj p']|];
    cbn [ires orel fst snd] in Hp; try contradiction; [|reflexivity].
  destruct Hp as [_ Hpp].
  assert (W : is_ws p = false).
  { unfold token_prev, find_before in Ep.
    assert (Hnone : forall (j : nat) (y : node), @None (nat * node) = Some (j, y) -> skip_matcher true false y = true)
      by (intros j y E0; discriminate E0).
    pose proof (find_last_aux_sat _ _ _ _ _ _ Hnone Ep) as S. rewrite sm_tf in S.
    destruct (is_ws p); [discriminate | reflexivity]. }
  assert (G : is_group p = false) by (destruct (is_group p); [discriminate | reflexivity]).
  rewrite (wsonly_nvalue p p' Hpp W G). reflexivity.
Qed.

(* ---- all nodes of related trees correspond ---------------------------------------------------------------- *)
Lemma all_nodes_rel : forall fuel n n', wsonly n n' -> LRo (all_nodes fuel n) (all_nodes fuel n').
Proof.
  induction fuel as [|f IH]; intros n n' H; cbn [all_nodes]; [constructor|].
  constructor; [exact H|].
  assert (Hk : LRo (nkids n) (nkids n')) by (destruct H as [? ? ? ?|c v v' k k' _ Hk]; [constructor | exact Hk]).
  induction Hk as [|x y k k' Hxy _ IHk]; cbn [flat_map]; [constructor|]. apply Forall2_app; [apply IH, Hxy | exact IHk].
Qed.

Lemma Forall2_In_l {A B} (P : A -> B -> Prop) l l' x : Forall2 P l l' -> In x l -> exists y, In y l' /\ P x y.
Proof.
  induction 1 as [|a b l l' Hab _ IH]; intros Hin; [contradiction|]. destruct Hin as [->|Hin].
  - exists b. split; [left; reflexivity | exact Hab].
  - destruct (IH Hin) as (y & Hy & Py). exists y. split; [right; exact Hy | exact Py].
Qed.

(* ---- the instance of the generic development for this relation ------------------------------------------------ *)
Lemma nvalue_ue_o n n' s : wsonly n n' -> nospace s = true ->
  text_eqb (upper (nvalue n)) s = text_eqb (upper (nvalue n')) s \/ is_group n = true.
Proof.
  intros [ty v v' Hv | c v v' k k' Hv Hk] Hs; [left|right; reflexivity]. cbn [nvalue]. unfold lrel in Hv.
  destruct (tin ty T_Keyword); [rewrite Hv; reflexivity|]. destruct (tin ty T_Whitespace); [|rewrite Hv; reflexivity].
  destruct Hv as [H1 H2]. rewrite (wsv_upper _ H1), (wsv_upper _ H2).
  rewrite (wsv_not_word v s H1 (nospace_not_ws s Hs)), (wsv_not_word v' s H2 (nospace_not_ws s Hs)). reflexivity.
Qed.

(* ---- all 25 passes, the splitter and parse for this relation (instance of Group/WsRelFacts.v via Inst/C11WsVal.v) ------- *)
Lemma nvalue_ue_wo n n' s : wsonly n n' -> nospace s = true ->
  text_eqb (upper (nvalue n)) s = text_eqb (upper (nvalue n')) s.
Proof.
  intros [ty v v' Hv | c v v' k k' Hv Hk] Hs; cbn [nvalue]; [|apply Hv, Hs].
  unfold lrel in Hv. destruct (tin ty T_Keyword); [rewrite Hv; reflexivity|].
  destruct (tin ty T_Whitespace); [|rewrite Hv; reflexivity].
  destruct Hv as [H1 H2]. rewrite (wsv_upper _ H1), (wsv_upper _ H2).
  rewrite (wsv_not_word v s H1 (nospace_not_ws s Hs)), (wsv_not_word v' s H2 (nospace_not_ws s Hs)). reflexivity.
Qed.

Lemma fn_guard_wo : fn_guard eq WS RgT.
Proof. split; [|split]; intros n n' H; cbv beta; apply nvalue_ue_wo; try exact H; vm_compute; reflexivity. Qed.

Theorem group_upto_wsonly k : forall n n', wsonly n n' -> rres wsonly (group_upto k n) (group_upto k n').
Proof. exact (group_upto_prel eq WS RgT eq_rl WS_rw Hmk_T k fn_guard_wo). Qed.

Lemma tok_wsonly_ty a b : tok_wsonly a b -> fst a = fst b.
Proof. intros [H _]. exact H. Qed.

Lemma tok_wsonly_skel a b : tok_wsonly a b -> is_ws_tok a = false -> tok_skel a b.
Proof.
  intros [Hty Hv] W. split; [exact Hty|]. unfold is_kw_tok. unfold lrel in Hv. unfold is_ws_tok in W.
  destruct (tin (fst a) T_Keyword) eqn:K.
  - assert (Hc : collapse (upper (snd a)) = collapse (upper (snd b))) by (rewrite Hv; reflexivity).
    destruct (guard_free a b Hty Hc) as [E G]. split; [exact Hc|]. split; [exact E | intros _; exact G].
  - rewrite W in Hv. exact Hv.
Qed.

Theorem parse_wsonly : forall t t' l l',
  cur_lex t = Ok l -> cur_lex t' = Ok l' -> Forall2 tok_wsonly l l' ->
  rres (Forall2 wsonly) (cur_parse t) (cur_parse t').
Proof.
  intros t t' l l' E E' H. change (cur_parse t) with (cur_parse_upto 25 t). change (cur_parse t') with (cur_parse_upto 25 t').
  unfold cur_parse_upto, cur_split_stream. rewrite E, E'. cbn [bind].
  apply (C11Group.mapM_rel2 (Forall2 tok_wsonly) wsonly).
  - intros s s' Hs. apply group_upto_wsonly. apply (statement_of_rel eq WS RgT Hmk_T). exact Hs.
  - apply (process_rel_w tok_wsonly tok_wsonly_ty tok_wsonly_skel). exact H.
Qed.

(* ---- THE lifted family ------------------------------------------------------------------------------------------ *)
Theorem C12_family_respelled : forall c q nm al,
  In c contexts -> In q quals -> In nm names -> In al aliases ->
  let refw := (match q with Some (qw, _) => qw ++ tx "." | None => [] end) ++ fst nm ++ fst al in
  forall t l0 l, cur_lex (fst c ++ refw ++ snd c) = Ok l0 -> cur_lex t = Ok l -> Forall2 tok_wsonly l0 l ->
  exists s n, cur_parse t = Ok [s] /\ In n (all_nodes 12 s) /\ inst n CIdentifier = true
    /\ get_real_name n = Ok (Some (snd nm))
    /\ get_alias n = Ok (snd al)
    /\ has_alias n = Ok (match snd al with Some _ => true | None => false end)
    /\ get_name n = Ok (Some (match snd al with Some a => a | None => snd nm end)).
Proof.
  intros c q nm al Hc Hq Hn Ha refw t l0 l E0 E H.
  destruct (C12_pipeline_fin_member c q nm al Hc Hq Hn Ha) as (s0 & n0 & Ep0 & Hin0 & Hi0 & _ & Hr0 & _ & Ha0 & Hn0).
  fold refw in Ep0.
  pose proof (parse_wsonly _ t l0 l E0 E H) as HP. rewrite Ep0 in HP.
  destruct (cur_parse t) as [ss|e]; cbn [rres] in HP; [|contradiction].
  inversion HP as [|a b r r' Hab Hr]; subst. inversion Hr; subst.
  destruct (Forall2_In_l wsonly _ _ n0 (all_nodes_rel 12 s0 b Hab) Hin0) as (n & Hin & Hnn).
  exists b, n. split; [reflexivity|]. split; [exact Hin|].
  split; [rewrite <- (cinv_inst eq WS RgT CIdentifier n0 n Hnn); exact Hi0|].
  split; [rewrite <- (get_real_name_rel n0 n Hnn); exact Hr0|].
  split; [rewrite <- (get_alias_rel n0 n Hnn); exact Ha0|].
  split; [unfold has_alias; rewrite <- (get_alias_rel n0 n Hnn), Ha0; destruct (snd al); reflexivity|].
  rewrite <- (get_name_rel n0 n Hnn). exact Hn0.
Qed.
Print Assumptions C12_family_respelled.
