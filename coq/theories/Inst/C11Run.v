(* C11, lexer, white-space runs, UNBOUNDED: at a position whose next character is an ASCII letter, the rule of the
   current table that matches, and the place where its match ends, do not depend on the length or the spelling of the
   white-space runs of the text (ORDER<any run>BY is matched like ORDER BY, for every run and every context).
   Instance of Lexer/RunLex.v: every rule of SQL_REGEX is in the class (good false) or cannot start with the letter;
   the TZCast rule (its quoted part may contain white space) is left to a hypothesis. *)
From SqlModel Require Import Base PyStr Re Lexer FirstDefs First SplitApi RunInvDefs RunInv RunLex CaseDefs.
From SqlModel.Gen Require Import Atoms Rules CaseTabs KwTabs.
From SqlModel.Inst Require Import Cur.

Definition RSp : cset := regex_space_set.
Definition all_letters : list N := letters ++ map (fun c => (c + 32)%N) letters.

Definition is_tz (a : action) : bool :=
  match a with Emit ty => ttype_eqb ty T_TZCast | AsKeyword => false end.

Definition rule_ok (ch : N) (ra : rule) : bool :=
  good RSp false (fst ra) || no_start (fst ra) ch || is_tz (snd ra).

Theorem C11_run_table :
  forallb (fun ch => negb (inS RSp ch) && forallb (rule_ok ch) sql_regex) all_letters = true.
Proof. vm_compute. reflexivity. Qed.

(* how much of the table is in the class itself (not merely unable to start with a letter) *)
Example C11_run_table_size :
  length sql_regex = 52
  /\ length (filter (fun ra => good RSp false (fst ra)) sql_regex) = 38
  /\ length (filter (fun ra => good RSp false (fst ra) && existsb (can_start (fst ra)) all_letters) sql_regex) = 22
  /\ length (filter (fun ra => is_tz (snd ra)) sql_regex) = 1.
Proof. vm_compute. repeat split. Qed.

(* the TZCast rule matches at neither position *)
Definition tz_quiet (x : st) : Prop :=
  forall ra, In ra sql_regex -> is_tz (snd ra) = true -> rmatch lower (fst ra) x = None.

Theorem C11_first_match_run ch p p' t t' :
  In ch all_letters -> prel RSp p p' -> RS RSp (ch :: t) (ch :: t') ->
  tz_quiet (mkSt p (ch :: t)) -> tz_quiet (mkSt p' (ch :: t')) ->
  first_rel RSp (mkSt p (ch :: t)) (mkSt p' (ch :: t'))
            (cur_first_match (mkSt p (ch :: t))) (cur_first_match (mkSt p' (ch :: t'))).
Proof.
  intros Hch Hp Ht Q Q'. pose proof (proj1 (forallb_forall _ _) C11_run_table ch Hch) as Hrow.
  apply andb_true_iff in Hrow. destruct Hrow as [Hns Hrow].
  assert (Hnc : inS RSp ch = false) by (destruct (inS RSp ch); [discriminate | reflexivity]).
  apply (first_match_run lower RSp).
  - repeat split; cbn [rest prev]; [exact Ht | exact Hp | |];
      unfold interior, snext; cbn [rest snext_t]; rewrite Hnc; apply andb_false_r.
  - apply Forall_forall. intros ra Hin. pose proof (proj1 (forallb_forall _ _) Hrow ra Hin) as Hok.
    unfold rule_ok in Hok. apply orb_true_iff in Hok. destruct Hok as [Hok | Htz].
    + apply orb_true_iff in Hok. destruct Hok as [Hg | Hn]; [left; exact Hg|].
      right. split; apply (no_start_rmatch lower); exact Hn.
    + right. split; [apply Q | apply Q']; assumption.
Qed.
Print Assumptions C11_first_match_run.

(* one run re-spelled, the rest of the text kept *)
Theorem C11_first_match_respell ch w R R' u p :
  In ch all_letters -> forallb (fun c => negb (inS RSp c)) w = true ->
  R <> [] -> R' <> [] -> forallb (inS RSp) R = true -> forallb (inS RSp) R' = true -> snext_t RSp u = false ->
  tz_quiet (mkSt p (ch :: w ++ R ++ u)) -> tz_quiet (mkSt p (ch :: w ++ R' ++ u)) ->
  first_rel RSp (mkSt p (ch :: w ++ R ++ u)) (mkSt p (ch :: w ++ R' ++ u))
            (cur_first_match (mkSt p (ch :: w ++ R ++ u))) (cur_first_match (mkSt p (ch :: w ++ R' ++ u))).
Proof.
  intros Hch Hw HR HR' FR FR' Hu Q Q'. apply C11_first_match_run; try assumption; [left; reflexivity|].
  pose proof (proj1 (forallb_forall _ _) C11_run_table ch Hch) as Hrow. apply andb_true_iff in Hrow.
  change (ch :: w ++ R ++ u) with ((ch :: w) ++ R ++ u). change (ch :: w ++ R' ++ u) with ((ch :: w) ++ R' ++ u).
  apply RS_respell; try assumption. cbn [forallb]. rewrite (proj1 Hrow), Hw. reflexivity.
Qed.
Print Assumptions C11_first_match_respell.

(* ---- the first TOKEN ---------------------------------------------------------------------------------------- *)
Definition first_tok (x : st) : option tok :=
  match cur_first_match x with
  | Some (a, k) => Some (mk_tok upper kws a (firstn k (rest x)))
  | None => None
  end.

Definition is_askw (a : action) : bool := match a with AsKeyword => true | Emit _ => false end.

(* the rules whose token type is looked up from the matched text cannot consume a white-space character *)
Theorem C11_askw_free :
  forallb (fun ra => negb (is_askw (snd ra)) || negb (consumes_set RSp (fst ra))) sql_regex = true.
Proof. vm_compute. reflexivity. Qed.

(* the first token has the same TYPE in both texts (and, when the type was looked up in the keyword dictionaries,
   the same value) *)
Theorem C11_first_token_run ch p p' t t' :
  In ch all_letters -> prel RSp p p' -> RS RSp (ch :: t) (ch :: t') ->
  tz_quiet (mkSt p (ch :: t)) -> tz_quiet (mkSt p' (ch :: t')) ->
  match first_tok (mkSt p (ch :: t)), first_tok (mkSt p' (ch :: t')) with
  | Some tk, Some tk' => fst tk = fst tk'
  | None, None => True
  | _, _ => False
  end.
Proof.
  intros Hch Hp Ht Q Q'. pose proof (C11_first_match_run ch p p' t t' Hch Hp Ht Q Q') as H.
  unfold first_tok. unfold first_rel in H.
  destruct (cur_first_match (mkSt p (ch :: t))) as [[a k]|] eqn:E;
    destruct (cur_first_match (mkSt p' (ch :: t'))) as [[a' k']|] eqn:E'; try contradiction; [|exact I].
  destruct H as [<- Hafter]. destruct a as [ty|]; [reflexivity|]. cbn [mk_tok fst].
  assert (Hfree : action_free RSp sql_regex AsKeyword).
  { intros r Hin. pose proof (proj1 (forallb_forall _ _) C11_askw_free (r, AsKeyword) Hin) as Hr.
    cbn [fst snd is_askw negb orb] in Hr. destruct (consumes_set RSp r); [discriminate | reflexivity]. }
  rewrite (first_match_value lower RSp sql_regex (mkSt p (ch :: t)) (mkSt p' (ch :: t')) AsKeyword k k' Hfree Ht E E' Hafter).
  reflexivity.
Qed.
Print Assumptions C11_first_token_run.

(* the rules that no letter can start and the TZCast rule: quiet whenever the first letter is not A or W *)
Theorem tz_quiet_letter ch p t :
  forallb (fun ra => negb (is_tz (snd ra)) || no_start (fst ra) ch) sql_regex = true -> tz_quiet (mkSt p (ch :: t)).
Proof.
  intros H ra Hin Htz. pose proof (proj1 (forallb_forall _ _) H ra Hin) as Hr. cbv beta in Hr. rewrite Htz in Hr. cbn [negb orb] in Hr.
  apply (no_start_rmatch lower). exact Hr.
Qed.

Example tz_letters :
  filter (fun ch => negb (forallb (fun ra => negb (is_tz (snd ra)) || no_start (fst ra) ch) sql_regex)) all_letters
  = [65; 87; 97; 119]%N.
Proof. vm_compute. reflexivity. Qed.

(* example: ORDER<tab, LF, blank, blank>BY x  and  ORDER BY x *)
Definition ex_run_a : text := [79;82;68;69;82;9;10;32;32;66;89;32;120]%N.
Definition ex_run_b : text := [79;82;68;69;82;32;66;89;32;120]%N.
Example ex_run_first :
  cur_first_match (mkSt None ex_run_a) = Some (Emit T_Keyword, 11)
  /\ cur_first_match (mkSt None ex_run_b) = Some (Emit T_Keyword, 8).
Proof. split; vm_compute; reflexivity. Qed.
Example ex_run_tok :
  first_tok (mkSt None ex_run_a) = Some (T_Keyword, firstn 11 ex_run_a)
  /\ first_tok (mkSt None ex_run_b) = Some (T_Keyword, firstn 8 ex_run_b).
Proof. split; vm_compute; reflexivity. Qed.
