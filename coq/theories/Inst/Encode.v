(* Flat numeric encodings of the results of the lexer / splitter / parser models, so that the SAME closed terms can be
   evaluated by the KERNEL (Eval vm_compute in a generated cases file, no extraction, no OCaml) and compared with the
   implementation and with the extracted model: the second evaluation route of the correspondence (tools/kernel_corr.py).
   No proofs.  The constructor numbering of tcomp / cls / exn is read by the harness from THIS file. *)
From SqlModel Require Import Base PyStr Re Lexer SplitDefs Splitter Node Passes.
From SqlModel.Inst Require Import Cur.

Definition tcomp_code (c : tcomp) : N :=
  match c with
  | Text => 0 | Whitespace => 1 | Newline => 2 | Error => 3 | Other => 4 | Keyword => 5 | Name => 6 | Literal => 7
  | String => 8 | Number => 9 | Punctuation => 10 | Operator => 11 | Comparison => 12 | Wildcard => 13 | Comment => 14
  | Assignment => 15 | Generic => 16 | Command => 17 | DML => 18 | DDL => 19 | CTE => 20 | Single => 21 | Multiline => 22
  | Hint => 23 | Placeholder => 24 | Builtin => 25 | Symbol => 26 | Hexadecimal => 27 | Float => 28 | Integer => 29
  | Order => 30 | TZCast => 31 | Heading => 32 | Subheading => 33 | Deleted => 34 | Inserted => 35 | Output => 36
  | Emph => 37 | Strong => 38 | Prompt => 39 | Traceback => 40 | Token_ => 41 | DCL => 42
  end%N.

Definition cls_code (c : cls) : N :=
  match c with
  | CStatement => 0 | CIdentifier => 1 | CIdentifierList => 2 | CTypedLiteral => 3 | CParenthesis => 4
  | CSquareBrackets => 5 | CAssignment => 6 | CIf => 7 | CFor => 8 | CComparison => 9 | CComment => 10 | CWhere => 11
  | COver => 12 | CHaving => 13 | CCase => 14 | CFunction => 15 | CBegin => 16 | COperation => 17 | CValues => 18
  | CCommand => 19 | CTokenList => 20
  end%N.

Definition exn_code (e : exn) : N :=
  match e with
  | IndexError => 0 | ValueError => 1 | AttributeError => 2 | TypeError => 3 | StopIteration => 4
  | UnicodeDecodeError => 5 | RecursionError => 6 | SQLParseError => 7 | NotImplementedError => 8 | LookupError => 9
  | Stuck => 99
  end%N.

Definition len {A} (l : list A) : N := N.of_nat (List.length l).
Definition enc_text (t : text) : list N := len t :: t.
Definition enc_ttype (ty : ttype) : list N := len ty :: map tcomp_code ty.
Definition enc_tok (tk : tok) : list N := enc_ttype (fst tk) ++ enc_text (snd tk).

Fixpoint enc_node (n : node) : list N :=
  match n with
  | Leaf ty v => 0%N :: enc_ttype ty ++ enc_text v
  | Grp c v kids => 1%N :: cls_code c :: enc_text v ++ len kids :: flat_map enc_node kids
  end.

Definition enc_res {A} (f : A -> list N) (r : res A) : list N :=
  match r with Ok a => 1%N :: f a | Err e => [0%N; exn_code e] end.

Definition k_lex (t : text) : list N := enc_res (fun l => len l :: flat_map enc_tok l) (cur_lex t).
Definition k_split (t : text) : list N :=
  enc_res (fun ss => len ss :: flat_map (fun s : list tok => len s :: flat_map enc_tok s) ss) (cur_split_stream t).
Definition k_parse (t : text) : list N := enc_res (fun ss => len ss :: flat_map enc_node ss) (cur_parse t).
