(* Instantiation obligations of C01 over the regenerated rule table. *)
From SqlModel Require Import Base Re Lexer LexFacts.
From SqlModel.Gen Require Import Rules.

(* every rule of the current SQL_REGEX has minimum match width >= 1 *)
Lemma cur_rules_wide : rules_wide sql_regex = true.
Proof. vm_compute. reflexivity. Qed.

(* every repeat that can iterate more than once has a body of minimum width >= 1 *)
Lemma cur_rep_ok : forallb (fun ra => rep_ok (fst ra)) sql_regex = true.
Proof. vm_compute. reflexivity. Qed.
