(* C11, grouping and parse(): WHITE-SPACE TOKENS RE-SPELLED ONE FOR ONE.  Together with the keyword spellings of
   C11KwSpell.v (letter case, white space inside compound keywords): every white-space token (type in T.Whitespace, which
   includes Newline) may carry ANY white-space value -- a tab for a blank, CR LF for LF, a no-break space -- and the
   splitter, all 25 grouping passes and get_type() do not notice.  UNBOUNDED; the same number of tokens on both sides
   (a run of a different LENGTH is a different number of tokens: Props/C11.v C11_assignment_run_refuted shows that the
   tree can then differ).  Third instance of the generic development, in its generalised form Group/WsRelFacts.v:
     WR v v' (keyword leaves), WS v v' := both values are non-empty white space (white-space leaves),
     all other leaves EQUAL; WRg on the cached values of groups. *)
From SqlModel Require Import Base PyStr Re Lexer SplitDefs Splitter SplitFacts Node Inv Passes PassIR.
From SqlModel Require Import Skeleton SkeletonFacts CaseRelDefs Accessors WsRelDefs WsRelFacts.
From SqlModel.Gen Require Import CaseTabs PassTab SplitTab.
From SqlModel.Inst Require Import Cur PassTabDefs PassTabOk PassTabRun C11GroupDefs.
From Coq Require Import Bool Lia ZArith.

(* ================================================================================================ *)
(* 1. the callback tables regenerated in Gen/PassTab.v cannot tell two white-space values apart          *)
Theorem callbacks_ws_safe : forallb (fun x => case_safe_w (snd x)) pt_callbacks = true.
Proof. vm_compute. reflexivity. Qed.

Theorem unsafe_posts_ws :
  map fst (filter (fun x => negb (post_case_safe_w (snd x))) pt_posts) = [CbNames.operator_post_name].
Proof. vm_compute. reflexivity. Qed.

(* ================================================================================================ *)
(* 2. the 25 passes, generically                                                                    *)
Section Passes.
Variables Rl Rw Rg : text -> text -> Prop.
Hypothesis HRl : forall v v', Rl v v' ->
  knorm v = knorm v' /\ (forall s, nospace s = true -> text_eqb (upper v) s = text_eqb (upper v') s).
Hypothesis HRw : forall v v', Rw v v' -> v = v' \/ (wsv v = true /\ wsv v' = true).
Hypothesis Hmk : forall k k', Forall2 (wrelG Rl Rw Rg) k k' -> Rg (text_of_list k) (text_of_list k').
Notation R := (wrelG Rl Rw Rg).
Notation PREL := (prel Rl Rw Rg).
Notation PINV := (pinvG (wrelG Rl Rw Rg)).

Lemma pinv_tied c m vp vn po ext p :
  call_tied c m vp vn po ext p ->
  case_safe_w m = true -> case_safe_w vp = true -> case_safe_w vn = true -> post_case_safe_w po = true ->
  PINV p.
Proof.
  intros (_ & _ & Hm & Hp & Hn & Hpost) S1 S2 S3 S4.
  apply (pinv_ext Rl Rw Rg (gparams_of c m vp vn po ext) p).
  - intros n. cbn [g_match gparams_of]. apply px_is_on_tokens_eval, Hm.
  - intros n. cbn [g_vprev gparams_of]. apply px_is_on_tokens_eval, Hp.
  - intros o. cbn [g_vnext gparams_of]. apply px_is_eval, Hn.
  - intros l pi ti ni. cbn [g_post gparams_of]. apply Hpost.
  - apply pinv_gparams_of; assumption.
Qed.

Ltac tied H := apply (pinv_tied _ _ _ _ _ _ _ H); vm_compute; reflexivity.
Lemma pinv_typecasts : PINV p_typecasts. Proof. tied typecasts_tied. Qed.
Lemma pinv_tzcasts : PINV p_tzcasts. Proof. tied tzcasts_tied. Qed.
Lemma pinv_typed1 : PINV p_typed_literal1. Proof. tied typed_literal1_tied. Qed.
Lemma pinv_typed2 : PINV p_typed_literal2. Proof. tied typed_literal2_tied. Qed.
Lemma pinv_period : PINV p_period. Proof. tied period_tied. Qed.
Lemma pinv_arrays : PINV p_arrays. Proof. tied arrays_tied. Qed.
Lemma pinv_comparison : PINV p_comparison. Proof. tied comparison_tied. Qed.
Lemma pinv_as : PINV p_as. Proof. tied as_tied. Qed.
Lemma pinv_assignment : PINV p_assignment. Proof. tied assignment_tied. Qed.
Lemma pinv_idlist : PINV p_identifier_list. Proof. tied identifier_list_tied. Qed.

Lemma prel_driver p : PINV p -> PREL (group_driver p).
Proof. intros Hp n n' H. apply group_driver_rel; assumption. Qed.
Lemma prel_driver_flat p : PINV p -> PREL (group_driver_flat p).
Proof. intros Hp n n' H. apply group_driver_flat_rel; assumption. Qed.
Lemma prel_matching c : PREL (group_matching c).
Proof. intros n n' H. apply group_matching_rel; assumption. Qed.
Lemma prel_recurse skip f : frel Rl Rw Rg f -> PREL (recurse_pass skip f).
Proof. intros Hf n n' H. apply recurse_pass_rel; assumption. Qed.

Lemma prel_operator : PREL (group_driver p_operator).
Proof.
  apply (prel_ext Rl Rw Rg (group_driver p_operator_safe)).
  - intros n. symmetry. apply operator_driver_eq.
  - apply prel_driver. apply (pinv_operator_safe Rl Rw Rg HRl HRw).
Qed.

Lemma prel_comments : PREL (recurse_pass [CComment] f_comments).
Proof. apply prel_recurse. exact (f_comments_rel Rl Rw Rg HRl HRw Hmk (TOne T_Comment) CComment). Qed.
Lemma prel_over : PREL (recurse_pass [COver] f_over).
Proof. apply prel_recurse. exact (f_over_rel Rl Rw Rg HRl HRw Hmk (m_open COver) [CParenthesis] (TOne T_Name) COver eq_refl). Qed.
Lemma prel_where : PREL (recurse_pass [CWhere] f_where).
Proof. apply prel_recurse. exact (f_where_rel Rl Rw Rg HRl HRw Hmk (m_open CWhere) (m_close CWhere) CWhere eq_refl eq_refl). Qed.
Lemma prel_identifier : PREL (recurse_pass [CIdentifier] f_identifier).
Proof. apply prel_recurse. exact (f_identifier_rel Rl Rw Rg HRl HRw Hmk (TMany [T_Symbol; T_Name]) CIdentifier). Qed.
Lemma prel_order : PREL (recurse_pass [CIdentifier] f_order).
Proof. apply prel_recurse. exact (f_order_rel Rl Rw Rg HRl HRw Hmk (TOne T_Order) [CIdentifier] (TOne T_Number) CIdentifier). Qed.
Lemma prel_aliased : PREL (recurse_pass [] f_aliased).
Proof.
  apply prel_recurse.
  exact (f_aliased_rel Rl Rw Rg HRl HRw Hmk [CParenthesis; CFunction; CCase; CIdentifier; COperation; CComparison]
                       (TOne T_Number) CIdentifier CIdentifier true).
Qed.
Lemma prel_align : PREL (recurse_pass [] f_align_comments).
Proof. apply prel_recurse. exact (f_align_comments_rel Rl Rw Rg HRl HRw Hmk [CComment] CTokenList CTokenList true). Qed.
Lemma prel_values : PREL group_values.
Proof.
  intros n n' H.
  exact (group_values_rel Rl Rw Rg HRl HRw Hmk [(T_Keyword, Some [s_VALUES])] CParenthesis CValues true eq_refl n n' H).
Qed.

Definition fn_guard : Prop :=
  vinv Rl Rw Rg (fun v => text_eqb (upper v) s_CREATE) /\ vinv Rl Rw Rg (fun v => text_eqb (upper v) s_TABLE) /\
  vinv Rl Rw Rg (fun v => text_eqb (upper v) s_AS).

Lemma prel_functions : fn_guard -> PREL (recurse_pass [CFunction] f_functions).
Proof.
  intros (V1 & V2 & V3). apply prel_recurse.
  exact (f_functions_rel Rl Rw Rg HRl HRw Hmk s_CREATE s_TABLE s_AS (TOne T_Name) CParenthesis COver CFunction
                         V1 V2 V3).
Qed.

Lemma passes_but_functions : Forall PREL (firstn 8 passes ++ skipn 9 passes).
Proof.
  cbn [passes firstn skipn app].
  repeat first
    [ apply Forall_nil
    | apply Forall_cons ].
  - exact prel_comments.
  - apply prel_matching. - apply prel_matching. - apply prel_matching.
  - apply prel_matching. - apply prel_matching. - apply prel_matching.
  - exact prel_over.
  - exact prel_where.
  - apply prel_driver, pinv_period.
  - apply prel_driver_flat, pinv_arrays.
  - exact prel_identifier.
  - exact prel_order.
  - apply prel_driver, pinv_typecasts.
  - apply prel_driver, pinv_tzcasts.
  - intros n n' H. eapply rres_bind; [apply (prel_driver _ pinv_typed1), H|].
    intros m m' Hm. apply (prel_driver _ pinv_typed2), Hm.
  - exact prel_operator.
  - apply prel_driver, pinv_comparison.
  - apply prel_driver, pinv_as.
  - exact prel_aliased.
  - apply prel_driver, pinv_assignment.
  - exact prel_align.
  - apply prel_driver, pinv_idlist.
  - exact prel_values.
Qed.

Lemma passes_prel : fn_guard -> Forall PREL passes.
Proof.
  intros G. pose proof passes_but_functions as H.
  change passes with (firstn 8 passes ++ nth 8 passes (fun n => Ok n) :: skipn 9 passes).
  apply Forall_app in H. destruct H as [H1 H2]. apply Forall_app. split; [exact H1|].
  constructor; [|exact H2]. exact (prel_functions G).
Qed.

Lemma Forall_firstn' {A} (P : A -> Prop) k l : Forall P l -> Forall P (firstn k l).
Proof. intros H; revert k. induction H; intros [|k]; cbn [firstn]; constructor; auto. Qed.

Theorem group_prel : fn_guard -> PREL group.
Proof. intros G. apply run_passes_rel, passes_prel, G. Qed.

Theorem group_upto_prel k : fn_guard -> PREL (group_upto k).
Proof. intros G. apply run_passes_rel, Forall_firstn', passes_prel, G. Qed.

End Passes.

(* ================================================================================================ *)
(* 3. the instance: keyword spellings (WR) and white-space values (WS)                                *)
From SqlModel.Inst Require C11KwSpell C11Group.

Definition WR := C11KwSpell.WR.
Definition WRg := C11KwSpell.WRg.
Definition WS (v v' : text) : Prop := wsv v = true /\ wsv v' = true.
Definition wsrel : node -> node -> Prop := wrelG WR WS WRg.
Definition tok_wsrel : tok -> tok -> Prop := tok_relW WR WS.

Lemma WS_rw v v' : WS v v' -> v = v' \/ (wsv v = true /\ wsv v' = true).
Proof. intros H. right. exact H. Qed.

Lemma cg_true_all r : forallb (fun c => cmem c space_set) r = true -> collapse_go space_set true r = [].
Proof.
  induction r as [|c r IH]; [reflexivity|]. cbn [forallb collapse_go]. intros H. apply andb_true_iff in H.
  destruct H as [Hc Hr]. rewrite Hc. apply IH, Hr.
Qed.

Lemma collapse_wsv v : wsv v = true -> collapse v = [32]%N.
Proof.
  destruct v as [|c r]; [discriminate|]. cbn [wsv forallb]. intros H. apply andb_true_iff in H. destruct H as [Hc Hr].
  unfold collapse. cbn [collapse_go]. rewrite Hc, (cg_true_all r Hr). reflexivity.
Qed.

Lemma toks_seg_ws ls ls' : Forall2 tok_wsrel ls ls' -> Forall2 C11KwSpell.seg_w (map snd ls) (map snd ls').
Proof.
  induction 1 as [|a b ls ls' [_ Hv] _ IH]; cbn [map]; constructor; [|exact IH].
  unfold C11KwSpell.seg_w. unfold lrel in Hv. destruct (tin (fst a) T_Keyword); [exact Hv|].
  destruct (tin (fst a) T_Whitespace); [|rewrite Hv; reflexivity].
  destruct Hv as [H1 H2]. rewrite (wsv_upper _ H1), (wsv_upper _ H2), (collapse_wsv _ H1), (collapse_wsv _ H2). reflexivity.
Qed.

Lemma Hmk_wsrel : forall k k', Forall2 wsrel k k' -> WRg (text_of_list k) (text_of_list k').
Proof.
  intros k k' H. rewrite !text_of_list_leaves, !flat_map_concat_map.
  apply C11KwSpell.concat_WRg, toks_seg_ws. apply (leaves_list_rel WR WS WRg), H.
Qed.

Lemma nvalue_ue_ws n n' s : wsrel n n' -> nospace s = true ->
  text_eqb (upper (nvalue n)) s = text_eqb (upper (nvalue n')) s.
Proof.
  intros [ty v v' Hv | c v v' k k' Hv Hk] Hs; cbn [nvalue]; [|apply Hv, Hs].
  unfold lrel in Hv. destruct (tin ty T_Keyword); [apply (proj2 (C11KwSpell.WR_rl _ _ Hv)), Hs|].
  destruct (tin ty T_Whitespace); [|rewrite Hv; reflexivity].
  destruct Hv as [H1 H2]. rewrite (wsv_upper _ H1), (wsv_upper _ H2).
  rewrite (wsv_not_word v s H1 (nospace_not_ws s Hs)), (wsv_not_word v' s H2 (nospace_not_ws s Hs)). reflexivity.
Qed.

Lemma fn_guard_wsrel : fn_guard WR WS WRg.
Proof.
  split; [|split]; intros n n' H; cbv beta; apply nvalue_ue_ws; try exact H; vm_compute; reflexivity.
Qed.

(* all 25 passes *)
Theorem group_wsrel : forall n n', wsrel n n' -> rres wsrel (group n) (group n').
Proof. exact (group_prel WR WS WRg C11KwSpell.WR_rl WS_rw Hmk_wsrel fn_guard_wsrel). Qed.

Theorem group_upto_wsrel k : forall n n', wsrel n n' -> rres wsrel (group_upto k n) (group_upto k n').
Proof. exact (group_upto_prel WR WS WRg C11KwSpell.WR_rl WS_rw Hmk_wsrel k fn_guard_wsrel). Qed.

Theorem get_type_wsrel : forall n n', wsrel n n' -> get_type n = get_type n'.
Proof. exact (get_type_rel WR WS WRg C11KwSpell.WR_rl WS_rw). Qed.

(* ================================================================================================ *)
(* 4. the splitter, token by token, for a relation that says nothing about the VALUES of white-space   *)
(*    tokens (a white-space token only joins the current statement: SkeletonFacts.ws_step)              *)
Section ProcessRelW.
Variable Q : tok -> tok -> Prop.
Hypothesis Q_ty : forall a b, Q a b -> fst a = fst b.
Hypothesis Q_skel : forall a b, Q a b -> is_ws_tok a = false -> tok_skel a b.

Notation PGO := (process_go reset_sstate change_splitlevel eos_ttypes is_terminator).
Notation PST := (pstep change_splitlevel is_terminator).

Definition pst_rel (st st' : pstate) : Prop :=
  ss st = ss st' /\ consume_ws st = consume_ws st' /\ Forall2 Q (acc st) (acc st') /\ level st = level st'.

Lemma pstep_rel st st' a b : pst_rel st st' -> Q a b -> pst_rel (PST st a) (PST st' b).
Proof.
  intros (H1 & H2 & H3 & H4) Hab. pose proof (Q_ty a b Hab) as Hty.
  destruct (is_ws_tok a) eqn:W.
  - assert (W' : is_ws_tok b = true) by (unfold is_ws_tok in *; rewrite <- Hty; exact W).
    rewrite (ws_step st a W), (ws_step st' b W'). unfold pst_rel, addacc. cbn [ss consume_ws acc level app].
    repeat split; try assumption. constructor; assumption.
  - pose proof (Q_skel a b Hab W) as Hs.
    pose proof (csl_skel (ss st) a b Hs) as Hc.
    destruct a as [ty v], b as [ty' v']. cbn [fst snd] in *. subst ty'. unfold pstep.
    rewrite <- H1, <- Hc. destruct (change_splitlevel (ss st) ty v) as [s' d].
    unfold pst_rel. cbn [ss consume_ws acc level]. rewrite <- H2, <- H4.
    split; [reflexivity|]. split.
    + f_equal. exact (term_skel (level st + d)%Z (ty, v) (ty, v') Hs).
    + split; [constructor; assumption | reflexivity].
Qed.

Lemma Forall2_rev_w {A B} (P : A -> B -> Prop) l l' : Forall2 P l l' -> Forall2 P (rev l) (rev l').
Proof.
  induction 1 as [|x y l l' Hxy _ IH]; cbn [rev]; [constructor|].
  apply Forall2_app; [exact IH | constructor; [exact Hxy | constructor]].
Qed.

Lemma ws_all_rel l l' : Forall2 Q l l' -> forallb is_ws_tok l = forallb is_ws_tok l'.
Proof.
  induction 1 as [|x y l l' Hxy _ IH]; cbn [forallb]; [reflexivity|].
  unfold is_ws_tok at 1 3. rewrite (Q_ty x y Hxy), IH. reflexivity.
Qed.

Lemma pinit_rel : pst_rel (pinit reset_sstate) (pinit reset_sstate).
Proof. repeat split; constructor. Qed.

Lemma process_go_rel : forall l l', Forall2 Q l l' -> forall st st', pst_rel st st' ->
  Forall2 (Forall2 Q) (PGO st l) (PGO st' l').
Proof.
  induction 1 as [|a b l l' Hab _ IH]; intros st st' Hst; cbn [process_go].
  - destruct Hst as (_ & _ & H3 & _). pose proof (ws_all_rel _ _ H3) as Hw.
    destruct H3 as [|x y r r' Hxy Hr]; [constructor|].
    rewrite <- Hw. destruct (forallb is_ws_tok (x :: r)); [constructor|].
    constructor; [|constructor]. apply Forall2_rev_w. constructor; assumption.
  - pose proof Hst as (_ & H2 & H3 & _). pose proof (Q_ty a b Hab) as Hty.
    rewrite <- H2, <- Hty.
    destruct (consume_ws st && negb (in_eos eos_ttypes (fst a))).
    + constructor; [apply Forall2_rev_w, H3|]. apply IH, pstep_rel; [apply pinit_rel | exact Hab].
    + apply IH, pstep_rel; assumption.
Qed.

Theorem process_rel_w l l' : Forall2 Q l l' -> Forall2 (Forall2 Q) (cur_process l) (cur_process l').
Proof. intros H. unfold cur_process, process. apply process_go_rel; [exact H | apply pinit_rel]. Qed.
End ProcessRelW.

Lemma tok_wsrel_ty a b : tok_wsrel a b -> fst a = fst b.
Proof. intros [H _]. exact H. Qed.

Lemma tok_wsrel_skel a b : tok_wsrel a b -> is_ws_tok a = false -> tok_skel a b.
Proof.
  intros [Hty Hv] W. split; [exact Hty|]. unfold is_kw_tok. unfold lrel in Hv. unfold is_ws_tok in W.
  destruct (tin (fst a) T_Keyword) eqn:K.
  - destruct (guard_free a b Hty Hv) as [E G]. split; [exact Hv|]. split; [exact E | intros _; exact G].
  - rewrite W in Hv. exact Hv.
Qed.

Theorem split_pointwise_wsrel : forall l l',
  Forall2 tok_wsrel l l' -> Forall2 (Forall2 tok_wsrel) (cur_process l) (cur_process l').
Proof. apply process_rel_w; [exact tok_wsrel_ty | exact tok_wsrel_skel]. Qed.

Lemma statement_of_wsrel s s' : Forall2 tok_wsrel s s' -> wsrel (statement_of s) (statement_of s').
Proof. intros H. apply (statement_of_rel WR WS WRg Hmk_wsrel). exact H. Qed.

Theorem parse_wsrel k : forall t t' l l',
  cur_lex t = Ok l -> cur_lex t' = Ok l' -> Forall2 tok_wsrel l l' ->
  rres (Forall2 wsrel) (cur_parse_upto k t) (cur_parse_upto k t').
Proof.
  intros t t' l l' E E' H. unfold cur_parse_upto, cur_split_stream. rewrite E, E'. cbn [bind].
  apply (C11Group.mapM_rel2 (Forall2 tok_wsrel) wsrel).
  - intros s s' Hs. apply group_upto_wsrel, statement_of_wsrel, Hs.
  - apply split_pointwise_wsrel, H.
Qed.

(* THE theorem: token streams related token by token -- keyword tokens up to case and inner white space, white-space
   tokens up to ANY white-space value, all other tokens equal -- are parsed into related trees (same structure, classes
   and token types) with equal statement types; and parse fails on one iff it fails, alike, on the other *)
Theorem C11_parse_wsval : forall t t' l l',
  cur_lex t = Ok l -> cur_lex t' = Ok l' -> Forall2 tok_wsrel l l' ->
  forall ss, cur_parse t = Ok ss ->
  exists ss', cur_parse t' = Ok ss' /\ Forall2 wsrel ss ss' /\
              Forall2 (fun s s' => get_type s = get_type s') ss ss'.
Proof.
  intros t t' l l' E E' H ss Ep. change (cur_parse t) with (cur_parse_upto 25 t) in Ep.
  destruct (rres_ok_l _ _ _ _ (parse_wsrel 25 t t' l l' E E' H) Ep) as (ss' & Ep' & Hs).
  exists ss'. change (cur_parse t') with (cur_parse_upto 25 t'). split; [exact Ep'|].
  split; [exact Hs|]. clear - Hs. induction Hs as [|s s' r r' Hss _ IH]; constructor; [apply get_type_wsrel, Hss | exact IH].
Qed.

Theorem C11_parse_wsval_err : forall t t' l l',
  cur_lex t = Ok l -> cur_lex t' = Ok l' -> Forall2 tok_wsrel l l' ->
  forall e, cur_parse t = Err e -> cur_parse t' = Err e.
Proof.
  intros t t' l l' E E' H e Ep. change (cur_parse t) with (cur_parse_upto 25 t) in Ep.
  change (cur_parse t') with (cur_parse_upto 25 t').
  exact (rres_err_l _ _ _ _ (parse_wsrel 25 t t' l l' E E' H) Ep).
Qed.

(* ================================================================================================ *)
(* the relation is decidable; a witness *)
Definition tok_wsrelb (a b : tok) : bool :=
  ttype_eqb (fst a) (fst b) &&
  (if tin (fst a) T_Keyword then C11KwSpell.wrb (snd a) (snd b)
   else if tin (fst a) T_Whitespace then wsv (snd a) && wsv (snd b)
   else text_eqb (snd a) (snd b)).

Lemma tok_wsrelb_sound a b : tok_wsrelb a b = true -> tok_wsrel a b.
Proof.
  unfold tok_wsrelb, tok_wsrel, tok_relW, lrel. intros H. apply andb_true_iff in H. destruct H as [Hty Hv].
  apply ttype_eqb_eq in Hty. split; [exact Hty|].
  destruct (tin (fst a) T_Keyword); [apply text_eqb_eq, Hv|].
  destruct (tin (fst a) T_Whitespace); [apply andb_true_iff in Hv; exact Hv | apply text_eqb_eq, Hv].
Qed.

(* select a,<TAB>b from t<CR LF>where x = 1 ORDER<2 blanks>BY a;<LF>select f(1)<2 blanks>as y
   SELECT a, b from t<LF>where x = 1 order by a;<CR>select f(1)<TAB><FF>AS y *)
Definition ex_wv_a : text := [115;101;108;101;99;116;32;97;44;9;98;32;102;114;111;109;160;116;13;10;119;104;101;114;101;32;120;32;61;32;49;32;79;82;68;69;82;32;32;66;89;32;97;59;10;115;101;108;101;99;116;32;102;40;49;41;32;32;97;115;32;121]%N.
Definition ex_wv_b : text := [83;69;76;69;67;84;32;97;44;32;98;32;102;114;111;109;32;116;10;119;104;101;114;101;32;120;32;61;32;49;32;111;114;100;101;114;32;98;121;32;97;59;13;115;101;108;101;99;116;32;102;40;49;41;9;12;65;83;32;121]%N.

Example ex_wv_lex :
  match cur_lex ex_wv_a, cur_lex ex_wv_b with
  | Ok l, Ok l' => forall2b tok_wsrelb l l' && negb (forall2b (fun a b => text_eqb (snd a) (snd b)) l l')
                   && Nat.eqb (List.length (filter is_ws_tok l)) 15
  | _, _ => false
  end = true.
Proof. vm_compute. reflexivity. Qed.

Example ex_wv_parse :
  match cur_parse ex_wv_a, cur_parse ex_wv_b with
  | Ok ss, Ok ss' =>
      Nat.eqb (List.length ss) 2 && forall2b (fun m m' => cskel_eqb (cskel_of m) (cskel_of m')) ss ss'
      && forallb (fun c => existsb (cls_eqb c) (flat_map classes_of ss)) [CWhere; CFunction; CIdentifierList; CComparison]
  | _, _ => false
  end = true.
Proof. vm_compute. reflexivity. Qed.

Print Assumptions group_wsrel.
Print Assumptions C11_parse_wsval.
