(* C11, lexer, white-space runs, WHOLE TEXTS: for texts over the characters at which every rule of SQL_REGEX is in the
   class `good`, cannot start, or must consume a quote -- letters, digits, underscore, most punctuation; NOT quotes,
   comment openers, brackets, dollar, colon -- two texts that are equal after collapsing every white-space run to one
   marker are lexed into the same significant tokens (types; values up to white space), separated by white-space
   tokens at the same places.  Instance of Lexer/RunLexAll.v for the rule table regenerated from keywords.py. *)
From SqlModel Require Import Base PyStr Re Lexer LexFacts FirstDefs First SplitApi SplitApiFacts.
From SqlModel Require Import MustHave RunInvDefs RunInv RunLex RunLexAll CaseDefs.
From SqlModel.Gen Require Import Atoms Rules CaseTabs KwTabs.
From SqlModel.Inst Require Import Cur C01 C11Run.
From Coq Require Import Lia.

Definition QUOTE : N := 39.

(* at a character c every rule is in the class, cannot start with c, or must consume a quote *)
Definition rule_okc (c : N) (ra : rule) : bool :=
  good RSp false (fst ra) || no_start (fst ra) c || musthave QUOTE (fst ra).
Definition okc (c : N) : bool := forallb (rule_okc c) sql_regex.

(* the texts covered: white space, and characters with okc; no quote anywhere *)
Definition oktextb (t : text) : bool :=
  forallb (fun c => (inS RSp c || okc c) && negb (N.eqb c QUOTE)) t.
Definition oktext (t : text) : Prop := oktextb t = true.

(* which ASCII characters are covered *)
Example okc_ascii :
  filter (fun c => negb (inS RSp c || okc c) || N.eqb c QUOTE) (map N.of_nat (seq 0 128))
  = [34; 35; 36; 39; 45; 47; 91; 96]%N.   (* double quote, hash, dollar, quote, minus, slash, bracket, backtick *)
Proof. vm_compute. reflexivity. Qed.

Lemma tab_rules :
  forallb (fun ra : rule => if ws_action (snd ra) then within RSp (fst ra) else stuck RSp (fst ra)) sql_regex = true.
Proof. vm_compute. reflexivity. Qed.

Lemma tab_ws_rule :
  existsb (fun ra : rule => match fst ra with
                            | Rep _ 1 None (Atom s) => isS RSp s
                            | _ => false
                            end) sql_regex = true.
Proof. vm_compute. reflexivity. Qed.

Lemma tab_kws :
  forallb (fun d : kwdict => forallb (fun e : text * ttype => negb (tin (snd e) T_Whitespace)) d) kws = true.
Proof. vm_compute. reflexivity. Qed.

Lemma cur_ws_match p c t : inS RSp c = true -> first_match lower sql_regex (mkSt p (c :: t)) <> None.
Proof.
  intros Hc. destruct (proj1 (existsb_exists _ _) tab_ws_rule) as ([r a] & Hin & Hshape). cbn [fst] in Hshape.
  destruct r as [| | | | g lo hi r0 | | | | | | ]; try discriminate.
  destruct lo as [|[|lo]]; try discriminate. destruct hi; try discriminate.
  destruct r0 as [| s | | | | | | | | | ]; try discriminate.
  apply (first_match_some lower sql_regex _ _ a Hin). apply rmatch_plus_atom.
  rewrite (isS_mem RSp s c Hshape). exact Hc.
Qed.

Lemma oktext_suffix w u : oktext (w ++ u) -> oktext u.
Proof. unfold oktext, oktextb. rewrite forallb_app. intros H. apply andb_true_iff in H. apply H. Qed.

Lemma oktext_no_quote t : oktext t -> ~ In QUOTE t.
Proof.
  unfold oktext, oktextb. intros H Hin. pose proof (proj1 (forallb_forall _ _) H QUOTE Hin) as Hq.
  apply andb_true_iff in Hq. destruct Hq as [_ Hq]. rewrite N.eqb_refl in Hq. discriminate.
Qed.

Lemma cur_table_ok : table_ok lower sql_regex kws RSp oktext.
Proof.
  split; [exact cur_rules_wide|].
  split.
  { apply Forall_forall. intros ra Hin. pose proof (proj1 (forallb_forall _ _) tab_rules ra Hin) as H.
    cbv beta in H. destruct (ws_action (snd ra)); exact H. }
  split; [exact cur_ws_match|].
  split; [exact tab_kws|].
  split.
  { intros r Hin. pose proof (proj1 (forallb_forall _ _) C11_askw_free (r, AsKeyword) Hin) as Hr.
    cbn [fst snd is_askw negb orb] in Hr. destruct (consumes_set RSp r); [discriminate | reflexivity]. }
  split; [reflexivity|].
  split; [exact oktext_suffix|].
  intros p p' c t t' Ho Ho' Hc _.
  assert (Hokc : okc c = true).
  { unfold oktext, oktextb in Ho. cbn [forallb] in Ho. apply andb_true_iff in Ho. destruct Ho as [Ho _].
    apply andb_true_iff in Ho. destruct Ho as [Ho _]. rewrite Hc in Ho. exact Ho. }
  apply Forall_forall. intros ra Hin. pose proof (proj1 (forallb_forall _ _) Hokc ra Hin) as Hr.
  unfold rule_okc in Hr. apply orb_true_iff in Hr. destruct Hr as [Hr | Hm].
  - apply orb_true_iff in Hr. destruct Hr as [Hg | Hn]; [left; exact Hg|].
    right. split; apply (no_start_rmatch lower); exact Hn.
  - right. split; apply (rmatch_none_without lower QUOTE _ _ Hm); cbn [rest]; apply oktext_no_quote; assumption.
Qed.

Definition Lrel := RunLexAll.Lrel RSp.

(* THE theorem: from the texts *)
Theorem C11_lex_run_all t t' l l' :
  sq RSp false t = sq RSp false t' -> oktextb t = true -> oktextb t' = true ->
  cur_lex t = Ok l -> cur_lex t' = Ok l' -> Lrel l l'.
Proof.
  intros Hsq Ho Ho' El El'.
  destruct (lex_total_lossless lower upper sql_regex kws cur_rules_wide t) as (toks & E & _ & _ & HS).
  destruct (lex_total_lossless lower upper sql_regex kws cur_rules_wide t') as (toks' & E' & _ & _ & HS').
  unfold cur_lex in El, El'. rewrite E in El. rewrite E' in El'. injection El as <-. injection El' as <-.
  assert (Hs : srel RSp (mkSt None t) (mkSt None t')).
  { split; [cbn [rest]; apply sq_RS; exact Hsq|]. split; [left; reflexivity|]. split; reflexivity. }
  pose proof (lex_all lower upper sql_regex kws RSp oktext cur_table_ok (length t) t t' None None toks toks'
                      (le_n _) HS HS' Hs Ho Ho') as H.
  destruct (snext_t RSp t); [exact H | apply L_direct, H].
Qed.
Print Assumptions C11_lex_run_all.

(* what Lrel says about the token types: erase the white-space tokens and the types agree *)
Definition sigtypes (l : list tok) : list ttype := map fst (filter (fun tk => negb (ws_tok tk)) l).

Lemma Lrel_sigtypes l l' : Lrel l l' -> sigtypes l = sigtypes l'.
Proof.
  unfold Lrel, sigtypes. intros H.
  assert (Hws : forall w l0, forallb ws_tok w = true ->
            filter (fun tk => negb (ws_tok tk)) (w ++ l0) = filter (fun tk => negb (ws_tok tk)) l0).
  { induction w as [|x w IH]; intros l0 Hw; [reflexivity|]. cbn [forallb] in Hw. apply andb_true_iff in Hw.
    destruct Hw as [Hx Hw]. cbn [app filter]. rewrite Hx. cbn [negb]. apply IH, Hw. }
  revert l l' H.
  fix IH 3. intros l l' H. destruct H as [l l' H0 | w w' l l' _ _ Fw Fw' H0].
  - destruct H0 as [| a b l l' Ha Hb [Hty _] Hrest]; [reflexivity|].
    cbn [filter]. rewrite Ha, Hb. cbn [negb map]. rewrite Hty. f_equal. apply IH, Hrest.
  - rewrite (Hws w l Fw), (Hws w' l' Fw').
    destruct H0 as [| a b l l' Ha Hb [Hty _] Hrest]; [reflexivity|].
    cbn [filter]. rewrite Ha, Hb. cbn [negb map]. rewrite Hty. f_equal. apply IH, Hrest.
Qed.

Corollary C11_lex_run_types t t' l l' :
  sq RSp false t = sq RSp false t' -> oktextb t = true -> oktextb t' = true ->
  cur_lex t = Ok l -> cur_lex t' = Ok l' -> sigtypes l = sigtypes l'.
Proof. intros. apply Lrel_sigtypes. eapply C11_lex_run_all; eassumption. Qed.
Print Assumptions C11_lex_run_types.

(* example: "select a,b  from\n t1 order \t by x;"  and  "select a,b from t1 order by x;" *)
Definition ex_all_a : text :=
  [115;101;108;101;99;116;32;97;44;98;32;32;102;114;111;109;10;32;116;49;32;111;114;100;101;114;32;9;32;98;121;32;120;59]%N.
Definition ex_all_b : text :=
  [115;101;108;101;99;116;32;97;44;98;32;102;114;111;109;32;116;49;32;111;114;100;101;114;32;98;121;32;120;59]%N.
Example ex_all_hyps :
  sq RSp false ex_all_a = sq RSp false ex_all_b /\ oktextb ex_all_a = true /\ oktextb ex_all_b = true
  /\ match cur_lex ex_all_a, cur_lex ex_all_b with
     | Ok l, Ok l' => (length l, length l', sigtypes l)
                      = (16, 14, [T_DML; T_Name; T_Punctuation; T_Name; T_Keyword; T_Name; T_Keyword; T_Name; T_Punctuation])
                        /\ sigtypes l = sigtypes l'
     | _, _ => False
     end.
Proof. split; [vm_compute; reflexivity|]. split; [vm_compute; reflexivity|]. split; [vm_compute; reflexivity|]. vm_compute. split; reflexivity. Qed.
