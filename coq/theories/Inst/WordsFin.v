(* C14 (second half), instance over the regenerated tables: every dictionary word, in every
   delimited context of the family [Ctx], is ONE token of the expected type -- a finite obligation
   discharged by vm_compute in shards.  (The lifting to every letter casing is in Inst/Words.v.) *)
From SqlModel Require Import Base PyStr Re MinWidth Lexer LexFacts CaseDefs RelInv LexRel CaseRel
     WordsDefs WordsFacts.
From SqlModel.Gen Require Import Atoms CaseTabs KwTabs Rules.
From SqlModel.Inst Require Import Cur C01 CaseInv ParseFacts WordsCur.

(* ---- facts read off the tables -------------------------------------------------------------- *)
(* the generic word rule is rule 47, preceded by 47 rules *)
Example cur_askw_position : length (before_askw sql_regex) = 47.
Proof. vm_compute. reflexivity. Qed.

Example cur_all_words_count : length cur_all_words = 799 /\ length (all_entries kws) = 809.
Proof. vm_compute. auto. Qed.

(* the dictionary entries that are not words: BIT VARYING, CHARACTER VARYING, DOUBLE PRECISION,
   END-EXEC.  No text the lexer can produce through the generic word rule equals one of them
   (DOUBLE PRECISION is produced by its own dedicated rule, as Name.Builtin). *)
Example cur_unreachable :
  cur_unreachable_entries =
  [[66; 73; 84; 32; 86; 65; 82; 89; 73; 78; 71];
   [67; 72; 65; 82; 65; 67; 84; 69; 82; 32; 86; 65; 82; 89; 73; 78; 71];
   [68; 79; 85; 66; 76; 69; 32; 80; 82; 69; 67; 73; 83; 73; 79; 78];
   [69; 78; 68; 45; 69; 88; 69; 67]]%N.
Proof. vm_compute. reflexivity. Qed.

(* the dictionary words whose type comes from a dedicated rule and not from the dictionary:
   CREATE FROM JOIN LIKE IN END AS CASE (DOUBLE PRECISION) REGEXP RLIKE ILIKE USING VALUES *)
Example cur_dedicated_words :
  filter (fun w => match cur_dedicated_type w with Some _ => true | None => false end) cur_all_words
  = [[67; 82; 69; 65; 84; 69]; [70; 82; 79; 77]; [74; 79; 73; 78]; [76; 73; 75; 69]; [73; 78];
     [69; 78; 68]; [65; 83]; [67; 65; 83; 69];
     [68; 79; 85; 66; 76; 69; 32; 80; 82; 69; 67; 73; 83; 73; 79; 78];
     [82; 69; 71; 69; 88; 80]; [82; 76; 73; 75; 69]; [73; 76; 73; 75; 69];
     [85; 83; 73; 78; 71]; [86; 65; 76; 85; 69; 83]]%N.
Proof. vm_compute. reflexivity. Qed.

(* ---- the finite obligation, in shards of 100 words ------------------------------------------ *)
Local Notation cur_words_ok := (words_ok lower upper sql_regex kws) (only parsing).
(* (notations, so that the shards and the final combination agree syntactically) *)
Local Notation rest_0 := cur_all_words (only parsing).
Local Notation rest_1 := (skipn 100 rest_0) (only parsing).
Local Notation rest_2 := (skipn 100 rest_1) (only parsing).
Local Notation rest_3 := (skipn 100 rest_2) (only parsing).
Local Notation rest_4 := (skipn 100 rest_3) (only parsing).
Local Notation rest_5 := (skipn 100 rest_4) (only parsing).
Local Notation rest_6 := (skipn 100 rest_5) (only parsing).
Local Notation rest_7 := (skipn 100 rest_6) (only parsing).
Local Notation rest_8 := (skipn 100 rest_7) (only parsing).

Lemma words_shard_0 : cur_words_ok (firstn 100 rest_0) = true. Proof. vm_compute. reflexivity. Qed.
Lemma words_shard_1 : cur_words_ok (firstn 100 rest_1) = true. Proof. vm_compute. reflexivity. Qed.
Lemma words_shard_2 : cur_words_ok (firstn 100 rest_2) = true. Proof. vm_compute. reflexivity. Qed.
Lemma words_shard_3 : cur_words_ok (firstn 100 rest_3) = true. Proof. vm_compute. reflexivity. Qed.
Lemma words_shard_4 : cur_words_ok (firstn 100 rest_4) = true. Proof. vm_compute. reflexivity. Qed.
Lemma words_shard_5 : cur_words_ok (firstn 100 rest_5) = true. Proof. vm_compute. reflexivity. Qed.
Lemma words_shard_6 : cur_words_ok (firstn 100 rest_6) = true. Proof. vm_compute. reflexivity. Qed.
Lemma words_shard_7 : cur_words_ok (firstn 100 rest_7) = true. Proof. vm_compute. reflexivity. Qed.
Lemma words_shard_8 : cur_words_ok rest_8 = true. Proof. vm_compute. reflexivity. Qed.

Theorem words_ctx_ok : words_ok lower upper sql_regex kws cur_all_words = true.
Proof.
  apply (words_ok_shards lower upper sql_regex kws 100 rest_0); [exact words_shard_0|].
  apply (words_ok_shards lower upper sql_regex kws 100 rest_1); [exact words_shard_1|].
  apply (words_ok_shards lower upper sql_regex kws 100 rest_2); [exact words_shard_2|].
  apply (words_ok_shards lower upper sql_regex kws 100 rest_3); [exact words_shard_3|].
  apply (words_ok_shards lower upper sql_regex kws 100 rest_4); [exact words_shard_4|].
  apply (words_ok_shards lower upper sql_regex kws 100 rest_5); [exact words_shard_5|].
  apply (words_ok_shards lower upper sql_regex kws 100 rest_6); [exact words_shard_6|].
  apply (words_ok_shards lower upper sql_regex kws 100 rest_7); [exact words_shard_7|].
  exact words_shard_8.
Qed.
Print Assumptions words_ctx_ok.

(* the same, spelled out as the nested forallb of the specification *)
Corollary words_ctx_ok_forallb :
  forallb (fun w => negb (is_word lower sql_regex w)
                    || forallb (fun c => word_in_ctx_ok lower upper sql_regex kws w c) Ctx)
          cur_all_words = true.
Proof. exact (words_ok_forallb lower upper sql_regex kws cur_all_words words_ctx_ok). Qed.
