(* The tables regenerated from sqlparse/engine/grouping.py (Gen/PassTab.v) are the ones the
   hand-written model Group/Passes.v uses.  Proofs only. *)
From Coq Require Import String.
From SqlModel Require Import Base PyStr Node Passes PassIR.
From SqlModel.Gen Require Import CaseTabs PassTab.
From SqlModel.Inst Require Import PassTabDefs.
From Coq Require Import Bool.

(* ---- the IR evaluators ------------------------------------------------------------------------ *)
Lemma eval_px_some : forall e n, eval_px e (Some n) = Some (eval_tot e n).
Proof.
  induction e as [ | | | | | p | ty | tys | ty | cs | i m t | | | | | s | s | s
                   | a IHa | a IHa b IHb | a IHa b IHb ]; intros n; try reflexivity.
  - cbn [eval_px eval_tot]. rewrite IHa. reflexivity.
  - cbn [eval_px eval_tot]. rewrite IHa. destruct (eval_tot a n); [apply IHb | reflexivity].
  - cbn [eval_px eval_tot]. rewrite IHa. destruct (eval_tot a n); [reflexivity | apply IHb].
Qed.

Lemma eval_pexpr_some : forall e n, eval_pexpr e (Some n) = eval_tot e n.
Proof. intros e n. unfold eval_pexpr. rewrite eval_px_some. reflexivity. Qed.

Lemma px_is_eval e f : px_is e f -> forall t, eval_pexpr e t = f t.
Proof. intros H t. unfold eval_pexpr. rewrite H. reflexivity. Qed.

Lemma px_is_on_tokens_eval e f : px_is_on_tokens e f -> forall n, eval_pexpr e (Some n) = f n.
Proof. intros H n. unfold eval_pexpr. rewrite H. reflexivity. Qed.

Lemma call_tied_gparams_eq c m vp vn po ext p :
  call_tied c m vp vn po ext p -> gparams_eq (gparams_of c m vp vn po ext) p.
Proof.
  intros (Hc & He & Hm & Hp & Hn & Hpost).
  unfold gparams_eq, gparams_of; cbn [g_cls g_extend g_match g_vprev g_vnext g_post].
  repeat split; auto.
  - apply px_is_on_tokens_eval, Hm.
  - apply px_is_on_tokens_eval, Hp.
  - apply px_is_eval, Hn.
Qed.

(* proof pattern for a callback on tokens: rewrite to the total evaluator, then the two sides are
   the same boolean expression up to [x || false], [true && x] and association *)
Ltac on_tokens := intros n; rewrite eval_px_some; apply f_equal.
Ltac optional := intros [n|]; [rewrite eval_px_some; apply f_equal | reflexivity].

(* ---- a. the pass order ------------------------------------------------------------------------ *)
Theorem pass_order_tied : map fst named_passes = PassTab.pass_order.
Proof. reflexivity. Qed.

(* pass by pass first (so that a failure names the pass): position k of the model's list is the pass
   built from the generated tables of the k-th name *)
Lemma pass_00_group_comments_tied :
  nth_error (map snd named_passes) 0 = nth_error passes 0 /\ nth_error PassTab.pass_order 0 = Some "group_comments"%string.
Proof. split; reflexivity. Qed.
Lemma pass_01_group_brackets_tied :
  nth_error (map snd named_passes) 1 = nth_error passes 1 /\ nth_error PassTab.pass_order 1 = Some "group_brackets"%string.
Proof. split; reflexivity. Qed.
Lemma pass_02_group_parenthesis_tied :
  nth_error (map snd named_passes) 2 = nth_error passes 2 /\ nth_error PassTab.pass_order 2 = Some "group_parenthesis"%string.
Proof. split; reflexivity. Qed.
Lemma pass_03_group_case_tied :
  nth_error (map snd named_passes) 3 = nth_error passes 3 /\ nth_error PassTab.pass_order 3 = Some "group_case"%string.
Proof. split; reflexivity. Qed.
Lemma pass_04_group_if_tied :
  nth_error (map snd named_passes) 4 = nth_error passes 4 /\ nth_error PassTab.pass_order 4 = Some "group_if"%string.
Proof. split; reflexivity. Qed.
Lemma pass_05_group_for_tied :
  nth_error (map snd named_passes) 5 = nth_error passes 5 /\ nth_error PassTab.pass_order 5 = Some "group_for"%string.
Proof. split; reflexivity. Qed.
Lemma pass_06_group_begin_tied :
  nth_error (map snd named_passes) 6 = nth_error passes 6 /\ nth_error PassTab.pass_order 6 = Some "group_begin"%string.
Proof. split; reflexivity. Qed.
Lemma pass_07_group_over_tied :
  nth_error (map snd named_passes) 7 = nth_error passes 7 /\ nth_error PassTab.pass_order 7 = Some "group_over"%string.
Proof. split; reflexivity. Qed.
Lemma pass_08_group_functions_tied :
  nth_error (map snd named_passes) 8 = nth_error passes 8 /\ nth_error PassTab.pass_order 8 = Some "group_functions"%string.
Proof. split; reflexivity. Qed.
Lemma pass_09_group_where_tied :
  nth_error (map snd named_passes) 9 = nth_error passes 9 /\ nth_error PassTab.pass_order 9 = Some "group_where"%string.
Proof. split; reflexivity. Qed.
Lemma pass_10_group_period_tied :
  nth_error (map snd named_passes) 10 = nth_error passes 10 /\ nth_error PassTab.pass_order 10 = Some "group_period"%string.
Proof. split; reflexivity. Qed.
Lemma pass_11_group_arrays_tied :
  nth_error (map snd named_passes) 11 = nth_error passes 11 /\ nth_error PassTab.pass_order 11 = Some "group_arrays"%string.
Proof. split; reflexivity. Qed.
Lemma pass_12_group_identifier_tied :
  nth_error (map snd named_passes) 12 = nth_error passes 12 /\ nth_error PassTab.pass_order 12 = Some "group_identifier"%string.
Proof. split; reflexivity. Qed.
Lemma pass_13_group_order_tied :
  nth_error (map snd named_passes) 13 = nth_error passes 13 /\ nth_error PassTab.pass_order 13 = Some "group_order"%string.
Proof. split; reflexivity. Qed.
Lemma pass_14_group_typecasts_tied :
  nth_error (map snd named_passes) 14 = nth_error passes 14 /\ nth_error PassTab.pass_order 14 = Some "group_typecasts"%string.
Proof. split; reflexivity. Qed.
Lemma pass_15_group_tzcasts_tied :
  nth_error (map snd named_passes) 15 = nth_error passes 15 /\ nth_error PassTab.pass_order 15 = Some "group_tzcasts"%string.
Proof. split; reflexivity. Qed.
Lemma pass_16_group_typed_literal_tied :
  nth_error (map snd named_passes) 16 = nth_error passes 16 /\ nth_error PassTab.pass_order 16 = Some "group_typed_literal"%string.
Proof. split; reflexivity. Qed.
Lemma pass_17_group_operator_tied :
  nth_error (map snd named_passes) 17 = nth_error passes 17 /\ nth_error PassTab.pass_order 17 = Some "group_operator"%string.
Proof. split; reflexivity. Qed.
Lemma pass_18_group_comparison_tied :
  nth_error (map snd named_passes) 18 = nth_error passes 18 /\ nth_error PassTab.pass_order 18 = Some "group_comparison"%string.
Proof. split; reflexivity. Qed.
Lemma pass_19_group_as_tied :
  nth_error (map snd named_passes) 19 = nth_error passes 19 /\ nth_error PassTab.pass_order 19 = Some "group_as"%string.
Proof. split; reflexivity. Qed.
Lemma pass_20_group_aliased_tied :
  nth_error (map snd named_passes) 20 = nth_error passes 20 /\ nth_error PassTab.pass_order 20 = Some "group_aliased"%string.
Proof. split; reflexivity. Qed.
Lemma pass_21_group_assignment_tied :
  nth_error (map snd named_passes) 21 = nth_error passes 21 /\ nth_error PassTab.pass_order 21 = Some "group_assignment"%string.
Proof. split; reflexivity. Qed.
Lemma pass_22_align_comments_tied :
  nth_error (map snd named_passes) 22 = nth_error passes 22 /\ nth_error PassTab.pass_order 22 = Some "align_comments"%string.
Proof. split; reflexivity. Qed.
Lemma pass_23_group_identifier_list_tied :
  nth_error (map snd named_passes) 23 = nth_error passes 23 /\ nth_error PassTab.pass_order 23 = Some "group_identifier_list"%string.
Proof. split; reflexivity. Qed.
Lemma pass_24_group_values_tied :
  nth_error (map snd named_passes) 24 = nth_error passes 24 /\ nth_error PassTab.pass_order 24 = Some "group_values"%string.
Proof. split; reflexivity. Qed.

(* the decorators, the classes of the _group_matching passes, the `recurse=` flags of the _group
   calls and every literal of the ad-hoc passes: the model's pass list IS the list built from the
   generated tables *)
Theorem passes_tied : map snd named_passes = passes.
Proof. reflexivity. Qed.

Theorem pass_count : List.length PassTab.pass_order = 25.
Proof. reflexivity. Qed.

(* ---- b. M_OPEN / M_CLOSE / M_EXTEND ---------------------------------------------------------------- *)
Theorem m_open_tied : forall c, m_open c = pt_m_open c.
Proof. intros c; destruct c; reflexivity. Qed.

Theorem m_close_tied : forall c, m_close c = pt_m_close c.
Proof. intros c; destruct c; reflexivity. Qed.

Theorem m_extend_tied : m_extend_typed = pt_M_EXTEND_TypedLiteral.
Proof. reflexivity. Qed.

(* ---- c. T_NUMERICAL, T_STRING, T_NAME ---------------------------------------------------------- *)
Theorem t_tuples_tied :
  T_NUMERICAL = pt_T_NUMERICAL /\ T_STRING = pt_T_STRING /\ T_NAME = pt_T_NAME.
Proof. repeat split; reflexivity. Qed.

(* ---- d. the passes built on _group -------------------------------------------------------------- *)
Theorem typecasts_tied :
  call_tied pt_group_typecasts_cls pt_group_typecasts_match pt_group_typecasts_valid_prev
            pt_group_typecasts_valid_next pt_group_typecasts_post pt_group_typecasts_extend
            p_typecasts.
Proof.
  unfold call_tied. split; [reflexivity|]. split; [reflexivity|].
  split; [on_tokens; reflexivity|]. split; [on_tokens; reflexivity|].
  split; [optional; reflexivity|].
  intros l pi ti [ni|]; reflexivity.
Qed.

Theorem tzcasts_tied :
  call_tied pt_group_tzcasts_cls pt_group_tzcasts_match pt_group_tzcasts_valid_prev
            pt_group_tzcasts_valid_next pt_group_tzcasts_post pt_group_tzcasts_extend
            p_tzcasts.
Proof.
  unfold call_tied. split; [reflexivity|]. split; [reflexivity|].
  split; [on_tokens; reflexivity|]. split; [on_tokens; reflexivity|].
  split.
  - optional. unfold p_tzcasts; cbn [g_vnext some_node]. unfold matches, m_close; cbn [existsb].
    rewrite orb_false_r. reflexivity.
  - intros l pi ti [ni|]; reflexivity.
Qed.

Theorem typed_literal1_tied :
  call_tied pt_group_typed_literal_c1_cls pt_group_typed_literal_c1_match
            pt_group_typed_literal_c1_valid_prev pt_group_typed_literal_c1_valid_next
            pt_group_typed_literal_c1_post pt_group_typed_literal_c1_extend
            p_typed_literal1.
Proof.
  unfold call_tied. split; [reflexivity|]. split; [reflexivity|].
  split; [on_tokens; reflexivity|]. split; [on_tokens; reflexivity|].
  split.
  - optional. unfold p_typed_literal1; cbn [g_vnext some_node]. unfold matches, m_close; cbn [existsb].
    rewrite orb_false_r. reflexivity.
  - intros l pi ti [ni|]; reflexivity.
Qed.

Theorem typed_literal2_tied :
  call_tied pt_group_typed_literal_c2_cls pt_group_typed_literal_c2_match
            pt_group_typed_literal_c2_valid_prev pt_group_typed_literal_c2_valid_next
            pt_group_typed_literal_c2_post pt_group_typed_literal_c2_extend
            p_typed_literal2.
Proof.
  unfold call_tied. split; [reflexivity|]. split; [reflexivity|].
  split.
  - on_tokens. unfold p_typed_literal2; cbn [g_match]. cbn [pt_group_typed_literal_c2_match eval_tot].
    unfold inst_any; cbn [existsb]. apply orb_false_r.
  - split; [on_tokens; reflexivity|].
    split.
    + optional. unfold p_typed_literal2; cbn [g_vnext some_node]. unfold matches, m_extend_typed; cbn [existsb].
      rewrite orb_false_r. reflexivity.
    + intros l pi ti [ni|]; reflexivity.
Qed.

Theorem period_tied :
  call_tied pt_group_period_cls pt_group_period_match pt_group_period_valid_prev
            pt_group_period_valid_next pt_group_period_post pt_group_period_extend
            p_period.
Proof.
  unfold call_tied. split; [reflexivity|]. split; [reflexivity|].
  split; [on_tokens; reflexivity|]. split; [on_tokens; reflexivity|].
  split; [optional; reflexivity|].
  intros l pi ti [ni|]; [|reflexivity].
  unfold p_period; cbn [g_post]. unfold pt_group_period_post; cbn [eval_ppost].
  unfold eval_pexpr; cbn [eval_px].
  match goal with |- (if ?a then _ else _) = (if ?b then _ else _) => change a with b; destruct b end;
    reflexivity.
Qed.

Theorem arrays_tied :
  call_tied pt_group_arrays_cls pt_group_arrays_match pt_group_arrays_valid_prev
            pt_group_arrays_valid_next pt_group_arrays_post pt_group_arrays_extend
            p_arrays.
Proof.
  unfold call_tied. split; [reflexivity|]. split; [reflexivity|].
  split.
  - on_tokens. unfold p_arrays; cbn [g_match]. cbn [pt_group_arrays_match eval_tot].
    unfold inst_any; cbn [existsb]. apply orb_false_r.
  - split; [on_tokens; reflexivity|]. split; [optional; reflexivity|].
    intros l pi ti ni; reflexivity.
Qed.

Theorem operator_tied :
  call_tied pt_group_operator_cls pt_group_operator_match pt_group_operator_valid_prev
            pt_group_operator_valid_next pt_group_operator_post pt_group_operator_extend
            p_operator.
Proof.
  unfold call_tied. split; [reflexivity|]. split; [reflexivity|].
  split; [on_tokens; reflexivity|]. split; [on_tokens; reflexivity|].
  split; [optional; reflexivity|].
  intros l pi ti ni.
  unfold p_operator; cbn [g_post]. unfold pt_group_operator_post; cbn [eval_ppost].
  destruct (nth_error l ti) as [tk|]; [|reflexivity].
  destruct ni as [ni|].
  - destruct tk as [ty v | c cv kids]; reflexivity.
  - destruct tk as [ty v | c cv kids]; reflexivity.
Qed.

Theorem comparison_tied :
  call_tied pt_group_comparison_cls pt_group_comparison_match pt_group_comparison_valid_prev
            pt_group_comparison_valid_next pt_group_comparison_post pt_group_comparison_extend
            p_comparison.
Proof.
  unfold call_tied. split; [reflexivity|]. split; [reflexivity|].
  split; [on_tokens; reflexivity|]. split; [on_tokens; reflexivity|].
  split; [optional; reflexivity|].
  intros l pi ti [ni|]; reflexivity.
Qed.

Theorem as_tied :
  call_tied pt_group_as_cls pt_group_as_match pt_group_as_valid_prev
            pt_group_as_valid_next pt_group_as_post pt_group_as_extend
            p_as.
Proof.
  unfold call_tied. split; [reflexivity|]. split; [reflexivity|].
  split; [on_tokens; reflexivity|]. split; [on_tokens; reflexivity|].
  split; [optional; reflexivity|].
  intros l pi ti [ni|]; reflexivity.
Qed.

Theorem assignment_tied :
  call_tied pt_group_assignment_cls pt_group_assignment_match pt_group_assignment_valid_prev
            pt_group_assignment_valid_next pt_group_assignment_post pt_group_assignment_extend
            p_assignment.
Proof.
  unfold call_tied. split; [reflexivity|]. split; [reflexivity|].
  split; [on_tokens; reflexivity|]. split; [on_tokens; reflexivity|].
  split; [optional; reflexivity|].
  intros l pi ti [ni|]; [|reflexivity].
  unfold p_assignment; cbn [g_post]. unfold pt_group_assignment_post; cbn [eval_ppost].
  match goal with |- match ?a with _ => _ end = match ?b with _ => _ end =>
    change a with b; destruct b as [[si sn]|] end; reflexivity.
Qed.

Theorem identifier_list_tied :
  call_tied pt_group_identifier_list_cls pt_group_identifier_list_match
            pt_group_identifier_list_valid_prev pt_group_identifier_list_valid_next
            pt_group_identifier_list_post pt_group_identifier_list_extend
            p_identifier_list.
Proof.
  unfold call_tied. split; [reflexivity|]. split; [reflexivity|].
  split; [on_tokens; reflexivity|]. split; [on_tokens; reflexivity|].
  split; [optional; reflexivity|].
  intros l pi ti [ni|]; reflexivity.
Qed.

(* the regenerated parameter records are extensionally the hand-written ones *)
Corollary gen_params_tied :
  gparams_eq gen_typecasts p_typecasts /\ gparams_eq gen_tzcasts p_tzcasts /\
  gparams_eq gen_typed_literal1 p_typed_literal1 /\ gparams_eq gen_typed_literal2 p_typed_literal2 /\
  gparams_eq gen_period p_period /\ gparams_eq gen_arrays p_arrays /\
  gparams_eq gen_operator p_operator /\ gparams_eq gen_comparison p_comparison /\
  gparams_eq gen_as p_as /\ gparams_eq gen_assignment p_assignment /\
  gparams_eq gen_identifier_list p_identifier_list.
Proof.
  exact (conj (call_tied_gparams_eq _ _ _ _ _ _ _ typecasts_tied)
        (conj (call_tied_gparams_eq _ _ _ _ _ _ _ tzcasts_tied)
        (conj (call_tied_gparams_eq _ _ _ _ _ _ _ typed_literal1_tied)
        (conj (call_tied_gparams_eq _ _ _ _ _ _ _ typed_literal2_tied)
        (conj (call_tied_gparams_eq _ _ _ _ _ _ _ period_tied)
        (conj (call_tied_gparams_eq _ _ _ _ _ _ _ arrays_tied)
        (conj (call_tied_gparams_eq _ _ _ _ _ _ _ operator_tied)
        (conj (call_tied_gparams_eq _ _ _ _ _ _ _ comparison_tied)
        (conj (call_tied_gparams_eq _ _ _ _ _ _ _ as_tied)
        (conj (call_tied_gparams_eq _ _ _ _ _ _ _ assignment_tied)
              (call_tied_gparams_eq _ _ _ _ _ _ _ identifier_list_tied))))))))))).
Qed.

(* ---- examples: the evaluators are not trivial ---------------------------------------------------- *)
(* `NULL AS x`: the keyword NULL is a valid left neighbour of AS, the keyword FROM is not *)
Example as_valid_prev_null :
  eval_pexpr pt_group_as_valid_prev (Some (Leaf T_Keyword [110; 117; 108; 108]%N)) = true.
Proof. reflexivity. Qed.
Example as_valid_prev_from :
  eval_pexpr pt_group_as_valid_prev (Some (Leaf T_Keyword [70; 82; 79; 77]%N)) = false.
Proof. reflexivity. Qed.
(* valid_prev of group_as reads token.normalized: on None it would raise (it is only called on
   tokens); valid_next of group_as is None-safe and false on None *)
Example as_valid_prev_none_raises : eval_px pt_group_as_valid_prev None = None.
Proof. reflexivity. Qed.
Example as_valid_next_none : eval_px pt_group_as_valid_next None = Some false.
Proof. reflexivity. Qed.
(* `a.b`: post of group_period extends to the name after the dot, and stops at the dot before `(` *)
Example period_post_name :
  eval_ppost pt_group_period_post
             [Leaf T_Name [97]%N; Leaf T_Punctuation [46]%N; Leaf T_Name [98]%N] 0 1 (Some 2)
  = Ok ([Leaf T_Name [97]%N; Leaf T_Punctuation [46]%N; Leaf T_Name [98]%N], 0, 2).
Proof. reflexivity. Qed.
Example period_post_paren :
  eval_ppost pt_group_period_post
             [Leaf T_Name [97]%N; Leaf T_Punctuation [46]%N; Leaf T_Punctuation [40]%N] 0 1 (Some 2)
  = Ok ([Leaf T_Name [97]%N; Leaf T_Punctuation [46]%N; Leaf T_Punctuation [40]%N], 0, 1).
Proof. reflexivity. Qed.

(* ---- summary -------------------------------------------------------------------------------------- *)
Theorem pass_tables_tied :
  (* a. order, decorators, _group_matching classes, recurse= flags, literals of the ad-hoc passes *)
  map fst named_passes = PassTab.pass_order /\
  map snd named_passes = passes /\
  (* b. *)
  (forall c, m_open c = pt_m_open c) /\
  (forall c, m_close c = pt_m_close c) /\
  m_extend_typed = pt_M_EXTEND_TypedLiteral /\
  (* c. *)
  T_NUMERICAL = pt_T_NUMERICAL /\ T_STRING = pt_T_STRING /\ T_NAME = pt_T_NAME /\
  (* d. every _group call: class, extend=, match, valid_prev, valid_next, post *)
  call_tied pt_group_typecasts_cls pt_group_typecasts_match pt_group_typecasts_valid_prev
            pt_group_typecasts_valid_next pt_group_typecasts_post pt_group_typecasts_extend
            p_typecasts /\
  call_tied pt_group_tzcasts_cls pt_group_tzcasts_match pt_group_tzcasts_valid_prev
            pt_group_tzcasts_valid_next pt_group_tzcasts_post pt_group_tzcasts_extend
            p_tzcasts /\
  call_tied pt_group_typed_literal_c1_cls pt_group_typed_literal_c1_match
            pt_group_typed_literal_c1_valid_prev pt_group_typed_literal_c1_valid_next
            pt_group_typed_literal_c1_post pt_group_typed_literal_c1_extend
            p_typed_literal1 /\
  call_tied pt_group_typed_literal_c2_cls pt_group_typed_literal_c2_match
            pt_group_typed_literal_c2_valid_prev pt_group_typed_literal_c2_valid_next
            pt_group_typed_literal_c2_post pt_group_typed_literal_c2_extend
            p_typed_literal2 /\
  call_tied pt_group_period_cls pt_group_period_match pt_group_period_valid_prev
            pt_group_period_valid_next pt_group_period_post pt_group_period_extend
            p_period /\
  call_tied pt_group_arrays_cls pt_group_arrays_match pt_group_arrays_valid_prev
            pt_group_arrays_valid_next pt_group_arrays_post pt_group_arrays_extend
            p_arrays /\
  call_tied pt_group_operator_cls pt_group_operator_match pt_group_operator_valid_prev
            pt_group_operator_valid_next pt_group_operator_post pt_group_operator_extend
            p_operator /\
  call_tied pt_group_comparison_cls pt_group_comparison_match pt_group_comparison_valid_prev
            pt_group_comparison_valid_next pt_group_comparison_post pt_group_comparison_extend
            p_comparison /\
  call_tied pt_group_as_cls pt_group_as_match pt_group_as_valid_prev
            pt_group_as_valid_next pt_group_as_post pt_group_as_extend
            p_as /\
  call_tied pt_group_assignment_cls pt_group_assignment_match pt_group_assignment_valid_prev
            pt_group_assignment_valid_next pt_group_assignment_post pt_group_assignment_extend
            p_assignment /\
  call_tied pt_group_identifier_list_cls pt_group_identifier_list_match
            pt_group_identifier_list_valid_prev pt_group_identifier_list_valid_next
            pt_group_identifier_list_post pt_group_identifier_list_extend
            p_identifier_list.
Proof.
  exact (conj pass_order_tied (conj passes_tied (conj m_open_tied (conj m_close_tied
        (conj m_extend_tied (conj (proj1 t_tuples_tied) (conj (proj1 (proj2 t_tuples_tied))
        (conj (proj2 (proj2 t_tuples_tied))
        (conj typecasts_tied (conj tzcasts_tied (conj typed_literal1_tied (conj typed_literal2_tied
        (conj period_tied (conj arrays_tied (conj operator_tied (conj comparison_tied
        (conj as_tied (conj assignment_tied identifier_list_tied)))))))))))))))))).
Qed.
Print Assumptions pass_tables_tied.
Print Assumptions gen_params_tied.
