(* C20, finding KF-C20-1 FIXED: stated about the CURRENT source.  Lexer.get_default_instance builds the
   instance completely in a local variable and publishes it last, so an exception during the first
   initialisation leaves `_default_instance = None` and the next call initialises from scratch.

   This file does not compile against the unrepaired library (where Inst/C20Finding.v does): list exactly
   one of the two in _CoqProject.  Neither is imported by Props/C20.v. *)
From Coq Require Import String.
From SqlModel Require Import Base.
From SqlModel.Sys Require Import Singleton History HistoryX.
From SqlModel.Gen Require Import SingletonProg.
From SqlModel.Sys Require Import SingletonFacts HistoryFacts HistoryXFacts.

(* THE obligation that flipped when the library was repaired *)
Theorem C20_publishes_last_now : publishes_before_init = false.
Proof. vm_compute. reflexivity. Qed.

Theorem C20_shape_now : shape_of expected_kws get_default_instance_prog = Some true.
Proof. rewrite publishes_flag_shape, C20_publishes_last_now. reflexivity. Qed.

(* THE history theorem, unconditionally: whatever sequence of API operations preceded a call -- calls that
   returned, calls that raised, INCLUDING first calls interrupted by an exception in the middle of the
   lexer initialisation, abandoned generators, reconfigurations followed by default_initialization() --
   its result is the result in a fresh process *)
Theorem C20_xhistory : forall (R : Type) (sem : option cfg -> op -> R) h call,
  ends_defaultb (strip h) = true ->
  xresult_after R sem h call = xresult_fresh R sem call.
Proof. exact (C20_xhistory_if_publishes_last C20_publishes_last_now). Qed.
Print Assumptions C20_xhistory.

Theorem C20_never_bare : forall h, xlexer (xrun h xfresh) <> Some LBare.
Proof. exact (C20_never_bare_if_publishes_last C20_publishes_last_now). Qed.
Print Assumptions C20_never_bare.

(* every interruption point is harmless *)
Theorem C20_every_interruption_harmless : forall k o,
  xeff (xapply xfresh (XInterrupted k o)) = xeff xfresh.
Proof.
  intros k o. cbn [xapply]. destruct (touches_lexer o); [|reflexivity].
  cbn [xlexer xfresh]. unfold xeff. cbn [xlexer].
  destruct (flag_false_interrupted C20_publishes_last_now k) as [->| ->]; reflexivity.
Qed.
Print Assumptions C20_every_interruption_harmless.
