(* C18, pipeline level, UNBOUNDED: a statement whose first significant token is a DML/DDL keyword token
   gets that keyword, upper-cased, as its type - through the splitter, all 25 grouping passes and
   Statement.get_type - for EVERY token list satisfying the decidable guard of Group/BarrierDefs.v.
   Replaces the finite family of Inst/C18Fin.v.  Refutations show that every conjunct of the guard is
   needed. *)
From SqlModel Require Import Base PyStr Str Re MinWidth Lexer LexFacts SplitDefs Splitter SplitFacts Node Inv Passes
     GroupFacts TotalDefs TotalFacts BarrierDefs BarrierFacts.
From SqlModel.Gen Require Import Atoms CaseTabs KwTabs Rules SplitTab.
From SqlModel Require Import CaseDefs RelInv CaseRel WordsDefs NameWordsDefs NameWords RegionDefs Regions WsRun.
From SqlModel.Inst Require Import Cur C01 ParseFacts TotalParse CaseInv WsRunInst WordsCur C18Fin C18BarrierDefs.
From SqlModel.Acc Require Import Accessors AccFacts.
From Coq Require Import String.
Open Scope list_scope.

(* ================================================================================================ *)
(* 1. token level: the MAIN theorem                                                                 *)
Theorem C18_barrier : forall pre ty kw rest s,
  barrier_guard pre ty kw rest = true ->
  group (statement_of (pre ++ (ty, kw) :: rest)) = Ok s ->
  get_type s = Ok (knorm kw).
Proof.
  intros pre ty kw rest s Hg H.
  pose proof (barrier_guard_spec _ _ _ _ Hg) as (_ & Hty & _).
  destruct (barrier_group _ _ _ _ _ Hg H) as (v & l & -> & (pre' & rest' & -> & Hp & _) & _).
  apply get_type_keyword; [exact Hp | exact Hty].
Qed.
Print Assumptions C18_barrier.

(* with totality of the grouping engine: the statement IS built and has the type *)
Theorem C18_barrier_total : forall pre ty kw rest,
  barrier_guard pre ty kw rest = true ->
  exists s, group (statement_of (pre ++ (ty, kw) :: rest)) = Ok s /\ get_type s = Ok (knorm kw).
Proof.
  intros pre ty kw rest Hg. destruct (group_total (pre ++ (ty, kw) :: rest)) as (s & E).
  exists s. split; [exact E | eapply C18_barrier; eauto].
Qed.
Print Assumptions C18_barrier_total.

(* after EVERY prefix of the 25 passes the keyword leaf still leads the statement's children *)
Theorem C18_barrier_upto : forall k pre ty kw rest s,
  barrier_guard pre ty kw rest = true ->
  group_upto k (statement_of (pre ++ (ty, kw) :: rest)) = Ok s ->
  exists v l, s = Grp CStatement v l /\ leadsb kw l = true /\ get_type s = Ok (knorm kw).
Proof.
  intros k pre ty kw rest s Hg H.
  pose proof (barrier_guard_spec _ _ _ _ Hg) as (_ & Hty & _).
  destruct (barrier_group_upto _ _ _ _ _ _ Hg H) as (v & l & -> & (pre' & rest' & -> & Hp & Hn) & Hl).
  eexists _, _. split; [reflexivity|]. split; [exact Hl|].
  apply get_type_keyword; [exact Hp | exact Hty].
Qed.
Print Assumptions C18_barrier_upto.

(* ================================================================================================ *)
(* 2. the splitter: the first statement of a stream that starts (after skippable tokens) with the  *)
(*    keyword is  pre ++ keyword :: (a prefix of the rest)                                          *)
Section SplitFirst.
Variable reset : sstate.
Variable change : sstate -> ttype -> text -> sstate * Z.
Variable eos : list ttype.
Variable terminator : Z -> ttype -> text -> bool.
Notation process_go := (process_go reset change eos terminator).
Notation pstep := (pstep change terminator).

Definition never_term (tk : tok) : Prop := forall lv, terminator lv (fst tk) (snd tk) = false.

Lemma pstep_consume st tk : consume_ws st = false -> never_term tk -> consume_ws (pstep st tk) = false.
Proof.
  intros Hc Hn. unfold Splitter.pstep. destruct tk as [ty v]. destruct (change (ss st) ty v) as [s' d].
  cbn [consume_ws]. rewrite Hc. apply (Hn _).
Qed.

Lemma process_go_noterm : forall a b st, consume_ws st = false -> Forall never_term a ->
  exists st', process_go st (a ++ b) = process_go st' b /\ acc st' = rev a ++ acc st /\
              consume_ws st' = false.
Proof.
  induction a as [|tk a IH]; intros b st Hc Ha.
  - exists st. auto.
  - inversion Ha as [|? ? Htk Ha']; subst. cbn [app Splitter.process_go]. rewrite Hc. cbn [andb].
    destruct (IH b (pstep st tk) (pstep_consume _ _ Hc Htk) Ha') as (st' & E & A & C).
    exists st'. split; [exact E|]. split; [|exact C].
    rewrite A, (pstep_acc change terminator). cbn [rev]. rewrite <- app_assoc. reflexivity.
Qed.

Lemma process_go_first : forall stream st,
  (exists tk, In tk (acc st) /\ is_ws_tok tk = false) ->
  exists r1 r2 more, stream = r1 ++ r2 /\ process_go st stream = (rev (acc st) ++ r1) :: more.
Proof.
  induction stream as [|tk rest IH]; intros st (x & Hin & Hx); cbn [Splitter.process_go].
  - exists [], [], []. split; [reflexivity|]. rewrite app_nil_r.
    destruct (acc st) as [|a l] eqn:E; [destruct Hin|].
    replace (forallb is_ws_tok (a :: l)) with false; [reflexivity|].
    symmetry. apply not_true_iff_false. intros F. rewrite forallb_forall in F.
    rewrite (F x Hin) in Hx. discriminate.
  - destruct (consume_ws st && negb (in_eos eos (fst tk))).
    + exists [], (tk :: rest). eexists. split; [reflexivity|]. rewrite app_nil_r. reflexivity.
    + destruct (IH (pstep st tk)) as (r1 & r2 & more & -> & E).
      { exists x. rewrite (pstep_acc change terminator). split; [right; exact Hin | exact Hx]. }
      exists (tk :: r1), r2, more. split; [reflexivity|]. rewrite E, (pstep_acc change terminator).
      cbn [rev]. rewrite <- app_assoc. reflexivity.
Qed.

Lemma process_first pre K rest :
  Forall never_term pre -> never_term K -> is_ws_tok K = false ->
  exists r1 r2 more, rest = r1 ++ r2 /\
    process reset change eos terminator (pre ++ K :: rest) = (pre ++ K :: r1) :: more.
Proof.
  intros Hp HK Hw. unfold process.
  replace (pre ++ K :: rest) with ((pre ++ [K]) ++ rest) by (rewrite <- app_assoc; reflexivity).
  destruct (process_go_noterm (pre ++ [K]) rest (pinit reset) eq_refl) as (st' & E & A & _).
  { apply Forall_app. split; [exact Hp | constructor; [exact HK | constructor]]. }
  rewrite E. cbn [acc pinit] in A. rewrite app_nil_r in A.
  destruct (process_go_first rest st') as (r1 & r2 & more & -> & E2).
  { exists K. split; [|exact Hw]. rewrite A. apply in_rev. rewrite rev_involutive. apply in_or_app.
    right. left. reflexivity. }
  exists r1, r2, more. split; [reflexivity|]. rewrite E2, A, rev_involutive, <- app_assoc. reflexivity.
Qed.
End SplitFirst.

Lemma skippable_never_term tk : tok_skippable tk = true -> never_term is_terminator tk.
Proof.
  destruct tk as [ty v]. unfold tok_skippable, never_term. cbn [fst snd]. intros H lv.
  unfold is_terminator.
  destruct (ttype_eqb ty [Punctuation]) eqn:E1.
  { apply ttype_eqb_eq in E1. subst ty. discriminate H. }
  destruct (ttype_eqb ty [Keyword]) eqn:E2.
  { apply ttype_eqb_eq in E2. subst ty. discriminate H. }
  rewrite !andb_false_r. reflexivity.
Qed.

Lemma keyword_never_term ty kw : ty = T_DML \/ ty = T_DDL -> never_term is_terminator (ty, kw).
Proof.
  intros [-> | ->] lv; unfold is_terminator; cbn [fst snd ttype_eqb tcomp_eqb T_DML T_DDL andb];
    rewrite !andb_false_r; reflexivity.
Qed.

(* the guard is inherited by a prefix of the rest *)
Lemma barrier_guard_prefix pre ty kw r1 r2 :
  barrier_guard pre ty kw (r1 ++ r2) = true -> barrier_guard pre ty kw r1 = true.
Proof.
  intros H. apply barrier_guard_spec in H. destruct H as (Hp & Hty & Hk & Hn & Hc).
  unfold barrier_guard. rewrite Hp, Hk. cbn [andb].
  replace (existsb (ttype_eqb ty) [T_DML; T_DDL]) with true by (destruct Hty as [-> | ->]; reflexivity).
  cbn [andb]. apply andb_true_iff. split.
  - unfold tok_next_ok in *. rewrite map_app in Hn. eapply next_ok_prefix; eauto.
  - apply Nat.leb_le. rewrite cntA_app in Hc. lia.
Qed.

(* ================================================================================================ *)
(* 3. through cur_parse, the lexer's output being given                                             *)
Theorem C18_barrier_lexed : forall t pre ty kw rest,
  cur_lex t = Ok (pre ++ (ty, kw) :: rest) ->
  barrier_guard pre ty kw rest = true ->
  exists s ss, cur_parse t = Ok (s :: ss) /\ get_type s = Ok (knorm kw).
Proof.
  intros t pre ty kw rest El Hg.
  pose proof (barrier_guard_spec _ _ _ _ Hg) as (Hp & Hty & _).
  destruct (process_first reset_sstate change_splitlevel eos_ttypes is_terminator pre (ty, kw) rest)
    as (r1 & r2 & more & -> & Ep).
  { apply Forall_forall. intros tk Htk. apply skippable_never_term.
    exact (proj1 (forallb_forall _ _) Hp tk Htk). }
  { apply keyword_never_term, Hty. }
  { destruct Hty as [-> | ->]; reflexivity. }
  apply barrier_guard_prefix in Hg.
  destruct (C18_barrier_total _ _ _ _ Hg) as (s & Es & Et).
  destruct (TotalParse.mapM_total (fun st => group (statement_of st)) more) as (ss & Ess).
  { intros x. apply group_total. }
  exists s, ss. split; [|exact Et].
  unfold cur_parse, cur_split_stream. rewrite El. cbn [bind]. unfold cur_process. rewrite Ep.
  cbn [mapM]. rewrite Es. cbn [bind]. rewrite Ess. reflexivity.
Qed.
Print Assumptions C18_barrier_lexed.

(* ================================================================================================ *)
(* 4. refutations: every conjunct of the guard is needed (closed witnesses through cur_parse)       *)
Lemma first_type_is_spec t ty : first_type_is t ty = true -> typed_through_parse t ty.
Proof.
  unfold first_type_is, typed_through_parse.
  destruct (cur_parse t) as [[|s ss]|e]; [intros H; discriminate H| |intros H; discriminate H].
  destruct (get_type s) as [x|e] eqn:Eg; [|intros H; discriminate H].
  intros H. apply text_eqb_eq in H. subst x. exists s, ss. split; [reflexivity | exact Eg].
Qed.

Ltac wit := apply first_type_is_spec; vm_compute; reflexivity.

(* GUARD 1a: `::` right after the keyword - group_typecasts (valid_prev accepts any token) *)
Theorem C18_barrier_needs_no_dcolon_refuted : unknown_through_parse (tx "select::int").
Proof. wit. Qed.
(* GUARD 1b: `:=` right after the keyword - group_assignment (valid_prev only refuses ttype == T.Keyword) *)
Theorem C18_barrier_needs_no_assign_refuted : unknown_through_parse (tx "select := 1").
Proof. wit. Qed.
(* GUARD 1c (NEW): a TZCast token right after the keyword - group_tzcasts (valid_prev accepts any token) *)
Theorem C18_barrier_needs_no_tzcast_refuted : unknown_through_parse (tx "select at time zone 'utc' as x").
Proof. wit. Qed.
(* GUARD 3 (NEW): two `:=` - after grouping `x:=a b:=;` up to the `;`, group_assignment's stale indices make the
   second `:=` group tokens 0..2 of the statement: the keyword ends up inside an Assignment *)
Theorem C18_barrier_needs_one_assign_refuted : unknown_through_parse (tx "select x:=a b:=;").
Proof. wit. Qed.
(* the token-level hypothesis itself (a DML/DDL token): directly before `(` and before `.` (even after blanks) the
   lexer makes the word a Name *)
Theorem C18_barrier_needs_keyword_token_refuted :
  unknown_through_parse (tx "select(1)") /\ unknown_through_parse (tx "select.x") /\
  unknown_through_parse (tx "select .x").
Proof. repeat split; wit. Qed.

Lemma group_type_is_spec toks ty : group_type_is toks ty = true ->
  exists s, group (statement_of toks) = Ok s /\ get_type s = Ok ty.
Proof.
  unfold group_type_is. destruct (group (statement_of toks)) as [s|e]; [|intros H; discriminate H].
  destruct (get_type s) as [x|e] eqn:Eg; [|intros H; discriminate H].
  intros H. apply text_eqb_eq in H. subst x. exists s. split; [reflexivity | exact Eg].
Qed.

(* GUARD 2 (token lists the lexer never produces): a Keyword.DML token spelled AS / NULL *)
Theorem C18_barrier_needs_kw_ok_refuted :
  (exists s, group (statement_of [(T_CMultiline, tx "/**/"); (T_DML, tx "as"); tk_ws; (T_Name, tx "x")]) = Ok s
             /\ get_type s = Ok s_UNKNOWN) /\
  (exists s, group (statement_of [(T_DML, tx "null"); tk_ws; (T_Keyword, tx "as"); tk_ws; (T_Name, tx "x")]) = Ok s
             /\ get_type s = Ok s_UNKNOWN).
Proof. split; apply group_type_is_spec; vm_compute; reflexivity. Qed.

(* the guard is sufficient, not necessary: texts outside it whose type is still the keyword *)
Example C18_barrier_guard_slack :
  typed_through_parse (tx "select ::") (tx "SELECT")                      (* `::` without right operand *)
  /\ typed_through_parse (tx "select at time zone 'x'") (tx "SELECT")     (* TZCast without AS / string after it *)
  /\ typed_through_parse (tx "select x:=a b:=c;") (tx "SELECT").          (* two `:=`, stale indices miss the keyword *)
Proof. repeat split; wit. Qed.

(* ---- non-vacuity ------------------------------------------------------------------------------- *)
Example C18_barrier_lexed_ex :
  cur_lex ex_text = Ok (firstn 5 ex_toks ++ (T_DML, tx "sElEcT") :: skipn 6 ex_toks)
  /\ barrier_guard (firstn 5 ex_toks) T_DML (tx "sElEcT") (skipn 6 ex_toks) = true
  /\ List.length (skipn 6 ex_toks) = 43
  /\ typed_through_parse ex_text (tx "SELECT").
Proof.
  assert (El : cur_lex ex_text = Ok (firstn 5 ex_toks ++ (T_DML, tx "sElEcT") :: skipn 6 ex_toks))
    by (vm_compute; reflexivity).
  assert (Hg : barrier_guard (firstn 5 ex_toks) T_DML (tx "sElEcT") (skipn 6 ex_toks) = true)
    by (vm_compute; reflexivity).
  split; [exact El|]. split; [exact Hg|]. split; [vm_compute; reflexivity|].
  destruct (C18_barrier_lexed _ _ _ _ _ El Hg) as (s & ss & E1 & E2).
  exists s, ss. split; [exact E1|]. rewrite E2. vm_compute. reflexivity.
Qed.

Example C18_barrier_ex :
  barrier_guard [(T_Whitespace, [32%N]); (T_CSingle, tx "--x" ++ [10%N])] T_DDL (tx "Create")
                [(T_Whitespace, [32%N]); (T_Keyword, tx "table"); (T_Punctuation, tx "::")] = true.
Proof. vm_compute. reflexivity. Qed.

(* ================================================================================================ *)
(* 5. text level                                                                                    *)
(* one lexer step: the rule that matches at the position consumes exactly [u] *)
Lemma lex_go_skip : forall u q r,
  lex_go lower upper sql_regex kws q (List.length u) (u ++ r)
  = lex_go lower upper sql_regex kws (push_prev q u) 0 r.
Proof.
  induction u as [|ch u IH]; intros q r; [reflexivity|].
  cbn [List.length app lex_go]. rewrite IH. reflexivity.
Qed.

Lemma cur_lex_go_step p u r a :
  u <> [] -> cur_first_match (mkSt p (u ++ r)) = Some (a, List.length u) ->
  cur_lex_go p (u ++ r)
  = match cur_lex_go (push_prev p u) r with
    | Ok ts => Ok (mk_tok upper kws a u :: ts)
    | Err e => Err e
    end.
Proof.
  intros Hu Hm. destruct u as [|ch u]; [congruence|]. unfold cur_lex_go, cur_first_match in *.
  cbn [app lex_go]. cbn [app] in Hm. rewrite Hm. cbn [List.length]. rewrite lex_go_skip.
  cbn [push_prev fold_left]. unfold push_prev.
  replace (firstn (S (List.length u)) (ch :: u ++ r)) with (ch :: u); [reflexivity|].
  cbn [firstn]. f_equal. rewrite firstn_app, firstn_all, Nat.sub_diag. cbn [firstn]. rewrite app_nil_r. reflexivity.
Qed.

Lemma push_prev_snoc p u c : push_prev p (u ++ [c]) = Some c.
Proof. unfold push_prev. rewrite fold_left_app. reflexivity. Qed.

Lemma lex_items : forall items p b, Forall pitem_ok items ->
  cur_lex_go p (flat_map ptext items ++ b)
  = match cur_lex_go (plast p items) b with
    | Ok ts => Ok (map ptok items ++ ts)
    | Err e => Err e
    end.
Proof.
  induction items as [|it items IH]; intros p b Hok.
  - cbn [flat_map app plast map]. destruct (cur_lex_go p b); reflexivity.
  - inversion Hok as [|? ? Hit Hitems]; subst. cbn [flat_map plast map]. rewrite <- app_assoc.
    destruct it as [u | body | o body]; cbn [pitem_ok ptext ptok plast1] in *.
    + assert (E : utext1 u ++ flat_map ptext items ++ b = utext [u] ++ flat_map ptext items ++ b).
      { unfold utext. cbn [flat_map]. rewrite app_nil_r. reflexivity. }
      rewrite E, C11_lex_ws_run; [|discriminate | constructor; [exact Hit | constructor]].
      rewrite (IH (Some 32%N) b Hitems). destruct (cur_lex_go _ b); reflexivity.
    + rewrite (cur_lex_go_step p _ _ (Emit (bc_type body))).
      * replace (push_prev p ([47; 42]%N ++ body ++ [42; 47]%N)) with (Some 47%N).
        2:{ replace ([47; 42]%N ++ body ++ [42; 47]%N) with (([47; 42]%N ++ body ++ [42%N]) ++ [47%N])
              by (rewrite <- !app_assoc; reflexivity).
            rewrite push_prev_snoc. reflexivity. }
        rewrite (IH (Some 47%N) b Hitems). destruct (cur_lex_go _ b); reflexivity.
      * discriminate.
      * rewrite <- !app_assoc. rewrite (block_comment_region p body _ Hit). f_equal. f_equal.
        rewrite !app_length. cbn [List.length]. lia.
    + destruct Hit as [Ho Hb].
      rewrite (cur_lex_go_step p _ _ (Emit (lc_type body))).
      * replace (push_prev p (o ++ body ++ [10%N])) with (Some 10%N)
          by (rewrite app_assoc, push_prev_snoc; reflexivity).
        rewrite (IH (Some 10%N) b Hitems). destruct (cur_lex_go _ b); reflexivity.
      * intros Hn. apply app_eq_nil in Hn. destruct Hn as [_ Hn]. apply app_eq_nil in Hn.
        destruct Hn as [_ Hn]. discriminate.
      * rewrite <- !app_assoc.
        rewrite (line_comment_region p o body [10%N] _ Ho Hb eq_refl). f_equal. f_equal.
        rewrite !app_length. cbn [List.length]. lia.
Qed.

Lemma ptok_skippable items : Forall pitem_ok items -> forallb tok_skippable (map ptok items) = true.
Proof.
  induction 1 as [|it items Hit _ IH]; [reflexivity|]. cbn [map forallb]. rewrite IH, andb_true_r.
  destruct it as [[c| |] | body | o body]; cbn [ptok utok1]; try reflexivity.
  - unfold tok_skippable, bc_type. cbn [fst]. destruct (starts_with 43 body); reflexivity.
  - unfold tok_skippable, lc_type. cbn [fst]. destruct (starts_with 43 body); reflexivity.
Qed.

Lemma utoks_ws us : Forall (fun tk => is_ws (leaf_of tk) = true) (utoks T_Whitespace T_Newline us).
Proof. unfold utoks. induction us as [|[c| |] us IH]; cbn [map]; constructor; auto. Qed.

Lemma tok_next_ok_ws ws r : Forall (fun tk => is_ws (leaf_of tk) = true) ws ->
  tok_next_ok (ws ++ r) = tok_next_ok r.
Proof.
  intros H. unfold tok_next_ok, next_ok. rewrite map_app, nx_ws_app; [reflexivity|].
  induction H; cbn [map]; constructor; auto.
Qed.

Lemma cntA_ws ws : Forall (fun tk => is_ws (leaf_of tk) = true) ws -> cntA ws = 0.
Proof.
  unfold cntA. induction 1 as [|[ty v] ws Hx _ IH]; [reflexivity|]. cbn [filter].
  replace (tok_assign (ty, v)) with false; [exact IH|]. symmetry. unfold tok_assign. cbn [fst snd].
  destruct (ttype_eqb ty T_Assignment) eqn:E; [|reflexivity]. apply ttype_eqb_eq in E. subst ty. discriminate Hx.
Qed.

(* THE TEXT-LEVEL THEOREM with the keyword's token boundary as hypothesis ("the cut"):
     t = <whitespace / comments> w' <non-empty whitespace run> rest_text
   where the lexer, positioned at w', emits exactly w' as a DML/DDL token, and the tokens of rest_text
   (lexed on its own after a blank) satisfy the guard.  rest_text is otherwise ARBITRARY. *)
Theorem C18_barrier_text_cut : forall items w' a ty us rest_text rest_toks,
  Forall pitem_ok items -> w' <> [] ->
  cur_first_match (mkSt (plast None items) (w' ++ utext us ++ rest_text)) = Some (a, List.length w') ->
  mk_tok upper kws a w' = (ty, w') -> ty = T_DML \/ ty = T_DDL -> kw_ok w' = true ->
  us <> [] -> Forall unit_wf us ->
  cur_lex_go (Some 32%N) rest_text = Ok rest_toks ->
  tok_next_ok rest_toks = true -> cntA rest_toks <= 1 ->
  typed_through_parse (flat_map ptext items ++ w' ++ utext us ++ rest_text) (knorm w').
Proof.
  intros items w' a ty us rest_text rest_toks Hit Hw Hcut Hmk Hty Hk Hus Hwf Hrest Hn Hc.
  eapply (C18_barrier_lexed _ (map ptok items) ty w' (utoks T_Whitespace T_Newline us ++ rest_toks)).
  - rewrite cur_lex_go_None, (lex_items items None _ Hit).
    rewrite (cur_lex_go_step _ _ _ a Hw Hcut), C11_lex_ws_run by assumption.
    rewrite Hrest, Hmk. reflexivity.
  - unfold barrier_guard. rewrite (ptok_skippable _ Hit), Hk. cbn [andb].
    replace (existsb (ttype_eqb ty) [T_DML; T_DDL]) with true by (destruct Hty as [-> | ->]; reflexivity).
    cbn [andb]. rewrite (tok_next_ok_ws _ _ (utoks_ws us)), Hn. cbn [andb].
    apply Nat.leb_le. rewrite cntA_app, (cntA_ws _ (utoks_ws us)). exact Hc.
Qed.
Print Assumptions C18_barrier_text_cut.

(* ---- the cut, decided on a known prefix (Lexer/NameWords.v: matching with a known prefix) ------- *)
Lemma mk_tok_case a W w' : Forall2 Rcase W w' -> fst (mk_tok upper kws a w') = fst (mk_tok upper kws a W).
Proof. intros H. destruct a as [ty|]; cbn [mk_tok fst]; [reflexivity|]. rewrite (cur_Rcase_upper _ _ H). reflexivity. Qed.

Lemma Forall2_len' {A B} (R : A -> B -> Prop) l l' : Forall2 R l l' -> List.length l = List.length l'.
Proof. induction 1; cbn [List.length]; congruence. Qed.

Lemma cut_sound p W u c w' T : cut_ok p W u c = true -> Forall2 Rcase W w' ->
  exists a ty, cur_first_match (mkSt p (w' ++ utext1 u ++ c :: T)) = Some (a, List.length w') /\
               mk_tok upper kws a w' = (ty, w') /\ (ty = T_DML \/ ty = T_DDL).
Proof.
  unfold cut_ok. intros H HR.
  destruct (a_first_match sql_regex (mkSt p (W ++ utext1 u ++ [c]))) as [[a k]|] eqn:E; [|discriminate].
  apply andb_true_iff in H. destruct H as [Hk Hd]. apply Nat.eqb_eq in Hk. subst k.
  exists a, (fst (mk_tok upper kws a W)). split; [|split].
  - assert (Hrel : st_rel Rcase (mkSt p (w' ++ utext1 u ++ c :: T)) (mkSt p (W ++ utext1 u ++ c :: T))).
    { split; cbn [prev rest].
      - destruct p; [apply Rcase_refl | exact I].
      - apply Forall2_app; [|apply Forall2_Rcase_refl]. clear - HR.
        induction HR as [|x y l l' Hxy _ IH]; constructor; [|exact IH].
        destruct Hxy as [Hxy | [Hxy | Hxy]]; [left; auto | right; right; exact Hxy | right; left; exact Hxy]. }
    rewrite (C_first_match_case _ _ Hrel), <- (Forall2_len' _ _ _ HR).
    pose proof (a_first_match_sound lower sql_regex _ T _ _ E) as Hs. unfold ext in Hs. cbn [prev rest] in Hs.
    rewrite <- !app_assoc in Hs. exact Hs.
  - rewrite <- (mk_tok_case a W w' HR). destruct a; reflexivity.
  - unfold is_dd in Hd. cbn [existsb] in Hd. rewrite orb_false_r in Hd. apply orb_true_iff in Hd.
    destruct Hd as [Hd | Hd]; apply ttype_eqb_eq in Hd; auto.
Qed.

(* ---- the finite table behind the cut: 14 words x 4 look-behinds x 4 separator units x 94 characters ---- *)
Lemma cut_table :
  forallb (fun W => forallb (fun p => forallb (fun u => forallb (fun c =>
     cut_excluded W c || cut_ok p W u c) next_chars) sep_units) lookbehinds) dml_ddl_words = true.
Proof. vm_compute. reflexivity. Qed.

Lemma cut_table_spec W p u c :
  In W dml_ddl_words -> In p lookbehinds -> In u sep_units -> In c next_chars -> cut_excluded W c = false ->
  cut_ok p W u c = true.
Proof.
  intros HW Hp Hu Hc He. pose proof cut_table as H.
  pose proof (forallb_In _ _ _ H HW) as H1. cbv beta in H1.
  pose proof (forallb_In _ _ _ H1 Hp) as H2. cbv beta in H2.
  pose proof (forallb_In _ _ _ H2 Hu) as H3. cbv beta in H3.
  pose proof (forallb_In _ _ _ H3 Hc) as H4. cbv beta in H4.
  rewrite He in H4. exact H4.
Qed.

Lemma plast_in : forall items p, In p lookbehinds -> In (plast p items) lookbehinds.
Proof.
  induction items as [|it items IH]; intros p Hp; [exact Hp|]. cbn [plast]. apply IH.
  destruct it; cbn [plast1]; unfold lookbehinds; cbn [In]; auto.
Qed.

(* the 14 words contain no white space: Token.normalized is just the upper-cased word *)
Lemma words_knorm : forallb (fun W => text_eqb (knorm W) (upper W)) dml_ddl_words = true.
Proof. vm_compute. reflexivity. Qed.

Lemma words_kw_ok : forallb kw_ok dml_ddl_words = true.
Proof. vm_compute. reflexivity. Qed.

Lemma words_nonempty : forallb (fun W => match W with [] => false | _ :: _ => true end) dml_ddl_words = true.
Proof. vm_compute. reflexivity. Qed.

Lemma sep_units_wf u : In u sep_units -> unit_wf u.
Proof.
  intros [<- | [<- | [<- | [<- | []]]]]; cbn [unit_wf]; try exact I; unfold wb_list;
    repeat (first [left; reflexivity | right]).
Qed.

(* TEXT LEVEL, no hypothesis about the lexer left - for separators of ONE whitespace unit:
     t = <whitespace / complete comments> w' <blank | tab | LF | CR LF> c T
   w' any ASCII casing of one of the 14 DML/DDL words, c a printable ASCII character other than "."
   (and other than o/O after CREATE), T ANY text.
   PARTIAL: separators of several whitespace units (the rules with a look-ahead `\s*\.` / `\s+OR\s+REPLACE`
   scan the whole run, which no finite table of known prefixes covers), a non-ASCII / control character after
   the separator, and an empty remainder are covered by C18_barrier_text_cut only, i.e. with the keyword's
   token boundary as a hypothesis. *)
Theorem C18_barrier_text_partial : forall items W w' u c T rest_toks,
  Forall pitem_ok items -> In W dml_ddl_words -> Forall2 Rcase W w' ->
  In u sep_units -> In c next_chars -> cut_excluded W c = false ->
  cur_lex_go (Some 32%N) (c :: T) = Ok rest_toks ->
  tok_next_ok rest_toks = true -> cntA rest_toks <= 1 ->
  typed_through_parse (flat_map ptext items ++ w' ++ utext1 u ++ c :: T) (upper W).
Proof.
  intros items W w' u c T rest_toks Hit HW HR Hu Hc He Hrest Hn Hcn.
  assert (Hp : In (plast None items) lookbehinds) by (apply plast_in; left; reflexivity).
  pose proof (cut_table_spec W _ u c HW Hp Hu Hc He) as Hcut.
  destruct (cut_sound _ W u c w' T Hcut HR) as (a & ty & Hm & Hmk & Hty).
  assert (Ek : upper W = knorm w').
  { unfold knorm. rewrite <- (cur_Rcase_upper _ _ HR).
    pose proof (forallb_In _ _ _ words_knorm HW) as Hk. cbv beta in Hk. apply text_eqb_eq in Hk.
    symmetry. exact Hk. }
  rewrite Ek.
  assert (Eu : utext1 u ++ c :: T = utext [u] ++ c :: T).
  { unfold utext. cbn [flat_map]. rewrite app_nil_r. reflexivity. }
  rewrite Eu. rewrite Eu in Hm.
  eapply (C18_barrier_text_cut items w' a ty [u] (c :: T) rest_toks); try eassumption.
  - intros ->. inversion HR; subst. pose proof (forallb_In _ _ _ words_nonempty HW) as Hk. discriminate Hk.
  - unfold kw_ok, knorm. rewrite <- (cur_Rcase_upper _ _ HR). exact (forallb_In _ _ _ words_kw_ok HW).
  - discriminate.
  - constructor; [apply sep_units_wf, Hu | constructor].
Qed.
Print Assumptions C18_barrier_text_partial.

(* non-vacuity: "  /*+ h */ -- c LF DeLeTe TAB from t where a::int = 1 returning *" *)
Example C18_barrier_text_partial_ex :
  typed_through_parse
    (flat_map ptext [PWs (UC 32); PWs (UC 32); PBlock (tx "+ h "); PWs (UC 32); PLine (tx "--") (tx " c")]
     ++ tx "DeLeTe" ++ utext1 (UC 9) ++ tx "from t where a::int = 1 returning *")
    (tx "DELETE").
Proof.
  refine (C18_barrier_text_partial _ (tx "DELETE") (tx "DeLeTe") (UC 9) 102%N (tx "rom t where a::int = 1 returning *")
            (match cur_lex_go (Some 32%N) (tx "from t where a::int = 1 returning *") with Ok l => l | Err _ => [] end)
            _ _ _ _ _ _ _ _ _).
  - assert (H32 : In 32%N wb_list) by (unfold wb_list; repeat (first [left; reflexivity | right])).
    repeat (first [apply Forall_cons | apply Forall_nil]); cbn [pitem_ok unit_wf];
      first [exact H32 | reflexivity | split; reflexivity].
  - vm_compute. do 2 right. left. reflexivity.
  - apply text_Rcase_b_sound. vm_compute. reflexivity.
  - right. left. reflexivity.
  - apply in_map_iff. exists 69. split; [reflexivity|]. apply in_seq. lia.
  - reflexivity.
  - vm_compute. reflexivity.
  - vm_compute. reflexivity.
  - vm_compute. lia.
Qed.
