(* C14 (second half): the definitions of Lexer/WordsDefs.v instantiated with the regenerated
   tables.  Definitions only.
   (Statements about the closed list [cur_all_words] are written with the generic functions applied
   to the tables, never through a wrapper: the unifier must not be tempted to unfold towards a
   computation over 799 words.) *)
From SqlModel Require Import Base PyStr Re Lexer WordsDefs.
From SqlModel.Gen Require Import Atoms CaseTabs KwTabs Rules.
From SqlModel.Inst Require Import Cur.

(* ---- the instance --------------------------------------------------------------------------- *)
Definition cur_expected_type (w : text) : ttype := expected_type lower upper sql_regex kws w.
Definition cur_dedicated_type (w : text) : option ttype := dedicated_type lower sql_regex w.
Definition cur_is_word (w : text) : bool := is_word lower sql_regex w.
Definition cur_all_words : list text := all_words kws.
Definition cur_unreachable_entries : list text := unreachable_entries lower sql_regex kws.
Definition cur_ntoks_left (c : ctx) : nat := ntoks_left lower upper sql_regex kws c.
Definition cur_word_in_ctx_ok (w : text) (c : ctx) : bool :=
  word_in_ctx_ok lower upper sql_regex kws w c.

