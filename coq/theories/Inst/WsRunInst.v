(* C11 at the lexer level, over the regenerated tables: a whitespace run (blank-class characters,
   LF, CR LF) at a token boundary becomes one token per unit, and the rest of the text is lexed
   the same whatever the run was.  Table-dependent obligations by vm_compute. *)
From SqlModel Require Import Base PyStr Re Lexer WsRun WsRunFacts.
From SqlModel.Gen Require Import Atoms CaseTabs KwTabs Rules.
From SqlModel.Inst Require Import Cur.

Definition cur_lex_go (p : option N) (t : text) : res (list tok) := lex_go lower upper sql_regex kws p 0 t.

Lemma cur_lex_go_None t : cur_lex t = cur_lex_go None t.
Proof. reflexivity. Qed.

(* every \s character other than CR and LF *)
Definition wb_list : list N :=
  [9; 11; 12; 28; 29; 30; 31; 32; 133; 160; 5760; 8192; 8193; 8194; 8195; 8196; 8197; 8198; 8199;
   8200; 8201; 8202; 8232; 8233; 8239; 8287; 12288]%N.

(* ... exactly: the \s atom of the whitespace rule is wb_list + {10, 13} (and equals str.isspace) *)
Example ws_atom_is :
  cset_ivs a_10 0 1114112
  = [(9, 14); (28, 33); (133, 134); (160, 161); (5760, 5761); (8192, 8203); (8232, 8234);
     (8239, 8240); (8287, 8288); (12288, 12289)]%N
  /\ cset_ivs space_set 0 1114112 = cset_ivs a_10 0 1114112.
Proof. split; vm_compute; reflexivity. Qed.

Definition pre1 : list rule := firstn 4 sql_regex.
Definition post : list rule := skipn 6 sql_regex.

Lemma cur_rules_eq :
  sql_regex = pre1 ++ (newline_re 1 a_5 a_6, Emit T_Newline) :: [] ++ (lazy_ws_re a_10, Emit T_Whitespace) :: post.
Proof. vm_compute. reflexivity. Qed.

Definition blank_ok_b (c : N) : bool :=
  cmem c a_10 && negb (cmem c a_5) && negb (cmem c a_6)
  && forallb (fun ra : rule => nomatch (fst ra) c) pre1.

Lemma blank_ok_all : forallb blank_ok_b wb_list = true.
Proof. vm_compute. reflexivity. Qed.

Lemma breaks_ok_b :
  negb (cmem 10%N a_5) && cmem 10%N a_6 && cmem 13%N a_5
  && forallb (fun ra : rule => nomatch (fst ra) 10%N) pre1
  && forallb (fun ra : rule => nomatch (fst ra) 13%N) pre1 = true.
Proof. vm_compute. reflexivity. Qed.

Lemma forallb_Forall {A} (f : A -> bool) l : forallb f l = true -> Forall (fun x => f x = true) l.
Proof. intros H. apply Forall_forall. apply forallb_forall. exact H. Qed.

Lemma cur_blank_ok c : In c wb_list -> blank_ok pre1 [] a_5 a_6 a_10 c.
Proof.
  intros Hc. pose proof blank_ok_all as H. rewrite forallb_forall in H. specialize (H c Hc).
  unfold blank_ok_b in H. repeat (apply andb_true_iff in H; destruct H as [H ?]).
  unfold blank_ok. split; [exact H|]. split; [apply negb_true_iff; assumption|].
  split; [apply negb_true_iff; assumption|]. split; [apply forallb_Forall; assumption|constructor].
Qed.

Lemma cur_breaks_ok : breaks_ok pre1 a_5 a_6.
Proof.
  pose proof breaks_ok_b as H. repeat (apply andb_true_iff in H; destruct H as [H ?]).
  unfold breaks_ok. split; [apply negb_true_iff; assumption|].
  split; [assumption|]. split; [assumption|]. split; apply forallb_Forall; assumption.
Qed.

(* no rule can tell a whitespace character before the position from a blank *)
Definition look_b (c : N) (s : cset) : bool := Bool.eqb (cmem c s) (cmem 32%N s).

Lemma cur_look_all :
  forallb (fun c => forallb (fun ra : rule => look_forall_b (look_b c) (fst ra)) sql_regex) (10%N :: wb_list) = true.
Proof. vm_compute. reflexivity. Qed.

Lemma cur_look_ok c : In c (10%N :: wb_list) ->
  Forall (fun ra : rule => look_ok (Some c) (Some 32%N) (fst ra)) sql_regex.
Proof.
  intros Hc. pose proof cur_look_all as H. rewrite forallb_forall in H. specialize (H c Hc).
  apply forallb_Forall in H. eapply Forall_impl; [|exact H]. intros ra Hra. cbn beta in Hra.
  apply (look_ok_of_b (Some c) (Some 32%N) (look_b c)); [|exact Hra].
  intros s Hs. unfold look_same, look_b in *. cbn [mem_opt]. destruct (cmem c s), (cmem 32%N s); auto; discriminate.
Qed.

Definition unit_wf (u : wsunit) : Prop := match u with UC c => In c wb_list | _ => True end.

Lemma ulast_in : forall us p, us <> [] -> Forall unit_wf us ->
  exists c, ulast p us = Some c /\ In c (10%N :: wb_list).
Proof.
  induction us as [|u us IH]; intros p Hne H; [congruence|].
  inversion H as [|u0 l Hu Hus]; subst u0 l. cbn [ulast].
  destruct us as [|u2 us2].
  - cbn [ulast]. exists (ulast1 u). split; [reflexivity|].
    destruct u as [c| |]; cbn [ulast1]; [right; exact Hu|left; reflexivity|left; reflexivity].
  - apply IH; [discriminate|exact Hus].
Qed.

(* MAIN (lexer level): a non-empty whitespace run at a token boundary is lexed into one token per
   unit; the remainder of the text is lexed as if a single blank preceded it. *)
Theorem C11_lex_ws_run us p b :
  us <> [] -> Forall unit_wf us ->
  cur_lex_go p (utext us ++ b)
  = match cur_lex_go (Some 32%N) b with
    | Ok ts => Ok (utoks T_Whitespace T_Newline us ++ ts)
    | Err e => Err e
    end.
Proof.
  intros Hne Hwf. unfold cur_lex_go.
  rewrite (lex_ws_run lower upper sql_regex kws pre1 [] post 1 a_5 a_6 a_10 T_Newline T_Whitespace cur_rules_eq).
  - destruct (ulast_in us p Hne Hwf) as (c & E & Hc). rewrite E.
    rewrite (lex_go_prev lower upper sql_regex kws (Some c) (Some 32%N) b (cur_look_ok c Hc)). reflexivity.
  - eapply Forall_impl; [|exact Hwf]. intros [c| |] Hu; cbn [unit_ok unit_wf] in *;
      [apply cur_blank_ok, Hu|apply cur_breaks_ok|apply cur_breaks_ok].
Qed.
Print Assumptions C11_lex_ws_run.

(* the invariance it yields: two runs in the same place give the same tokens after the run and
   one whitespace token per unit in the run *)
Corollary C11_lex_ws_run_inv us us' p p' b :
  us <> [] -> us' <> [] -> Forall unit_wf us -> Forall unit_wf us' ->
  match cur_lex_go p (utext us ++ b), cur_lex_go p' (utext us' ++ b) with
  | Ok l, Ok l' => exists ts, l = utoks T_Whitespace T_Newline us ++ ts
                              /\ l' = utoks T_Whitespace T_Newline us' ++ ts
  | Err e, Err e' => e = e'
  | _, _ => False
  end.
Proof.
  intros H1 H2 H3 H4. rewrite (C11_lex_ws_run us p b H1 H3), (C11_lex_ws_run us' p' b H2 H4).
  destruct (cur_lex_go (Some 32%N) b) as [ts|e]; [exists ts; auto|reflexivity].
Qed.
Print Assumptions C11_lex_ws_run_inv.

(* example: "\t\r\n  select" *)
Example ex_ws_run :
  cur_lex (utext [UC 9; UCRLF; UC 32; UC 32]%N ++ [115; 101; 108; 101; 99; 116]%N)
  = Ok (utoks T_Whitespace T_Newline [UC 9; UCRLF; UC 32; UC 32]%N ++ [(T_DML, [115; 101; 108; 101; 99; 116]%N)]).
Proof. vm_compute. reflexivity. Qed.
