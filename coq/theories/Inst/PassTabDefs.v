(* The 25 passes of Group/Passes.v next to their NAMES, every table taken from the generated
   Gen/PassTab.v: decorators, classes of the _group_matching passes, `recurse=` flags of the _group
   passes, all literals of the ad-hoc passes.  Inst/PassTabOk.v proves
     map snd named_passes = passes      and      map fst named_passes = PassTab.pass_order.
   Definitions only. *)
From Coq Require String.
From SqlModel Require Import Base PyStr Node Passes PassIR.
From SqlModel.Gen Require Import CaseTabs PassTab.

(* a pass built on `_group` / `_group_matching` carries no decorator in grouping.py; if one appears
   the model has no counterpart: the pass is replaced by a failing one and the equation with
   Passes.passes breaks *)
Definition plain (d : pdecor) (f : node -> res node) : node -> res node :=
  match d with
  | NoDecorator => f
  | Recurse _ => fun _ => Err Stuck
  end.

Module Names.
Import String.
Definition named_passes : list (string * (node -> res node)) := [
  ("group_comments"%string,
   decorated pt_group_comments_decor (f_comments_of pt_group_comments_t1 pt_group_comments_cls1));
  ("group_brackets"%string, plain pt_group_brackets_decor (group_matching pt_group_brackets_cls));
  ("group_parenthesis"%string, plain pt_group_parenthesis_decor (group_matching pt_group_parenthesis_cls));
  ("group_case"%string, plain pt_group_case_decor (group_matching pt_group_case_cls));
  ("group_if"%string, plain pt_group_if_decor (group_matching pt_group_if_cls));
  ("group_for"%string, plain pt_group_for_decor (group_matching pt_group_for_cls));
  ("group_begin"%string, plain pt_group_begin_decor (group_matching pt_group_begin_cls));
  ("group_over"%string,
   decorated pt_group_over_decor
             (f_over_of pt_group_over_m1 pt_group_over_i1 pt_group_over_t1 pt_group_over_cls1));
  ("group_functions"%string,
   decorated pt_group_functions_decor
             (f_functions_of pt_group_functions_s1 pt_group_functions_s2 pt_group_functions_s3
                             pt_group_functions_t1 pt_group_functions_isa1 pt_group_functions_isa2
                             pt_group_functions_cls1));
  ("group_where"%string,
   decorated pt_group_where_decor (f_where_of pt_group_where_m1 pt_group_where_m2 pt_group_where_cls1));
  ("group_period"%string, plain pt_group_period_decor (group_drv pt_group_period_recurse p_period));
  ("group_arrays"%string, plain pt_group_arrays_decor (group_drv pt_group_arrays_recurse p_arrays));
  ("group_identifier"%string,
   decorated pt_group_identifier_decor (f_identifier_of pt_group_identifier_t1 pt_group_identifier_cls1));
  ("group_order"%string,
   decorated pt_group_order_decor
             (f_order_of pt_group_order_t1 pt_group_order_i1 pt_group_order_t2 pt_group_order_cls1));
  ("group_typecasts"%string,
   plain pt_group_typecasts_decor (group_drv pt_group_typecasts_recurse p_typecasts));
  ("group_tzcasts"%string, plain pt_group_tzcasts_decor (group_drv pt_group_tzcasts_recurse p_tzcasts));
  ("group_typed_literal"%string,
   plain pt_group_typed_literal_decor
         (fun n => n1 <- group_drv pt_group_typed_literal_c1_recurse p_typed_literal1 n ;;
                   group_drv pt_group_typed_literal_c2_recurse p_typed_literal2 n1));
  ("group_operator"%string, plain pt_group_operator_decor (group_drv pt_group_operator_recurse p_operator));
  ("group_comparison"%string,
   plain pt_group_comparison_decor (group_drv pt_group_comparison_recurse p_comparison));
  ("group_as"%string, plain pt_group_as_decor (group_drv pt_group_as_recurse p_as));
  ("group_aliased"%string,
   decorated pt_group_aliased_decor
             (f_aliased_of pt_group_aliased_i1 pt_group_aliased_t1 pt_group_aliased_isa1
                           pt_group_aliased_cls1 pt_group_aliased_ext1));
  ("group_assignment"%string,
   plain pt_group_assignment_decor (group_drv pt_group_assignment_recurse p_assignment));
  ("align_comments"%string,
   decorated pt_align_comments_decor
             (f_align_comments_of pt_align_comments_i1 pt_align_comments_isa1 pt_align_comments_cls1
                                  pt_align_comments_ext1));
  ("group_identifier_list"%string,
   plain pt_group_identifier_list_decor
         (group_drv pt_group_identifier_list_recurse p_identifier_list));
  ("group_values"%string,
   plain pt_group_values_decor
         (group_values_of pt_group_values_m1 pt_group_values_isa1 pt_group_values_cls1
                          pt_group_values_ext1))
].
End Names.
Definition named_passes : list (String.string * (node -> res node)) := Names.named_passes.

(* the parameter records of the `_group` calls rebuilt from the generated IR *)
Definition gen_typecasts : gparams :=
  gparams_of pt_group_typecasts_cls pt_group_typecasts_match pt_group_typecasts_valid_prev
             pt_group_typecasts_valid_next pt_group_typecasts_post pt_group_typecasts_extend.
Definition gen_tzcasts : gparams :=
  gparams_of pt_group_tzcasts_cls pt_group_tzcasts_match pt_group_tzcasts_valid_prev
             pt_group_tzcasts_valid_next pt_group_tzcasts_post pt_group_tzcasts_extend.
Definition gen_typed_literal1 : gparams :=
  gparams_of pt_group_typed_literal_c1_cls pt_group_typed_literal_c1_match
             pt_group_typed_literal_c1_valid_prev pt_group_typed_literal_c1_valid_next
             pt_group_typed_literal_c1_post pt_group_typed_literal_c1_extend.
Definition gen_typed_literal2 : gparams :=
  gparams_of pt_group_typed_literal_c2_cls pt_group_typed_literal_c2_match
             pt_group_typed_literal_c2_valid_prev pt_group_typed_literal_c2_valid_next
             pt_group_typed_literal_c2_post pt_group_typed_literal_c2_extend.
Definition gen_period : gparams :=
  gparams_of pt_group_period_cls pt_group_period_match pt_group_period_valid_prev
             pt_group_period_valid_next pt_group_period_post pt_group_period_extend.
Definition gen_arrays : gparams :=
  gparams_of pt_group_arrays_cls pt_group_arrays_match pt_group_arrays_valid_prev
             pt_group_arrays_valid_next pt_group_arrays_post pt_group_arrays_extend.
Definition gen_operator : gparams :=
  gparams_of pt_group_operator_cls pt_group_operator_match pt_group_operator_valid_prev
             pt_group_operator_valid_next pt_group_operator_post pt_group_operator_extend.
Definition gen_comparison : gparams :=
  gparams_of pt_group_comparison_cls pt_group_comparison_match pt_group_comparison_valid_prev
             pt_group_comparison_valid_next pt_group_comparison_post pt_group_comparison_extend.
Definition gen_as : gparams :=
  gparams_of pt_group_as_cls pt_group_as_match pt_group_as_valid_prev
             pt_group_as_valid_next pt_group_as_post pt_group_as_extend.
Definition gen_assignment : gparams :=
  gparams_of pt_group_assignment_cls pt_group_assignment_match pt_group_assignment_valid_prev
             pt_group_assignment_valid_next pt_group_assignment_post pt_group_assignment_extend.
Definition gen_identifier_list : gparams :=
  gparams_of pt_group_identifier_list_cls pt_group_identifier_list_match
             pt_group_identifier_list_valid_prev pt_group_identifier_list_valid_next
             pt_group_identifier_list_post pt_group_identifier_list_extend.

(* grouping.group rebuilt ENTIRELY from the generated tables: the callbacks of the `_group` passes are
   the IR evaluators ([gen_X] above) instead of the hand-written records [p_X] of Passes.v.
   Inst/PassTabRun.v proves it extensionally equal to Passes.group. *)
Definition gen_pass_list : list (node -> res node) := [
  decorated pt_group_comments_decor (f_comments_of pt_group_comments_t1 pt_group_comments_cls1);
  plain pt_group_brackets_decor (group_matching pt_group_brackets_cls);
  plain pt_group_parenthesis_decor (group_matching pt_group_parenthesis_cls);
  plain pt_group_case_decor (group_matching pt_group_case_cls);
  plain pt_group_if_decor (group_matching pt_group_if_cls);
  plain pt_group_for_decor (group_matching pt_group_for_cls);
  plain pt_group_begin_decor (group_matching pt_group_begin_cls);
  decorated pt_group_over_decor
            (f_over_of pt_group_over_m1 pt_group_over_i1 pt_group_over_t1 pt_group_over_cls1);
  decorated pt_group_functions_decor
            (f_functions_of pt_group_functions_s1 pt_group_functions_s2 pt_group_functions_s3
                            pt_group_functions_t1 pt_group_functions_isa1 pt_group_functions_isa2
                            pt_group_functions_cls1);
  decorated pt_group_where_decor (f_where_of pt_group_where_m1 pt_group_where_m2 pt_group_where_cls1);
  plain pt_group_period_decor (group_drv pt_group_period_recurse gen_period);
  plain pt_group_arrays_decor (group_drv pt_group_arrays_recurse gen_arrays);
  decorated pt_group_identifier_decor (f_identifier_of pt_group_identifier_t1 pt_group_identifier_cls1);
  decorated pt_group_order_decor
            (f_order_of pt_group_order_t1 pt_group_order_i1 pt_group_order_t2 pt_group_order_cls1);
  plain pt_group_typecasts_decor (group_drv pt_group_typecasts_recurse gen_typecasts);
  plain pt_group_tzcasts_decor (group_drv pt_group_tzcasts_recurse gen_tzcasts);
  plain pt_group_typed_literal_decor
        (fun n => n1 <- group_drv pt_group_typed_literal_c1_recurse gen_typed_literal1 n ;;
                  group_drv pt_group_typed_literal_c2_recurse gen_typed_literal2 n1);
  plain pt_group_operator_decor (group_drv pt_group_operator_recurse gen_operator);
  plain pt_group_comparison_decor (group_drv pt_group_comparison_recurse gen_comparison);
  plain pt_group_as_decor (group_drv pt_group_as_recurse gen_as);
  decorated pt_group_aliased_decor
            (f_aliased_of pt_group_aliased_i1 pt_group_aliased_t1 pt_group_aliased_isa1
                          pt_group_aliased_cls1 pt_group_aliased_ext1);
  plain pt_group_assignment_decor (group_drv pt_group_assignment_recurse gen_assignment);
  decorated pt_align_comments_decor
            (f_align_comments_of pt_align_comments_i1 pt_align_comments_isa1 pt_align_comments_cls1
                                 pt_align_comments_ext1);
  plain pt_group_identifier_list_decor
        (group_drv pt_group_identifier_list_recurse gen_identifier_list);
  plain pt_group_values_decor
        (group_values_of pt_group_values_m1 pt_group_values_isa1 pt_group_values_cls1
                         pt_group_values_ext1)
].
Definition group_gen (n : node) : res node := run_passes gen_pass_list n.
Definition group_gen_upto (k : nat) (n : node) : res node := run_passes (firstn k gen_pass_list) n.

(* two parameter records describe the same `_group` call: same class and flag, callbacks equal on
   every argument.  The callbacks are stated with the three-valued [eval_px]: `Some b` also says
   that the Python expression cannot raise (valid_next receives None at the end of the list). *)
Definition px_is (e : pexpr) (f : option node -> bool) : Prop :=
  forall t, eval_px e t = Some (f t).
Definition px_is_on_tokens (e : pexpr) (f : node -> bool) : Prop :=
  forall n, eval_px e (Some n) = Some (f n).

Definition gparams_eq (p q : gparams) : Prop :=
  g_cls p = g_cls q /\ g_extend p = g_extend q /\
  (forall n, g_match p n = g_match q n) /\
  (forall n, g_vprev p n = g_vprev q n) /\
  (forall o, g_vnext p o = g_vnext q o) /\
  (forall l pi ti ni, g_post p l pi ti ni = g_post q l pi ti ni).

(* one `_group` call of the source tied to a parameter record of Passes.v *)
Definition call_tied (c : cls) (m vp vn : pexpr) (po : ppost) (ext : bool) (p : gparams) : Prop :=
  c = g_cls p /\ ext = g_extend p /\
  px_is_on_tokens m (g_match p) /\
  px_is_on_tokens vp (g_vprev p) /\
  px_is vn (g_vnext p) /\
  (forall l pi ti ni, eval_ppost po l pi ti ni = g_post p l pi ti ni).
