(* C11, lexer, multi-word keywords: a FINITE family (evaluation of the model).  Every multi-word
   keyword of SQL_REGEX whose rule uses \s+ is lexed as ONE token of the rule's type for every
   spelling of its inner whitespace by runs of length 1..2 over {blank, tab, LF, CR LF} (all
   combinations over the gaps), in upper and in lower case.  GO n is the exception (its rule has a
   single \s): C11_go_n_lex_refuted. *)
From SqlModel Require Import Base PyStr Re Lexer.
From SqlModel.Gen Require Import CaseTabs.
From SqlModel.Inst Require Import Cur.
From SqlModel Require Import CaseDefs.

Definition mw_keywords : list (list text * ttype) := [
  ([[76; 69; 70; 84]%N; [74; 79; 73; 78]%N], T_Keyword);
  ([[82; 73; 71; 72; 84]%N; [74; 79; 73; 78]%N], T_Keyword);
  ([[70; 85; 76; 76]%N; [74; 79; 73; 78]%N], T_Keyword);
  ([[73; 78; 78; 69; 82]%N; [74; 79; 73; 78]%N], T_Keyword);
  ([[79; 85; 84; 69; 82]%N; [74; 79; 73; 78]%N], T_Keyword);
  ([[83; 84; 82; 65; 73; 71; 72; 84]%N; [74; 79; 73; 78]%N], T_Keyword);
  ([[76; 69; 70; 84]%N; [79; 85; 84; 69; 82]%N; [74; 79; 73; 78]%N], T_Keyword);
  ([[82; 73; 71; 72; 84]%N; [79; 85; 84; 69; 82]%N; [74; 79; 73; 78]%N], T_Keyword);
  ([[70; 85; 76; 76]%N; [79; 85; 84; 69; 82]%N; [74; 79; 73; 78]%N], T_Keyword);
  ([[76; 69; 70; 84]%N; [73; 78; 78; 69; 82]%N; [74; 79; 73; 78]%N], T_Keyword);
  ([[67; 82; 79; 83; 83]%N; [74; 79; 73; 78]%N], T_Keyword);
  ([[78; 65; 84; 85; 82; 65; 76]%N; [74; 79; 73; 78]%N], T_Keyword);
  ([[69; 78; 68]%N; [73; 70]%N], T_Keyword);
  ([[69; 78; 68]%N; [76; 79; 79; 80]%N], T_Keyword);
  ([[69; 78; 68]%N; [87; 72; 73; 76; 69]%N], T_Keyword);
  ([[78; 79; 84]%N; [78; 85; 76; 76]%N], T_Keyword);
  ([[65; 83; 67]%N; [78; 85; 76; 76; 83]%N; [70; 73; 82; 83; 84]%N], T_Order);
  ([[65; 83; 67]%N; [78; 85; 76; 76; 83]%N; [76; 65; 83; 84]%N], T_Order);
  ([[68; 69; 83; 67]%N; [78; 85; 76; 76; 83]%N; [70; 73; 82; 83; 84]%N], T_Order);
  ([[68; 69; 83; 67]%N; [78; 85; 76; 76; 83]%N; [76; 65; 83; 84]%N], T_Order);
  ([[78; 85; 76; 76; 83]%N; [70; 73; 82; 83; 84]%N], T_Order);
  ([[78; 85; 76; 76; 83]%N; [76; 65; 83; 84]%N], T_Order);
  ([[85; 78; 73; 79; 78]%N; [65; 76; 76]%N], T_Keyword);
  ([[67; 82; 69; 65; 84; 69]%N; [79; 82]%N; [82; 69; 80; 76; 65; 67; 69]%N], T_DDL);
  ([[68; 79; 85; 66; 76; 69]%N; [80; 82; 69; 67; 73; 83; 73; 79; 78]%N], T_Builtin);
  ([[71; 82; 79; 85; 80]%N; [66; 89]%N], T_Keyword);
  ([[79; 82; 68; 69; 82]%N; [66; 89]%N], T_Keyword);
  ([[80; 82; 73; 77; 65; 82; 89]%N; [75; 69; 89]%N], T_Keyword);
  ([[72; 65; 78; 68; 76; 69; 82]%N; [70; 79; 82]%N], T_Keyword);
  ([[76; 65; 84; 69; 82; 65; 76]%N; [86; 73; 69; 87]%N; [69; 88; 80; 76; 79; 68; 69]%N], T_Keyword);
  ([[76; 65; 84; 69; 82; 65; 76]%N; [86; 73; 69; 87]%N; [73; 78; 76; 73; 78; 69]%N], T_Keyword);
  ([[76; 65; 84; 69; 82; 65; 76]%N; [86; 73; 69; 87]%N; [80; 79; 83; 69; 88; 80; 76; 79; 68; 69]%N], T_Keyword);
  ([[76; 65; 84; 69; 82; 65; 76]%N; [86; 73; 69; 87]%N; [83; 84; 65; 67; 75]%N], T_Keyword);
  ([[76; 65; 84; 69; 82; 65; 76]%N; [86; 73; 69; 87]%N; [80; 65; 82; 83; 69; 95; 85; 82; 76; 95; 84; 85; 80; 76; 69]%N], T_Keyword);
  ([[78; 79; 84]%N; [76; 73; 75; 69]%N], T_Comparison);
  ([[78; 79; 84]%N; [73; 76; 73; 75; 69]%N], T_Comparison);
  ([[78; 79; 84]%N; [82; 76; 73; 75; 69]%N], T_Comparison);
  ([[78; 79; 84]%N; [82; 69; 71; 69; 88; 80]%N], T_Comparison);
  ([[65; 84]%N; [84; 73; 77; 69]%N; [90; 79; 78; 69]%N; [39; 117; 116; 99; 39]%N], T_TZCast)
].

Definition ws_units : list text := [[32]; [9]; [10]; [13; 10]]%N.
Definition ws_runs : list text := ws_units ++ flat_map (fun a => map (fun b => a ++ b) ws_units) ws_units.

(* all ways to join the words with one run per gap *)
Fixpoint spellings (ws : list text) : list text :=
  match ws with
  | [] => [[]]
  | [w] => [w]
  | w :: rest => flat_map (fun r => map (fun s => w ++ r ++ s) (spellings rest)) ws_runs
  end.

Definition one_token (ty : ttype) (t : text) : bool :=
  match cur_lex t with
  | Ok [(ty', v)] => ttype_eqb ty ty' && text_eqb v t
  | _ => false
  end.

Definition mw_check (k : list text * ttype) : bool :=
  forallb (fun t => one_token (snd k) t && one_token (snd k) (map ascii_low t)) (spellings (fst k)).

Theorem C11_multiword_fin : forallb mw_check mw_keywords = true.
Proof. vm_compute. reflexivity. Qed.
Print Assumptions C11_multiword_fin.

Definition mw_family_count : N :=
  fold_left (fun n k => (n + 2 * N.of_nat (length (spellings (fst k))))%N) mw_keywords 0%N.
Example mw_family_size : length mw_keywords = 39 /\ length ws_runs = 20 /\ mw_family_count = 28160%N.
Proof. split; [vm_compute; reflexivity|]. split; vm_compute; reflexivity. Qed.
