(* C13, "a call f(a, b, ...) is a Function whose get_parameters() yields the written arguments", for f ranging
   over the WORDS OF THE KEYWORD DICTIONARIES (if, left, replace, date, year, count, ...): the lexer types a word
   directly followed by "(" as a Name unless an earlier dedicated rule takes it.  FINITE family over the regenerated
   dictionaries and rules (bound in the statement): every purely alphabetic dictionary word, lower-cased, in
   `select w(a, b) from t`, through lexer, splitter and all 25 grouping passes, is ONE Function node with text
   `w(a, b)` -- except the words of the pinned list that the rule (CASE|IN|VALUES|USING|FROM|AS)\b keeps keywords.
   A rule that stops further words from being function names (IF, WHERE, WITH, ...) breaks this theorem by name. *)
From SqlModel Require Import Base PyStr Str Node Passes TotalDefs ClauseSpec WordsDefs.
From SqlModel.Gen Require Import CaseTabs KwTabs Rules.
From SqlModel.Inst Require Import Cur WordsCur C13Fin.
From Coq Require Import String.
Open Scope string_scope.
Open Scope list_scope.

Definition is_alpha_word (w : text) : bool :=
  negb (match w with [] => true | _ => false end) && forallb (fun c => (N.leb 65 c && N.leb c 90)%N) w.

(* the words the lexer never lets be a function name (they stay keywords before a parenthesis) *)
Definition never_function : list text := map tx ["AS"; "CASE"; "FROM"; "IN"; "USING"; "VALUES"].

Definition lower_ascii (w : text) : text := map (fun c => if (N.leb 65 c && N.leb c 90)%N then (c + 32)%N else c) w.

Definition fn_word_case (w : text) : text * list text :=
  (tx "select " ++ lower_ascii w ++ tx "(a, b) from t", [lower_ascii w ++ tx "(a, b)"]).

Definition fn_word_ok (w : text) : bool :=
  if existsb (text_eqb w) never_function
  then negb (check function_texts texts_eqb (fn_word_case w))
  else check function_texts texts_eqb (fn_word_case w).

Definition fn_words : list text := filter is_alpha_word (all_words kws).

Theorem C13_fnwords_fin : forallb fn_word_ok (filter is_alpha_word (all_words kws)) = true.
Proof. vm_compute. reflexivity. Qed.

Example fn_words_many : Nat.leb 600 (List.length (filter is_alpha_word (all_words kws))) = true.
Proof. vm_compute. reflexivity. Qed.

Lemma fn_word_member : forall w, In w (all_words kws) -> is_alpha_word w = true ->
  existsb (text_eqb w) never_function = false ->
  check function_texts texts_eqb (fn_word_case w) = true.
Proof.
  intros w Hw Ha Hn. pose proof C13_fnwords_fin as H. rewrite forallb_forall in H.
  specialize (H w (proj2 (filter_In _ _ _) (conj Hw Ha))). unfold fn_word_ok in H. rewrite Hn in H. exact H.
Qed.
Print Assumptions C13_fnwords_fin.
