(* C14: the rules of the CURRENT rule table that can take a quote character into their match, and where such a
   match can start.  All but one are the region rules themselves (comments 0-3, backtick 9, acute 10, dollar 11,
   strings / quoted names 25-27, [bracket] names 28) and start at their opener; the one exception is the TZCast
   rule 44, whose exact shape is pinned: a literal is taken into a Keyword.TZCast token exactly after the words
   AT TIME ZONE (or the misspelt WITH' TIME ZONE) -- finding C14-tzcast-literal. *)
From SqlModel Require Import Base Re Lexer FirstDefs SwallowDefs.
From SqlModel.Gen Require Import Atoms Rules.
From SqlModel.Inst Require Import Cur.

Theorem swallowers_pinned :
  swallow_tab 0 sql_regex
  = [(0, [35; 45]%N); (1, [47]%N); (2, [35; 45]%N); (3, [47]%N); (9, [96]%N); (10, [180]%N); (11, [36]%N);
     (25, [39]%N); (26, [34]%N); (27, [34]%N); (28, [91]%N); (44, [65; 87; 97; 119]%N)]%nat.
Proof. vm_compute. reflexivity. Qed.

(* 44: (AT|WITH')\s+TIME\s+ZONE\s+'[^']+' *)
Theorem pin_tzcast :
  nth_error sql_regex 44
  = Some ((Seq (Group 1 (Alt (Seq (Atom a_29) (Atom a_57)) (Seq (Atom a_62) (Seq (Atom a_31) (Seq (Atom a_57) (Seq (Atom a_58) (Atom a_48))))))) (Seq (Rep true 1 None (Atom a_10)) (Seq (Atom a_57) (Seq (Atom a_31) (Seq (Atom a_40) (Seq (Atom a_30) (Seq (Rep true 1 None (Atom a_10)) (Seq (Atom a_67) (Seq (Atom a_39) (Seq (Atom a_32) (Seq (Atom a_30) (Seq (Rep true 1 None (Atom a_10)) (Seq (Atom a_48) (Seq (Rep true 1 None (Atom a_49)) (Atom a_48))))))))))))))),
          Emit [Keyword; TZCast]).
Proof. reflexivity. Qed.

(* the letters of the pinned rule, as sets: A T / W I T H ' then TIME ZONE and the literal *)
Example tzcast_letters :
  forallb (fun p => cmem (fst p) (snd p))
          [(65, a_29); (97, a_29); (84, a_57); (87, a_62); (73, a_31); (72, a_58); (39, a_48);
           (77, a_40); (69, a_30); (90, a_67); (79, a_39); (78, a_32); (32, a_10); (10, a_10)]%N = true
  /\ cmem 39%N a_49 = false /\ cmem 59%N a_49 = true.
Proof. split; [|split]; vm_compute; reflexivity. Qed.

(* `whatever delimiter or whitespace surrounds it` FAILS after the words AT TIME ZONE: the literal is part of the
   Keyword.TZCast token (x at time zone 'a;b') *)
Definition w_tzcast : text :=
  [120; 32; 97; 116; 32; 116; 105; 109; 101; 32; 122; 111; 110; 101; 32; 39; 97; 59; 98; 39]%N.
Theorem single_quoted_after_tzcast_refuted :
  match cur_lex w_tzcast with
  | Ok toks => existsb (fun tk => ttype_eqb (fst tk) [Literal; String; Single]) toks = false
               /\ existsb (fun tk => ttype_eqb (fst tk) [Keyword; TZCast]
                                     && text_eqb (snd tk) (skipn 2 w_tzcast)) toks = true
  | Err _ => False
  end.
Proof. vm_compute. split; reflexivity. Qed.
(* ... and for a comment opener directly after an operator character: 1+/*c*/2 has no comment token *)
Definition w_op_comment : text := [49; 43; 47; 42; 99; 42; 47; 50]%N.
Theorem comment_after_operator_refuted :
  match cur_lex w_op_comment with
  | Ok toks => existsb (fun tk => tin (fst tk) [Comment]) toks = false
               /\ existsb (fun tk => ttype_eqb (fst tk) [Operator] && text_eqb (snd tk) [43; 47]%N) toks = true
  | Err _ => False
  end.
Proof. vm_compute. split; reflexivity. Qed.
Print Assumptions comment_after_operator_refuted.
Print Assumptions swallowers_pinned.
Print Assumptions pin_tzcast.
Print Assumptions single_quoted_after_tzcast_refuted.
