(* C14: the rules of the CURRENT rule table that can take a quote character into their match, and where such a
   match can start.  All but one are the region rules themselves (comments 0-3, backtick 9, acute 10, dollar 11,
   strings / quoted names 25-27, [bracket] names 28) and start at their opener; the one exception is the TZCast
   rule 44, whose exact shape is pinned: a literal is taken into a Keyword.TZCast token exactly after the words
   AT TIME ZONE (or the misspelt WITH' TIME ZONE) -- finding C14-tzcast-literal. *)
From SqlModel Require Import Base Re Lexer FirstDefs SwallowDefs.
From SqlModel.Gen Require Import Atoms Rules.
From SqlModel.Inst Require Import Cur.

Theorem swallowers_pinned :
  swallow_tab 0 sql_regex
  = [(0, [35; 45]%N); (1, [47]%N); (2, [35; 45]%N); (3, [47]%N); (9, [96]%N); (10, [180]%N); (11, [36]%N);
     (25, [39]%N); (26, [34]%N); (27, [34]%N); (28, [91]%N); (44, [65; 87; 97; 119]%N)]%nat.
Proof. vm_compute. reflexivity. Qed.

(* 44: (AT|WITH')\s+TIME\s+ZONE\s+'[^']+' *)
Theorem pin_tzcast :
  nth_error sql_regex 44
  = Some ((Seq (Group 1 (Alt (Seq (Atom a_29) (Atom a_57)) (Seq (Atom a_62) (Seq (Atom a_31) (Seq (Atom a_57) (Seq (Atom a_58) (Atom a_48))))))) (Seq (Rep true 1 None (Atom a_10)) (Seq (Atom a_57) (Seq (Atom a_31) (Seq (Atom a_40) (Seq (Atom a_30) (Seq (Rep true 1 None (Atom a_10)) (Seq (Atom a_67) (Seq (Atom a_39) (Seq (Atom a_32) (Seq (Atom a_30) (Seq (Rep true 1 None (Atom a_10)) (Seq (Atom a_48) (Seq (Rep true 1 None (Atom a_49)) (Atom a_48))))))))))))))),
          Emit [Keyword; TZCast]).
Proof. reflexivity. Qed.

(* the letters of the pinned rule, as sets: A T / W I T H ' then TIME ZONE and the literal *)
Example tzcast_letters :
  forallb (fun p => cmem (fst p) (snd p))
          [(65, a_29); (97, a_29); (84, a_57); (87, a_62); (73, a_31); (72, a_58); (39, a_48);
           (77, a_40); (69, a_30); (90, a_67); (79, a_39); (78, a_32); (32, a_10); (10, a_10)]%N = true
  /\ cmem 39%N a_49 = false /\ cmem 59%N a_49 = true.
Proof. split; [|split]; vm_compute; reflexivity. Qed.

(* `whatever delimiter or whitespace surrounds it` FAILS after the words AT TIME ZONE: the literal is part of the
   Keyword.TZCast token (x at time zone 'a;b') *)
Definition w_tzcast : text :=
  [120; 32; 97; 116; 32; 116; 105; 109; 101; 32; 122; 111; 110; 101; 32; 39; 97; 59; 98; 39]%N.
Theorem single_quoted_after_tzcast_refuted :
  match cur_lex w_tzcast with
  | Ok toks => existsb (fun tk => ttype_eqb (fst tk) [Literal; String; Single]) toks = false
               /\ existsb (fun tk => ttype_eqb (fst tk) [Keyword; TZCast]
                                     && text_eqb (snd tk) (skipn 2 w_tzcast)) toks = true
  | Err _ => False
  end.
Proof. vm_compute. split; reflexivity. Qed.
(* ... and for a comment opener directly after an operator character: 1+/*c*/2 has no comment token *)
Definition w_op_comment : text := [49; 43; 47; 42; 99; 42; 47; 50]%N.
Theorem comment_after_operator_refuted :
  match cur_lex w_op_comment with
  | Ok toks => existsb (fun tk => tin (fst tk) [Comment]) toks = false
               /\ existsb (fun tk => ttype_eqb (fst tk) [Operator] && text_eqb (snd tk) [43; 47]%N) toks = true
  | Err _ => False
  end.
Proof. vm_compute. split; reflexivity. Qed.
Print Assumptions comment_after_operator_refuted.
Print Assumptions swallowers_pinned.
Print Assumptions pin_tzcast.
Print Assumptions single_quoted_after_tzcast_refuted.

(* ---- from ANY text: a token whose value contains a single quote ----------------------------------------- *)
From SqlModel Require Import LexFacts SwallowFacts.
From SqlModel.Gen Require Import CaseTabs KwTabs.
From SqlModel.Inst Require C01.

Definition quote_actions : list action := map snd (filter (fun ra => consumes 39%N (fst ra)) sql_regex).
Definition action_eqb (a b : action) : bool :=
  match a, b with
  | Emit x, Emit y => ttype_eqb x y
  | AsKeyword, AsKeyword => true
  | _, _ => false
  end.

(* the rules that can consume a single quote all emit a fixed token type: the comment types, Name (backtick / acute /
   [bracket] names), Literal (dollar quoted), String.Single, String.Symbol and Keyword.TZCast *)
Lemma quote_actions_pinned :
  quote_actions
  = [Emit [Comment; Single; Hint]; Emit [Comment; Multiline; Hint]; Emit [Comment; Single]; Emit [Comment; Multiline];
     Emit [Name]; Emit [Name]; Emit [Literal]; Emit [Literal; String; Single]; Emit [Literal; String; Symbol];
     Emit [Literal; String; Symbol]; Emit [Name]; Emit [Keyword; TZCast]].
Proof. vm_compute. reflexivity. Qed.

Definition quote_types : list ttype :=
  [[Error]; [Comment; Single; Hint]; [Comment; Multiline; Hint]; [Comment; Single]; [Comment; Multiline]; [Name];
   [Literal]; [Literal; String; Single]; [Literal; String; Symbol]; [Keyword; TZCast]].

(* EVERY text: a token that contains a single quote is an Error character, a comment, a quoted name, a dollar-quoted
   or quoted literal, or the TZCast keyword -- never a keyword of another kind, an operator, a number, punctuation,
   whitespace or an unquoted name (the generic word rule is AsKeyword and cannot consume a quote) *)
Theorem quote_token_types : forall t toks tk,
  cur_lex t = Ok toks -> In tk toks -> In 39%N (snd tk) -> existsb (ttype_eqb (fst tk)) quote_types = true.
Proof.
  intros t toks tk E Hin Hq.
  destruct (lex_total_lossless lower upper sql_regex kws C01.cur_rules_wide t) as (toks' & E' & _ & _ & S).
  unfold cur_lex in E. rewrite E in E'. injection E' as <-.
  pose proof (LexSpec_consumers lower 39%N upper sql_regex kws None t toks S) as HF.
  rewrite Forall_forall in HF. destruct (HF tk Hin Hq) as [-> | (r & a & Hr & Hc & Etk)]; [reflexivity|].
  assert (Ha : In a quote_actions).
  { unfold quote_actions. apply in_map_iff. exists (r, a). split; [reflexivity|].
    apply filter_In. split; [exact Hr | exact Hc]. }
  rewrite quote_actions_pinned in Ha. rewrite Etk.
  cbn [In] in Ha.
  repeat (destruct Ha as [<- | Ha]; [reflexivity|]). contradiction.
Qed.
Print Assumptions quote_token_types.
