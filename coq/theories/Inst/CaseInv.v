(* Instance of Regex/RelInv.v + Lexer/LexRel.v for the ASCII letter-case relation [Rcase] over the
   regenerated tables: changing the case of ASCII letters in a text changes neither the token
   boundaries nor the token types of its lexing, only the spelling.
   The three table-dependent obligations are discharged by vm_compute. *)
From SqlModel Require Import Base PyStr Re MinWidth Lexer LexFacts CaseDefs RelInv LexRel CaseRel.
From SqlModel.Gen Require Import Atoms CaseTabs KwTabs Rules.
From SqlModel.Inst Require Import Cur C01.

(* ---- obligations over the generated tables ------------------------------------------------ *)
(* every character set of every rule contains both spellings of an ASCII letter or neither *)
Lemma cur_rules_case_closed_b : forallb (fun ra => re_case_closed_b (fst ra)) sql_regex = true.
Proof. vm_compute. reflexivity. Qed.

(* _sre.unicode_tolower identifies A-Z with a-z *)
Lemma cur_lower_case_ok_b : lower_case_ok_b lower = true.
Proof. vm_compute. reflexivity. Qed.

(* str.upper() identifies A-Z with a-z *)
Lemma cur_upper_case_ok_b : upper_case_ok_b upper_tab = true.
Proof. vm_compute. reflexivity. Qed.

(* ---- the hypotheses of the generic theorems ------------------------------------------------ *)
Lemma cur_Rcase_lower a b : Rcase a b -> lower a = lower b.
Proof. exact (lower_case_ok_b_sound lower cur_lower_case_ok_b a b). Qed.

Lemma cur_Rcase_upper t t' : Forall2 Rcase t t' -> upper t = upper t'.
Proof. exact (upper_case_ok_b_sound upper_tab cur_upper_case_ok_b t t'). Qed.

Lemma cur_rules_case_closed : Forall (fun ra => re_closed Rcase (fst ra)) sql_regex.
Proof. exact (rules_case_closed_sound sql_regex cur_rules_case_closed_b). Qed.

(* ---- results ------------------------------------------------------------------------------- *)
(* each single rule, at case-related positions: same outcome, same width *)
Theorem C_rmatch_case i x x' : st_rel Rcase x x' -> cur_rmatch i x = cur_rmatch i x'.
Proof.
  intros Hx. unfold cur_rmatch.
  destruct (nth_error sql_regex i) as [[r a]|] eqn:E; [|reflexivity].
  apply (rmatch_rel lower Rcase cur_Rcase_lower r x x'); [|exact Hx].
  pose proof cur_rules_case_closed as H. rewrite Forall_forall in H.
  exact (H (r, a) (nth_error_In _ _ E)).
Qed.
Print Assumptions C_rmatch_case.

(* the rule selected and the match width *)
Theorem C_first_match_case x x' : st_rel Rcase x x' -> cur_first_match x = cur_first_match x'.
Proof.
  exact (first_match_rel lower Rcase cur_Rcase_lower sql_regex x x' cur_rules_case_closed).
Qed.
Print Assumptions C_first_match_case.

(* the whole lexer *)
Theorem C_lex_case : forall t t', Forall2 Rcase t t' ->
  match cur_lex t, cur_lex t' with
  | Ok ts, Ok ts' => Forall2 (fun a b => fst a = fst b /\ Forall2 Rcase (snd a) (snd b)) ts ts'
  | Err e, Err e' => e = e'
  | _, _ => False
  end.
Proof.
  exact (lex_rel lower upper sql_regex kws Rcase cur_Rcase_lower cur_Rcase_upper
                 cur_rules_case_closed).
Qed.
Print Assumptions C_lex_case.

(* with totality (C01): both texts lex, to streams of the same types and token lengths *)
Theorem C_lex_case_types : forall t t', Forall2 Rcase t t' ->
  exists ts ts',
    cur_lex t = Ok ts /\ cur_lex t' = Ok ts'
    /\ Forall2 (fun a b => fst a = fst b /\ Forall2 Rcase (snd a) (snd b)) ts ts'
    /\ map fst ts = map fst ts'
    /\ map (fun tk => length (snd tk)) ts = map (fun tk => length (snd tk)) ts'.
Proof.
  intros t t' Ht.
  destruct (lex_total_lossless lower upper sql_regex kws cur_rules_wide t) as (ts & E & _).
  destruct (lex_rel_ok lower upper sql_regex kws Rcase cur_Rcase_lower cur_Rcase_upper
                       cur_rules_case_closed t t' ts Ht E) as (ts' & E' & H1 & H2 & H3).
  exists ts, ts'. repeat split; assumption.
Qed.
Print Assumptions C_lex_case_types.

(* the forms the case filters need: any per-character ASCII case conversion of the text *)
Corollary C_lex_case_map (f : N -> N) : (forall a, Rcase a (f a)) -> forall t,
  exists ts ts',
    cur_lex t = Ok ts /\ cur_lex (map f t) = Ok ts' /\ map fst ts = map fst ts'
    /\ map (fun tk => length (snd tk)) ts = map (fun tk => length (snd tk)) ts'.
Proof.
  intros Hf t.
  destruct (C_lex_case_types t (map f t) (Forall2_Rcase_map f t Hf))
    as (ts & ts' & E & E' & _ & H2 & H3).
  exists ts, ts'. auto.
Qed.
Print Assumptions C_lex_case_map.

(* a text lexed as ONE token of type [ty] is, in any ASCII re-casing, one token of type [ty]
   (for: every dictionary word in any letter case is one token of the table's type) *)
Corollary C_lex_case_single w w' ty :
  Forall2 Rcase w w' -> cur_lex w = Ok [(ty, w)] -> cur_lex w' = Ok [(ty, w')].
Proof.
  intros Hw E. pose proof (C_lex_case w w' Hw) as H. rewrite E in H.
  destruct (lex_total_lossless lower upper sql_regex kws cur_rules_wide w')
    as (ts' & E' & Hcat & _).
  fold (cur_lex w') in E'. rewrite E' in H. rewrite E'.
  destruct ts' as [|[ty' v'] l']; [inversion H|].
  assert (H2 : (fst (ty, w) = fst (ty', v') /\ Forall2 Rcase (snd (ty, w)) (snd (ty', v')))
               /\ Forall2 (fun a b : tok => fst a = fst b /\ Forall2 Rcase (snd a) (snd b)) [] l')
    by (inversion H; auto).
  destruct H2 as [[Hty _] Hnil].
  destruct l' as [|b l']; [|inversion Hnil].
  cbn [map concat snd fst] in Hcat, Hty. rewrite app_nil_r in Hcat.
  rewrite <- Hty, Hcat. reflexivity.
Qed.
Print Assumptions C_lex_case_single.

(* ---- examples ------------------------------------------------------------------------------ *)
Definition ex_q : text :=    (* select * from Foo where x like 'A%' *)
  [115; 101; 108; 101; 99; 116; 32; 42; 32; 102; 114; 111; 109; 32; 70; 111; 111; 32; 119; 104;
   101; 114; 101; 32; 120; 32; 108; 105; 107; 101; 32; 39; 65; 37; 39]%N.
Definition ex_q_upper : text :=    (* SELECT * FROM FOO WHERE X LIKE 'A%' *)
  [83; 69; 76; 69; 67; 84; 32; 42; 32; 70; 82; 79; 77; 32; 70; 79; 79; 32; 87; 72; 69; 82; 69;
   32; 88; 32; 76; 73; 75; 69; 32; 39; 65; 37; 39]%N.
Definition ex_q_lower : text :=    (* select * from foo where x like 'a%' *)
  [115; 101; 108; 101; 99; 116; 32; 42; 32; 102; 114; 111; 109; 32; 102; 111; 111; 32; 119; 104;
   101; 114; 101; 32; 120; 32; 108; 105; 107; 101; 32; 39; 97; 37; 39]%N.
Definition ex_q_mixed : text :=    (* sElEcT * FrOm fOo wHeRe x lIkE 'a%' *)
  [115; 69; 108; 69; 99; 84; 32; 42; 32; 70; 114; 79; 109; 32; 102; 79; 111; 32; 119; 72; 101;
   82; 101; 32; 120; 32; 108; 73; 107; 69; 32; 39; 97; 37; 39]%N.

Definition types_of (m : res (list tok)) : res (list ttype) := toks <- m ;; Ok (map fst toks).

Example ex_q_types :
  types_of (cur_lex ex_q)
  = Ok [T_DML; T_Whitespace; T_Wildcard; T_Whitespace; T_Keyword; T_Whitespace; T_Name;
        T_Whitespace; T_Keyword; T_Whitespace; T_Name; T_Whitespace; T_Comparison; T_Whitespace;
        T_Single].
Proof. vm_compute. reflexivity. Qed.

Example ex_q_upper_types : types_of (cur_lex ex_q_upper) = types_of (cur_lex ex_q).
Proof. vm_compute. reflexivity. Qed.
Example ex_q_lower_types : types_of (cur_lex ex_q_lower) = types_of (cur_lex ex_q).
Proof. vm_compute. reflexivity. Qed.
Example ex_q_mixed_types : types_of (cur_lex ex_q_mixed) = types_of (cur_lex ex_q).
Proof. vm_compute. reflexivity. Qed.
Example ex_q_maps :
  map ascii_up ex_q = ex_q_upper /\ map ascii_low ex_q = ex_q_lower.
Proof. vm_compute. auto. Qed.

(* the hypotheses of the theorems are satisfiable on these inputs *)
Example ex_q_related :
  Forall2 Rcase ex_q ex_q_upper /\ Forall2 Rcase ex_q ex_q_lower /\ Forall2 Rcase ex_q ex_q_mixed.
Proof. repeat split; apply text_Rcase_b_sound; vm_compute; reflexivity. Qed.

(* rule 16, (CASE|IN|VALUES|USING|FROM|AS)\b, on "FrOm " and "from " after a space *)
Example ex_rmatch_case :
  st_rel Rcase (mkSt (Some 32%N) [70; 114; 79; 109; 32]%N) (mkSt (Some 32%N) [102; 114; 111; 109; 32]%N)
  /\ cur_rmatch 16 (mkSt (Some 32%N) [70; 114; 79; 109; 32]%N) = Some 4
  /\ cur_rmatch 16 (mkSt (Some 32%N) [102; 114; 111; 109; 32]%N) = Some 4.
Proof.
  split; [split; [left; reflexivity | apply text_Rcase_b_sound; vm_compute; reflexivity]|].
  vm_compute. auto.
Qed.

(* The relation is ASCII-only on purpose.  The regex engine's own case folding (IGNORECASE:
   [lower a = lower b]) is NOT a lexing invariance, because the keyword dictionaries are consulted
   through str.upper(): "Key" is a keyword, but spelled with U+212A KELVIN SIGN (folded to "k" by
   the regex engine, left alone by str.upper()) it is a Name.  With U+017F LONG S, which
   str.upper() does map to "S", "select" stays a DML keyword. *)
Theorem C_lex_fold_refuted :
  exists t t', Forall2 (fun a b => lower a = lower b) t t'
               /\ types_of (cur_lex t) = Ok [T_Keyword] /\ types_of (cur_lex t') = Ok [T_Name].
Proof.
  exists [75; 101; 121]%N, [8490; 101; 121]%N.
  split; [repeat constructor|]; vm_compute; auto.
Qed.

Print Assumptions C_lex_fold_refuted.

Example ex_long_s :
  types_of (cur_lex [383; 101; 108; 101; 99; 116]%N) = Ok [T_DML].
Proof. vm_compute. reflexivity. Qed.

(* "SeLeCt" is one DML token because "select" is *)
Example ex_single :
  cur_lex [83; 101; 76; 101; 67; 116]%N = Ok [(T_DML, [83; 101; 76; 101; 67; 116]%N)].
Proof.
  apply (C_lex_case_single [115; 101; 108; 101; 99; 116]%N).
  - apply text_Rcase_b_sound. vm_compute. reflexivity.
  - vm_compute. reflexivity.
Qed.
