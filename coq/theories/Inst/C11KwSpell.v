(* C11, grouping and parse(): the SPELLING of keyword tokens -- ASCII letter case AND the white space inside
   compound keywords (ORDER BY, GROUP BY, UNION ALL, END IF, END LOOP, LEFT OUTER JOIN, NOT NULL, CREATE OR REPLACE...)
   -- is invisible to the splitter, to all 25 grouping passes and to get_type().  UNBOUNDED, no guard.
   Possible since the `fix:` commit in /repo that makes Token.normalized and the splitter's `unified` collapse the
   white space inside compound keywords: the passes read a keyword leaf only through Token.normalized / Token.match
   (knorm) or compare value.upper() with a word that contains no white space (group_functions: CREATE, TABLE, AS).
   The generic development is Group/CaseRelFacts.v (hypothesis HRl); this file is its second instance:
     WR v v'  :=  collapse (upper v) = collapse (upper v')        (keyword leaves; all other leaves are EQUAL)
     WRg      :=  cached group values answer every comparison `value.upper() == <word without white space>` alike. *)
From SqlModel Require Import Base PyStr Re Lexer SplitDefs Splitter SplitFacts Node Inv Passes PassIR.
From SqlModel Require Import Skeleton SkeletonFacts CaseRelDefs CaseRelFacts Accessors.
From SqlModel.Gen Require Import CaseTabs PassTab SplitTab.
From SqlModel.Inst Require Import Cur PassTabDefs PassTabOk PassTabRun C11GroupDefs C11Group.
From Coq Require Import Bool Lia.

Definition WR (v v' : text) : Prop := collapse (upper v) = collapse (upper v').
Definition WRg (v v' : text) : Prop :=
  forall s, nospace s = true -> text_eqb (upper v) s = text_eqb (upper v') s.
Definition wrel : node -> node -> Prop := crelG WR WRg.
Definition tok_wrel : tok -> tok -> Prop := tok_relG WR.

Lemma nospace_has_space s : nospace s = true -> has_space s = false.
Proof. unfold nospace, has_space. intros H. apply negb_true_iff in H. exact H. Qed.

Lemma WR_rl v v' : WR v v' ->
  knorm v = knorm v' /\ (forall s, nospace s = true -> text_eqb (upper v) s = text_eqb (upper v') s).
Proof.
  unfold WR. intros H. split.
  - unfold knorm. apply join_split_collapse, H.
  - intros s Hs. apply (eqb_collapse _ _ s H), nospace_has_space, Hs.
Qed.

(* ---- cached values of groups: concatenations of related leaves -------------------------------------- *)
Lemma has_space_app a b : has_space (a ++ b) = has_space a || has_space b.
Proof. unfold has_space. apply existsb_app. Qed.

Lemma collapse_eq_nospace a b : collapse a = collapse b -> has_space a = false -> a = b.
Proof.
  unfold collapse. intros H Ha. destruct (has_space b) eqn:Hb.
  - apply collapse_space in Hb. rewrite <- H, (collapse_nospace _ _ Ha) in Hb. congruence.
  - rewrite (collapse_nospace _ _ Ha), (collapse_nospace _ _ Hb) in H. exact H.
Qed.

Lemma upper_app' a b : upper (a ++ b) = upper a ++ upper b.
Proof. unfold upper, py_upper. apply flat_map_app. Qed.

Definition seg_w (w w' : text) : Prop := collapse (upper w) = collapse (upper w').

Lemma concat_upper_nospace : forall ws ws', Forall2 seg_w ws ws' ->
  has_space (upper (concat ws)) = false -> upper (concat ws) = upper (concat ws').
Proof.
  induction 1 as [|w w' ws ws' Hw _ IH]; intros Hs; [reflexivity|].
  cbn [concat] in *. rewrite !upper_app' in *. rewrite has_space_app in Hs.
  apply orb_false_iff in Hs. destruct Hs as [H1 H2].
  rewrite (collapse_eq_nospace _ _ Hw H1), (IH H2). reflexivity.
Qed.

Lemma seg_w_sym ws ws' : Forall2 seg_w ws ws' -> Forall2 seg_w ws' ws.
Proof. induction 1; constructor; [symmetry; assumption | assumption]. Qed.

Lemma concat_WRg ws ws' : Forall2 seg_w ws ws' -> WRg (concat ws) (concat ws').
Proof.
  intros H s Hs. apply nospace_has_space in Hs.
  destruct (text_eqb (upper (concat ws)) s) eqn:E1.
  - apply text_eqb_eq in E1. symmetry. apply text_eqb_eq.
    rewrite <- (concat_upper_nospace ws ws' H); [exact E1 | rewrite E1; exact Hs].
  - destruct (text_eqb (upper (concat ws')) s) eqn:E2; [|reflexivity].
    apply text_eqb_eq in E2.
    assert (E3 : upper (concat ws') = upper (concat ws)).
    { apply (concat_upper_nospace ws' ws (seg_w_sym _ _ H)). rewrite E2. exact Hs. }
    rewrite <- E3, E2 in E1. rewrite (proj2 (text_eqb_eq s s) eq_refl) in E1. discriminate.
Qed.

Lemma toks_seg_w ls ls' : Forall2 (tok_relG WR) ls ls' -> Forall2 seg_w (map snd ls) (map snd ls').
Proof.
  induction 1 as [|a b ls ls' [_ Hv] _ IH]; cbn [map]; constructor; [|exact IH].
  unfold seg_w. destruct (tin (fst a) T_Keyword); [exact Hv | rewrite Hv; reflexivity].
Qed.

Lemma Hmk_wrel : forall k k', Forall2 wrel k k' -> WRg (text_of_list k) (text_of_list k').
Proof.
  intros k k' H. rewrite !text_of_list_leaves, !flat_map_concat_map.
  apply concat_WRg, toks_seg_w. apply (leaves_list_rel WR WRg), H.
Qed.

(* ---- group_functions: CREATE / TABLE / AS contain no white space --------------------------------------- *)
Lemma nvalue_ue n n' s : wrel n n' -> nospace s = true ->
  text_eqb (upper (nvalue n)) s = text_eqb (upper (nvalue n')) s.
Proof.
  intros [ty v v' Hv | c v v' k k' Hv Hk] Hs; cbn [nvalue]; [|apply Hv, Hs].
  destruct (tin ty T_Keyword); [apply (proj2 (WR_rl _ _ Hv)), Hs | rewrite Hv; reflexivity].
Qed.

Lemma fn_guard_wrel : fn_guard WR WRg.
Proof.
  split; [|split]; intros n n' H; cbv beta; apply nvalue_ue; try exact H; vm_compute; reflexivity.
Qed.

Lemma wrel_refl n : wrel n n.
Proof. apply crelG_refl; [intros v; reflexivity | intros v s _; reflexivity]. Qed.

(* ================================================================================================ *)
(* all 25 passes                                                                                      *)
Theorem group_wrel : forall n n', wrel n n' -> rres wrel (group n) (group n').
Proof. exact (group_prel WR WRg WR_rl Hmk_wrel fn_guard_wrel). Qed.

Theorem group_upto_wrel k : forall n n', wrel n n' -> rres wrel (group_upto k n) (group_upto k n').
Proof. exact (group_upto_prel WR WRg WR_rl Hmk_wrel k fn_guard_wrel). Qed.

Theorem get_type_wrel : forall n n', wrel n n' -> get_type n = get_type n'.
Proof. exact (get_type_rel WR WRg WR_rl). Qed.

(* ================================================================================================ *)
(* the splitter, token by token; parse()                                                              *)
Lemma tok_wrel_skel a b : tok_wrel a b -> tok_skel a b.
Proof.
  intros [Hty Hv]. split; [exact Hty|]. unfold is_kw_tok.
  destruct (tin (fst a) T_Keyword) eqn:K; [|exact Hv].
  destruct (guard_free a b Hty Hv) as [E G]. split; [exact Hv|]. split; [exact E | intros _; exact G].
Qed.

Theorem split_pointwise_wrel : forall l l',
  Forall2 tok_wrel l l' -> Forall2 (Forall2 tok_wrel) (cur_process l) (cur_process l').
Proof. apply process_rel. exact tok_wrel_skel. Qed.

Lemma statement_of_wrel s s' : Forall2 tok_wrel s s' -> wrel (statement_of s) (statement_of s').
Proof. intros H. apply (statement_of_rel WR WRg Hmk_wrel). exact H. Qed.

Theorem parse_wrel k : forall t t' l l',
  cur_lex t = Ok l -> cur_lex t' = Ok l' -> Forall2 tok_wrel l l' ->
  rres (Forall2 wrel) (cur_parse_upto k t) (cur_parse_upto k t').
Proof.
  intros t t' l l' E E' H. unfold cur_parse_upto, cur_split_stream. rewrite E, E'. cbn [bind].
  apply (mapM_rel2 (Forall2 tok_wrel) wrel).
  - intros s s' Hs. apply group_upto_wrel, statement_of_wrel, Hs.
  - apply split_pointwise_wrel, H.
Qed.

Theorem C11_parse_kwspell : forall t t' l l',
  cur_lex t = Ok l -> cur_lex t' = Ok l' -> Forall2 tok_wrel l l' ->
  forall ss, cur_parse t = Ok ss ->
  exists ss', cur_parse t' = Ok ss' /\ Forall2 wrel ss ss' /\
              Forall2 (fun s s' => get_type s = get_type s') ss ss'.
Proof.
  intros t t' l l' E E' H ss Ep. change (cur_parse t) with (cur_parse_upto 25 t) in Ep.
  destruct (rres_ok_l _ _ _ _ (parse_wrel 25 t t' l l' E E' H) Ep) as (ss' & Ep' & Hs).
  exists ss'. change (cur_parse t') with (cur_parse_upto 25 t'). split; [exact Ep'|].
  split; [exact Hs|]. eapply Forall2_mono; [|exact Hs]. intros s s' Hss. apply get_type_wrel, Hss.
Qed.

Theorem C11_parse_kwspell_err : forall t t' l l',
  cur_lex t = Ok l -> cur_lex t' = Ok l' -> Forall2 tok_wrel l l' ->
  forall e, cur_parse t = Err e -> cur_parse t' = Err e.
Proof.
  intros t t' l l' E E' H e Ep. change (cur_parse t) with (cur_parse_upto 25 t) in Ep.
  change (cur_parse t') with (cur_parse_upto 25 t').
  exact (rres_err_l _ _ _ _ (parse_wrel 25 t t' l l' E E' H) Ep).
Qed.

(* ================================================================================================ *)
(* the relation is decidable; a witness: where x=1 ORDER<2 blanks>BY a  vs  order<LF>by, union<TAB>all,
   create<2 blanks>or<LF>replace ...                                                                 *)
Definition wrb (v v' : text) : bool := text_eqb (collapse (upper v)) (collapse (upper v')).
Definition tok_wrelb (a b : tok) : bool :=
  ttype_eqb (fst a) (fst b) && (if tin (fst a) T_Keyword then wrb (snd a) (snd b) else text_eqb (snd a) (snd b)).
Lemma tok_wrelb_sound a b : tok_wrelb a b = true -> tok_wrel a b.
Proof.
  unfold tok_wrelb, tok_wrel, tok_relG. intros H. apply andb_true_iff in H. destruct H as [Hty Hv].
  apply ttype_eqb_eq in Hty. split; [exact Hty|].
  destruct (tin (fst a) T_Keyword); apply text_eqb_eq, Hv.
Qed.

From Coq Require Import String.
From SqlModel Require Str.
Definition ex_ws_a : text := Str.tx "create or replace view v as select a from t where x = 1 order by a union all select 2; begin if x then y end if end"%string.
Definition ex_ws_b : text := Str.tx "CREATE  or
 Replace view v as select a from t where x = 1 ORDER  	BY a union
ALL select 2; begin if x then y END
  If end"%string.

Example ex_ws_lex :
  match cur_lex ex_ws_a, cur_lex ex_ws_b with
  | Ok l, Ok l' => forall2b tok_wrelb l l' && negb (forall2b (fun a b => text_eqb (snd a) (snd b)) l l')
  | _, _ => false
  end = true.
Proof. vm_compute. reflexivity. Qed.

Example ex_ws_parse :
  match cur_parse ex_ws_a, cur_parse ex_ws_b with
  | Ok ss, Ok ss' =>
      Nat.eqb (List.length ss) 2 && forall2b (fun m m' => cskel_eqb (cskel_of m) (cskel_of m')) ss ss'
      && forallb (fun c => existsb (cls_eqb c) (flat_map classes_of ss)) [CWhere; CIf; CBegin; CComparison]
      && text_eqb (match ss' with s :: _ => match get_type s with Ok t => t | Err _ => [] end | [] => [] end)
                  (Str.tx "CREATE OR REPLACE"%string)
  | _, _ => false
  end = true.
Proof. vm_compute. reflexivity. Qed.

Print Assumptions group_wrel.
Print Assumptions split_pointwise_wrel.
Print Assumptions parse_wrel.
Print Assumptions C11_parse_kwspell.
