(* C13, the finite pipeline families (Inst/C13Fin.v) LIFTED by the relational invariance of C11 (Inst/C11WsVal.v): for every
   text of a family -- where the expected clause extents are known by construction and checked by evaluation -- and EVERY
   text whose token stream is related to it token by token (keyword tokens re-cased or their inner white space re-spelled,
   white-space tokens carrying any white-space value, everything else equal), the parse tree of the second text is
   related to the tree of the first: the clause nodes of each class correspond one to one, with the same structure. *)
From SqlModel Require Import Base PyStr Str Node Inv Passes CaseRelDefs WsRelDefs WsRelFacts.
From SqlModel.Inst Require Import Cur C13Fin C11WsVal.

Lemma Forall2_flat_map_w {A B C D} (P : A -> B -> Prop) (Q : C -> D -> Prop) f g l l' :
  Forall2 P l l' -> (forall a b, In a l -> P a b -> Forall2 Q (f a) (g b)) -> Forall2 Q (flat_map f l) (flat_map g l').
Proof.
  induction 1 as [|a b l l' Hab _ IH]; intros Hf; cbn [flat_map]; [constructor|].
  apply Forall2_app; [apply Hf; [left; reflexivity | exact Hab] | apply IH; intros x y Hx; apply Hf; right; exact Hx].
Qed.

Lemma nodes_of_rel c : forall n n', wsrel n n' -> Forall2 wsrel (nodes_of c n) (nodes_of c n').
Proof.
  induction n as [ty v | c0 v kids IH] using node_ind'; intros n' H.
  - inversion H; subst. constructor.
  - pose proof H as H0. inversion H as [|c1 v1 v' k1 kids' Hv Hk]; subst. cbn [nodes_of].
    apply Forall2_app.
    + destruct (cls_eqb c0 c); [constructor; [exact H0 | constructor] | constructor].
    + apply (Forall2_flat_map_w wsrel wsrel _ _ kids kids' Hk). intros a b Ha Hab.
      exact (proj1 (Forall_forall _ _) IH a Ha b Hab).
Qed.

Theorem C13_family_respelled {A} (obs : node -> A) (eq : A -> A -> bool) (case : text * A) :
  check obs eq case = true ->
  forall t l0 l, cur_lex (fst case) = Ok l0 -> cur_lex t = Ok l -> Forall2 tok_wsrel l0 l ->
  exists n0 n, parse1 (fst case) = Some n0 /\ parse1 t = Some n /\ eq (obs n0) (snd case) = true
               /\ wsrel n0 n /\ forall c, Forall2 wsrel (nodes_of c n0) (nodes_of c n).
Proof.
  unfold check, parse1. intros Hc t l0 l E0 E H.
  destruct (cur_parse (fst case)) as [[|n0 [|x r]]|e] eqn:Ep; try discriminate.
  destruct (C11_parse_wsval (fst case) t l0 l E0 E H [n0] Ep) as (ss' & Ep' & Hs & _).
  inversion Hs as [|a b r r' Hab Hr]; subst. inversion Hr; subst.
  exists n0, b. rewrite Ep'. repeat split; try assumption. intros c. apply nodes_of_rel, Hab.
Qed.
Print Assumptions C13_family_respelled.

(* the five families *)
Theorem C13_where_respelled : forall nst c f, In c conditions -> In f followers ->
  forall t l0 l, cur_lex (fst (where_case nst c f)) = Ok l0 -> cur_lex t = Ok l -> Forall2 tok_wsrel l0 l ->
  exists n0 n, parse1 (fst (where_case nst c f)) = Some n0 /\ parse1 t = Some n
               /\ texts_eqb (where_texts n0) (snd (where_case nst c f)) = true
               /\ Forall2 wsrel (nodes_of CWhere n0) (nodes_of CWhere n).
Proof.
  intros nst c f Hc Hf t l0 l E0 E H.
  destruct (C13_family_respelled where_texts texts_eqb _ (C13_where_fin nst c f Hc Hf) t l0 l E0 E H)
    as (n0 & n & P0 & P & Q & _ & Hn).
  exists n0, n. repeat split; try assumption. apply Hn.
Qed.

Theorem C13_typed_respelled : forall case, In case typed_family ->
  forall t l0 l, cur_lex (fst case) = Ok l0 -> cur_lex t = Ok l -> Forall2 tok_wsrel l0 l ->
  exists n0 n, parse1 (fst case) = Some n0 /\ parse1 t = Some n /\ texts_eqb (typed_texts n0) (snd case) = true
               /\ Forall2 wsrel (nodes_of CTypedLiteral n0) (nodes_of CTypedLiteral n).
Proof.
  intros case Hin t l0 l E0 E H.
  pose proof (proj1 (forallb_forall _ _) C13_typed_fin case Hin) as Hc.
  destruct (C13_family_respelled typed_texts texts_eqb case Hc t l0 l E0 E H) as (n0 & n & P0 & P & Q & _ & Hn).
  exists n0, n. repeat split; try assumption. apply Hn.
Qed.

Theorem C13_function_respelled : forall case, In case function_family ->
  forall t l0 l, cur_lex (fst case) = Ok l0 -> cur_lex t = Ok l -> Forall2 tok_wsrel l0 l ->
  exists n0 n, parse1 (fst case) = Some n0 /\ parse1 t = Some n /\ lists_eqb (function_parts n0) (snd case) = true
               /\ Forall2 wsrel (nodes_of CFunction n0) (nodes_of CFunction n).
Proof.
  intros case Hin t l0 l E0 E H.
  pose proof (proj1 (forallb_forall _ _) C13_function_fin case Hin) as Hc.
  destruct (C13_family_respelled function_parts lists_eqb case Hc t l0 l E0 E H) as (n0 & n & P0 & P & Q & _ & Hn).
  exists n0, n. repeat split; try assumption. apply Hn.
Qed.

Theorem C13_idlist_respelled : forall sep case, In sep seps -> In case (idlist_family sep) ->
  forall t l0 l, cur_lex (fst case) = Ok l0 -> cur_lex t = Ok l -> Forall2 tok_wsrel l0 l ->
  exists n0 n, parse1 (fst case) = Some n0 /\ parse1 t = Some n /\ lists_eqb (idlist_items n0) (snd case) = true
               /\ Forall2 wsrel (nodes_of CIdentifierList n0) (nodes_of CIdentifierList n).
Proof.
  intros sep case Hs Hin t l0 l E0 E H.
  pose proof (proj1 (forallb_forall _ _) (proj1 (forallb_forall _ _) C13_idlist_fin sep Hs) case Hin) as Hc.
  destruct (C13_family_respelled idlist_items lists_eqb case Hc t l0 l E0 E H) as (n0 & n & P0 & P & Q & _ & Hn).
  exists n0, n. repeat split; try assumption. apply Hn.
Qed.

Theorem C13_comparison_respelled : forall op case, In op operators -> In case (cmp_family op) ->
  forall t l0 l, cur_lex (fst case) = Ok l0 -> cur_lex t = Ok l -> Forall2 tok_wsrel l0 l ->
  exists n0 n, parse1 (fst case) = Some n0 /\ parse1 t = Some n
               /\ list_eqb pair_eqb (cmp_ends n0) (snd case) = true
               /\ Forall2 wsrel (nodes_of CComparison n0) (nodes_of CComparison n).
Proof.
  intros op case Ho Hin t l0 l E0 E H.
  pose proof (proj1 (forallb_forall _ _) (proj1 (forallb_forall _ _) C13_comparison_fin op Ho) case Hin) as Hc.
  destruct (C13_family_respelled cmp_ends (list_eqb pair_eqb) case Hc t l0 l E0 E H) as (n0 & n & P0 & P & Q & _ & Hn).
  exists n0, n. repeat split; try assumption. apply Hn.
Qed.
Print Assumptions C13_where_respelled.
