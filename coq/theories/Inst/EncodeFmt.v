(* The kernel route (tools/kernel_corr.py, see Inst/Encode.v) for the formatting models: the final string of
   sqlparse.format under four option sets, evaluated by vm_compute inside coqc and compared with the implementation. *)
From SqlModel Require Import Base PyStr Node.
From SqlModel.Filters Require Import Format Reindent ReindentInst AlignedInst.
From SqlModel.Inst Require Import Encode.
From Coq Require Import ZArith.

Definition k_text (r : res text) : list N := enc_res (fun s : text => len s :: s) r.

(* reindent=True with every sub-option at its default *)
Definition k_dflt_ropts : ropts :=
  {| o_width := 2%Z; o_tab := false; o_wrap := 0%Z; o_comma_first := false; o_after_first := false;
     o_columns := false; o_compact := false |}.

Definition k_fmt_sw (t : text) : list N := k_text (format_sw t).                     (* strip_whitespace=True *)
Definition k_fmt_sp (t : text) : list N := k_text (format_sp t).                     (* use_space_around_operators=True *)
Definition k_fmt_ri (t : text) : list N := k_text (cur_reindent k_dflt_ropts t).     (* reindent=True *)
Definition k_fmt_al (t : text) : list N := k_text (cur_aligned t).                   (* reindent_aligned=True *)
