(* C14, "a word in no dictionary is a Name", over the regenerated tables: every plain ASCII
   identifier (unbounded length, any letter case) that no dictionary lists and no dedicated rule
   matches completely is lexed, in every context of the family [Ctx], as ONE Name token. *)
From SqlModel Require Import Base PyStr Re MinWidth RepFacts Lexer LexFacts FirstDefs First CaseDefs
     RelInv LexRel CaseRel WordsDefs NameWordsDefs NameWords Regions.
From SqlModel.Gen Require Import Atoms CaseTabs KwTabs Rules.
From SqlModel.Inst Require Import Cur C01 CaseInv WordsCur.

(* ---- the closed obligations -------------------------------------------------------------------- *)
Definition cur_P : list (option N) := map last_opt lefts.
Definition cur_excl (u : text) : bool :=
  match cur_dedicated_type u with Some _ => true | None => false end.
Definition cur_depth : nat := 12.

Lemma cur_name_obligations :
  name_obligations lower sql_regex cur_P rights up_starts up_alphabet cur_excl cur_depth = true.
Proof. vm_compute. reflexivity. Qed.

Lemma cur_lefts_ok : forallb (left_ok sql_regex) lefts = true.
Proof. vm_compute. reflexivity. Qed.

(* 45 of the 47 earlier rules are refuted by the prefix search, 2 (rules 18 and 20) by shape *)
Example cur_rule_partition :
  length (D_tree sql_regex) = 45 /\ length (filter is_star (D_all sql_regex)) = 2.
Proof. vm_compute. auto. Qed.

(* ---- identifiers and the upper-case alphabet -------------------------------------------------- *)
Lemma in_digits a : (48 <= a <= 57)%N -> In a digits.
Proof.
  intros H. unfold digits. apply in_map_iff. exists (N.to_nat (a - 48)). split.
  - rewrite N2Nat.id. lia.
  - apply in_seq. lia.
Qed.

Lemma ident_start_up c : ident_start c = true -> In (ascii_up c) up_starts.
Proof.
  unfold ident_start, ascii_letter, ascii_up, up_starts, up_letters. intros H. apply in_or_app.
  destruct (N.leb_spec 65 c), (N.leb_spec c 90), (N.leb_spec 97 c), (N.leb_spec c 122),
           (N.eqb_spec c 95); cbn [andb orb] in *;
    first [ discriminate | left; apply in_letters; lia | right; left; lia ].
Qed.

Lemma ident_char_up c : ident_char c = true -> In (ascii_up c) up_alphabet.
Proof.
  unfold ident_char, ascii_letter, ascii_digit, ascii_up, up_alphabet, up_letters. intros H.
  destruct (N.leb_spec 65 c), (N.leb_spec c 90), (N.leb_spec 97 c), (N.leb_spec c 122),
           (N.leb_spec 48 c), (N.leb_spec c 57), (N.eqb_spec c 95); cbn [andb orb] in *;
    first [ discriminate
          | apply in_or_app; left; apply in_letters; lia
          | apply in_or_app; right; apply in_or_app; left; apply in_digits; lia
          | apply in_or_app; right; apply in_or_app; right; left; lia ].
Qed.

Lemma plain_ident_up s :
  plain_ident s = true ->
  exists c0 s1, map ascii_up s = c0 :: s1 /\ In c0 up_starts
                /\ Forall (fun c => In c up_alphabet) s1.
Proof.
  destruct s as [|c s']; cbn [plain_ident]; [discriminate|]. intros H.
  apply andb_true_iff in H. destruct H as [H1 H2].
  exists (ascii_up c), (map ascii_up s'). split; [reflexivity|]. split; [apply ident_start_up; exact H1|].
  rewrite forallb_forall in H2. apply Forall_forall. intros x Hx.
  apply in_map_iff in Hx. destruct Hx as (y & <- & Hy). apply ident_char_up. apply H2. exact Hy.
Qed.

(* ---- the dedicated rules do not see the letter case ------------------------------------------- *)
Lemma full_match_case r w w' :
  re_closed Rcase r -> Forall2 Rcase w w' -> full_match lower r w = full_match lower r w'.
Proof.
  intros Hr Hw. unfold full_match.
  rewrite (rmatch_rel lower Rcase cur_Rcase_lower r (mkSt None w) (mkSt None w') Hr)
    by (split; [exact I | exact Hw]).
  rewrite (Forall2_len _ _ _ Hw). reflexivity.
Qed.

Lemma dedicated_in_case rs w w' :
  Forall (fun ra => re_closed Rcase (fst ra)) rs -> Forall2 Rcase w w' ->
  dedicated_in lower rs w = dedicated_in lower rs w'.
Proof.
  intros Hrs Hw. induction Hrs as [|[r a] rs Hr _ IH]; cbn [dedicated_in]; [reflexivity|].
  destruct a as [ty|]; [|exact IH]. cbn [fst] in Hr.
  rewrite (full_match_case r w w' Hr Hw), IH. reflexivity.
Qed.

Lemma cur_dedicated_type_case w w' :
  Forall2 Rcase w w' -> cur_dedicated_type w = cur_dedicated_type w'.
Proof.
  intros Hw. unfold cur_dedicated_type, dedicated_type. apply dedicated_in_case; [|exact Hw].
  apply Forall_forall. intros ra Hin. apply before_askw_incl in Hin.
  pose proof cur_rules_case_closed as H. rewrite Forall_forall in H. apply H. exact Hin.
Qed.

(* ---- the rule selected at an identifier -------------------------------------------------------- *)
Theorem ident_selects_word_rule s p rt :
  plain_ident s = true -> cur_dedicated_type s = None -> In p cur_P -> In rt rights ->
  cur_first_match (mkSt p (s ++ rt)) = Some (AsKeyword, length s).
Proof.
  intros Hs Hd Hp Hrt.
  assert (Hrel : st_rel Rcase (mkSt p (s ++ rt)) (mkSt p (map ascii_up s ++ rt))).
  { split; cbn [prev rest].
    - destruct p; [apply Rcase_refl | exact I].
    - apply Forall2_app; [apply Forall2_Rcase_up | apply Forall2_Rcase_refl]. }
  rewrite (C_first_match_case _ _ Hrel).
  destruct (plain_ident_up s Hs) as (c0 & s1 & E & Hc0 & Hs1).
  assert (Hlen : length s = length (c0 :: s1)) by (rewrite <- E, map_length; reflexivity).
  rewrite Hlen, E. unfold cur_first_match.
  apply (ident_first_match lower sql_regex cur_P rights up_starts up_alphabet cur_excl cur_depth
                           cur_name_obligations); try assumption.
  unfold cur_excl. rewrite <- E, <- (cur_dedicated_type_case s _ (Forall2_Rcase_up s)), Hd.
  reflexivity.
Qed.
Print Assumptions ident_selects_word_rule.

(* ---- in the scan loop --------------------------------------------------------------------------- *)
Lemma cur_lex_go_total p t : exists ts, cur_lex_go p 0 t = Ok ts.
Proof.
  destruct (lex_go_spec lower upper sql_regex kws cur_rules_wide t p 0) as (ts & E & _); [lia|].
  exists ts. exact E.
Qed.

Lemma ident_nonempty s : plain_ident s = true -> s <> [].
Proof. destruct s; [discriminate | discriminate]. Qed.

Lemma ident_lexed s p rt :
  plain_ident s = true -> cur_dedicated_type s = None -> In p cur_P -> In rt rights ->
  exists ts, cur_lex_go p 0 (s ++ rt) = Ok ((kw_lookup (upper s) kws, s) :: ts).
Proof.
  intros Hs Hd Hp Hrt.
  pose proof (ident_selects_word_rule s p rt Hs Hd Hp Hrt) as Hm.
  rewrite (lex_go_emit upper sql_regex kws p s rt AsKeyword (ident_nonempty s Hs) Hm).
  destruct (cur_lex_go_total (push_prev p s) rt) as (ts & E). rewrite E.
  exists ts. reflexivity.
Qed.

Lemma in_Ctx c : In c Ctx -> In (fst c) lefts /\ In (snd c) rights.
Proof.
  unfold Ctx. intros H. apply in_flat_map in H. destruct H as (l & Hl & H).
  apply in_map_iff in H. destruct H as (r & <- & Hr). auto.
Qed.

Theorem C14_nonwords_are_names : forall s,
  plain_ident s = true -> kw_lookup (upper s) kws = T_Name -> cur_dedicated_type s = None ->
  forall c, In c Ctx ->
  exists ts, cur_lex (fst c ++ s ++ snd c) = Ok ts
             /\ nth_error ts (cur_ntoks_left c) = Some (T_Name, s).
Proof.
  intros s Hs Hk Hd [l rt] Hc. apply in_Ctx in Hc. cbn [fst snd] in *. destruct Hc as [Hl Hrt].
  assert (Hp : In (last_opt l) cur_P) by (unfold cur_P; apply in_map; exact Hl).
  pose proof cur_lefts_ok as Hlo. rewrite forallb_forall in Hlo. specialize (Hlo l Hl).
  destruct l as [|ch [|ch2 l']]; cbn [left_ok] in Hlo; [| |discriminate].
  - (* no left context *)
    destruct (ident_lexed s None rt Hs Hd Hp Hrt) as (ts & E).
    exists ((kw_lookup (upper s) kws, s) :: ts). cbn [app]. split; [exact E|].
    rewrite Hk. reflexivity.
  - (* one character, a token of its own *)
    destruct (a_first_match sql_regex (mkSt None [ch])) as [[[ty|] [|[|k]]]|] eqn:Ea;
      try discriminate.
    assert (Hfm : forall T, first_match lower sql_regex (mkSt None ([ch] ++ T)) = Some (Emit ty, 1)).
    { intros T. exact (a_first_match_sound lower sql_regex (mkSt None [ch]) T _ _ Ea). }
    assert (Hne : [ch] <> []) by discriminate.
    change (last_opt [ch]) with (Some ch) in Hp.
    destruct (ident_lexed s (Some ch) rt Hs Hd Hp Hrt) as (ts & E).
    exists ((ty, [ch]) :: (kw_lookup (upper s) kws, s) :: ts). split.
    + unfold cur_lex, lex.
      rewrite (lex_go_emit upper sql_regex kws None [ch] (s ++ rt) (Emit ty) Hne (Hfm _)).
      change (push_prev None [ch]) with (Some ch). rewrite E. reflexivity.
    + assert (En : cur_ntoks_left ([ch], rt) = 1).
      { unfold cur_ntoks_left, ntoks_left, lexf, lex. cbn [fst].
        pose proof (lex_go_emit upper sql_regex kws None [ch] [] (Emit ty) Hne (Hfm _)) as E1.
        cbn [app] in E1. rewrite E1. reflexivity. }
      rewrite En, Hk. reflexivity.
Qed.
Print Assumptions C14_nonwords_are_names.

(* the whole statement for a bare identifier *)
Corollary C14_nonword_alone : forall s,
  plain_ident s = true -> kw_lookup (upper s) kws = T_Name -> cur_dedicated_type s = None ->
  cur_lex s = Ok [(T_Name, s)].
Proof.
  intros s Hs Hk Hd.
  assert (Hp : In None cur_P) by (left; reflexivity).
  assert (Hrt : In [] rights) by (left; reflexivity).
  pose proof (ident_selects_word_rule s None [] Hs Hd Hp Hrt) as Hm.
  unfold cur_lex, lex. rewrite <- (app_nil_r s) at 1.
  rewrite (lex_go_emit upper sql_regex kws None s [] AsKeyword (ident_nonempty s Hs) Hm).
  cbn [Lexer.lex_go mk_tok]. rewrite Hk. reflexivity.
Qed.
Print Assumptions C14_nonword_alone.

(* ---- examples ------------------------------------------------------------------------------------ *)
(* "Foo_1" after "(" and before "\n)" *)
Example C14_nonwords_ex :
  exists ts, cur_lex ([40] ++ [70; 111; 111; 95; 49] ++ [10; 41])%N = Ok ts
             /\ nth_error ts 1 = Some (T_Name, [70; 111; 111; 95; 49]%N).
Proof.
  apply (C14_nonwords_are_names [70; 111; 111; 95; 49]%N) with (c := ([40]%N, [10; 41]%N)).
  - reflexivity.
  - vm_compute. reflexivity.
  - vm_compute. reflexivity.
  - vm_compute. do 27 right. left. reflexivity.
Qed.

(* identifiers that START like dedicated keywords are covered too: "ENDX", "CREATED", "NOTX" *)
Example C14_nonwords_prefix_ex :
  cur_lex [69; 78; 68; 88]%N = Ok [(T_Name, [69; 78; 68; 88]%N)]
  /\ cur_lex [110; 111; 116; 120]%N = Ok [(T_Name, [110; 111; 116; 120]%N)].
Proof.
  split; apply C14_nonword_alone; vm_compute; reflexivity.
Qed.

(* the hypothesis on the dedicated rules is needed: ASC and DESC are in no dictionary, yet they are
   Keyword.Order by rule 33 *)
Theorem C14_nonwords_dedicated_refuted :
  exists s, plain_ident s = true /\ kw_lookup (upper s) kws = T_Name
            /\ cur_lex s = Ok [(T_Order, s)].
Proof. exists [65; 83; 67]%N. vm_compute. auto. Qed.

(* outside the class [plain_ident]: a non-ASCII letter is a word character for the regex engine as
   well ("\u00e91" is one Name), and so is a leading digit when a letter follows ("1x" is one Name,
   the number rules refusing a number glued to a letter) *)
Example C14_nonwords_class :
  cur_lex [233; 49]%N = Ok [(T_Name, [233; 49]%N)]
  /\ cur_lex [49; 120]%N = Ok [(T_Name, [49; 120]%N)].
Proof. vm_compute. auto. Qed.
