(* C15 - obligations over the call graph regenerated from /repo (Gen/CallGraph.v), and the budget
   model instantiated with the current lexer / splitter tables. *)
From Coq Require Import List String NArith Arith Bool Lia.
From SqlModel Require Import Base PyStr Node Passes Budget BudgetFacts.
From SqlModel.Gen Require Import CallGraph.
From SqlModel.Inst Require Import Cur.
Import ListNotations.

(* ---- the generated data ------------------------------------------------------------------------ *)
(* every call site through which an entry point can reach a recursive function is under the guard
   of FilterStack.run, or works on data that cannot be a deep tree *)
Lemma C15_callgraph : forallb inside_guard_or_shallow reach = true.
Proof. vm_compute. reflexivity. Qed.

(* the translator found the guard in the shape the classification relies on *)
Lemma C15_guard_shape : guard_shape_checked = true.
Proof. reflexivity. Qed.

(* grouping stores no lazily evaluated generator into the trees parse()/parsestream() return *)
Lemma C15_no_lazy_generators : lazy_generators_stored_by_grouping = [].
Proof. reflexivity. Qed.

Lemma C15_reach_known : forallb (reach_known recursive_functions) reach = true.
Proof. vm_compute. reflexivity. Qed.

(* only parse / parsestream hand possibly deep trees back to the caller *)
Lemma C15_returned : forallb returns_deep_only_parse returned = true.
Proof. vm_compute. reflexivity. Qed.

Definition is_inside (s : site) : bool := match s_pos s with InsideGuard => true | OutsideGuard => false end.

(* each API entry point goes through FilterStack.run; cli.main delegates to format *)
Lemma C15_entries_guarded :
  forallb (fun e => existsb (fun s => entry_eqb (s_entry s) e && is_inside s) reach
                    || existsb (fun d => entry_eqb (fst d) e
                                         && existsb (fun s => entry_eqb (s_entry s) (snd d) && is_inside s) reach)
                               delegates)
          (map fst entry_points) = true.
Proof. vm_compute. reflexivity. Qed.

Lemma C15_entry_list : map fst entry_points = [EParse; EParsestream; ESplit; EFormat; ECliMain].
Proof. reflexivity. Qed.

(* what split() evaluates outside the guard on run()'s output works on ungrouped statements *)
Definition split_outside_sites : list site :=
  filter (fun s => entry_eqb (s_entry s) ESplit && negb (is_inside s)
                   && match s_reach s with [] => false | _ => true end) reach.

Lemma C15_split_sites :
  split_outside_sites <> [] /\
  forallb (fun s => match s_arg s with KFlatStmt => true | _ => false end) split_outside_sites = true.
Proof. split; [vm_compute; discriminate | vm_compute; reflexivity]. Qed.

(* the directly tree-recursive functions the translator must have found *)
Definition has_recfun (name : string) : bool :=
  existsb (fun r => String.eqb (rf_name r) name && rf_direct r) recursive_functions.

Lemma C15_known_recursions :
  forallb has_recfun ["sql.py:TokenList.flatten"; "sql.py:TokenList._pprint_tree";
                      "engine/grouping.py:_group"; "engine/grouping.py:_group_matching";
                      "utils.py:recurse.<locals>.wrap.<locals>.wrapped_f";
                      "filters/others.py:StripCommentsFilter.process";
                      "filters/others.py:StripWhitespaceFilter.process";
                      "filters/others.py:SpacesAroundOperatorsFilter.process"]%string = true.
Proof. vm_compute. reflexivity. Qed.

(* the only state that outlives a call is the Lexer singleton *)
Lemma C15_persistent_state_known :
  forallb (fun s => existsb (String.eqb s) ["lexer.py:Lexer.get_default_instance cls._default_instance"]%string)
          persistent_state_attrs = true.
Proof. vm_compute. reflexivity. Qed.

(* "a later call still works", statically: no persistent attribute is assigned before a statement of
   the same block that can still raise (the value would stay published half-initialised) *)
Definition later_call_unaffected : bool :=
  match persistent_state_published_early with [] => true | _ :: _ => false end.

(* on the current tree nothing is published early: a call that fails (RecursionError turned into
   SQLParseError, or anything else) cannot leave a half-initialised Lexer singleton behind.
   (On the tree before the commit "publish the default lexer only after it is fully initialised"
   this list was [lexer.py:Lexer.get_default_instance:54 cls._default_instance] and the head-room
   probes of tools/props/C15.py showed every later call lexing each character as Token.Error.) *)
Lemma C15_published_late : persistent_state_published_early = [].
Proof. reflexivity. Qed.

(* ---- the budget model over the current tables --------------------------------------------------- *)
Definition cur_parse_budget (L : nat) (t : text) : res (list node) := parse_budget cur_lex cur_process L t.
Definition cur_split_budget (L : nat) (t : text) : res (list text) := split_budget cur_lex cur_process L t.
Definition cur_split_model (t : text) : res (list text) := split_model cur_lex cur_process t.
Definition cur_format_budget (grouping : bool) (filters : list (node -> res node)) (ser : text -> text)
           (L : nat) (t : text) : res text := format_budget cur_lex cur_process grouping filters ser L t.
Definition cur_format_model (grouping : bool) (filters : list (node -> res node)) (ser : text -> text)
           (t : text) : res text := format_model cur_lex cur_process grouping filters ser t.

Lemma cur_parse_model t : parse_model cur_lex cur_process t = cur_parse t.
Proof.
  unfold parse_model, run_model, cur_parse, cur_split_stream.
  destruct (cur_lex t) as [toks|e]; reflexivity.
Qed.

(* depths of the statements parse() returns (for the depth correspondence with the implementation) *)
Definition cur_depths (t : text) : res (list nat) := stmts <- cur_parse t ;; Ok (map depth stmts).

(* "((((((1))))))": succeeds with enough frames, SQLParseError with few, and split() -- whose
   statements stay flat -- succeeds with the same few frames *)
Definition deep6 : text := [40; 40; 40; 40; 40; 40; 49; 41; 41; 41; 41; 41; 41]%N.

Example deep6_depth : cur_depths deep6 = Ok [7].
Proof. vm_compute. reflexivity. Qed.

Example deep6_parse_enough : exists v, cur_parse_budget 20 deep6 = Ok v /\ cur_parse deep6 = Ok v.
Proof. eexists. split; vm_compute; reflexivity. Qed.

Example deep6_parse_few : cur_parse_budget 12 deep6 = Err SQLParseError.
Proof. vm_compute. reflexivity. Qed.

Example deep6_split_few : cur_split_budget 12 deep6 = Ok [deep6].
Proof. vm_compute. reflexivity. Qed.

Example deep6_format_few :
  cur_format_budget true [] (fun s => s) 12 deep6 = Err SQLParseError
  /\ cur_format_budget false [] (fun s => s) 12 deep6 = Ok deep6.
Proof. split; vm_compute; reflexivity. Qed.
