(* Facts about the composed front end  lex -> split -> group  over the current tables. *)
From SqlModel Require Import Base PyStr Re MinWidth Lexer LexFacts SplitDefs Splitter SplitFacts
     Node Inv Passes GroupFacts.
From SqlModel.Gen Require Import CaseTabs KwTabs Rules SplitTab.
From SqlModel.Inst Require Import Cur C01.

Lemma mapM_spec {A B} (f : A -> res B) l l' :
  mapM f l = Ok l' -> Forall2 (fun x y => f x = Ok y) l l'.
Proof.
  revert l'; induction l as [|x l IH]; intros l' H; simpl in H.
  - injection H as <-. constructor.
  - destruct (f x) as [y|] eqn:E; [|discriminate]. simpl in H.
    destruct (mapM f l) as [r|] eqn:E2; [|discriminate]. simpl in H. injection H as <-.
    constructor; auto.
Qed.

Lemma cur_lex_lossless t :
  exists toks, cur_lex t = Ok toks /\ concat (map snd toks) = t
               /\ Forall (fun tk => snd tk <> []) toks.
Proof.
  destruct (lex_total_lossless lower upper sql_regex kws cur_rules_wide t) as (toks & E & C & F & _).
  exists toks. auto.
Qed.

Lemma concat_map_flat_map {A B} (f : A -> list B) l : concat (map f l) = flat_map f l.
Proof. induction l; simpl; congruence. Qed.

(* parse(): the statements are the groupings of the splitter's statements *)
Lemma cur_parse_upto_inv k t stmts :
  cur_parse_upto k t = Ok stmts ->
  exists toks, cur_lex t = Ok toks
    /\ Forall2 (fun s n => group_upto k (statement_of s) = Ok n) (cur_process toks) stmts.
Proof.
  unfold cur_parse_upto, cur_split_stream. destruct (cur_lex t) as [toks|] eqn:E; [|discriminate].
  simpl. intros H. exists toks. split; [reflexivity|]. apply mapM_spec in H. exact H.
Qed.

Lemma cur_parse_inv t stmts :
  cur_parse t = Ok stmts ->
  exists toks, cur_lex t = Ok toks
    /\ Forall2 (fun s n => group (statement_of s) = Ok n) (cur_process toks) stmts.
Proof.
  unfold cur_parse, cur_split_stream. destruct (cur_lex t) as [toks|] eqn:E; [|discriminate].
  simpl. intros H. exists toks. split; [reflexivity|]. apply mapM_spec in H. exact H.
Qed.

Lemma grouped_leaves ss stmts :
  Forall2 (fun s n => group (statement_of s) = Ok n) ss stmts ->
  lsim (concat ss) (flat_map leaves stmts) /\ Forall cached_ok stmts.
Proof.
  induction 1 as [|s n ss stmts Hg _ [IH1 IH2]]; [split; constructor|].
  apply group_good in Hg. destruct Hg as [Hs Hc]. unfold nsim in Hs. rewrite statement_leaves in Hs.
  split.
  - cbn [concat flat_map]. apply lsim_app; assumption.
  - constructor; [apply Hc, statement_cached | assumption].
Qed.
