(* Python str methods used by sqlparse, as total functions on code-point lists.
   The tables they consult are generated from the running interpreter (Gen/CaseTabs.v). *)
From SqlModel Require Import Base.

(* str.upper(): context-free, possibly multi-character images *)
Definition py_upper (m : umap) (t : text) : text :=
  flat_map (fun c => match ufind c m with Some v => v | None => [c] end) t.

(* simple (one-to-one) lower-casing used by the regex engine for back-references *)
Definition simple_lower (m : umap) (c : N) : N :=
  match ufind c m with Some (d :: _) => d | _ => c end.

(* str.strip()/rstrip()/lstrip() with no argument: characters for which str.isspace() holds *)
Fixpoint lstrip (sp : cset) (t : text) : text :=
  match t with
  | c :: t' => if cmem c sp then lstrip sp t' else t
  | [] => []
  end.

Definition rstrip (sp : cset) (t : text) : text := rev (lstrip sp (rev t)).
Definition strip (sp : cset) (t : text) : text := rstrip sp (lstrip sp t).

Definition all_space (sp : cset) (t : text) : bool := forallb (fun c => cmem c sp) t.

(* every maximal run of str.isspace() characters becomes one blank *)
Fixpoint collapse_go (sp : cset) (in_run : bool) (t : text) : text :=
  match t with
  | [] => []
  | c :: t' =>
      if cmem c sp
      then (if in_run then collapse_go sp true t' else 32%N :: collapse_go sp true t')
      else c :: collapse_go sp false t'
  end.
(* ' '.join(t.split()): leading and trailing white space dropped, every inner run one blank.
   One left-to-right pass: before the first word / inside a word / in the gap after a word. *)
Inductive js_state := JsStart | JsWord | JsGap.
Fixpoint js_go (sp : cset) (st : js_state) (t : text) : text :=
  match t with
  | [] => []
  | c :: t' =>
      if cmem c sp
      then js_go sp (match st with JsStart => JsStart | _ => JsGap end) t'
      else match st with
           | JsGap => 32%N :: c :: js_go sp JsWord t'
           | _ => c :: js_go sp JsWord t'
           end
  end.
Definition join_split (sp : cset) (t : text) : text := js_go sp JsStart t.
