(* Base definitions shared by the whole model: code points, texts, character sets,
   the result monad with Python's exception classes, token types. *)
From Coq Require Export List NArith Bool Arith Lia.
Export ListNotations.

(* A Python str is a sequence of code points 0 .. 0x10FFFF (lone surrogates included). *)
Notation text := (list N) (only parsing).

(* ---- character sets: decision tree over interval pivots ---------------------------------- *)
Inductive cset := CLeaf (b : bool) | CNode (pivot : N) (l r : cset).

Fixpoint cmem (c : N) (s : cset) : bool :=
  match s with
  | CLeaf b => b
  | CNode p l r => if N.ltb c p then cmem c l else cmem c r
  end.

(* ---- code point -> code points map (upper-casing, simple lower) --------------------------- *)
Inductive umap := ULeaf | UNode (l : umap) (k : N) (v : list N) (r : umap).

Fixpoint ufind (c : N) (m : umap) : option (list N) :=
  match m with
  | ULeaf => None
  | UNode l k v r =>
      match N.compare c k with
      | Eq => Some v
      | Lt => ufind c l
      | Gt => ufind c r
      end
  end.

(* every stored entry satisfies P *)
Fixpoint uforall (P : N -> list N -> bool) (m : umap) : bool :=
  match m with
  | ULeaf => true
  | UNode l k v r => P k v && uforall P l && uforall P r
  end.


(* ---- Python exceptions the model can exhibit ------------------------------------------- *)
Inductive exn :=
| IndexError | ValueError | AttributeError | TypeError | StopIteration
| UnicodeDecodeError | RecursionError | SQLParseError | NotImplementedError | LookupError
| Stuck (* the model does not cover this situation (never equals an implementation outcome) *).

Inductive res (A : Type) := Ok (a : A) | Err (e : exn).
Arguments Ok {A} a.
Arguments Err {A} e.

Definition bind {A B} (m : res A) (f : A -> res B) : res B :=
  match m with Ok a => f a | Err e => Err e end.

Notation "x <- m ;; k" := (bind m (fun x => k)) (at level 61, m at next level, right associativity).
Notation "' p <- m ;; k" := (bind m (fun p => k))
  (at level 61, p pattern, m at next level, right associativity).

(* ---- token types: paths below the root `Token` ------------------------------------------ *)
Inductive tcomp :=
| Text | Whitespace | Newline | Error | Other | Keyword | Name | Literal | String | Number
| Punctuation | Operator | Comparison | Wildcard | Comment | Assignment | Generic | Command
| DML | DDL | CTE | Single | Multiline | Hint | Placeholder | Builtin | Symbol
| Hexadecimal | Float | Integer | Order | TZCast | Heading | Subheading | Deleted | Inserted
| Output | Emph | Strong | Prompt | Traceback | Token_ | DCL.

Definition tcomp_eqb (a b : tcomp) : bool :=
  match a, b with
  | Text, Text | Whitespace, Whitespace | Newline, Newline | Error, Error | Other, Other
  | Keyword, Keyword | Name, Name | Literal, Literal | String, String | Number, Number
  | Punctuation, Punctuation | Operator, Operator | Comparison, Comparison
  | Wildcard, Wildcard | Comment, Comment | Assignment, Assignment | Generic, Generic
  | Command, Command | DML, DML | DDL, DDL | CTE, CTE | Single, Single
  | Multiline, Multiline | Hint, Hint | Placeholder, Placeholder | Builtin, Builtin
  | Symbol, Symbol | Hexadecimal, Hexadecimal | Float, Float | Integer, Integer
  | Order, Order | TZCast, TZCast | Heading, Heading | Subheading, Subheading
  | Deleted, Deleted | Inserted, Inserted | Output, Output | Emph, Emph | Strong, Strong
  | Prompt, Prompt | Traceback, Traceback | Token_, Token_ | DCL, DCL => true
  | _, _ => false
  end.

Lemma tcomp_eqb_eq a b : tcomp_eqb a b = true <-> a = b.
Proof. split; [destruct a, b; simpl; congruence | intros ->; destruct b; reflexivity]. Qed.

Notation ttype := (list tcomp) (only parsing).

Fixpoint ttype_eqb (a b : ttype) : bool :=
  match a, b with
  | [], [] => true
  | x :: a', y :: b' => tcomp_eqb x y && ttype_eqb a' b'
  | _, _ => false
  end.

Lemma ttype_eqb_eq a b : ttype_eqb a b = true <-> a = b.
Proof.
  revert b; induction a as [|x a IH]; destruct b as [|y b]; simpl; split; try congruence; auto.
  - rewrite andb_true_iff, tcomp_eqb_eq, IH. intros [-> ->]; reflexivity.
  - intros E; injection E as -> ->. rewrite andb_true_iff, tcomp_eqb_eq, IH; auto.
Qed.

(* `item in self` of _TokenType: self is a prefix of item (item is never None in the model:
   a group's ttype None is modelled by the node constructor, not by a ttype value). *)
Fixpoint tin (item self : ttype) : bool :=
  match self, item with
  | [], _ => true
  | s :: self', i :: item' => tcomp_eqb s i && tin item' self'
  | _ :: _, [] => false
  end.

(* frequently used types *)
Definition T_Whitespace : ttype := [Text; Whitespace].
Definition T_Newline : ttype := [Text; Whitespace; Newline].
Definition T_Text : ttype := [Text].
Definition T_Error : ttype := [Error].
Definition T_Keyword : ttype := [Keyword].
Definition T_DML : ttype := [Keyword; DML].
Definition T_DDL : ttype := [Keyword; DDL].
Definition T_CTE : ttype := [Keyword; CTE].
Definition T_Order : ttype := [Keyword; Order].
Definition T_TZCast : ttype := [Keyword; TZCast].
Definition T_Name : ttype := [Name].
Definition T_Builtin : ttype := [Name; Builtin].
Definition T_Placeholder : ttype := [Name; Placeholder].
Definition T_Literal : ttype := [Literal].
Definition T_String : ttype := [Literal; String].
Definition T_Single : ttype := [Literal; String; Single].
Definition T_Symbol : ttype := [Literal; String; Symbol].
Definition T_Number : ttype := [Literal; Number].
Definition T_Integer : ttype := [Literal; Number; Integer].
Definition T_Float : ttype := [Literal; Number; Float].
Definition T_Hexadecimal : ttype := [Literal; Number; Hexadecimal].
Definition T_Punctuation : ttype := [Punctuation].
Definition T_Operator : ttype := [Operator].
Definition T_Comparison : ttype := [Operator; Comparison].
Definition T_Wildcard : ttype := [Wildcard].
Definition T_Comment : ttype := [Comment].
Definition T_CSingle : ttype := [Comment; Single].
Definition T_CMultiline : ttype := [Comment; Multiline].
Definition T_CSingleHint : ttype := [Comment; Single; Hint].
Definition T_CMultilineHint : ttype := [Comment; Multiline; Hint].
Definition T_Assignment : ttype := [Assignment].
Definition T_Command : ttype := [Generic; Command].

(* ---- texts ------------------------------------------------------------------------------ *)
Fixpoint text_eqb (a b : text) : bool :=
  match a, b with
  | [], [] => true
  | x :: a', y :: b' => N.eqb x y && text_eqb a' b'
  | _, _ => false
  end.

Lemma text_eqb_eq a b : text_eqb a b = true <-> a = b.
Proof.
  revert b; induction a as [|x a IH]; destruct b as [|y b]; simpl; split; try congruence; auto.
  - rewrite andb_true_iff, N.eqb_eq, IH. intros [-> ->]; reflexivity.
  - intros E; injection E as -> ->. rewrite andb_true_iff, N.eqb_eq, IH; auto.
Qed.

Notation tok := (list tcomp * list N)%type (only parsing).
