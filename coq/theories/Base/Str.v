(* Writing texts as Coq string literals (ASCII only) in examples and witnesses. *)
From SqlModel Require Import Base.
From Coq Require Export String Ascii.

Definition tx (s : string) : text := List.map (fun a => N.of_nat (nat_of_ascii a)) (list_ascii_of_string s).
