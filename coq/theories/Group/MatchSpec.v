(* SPECIFICATION of _group_matching: the textbook bracket matcher, one left-to-right pass over a
   sibling list with an explicit stack of open frames.  No indices, no snapshot, no offsets.
   No proofs in this file (the correspondence with Passes.matching_loop / group_matching is in
   MatchFacts.v). *)
From SqlModel Require Import Base PyStr Node Passes.

(* How the pass looks at one sibling, in the order and priority of the Python tests:
     token.is_whitespace                           -> skipped            (plain)
     token.is_group and not isinstance(token, cls) -> other group        (plain, an atom here)
     token.match(cls.M_OPEN)                        -> opener
     token.match(cls.M_CLOSE)                       -> closer
     anything else (in particular a group of class cls itself)           (plain) *)
Inductive kind := KPlain | KOpen | KClose.

Definition kind_of (c : cls) (t : node) : kind :=
  if is_ws t then KPlain else
  if is_group t && negb (inst t c) then KPlain else
  if matches t (m_open c) then KOpen else
  if matches t (m_close c) then KClose else KPlain.

(* State of the matcher: the stack of open frames, innermost first, each frame being the REVERSED
   list of the nodes collected since (and including) its opener; and the REVERSED top-level
   output. *)
Definition mstate := (list (list node) * list node)%type.

(* a finished node goes into the innermost open frame, or to the top level *)
Definition push_plain (x : node) (st : mstate) : mstate :=
  match st with
  | ([], out) => ([], x :: out)
  | (f :: s, out) => ((x :: f) :: s, out)
  end.

Definition step (c : cls) (st : mstate) (t : node) : mstate :=
  match kind_of c t with
  | KPlain => push_plain t st
  | KOpen => ([t] :: fst st, snd st)                      (* push a new frame *)
  | KClose =>
      match st with
      | ([], _) => push_plain t st                        (* unmatched closer: a plain token *)
      | (f :: s, out) => push_plain (mk_grp c (rev (t :: f))) (s, out)
                                                          (* pop: opener .. closer become one group *)
      end
  end.

(* end of input: frames still open are flushed flat, in order, into the enclosing level;
   rev (innermost_rev ++ ... ++ outermost_rev ++ out_rev) = out ++ outermost ++ ... ++ innermost *)
Definition flat (st : mstate) : list node := rev (concat (fst st) ++ snd st).

Definition stack_match (c : cls) (l : list node) : list node :=
  flat (fold_left (step c) l ([], [])).

(* the whole pass: inside groups of OTHER classes recursively ("inside, never across");
   groups that are instances of c are atoms and are not entered *)
Fixpoint stack_match_rec (c : cls) (n : node) : node :=
  match n with
  | Leaf _ _ => n
  | Grp c0 v kids =>
      Grp c0 v (stack_match c
                  (map (fun k => if is_group k && negb (inst k c) then stack_match_rec c k else k)
                       kids))
  end.

(* ---- used by the simulation invariant of MatchFacts.v -------------------------------------- *)
(* the live index of each frame's opener, innermost first: the number of live siblings before it *)
Fixpoint opens_of (stack : list (list node)) (out : list node) : list nat :=
  match stack with
  | [] => []
  | _ :: s => length (flat (s, out)) :: opens_of s out
  end.

(* ---- concrete tokens for the examples ------------------------------------------------------ *)
Definition tk_lp : node := Leaf T_Punctuation s_lparen.
Definition tk_rp : node := Leaf T_Punctuation s_rparen.
Definition tk_ws : node := Leaf T_Whitespace [32%N].
Definition tk_name (ch : N) : node := Leaf T_Name [ch].
Definition tk_a := tk_name 97.   Definition tk_b := tk_name 98.   Definition tk_c := tk_name 99.
Definition paren (kids : list node) : node := mk_grp CParenthesis kids.
