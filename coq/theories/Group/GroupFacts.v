(* Every pass of grouping.group, and the whole pipeline, preserves the leaf sequence (values exactly,
   types up to a re-typing to Operator) and the "cached value = text" invariant. *)
From SqlModel Require Import Base PyStr Node Inv Passes.
From Coq Require Import ZArith.

Definition good (l l' : list node) : Prop := llsim l l' /\ (cached_ok_list l -> cached_ok_list l').
Definition ngood (n n' : node) : Prop := nsim n n' /\ (cached_ok n -> cached_ok n').

Lemma good_refl l : good l l.
Proof. split; [apply llsim_refl | auto]. Qed.

Lemma good_trans a b c : good a b -> good b c -> good a c.
Proof. intros [S1 C1] [S2 C2]. split; [eapply llsim_trans; eauto | auto]. Qed.

Lemma ngood_refl n : ngood n n.
Proof. split; [apply lsim_refl | auto]. Qed.

Lemma ngood_trans a b c : ngood a b -> ngood b c -> ngood a c.
Proof. intros [S1 C1] [S2 C2]. split; [eapply lsim_trans; eauto | auto]. Qed.

Lemma grp_good c v kids kids' : good kids kids' -> ngood (Grp c v kids) (Grp c v kids').
Proof.
  intros [S C]. split; [exact S|].
  rewrite !cached_ok_grp. intros [Hv Hk]. split; [|auto].
  rewrite Hv. apply llsim_text, S.
Qed.

Lemma Forall2_ngood_good l l' : Forall2 ngood l l' -> good l l'.
Proof.
  intros H. split.
  - apply llsim_Forall2. induction H as [|x y l l' [Hxy _] _ IH]; constructor; auto.
  - unfold cached_ok_list. induction H as [|x y l l' [_ Hxy] _ IH]; intros Hc; [constructor|].
    inversion Hc; subst. constructor; auto.
Qed.

Lemma group_tokens_good c start stop ext l l' g :
  group_tokens c start stop ext l = Ok (l', g) -> good l l'.
Proof.
  intros H. split; [eapply group_tokens_llsim; eauto|].
  intros Hc. eapply group_tokens_cached in H; [|exact Hc]. tauto.
Qed.

(* ---- mapM -------------------------------------------------------------------------------- *)
Lemma mapM_Forall2 (f : node -> res node) (l l' : list node) :
  Forall (fun k => forall k', f k = Ok k' -> ngood k k') l ->
  mapM f l = Ok l' -> Forall2 ngood l l'.
Proof.
  revert l'; induction l as [|k l IH]; intros l' Hf H; simpl in H.
  - injection H as <-. constructor.
  - inversion Hf as [|? ? Hk Hl]; subst.
    destruct (f k) as [k'|] eqn:E; [|discriminate]. simpl in H.
    destruct (mapM f l) as [r|] eqn:E2; [|discriminate]. simpl in H. injection H as <-.
    constructor; auto.
Qed.

Lemma mapM2_Forall2 {C} (f : node -> C -> res node) (d : C) (l l' : list node) (m : list C) :
  Forall (fun k => forall c k', f k c = Ok k' -> ngood k k') l ->
  mapM2 f d l m = Ok l' -> Forall2 ngood l l'.
Proof.
  revert l' m; induction l as [|k l IH]; intros l' m Hf H; simpl in H.
  - injection H as <-. constructor.
  - inversion Hf as [|? ? Hk Hl]; subst.
    destruct (f k _) as [k'|] eqn:E; [|discriminate]. simpl in H.
    destruct (mapM2 f d l (tl m)) as [r|] eqn:E2; [|discriminate]. simpl in H. injection H as <-.
    constructor; eauto.
Qed.

(* ---- _group_matching ----------------------------------------------------------------------- *)
Lemma matching_loop_good c : forall snap idx live opens off r,
  matching_loop c snap idx live opens off = Ok r -> good live r.
Proof.
  induction snap as [|token snap IH]; intros idx live opens off r H; cbn [matching_loop] in H.
  - injection H as <-. apply good_refl.
  - destruct (Nat.ltb idx off); [discriminate|].
    destruct (is_ws token); [eauto|].
    destruct (is_group token && negb (inst token c)); [eauto|].
    destruct (matches token (m_open c)); [eauto|].
    destruct (matches token (m_close c)); [|eauto].
    destruct opens as [|open_idx opens']; [eauto|].
    destruct (group_tokens c open_idx (S (idx - off)) false live) as [[live' g]|] eqn:E;
      [|discriminate].
    simpl in H. eapply good_trans; [eapply group_tokens_good; eauto | eauto].
Qed.

Theorem group_matching_good c : forall n n', group_matching c n = Ok n' -> ngood n n'.
Proof.
  induction n as [ty v | c0 v kids IH] using node_ind'; intros n' H; cbn [group_matching] in H.
  - injection H as <-. apply ngood_refl.
  - destruct (mapM _ kids) as [kids1|] eqn:E1; [|discriminate]. simpl in H.
    destruct (matching_loop c kids1 0 kids1 [] 0) as [kids2|] eqn:E2; [|discriminate].
    simpl in H. injection H as <-.
    apply grp_good. eapply good_trans; [|eapply matching_loop_good; eauto].
    apply Forall2_ngood_good. eapply mapM_Forall2; [|exact E1].
    eapply Forall_impl; [|exact IH]. intros k Hk k' Hf. cbv beta in Hf.
    destruct (is_group k && negb (inst k c)); [auto|]. injection Hf as <-. apply ngood_refl.
Qed.

(* ---- _group ---------------------------------------------------------------------------------- *)
Definition post_good (p : gparams) : Prop :=
  forall l pidx tidx nidx l1 f t, g_post p l pidx tidx nidx = Ok (l1, f, t) -> good l l1.

Lemma group_loop_good p : post_good p -> forall snap idx s s',
  group_loop p snap idx s = Ok s' -> good (g_live s) (g_live s').
Proof.
  intros Hp. induction snap as [|token snap IH]; intros idx s s' H; cbn [group_loop] in H.
  - injection H as <-. apply good_refl.
  - destruct (Z.ltb (Z.of_nat idx - g_off s) 0); [apply IH in H; exact H|].
    destruct (is_ws token); [apply IH in H; exact H|].
    destruct (g_match p token); [|apply IH in H; exact H].
    destruct (g_prev s) as [pv|]; [|apply IH in H; exact H].
    destruct (g_pidx s) as [pidx|]; [|apply IH in H; exact H].
    destruct (g_vprev p pv && g_vnext p _); [|apply IH in H; exact H].
    destruct (g_post p (g_live s) pidx _ _) as [[[live1 from_idx] to_idx]|] eqn:E1;
      [|discriminate].
    cbn [bind] in H.
    destruct (group_tokens (g_cls p) from_idx (S to_idx) (g_extend p) live1) as [[live2 grp]|] eqn:E2;
      [|discriminate].
    cbn [bind] in H.
    apply IH in H. cbn [g_live] in H.
    eapply good_trans; [eapply Hp; eauto|].
    eapply good_trans; [eapply group_tokens_good; eauto | exact H].
Qed.

Theorem group_driver_good p : post_good p -> forall n n', group_driver p n = Ok n' -> ngood n n'.
Proof.
  intros Hp. induction n as [ty v | c0 v kids IH] using node_ind'; intros n' H;
    cbn [group_driver] in H.
  - injection H as <-. apply ngood_refl.
  - destruct (group_loop p kids 0 (ginit kids)) as [dry|] eqn:E0; [|discriminate]. simpl in H.
    destruct (mapM2 _ false kids (rev (g_rec dry))) as [kids1|] eqn:E1; [|discriminate].
    simpl in H.
    destruct (group_loop p kids1 0 (ginit kids1)) as [fin|] eqn:E2; [|discriminate].
    simpl in H. injection H as <-.
    apply grp_good. eapply good_trans.
    + apply Forall2_ngood_good. eapply mapM2_Forall2; [|exact E1].
      eapply Forall_impl; [|exact IH]. intros k Hk f k' Hf. cbv beta in Hf.
      destruct (f && is_group k && negb (inst k (g_cls p))); [auto|].
      injection Hf as <-. apply ngood_refl.
    + apply (group_loop_good p Hp _ _ _ _ E2).
Qed.

Theorem group_driver_flat_good p : post_good p -> forall n n',
  group_driver_flat p n = Ok n' -> ngood n n'.
Proof.
  intros Hp [ty v | c0 v kids] n' H; cbn [group_driver_flat] in H.
  - injection H as <-. apply ngood_refl.
  - destruct (group_loop p kids 0 (ginit kids)) as [fin|] eqn:E; [|discriminate].
    simpl in H. injection H as <-. apply grp_good. apply (group_loop_good p Hp _ _ _ _ E).
Qed.

(* the post functions *)
Lemma post_pn_good l pidx tidx nidx l1 f t : post_pn l pidx tidx nidx = Ok (l1, f, t) -> good l l1.
Proof. unfold post_pn. destruct nidx; [|discriminate]. intros H; injection H as <- _ _. apply good_refl. Qed.
Lemma post_tn_good l pidx tidx nidx l1 f t : post_tn l pidx tidx nidx = Ok (l1, f, t) -> good l l1.
Proof. unfold post_tn. destruct nidx; [|discriminate]. intros H; injection H as <- _ _. apply good_refl. Qed.

Lemma pg_typecasts : post_good p_typecasts. Proof. intros ? ? ? ? ? ? ?; apply post_pn_good. Qed.
Lemma pg_tzcasts : post_good p_tzcasts. Proof. intros ? ? ? ? ? ? ?; apply post_pn_good. Qed.
Lemma pg_typed1 : post_good p_typed_literal1. Proof. intros ? ? ? ? ? ? ?; apply post_tn_good. Qed.
Lemma pg_typed2 : post_good p_typed_literal2. Proof. intros ? ? ? ? ? ? ?; apply post_tn_good. Qed.
Lemma pg_comparison : post_good p_comparison. Proof. intros ? ? ? ? ? ? ?; apply post_pn_good. Qed.
Lemma pg_as : post_good p_as. Proof. intros ? ? ? ? ? ? ?; apply post_pn_good. Qed.
Lemma pg_idlist : post_good p_identifier_list. Proof. intros ? ? ? ? ? ? ?; apply post_pn_good. Qed.

Lemma pg_period : post_good p_period.
Proof.
  intros l pidx tidx nidx l1 f t. cbn [g_post p_period].
  destruct (imt _ _ _ _).
  - destruct nidx; [|discriminate]. intros H; injection H as <- _ _. apply good_refl.
  - intros H; injection H as <- _ _. apply good_refl.
Qed.

Lemma pg_arrays : post_good p_arrays.
Proof. intros l pidx tidx nidx l1 f t. cbn [g_post p_arrays]. intros H; injection H as <- _ _. apply good_refl. Qed.

Lemma pg_assignment : post_good p_assignment.
Proof.
  intros l pidx tidx nidx l1 f t. cbn [g_post p_assignment].
  destruct nidx; [|discriminate].
  destruct (next_by_from _ _ _ _ _) as [[si x]|]; intros H; injection H as <- _ _; apply good_refl.
Qed.

Lemma pg_operator : post_good p_operator.
Proof.
  intros l pidx tidx nidx l1 f t. cbn [g_post p_operator].
  destruct (nth_error l tidx) as [tk|] eqn:E; [|discriminate].
  destruct nidx as [ni|]; [|discriminate].
  destruct (is_group tk) eqn:G; [discriminate|].
  intros H; injection H as <- _ _.
  split.
  - unfold retype_operator. apply set_nth_retype_llsim; assumption.
  - intros Hc. apply set_nth_cached; [assumption|]. destruct tk; [exact I|discriminate].
Qed.

(* ---- @recurse + scan loops ------------------------------------------------------------------ *)
Definition body_good (body : nat -> node -> list node -> res (list node * nat)) : Prop :=
  forall tidx token l l' cont, body tidx token l = Ok (l', cont) -> good l l'.

Lemma scan_loop_good find body : body_good body -> forall fuel start l r,
  scan_loop find body fuel start l = Ok r -> good l r.
Proof.
  intros Hb. induction fuel as [|fuel IH]; intros start l r H; cbn [scan_loop] in H; [discriminate|].
  destruct (find start l) as [[tidx token]|]; [|injection H as <-; apply good_refl].
  destruct (body tidx token l) as [[l' cont]|] eqn:E; [|discriminate]. simpl in H.
  eapply good_trans; [eapply Hb; eauto | eauto].
Qed.

Lemma scan_good find body l r : body_good body -> scan find body l = Ok r -> good l r.
Proof. intros Hb. apply scan_loop_good, Hb. Qed.

Definition f_good (f : cls -> list node -> res (list node)) : Prop :=
  forall c l l', f c l = Ok l' -> good l l'.

Theorem recurse_pass_good skip f : f_good f -> forall n n',
  recurse_pass skip f n = Ok n' -> ngood n n'.
Proof.
  intros Hf. induction n as [ty v | c v kids IH] using node_ind'; intros n' H;
    cbn [recurse_pass] in H.
  - injection H as <-. apply ngood_refl.
  - destruct (mapM _ kids) as [kids1|] eqn:E1; [|discriminate]. simpl in H.
    destruct (f c kids1) as [kids2|] eqn:E2; [|discriminate]. simpl in H. injection H as <-.
    apply grp_good. eapply good_trans; [|eapply Hf; eauto].
    apply Forall2_ngood_good. eapply mapM_Forall2; [|exact E1].
    eapply Forall_impl; [|exact IH]. intros k Hk k' Hk'. cbv beta in Hk'.
    destruct (is_group k && negb (inst_any k skip)); [auto|]. injection Hk' as <-. apply ngood_refl.
Qed.

(* a body that performs at most one group_tokens call *)
Ltac body_tac :=
  intros tidx token l l' cont H; cbv beta in H;
  repeat match type of H with
         | context [match ?x with _ => _ end] =>
             let E := fresh "E" in destruct x eqn:E; try discriminate; simpl in H
         end;
  try (injection H as <- <-; apply good_refl);
  try (injection H as <- _; eapply group_tokens_good; eassumption).

Lemma fg_comments : f_good f_comments.
Proof.
  intros c l l' H. unfold f_comments in H. eapply scan_good; [|exact H].
  intros tidx token l0 l0' cont Hb. cbv beta in Hb.
  destruct (find_from _ tidx l0) as [[eidx x]|]; [|injection Hb as <- _; apply good_refl].
  destruct eidx as [|e1]; [discriminate|].
  destruct (group_tokens CComment tidx (S e1) false l0) as [[l1 g]|] eqn:E; [|discriminate].
  simpl in Hb. injection Hb as <- _. eapply group_tokens_good; eauto.
Qed.

Lemma fg_over : f_good f_over.
Proof.
  intros c l l' H. unfold f_over in H. eapply scan_good; [|exact H].
  intros tidx token l0 l0' cont Hb. cbv beta in Hb.
  destruct (token_next true false tidx l0) as [[nidx next_]|]; [|injection Hb as <- _; apply good_refl].
  destruct (imt _ _ _ _); [|injection Hb as <- _; apply good_refl].
  destruct (group_tokens COver tidx (S nidx) false l0) as [[l1 g]|] eqn:E; [|discriminate].
  simpl in Hb. injection Hb as <- _. eapply group_tokens_good; eauto.
Qed.

Lemma fg_functions : f_good f_functions.
Proof.
  intros c l l' H. unfold f_functions in H.
  destruct (_ && _ && negb _); [injection H as <-; apply good_refl|].
  eapply scan_good; [|exact H].
  intros tidx token l0 l0' cont Hb. cbv beta in Hb.
  destruct (token_next true false tidx l0) as [[nidx next_]|]; [|injection Hb as <- _; apply good_refl].
  destruct (inst next_ CParenthesis); [|injection Hb as <- _; apply good_refl].
  match type of Hb with context [group_tokens ?a ?b ?c ?d ?e] =>
    destruct (group_tokens a b c d e) as [[l1 g]|] eqn:E; [|discriminate] end.
  simpl in Hb. injection Hb as <- _. eapply group_tokens_good; eauto.
Qed.

Lemma fg_where : f_good f_where.
Proof.
  intros c l l' H. unfold f_where in H. eapply scan_good; [|exact H].
  intros tidx token l0 l0' cont Hb. cbv beta in Hb.
  match type of Hb with context [bind ?m _] => destruct m as [eidx|] eqn:E0; [|discriminate] end.
  simpl in Hb.
  destruct (group_tokens CWhere tidx (S eidx) false l0) as [[l1 g]|] eqn:E; [|discriminate].
  simpl in Hb. injection Hb as <- _. eapply group_tokens_good; eauto.
Qed.

Lemma fg_identifier : f_good f_identifier.
Proof.
  intros c l l' H. unfold f_identifier in H. eapply scan_good; [|exact H].
  intros tidx token l0 l0' cont Hb. cbv beta in Hb.
  destruct (group_tokens CIdentifier tidx (S tidx) false l0) as [[l1 g]|] eqn:E; [|discriminate].
  simpl in Hb. injection Hb as <- _. eapply group_tokens_good; eauto.
Qed.

Lemma fg_order : f_good f_order.
Proof.
  intros c l l' H. unfold f_order in H. eapply scan_good; [|exact H].
  intros tidx token l0 l0' cont Hb. cbv beta in Hb.
  destruct (token_prev true false tidx l0) as [[pidx prev_]|]; [|injection Hb as <- _; apply good_refl].
  destruct (imt _ _ _ _); [|injection Hb as <- _; apply good_refl].
  destruct (group_tokens CIdentifier pidx (S tidx) false l0) as [[l1 g]|] eqn:E; [|discriminate].
  simpl in Hb. injection Hb as <- _. eapply group_tokens_good; eauto.
Qed.

Lemma fg_aliased : f_good f_aliased.
Proof.
  intros c l l' H. unfold f_aliased in H. eapply scan_good; [|exact H].
  intros tidx token l0 l0' cont Hb. cbv beta in Hb.
  destruct (token_next true false tidx l0) as [[nidx next_]|]; [|injection Hb as <- _; apply good_refl].
  destruct (inst next_ CIdentifier); [|injection Hb as <- _; apply good_refl].
  destruct (group_tokens CIdentifier tidx (S nidx) true l0) as [[l1 g]|] eqn:E; [|discriminate].
  simpl in Hb. injection Hb as <- _. eapply group_tokens_good; eauto.
Qed.

Lemma fg_align_comments : f_good f_align_comments.
Proof.
  intros c l l' H. unfold f_align_comments in H. eapply scan_good; [|exact H].
  intros tidx token l0 l0' cont Hb. cbv beta in Hb.
  destruct (token_prev true false tidx l0) as [[pidx prev_]|]; [|injection Hb as <- _; apply good_refl].
  destruct (inst prev_ CTokenList); [|injection Hb as <- _; apply good_refl].
  destruct (group_tokens CTokenList pidx (S tidx) true l0) as [[l1 g]|] eqn:E; [|discriminate].
  simpl in Hb. injection Hb as <- _. eapply group_tokens_good; eauto.
Qed.

Theorem group_values_good n n' : group_values n = Ok n' -> ngood n n'.
Proof.
  destruct n as [ty v | c v l]; cbn [group_values]; intros H.
  - injection H as <-. apply ngood_refl.
  - destruct (next_by_from _ _ _ 0 l) as [[start_idx token]|]; [|injection H as <-; apply ngood_refl].
    destruct (values_scan _ _ _ _ _) as [e|]; [|discriminate]. simpl in H.
    destruct e as [end_idx|]; [|injection H as <-; apply ngood_refl].
    destruct (group_tokens CValues start_idx (S end_idx) true l) as [[l1 g]|] eqn:E; [|discriminate].
    simpl in H. injection H as <-. apply grp_good. eapply group_tokens_good; eauto.
Qed.

(* ---- the pipeline ----------------------------------------------------------------------------- *)
Definition pass_good (p : node -> res node) : Prop := forall n n', p n = Ok n' -> ngood n n'.

Lemma passes_good : Forall pass_good passes.
Proof.
  unfold passes.
  repeat match goal with
         | |- Forall _ (_ :: _) => apply Forall_cons
         | |- Forall _ [] => apply Forall_nil
         end; unfold pass_good.
  - apply recurse_pass_good, fg_comments.
  - apply group_matching_good.
  - apply group_matching_good.
  - apply group_matching_good.
  - apply group_matching_good.
  - apply group_matching_good.
  - apply group_matching_good.
  - apply recurse_pass_good, fg_over.
  - apply recurse_pass_good, fg_functions.
  - apply recurse_pass_good, fg_where.
  - apply group_driver_good, pg_period.
  - apply group_driver_flat_good, pg_arrays.
  - apply recurse_pass_good, fg_identifier.
  - apply recurse_pass_good, fg_order.
  - apply group_driver_good, pg_typecasts.
  - apply group_driver_good, pg_tzcasts.
  - intros n n' H.
    destruct (group_driver p_typed_literal1 n) as [n1|] eqn:E; [|discriminate]. simpl in H.
    eapply ngood_trans; [eapply group_driver_good; [apply pg_typed1 | exact E]|].
    eapply group_driver_good; [apply pg_typed2 | exact H].
  - apply group_driver_good, pg_operator.
  - apply group_driver_good, pg_comparison.
  - apply group_driver_good, pg_as.
  - apply recurse_pass_good, fg_aliased.
  - apply group_driver_good, pg_assignment.
  - apply recurse_pass_good, fg_align_comments.
  - apply group_driver_good, pg_idlist.
  - apply group_values_good.
Qed.

Lemma run_passes_good ps : Forall pass_good ps -> forall n n', run_passes ps n = Ok n' -> ngood n n'.
Proof.
  induction 1 as [|p ps Hp _ IH]; intros n n' H; cbn [run_passes] in H.
  - injection H as <-. apply ngood_refl.
  - destruct (p n) as [n1|] eqn:E; [|discriminate]. simpl in H.
    eapply ngood_trans; [apply Hp; exact E | apply IH; exact H].
Qed.

Theorem group_good n n' : group n = Ok n' -> ngood n n'.
Proof. apply run_passes_good, passes_good. Qed.

Theorem group_upto_good k n n' : group_upto k n = Ok n' -> ngood n n'.
Proof.
  apply run_passes_good. apply Forall_firstn, passes_good.
Qed.

(* the statement the splitter builds *)
Lemma statement_leaves toks : leaves (statement_of toks) = toks.
Proof.
  unfold statement_of, mk_grp. rewrite leaves_grp. unfold leaves_list.
  induction toks as [|[ty v] toks IH]; [reflexivity|]. cbn [map flat_map leaves app]. rewrite IH. reflexivity.
Qed.

Lemma statement_cached toks : cached_ok (statement_of toks).
Proof.
  unfold statement_of. apply cached_ok_mk_grp. unfold cached_ok_list.
  apply Forall_forall. intros x Hx. apply in_map_iff in Hx. destruct Hx as (tk & <- & _). exact I.
Qed.
