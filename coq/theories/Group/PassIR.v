(* A small IR for what tools/regen/gen_passes.py extracts from sqlparse/engine/grouping.py:
   - [pexpr]: the boolean lambdas `match` / `valid` / `valid_prev` / `valid_next` of the passes built
     on `_group`, over ONE variable (the token, possibly None);
   - [ppost]: the shapes of their `post` callbacks;
   - [pdecor]: the `@recurse(...)` decorator;
   - the ad-hoc passes (while loops over the live list) with their literals (classes, token types,
     match tuples, keywords, `extend` flags) abstracted as parameters: `f_X_of lits` is the
     hand-written `f_X` of Passes.v with the literals replaced by parameters.
   Definitions only; Gen/PassTab.v (generated) instantiates them and Inst/PassTabOk.v proves the
   instances equal to the hand-written model of Group/Passes.v. *)
From SqlModel Require Import Base PyStr Node Passes.
From SqlModel.Gen Require Import CaseTabs.

(* ---- the decorator ------------------------------------------------------------------------- *)
Inductive pdecor :=
| NoDecorator                      (* plain `def group_x(tlist)` *)
| Recurse (skip : list cls).       (* @recurse(sql.A, sql.B): classes not recursed into *)

(* an undecorated function runs on the top-level list only *)
Definition top_only (f : cls -> list node -> res (list node)) (n : node) : res node :=
  match n with
  | Leaf _ _ => Ok n
  | Grp c v kids => kids2 <- f c kids ;; Ok (Grp c v kids2)
  end.

Definition decorated (d : pdecor) (f : cls -> list node -> res (list node)) : node -> res node :=
  match d with
  | Recurse skip => recurse_pass skip f
  | NoDecorator => top_only f
  end.

(* `_group(..., recurse=flag)` *)
Definition group_drv (recurse_flag : bool) (p : gparams) : node -> res node :=
  if recurse_flag then group_driver p else group_driver_flat p.

(* ---- boolean expressions over the token ---------------------------------------------------- *)
Inductive pexpr :=
| PTrue | PFalse
| IsNone                               (* token is None *)
| NotNone                              (* token is not None *)
| Truthy                               (* `token` in a boolean context: sql.Token defines neither
                                          __bool__ nor __len__ (checked by the translator), so this is
                                          `token is not None` *)
| TokenMatch (p : pat)                 (* token.match(ttype, values)   (regex=False) *)
| TtypeEq (ty : ttype)                 (* token.ttype == T.X  /  token.ttype is T.X *)
| TtypeIn (tys : list ttype)           (* token.ttype in (T.A, T.B): tuple membership, equality *)
| TtypeWithin (ty : ttype)             (* token.ttype in T.X: _TokenType.__contains__, prefix *)
| InstanceIn (cs : list cls)           (* isinstance(token, C) / isinstance(token, (C, D)) *)
| Imt (i : list cls) (m : list pat) (t : tspec)   (* utils.imt(token, i=, m=, t=) *)
| IsKeyword | IsWhitespace | IsNewline | IsGroup   (* the cached flags of sql.Token *)
| NormalizedEq (s : text)              (* token.normalized == 's' *)
| ValueEq (s : text)                   (* token.value == 's' *)
| ValueUpperEq (s : text)              (* token.value.upper() == 's' *)
| Not (a : pexpr)
| And (a b : pexpr)                    (* short-circuit, as in Python *)
| Or (a b : pexpr).

(* the atoms that read an attribute of the token *)
Definition eval_attr_atom (e : pexpr) (n : node) : bool :=
  match e with
  | TokenMatch p => match_pat n p
  | TtypeEq ty => tt_is n ty
  | TtypeIn tys => tt_among n tys
  | TtypeWithin ty => tt_in n ty
  | IsKeyword => is_kw n
  | IsWhitespace => is_ws n
  | IsNewline => is_newline n
  | IsGroup => is_group n
  | NormalizedEq s => text_eqb (normalized n) s
  | ValueEq s => text_eqb (nvalue n) s
  | ValueUpperEq s => text_eqb (upper (nvalue n)) s
  | _ => false
  end.

(* Three-valued evaluation: [None] = the Python expression raises AttributeError (an attribute of
   None is read).  `and` / `or` are lazy. *)
Fixpoint eval_px (e : pexpr) (t : option node) : option bool :=
  match e with
  | PTrue => Some true
  | PFalse => Some false
  | IsNone => Some (match t with None => true | Some _ => false end)
  | NotNone | Truthy => Some (match t with None => false | Some _ => true end)
  | InstanceIn cs => Some (match t with Some n => inst_any n cs | None => false end)
  | Imt i m ty => Some (imt t i m ty)
  | Not a => match eval_px a t with Some b => Some (negb b) | None => None end
  | And a b => match eval_px a t with Some true => eval_px b t | r => r end
  | Or a b => match eval_px a t with Some false => eval_px b t | r => r end
  | atom => match t with Some n => Some (eval_attr_atom atom n) | None => None end
  end.

(* the evaluator asked for: an exception counts as false (the equations of Inst/PassTabOk.v are stated
   with [eval_px], which also shows that no exception can occur) *)
Definition eval_pexpr (e : pexpr) (t : option node) : bool :=
  match eval_px e t with Some b => b | None => false end.

(* on a token that is not None no exception is possible: plain booleans *)
Fixpoint eval_tot (e : pexpr) (n : node) : bool :=
  match e with
  | PTrue => true
  | PFalse => false
  | IsNone => false
  | NotNone | Truthy => true
  | InstanceIn cs => inst_any n cs
  | Imt i m ty => imt (Some n) i m ty
  | Not a => negb (eval_tot a n)
  | And a b => eval_tot a n && eval_tot b n
  | Or a b => eval_tot a n || eval_tot b n
  | atom => eval_attr_atom atom n
  end.

(* ---- post(tlist, pidx, tidx, nidx) --------------------------------------------------------- *)
Inductive pix := IxP | IxT | IxN.      (* pidx, tidx, nidx *)

Inductive ppost :=
| PostPair (a b : pix)
    (* return a, b *)
| PostIfNext (c : pexpr) (a b : pix) (a' b' : pix)
    (* next_ = tlist[nidx] if nidx is not None else None; v = <c>(next_);
       return (a, b) if v else (a', b') *)
| PostSeekNext (m : list pat) (a b : pix)
    (* snidx, _ = tlist.token_next_by(m=<m>, idx=nidx); nidx = snidx or nidx; return a, b *)
| PostRetype (ty : ttype) (a b : pix).
    (* tlist[tidx].ttype = <ty>; return a, b *)

Definition get_ix (x : pix) (pidx tidx : nat) (nidx : option nat) : option nat :=
  match x with IxP => Some pidx | IxT => Some tidx | IxN => nidx end.

(* a None index reaches group_tokens: `end_idx = end + include_end` / `self.tokens[None]`: TypeError *)
Definition ret_pair (l : list node) (a b : pix) (pidx tidx : nat) (nidx : option nat)
  : res (list node * nat * nat) :=
  match get_ix a pidx tidx nidx, get_ix b pidx tidx nidx with
  | Some x, Some y => Ok (l, x, y)
  | _, _ => Err TypeError
  end.

Definition retype (ty : ttype) (n : node) : node :=
  match n with Leaf _ v => Leaf ty v | Grp _ _ _ => n end.

Definition eval_ppost (p : ppost) (l : list node) (pidx tidx : nat) (nidx : option nat)
  : res (list node * nat * nat) :=
  match p with
  | PostPair a b => ret_pair l a b pidx tidx nidx
  | PostIfNext c a b a' b' =>
      let next_ := match nidx with Some i => nth_error l i | None => None end in
      if eval_pexpr c next_ then ret_pair l a b pidx tidx nidx else ret_pair l a' b' pidx tidx nidx
  | PostSeekNext m a b =>
      match nidx with
      | None => Err TypeError                     (* token_next_by(idx=None): `idx += 1` *)
      | Some ni =>
          match next_by_from [] m TNone (S ni) l with
          | Some (si, _) => ret_pair l a b pidx tidx (Some si)    (* si > 0: `snidx or nidx` = snidx *)
          | None => ret_pair l a b pidx tidx (Some ni)
          end
      end
  | PostRetype ty a b =>
      match nth_error l tidx with
      | None => Err IndexError
      | Some tk =>
          (* a group has no assignable ttype in the model (see Passes.p_operator) *)
          if is_group tk then
            match nidx with Some _ => Err Stuck | None => Err TypeError end
          else ret_pair (set_nth tidx (retype ty tk) l) a b pidx tidx nidx
      end
  end.

(* the parameters of one `_group(tlist, cls, match, valid_prev, valid_next, post, extend=..)` call,
   rebuilt from the IR *)
Definition gparams_of (c : cls) (m vp vn : pexpr) (po : ppost) (ext : bool) : gparams :=
  {| g_cls := c;
     g_match := fun n => eval_pexpr m (Some n);
     g_vprev := fun n => eval_pexpr vp (Some n);
     g_vnext := fun o => eval_pexpr vn o;
     g_post := eval_ppost po;
     g_extend := ext |}.

(* ================================================================================================
   the ad-hoc passes with their literals as parameters (bodies copied from Passes.v)
   ================================================================================================ *)
Definition f_comments_of (t1 : tspec) (cls1 : cls) (_ : cls) (l : list node) : res (list node) :=
  scan (next_by_from [] [] t1)
       (fun tidx _ l =>
          match find_from (fun tk => negb (imt (Some tk) [] [] t1 || is_newline tk)) tidx l with
          | Some (eidx, _) =>
              match eidx with
              | O => Err TypeError
              | S e1 => '(l', _) <- group_tokens cls1 tidx (S e1) false l ;; Ok (l', tidx)
              end
          | None => Ok (l, tidx)
          end) l.

Definition f_over_of (m1 : list pat) (i1 : list cls) (t1 : tspec) (cls1 : cls)
           (_ : cls) (l : list node) : res (list node) :=
  scan (next_by_from [] m1 TNone)
       (fun tidx _ l =>
          match token_next true false tidx l with
          | Some (nidx, next_) =>
              if imt (Some next_) i1 [] t1
              then '(l', _) <- group_tokens cls1 tidx (S nidx) false l ;; Ok (l', tidx)
              else Ok (l, tidx)
          | None => Ok (l, tidx)
          end) l.

Definition f_functions_of (s1 s2 s3 : text) (t1 : tspec) (isa1 isa2 : cls) (cls1 : cls)
           (_ : cls) (l : list node) : res (list node) :=
  let has_create := existsb (fun tk => text_eqb (upper (nvalue tk)) s1) l in
  let has_table := existsb (fun tk => text_eqb (upper (nvalue tk)) s2) l in
  let has_as := existsb (fun tk => text_eqb (upper (nvalue tk)) s3) l in
  if has_create && has_table && negb has_as then Ok l else
  scan (next_by_from [] [] t1)
       (fun tidx _ l =>
          match token_next true false tidx l with
          | Some (nidx, next_) =>
              if inst next_ isa1 then
                let eidx := match token_next true false nidx l with
                            | Some (oidx, over) => if inst over isa2 then oidx else nidx
                            | None => nidx
                            end in
                '(l', _) <- group_tokens cls1 tidx (S eidx) false l ;; Ok (l', tidx)
              else Ok (l, tidx)
          | None => Ok (l, tidx)
          end) l.

Definition f_where_of (m1 m2 : list pat) (cls1 : cls) (c : cls) (l : list node) : res (list node) :=
  scan (next_by_from [] m1 TNone)
       (fun tidx _ l =>
          eidx <- match next_by_from [] m2 TNone (S tidx) l with
                  | Some (ci, _) => match ci with O => Err Stuck | S e => Ok e end
                  | None => groupable_last_index c l
                  end ;;
          '(l', _) <- group_tokens cls1 tidx (S eidx) false l ;; Ok (l', tidx)) l.

Definition f_identifier_of (t1 : tspec) (cls1 : cls) (_ : cls) (l : list node) : res (list node) :=
  scan (next_by_from [] [] t1)
       (fun tidx _ l => '(l', _) <- group_tokens cls1 tidx (S tidx) false l ;; Ok (l', tidx)) l.

Definition f_order_of (t1 : tspec) (i1 : list cls) (t2 : tspec) (cls1 : cls)
           (_ : cls) (l : list node) : res (list node) :=
  scan (next_by_from [] [] t1)
       (fun tidx _ l =>
          match token_prev true false tidx l with
          | Some (pidx, prev_) =>
              if imt (Some prev_) i1 [] t2
              then '(l', _) <- group_tokens cls1 pidx (S tidx) false l ;; Ok (l', pidx)
              else Ok (l, tidx)
          | None => Ok (l, tidx)
          end) l.

Definition f_aliased_of (i1 : list cls) (t1 : tspec) (isa1 : cls) (cls1 : cls) (ext1 : bool)
           (_ : cls) (l : list node) : res (list node) :=
  scan (next_by_from i1 [] t1)
       (fun tidx _ l =>
          match token_next true false tidx l with
          | Some (nidx, next_) =>
              if inst next_ isa1
              then '(l', _) <- group_tokens cls1 tidx (S nidx) ext1 l ;; Ok (l', tidx)
              else Ok (l, tidx)
          | None => Ok (l, tidx)
          end) l.

Definition f_align_comments_of (i1 : list cls) (isa1 : cls) (cls1 : cls) (ext1 : bool)
           (_ : cls) (l : list node) : res (list node) :=
  scan (next_by_from i1 [] TNone)
       (fun tidx _ l =>
          match token_prev true false tidx l with
          | Some (pidx, prev_) =>
              if inst prev_ isa1
              then '(l', _) <- group_tokens cls1 pidx (S tidx) ext1 l ;; Ok (l', pidx)
              else Ok (l, tidx)
          | None => Ok (l, tidx)
          end) l.

Section ValuesScan.
Variable isa1 : cls.
Fixpoint values_scan_of (fuel : nat) (tidx : nat) (token : node) (end_idx : option nat)
         (l : list node) : res (option nat) :=
  match fuel with
  | O => Err Stuck
  | S fuel' =>
      let end_idx' := if inst token isa1 then Some tidx else end_idx in
      match token_next true false tidx l with
      | Some (nidx, next_) => values_scan_of fuel' nidx next_ end_idx' l
      | None => Ok end_idx'
      end
  end.
End ValuesScan.

Definition group_values_of (m1 : list pat) (isa1 : cls) (cls1 : cls) (ext1 : bool) (n : node)
  : res node :=
  match n with
  | Leaf _ _ => Ok n
  | Grp c v l =>
      match next_by_from [] m1 TNone 0 l with
      | None => Ok n
      | Some (start_idx, token) =>
          e <- values_scan_of isa1 (S (length l)) start_idx token None l ;;
          match e with
          | None => Ok n
          | Some end_idx =>
              '(l', _) <- group_tokens cls1 start_idx (S end_idx) ext1 l ;; Ok (Grp c v l')
          end
      end
  end.
