(* C18, "barrier lemma": definitions.  A statement whose first significant child is a DML/DDL keyword
   LEAF keeps that leaf as a direct child, preceded only by skippable children, through all 25
   grouping passes - provided the guard below holds.  No proofs in this file. *)
From SqlModel Require Import Base PyStr Node Passes.
From SqlModel.Gen Require Import CaseTabs.

(* what Statement.get_type's token_first(skip_cm=True) skips: whitespace leaves, comment leaves,
   Comment groups (the same function as Acc/AccFacts.skippable) *)
Definition bskip (n : node) : bool := negb (skip_matcher true true n).

(* the first sibling that is not whitespace: what token_next(idx, skip_ws=True) returns *)
Fixpoint nx (l : list node) : option node :=
  match l with
  | [] => None
  | x :: l' => if is_ws x then nx l' else Some x
  end.

(* the three leaves that swallow the token in front of them, whatever it is (valid_prev of
   group_typecasts / group_tzcasts is `token is not None`, valid_prev of group_assignment only
   refuses ttype == T.Keyword exactly) *)
Definition is_dcolon (n : node) : bool := match_pat n (T_Punctuation, Some [s_dcolon]).
Definition is_assign (n : node) : bool := match_pat n (T_Assignment, Some [s_assign]).
Definition is_tzcast (n : node) : bool := tt_is n T_TZCast.
Definition bad_next (n : node) : bool := is_dcolon n || is_assign n || is_tzcast n.

(* GUARD 1: the first non-whitespace sibling after the keyword is none of the three *)
Definition next_ok (rest : list node) : bool :=
  match nx rest with Some t => negb (bad_next t) | None => true end.

(* GUARD 2 (only matters when the keyword token is not what the lexer produces): the keyword's
   value is neither AS nor NULL in any casing (group_as matches `is_keyword and normalized == 'AS'`,
   group_as / group_comparison accept `is_keyword and normalized == 'NULL'` as left operand;
   is_keyword is the prefix test, true of a Keyword.DML leaf) *)
Definition kw_ok (kw : text) : bool :=
  negb (text_eqb (knorm kw) s_AS) && negb (text_eqb (knorm kw) s_NULL).

(* GUARD 3: at most one `:=` among the statement's tokens (group_assignment groups up to a far-away
   `;` and then walks the rest of its snapshot with stale indices: a second `:=` can then group
   tokens far to the LEFT of itself, the keyword included) *)
Definition tok_assign (tk : tok) : bool := ttype_eqb (fst tk) T_Assignment && text_eqb (snd tk) s_assign.
Definition cntA (toks : list tok) : nat := length (filter tok_assign toks).
Definition cnt_top (l : list node) : nat := length (filter is_assign l).

(* the same guards on the token list of a statement *)
Definition leaf_of (tk : tok) : node := Leaf (fst tk) (snd tk).
Definition tok_skippable (tk : tok) : bool := tin (fst tk) T_Whitespace || tin (fst tk) T_Comment.
Definition tok_next_ok (rest : list tok) : bool := next_ok (map leaf_of rest).

(* boolean version of "the keyword leaf leads the sibling list": the first child that is not
   skippable is a leaf of type Keyword.DML / Keyword.DDL with value kw *)
Definition leadsb (kw : text) (l : list node) : bool :=
  match find_from (skip_matcher true true) 0 l with
  | Some (_, Leaf ty v) => existsb (ttype_eqb ty) [T_DML; T_DDL] && text_eqb v kw
  | _ => false
  end.

(* the whole guard of the token-level theorem, decidable *)
Definition barrier_guard (pre : list tok) (ty : ttype) (kw : text) (rest : list tok) : bool :=
  forallb tok_skippable pre && existsb (ttype_eqb ty) [T_DML; T_DDL] && kw_ok kw
  && tok_next_ok rest && Nat.leb (cntA rest) 1.

(* the searches of the ad-hoc passes *)
Definition q_comment (n : node) : bool := imt (Some n) [] [] (TOne T_Comment).
Definition q_over (n : node) : bool := imt (Some n) [] (m_open COver) TNone.
Definition q_name (n : node) : bool := imt (Some n) [] [] (TOne T_Name).
Definition q_where (n : node) : bool := imt (Some n) [] (m_open CWhere) TNone.
Definition q_ident (n : node) : bool := imt (Some n) [] [] (TMany [T_Symbol; T_Name]).
Definition q_order (n : node) : bool := imt (Some n) [] [] (TOne T_Order).
Definition q_aliased (n : node) : bool :=
  imt (Some n) [CParenthesis; CFunction; CCase; CIdentifier; COperation; CComparison] [] (TOne T_Number).
Definition q_cgroup (n : node) : bool := imt (Some n) [CComment] [] TNone.
Definition q_values (n : node) : bool := imt (Some n) [] [(T_Keyword, Some [s_VALUES])] TNone.


(* the classes group_matching is called with *)
Definition mcls (c : cls) : bool :=
  match c with
  | CSquareBrackets | CParenthesis | CCase | CIf | CFor | CBegin => true
  | _ => false
  end.

