(* (T)  grouping.group never raises, whatever the token list;
   (NE) no pass creates an empty group.
   The 25 passes are threaded with the invariant
        Inv n := bok n /\ top_ok n       (every Parenthesis / SquareBrackets list still starts with
                                          its opener and ends with its closer; the root is not
                                          itself a bracket group)
   which passes 1-10 preserve and only group_where (pass 10) needs; passes 11-25 are total on
   every tree. *)
From SqlModel Require Import Base PyStr Node Inv Passes GroupFacts MatchSpec MatchFacts
     TotalDefs TotalBase DriverTotal ScanTotal ShapeFacts.
From Coq Require Import ZArith.

Definition pass_total (ps : node -> res node) : Prop :=
  forall n, exists n', ps n = Ok n' /\ kid_rel n n'.

Definition pass_brk (ps : node -> res node) : Prop :=
  forall n, bok n -> top_ok n = true -> exists n', ps n = Ok n' /\ kid_rel n n' /\ bok n'.

Lemma kid_rel_trans a b c : kid_rel a b -> kid_rel b c -> kid_rel a c.
Proof.
  intros (A1 & A2 & A3 & A4) (B1 & B2 & B3 & B4). split; [|split; [|split]]; auto.
  - intros G. pose proof (A1 G) as E. subst b. apply B1, G.
  - intros c0 v kids E. destruct (A2 _ _ _ E) as (k1 & E1). apply (B2 _ _ _ E1).
Qed.

Lemma pass_brk_of_total_brk ps :
  (forall n, bok n -> top_ok n = true -> exists n', ps n = Ok n' /\ kid_rel n n' /\ bok n') -> pass_brk ps.
Proof. auto. Qed.

(* ---- every pass ------------------------------------------------------------------------------------ *)
Lemma pt_driver p : loop_total p -> pass_total (group_driver p).
Proof. intros H n. apply group_driver_total, H. Qed.

Lemma pt_driver_flat p : loop_total p -> pass_total (group_driver_flat p).
Proof. intros H n. apply group_driver_flat_total, H. Qed.

Lemma pt_recurse skip f : f_total f -> pass_total (recurse_pass skip f).
Proof. intros H n. apply recurse_pass_total, H. Qed.

Lemma pb_recurse skip f : f_brk f -> pass_brk (recurse_pass skip f).
Proof. intros H n Hb _. apply recurse_pass_brk; assumption. Qed.

Lemma pt_matching c : pass_total (group_matching c).
Proof. intros n. apply group_matching_total'. Qed.

Lemma pb_matching c : pass_brk (group_matching c).
Proof. intros n Hb Ht. apply group_matching_bok; assumption. Qed.

Lemma pt_typed_literal :
  pass_total (fun n => n1 <- group_driver p_typed_literal1 n ;; group_driver p_typed_literal2 n1).
Proof.
  intros n. destruct (group_driver_total _ lt_typed1 n) as (n1 & E1 & R1). rewrite E1. cbn [bind].
  destruct (group_driver_total _ lt_typed2 n1) as (n2 & E2 & R2). exists n2.
  split; [exact E2 | eapply kid_rel_trans; eauto].
Qed.

(* passes 1-10 keep the bracket shape (and are total under it) *)
Lemma passes_brk10 : Forall pass_brk (firstn 10 passes).
Proof.
  cbn [firstn passes].
  repeat match goal with
         | |- Forall _ (_ :: _) => apply Forall_cons
         | |- Forall _ [] => apply Forall_nil
         end.
  - apply pb_recurse, fb_comments.
  - apply pb_matching.
  - apply pb_matching.
  - apply pb_matching.
  - apply pb_matching.
  - apply pb_matching.
  - apply pb_matching.
  - apply pb_recurse, fb_over.
  - apply pb_recurse, fb_functions.
  - apply pb_recurse, fb_where.
Qed.

(* passes 1-9 are moreover total on EVERY tree *)
Lemma passes_total9 : Forall pass_total (firstn 9 passes).
Proof.
  cbn [firstn passes].
  repeat match goal with
         | |- Forall _ (_ :: _) => apply Forall_cons
         | |- Forall _ [] => apply Forall_nil
         end.
  - apply pt_recurse, ft_comments.
  - apply pt_matching.
  - apply pt_matching.
  - apply pt_matching.
  - apply pt_matching.
  - apply pt_matching.
  - apply pt_matching.
  - apply pt_recurse, ft_over.
  - apply pt_recurse, ft_functions.
Qed.

(* passes 11-25 are total on every tree *)
Lemma passes_total_rest : Forall pass_total (skipn 10 passes).
Proof.
  cbn [skipn passes].
  repeat match goal with
         | |- Forall _ (_ :: _) => apply Forall_cons
         | |- Forall _ [] => apply Forall_nil
         end.
  - apply pt_driver, lt_period.
  - apply pt_driver_flat, lt_arrays.
  - apply pt_recurse, ft_identifier.
  - apply pt_recurse, ft_order.
  - apply pt_driver, lt_typecasts.
  - apply pt_driver, lt_tzcasts.
  - apply pt_typed_literal.
  - apply pt_driver, lt_operator.
  - apply pt_driver, lt_comparison.
  - apply pt_driver, lt_as.
  - apply pt_recurse, ft_aliased.
  - apply pt_driver, lt_assignment.
  - apply pt_recurse, ft_align_comments.
  - apply pt_driver, lt_idlist.
  - intros n. apply group_values_total.
Qed.

Lemma nth_error_firstn_lt {A} (l : list A) n k : k < n -> nth_error (firstn n l) k = nth_error l k.
Proof.
  revert l k; induction n as [|n IH]; intros l k H; [lia|].
  destruct l as [|x l]; [destruct k; reflexivity|]. destruct k as [|k]; [reflexivity|].
  cbn [firstn nth_error]. apply IH. lia.
Qed.

(* the statement of `passes_total` asked for: every pass is total under the invariant it needs *)
Definition pass_inv (k : nat) (n : node) : Prop := k <= 10 -> bok n /\ top_ok n = true.

Theorem passes_total : forall k ps, nth_error passes k = Some ps ->
  forall n, pass_inv (S k) n -> exists n', ps n = Ok n' /\ kid_rel n n' /\ pass_inv (S (S k)) n'.
Proof.
  intros k ps Hk n HI.
  destruct (Nat.le_gt_cases (S k) 10) as [Hle | Hgt].
  - destruct (HI Hle) as [Hb Ht].
    assert (Hps : pass_brk ps).
    { pose proof passes_brk10 as HF. rewrite Forall_forall in HF. apply HF.
      apply nth_error_In with (n := k). rewrite nth_error_firstn_lt by lia. exact Hk. }
    destruct (Hps n Hb Ht) as (n' & E & R & B). exists n'. split; [exact E|]. split; [exact R|].
    intros _. split; [exact B | eapply kid_rel_top; eauto].
  - assert (Hps : pass_total ps).
    { pose proof passes_total_rest as HF. rewrite Forall_forall in HF. apply HF.
      apply nth_error_In with (n := k - 10). rewrite nth_error_skipn'.
      replace (10 + (k - 10)) with k by lia. exact Hk. }
    destruct (Hps n) as (n' & E & R). exists n'. split; [exact E|]. split; [exact R|].
    intros H. lia.
Qed.

(* ---- running a list of passes ------------------------------------------------------------------------ *)
Lemma run_passes_app a b n : run_passes (a ++ b) n = n1 <- run_passes a n ;; run_passes b n1.
Proof.
  revert n; induction a as [|ps a IH]; intros n; cbn [app run_passes bind]; [reflexivity|].
  destruct (ps n) as [n1|]; cbn [bind]; [apply IH | reflexivity].
Qed.

Lemma run_passes_total ps : Forall pass_total ps ->
  forall n, exists n', run_passes ps n = Ok n' /\ kid_rel n n'.
Proof.
  induction 1 as [|q ps Hq _ IH]; intros n; cbn [run_passes].
  - exists n. split; [reflexivity | apply kid_rel_refl].
  - destruct (Hq n) as (n1 & E1 & R1). rewrite E1. cbn [bind].
    destruct (IH n1) as (n' & E & R). exists n'. split; [exact E | eapply kid_rel_trans; eauto].
Qed.

Lemma run_passes_brk ps : Forall pass_brk ps ->
  forall n, bok n -> top_ok n = true ->
  exists n', run_passes ps n = Ok n' /\ kid_rel n n' /\ bok n' /\ top_ok n' = true.
Proof.
  induction 1 as [|q ps Hq _ IH]; intros n Hb Ht; cbn [run_passes].
  - exists n. split; [reflexivity|]. split; [apply kid_rel_refl | auto].
  - destruct (Hq n Hb Ht) as (n1 & E1 & R1 & B1). rewrite E1. cbn [bind].
    destruct (IH n1 B1 (kid_rel_top _ _ R1 Ht)) as (n' & E & R & B & T). exists n'.
    split; [exact E|]. split; [eapply kid_rel_trans; eauto | auto].
Qed.

Lemma run_passes_two a b : Forall pass_brk a -> Forall pass_total b ->
  forall n, bok n -> top_ok n = true -> exists n', run_passes (a ++ b) n = Ok n' /\ kid_rel n n'.
Proof.
  intros Ha Hb n Hn Ht. rewrite run_passes_app.
  destruct (run_passes_brk a Ha n Hn Ht) as (n1 & E1 & R1 & _). rewrite E1. cbn [bind].
  destruct (run_passes_total b Hb n1) as (n' & E & R). exists n'.
  split; [exact E | eapply kid_rel_trans; eauto].
Qed.

Lemma firstn_passes_split k :
  firstn k passes = firstn k (firstn 10 passes) ++ firstn (k - 10) (skipn 10 passes).
Proof.
  rewrite <- (firstn_skipn 10 passes) at 1. rewrite firstn_app.
  replace (length (firstn 10 passes)) with 10 by reflexivity. reflexivity.
Qed.

(* ---- MAIN ---------------------------------------------------------------------------------------------- *)
(* every prefix of the pipeline is total on every tree that has the bracket shape *)
Theorem group_upto_total_inv : forall k n, bok n -> top_ok n = true ->
  exists n', group_upto k n = Ok n' /\ kid_rel n n'.
Proof.
  intros k n Hb Ht. unfold group_upto. rewrite firstn_passes_split.
  apply run_passes_two; auto.
  - apply Forall_firstn, passes_brk10.
  - apply Forall_firstn, passes_total_rest.
Qed.

(* the first nine passes are total on every tree *)
Theorem group_upto9_total_any : forall k n, k <= 9 -> exists n', group_upto k n = Ok n' /\ kid_rel n n'.
Proof.
  intros k n Hk. unfold group_upto. apply run_passes_total.
  replace (firstn k passes) with (firstn k (firstn 9 passes)).
  - apply Forall_firstn, passes_total9.
  - rewrite firstn_firstn. f_equal. lia.
Qed.

Theorem group_total_inv : forall n, bok n -> top_ok n = true ->
  exists n', group n = Ok n' /\ kid_rel n n'.
Proof.
  intros n Hb Ht. destruct (group_upto_total_inv 25 n Hb Ht) as (n' & E & R).
  exists n'. split; [exact E | exact R].
Qed.

(* the statements the splitter builds *)
Lemma statement_bok toks : bok (statement_of toks).
Proof.
  unfold statement_of. apply brk_ok_grp. split; [|reflexivity].
  apply Forall_forall. intros x Hx. apply in_map_iff in Hx. destruct Hx as (tk & <- & _). reflexivity.
Qed.

Lemma statement_top toks : top_ok (statement_of toks) = true.
Proof. reflexivity. Qed.

(* (T) *)
Theorem group_total : forall toks, exists n', group (statement_of toks) = Ok n'.
Proof.
  intros toks. destruct (group_total_inv _ (statement_bok toks) (statement_top toks)) as (n' & E & _).
  eauto.
Qed.

Theorem group_upto_total : forall k toks, exists n', group_upto k (statement_of toks) = Ok n'.
Proof.
  intros k toks.
  destruct (group_upto_total_inv k _ (statement_bok toks) (statement_top toks)) as (n' & E & _).
  eauto.
Qed.

(* (NE) *)
Theorem group_nonempty : forall n n', group n = Ok n' -> brk_ok n = true -> top_ok n = true ->
  nonempty_groups n = true -> nonempty_groups n' = true.
Proof.
  intros n n' H Hb Ht Hne. destruct (group_total_inv n Hb Ht) as (n'' & E & (_ & _ & R & _)).
  rewrite H in E. injection E as <-. apply R, Hne.
Qed.

Theorem group_nonempty_below : forall n n', group n = Ok n' -> brk_ok n = true -> top_ok n = true ->
  nonempty_below n = true -> nonempty_below n' = true.
Proof.
  intros n n' H Hb Ht Hne. destruct (group_total_inv n Hb Ht) as (n'' & E & (_ & _ & _ & R)).
  rewrite H in E. injection E as <-. unfold nonempty_below in *. apply forallb_Forall.
  apply R. apply forallb_Forall, Hne.
Qed.

Theorem group_upto_nonempty : forall k n n', group_upto k n = Ok n' -> brk_ok n = true ->
  top_ok n = true -> nonempty_groups n = true -> nonempty_groups n' = true.
Proof.
  intros k n n' H Hb Ht Hne. destruct (group_upto_total_inv k n Hb Ht) as (n'' & E & (_ & _ & R & _)).
  rewrite H in E. injection E as <-. apply R, Hne.
Qed.

(* for the splitter's statements: no empty group anywhere below the statement *)
Theorem group_statement_nonempty : forall toks n',
  group (statement_of toks) = Ok n' -> nonempty_below n' = true.
Proof.
  intros toks n' H. eapply group_nonempty_below; [exact H | apply statement_bok | reflexivity|].
  unfold nonempty_below, statement_of. cbn [mk_grp nkids]. apply forallb_Forall.
  apply Forall_forall. intros x Hx. apply in_map_iff in Hx. destruct Hx as (tk & <- & _). reflexivity.
Qed.

Theorem group_statement_nonempty' : forall toks n', toks <> [] ->
  group (statement_of toks) = Ok n' -> nonempty_groups n' = true.
Proof.
  intros toks n' Hn H. eapply group_nonempty; [exact H | apply statement_bok | reflexivity|].
  apply ne_grp. split.
  - destruct toks; [contradiction | discriminate].
  - apply Forall_forall. intros x Hx. apply in_map_iff in Hx. destruct Hx as (tk & <- & _). reflexivity.
Qed.

Print Assumptions passes_total.
Print Assumptions group_upto_total_inv.
Print Assumptions group_total.
Print Assumptions group_upto_total.
Print Assumptions group_nonempty.
Print Assumptions group_statement_nonempty.

(* ---- what is NOT true, and examples --------------------------------------------------------------------- *)
(* without the bracket shape group_where raises: (T) does not hold for arbitrary trees *)
Theorem group_total_needs_shape_refuted : exists n, top_ok n = true /\ group n = Err IndexError.
Proof. exists bad_paren1. split; vm_compute; reflexivity. Qed.

(* ... or does not terminate: with WHERE as LAST child of a Parenthesis, _groupable_tokens[-1] lies
   before it, group_tokens(tidx, tidx-1) inserts an EMPTY Where group in front of the keyword, and
   the search finds the same keyword again, forever (the model runs out of fuel: Err Stuck) *)
Theorem group_where_diverges_without_shape_refuted :
  exists n, top_ok n = true /\ nonempty_groups n = true /\ group n = Err Stuck.
Proof. exists bad_paren2. repeat split; vm_compute; reflexivity. Qed.

(* the input on which the tidx_offset DEcreases (to_idx < from_idx in group_assignment): the
   model with a natural-number offset answered Err Stuck here *)
Example group_negative_offset_example :
  match group_loop p_assignment
          [Leaf T_DML [115; 101; 108; 101; 99; 116]%N; Leaf T_Punctuation s_comma;
           mk_grp CIdentifier [Leaf T_Name [97]%N]; Leaf T_Assignment s_assign;
           Leaf T_Assignment s_assign; mk_grp CIdentifier [Leaf T_Name [99]%N];
           Leaf T_Punctuation s_semi] 0
          (ginit [Leaf T_DML [115; 101; 108; 101; 99; 116]%N; Leaf T_Punctuation s_comma;
                  mk_grp CIdentifier [Leaf T_Name [97]%N]; Leaf T_Assignment s_assign;
                  Leaf T_Assignment s_assign; mk_grp CIdentifier [Leaf T_Name [99]%N];
                  Leaf T_Punctuation s_semi]) with
  | Ok s => g_off s = 3%Z /\ length (g_live s) = 3
  | Err _ => False
  end.
Proof. vm_compute. split; reflexivity. Qed.

Example group_stuck_toks_example :
  exists n', group (statement_of stuck_toks) = Ok n' /\ nonempty_groups n' = true.
Proof. eexists. split; vm_compute; reflexivity. Qed.

(* the hypotheses of group_nonempty / group_total_inv on a non-flat input:  ( a where b ) [ c ] *)
Example group_total_inv_example :
  let n := mk_grp CStatement
             [mk_grp CParenthesis [Leaf T_Punctuation s_lparen; Leaf T_Name [97]%N; kw_where;
                                   Leaf T_Name [98]%N; Leaf T_Punctuation s_rparen];
              mk_grp CSquareBrackets [Leaf T_Punctuation s_lbrack; Leaf T_Name [99]%N;
                                      Leaf T_Punctuation s_rbrack]] in
  brk_ok n = true /\ top_ok n = true /\ nonempty_groups n = true /\
  match group n with Ok n' => nonempty_groups n' = true | Err _ => False end.
Proof. vm_compute. repeat split; reflexivity. Qed.
