(* C18, "barrier lemma": a DML/DDL keyword leaf that leads a sibling list (preceded by skippable
   siblings only) still leads it after each of the 25 grouping passes, under the guard of
   BarrierDefs.v.  Every pass is treated; the two generic drivers once, generically in the parameter
   record. *)
From SqlModel Require Import Base PyStr Node Inv Passes GroupFacts MatchSpec MatchFacts
     TotalDefs TotalBase DriverTotal ScanTotal ShapeFacts TotalFacts BarrierDefs.
From SqlModel.Gen Require Import CaseTabs.
From Coq Require Import ZArith.

(* ================================================================================================ *)
(* 1. the "same head" relation: what the per-child recursion of every pass does to a sibling       *)
Definition hrel (k k' : node) : Prop :=
  match k with
  | Leaf _ _ => k' = k
  | Grp c v _ => exists kids', k' = Grp c v kids'
  end.

Lemma hrel_refl k : hrel k k.
Proof. destruct k; cbn [hrel]; eauto. Qed.

Lemma hrel_ws k k' : hrel k k' -> is_ws k' = is_ws k.
Proof. destruct k; cbn [hrel]; [intros ->; reflexivity | intros (kids' & ->); reflexivity]. Qed.

Lemma hrel_bad k k' : hrel k k' -> bad_next k' = bad_next k.
Proof. destruct k; cbn [hrel]; [intros ->; reflexivity | intros (kids' & ->); reflexivity]. Qed.

Lemma hrel_bskip k k' : hrel k k' -> bskip k' = bskip k.
Proof. destruct k; cbn [hrel]; [intros ->; reflexivity | intros (kids' & ->); reflexivity]. Qed.

Lemma hrel_assign k k' : hrel k k' -> is_assign k' = is_assign k.
Proof. destruct k; cbn [hrel]; [intros ->; reflexivity | intros (kids' & ->); reflexivity]. Qed.

Lemma hrel_leaf ty v k' : hrel (Leaf ty v) k' -> k' = Leaf ty v.
Proof. auto. Qed.

Lemma Forall2_hrel_refl l : Forall2 hrel l l.
Proof. induction l; constructor; auto using hrel_refl. Qed.

Lemma hrel_nx l l' : Forall2 hrel l l' ->
  match nx l with
  | None => nx l' = None
  | Some t => exists t', nx l' = Some t' /\ hrel t t'
  end.
Proof.
  induction 1 as [|x y l l' Hxy _ IH]; cbn [nx]; [reflexivity|].
  rewrite (hrel_ws _ _ Hxy). destruct (is_ws x); [exact IH | eauto].
Qed.

Lemma hrel_next_ok l l' : Forall2 hrel l l' -> next_ok l = true -> next_ok l' = true.
Proof.
  intros H. unfold next_ok. pose proof (hrel_nx _ _ H) as Hn.
  destruct (nx l) as [t|]; [|rewrite Hn; auto].
  destruct Hn as (t' & -> & Ht). rewrite (hrel_bad _ _ Ht). auto.
Qed.

Lemma hrel_bskip_all l l' : Forall2 hrel l l' -> forallb bskip l = true -> forallb bskip l' = true.
Proof.
  induction 1 as [|x y l l' Hxy _ IH]; cbn [forallb]; [auto|].
  rewrite (hrel_bskip _ _ Hxy). intros H. apply andb_true_iff in H. destruct H as [-> H]. auto.
Qed.

Lemma hrel_cnt_top l l' : Forall2 hrel l l' -> cnt_top l' = cnt_top l.
Proof.
  unfold cnt_top. induction 1 as [|x y l l' Hxy _ IH]; cbn [filter]; [reflexivity|].
  rewrite (hrel_assign _ _ Hxy). destruct (is_assign x); cbn [length]; congruence.
Qed.

(* every pass function returns a leaf unchanged and a group with its class and cached value *)
Lemma hrel_recurse skip f n n' : recurse_pass skip f n = Ok n' -> hrel n n'.
Proof.
  destruct n as [ty v | c v kids]; cbn [recurse_pass hrel].
  - intros H; injection H as <-; reflexivity.
  - destruct (mapM _ kids) as [k1|]; [|discriminate]. cbn [bind].
    destruct (f c k1) as [k2|]; [|discriminate]. cbn [bind]. intros H; injection H as <-. eauto.
Qed.

Lemma hrel_matching c n n' : group_matching c n = Ok n' -> hrel n n'.
Proof.
  destruct n as [ty v | c0 v kids]; cbn [group_matching hrel].
  - intros H; injection H as <-; reflexivity.
  - destruct (mapM _ kids) as [k1|]; [|discriminate]. cbn [bind].
    destruct (matching_loop c k1 0 k1 [] 0) as [k2|]; [|discriminate]. cbn [bind].
    intros H; injection H as <-. eauto.
Qed.

Lemma hrel_driver p n n' : group_driver p n = Ok n' -> hrel n n'.
Proof.
  destruct n as [ty v | c0 v kids]; cbn [group_driver hrel].
  - intros H; injection H as <-; reflexivity.
  - destruct (group_loop p kids 0 (ginit kids)) as [dry|]; [|discriminate]. cbn [bind].
    destruct (mapM2 _ false kids (rev (g_rec dry))) as [k1|]; [|discriminate]. cbn [bind].
    destruct (group_loop p k1 0 (ginit k1)) as [fin|]; [|discriminate]. cbn [bind].
    intros H; injection H as <-. eauto.
Qed.

Lemma mapM_hrel (f : node -> res node) l l' :
  (forall k k', f k = Ok k' -> hrel k k') -> mapM f l = Ok l' -> Forall2 hrel l l'.
Proof.
  intros Hf. revert l'. induction l as [|k l IH]; intros l' H; cbn [mapM] in H.
  - injection H as <-. constructor.
  - destruct (f k) as [k'|] eqn:E; [|discriminate]. cbn [bind] in H.
    destruct (mapM f l) as [r|] eqn:E2; [|discriminate]. cbn [bind] in H. injection H as <-.
    constructor; auto.
Qed.

Lemma mapM2_hrel {C} (f : node -> C -> res node) (d : C) l m l' :
  (forall k c k', f k c = Ok k' -> hrel k k') -> mapM2 f d l m = Ok l' -> Forall2 hrel l l'.
Proof.
  intros Hf. revert m l'. induction l as [|k l IH]; intros m l' H; cbn [mapM2] in H.
  - injection H as <-. constructor.
  - destruct (f k _) as [k'|] eqn:E; [|discriminate]. cbn [bind] in H.
    destruct (mapM2 f d l (tl m)) as [r|] eqn:E2; [|discriminate]. cbn [bind] in H.
    injection H as <-. constructor; eauto.
Qed.

(* ================================================================================================ *)
(* 2. the first non-whitespace sibling                                                              *)
Lemma bad_next_group g : is_group g = true -> bad_next g = false.
Proof. destruct g; [discriminate | reflexivity]. Qed.

Lemma is_ws_group g : is_group g = true -> is_ws g = false.
Proof. destruct g; [discriminate | reflexivity]. Qed.

Lemma nx_app a b : nx (a ++ b) = match nx a with Some t => Some t | None => nx b end.
Proof.
  induction a as [|x a IH]; cbn [app nx]; [reflexivity|]. destruct (is_ws x); [exact IH | reflexivity].
Qed.

Lemma nx_ws a : Forall (fun y => is_ws y = true) a -> nx a = None.
Proof. induction 1 as [|x a Hx _ IH]; cbn [nx]; [reflexivity|]. rewrite Hx. exact IH. Qed.

Lemma nx_ws_app a b : Forall (fun y => is_ws y = true) a -> nx (a ++ b) = nx b.
Proof. intros H. rewrite nx_app, (nx_ws _ H). reflexivity. Qed.

(* replacing a slice that starts anywhere by a group keeps the guard *)
Lemma next_ok_splice X g Y : next_ok X = true -> is_group g = true ->
  forall j, next_ok (firstn j X ++ g :: Y) = true.
Proof.
  intros HX Hg. unfold next_ok in *.
  assert (Hgg : forall Z, match nx (g :: Z) with Some t => negb (bad_next t) | None => true end = true).
  { intros Z. cbn [nx]. rewrite (is_ws_group _ Hg), (bad_next_group _ Hg). reflexivity. }
  induction X as [|x X IH]; intros j.
  - rewrite firstn_nil. apply Hgg.
  - destruct j as [|j]; [apply Hgg|]. cbn [firstn app nx] in *.
    destruct (is_ws x); [apply IH, HX | exact HX].
Qed.

Lemma next_ok_prefix a b : next_ok (a ++ b) = true -> next_ok a = true.
Proof.
  unfold next_ok. rewrite nx_app. destruct (nx a); auto.
Qed.

(* ================================================================================================ *)
(* 3. lists                                                                                         *)
Lemma firstn_app_ge {A} (P r : list A) n : length P <= n -> firstn n (P ++ r) = P ++ firstn (n - length P) r.
Proof. intros H. rewrite firstn_app, firstn_all2 by exact H. reflexivity. Qed.

Lemma firstn_app_le {A} (P r : list A) n : n <= length P -> firstn n (P ++ r) = firstn n P.
Proof.
  intros H. rewrite firstn_app. replace (n - length P) with 0 by lia. cbn [firstn]. apply app_nil_r.
Qed.

Lemma skipn_app_le {A} (P r : list A) n : n <= length P -> skipn n (P ++ r) = skipn n P ++ r.
Proof.
  intros H. rewrite skipn_app. replace (n - length P) with 0 by lia. reflexivity.
Qed.

Lemma nth_error_split3 {A} (pre : list A) K rest i x :
  nth_error (pre ++ K :: rest) i = Some x ->
  (i < length pre /\ In x pre) \/ (i = length pre /\ x = K) \/ length pre < i.
Proof.
  intros H. destruct (Nat.lt_trichotomy i (length pre)) as [Hlt | [Heq | Hgt]].
  - left. split; [exact Hlt|]. rewrite nth_error_app1 in H by exact Hlt. eapply nth_error_In; eauto.
  - right; left. split; [exact Heq|]. subst i. rewrite nth_error_app_mid in H. congruence.
  - right; right. exact Hgt.
Qed.

Lemma forallb_In_true {A} (f : A -> bool) l x : forallb f l = true -> In x l -> f x = true.
Proof. intros H Hx. exact (proj1 (forallb_forall f l) H x Hx). Qed.

(* ================================================================================================ *)
(* 4. group_tokens to the right of / inside a prefix                                                *)
Lemma group_tokens_group c start stop ext l l' g :
  group_tokens c start stop ext l = Ok (l', g) ->
  is_group g = true /\ exists m, l' = firstn start l ++ g :: skipn m l /\ start <= m.
Proof.
  intros H. apply group_tokens_inv in H.
  destruct H as (first & E & [(X & c' & v & kids & -> & -> & ->) | (X & -> & ->)]).
  - split; [reflexivity|]. eexists. split; [reflexivity | lia].
  - split; [reflexivity|]. eexists. split; [reflexivity | lia].
Qed.

Lemma gt_after c start stop ext P rest l' g :
  length P <= start -> group_tokens c start stop ext (P ++ rest) = Ok (l', g) ->
  exists rest', l' = P ++ rest' /\ (next_ok rest = true -> next_ok rest' = true).
Proof.
  intros Hs H. apply group_tokens_group in H. destruct H as (Hg & m & -> & _).
  rewrite firstn_app_ge by exact Hs. rewrite <- app_assoc.
  eexists. split; [reflexivity|]. intros Hn. apply next_ok_splice; assumption.
Qed.

Lemma group_tokens_bound c start stop ext l l' g :
  group_tokens c start stop ext l = Ok (l', g) ->
  exists m, l' = firstn start l ++ g :: skipn m l /\ m <= Nat.max (S start) stop.
Proof.
  intros H. apply group_tokens_inv in H.
  destruct H as (first & E & [(X & c' & v & kids & -> & -> & ->) | (X & -> & ->)]);
    eexists; (split; [reflexivity | lia]).
Qed.

Lemma forallb_firstn {A} (q : A -> bool) n l : forallb q l = true -> forallb q (firstn n l) = true.
Proof.
  revert n. induction l as [|x l IH]; intros [|n] H; cbn [firstn forallb] in *; auto.
  apply andb_true_iff in H. destruct H as [-> H]. cbn [andb]. auto.
Qed.

Lemma forallb_skipn {A} (q : A -> bool) n l : forallb q l = true -> forallb q (skipn n l) = true.
Proof.
  revert n. induction l as [|x l IH]; intros [|n] H; cbn [skipn forallb] in *; auto.
  apply andb_true_iff in H. destruct H as [_ H]. auto.
Qed.

(* a call that stays inside the prefix [pre] *)
Lemma gt_before c start stop ext pre X l' g :
  start < length pre -> stop <= length pre ->
  group_tokens c start stop ext (pre ++ X) = Ok (l', g) ->
  exists a b, l' = (a ++ g :: b) ++ X /\
              (forall q, forallb q pre = true -> forallb q a = true /\ forallb q b = true).
Proof.
  intros Hs Ht H. apply group_tokens_bound in H. destruct H as (m & -> & Hm).
  exists (firstn start pre), (skipn m pre).
  rewrite firstn_app_le by lia. rewrite skipn_app_le by lia.
  split; [rewrite <- app_assoc; reflexivity|].
  intros q Hq. split; [apply forallb_firstn | apply forallb_skipn]; exact Hq.
Qed.

(* ================================================================================================ *)
(* 5. the keyword leaf and the skippable siblings, as seen by the tests of the passes               *)
Definition isK (n : node) : Prop :=
  exists ty kw, n = Leaf ty kw /\ (ty = T_DML \/ ty = T_DDL) /\ kw_ok kw = true.

Lemma bskip_grp c v kids : bskip (Grp c v kids) = cls_eqb c CComment.
Proof. destruct c; reflexivity. Qed.

Lemma tin_cons_inv ty a s : tin ty (a :: s) = true -> exists r, ty = a :: r /\ tin r s = true.
Proof.
  destruct ty as [|b r]; cbn [tin]; [discriminate|]. intros H. apply andb_true_iff in H.
  destruct H as [H1 H2]. apply tcomp_eqb_eq in H1. subst b. eauto.
Qed.

Lemma bskip_cases y : bskip y = true ->
  (exists r v, y = Leaf (Text :: Whitespace :: r) v) \/ (exists r v, y = Leaf (Comment :: r) v) \/
  (exists v kids, y = Grp CComment v kids).
Proof.
  destruct y as [ty v | c v kids].
  - unfold bskip, skip_matcher, imt, inst_any, tmatch, is_ws, tt_in. cbn [existsb inst andb orb].
    rewrite negb_involutive. intros H. apply orb_true_iff in H. destruct H as [H | H].
    + left. unfold T_Whitespace in H. apply tin_cons_inv in H. destruct H as (r1 & -> & H).
      apply tin_cons_inv in H. destruct H as (r2 & -> & _). eauto.
    + right; left. unfold T_Comment in H. apply tin_cons_inv in H. destruct H as (r1 & -> & _). eauto.
  - rewrite bskip_grp. intros H. apply cls_eqb_eq in H. subst c. right; right. eauto.
Qed.

(* a test that neither the keyword leaf nor a skippable sibling passes *)
Definition inertK (q : node -> bool) : Prop := forall n, isK n -> q n = false.
Definition inertS (q : node -> bool) : Prop := forall y, bskip y = true -> q y = false.

Ltac k_tac :=
  unfold inertK;
  let ty := fresh "ty" in let kw := fresh "kw" in let Hk := fresh "Hk" in
  intros ? (ty & kw & -> & [-> | ->] & Hk); try reflexivity.
Ltac s_tac :=
  unfold inertS;
  let y := fresh "y" in let Hy := fresh "Hy" in
  intros y Hy; destruct (bskip_cases y Hy) as [(? & ? & ->) | [(? & ? & ->) | (? & ? & ->)]];
  reflexivity.

Lemma isK_kw_as n : isK n -> (is_kw n && text_eqb (normalized n) s_AS) = false.
Proof.
  intros (ty & kw & -> & Hty & Hk). unfold kw_ok in Hk. apply andb_true_iff in Hk.
  destruct Hk as [Hk _]. apply negb_true_iff in Hk.
  destruct Hty as [-> | ->]; cbn [is_kw tt_in normalized tin T_DML T_DDL T_Keyword tcomp_eqb andb];
    exact Hk.
Qed.

Lemma isK_kw_null n : isK n -> (is_kw n && text_eqb (normalized n) s_NULL) = false.
Proof.
  intros (ty & kw & -> & Hty & Hk). unfold kw_ok in Hk. apply andb_true_iff in Hk.
  destruct Hk as [_ Hk]. apply negb_true_iff in Hk.
  destruct Hty as [-> | ->]; cbn [is_kw tt_in normalized tin T_DML T_DDL T_Keyword tcomp_eqb andb];
    exact Hk.
Qed.

Lemma isK_ws : forall n, isK n -> is_ws n = false. Proof. k_tac. Qed.
Lemma isK_bskip : forall n, isK n -> bskip n = false. Proof. k_tac. Qed.

(* g_match of the eleven parameter records *)
Lemma mK_typecasts : inertK (g_match p_typecasts). Proof. k_tac. Qed.
Lemma mS_typecasts : inertS (g_match p_typecasts). Proof. s_tac. Qed.
Lemma mK_tzcasts : inertK (g_match p_tzcasts). Proof. k_tac. Qed.
Lemma mS_tzcasts : inertS (g_match p_tzcasts). Proof. s_tac. Qed.
Lemma mK_typed1 : inertK (g_match p_typed_literal1). Proof. k_tac. Qed.
Lemma mS_typed1 : inertS (g_match p_typed_literal1). Proof. s_tac. Qed.
Lemma mK_typed2 : inertK (g_match p_typed_literal2). Proof. k_tac. Qed.
Lemma mS_typed2 : inertS (g_match p_typed_literal2). Proof. s_tac. Qed.
Lemma mK_period : inertK (g_match p_period). Proof. k_tac. Qed.
Lemma mS_period : inertS (g_match p_period). Proof. s_tac. Qed.
Lemma mK_arrays : inertK (g_match p_arrays). Proof. k_tac. Qed.
Lemma mS_arrays : inertS (g_match p_arrays). Proof. s_tac. Qed.
Lemma mK_operator : inertK (g_match p_operator). Proof. k_tac. Qed.
Lemma mS_operator : inertS (g_match p_operator). Proof. s_tac. Qed.
Lemma mK_comparison : inertK (g_match p_comparison). Proof. k_tac. Qed.
Lemma mS_comparison : inertS (g_match p_comparison). Proof. s_tac. Qed.
Lemma mK_as : inertK (g_match p_as). Proof. intros n Hn. apply isK_kw_as, Hn. Qed.
Lemma mS_as : inertS (g_match p_as). Proof. s_tac. Qed.
Lemma mK_assignment : inertK (g_match p_assignment). Proof. k_tac. Qed.
Lemma mS_assignment : inertS (g_match p_assignment). Proof. s_tac. Qed.
Lemma mK_idlist : inertK (g_match p_identifier_list). Proof. k_tac. Qed.
Lemma mS_idlist : inertS (g_match p_identifier_list). Proof. s_tac. Qed.

(* valid_prev refuses the keyword leaf *)
Lemma vK_period : inertK (g_vprev p_period). Proof. k_tac. Qed.
Lemma vK_arrays : inertK (g_vprev p_arrays). Proof. k_tac. Qed.
Lemma vK_operator : inertK (g_vprev p_operator). Proof. k_tac. Qed.
Lemma vK_idlist : inertK (g_vprev p_identifier_list). Proof. k_tac. Qed.
Lemma vK_comparison : inertK (g_vprev p_comparison).
Proof.
  intros n Hn. cbn [g_vprev p_comparison]. unfold valid_cmp_operand. cbn [some_node].
  rewrite (isK_kw_null n Hn), orb_false_r. revert n Hn. k_tac.
Qed.
Lemma vK_as : inertK (g_vprev p_as).
Proof.
  intros n Hn. cbn [g_vprev p_as]. pose proof (isK_kw_null n Hn) as H.
  destruct Hn as (ty & kw & -> & [-> | ->] & Hk);
    cbn [is_kw tt_in tin T_DML T_DDL T_Keyword tcomp_eqb andb negb] in *; rewrite H; reflexivity.
Qed.

Lemma qK_comment : inertK q_comment. Proof. k_tac. Qed.
Lemma qK_over : inertK q_over. Proof. k_tac. Qed.
Lemma qS_over : inertS q_over. Proof. s_tac. Qed.
Lemma qK_name : inertK q_name. Proof. k_tac. Qed.
Lemma qS_name : inertS q_name. Proof. s_tac. Qed.
Lemma qK_where : inertK q_where. Proof. k_tac. Qed.
Lemma qS_where : inertS q_where. Proof. s_tac. Qed.
Lemma qK_ident : inertK q_ident. Proof. k_tac. Qed.
Lemma qS_ident : inertS q_ident. Proof. s_tac. Qed.
Lemma qK_order : inertK q_order. Proof. k_tac. Qed.
Lemma qS_order : inertS q_order. Proof. s_tac. Qed.
Lemma qK_aliased : inertK q_aliased. Proof. k_tac. Qed.
Lemma qS_aliased : inertS q_aliased. Proof. s_tac. Qed.
Lemma qK_cgroup : inertK q_cgroup. Proof. k_tac. Qed.
Lemma qK_values : inertK q_values. Proof. k_tac. Qed.
Lemma qS_values : inertS q_values. Proof. s_tac. Qed.

(* left operands of group_order / align_comments *)
Lemma oK_order : inertK (fun n => imt (Some n) [CIdentifier] [] (TOne T_Number)). Proof. k_tac. Qed.
Lemma oK_align : inertK (fun n => inst n CTokenList). Proof. k_tac. Qed.
(* the keyword leaf ends a run of comments *)
Lemma isK_stops : forall n, isK n -> negb (imt (Some n) [] [] (TOne T_Comment) || is_newline n) = true.
Proof. k_tac. Qed.

(* ---- searches: the first / the last hit ---------------------------------------------------------- *)
Lemma find_from_aux_first f : forall l base i x,
  find_from_aux f l base = Some (i, x) ->
  forall j y, nth_error l j = Some y -> f y = true -> i <= base + j.
Proof.
  induction l as [|a l IH]; intros base i x H j y Hj Hy; cbn [find_from_aux] in H; [discriminate|].
  destruct (f a) eqn:Fa.
  - injection H as <- _. lia.
  - destruct j as [|j]; cbn [nth_error] in Hj.
    + injection Hj as <-. congruence.
    + specialize (IH _ _ _ H j y Hj Hy). lia.
Qed.

Lemma find_from_first f s l i x : find_from f s l = Some (i, x) ->
  forall j y, s <= j -> nth_error l j = Some y -> f y = true -> i <= j.
Proof.
  unfold find_from. intros H j y Hs Hj Hy.
  assert (Hj' : nth_error (skipn s l) (j - s) = Some y).
  { rewrite nth_error_skipn'. replace (s + (j - s)) with j by lia. exact Hj. }
  pose proof (find_from_aux_first f _ _ _ _ H _ _ Hj' Hy). lia.
Qed.

Lemma find_last_aux_ge f : forall l base best i x,
  find_last_aux f l base best = Some (i, x) ->
  forall j y, nth_error l j = Some y -> f y = true -> base + j <= i.
Proof.
  induction l as [|a l IH]; intros base best i x H j y Hj Hy; cbn [find_last_aux] in H.
  - destruct j; discriminate.
  - destruct j as [|j]; cbn [nth_error] in Hj.
    + injection Hj as <-. rewrite Hy in H. apply find_last_aux_spec in H.
      destruct H as [H | (H & _)]; [injection H as <- _; lia | lia].
    + specialize (IH _ _ _ _ H j y Hj Hy). lia.
Qed.

Lemma token_prev_ge l k Kn tidx pidx pv :
  nth_error l k = Some Kn -> is_ws Kn = false -> k < tidx ->
  token_prev true false tidx l = Some (pidx, pv) ->
  k <= pidx /\ pidx < tidx /\ nth_error l pidx = Some pv.
Proof.
  intros Hk Hw Hlt H. pose proof (token_prev_range _ _ _ _ _ _ H) as (H1 & _ & H3).
  split; [|auto]. unfold token_prev, find_before in H.
  assert (Hk' : nth_error (firstn tidx l) k = Some Kn) by (rewrite nth_error_firstn_lt by exact Hlt; exact Hk).
  pose proof (find_last_aux_ge _ _ _ _ _ _ H k Kn Hk') as Hge.
  rewrite skip_matcher_ws, Hw in Hge. specialize (Hge eq_refl). lia.
Qed.

(* ================================================================================================ *)
(* 6. the barrier invariant                                                                         *)
Section Barrier.
Variable K : node.
Hypothesis HK : isK K.

Definition bar (l : list node) : Prop :=
  exists pre rest, l = pre ++ K :: rest /\ forallb bskip pre = true /\ next_ok rest = true.

Lemma bar_hrel l l1 : Forall2 hrel l l1 -> bar l -> bar l1.
Proof.
  intros HR (pre & rest & -> & Hp & Hn).
  apply Forall2_app_inv_l in HR. destruct HR as (pre1 & r1 & H1 & H2 & ->).
  inversion H2 as [|k k1 r r1' Hk Hr]; subst.
  assert (k1 = K).
  { destruct HK as (ty & kw & E & _). rewrite E in Hk |- *. exact Hk. }
  subst k1. exists pre1, r1'. split; [reflexivity|].
  split; [eapply hrel_bskip_all; eauto | eapply hrel_next_ok; eauto].
Qed.

Lemma bar_gt_after c start stop ext pre rest l' g :
  forallb bskip pre = true -> next_ok rest = true -> length pre < start ->
  group_tokens c start stop ext (pre ++ K :: rest) = Ok (l', g) -> bar l'.
Proof.
  intros Hp Hn Hs H.
  replace (pre ++ K :: rest) with ((pre ++ [K]) ++ rest) in H by (rewrite <- app_assoc; reflexivity).
  apply gt_after in H; [|rewrite app_length; cbn [length]; lia].
  destruct H as (rest' & -> & Hn'). exists pre, rest'. rewrite <- app_assoc. auto.
Qed.

(* a call inside the prefix that produces a skippable group *)
Lemma bar_gt_before c start stop ext pre rest l' g :
  forallb bskip pre = true -> next_ok rest = true -> start < length pre -> stop <= length pre ->
  group_tokens c start stop ext (pre ++ K :: rest) = Ok (l', g) -> bskip g = true -> bar l'.
Proof.
  intros Hp Hn Hs Ht H Hg. apply gt_before in H; [|assumption..].
  destruct H as (a & b & -> & Hab). destruct (Hab _ Hp) as [Ha Hb].
  exists (a ++ g :: b), rest. split; [reflexivity|]. split; [|exact Hn].
  rewrite forallb_app. cbn [forallb]. rewrite Ha, Hg, Hb. reflexivity.
Qed.

(* where a hit of an inert search lies *)
Lemma found_after q pre rest i x :
  inertK q -> inertS q -> forallb bskip pre = true ->
  nth_error (pre ++ K :: rest) i = Some x -> q x = true -> length pre < i.
Proof.
  intros HqK HqS Hp Hn Hx. apply nth_error_split3 in Hn.
  destruct Hn as [(_ & Hin) | [(_ & ->) | H]]; [| |exact H].
  - rewrite (HqS x (forallb_In_true _ _ _ Hp Hin)) in Hx. discriminate.
  - rewrite (HqK K HK) in Hx. discriminate.
Qed.

Lemma nth_K pre rest : nth_error (pre ++ K :: rest) (length pre) = Some K.
Proof. apply nth_error_app_mid. Qed.

(* ---- scan ------------------------------------------------------------------------------------- *)
Lemma scan_loop_bar find body :
  (forall s l i x l' cont, bar l -> find s l = Some (i, x) -> body i x l = Ok (l', cont) -> bar l') ->
  forall fuel start l r, bar l -> scan_loop find body fuel start l = Ok r -> bar r.
Proof.
  intros Hb. induction fuel as [|fuel IH]; intros start l r HI H; cbn [scan_loop] in H; [discriminate|].
  destruct (find start l) as [[i x]|] eqn:E; [|injection H as <-; exact HI].
  destruct (body i x l) as [[l' cont]|] eqn:Eb; [|discriminate]. cbn [bind] in H.
  eapply IH; [|exact H]. eapply Hb; eauto.
Qed.

Definition f_bar (f : cls -> list node -> res (list node)) : Prop :=
  forall c l l', bar l -> f c l = Ok l' -> bar l'.

(* a forward body: the only group_tokens call starts at the hit *)
Ltac open_body Hb :=
  cbv beta in Hb; unfold bind in Hb;
  repeat match type of Hb with
         | context [match ?x with _ => _ end] =>
             let E := fresh "E" in destruct x eqn:E; try discriminate
         end.

Lemma fbar_over : f_bar f_over.
Proof.
  intros c l l' HI H. unfold f_over, scan in H. eapply scan_loop_bar; [|exact HI|exact H].
  clear - HK. intros s l i x l' cont (pre & rest & -> & Hp & Hn) Hf Hb.
  apply next_by_from_range in Hf. destruct Hf as (_ & _ & Hnth & Hq).
  pose proof (found_after q_over _ _ _ _ qK_over qS_over Hp Hnth Hq) as Hi.
  open_body Hb; injection Hb as <- _; try (exists pre, rest; auto; fail);
    eapply bar_gt_after; eauto.
Qed.

Lemma fbar_functions : f_bar f_functions.
Proof.
  intros c l l' HI H. unfold f_functions in H.
  destruct (_ && _ && negb _); [injection H as <-; exact HI|].
  unfold scan in H. eapply scan_loop_bar; [|exact HI|exact H].
  clear - HK. intros s l i x l' cont (pre & rest & -> & Hp & Hn) Hf Hb.
  apply next_by_from_range in Hf. destruct Hf as (_ & _ & Hnth & Hq).
  pose proof (found_after q_name _ _ _ _ qK_name qS_name Hp Hnth Hq) as Hi.
  open_body Hb; injection Hb as <- _; try (exists pre, rest; auto; fail);
    eapply bar_gt_after; eauto.
Qed.

Lemma fbar_where : f_bar f_where.
Proof.
  intros c l l' HI H. unfold f_where, scan in H. eapply scan_loop_bar; [|exact HI|exact H].
  clear - HK. intros s l i x l' cont (pre & rest & -> & Hp & Hn) Hf Hb.
  apply next_by_from_range in Hf. destruct Hf as (_ & _ & Hnth & Hq).
  pose proof (found_after q_where _ _ _ _ qK_where qS_where Hp Hnth Hq) as Hi.
  open_body Hb; injection Hb as <- _; try (exists pre, rest; auto; fail);
    eapply bar_gt_after; eauto.
Qed.

Lemma fbar_identifier : f_bar f_identifier.
Proof.
  intros c l l' HI H. unfold f_identifier, scan in H. eapply scan_loop_bar; [|exact HI|exact H].
  clear - HK. intros s l i x l' cont (pre & rest & -> & Hp & Hn) Hf Hb.
  apply next_by_from_range in Hf. destruct Hf as (_ & _ & Hnth & Hq).
  pose proof (found_after q_ident _ _ _ _ qK_ident qS_ident Hp Hnth Hq) as Hi.
  open_body Hb; injection Hb as <- _; try (exists pre, rest; auto; fail);
    eapply bar_gt_after; eauto.
Qed.

Lemma fbar_aliased : f_bar f_aliased.
Proof.
  intros c l l' HI H. unfold f_aliased, scan in H. eapply scan_loop_bar; [|exact HI|exact H].
  clear - HK. intros s l i x l' cont (pre & rest & -> & Hp & Hn) Hf Hb.
  apply next_by_from_range in Hf. destruct Hf as (_ & _ & Hnth & Hq).
  pose proof (found_after q_aliased _ _ _ _ qK_aliased qS_aliased Hp Hnth Hq) as Hi.
  open_body Hb; injection Hb as <- _; try (exists pre, rest; auto; fail);
    eapply bar_gt_after; eauto.
Qed.

Lemma fbar_order : f_bar f_order.
Proof.
  intros c l l' HI H. unfold f_order, scan in H. eapply scan_loop_bar; [|exact HI|exact H].
  clear - HK. intros s l i x l' cont (pre & rest & -> & Hp & Hn) Hf Hb.
  apply next_by_from_range in Hf. destruct Hf as (_ & _ & Hnth & Hq).
  pose proof (found_after q_order _ _ _ _ qK_order qS_order Hp Hnth Hq) as Hi.
  cbv beta in Hb.
  destruct (token_prev true false i (pre ++ K :: rest)) as [[pidx pv]|] eqn:Ep;
    [|injection Hb as <- _; exists pre, rest; auto].
  destruct (imt (Some pv) [CIdentifier] [] (TOne T_Number)) eqn:Ei;
    [|injection Hb as <- _; exists pre, rest; auto].
  destruct (token_prev_ge _ _ _ _ _ _ (nth_K pre rest) (isK_ws K HK) Hi Ep) as (Hge & _ & Hpv).
  assert (Hne : pidx <> length pre).
  { intros ->. rewrite nth_K in Hpv. injection Hpv as <-. rewrite (oK_order K HK) in Ei. discriminate. }
  unfold bind in Hb.
  destruct (group_tokens CIdentifier pidx (S i) false (pre ++ K :: rest)) as [[l1 g]|] eqn:Eg;
    [|discriminate].
  injection Hb as <- _. eapply bar_gt_after; [exact Hp | exact Hn | | exact Eg]. lia.
Qed.

Lemma fbar_comments : f_bar f_comments.
Proof.
  intros c l l' HI H. unfold f_comments, scan in H. eapply scan_loop_bar; [|exact HI|exact H].
  clear - HK. intros s l i x l' cont (pre & rest & -> & Hp & Hn) Hf Hb.
  apply next_by_from_range in Hf. destruct Hf as (_ & _ & Hnth & Hq).
  cbv beta in Hb.
  destruct (find_from _ i (pre ++ K :: rest)) as [[eidx ex]|] eqn:Ee;
    [|injection Hb as <- _; exists pre, rest; auto].
  destruct eidx as [|e1]; [discriminate|]. unfold bind in Hb.
  destruct (group_tokens CComment i (S e1) false (pre ++ K :: rest)) as [[l1 g]|] eqn:Eg;
    [|discriminate].
  injection Hb as <- _.
  pose proof Hnth as Hcase. apply nth_error_split3 in Hcase.
  destruct Hcase as [(Hlt & Hin) | [(_ & ->) | Hgt]].
  - (* the comment lies in the prefix: the run ends before the keyword *)
    assert (Hstop : S e1 <= length pre).
    { eapply (find_from_first _ _ _ _ _ Ee (length pre) K); [lia | apply nth_K | apply isK_stops, HK]. }
    eapply bar_gt_before; [exact Hp | exact Hn | exact Hlt | exact Hstop | exact Eg |].
    apply group_tokens_inv in Eg.
    destruct Eg as (first & E1 & [(X & _) | (_ & -> & _)]); [discriminate | reflexivity].
  - change (q_comment K = true) in Hq. rewrite (qK_comment K HK) in Hq. discriminate.
  - eapply bar_gt_after; eauto.
Qed.

Lemma fbar_align_comments : f_bar f_align_comments.
Proof.
  intros c l l' HI H. unfold f_align_comments, scan in H. eapply scan_loop_bar; [|exact HI|exact H].
  clear - HK. intros s l i x l' cont (pre & rest & -> & Hp & Hn) Hf Hb.
  apply next_by_from_range in Hf. destruct Hf as (_ & _ & Hnth & Hq).
  cbv beta in Hb.
  destruct (token_prev true false i (pre ++ K :: rest)) as [[pidx pv]|] eqn:Ep;
    [|injection Hb as <- _; exists pre, rest; auto].
  destruct (inst pv CTokenList) eqn:Ei; [|injection Hb as <- _; exists pre, rest; auto].
  unfold bind in Hb.
  destruct (group_tokens CTokenList pidx (S i) true (pre ++ K :: rest)) as [[l1 g]|] eqn:Eg;
    [|discriminate].
  injection Hb as <- _.
  pose proof Hnth as Hcase. apply nth_error_split3 in Hcase.
  destruct Hcase as [(Hlt & Hin) | [(_ & ->) | Hgt]].
  - (* a Comment group of the prefix is appended to an earlier group of the prefix *)
    pose proof (token_prev_range _ _ _ _ _ _ Ep) as (Hpi & _ & Hpv).
    assert (Hpin : In pv pre).
    { rewrite nth_error_app1 in Hpv by lia. eapply nth_error_In; eauto. }
    pose proof (forallb_In_true _ _ _ Hp Hpin) as Hsk.
    refine (bar_gt_before _ _ _ _ _ _ _ _ Hp Hn _ _ Eg _); [lia | lia |].
    apply group_tokens_inv in Eg.
    destruct Eg as (first & E1 & [(X & c' & v & kids & -> & -> & _) | (X & _)]).
    + rewrite Hpv in E1. injection E1 as ->. rewrite bskip_grp in Hsk. unfold mk_grp.
      rewrite bskip_grp. exact Hsk.
    + rewrite Hpv in E1. injection E1 as <-. rewrite Ei in X. discriminate.
  - change (q_cgroup K = true) in Hq. rewrite (qK_cgroup K HK) in Hq. discriminate.
  - destruct (token_prev_ge _ _ _ _ _ _ (nth_K pre rest) (isK_ws K HK) Hgt Ep) as (Hge & _ & Hpv).
    assert (Hne : pidx <> length pre).
    { intros ->. rewrite nth_K in Hpv. injection Hpv as <-. rewrite (oK_align K HK) in Ei. discriminate. }
    eapply bar_gt_after; [exact Hp | exact Hn | | exact Eg]. lia.
Qed.

(* ---- the passes built on @recurse ------------------------------------------------------------- *)
Definition pass_bar (ps : node -> res node) : Prop :=
  forall c v l n', bar l -> ps (Grp c v l) = Ok n' -> exists l', n' = Grp c v l' /\ bar l'.

Lemma pbar_recurse skip f : f_bar f -> pass_bar (recurse_pass skip f).
Proof.
  intros Hf c v l n' HI H. cbn [recurse_pass] in H.
  destruct (mapM _ l) as [k1|] eqn:E1; [|discriminate]. cbn [bind] in H.
  destruct (f c k1) as [k2|] eqn:E2; [|discriminate]. cbn [bind] in H. injection H as <-.
  exists k2. split; [reflexivity|]. eapply Hf; [|exact E2]. eapply bar_hrel; [|exact HI].
  eapply mapM_hrel; [|exact E1]. intros k k' Hk. cbv beta in Hk.
  destruct (is_group k && negb (inst_any k skip)); [eapply hrel_recurse; eauto|].
  injection Hk as <-. apply hrel_refl.
Qed.

Lemma pbar_values : pass_bar group_values.
Proof.
  intros c v l n' (pre & rest & -> & Hp & Hn) H. cbn [group_values] in H.
  destruct (next_by_from _ _ _ 0 _) as [[si tk]|] eqn:Ef;
    [|injection H as <-; eexists; split; [reflexivity | exists pre, rest; auto]].
  destruct (values_scan _ _ _ _ _) as [e|]; [|discriminate]. cbn [bind] in H.
  destruct e as [ei|]; [|injection H as <-; eexists; split; [reflexivity | exists pre, rest; auto]].
  destruct (group_tokens CValues si (S ei) true _) as [[l1 g]|] eqn:Eg; [|discriminate].
  cbn [bind] in H. injection H as <-. eexists. split; [reflexivity|].
  apply next_by_from_range in Ef. destruct Ef as (_ & _ & Hnth & Hq).
  pose proof (found_after q_values _ _ _ _ qK_values qS_values Hp Hnth Hq) as Hi.
  eapply bar_gt_after; eauto.
Qed.

(* ---- _group_matching (through its specification, MatchSpec.stack_match) ----------------------- *)
Lemma kind_K c : mcls c = true -> kind_of c K = KPlain.
Proof.
  destruct HK as (ty & kw & -> & [-> | ->] & _); destruct c; try discriminate; reflexivity.
Qed.

Lemma kind_skip c y : mcls c = true -> bskip y = true -> kind_of c y = KPlain.
Proof.
  intros Hc Hy.
  destruct (bskip_cases y Hy) as [(r & v & ->) | [(r & v & ->) | (v & kids & ->)]]; [destruct r | |];
    destruct c; try discriminate; reflexivity.
Qed.

Lemma step_base c s out base t :
  step c (s, out ++ base) t = (fst (step c (s, out) t), snd (step c (s, out) t) ++ base).
Proof.
  unfold step. destruct (kind_of c t).
  - destruct s; reflexivity.
  - reflexivity.
  - destruct s as [|f [|f2 s]]; reflexivity.
Qed.

Lemma fold_step_base c l : forall s out base,
  fold_left (step c) l (s, out ++ base)
  = (fst (fold_left (step c) l (s, out)), snd (fold_left (step c) l (s, out)) ++ base).
Proof.
  induction l as [|t l IH]; intros s out base; cbn [fold_left]; [reflexivity|].
  rewrite step_base. destruct (step c (s, out) t) as [s1 o1]. cbn [fst snd]. apply IH.
Qed.

Lemma stack_match_prefix c P rest :
  Forall (fun x => kind_of c x <> KOpen) P -> stack_match c (P ++ rest) = P ++ stack_match c rest.
Proof.
  intros HP. unfold stack_match. rewrite fold_left_app, (fold_step_noopen c P [] HP), app_nil_r.
  change (rev P) with ([] ++ rev P). rewrite fold_step_base.
  destruct (fold_left (step c) rest ([], [])) as [s1 o1]. unfold flat. cbn [fst snd].
  rewrite app_assoc, rev_app_distr, rev_involutive. reflexivity.
Qed.

Definition Qnx (consumed fl : list node) : Prop :=
  match nx consumed with
  | None => nx fl = None
  | Some t => exists t', nx fl = Some t' /\ (t' = t \/ is_group t' = true)
  end.

Lemma nx_snoc a t :
  nx (a ++ [t]) = match nx a with Some y => Some y | None => if is_ws t then None else Some t end.
Proof. rewrite nx_app. cbn [nx]. destruct (nx a); [reflexivity|]. destruct (is_ws t); reflexivity. Qed.

Lemma Qnx_snoc consumed fl t : Qnx consumed fl -> Qnx (consumed ++ [t]) (fl ++ [t]).
Proof.
  unfold Qnx. rewrite !nx_snoc. destruct (nx consumed) as [t0|].
  - intros (t' & -> & Ht). eauto.
  - intros ->. destruct (is_ws t); [reflexivity|]. eauto.
Qed.

Lemma kind_close_nonws c t : kind_of c t = KClose -> is_ws t = false.
Proof. unfold kind_of. destruct (is_ws t); [discriminate | reflexivity]. Qed.

Lemma step_Qnx c st t consumed :
  Qnx consumed (flat st) -> Qnx (consumed ++ [t]) (flat (step c st t)).
Proof.
  intros HQ. unfold step. destruct (kind_of c t) eqn:Kt.
  - rewrite flat_push. apply Qnx_snoc, HQ.
  - destruct st as [s out]. cbn [fst snd]. rewrite flat_open. apply Qnx_snoc, HQ.
  - destruct st as [[|f s] out].
    + rewrite flat_push. apply Qnx_snoc, HQ.
    + rewrite flat_push. rewrite flat_frame in HQ. unfold Qnx in *.
      rewrite nx_snoc, (kind_close_nonws _ _ Kt). rewrite nx_app in HQ. rewrite nx_app. cbn [nx].
      destruct (nx consumed) as [t0|].
      * destruct HQ as (t' & Hn & Ht). destruct (nx (flat (s, out))) as [y|].
        { injection Hn as ->. eauto. }
        { eexists. split; [reflexivity | right; reflexivity]. }
      * destruct (nx (flat (s, out))) as [y|]; [discriminate|].
        eexists. split; [reflexivity | right; reflexivity].
Qed.

Lemma fold_Qnx c : forall l consumed st,
  Qnx consumed (flat st) -> Qnx (consumed ++ l) (flat (fold_left (step c) l st)).
Proof.
  induction l as [|t l IH]; intros consumed st HQ; cbn [fold_left].
  - rewrite app_nil_r. exact HQ.
  - replace (consumed ++ t :: l) with ((consumed ++ [t]) ++ l) by (rewrite <- app_assoc; reflexivity).
    apply IH, step_Qnx, HQ.
Qed.

Lemma stack_match_next_ok c l : next_ok l = true -> next_ok (stack_match c l) = true.
Proof.
  intros H. pose proof (fold_Qnx c l [] ([], [])) as HQ. cbn [app] in HQ.
  specialize (HQ eq_refl). fold (stack_match c l) in HQ. unfold Qnx in HQ. unfold next_ok in *.
  destruct (nx l) as [t|]; [|rewrite HQ; reflexivity].
  destruct HQ as (t' & -> & [-> | Hg]); [exact H|]. rewrite (bad_next_group _ Hg). reflexivity.
Qed.

Lemma pbar_matching c : mcls c = true -> pass_bar (group_matching c).
Proof.
  intros Hc c0 v l n' HI H. rewrite group_matching_spec in H. injection H as <-.
  cbn [stack_match_rec]. eexists. split; [reflexivity|].
  set (f := fun k => if is_group k && negb (inst k c) then stack_match_rec c k else k).
  assert (HR : Forall2 hrel l (map f l)).
  { clear. induction l as [|k l IH]; cbn [map]; constructor; [|exact IH].
    unfold f. destruct (is_group k && negb (inst k c)); [|apply hrel_refl].
    destruct k; cbn [stack_match_rec hrel]; eauto. }
  destruct (bar_hrel _ _ HR HI) as (pre & rest & -> & Hp & Hn).
  replace (pre ++ K :: rest) with ((pre ++ [K]) ++ rest) by (rewrite <- app_assoc; reflexivity).
  rewrite stack_match_prefix.
  - exists pre, (stack_match c rest). rewrite <- app_assoc. split; [reflexivity|].
    split; [exact Hp | apply stack_match_next_ok, Hn].
  - apply Forall_app. split.
    + apply Forall_forall. intros y Hy.
      rewrite (kind_skip c y Hc (forallb_In_true _ _ _ Hp Hy)). discriminate.
    + constructor; [rewrite (kind_K c Hc); discriminate | constructor].
Qed.

(* ---- _group: the loop over the snapshot ------------------------------------------------------- *)
Section Driver.
Variable p : gparams.

(* post leaves the tokens in front of tidx alone *)
Definition post_pre : Prop := forall l pidx tidx nidx l1 f t,
  g_post p l pidx tidx nidx = Ok (l1, f, t) -> firstn tidx l1 = firstn tidx l.
(* post starts the group at the matched token (never at the previous one) *)
Definition from_tidx : Prop := forall l pidx tidx nidx l1 f t,
  g_post p l pidx tidx nidx = Ok (l1, f, t) -> f = tidx.
(* why the first non-whitespace token after the keyword cannot take the keyword as left operand *)
Definition safe (rest : list node) : Prop :=
  g_vprev p K = false \/ from_tidx \/ (forall t, nx rest = Some t -> g_match p t = false).

Lemma loop_nomatch_run : forall a b idx s,
  Forall (fun t => g_match p t = false) a ->
  exists s1, group_loop p (a ++ b) idx s = group_loop p b (idx + length a) s1 /\
             g_live s1 = g_live s /\ g_off s1 = g_off s.
Proof.
  induction a as [|t a IH]; intros b idx s Ha.
  - exists s. cbn [app length]. rewrite Nat.add_0_r. auto.
  - inversion Ha as [|? ? Ht Ha']; subst. cbn [app length group_loop]. rewrite Ht.
    replace (idx + S (length a)) with (S idx + length a) by lia.
    destruct (Z.ltb (Z.of_nat idx - g_off s) 0);
      [|destruct (is_ws t)];
      match goal with |- exists s1, group_loop _ _ _ ?st = _ /\ _ =>
        destruct (IH b (S idx) st Ha') as (s1 & E & L & O); exists s1; rewrite E; auto end.
Qed.

Lemma loop_nomatch_live snap idx s s' :
  Forall (fun t => g_match p t = false) snap -> group_loop p snap idx s = Ok s' -> g_live s' = g_live s.
Proof.
  intros Ha H. destruct (loop_nomatch_run snap [] idx s Ha) as (s1 & E & L & _).
  rewrite app_nil_r in E. rewrite E in H. cbn [group_loop] in H. injection H as <-. exact L.
Qed.

Hypothesis Hpost : post_ok p.
Hypothesis Hpre : post_pre.
Hypothesis HmK : inertK (g_match p).
Hypothesis HmS : inertS (g_match p).

Section Loop2.
Variable P rest0 : list node.
Hypothesis Hsafe : safe rest0.

Definition binv (snap : list node) (idx : nat) (s : gstate) : Prop :=
  exists A R W,
    g_live s = P ++ A ++ R /\ snap = W ++ R /\
    (Z.of_nat idx + Z.of_nat (length W) = g_off s + Z.of_nat (length P + length A))%Z /\
    wbl p W /\ (W <> [] -> 1 <= length A) /\
    next_ok (A ++ R) = true /\
    (forall pi, g_pidx s = Some pi ->
       pi < length P + length A /\
       (length P <= pi \/
        (g_prev s = Some K /\ W = [] /\ Forall (fun y => is_ws y = true) A /\ A ++ R = rest0))).

Lemma binv_skip token snap idx s s2 :
  binv (token :: snap) idx s ->
  ((Z.of_nat idx - g_off s < 0)%Z \/ is_ws token = true) ->
  g_live s2 = g_live s -> g_off s2 = g_off s -> g_pidx s2 = g_pidx s -> g_prev s2 = g_prev s ->
  binv snap (S idx) s2.
Proof.
  intros (A & R & W & HL & HS & HZ & HW & HWA & HN & HP) Hc E1 E2 E3 E4.
  unfold binv. rewrite E1, E2, E3, E4.
  destruct W as [|w W]; cbn [app length] in *.
  - destruct Hc as [Hc | Hc]; [lia|]. subst R.
    exists (A ++ [token]), snap, []. rewrite <- (app_assoc A [token] snap). cbn [app length].
    split; [exact HL|]. split; [reflexivity|].
    split; [rewrite !app_length; cbn [length]; lia|].
    split; [left; reflexivity|]. split; [congruence|]. split; [exact HN|].
    intros pi Hpi. destruct (HP pi Hpi) as (Hlt & Hor). split; [rewrite !app_length; cbn [length]; lia|].
    destruct Hor as [Hor | (Hv & _ & Hws & Hr)]; [left; exact Hor|]. right.
    split; [exact Hv|]. split; [reflexivity|]. split; [|exact Hr].
    apply Forall_app. split; [exact Hws | constructor; [exact Hc | constructor]].
  - injection HS as <- ->. exists A, R, W.
    split; [exact HL|]. split; [reflexivity|]. split; [lia|].
    split; [eapply wbl_tail; eauto|]. split; [intros _; apply HWA; discriminate|].
    split; [exact HN|].
    intros pi Hpi. destruct (HP pi Hpi) as (Hlt & Hor). split; [exact Hlt|].
    destruct Hor as [Hor | (_ & Hw & _)]; [left; exact Hor | discriminate].
Qed.

Lemma binv_nonws token snap idx s :
  binv (token :: snap) idx s -> is_ws token = false ->
  exists A, g_live s = P ++ A ++ snap /\
            (Z.of_nat idx + 1 = g_off s + Z.of_nat (length P + length A))%Z /\
            1 <= length A /\ next_ok (A ++ snap) = true /\
            (nth_error (g_live s) (length P + length A - 1) = Some token \/ g_vnext p (Some token) = true) /\
            (forall pi, g_pidx s = Some pi ->
               pi < length P + length A /\
               (length P <= pi \/ (g_prev s = Some K /\ nx rest0 = Some token))).
Proof.
  intros (A & R & W & HL & HS & HZ & HW & HWA & HN & HP) Hws.
  destruct W as [|w W]; cbn [app length] in *.
  - subst R. exists (A ++ [token]). rewrite <- (app_assoc A [token] snap). cbn [app]. rewrite !app_length. cbn [length].
    split; [exact HL|]. split; [lia|]. split; [lia|]. split; [exact HN|]. split.
    + left. rewrite HL. replace (length P + (length A + 1) - 1) with (length (P ++ A)) by (rewrite !app_length; lia).
      rewrite app_assoc. apply nth_error_app_mid.
    + intros pi Hpi. destruct (HP pi Hpi) as (Hlt & Hor). split; [lia|].
      destruct Hor as [Hor | (Hv & _ & Hwsa & Hr)]; [left; exact Hor|]. right. split; [exact Hv|].
      rewrite <- Hr, (nx_ws_app _ _ Hwsa). cbn [nx]. rewrite Hws. reflexivity.
  - injection HS as <- ->.
    destruct HW as [HW | (ws & x & E & Hw & Hx)]; [discriminate|].
    destruct ws as [|w' ws]; cbn [app] in E.
    + injection E as Ex EW. subst x W. cbn [app length] in *. exists A.
      split; [exact HL|]. split; [lia|]. split; [apply HWA; discriminate|]. split; [exact HN|].
      split; [right; exact Hx|].
      intros pi Hpi. destruct (HP pi Hpi) as (Hlt & Hor). split; [exact Hlt|].
      destruct Hor as [Hor | (_ & Hw0 & _)]; [left; exact Hor | discriminate].
    + injection E as <- _. inversion Hw as [|? ? Hw1 Hw2]; subst. congruence.
Qed.

Lemma firstn_le_eq {A} (l1 l2 : list A) i j : i <= j -> firstn j l1 = firstn j l2 -> firstn i l1 = firstn i l2.
Proof.
  intros Hij H. rewrite <- (Nat.min_l i j Hij), <- !firstn_firstn, H. reflexivity.
Qed.

Lemma loop_binv : forall snap idx s s',
  binv snap idx s -> group_loop p snap idx s = Ok s' ->
  exists rest', g_live s' = P ++ rest' /\ next_ok rest' = true.
Proof.
  induction snap as [|token snap IH]; intros idx s s' HI H; cbn [group_loop] in H.
  - injection H as <-. destruct HI as (A & R & W & HL & HS & _ & _ & _ & HN & _).
    symmetry in HS. apply app_eq_nil in HS. destruct HS as [-> ->].
    exists (A ++ []). auto.
  - destruct (Z.ltb (Z.of_nat idx - g_off s) 0) eqn:Hneg.
    { apply Z.ltb_lt in Hneg. eapply IH; [|exact H].
      eapply binv_skip; [exact HI | left; exact Hneg | reflexivity..]. }
    apply Z.ltb_ge in Hneg.
    destruct (is_ws token) eqn:Hws.
    { eapply IH; [|exact H]. eapply binv_skip; [exact HI | right; exact Hws | reflexivity..]. }
    destruct (binv_nonws _ _ _ _ HI Hws) as (A & HL & HZ & HA & HN & Hsy & HP).
    assert (Ht : Z.to_nat (Z.of_nat idx - g_off s) = length P + length A - 1) by lia.
    rewrite Ht in H.
    set (tidx := length P + length A - 1) in *.
    assert (HlenL : length (g_live s) = length P + length A + length snap).
    { rewrite HL, !app_length. lia. }
    (* the state after a token that is not grouped *)
    assert (Hplain : forall prev recs,
              group_loop p snap (S idx)
                {| g_live := g_live s; g_off := g_off s; g_pidx := Some tidx;
                   g_prev := prev; g_rec := recs |} = Ok s' ->
              exists rest', g_live s' = P ++ rest' /\ next_ok rest' = true).
    { intros prev recs Hr. eapply IH; [|exact Hr].
      exists A, snap, []. cbn [g_live g_off g_pidx g_prev app length].
      split; [exact HL|]. split; [reflexivity|]. split; [lia|]. split; [left; reflexivity|].
      split; [congruence|]. split; [exact HN|].
      intros pi Hpi. injection Hpi as <-. unfold tidx. split; [lia | left; lia]. }
    destruct (g_match p token) eqn:M; [|eapply Hplain; exact H].
    destruct (g_prev s) as [pv|] eqn:Epv; [|eapply Hplain; exact H].
    destruct (g_pidx s) as [pidx|] eqn:Epi; [|eapply Hplain; exact H].
    destruct (g_vprev p pv && g_vnext p _) eqn:V; [|eapply Hplain; exact H].
    apply andb_true_iff in V. destruct V as [Vp Vn].
    destruct (HP pidx eq_refl) as (Hpl & Hpor).
    destruct (Hpost (g_live s) pidx tidx token) as
        (l1 & from & to & Ep & Hlen & Hskip & _ & Hfrom & Hto);
      [unfold tidx; lia | unfold tidx; lia | exact M | exact Hsy | exact Vn |].
    unfold nidx_of in Ep. rewrite Ep in H. cbn [bind] in H.
    pose proof (Hpre _ _ _ _ _ _ _ Ep) as Hfirst.
    assert (HfP : length P <= from /\ from <= tidx).
    { destruct Hfrom as [-> | ->]; [|unfold tidx; lia]. split; [|unfold tidx; lia].
      destruct Hpor as [Hor | (Hv & Hnx)]; [exact Hor|]. injection Hv as ->.
      destruct Hsafe as [Hs | [Hs | Hs]].
      - rewrite Hs in Vp. discriminate.
      - rewrite (Hs _ _ _ _ _ _ _ Ep). unfold tidx. lia.
      - rewrite (Hs _ Hnx) in M. discriminate. }
    destruct HfP as [HfP Hft].
    destruct (group_tokens (g_cls p) from (S to) (g_extend p) l1) as [[live2 grp]|] eqn:Eg;
      [|discriminate].
    cbn [bind] in H.
    assert (Htt : tidx <= to).
    { destruct Hto as [-> | (n & Hn)]; [lia|]. apply token_next_range in Hn. lia. }
    apply group_tokens_form in Eg; [|lia]. destruct Eg as (Hl2 & _ & Hgg & _).
    assert (HlenPA : length (P ++ A) = S tidx) by (rewrite !app_length; unfold tidx; lia).
    assert (Hf1 : firstn from l1 = P ++ firstn (from - length P) (A ++ snap)).
    { rewrite (firstn_le_eq _ _ _ _ Hft Hfirst), HL. apply firstn_app_ge, HfP. }
    assert (Hsk1 : skipn (S tidx) (g_live s) = snap).
    { rewrite HL, app_assoc, <- HlenPA. apply skipn_app_length. }
    assert (Hs2 : skipn (S to) l1 = skipn (to - tidx) snap).
    { replace (S to) with ((to - tidx) + S tidx) by lia. rewrite skipn_add, Hskip, Hsk1. reflexivity. }
    set (j := from - length P) in *.
    assert (HlenA' : length (firstn j (A ++ snap) ++ [grp]) = j + 1).
    { rewrite !app_length, firstn_length, app_length. cbn [length]. unfold j, tidx in *. lia. }
    eapply IH; [|exact H].
    destruct Hto as [-> | (n & Hn)].
    + (* the group ends at the matched token *)
      exists (firstn j (A ++ snap) ++ [grp]), snap, [].
      cbn [g_live g_off g_pidx g_prev app length].
      split. { rewrite Hl2, Hf1, Hs2, Nat.sub_diag. cbn [skipn]. rewrite <- !app_assoc. reflexivity. }
      split; [reflexivity|]. split; [rewrite HlenA'; unfold j, tidx in *; lia|].
      split; [left; reflexivity|]. split; [congruence|].
      split. { rewrite <- app_assoc. cbn [app]. apply next_ok_splice; assumption. }
      intros pi Hpi. injection Hpi as <-. rewrite HlenA'. unfold j. split; [lia | left; lia].
    + (* the group ends at the next token: the whitespace in between and that token are swallowed *)
      pose proof Hn as Hspec. apply token_next_spec in Hspec.
      destruct Hspec as (wpre & wpost & Esk & Eto & Hwpre & Hnws).
      rewrite Hsk1 in Esk.
      assert (Hpost' : skipn (to - tidx) snap = wpost).
      { rewrite Esk. replace (to - tidx) with (length (wpre ++ [n])) by (rewrite !app_length; cbn [length]; lia).
        replace (wpre ++ n :: wpost) with ((wpre ++ [n]) ++ wpost) by (rewrite <- app_assoc; reflexivity).
        apply skipn_app_length. }
      exists (firstn j (A ++ snap) ++ [grp]), wpost, (wpre ++ [n]).
      cbn [g_live g_off g_pidx g_prev].
      split. { rewrite Hl2, Hf1, Hs2, Hpost'. rewrite <- !app_assoc. reflexivity. }
      split; [rewrite Esk, <- app_assoc; reflexivity|].
      split; [rewrite HlenA', !app_length; cbn [length]; unfold j, tidx in *; lia|].
      split. { right. exists wpre, n. split; [reflexivity|]. split; [exact Hwpre|].
               unfold next_of in Vn. rewrite Hn in Vn. exact Vn. }
      split; [intros _; rewrite HlenA'; lia|].
      split. { rewrite <- app_assoc. cbn [app]. apply next_ok_splice; assumption. }
      intros pi Hpi. injection Hpi as <-. rewrite HlenA'. unfold j. split; [lia | left; lia].
Qed.
End Loop2.

(* the whole loop on a list the keyword leads *)
Lemma loop_bar pre rest fin :
  forallb bskip pre = true -> next_ok rest = true -> safe rest ->
  group_loop p (pre ++ K :: rest) 0 (ginit (pre ++ K :: rest)) = Ok fin -> bar (g_live fin).
Proof.
  intros Hp Hn Hs H.
  assert (Hnm : Forall (fun t => g_match p t = false) pre).
  { apply Forall_forall. intros y Hy. apply HmS. eapply forallb_In_true; eauto. }
  destruct (loop_nomatch_run pre (K :: rest) 0 (ginit (pre ++ K :: rest)) Hnm) as (s1 & E & L & O).
  rewrite E in H. cbn [Nat.add group_loop] in H. cbn [ginit g_live g_off] in L, O.
  rewrite O in H. rewrite (isK_ws K HK), (HmK K HK) in H.
  replace (Z.ltb (Z.of_nat (length pre) - 0) 0) with false in H by (symmetry; apply Z.ltb_ge; lia).
  apply (loop_binv (pre ++ [K]) rest Hs) in H.
  - destruct H as (rest' & -> & Hn'). exists pre, rest'. rewrite <- app_assoc. auto.
  - exists [], rest, []. cbn [g_live g_off g_pidx g_prev app length].
    split; [rewrite L, <- app_assoc; reflexivity|]. split; [reflexivity|].
    split; [rewrite app_length; cbn [length]; lia|]. split; [left; reflexivity|].
    split; [congruence|]. split; [exact Hn|].
    intros pi Hpi. injection Hpi as <-. rewrite app_length. cbn [length].
    split; [lia|]. right. auto.
Qed.

Hypothesis Hsafe_all : forall rest, next_ok rest = true -> safe rest.

Lemma pbar_driver : pass_bar (group_driver p).
Proof.
  intros c v l n' HI H. cbn [group_driver] in H.
  destruct (group_loop p l 0 (ginit l)) as [dry|]; [|discriminate]. cbn [bind] in H.
  destruct (mapM2 _ false l (rev (g_rec dry))) as [k1|] eqn:E1; [|discriminate]. cbn [bind] in H.
  destruct (group_loop p k1 0 (ginit k1)) as [fin|] eqn:E2; [|discriminate]. cbn [bind] in H.
  injection H as <-. eexists. split; [reflexivity|].
  assert (HR : Forall2 hrel l k1).
  { eapply mapM2_hrel; [|exact E1]. intros k f k' Hk. cbv beta in Hk.
    destruct (f && is_group k && negb (inst k (g_cls p))); [eapply hrel_driver; eauto|].
    injection Hk as <-. apply hrel_refl. }
  destruct (bar_hrel _ _ HR HI) as (pre & rest & -> & Hp & Hn).
  eapply loop_bar; eauto.
Qed.

Lemma pbar_driver_flat : pass_bar (group_driver_flat p).
Proof.
  intros c v l n' (pre & rest & -> & Hp & Hn) H. cbn [group_driver_flat] in H.
  destruct (group_loop p _ 0 _) as [fin|] eqn:E2; [|discriminate]. cbn [bind] in H.
  injection H as <-. eexists. split; [reflexivity|]. eapply loop_bar; eauto.
Qed.
End Driver.

(* ---- the parameter records ---------------------------------------------------------------------- *)
Lemma pre_pn p : g_post p = post_pn -> post_pre p.
Proof.
  intros Hp l pidx tidx nidx l1 f t. rewrite Hp. unfold post_pn. destruct nidx; [|discriminate].
  intros H; injection H as <- _ _. reflexivity.
Qed.

Lemma pre_tn p : g_post p = post_tn -> post_pre p.
Proof.
  intros Hp l pidx tidx nidx l1 f t. rewrite Hp. unfold post_tn. destruct nidx; [|discriminate].
  intros H; injection H as <- _ _. reflexivity.
Qed.

Lemma from_tn p : g_post p = post_tn -> from_tidx p.
Proof.
  intros Hp l pidx tidx nidx l1 f t. rewrite Hp. unfold post_tn. destruct nidx; [|discriminate].
  intros H; injection H as _ <- _. reflexivity.
Qed.

Lemma set_nth_firstn i x l : firstn i (set_nth i x l) = firstn i l.
Proof.
  revert i; induction l as [|y l IH]; intros [|i]; cbn [set_nth firstn]; auto. rewrite IH. reflexivity.
Qed.

Lemma pre_period : post_pre p_period.
Proof.
  intros l pidx tidx nidx l1 f t. cbn [g_post p_period]. destruct (imt _ _ _ _).
  - destruct nidx; [|discriminate]. intros H; injection H as <- _ _. reflexivity.
  - intros H; injection H as <- _ _. reflexivity.
Qed.

Lemma pre_arrays : post_pre p_arrays.
Proof. intros l pidx tidx nidx l1 f t. cbn [g_post p_arrays]. intros H; injection H as <- _ _. reflexivity. Qed.

Lemma pre_operator : post_pre p_operator.
Proof.
  intros l pidx tidx nidx l1 f t. cbn [g_post p_operator].
  destruct (nth_error l tidx) as [tk|]; [|discriminate]. destruct nidx as [ni|]; [|discriminate].
  destruct (is_group tk); [discriminate|]. intros H; injection H as <- _ _. apply set_nth_firstn.
Qed.

Lemma pbar_period : pass_bar (group_driver p_period).
Proof.
  apply pbar_driver; [exact po_period | exact pre_period | exact mK_period | exact mS_period|].
  intros rest _. left. apply vK_period, HK.
Qed.

Lemma pbar_arrays : pass_bar (group_driver_flat p_arrays).
Proof.
  apply pbar_driver_flat; [exact po_arrays | exact pre_arrays | exact mK_arrays | exact mS_arrays|].
  intros rest _. left. apply vK_arrays, HK.
Qed.

Lemma pbar_typecasts : pass_bar (group_driver p_typecasts).
Proof.
  apply pbar_driver; [exact po_typecasts | apply pre_pn; reflexivity | exact mK_typecasts | exact mS_typecasts|].
  intros rest Hn. right; right. intros t Ht. unfold next_ok in Hn. rewrite Ht in Hn.
  apply negb_true_iff in Hn. unfold bad_next in Hn. apply orb_false_iff in Hn. destruct Hn as [Hn _].
  apply orb_false_iff in Hn. destruct Hn as [Hn _]. exact Hn.
Qed.

Lemma pbar_tzcasts : pass_bar (group_driver p_tzcasts).
Proof.
  apply pbar_driver; [exact po_tzcasts | apply pre_pn; reflexivity | exact mK_tzcasts | exact mS_tzcasts|].
  intros rest Hn. right; right. intros t Ht. unfold next_ok in Hn. rewrite Ht in Hn.
  apply negb_true_iff in Hn. unfold bad_next in Hn. apply orb_false_iff in Hn. destruct Hn as [_ Hn].
  exact Hn.
Qed.

Lemma pbar_typed_literal :
  pass_bar (fun n => n1 <- group_driver p_typed_literal1 n ;; group_driver p_typed_literal2 n1).
Proof.
  intros c v l n' HI H. cbv beta in H.
  destruct (group_driver p_typed_literal1 (Grp c v l)) as [n1|] eqn:E1; [|discriminate]. cbn [bind] in H.
  assert (P1 : pass_bar (group_driver p_typed_literal1)).
  { apply pbar_driver; [exact po_typed1 | apply pre_tn; reflexivity | exact mK_typed1 | exact mS_typed1|].
    intros rest _. right; left. apply from_tn. reflexivity. }
  assert (P2 : pass_bar (group_driver p_typed_literal2)).
  { apply pbar_driver; [exact po_typed2 | apply pre_tn; reflexivity | exact mK_typed2 | exact mS_typed2|].
    intros rest _. right; left. apply from_tn. reflexivity. }
  destruct (P1 _ _ _ _ HI E1) as (l1 & -> & HI1). exact (P2 _ _ _ _ HI1 H).
Qed.

Lemma pbar_operator : pass_bar (group_driver p_operator).
Proof.
  apply pbar_driver; [exact po_operator | exact pre_operator | exact mK_operator | exact mS_operator|].
  intros rest _. left. apply vK_operator, HK.
Qed.

Lemma pbar_comparison : pass_bar (group_driver p_comparison).
Proof.
  apply pbar_driver; [exact po_comparison | apply pre_pn; reflexivity | exact mK_comparison | exact mS_comparison|].
  intros rest _. left. apply vK_comparison, HK.
Qed.

Lemma pbar_as : pass_bar (group_driver p_as).
Proof.
  apply pbar_driver; [exact po_as | apply pre_pn; reflexivity | exact mK_as | exact mS_as|].
  intros rest _. left. apply vK_as, HK.
Qed.

Lemma pbar_idlist : pass_bar (group_driver p_identifier_list).
Proof.
  apply pbar_driver; [exact po_idlist | apply pre_pn; reflexivity | exact mK_idlist | exact mS_idlist|].
  intros rest _. left. apply vK_idlist, HK.
Qed.

(* ---- group_assignment: its post returns the index of a far-away `;`, after which the loop walks
        the rest of the snapshot with stale indices.  With at most one `:=` among the siblings there
        is at most one group_tokens call, made while the indices are still exact. ----------------- *)
Lemma cnt_top_app a b : cnt_top (a ++ b) = cnt_top a + cnt_top b.
Proof. unfold cnt_top. rewrite filter_app, app_length. reflexivity. Qed.

Lemma cnt_top_split l : cnt_top l <= 1 ->
  Forall (fun t => is_assign t = false) l \/
  exists r1 m r2, l = r1 ++ m :: r2 /\ is_assign m = true /\
                  Forall (fun t => is_assign t = false) r1 /\ Forall (fun t => is_assign t = false) r2.
Proof.
  unfold cnt_top. induction l as [|x l IH]; intros H; [left; constructor|]. cbn [filter] in H.
  destruct (is_assign x) eqn:Ex; cbn [length] in H.
  - right. exists [], x, l. split; [reflexivity|]. split; [exact Ex|]. split; [constructor|].
    destruct IH as [IH | (r1 & m & r2 & -> & Hm & _)]; [lia | exact IH |].
    exfalso. rewrite filter_app in H. cbn [filter] in H. rewrite Hm, app_length in H. cbn [length] in H. lia.
  - destruct (IH H) as [IH' | (r1 & m & r2 & -> & Hm & H1 & H2)].
    + left. constructor; assumption.
    + right. exists (x :: r1), m, r2. split; [reflexivity|]. split; [exact Hm|]. split; [constructor|]; assumption.
Qed.

Lemma ws_or_not l : Forall (fun y => is_ws y = true) l \/ Exists (fun y => is_ws y = false) l.
Proof.
  induction l as [|x l [IH | IH]]; [left; constructor | |right; constructor 2; exact IH].
  destruct (is_ws x) eqn:E; [left; constructor; assumption | right; constructor 1; exact E].
Qed.

Lemma loop_run_pidx p : forall a b idx s lb,
  Forall (fun t => g_match p t = false) a -> g_off s = 0%Z -> lb <= idx ->
  ((exists pi, g_pidx s = Some pi /\ lb <= pi < idx) \/ Exists (fun y => is_ws y = false) a) ->
  exists s1, group_loop p (a ++ b) idx s = group_loop p b (idx + length a) s1 /\
             g_live s1 = g_live s /\ g_off s1 = 0%Z /\
             exists pi, g_pidx s1 = Some pi /\ lb <= pi < idx + length a.
Proof.
  induction a as [|t a IH]; intros b idx s lb Ha Hoff Hlb Hor.
  - destruct Hor as [(pi & Hpi & Hr) | Hex]; [|inversion Hex].
    exists s. cbn [app length]. rewrite Nat.add_0_r. split; [reflexivity|]. split; [reflexivity|].
    split; [exact Hoff|]. exists pi. split; [exact Hpi | lia].
  - inversion Ha as [|? ? Ht Ha']; subst. cbn [app length group_loop]. rewrite Ht, Hoff.
    replace (Z.ltb (Z.of_nat idx - 0) 0) with false by (symmetry; apply Z.ltb_ge; lia).
    replace (Z.to_nat (Z.of_nat idx - 0)) with idx by lia.
    replace (idx + S (length a)) with (S idx + length a) by lia.
    destruct (is_ws t) eqn:Hws.
    + match goal with |- exists s1, group_loop _ _ _ ?st = _ /\ _ =>
        destruct (IH b (S idx) st lb Ha') as (s1 & E & L & O & pi & Hpi & Hr) end;
        [reflexivity | lia | |].
      * cbn [g_pidx]. destruct Hor as [(pi & Hpi & Hr) | Hex]; [left; exists pi; split; [exact Hpi | lia]|].
        right. inversion Hex as [? ? Hx | ? ? Hx]; subst; [congruence | exact Hx].
      * exists s1. rewrite E. cbn [g_live] in L. repeat split; auto. exists pi. split; [exact Hpi | lia].
    + match goal with |- exists s1, group_loop _ _ _ ?st = _ /\ _ =>
        destruct (IH b (S idx) st lb Ha') as (s1 & E & L & O & pi & Hpi & Hr) end;
        [reflexivity | lia | |].
      * left. exists idx. cbn [g_pidx]. split; [reflexivity | lia].
      * exists s1. rewrite E. cbn [g_live] in L. repeat split; auto. exists pi. split; [exact Hpi | lia].
Qed.

Lemma assign_nonws m : is_assign m = true -> is_ws m = false.
Proof.
  destruct m as [ty v | c v kids]; [|discriminate]. unfold is_assign, match_pat. cbn [fst].
  intros H. apply andb_true_iff in H. destruct H as [H _]. apply ttype_eqb_eq in H. subst ty. reflexivity.
Qed.

Lemma post_assign_from l pidx tidx nidx l1 f t :
  g_post p_assignment l pidx tidx nidx = Ok (l1, f, t) -> l1 = l /\ f = pidx.
Proof.
  cbn [g_post p_assignment]. destruct nidx as [ni|]; [|discriminate].
  destruct (next_by_from _ _ _ _ _) as [[si x]|]; intros H; injection H as <- <- _; auto.
Qed.

Lemma loop_bar_assign pre rest fin :
  forallb bskip pre = true -> next_ok rest = true -> cnt_top rest <= 1 ->
  group_loop p_assignment (pre ++ K :: rest) 0 (ginit (pre ++ K :: rest)) = Ok fin -> bar (g_live fin).
Proof.
  intros Hp Hn Hc H.
  assert (HI0 : bar (pre ++ K :: rest)) by (exists pre, rest; auto).
  assert (Hnm : Forall (fun t => g_match p_assignment t = false) (pre ++ [K])).
  { apply Forall_app. split; [|constructor; [apply mK_assignment, HK | constructor]].
    apply Forall_forall. intros y Hy. apply mS_assignment. eapply forallb_In_true; eauto. }
  destruct (cnt_top_split rest Hc) as [Hall | (r1 & m & r2 & -> & Hm & H1 & H2)].
  - (* no `:=` among the siblings *)
    apply loop_nomatch_live in H.
    + rewrite H. exact HI0.
    + replace (pre ++ K :: rest) with ((pre ++ [K]) ++ rest) by (rewrite <- app_assoc; reflexivity).
      apply Forall_app. split; [exact Hnm | exact Hall].
  - (* exactly one *)
    set (l := pre ++ K :: r1 ++ m :: r2) in *.
    assert (El : l = (pre ++ [K]) ++ r1 ++ m :: r2) by (unfold l; rewrite <- app_assoc; reflexivity).
    rewrite El in H at 1.
    destruct (loop_nomatch_run p_assignment (pre ++ [K]) (r1 ++ m :: r2) 0 (ginit l) Hnm)
      as (s1 & E & L & O).
    rewrite E in H. cbn [Nat.add ginit g_live g_off] in L, O, H.
    assert (Hex : Exists (fun y => is_ws y = false) r1).
    { destruct (ws_or_not r1) as [Hw | Hx]; [|exact Hx]. exfalso.
      unfold next_ok in Hn. rewrite (nx_ws_app _ _ Hw) in Hn. cbn [nx] in Hn.
      rewrite (assign_nonws _ Hm) in Hn. unfold bad_next in Hn. rewrite Hm in Hn.
      rewrite orb_true_r in Hn. discriminate. }
    destruct (loop_run_pidx p_assignment r1 (m :: r2) (length (pre ++ [K])) s1 (length (pre ++ [K]))
                H1 O (le_n _) (or_intror Hex)) as (s2 & E2 & L2 & O2 & pi & Hpi & Hr).
    rewrite E2 in H. rewrite L in L2.
    assert (Hplain : forall i st, g_live st = l -> group_loop p_assignment r2 i st = Ok fin -> bar (g_live fin)).
    { intros i st Hst Hg. apply loop_nomatch_live in Hg; [|exact H2]. rewrite Hg, Hst. exact HI0. }
    cbn [group_loop] in H. rewrite O2 in H.
    match type of H with context [Z.ltb ?a 0] =>
      replace (Z.ltb a 0) with false in H by (symmetry; apply Z.ltb_ge; lia) end.
    rewrite (assign_nonws _ Hm) in H.
    change (g_match p_assignment m) with (is_assign m) in H. rewrite Hm in H.
    destruct (g_prev s2) as [pv|]; [|eapply Hplain; [|exact H]; exact L2].
    rewrite Hpi in H.
    destruct (g_vprev p_assignment pv && g_vnext p_assignment _); [|eapply Hplain; [|exact H]; exact L2].
    destruct (g_post p_assignment _ _ _ _) as [[[l1 from] to]|] eqn:Epost; [|discriminate].
    cbn [bind] in H. apply post_assign_from in Epost. destruct Epost as [-> ->].
    destruct (group_tokens _ _ _ _ _) as [[live2 grp]|] eqn:Eg; [|discriminate]. cbn [bind] in H.
    apply loop_nomatch_live in H; [|exact H2]. cbn [g_live] in H. rewrite H.
    rewrite L2 in Eg. unfold l in Eg.
    eapply bar_gt_after; [exact Hp | | | exact Eg].
    + exact Hn.
    + rewrite app_length in Hr. cbn [length] in Hr. lia.
Qed.

Lemma pbar_assignment c v l n' :
  bar l -> cnt_top l <= 1 -> group_driver p_assignment (Grp c v l) = Ok n' ->
  exists l', n' = Grp c v l' /\ bar l'.
Proof.
  intros HI Hc H. cbn [group_driver] in H.
  destruct (group_loop p_assignment l 0 (ginit l)) as [dry|]; [|discriminate]. cbn [bind] in H.
  destruct (mapM2 _ false l (rev (g_rec dry))) as [k1|] eqn:E1; [|discriminate]. cbn [bind] in H.
  destruct (group_loop p_assignment k1 0 (ginit k1)) as [fin|] eqn:E2; [|discriminate]. cbn [bind] in H.
  injection H as <-. eexists. split; [reflexivity|].
  assert (HR : Forall2 hrel l k1).
  { eapply mapM2_hrel; [|exact E1]. intros k f k' Hk. cbv beta in Hk.
    destruct (f && is_group k && negb (inst k (g_cls p_assignment))); [eapply hrel_driver; eauto|].
    injection Hk as <-. apply hrel_refl. }
  rewrite <- (hrel_cnt_top _ _ HR) in Hc.
  destruct (bar_hrel _ _ HR HI) as (pre & rest & -> & Hp & Hn).
  eapply loop_bar_assign; eauto.
  rewrite cnt_top_app in Hc. change (K :: rest) with ([K] ++ rest) in Hc. rewrite cnt_top_app in Hc. lia.
Qed.

End Barrier.

(* ================================================================================================ *)
(* 7. all 25 passes                                                                                 *)
Lemma is_assign_leaf ty v : is_assign (Leaf ty v) = tok_assign (ty, v).
Proof.
  unfold is_assign, tok_assign, match_pat. cbn [fst snd].
  destruct (ttype_eqb ty T_Assignment) eqn:E; [|reflexivity].
  apply ttype_eqb_eq in E. subst ty. cbn [andb tin T_Assignment T_Keyword tcomp_eqb existsb].
  apply orb_false_r.
Qed.

Lemma cntA_app a b : cntA (a ++ b) = cntA a + cntA b.
Proof. unfold cntA. rewrite filter_app, app_length. reflexivity. Qed.

Lemma cnt_top_leaves l : cnt_top l <= cntA (leaves_list l).
Proof.
  induction l as [|x l IH]; [apply le_n|].
  change (x :: l) with ([x] ++ l). rewrite cnt_top_app, leaves_list_app, cntA_app.
  enough (cnt_top [x] <= cntA (leaves_list [x])) by lia.
  unfold cnt_top, leaves_list. cbn [filter flat_map]. rewrite app_nil_r.
  destruct x as [ty v | c v kids]; [|cbn [is_assign match_pat length]; lia].
  rewrite is_assign_leaf. unfold cntA. cbn [leaves filter]. destruct (tok_assign (ty, v)); apply le_n.
Qed.

Lemma lsim_cntA a b : lsim a b -> cntA b <= cntA a.
Proof.
  unfold cntA. induction 1 as [|x y a b [Hv Ht] _ IH]; [apply le_n|]. cbn [filter].
  destruct (tok_assign y) eqn:Ey.
  - assert (Ex : tok_assign x = true).
    { unfold tok_assign in *. rewrite Hv. destruct Ht as [-> | Ht]; [exact Ey|].
      rewrite Ht in Ey. discriminate. }
    rewrite Ex. cbn [length]. lia.
  - destruct (tok_assign x); cbn [length]; lia.
Qed.

(* the invariant threaded through the pipeline *)
Definition sinv (K : node) (n : node) : Prop :=
  exists v l, n = Grp CStatement v l /\ bar K l /\ cntA (leaves n) <= 1.

Definition pass_sinv (K : node) (ps : node -> res node) : Prop :=
  forall n n', sinv K n -> ps n = Ok n' -> sinv K n'.

Lemma pass_sinv_of K ps : pass_good ps -> pass_bar K ps -> pass_sinv K ps.
Proof.
  intros Hg Hb n n' (v & l & -> & HI & Hc) H.
  destruct (Hb _ _ _ _ HI H) as (l' & -> & HI'). exists v, l'. split; [reflexivity|]. split; [exact HI'|].
  destruct (Hg _ _ H) as [Hs _]. pose proof (lsim_cntA _ _ Hs). lia.
Qed.

Lemma pass_sinv_assignment K : isK K -> pass_sinv K (group_driver p_assignment).
Proof.
  intros HK n n' (v & l & -> & HI & Hc) H.
  assert (Hct : cnt_top l <= 1).
  { pose proof (cnt_top_leaves l) as Hle. change (leaves (Grp CStatement v l)) with (leaves_list l) in Hc. lia. }
  destruct (pbar_assignment K HK _ _ _ _ HI Hct H) as (l' & -> & HI').
  exists v, l'. split; [reflexivity|]. split; [exact HI'|].
  destruct (group_driver_good _ pg_assignment _ _ H) as [Hs _]. pose proof (lsim_cntA _ _ Hs). lia.
Qed.

Theorem passes_sinv K : isK K -> Forall (pass_sinv K) passes.
Proof.
  intros HK. unfold passes.
  repeat match goal with
         | |- Forall _ (_ :: _) => apply Forall_cons
         | |- Forall _ [] => apply Forall_nil
         end.
  - apply pass_sinv_of; [intros n n'; apply recurse_pass_good, fg_comments | apply (pbar_recurse K HK), (fbar_comments K HK)].
  - apply pass_sinv_of; [intros n n'; apply group_matching_good | apply pbar_matching; [exact HK | reflexivity]].
  - apply pass_sinv_of; [intros n n'; apply group_matching_good | apply pbar_matching; [exact HK | reflexivity]].
  - apply pass_sinv_of; [intros n n'; apply group_matching_good | apply pbar_matching; [exact HK | reflexivity]].
  - apply pass_sinv_of; [intros n n'; apply group_matching_good | apply pbar_matching; [exact HK | reflexivity]].
  - apply pass_sinv_of; [intros n n'; apply group_matching_good | apply pbar_matching; [exact HK | reflexivity]].
  - apply pass_sinv_of; [intros n n'; apply group_matching_good | apply pbar_matching; [exact HK | reflexivity]].
  - apply pass_sinv_of; [intros n n'; apply recurse_pass_good, fg_over | apply (pbar_recurse K HK), (fbar_over K HK)].
  - apply pass_sinv_of; [intros n n'; apply recurse_pass_good, fg_functions | apply (pbar_recurse K HK), (fbar_functions K HK)].
  - apply pass_sinv_of; [intros n n'; apply recurse_pass_good, fg_where | apply (pbar_recurse K HK), (fbar_where K HK)].
  - apply pass_sinv_of; [intros n n'; apply group_driver_good, pg_period | apply pbar_period, HK].
  - apply pass_sinv_of; [intros n n'; apply group_driver_flat_good, pg_arrays | apply pbar_arrays, HK].
  - apply pass_sinv_of; [intros n n'; apply recurse_pass_good, fg_identifier | apply (pbar_recurse K HK), (fbar_identifier K HK)].
  - apply pass_sinv_of; [intros n n'; apply recurse_pass_good, fg_order | apply (pbar_recurse K HK), (fbar_order K HK)].
  - apply pass_sinv_of; [intros n n'; apply group_driver_good, pg_typecasts | apply pbar_typecasts, HK].
  - apply pass_sinv_of; [intros n n'; apply group_driver_good, pg_tzcasts | apply pbar_tzcasts, HK].
  - apply pass_sinv_of; [|apply pbar_typed_literal, HK].
    intros n n' H. destruct (group_driver p_typed_literal1 n) as [n1|] eqn:E; [|discriminate]. cbn [bind] in H.
    eapply ngood_trans; [eapply group_driver_good; [apply pg_typed1 | exact E]|].
    eapply group_driver_good; [apply pg_typed2 | exact H].
  - apply pass_sinv_of; [intros n n'; apply group_driver_good, pg_operator | apply pbar_operator, HK].
  - apply pass_sinv_of; [intros n n'; apply group_driver_good, pg_comparison | apply pbar_comparison, HK].
  - apply pass_sinv_of; [intros n n'; apply group_driver_good, pg_as | apply pbar_as, HK].
  - apply pass_sinv_of; [intros n n'; apply recurse_pass_good, fg_aliased | apply (pbar_recurse K HK), (fbar_aliased K HK)].
  - apply pass_sinv_assignment, HK.
  - apply pass_sinv_of; [intros n n'; apply recurse_pass_good, fg_align_comments | apply (pbar_recurse K HK), (fbar_align_comments K HK)].
  - apply pass_sinv_of; [intros n n'; apply group_driver_good, pg_idlist | apply pbar_idlist, HK].
  - apply pass_sinv_of; [intros n n'; apply group_values_good | apply pbar_values, HK].
Qed.

Lemma run_passes_sinv K ps : Forall (pass_sinv K) ps ->
  forall n n', sinv K n -> run_passes ps n = Ok n' -> sinv K n'.
Proof.
  induction 1 as [|q ps Hq _ IH]; intros n n' HI H; cbn [run_passes] in H.
  - injection H as <-. exact HI.
  - destruct (q n) as [n1|] eqn:E; [|discriminate]. cbn [bind] in H. eapply IH; [|exact H]. eapply Hq; eauto.
Qed.

(* ---- the statement the splitter builds ---------------------------------------------------------- *)
Lemma bskip_leaf ty v : bskip (Leaf ty v) = tin ty T_Whitespace || tin ty T_Comment.
Proof.
  unfold bskip, skip_matcher, imt, inst_any, tmatch, is_ws, tt_in. cbn [existsb inst andb orb].
  apply negb_involutive.
Qed.

Lemma tok_skippable_bskip pre : forallb tok_skippable pre = true -> forallb bskip (map leaf_of pre) = true.
Proof.
  induction pre as [|[ty v] pre IH]; cbn [forallb map]; [auto|]. intros H. apply andb_true_iff in H.
  destruct H as [H1 H2]. unfold leaf_of at 1. cbn [fst snd]. rewrite bskip_leaf. unfold tok_skippable in H1.
  cbn [fst] in H1. rewrite H1. cbn [andb]. auto.
Qed.

Lemma tok_skippable_cntA pre : forallb tok_skippable pre = true -> cntA pre = 0.
Proof.
  unfold cntA. induction pre as [|[ty v] pre IH]; cbn [forallb filter]; [reflexivity|]. intros H.
  apply andb_true_iff in H. destruct H as [H1 H2].
  replace (tok_assign (ty, v)) with false; [auto|]. symmetry. unfold tok_assign. cbn [fst snd].
  destruct (ttype_eqb ty T_Assignment) eqn:E; [|reflexivity]. apply ttype_eqb_eq in E. subst ty.
  discriminate H1.
Qed.

Lemma barrier_guard_spec pre ty kw rest : barrier_guard pre ty kw rest = true ->
  forallb tok_skippable pre = true /\ (ty = T_DML \/ ty = T_DDL) /\ kw_ok kw = true /\
  tok_next_ok rest = true /\ cntA rest <= 1.
Proof.
  unfold barrier_guard. intros H. repeat (apply andb_true_iff in H; destruct H as [H ?]).
  split; [exact H|]. split.
  - cbn [existsb] in *. rewrite orb_false_r in H3. apply orb_true_iff in H3.
    destruct H3 as [E | E]; apply ttype_eqb_eq in E; auto.
  - split; [assumption|]. split; [assumption|]. apply Nat.leb_le. assumption.
Qed.

Lemma statement_sinv pre ty kw rest : barrier_guard pre ty kw rest = true ->
  isK (Leaf ty kw) /\ sinv (Leaf ty kw) (statement_of (pre ++ (ty, kw) :: rest)).
Proof.
  intros H. apply barrier_guard_spec in H. destruct H as (Hp & Hty & Hk & Hn & Hc).
  split; [exists ty, kw; auto|].
  unfold statement_of, mk_grp. eexists _, _. split; [reflexivity|]. split.
  - exists (map leaf_of pre), (map leaf_of rest). rewrite map_app. cbn [map].
    split; [reflexivity|]. split; [apply tok_skippable_bskip, Hp | exact Hn].
  - fold (mk_grp CStatement (map (fun tk => Leaf (fst tk) (snd tk)) (pre ++ (ty, kw) :: rest))).
    fold (statement_of (pre ++ (ty, kw) :: rest)). rewrite statement_leaves.
    rewrite cntA_app, (tok_skippable_cntA _ Hp). change ((ty, kw) :: rest) with ([(ty, kw)] ++ rest).
    rewrite cntA_app. replace (cntA [(ty, kw)]) with 0; [lia|].
    destruct Hty as [-> | ->]; reflexivity.
Qed.

Lemma find_aux_prefix f pre x rest : forall b,
  forallb (fun y => negb (f y)) pre = true -> f x = true ->
  find_from_aux f (pre ++ x :: rest) b = Some (b + length pre, x).
Proof.
  induction pre as [|y pre IH]; intros b Hp Hx; cbn [app find_from_aux length forallb] in *.
  - rewrite Hx, Nat.add_0_r. reflexivity.
  - apply andb_true_iff in Hp. destruct Hp as [Hy Hp]. apply negb_true_iff in Hy. rewrite Hy.
    rewrite (IH (S b) Hp Hx). f_equal. f_equal. lia.
Qed.

Lemma bar_leadsb ty kw l : (ty = T_DML \/ ty = T_DDL) -> bar (Leaf ty kw) l -> leadsb kw l = true.
Proof.
  intros Hty (pre & rest & -> & Hp & _). unfold leadsb, find_from. cbn [skipn].
  rewrite (find_aux_prefix (skip_matcher true true) pre (Leaf ty kw) rest 0 Hp);
    [|destruct Hty as [-> | ->]; reflexivity].
  rewrite (proj2 (text_eqb_eq kw kw) eq_refl), andb_true_r.
  destruct Hty as [-> | ->]; reflexivity.
Qed.

(* MAIN (tree level): after every prefix of the 25 passes the keyword leaf still leads the
   statement's children *)
Theorem barrier_group_upto : forall k pre ty kw rest s,
  barrier_guard pre ty kw rest = true ->
  group_upto k (statement_of (pre ++ (ty, kw) :: rest)) = Ok s ->
  exists v l, s = Grp CStatement v l /\ bar (Leaf ty kw) l /\ leadsb kw l = true.
Proof.
  intros k pre ty kw rest s Hg H. pose proof (barrier_guard_spec _ _ _ _ Hg) as (_ & Hty & _).
  destruct (statement_sinv _ _ _ _ Hg) as (HK & HI).
  unfold group_upto in H.
  assert (HF : Forall (pass_sinv (Leaf ty kw)) (firstn k passes)) by (apply Forall_firstn, passes_sinv, HK).
  destruct (run_passes_sinv _ _ HF _ _ HI H) as (v & l & -> & Hb & _).
  exists v, l. split; [reflexivity|]. split; [exact Hb | eapply bar_leadsb; eauto].
Qed.

Theorem barrier_group : forall pre ty kw rest s,
  barrier_guard pre ty kw rest = true ->
  group (statement_of (pre ++ (ty, kw) :: rest)) = Ok s ->
  exists v l, s = Grp CStatement v l /\ bar (Leaf ty kw) l /\ leadsb kw l = true.
Proof. intros pre ty kw rest s Hg H. exact (barrier_group_upto 25 pre ty kw rest s Hg H). Qed.

Print Assumptions barrier_group_upto.
Print Assumptions barrier_group.
