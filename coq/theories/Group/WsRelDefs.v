(* C11, grouping layer, WHITE-SPACE TOKENS RE-SPELLED ONE FOR ONE (a blank for a tab, CR LF for LF ...), together with
   the keyword spellings of CaseRelDefs.v: the relation [wrelG Rl Rw Rg] between trees of the same structure and
   classes whose corresponding leaves have the same token type; values are EQUAL except on keyword leaves (related
   by Rl) and on white-space leaves (type in T.Whitespace, which includes Newline; related by Rw), and the cached
   values of groups are related by Rg.  A parallel development to CaseRelDefs.v / CaseRelFacts.v (which it
   generalises: Rw := eq gives crelG); kept separate so that the statements proved there stay untouched.
   Definitions only; proofs in WsRelFacts.v. *)
From SqlModel Require Import Base PyStr Node Passes PassIR CaseDefs SplitDefs Skeleton CaseRelDefs.
From SqlModel.Gen Require Import CaseTabs.

Section Rel.
Variables Rl Rw Rg : text -> text -> Prop.

Definition lrel (ty : ttype) (v v' : text) : Prop :=
  if tin ty T_Keyword then Rl v v' else if tin ty T_Whitespace then Rw v v' else v = v'.

Inductive wrelG : node -> node -> Prop :=
| WR_leaf ty v v' : lrel ty v v' -> wrelG (Leaf ty v) (Leaf ty v')
| WR_grp c v v' k k' : Rg v v' -> Forall2 wrelG k k' -> wrelG (Grp c v k) (Grp c v' k').
End Rel.

(* a white-space value: not empty, str.isspace() characters only *)
Definition wsv (v : text) : bool :=
  match v with [] => false | _ => forallb (fun c => cmem c space_set) v end.

(* tokens (before statement_of) *)
Definition tok_relW (Rl Rw : text -> text -> Prop) (a b : tok) : Prop :=
  fst a = fst b /\ lrel Rl Rw (fst a) (snd a) (snd b).

(* ---- the syntactic checks ------------------------------------------------------------------------ *)
(* a word a white-space value cannot be equal to: empty, or with a character that is no white space *)
Definition s_not_ws (s : text) : bool :=
  match s with [] => true | _ => existsb (fun c => negb (cmem c space_set)) s end.

(* Token.match(ttype, values) cannot tell two white-space values apart *)
Definition pat_ws_ok (p : pat) : bool :=
  negb (tin (fst p) T_Whitespace) ||
  match snd p with None => true | Some vals => forallb s_not_ws vals end.

Fixpoint leaf_safe_ws (e : pexpr) : bool :=
  match e with
  | TokenMatch p => pat_ws_ok p
  | Imt _ m _ => forallb pat_ws_ok m
  | NormalizedEq s | ValueEq s => s_not_ws s
  | ValueUpperEq s => nospace s
  | Not a => leaf_safe_ws a
  | And a b | Or a b => leaf_safe_ws a && leaf_safe_ws b
  | _ => true
  end.

Definition case_safe_w (e : pexpr) : bool := case_safe e && leaf_safe_ws e.

Definition post_case_safe_w (po : ppost) : bool :=
  match po with
  | PostPair _ _ => true
  | PostIfNext c _ _ _ _ => case_safe_w c
  | PostSeekNext m _ _ => forallb pat_ws_ok m
  | PostRetype _ _ _ => false
  end.
