(* C09, pipeline part: passes 8-25 of grouping.group never create, destroy, split or merge a
   bracket/block group.  See SpanDefs.v for `spans`.

   Structure:
     A. arithmetic of sig_len / spans_list
     B. what one group_tokens call does to a sibling list (wrap a slice / extend a group)
     C. the relations  lgood (passes 1-7: leaves, comments_pure, fl_ok)  and
                       sgood (passes 8-25: comments_pure, leaves up to the Operator re-typing, spans)
     D. a generic lifting of a list relation through scan / @recurse / _group (with and without the
        synchronisation invariant linv of DriverTotal.v)
     E. the passes
     F. the pipeline theorems *)
From SqlModel Require Import Base PyStr Node Inv Passes GroupFacts MatchSpec MatchFacts
  TotalDefs TotalBase DriverTotal ScanTotal ShapeFacts TotalFacts SpanDefs.
From Coq Require Import ZArith.

(* ================================================================================================
   A. sig_len, spans_list
   ================================================================================================ *)
Lemma sig_len_app a b :
  sig_len (a ++ b) = match sig_len b with 0 => sig_len a | S k => length a + S k end.
Proof.
  induction a as [|x a IH]; cbn [app sig_len length].
  - destruct (sig_len b); reflexivity.
  - rewrite IH. destruct (sig_len b) as [|k]; [reflexivity|].
    replace (length a + S k) with (S (length a + k)) by lia. cbv iota beta. lia.
Qed.

Lemma sig_len_all ls : forallb triv_tok ls = true -> sig_len (map triv_tok ls) = 0.
Proof.
  induction ls as [|t ls IH]; cbn [forallb map sig_len]; [reflexivity|].
  intros H. apply andb_true_iff in H. destruct H as [H1 H2]. rewrite (IH H2), H1. reflexivity.
Qed.

Lemma sig_len_last fl : sig_len (fl ++ [false]) = S (length fl).
Proof. rewrite sig_len_app. cbn [sig_len]. lia. Qed.

Lemma sig_len_le fl : sig_len fl <= length fl.
Proof.
  induction fl as [|b fl IH]; cbn [sig_len length]; [lia|].
  destruct (sig_len fl); [destruct b|]; lia.
Qed.

(* what sig_len computes: the flag just before it is `false`, every flag from it on is `true` *)
Lemma sig_len_spec fl :
  (forall k, sig_len fl = S k -> nth_error fl k = Some false) /\
  (forall i, sig_len fl <= i -> i < length fl -> nth_error fl i = Some true).
Proof.
  induction fl as [|b fl [IH1 IH2]]; cbn [sig_len length].
  - split; [discriminate | intros; lia].
  - destruct (sig_len fl) as [|m] eqn:E.
    + destruct b; split.
      * discriminate.
      * intros [|i] _ Hi; [reflexivity|]. cbn [nth_error]. apply IH2; lia.
      * intros k Hk. injection Hk as <-. reflexivity.
      * intros [|i] H0 Hi; [lia|]. cbn [nth_error]. apply IH2; lia.
    + split.
      * intros k Hk. injection Hk as <-. cbn [nth_error]. apply IH1. reflexivity.
      * intros [|i] H0 Hi; [lia|]. cbn [nth_error]. apply IH2; lia.
Qed.

Lemma spans_at_grp base c v kids :
  spans_at base (Grp c v kids) =
  (if is_bracket c then [(c, base, base + sig_len (flags_list kids))] else []) ++ spans_list base kids.
Proof. reflexivity. Qed.

Lemma spans_at_leaf base ty v : spans_at base (Leaf ty v) = [].
Proof. reflexivity. Qed.

Lemma spans_list_app base a b :
  spans_list base (a ++ b) = spans_list base a ++ spans_list (base + length (leaves_list a)) b.
Proof.
  revert base; induction a as [|k a IH]; intros base; cbn [app spans_list].
  - cbn [leaves_list flat_map length]. rewrite Nat.add_0_r. reflexivity.
  - rewrite IH, <- app_assoc. rewrite leaves_list_cons, app_length, Nat.add_assoc. reflexivity.
Qed.

Lemma spans_list_cons base k l :
  spans_list base (k :: l) = spans_at base k ++ spans_list (base + length (leaves k)) l.
Proof. reflexivity. Qed.

Lemma flags_list_app a b : flags_list (a ++ b) = flags_list a ++ flags_list b.
Proof. unfold flags_list. rewrite leaves_list_app, map_app. reflexivity. Qed.

(* ================================================================================================
   B. one group_tokens call
   ================================================================================================ *)
Lemma group_tokens_cases c start stop ext l l' g :
  group_tokens c start stop ext l = Ok (l', g) ->
  (exists A sub rest, l = A ++ sub ++ rest /\ l' = A ++ mk_grp c sub :: rest /\
                      sub = firstn (stop - start) (skipn start l)) \/
  (exists A c' v kids sub rest,
      ext = true /\ inst (Grp c' v kids) c = true /\
      l = A ++ Grp c' v kids :: sub ++ rest /\ l' = A ++ mk_grp c' (kids ++ sub) :: rest /\
      sub = firstn (stop - S start) (skipn (S start) l)).
Proof.
  intros H. apply group_tokens_inv in H.
  destruct H as (first & E & [(X & c' & v & kids & -> & Hg & Hl) | (X & Hg & Hl)]).
  - right. apply andb_true_iff in X. destruct X as [X1 X2].
    exists (firstn start l), c', v, kids, (firstn (stop - S start) (skipn (S start) l)),
           (skipn (Nat.max (S start) stop) l).
    split; [exact X1|]. split; [exact X2|]. split; [|split; [subst g; exact Hl | reflexivity]].
    rewrite slice_rest, <- (nth_error_split_skipn _ _ _ E), firstn_skipn. reflexivity.
  - left. exists (firstn start l), (firstn (stop - start) (skipn start l)), (skipn (Nat.max start stop) l).
    split; [|split; [subst g; exact Hl | reflexivity]].
    rewrite slice_rest, firstn_skipn. reflexivity.
Qed.

(* ---- all_nodes ------------------------------------------------------------------------------------ *)
Definition alln (Q : cls -> list tok -> bool) (l : list node) : bool := forallb (all_nodes Q) l.

Lemma all_nodes_grp Q c v kids :
  all_nodes Q (Grp c v kids) = Q c (leaves_list kids) && alln Q kids.
Proof. reflexivity. Qed.

Lemma alln_app Q a b : alln Q (a ++ b) = alln Q a && alln Q b.
Proof. apply forallb_app. Qed.

Lemma alln_cons Q k l : alln Q (k :: l) = all_nodes Q k && alln Q l.
Proof. reflexivity. Qed.

Lemma alln_wrap Q c A sub rest :
  alln Q (A ++ sub ++ rest) = true -> Q c (leaves_list sub) = true ->
  alln Q (A ++ mk_grp c sub :: rest) = true.
Proof.
  rewrite !alln_app, alln_cons. unfold mk_grp. rewrite all_nodes_grp.
  intros H HQ. apply andb_true_iff in H. destruct H as [H1 H]. apply andb_true_iff in H.
  destruct H as [H2 H3]. rewrite H1, H2, H3, HQ. reflexivity.
Qed.

Lemma alln_extend Q A c' v kids sub rest :
  alln Q (A ++ Grp c' v kids :: sub ++ rest) = true -> Q c' (leaves_list (kids ++ sub)) = true ->
  alln Q (A ++ mk_grp c' (kids ++ sub) :: rest) = true.
Proof.
  rewrite !alln_app, !alln_cons, alln_app. unfold mk_grp. rewrite !all_nodes_grp, alln_app.
  intros H HQ. apply andb_true_iff in H. destruct H as [H1 H]. apply andb_true_iff in H.
  destruct H as [H2 H]. apply andb_true_iff in H2. destruct H2 as [_ H2].
  apply andb_true_iff in H. destruct H as [H3 H4]. rewrite H1, H2, H3, H4, HQ. reflexivity.
Qed.

(* ================================================================================================
   C. the relations
   ================================================================================================ *)
(* ---- leaves up to the re-typing Operator/Wildcard -> Operator of group_operator ------------------ *)
(* otok_sim / osim: see SpanDefs.v *)

Lemma otok_sim_refl a : otok_sim a a. Proof. left; reflexivity. Qed.

Lemma osim_refl a : osim a a.
Proof. induction a; constructor; auto using otok_sim_refl. Qed.

Lemma otok_sim_trans a b c : otok_sim a b -> otok_sim b c -> otok_sim a c.
Proof.
  intros [-> | (V1 & T1 & S1)] H2; [exact H2|].
  destruct H2 as [<- | (V2 & T2 & S2)]; right; [auto|].
  split; [congruence|]. split; [exact T2 | exact S1].
Qed.

Lemma osim_trans a b c : osim a b -> osim b c -> osim a c.
Proof.
  intros H; revert c. induction H as [|x y a b Hxy Hab IH]; intros c Hc.
  - inversion Hc; subst. constructor.
  - inversion Hc as [|y' z b' c' Hyz Hbc]; subst.
    constructor; [eapply otok_sim_trans; eauto | apply IH; assumption].
Qed.

Lemma osim_app a a' b b' : osim a a' -> osim b b' -> osim (a ++ b) (a' ++ b').
Proof. apply Forall2_app. Qed.

Lemma osim_length a b : osim a b -> length a = length b.
Proof. apply Forall2_length'. Qed.

Lemma otok_sim_triv a b : otok_sim a b -> triv_tok a = triv_tok b.
Proof.
  intros [-> | (_ & T & S)]; [reflexivity|]. unfold triv_tok. rewrite T.
  destruct S as [-> | ->]; reflexivity.
Qed.

Lemma osim_flags a b : osim a b -> map triv_tok a = map triv_tok b.
Proof.
  induction 1 as [|x y a b Hxy _ IH]; cbn [map]; [reflexivity|].
  rewrite (otok_sim_triv _ _ Hxy), IH. reflexivity.
Qed.

Lemma osim_forallb a b : osim a b -> forallb triv_tok a = forallb triv_tok b.
Proof.
  induction 1 as [|x y a b Hxy _ IH]; cbn [forallb]; [reflexivity|].
  rewrite (otok_sim_triv _ _ Hxy), IH. reflexivity.
Qed.

(* the re-typing implies the similarity of GroupFacts *)
Lemma osim_lsim a b : osim a b -> lsim a b.
Proof.
  induction 1 as [|x y a b Hxy _ IH]; constructor; [|exact IH].
  destruct Hxy as [-> | (V & T & _)]; [apply tok_sim_refl|]. split; auto.
Qed.

(* ---- passes 1-7 ---------------------------------------------------------------------------------- *)
Definition lgood (l l' : list node) : Prop :=
  leaves_list l' = leaves_list l /\
  (alln q_pure l = true -> alln q_pure l' = true) /\
  (alln q_fl l = true -> alln q_fl l' = true).
Definition nlgood (n n' : node) : Prop :=
  leaves n' = leaves n /\
  (comments_pure n = true -> comments_pure n' = true) /\
  (fl_ok n = true -> fl_ok n' = true).

Lemma lgood_refl l : lgood l l. Proof. repeat split; auto. Qed.
Lemma nlgood_refl n : nlgood n n. Proof. repeat split; auto. Qed.
Lemma lgood_trans a b c : lgood a b -> lgood b c -> lgood a c.
Proof. intros (L1 & P1 & F1) (L2 & P2 & F2). repeat split; [congruence | auto | auto]. Qed.
Lemma nlgood_trans a b c : nlgood a b -> nlgood b c -> nlgood a c.
Proof. intros (L1 & P1 & F1) (L2 & P2 & F2). repeat split; [congruence | auto | auto]. Qed.

Lemma lgood_grp c v kids kids' : lgood kids kids' -> nlgood (Grp c v kids) (Grp c v kids').
Proof.
  intros (L & P & F). unfold nlgood, comments_pure, fl_ok. rewrite !leaves_grp, !all_nodes_grp, L.
  split; [reflexivity|]. split; intros H; apply andb_true_iff in H; destruct H as [H1 H2];
    rewrite H1; [rewrite (P H2) | rewrite (F H2)]; reflexivity.
Qed.

Lemma lgood_Forall2 l l' : Forall2 nlgood l l' -> lgood l l'.
Proof.
  induction 1 as [|x y l l' (L & P & F) _ (IL & IP & IF)]; [apply lgood_refl|].
  unfold comments_pure, fl_ok in P, F. unfold lgood. rewrite !leaves_list_cons, !alln_cons, L, IL. split; [reflexivity|].
  split; intros H; apply andb_true_iff in H; destruct H as [H1 H2].
  - rewrite (P H1), (IP H2). reflexivity.
  - rewrite (F H1), (IF H2). reflexivity.
Qed.

(* ---- passes 8-25 ---------------------------------------------------------------------------------- *)
Definition sgood (l l' : list node) : Prop :=
  alln q_pure l = true ->
  alln q_pure l' = true /\ osim (leaves_list l) (leaves_list l') /\
  forall base, spans_list base l' = spans_list base l.
Definition nsgood (n n' : node) : Prop :=
  comments_pure n = true ->
  comments_pure n' = true /\ osim (leaves n) (leaves n') /\
  forall base, spans_at base n' = spans_at base n.

Lemma sgood_refl l : sgood l l.
Proof. intros H. split; [exact H|]. split; [apply osim_refl | reflexivity]. Qed.
Lemma nsgood_refl n : nsgood n n.
Proof. intros H. split; [exact H|]. split; [apply osim_refl | reflexivity]. Qed.
Lemma sgood_trans a b c : sgood a b -> sgood b c -> sgood a c.
Proof.
  intros H1 H2 Ha. destruct (H1 Ha) as (Hb & O1 & S1). destruct (H2 Hb) as (Hc & O2 & S2).
  split; [exact Hc|]. split; [eapply osim_trans; eauto|]. intros base. rewrite S2. apply S1.
Qed.
Lemma nsgood_trans a b c : nsgood a b -> nsgood b c -> nsgood a c.
Proof.
  intros H1 H2 Ha. destruct (H1 Ha) as (Hb & O1 & S1). destruct (H2 Hb) as (Hc & O2 & S2).
  split; [exact Hc|]. split; [eapply osim_trans; eauto|]. intros base. rewrite S2. apply S1.
Qed.

Lemma sgood_grp c v kids kids' : sgood kids kids' -> nsgood (Grp c v kids) (Grp c v kids').
Proof.
  intros H Hp. unfold comments_pure in *. rewrite all_nodes_grp in Hp.
  apply andb_true_iff in Hp. destruct Hp as [Hq Hk]. destruct (H Hk) as (Hk' & O & S).
  rewrite !leaves_grp. split; [|split; [exact O|]].
  - rewrite all_nodes_grp, Hk', andb_true_r. unfold q_pure in *.
    destruct (cls_eqb c CComment); [|reflexivity]. rewrite <- (osim_forallb _ _ O). exact Hq.
  - intros base. rewrite !spans_at_grp, S. unfold flags_list. rewrite (osim_flags _ _ O). reflexivity.
Qed.

Lemma sgood_Forall2 l l' : Forall2 nsgood l l' -> sgood l l'.
Proof.
  induction 1 as [|x y l l' Hxy _ IH]; [apply sgood_refl|].
  intros Hp. rewrite alln_cons in Hp. apply andb_true_iff in Hp. destruct Hp as [Hx Hl].
  destruct (Hxy Hx) as (Hy & O1 & S1). destruct (IH Hl) as (Hl' & O2 & S2).
  split; [rewrite alln_cons; unfold comments_pure in Hy; rewrite Hy, Hl'; reflexivity|].
  split; [rewrite !leaves_list_cons; apply osim_app; assumption|].
  intros base. rewrite !spans_list_cons, S1, S2, (osim_length _ _ O1). reflexivity.
Qed.

(* ---- group_tokens and sgood ------------------------------------------------------------------------ *)
Lemma q_pure_other c ls : cls_eqb c CComment = false -> q_pure c ls = true.
Proof. intros H. unfold q_pure. rewrite H. reflexivity. Qed.

(* wrapping a slice into a new group of a non-bracket, non-Comment class *)
Lemma sgood_wrap c A sub rest :
  is_bracket c = false -> cls_eqb c CComment = false ->
  sgood (A ++ sub ++ rest) (A ++ mk_grp c sub :: rest).
Proof.
  intros Hb Hc Hp. split; [apply alln_wrap; [exact Hp | apply q_pure_other, Hc]|].
  split.
  - rewrite !leaves_list_app, leaves_list_cons, leaves_mk_grp. apply osim_refl.
  - intros base. rewrite !spans_list_app, spans_list_cons. unfold mk_grp at 1.
    rewrite spans_at_grp, Hb, leaves_mk_grp. cbn [app]. reflexivity.
Qed.

(* appending the following siblings [sub] to an existing group: the group is neither a bracket
   nor a Comment, or the appended material is comments and whitespace only *)
Lemma sgood_extend A c' v kids sub rest :
  (is_bracket c' = false /\ cls_eqb c' CComment = false) \/
  forallb triv_tok (leaves_list sub) = true ->
  sgood (A ++ Grp c' v kids :: sub ++ rest) (A ++ mk_grp c' (kids ++ sub) :: rest).
Proof.
  intros Hc Hp. split; [|split].
  - eapply alln_extend; [exact Hp|].
    destruct Hc as [[_ Hc] | Hs]; [apply q_pure_other, Hc|].
    unfold q_pure. destruct (cls_eqb c' CComment) eqn:E; [|reflexivity].
    rewrite alln_app, alln_cons, all_nodes_grp in Hp.
    apply andb_true_iff in Hp. destruct Hp as [_ Hp]. apply andb_true_iff in Hp. destruct Hp as [Hp _].
    apply andb_true_iff in Hp. destruct Hp as [Hp _]. unfold q_pure in Hp. rewrite E in Hp.
    rewrite leaves_list_app, forallb_app, Hp, Hs. reflexivity.
  - rewrite !leaves_list_app, !leaves_list_cons, leaves_mk_grp, leaves_grp, !leaves_list_app,
      <- !app_assoc. apply osim_refl.
  - intros base. rewrite !spans_list_app, !spans_list_cons. unfold mk_grp at 1.
    rewrite !spans_at_grp, !spans_list_app, leaves_mk_grp, leaves_grp, leaves_list_app, app_length,
      flags_list_app, <- !app_assoc, !Nat.add_assoc.
    destruct (is_bracket c') eqn:B; [|reflexivity].
    destruct Hc as [[Hc _] | Hs]; [discriminate|].
    rewrite sig_len_app. unfold flags_list at 1. rewrite (sig_len_all _ Hs). reflexivity.
Qed.

Lemma inst_plain c' v kids c :
  cls_eqb c CTokenList = false -> inst (Grp c' v kids) c = true -> c' = c.
Proof. cbn [inst]. intros ->. rewrite orb_false_r. apply cls_eqb_eq. Qed.

(* every group_tokens call of a non-bracket class other than Comment / TokenList *)
Lemma group_tokens_sgood c start stop ext l l' g :
  is_bracket c = false -> cls_eqb c CComment = false -> cls_eqb c CTokenList = false ->
  group_tokens c start stop ext l = Ok (l', g) -> sgood l l'.
Proof.
  intros Hb Hc Ht H. apply group_tokens_cases in H.
  destruct H as [(A & sub & rest & -> & -> & _) | (A & c' & v & kids & sub & rest & _ & Hi & -> & -> & _)].
  - apply sgood_wrap; assumption.
  - apply (inst_plain _ _ _ _ Ht) in Hi. subst c'. apply sgood_extend. left. auto.
Qed.

(* align_comments: class TokenList, the appended slice is comments and whitespace *)
Lemma group_tokens_sgood_triv start stop l l' g :
  group_tokens CTokenList start stop true l = Ok (l', g) ->
  forallb triv_tok (leaves_list (firstn (stop - S start) (skipn (S start) l))) = true ->
  sgood l l'.
Proof.
  intros H Hs. apply group_tokens_cases in H.
  destruct H as [(A & sub & rest & -> & -> & _) | (A & c' & v & kids & sub & rest & _ & Hi & El & -> & Esub)].
  - apply sgood_wrap; reflexivity.
  - rewrite <- Esub in Hs. rewrite El. apply sgood_extend. right. exact Hs.
Qed.

(* group_comments: the wrapped slice is comments and newlines only *)
Lemma group_tokens_lgood_comment start stop l l' g :
  group_tokens CComment start stop false l = Ok (l', g) ->
  forallb triv_tok (leaves_list (firstn (stop - start) (skipn start l))) = true ->
  lgood l l'.
Proof.
  intros H Hs. split; [eapply group_tokens_leaves; eauto|].
  apply group_tokens_cases in H.
  destruct H as [(A & sub & rest & El & -> & Esub) | (A & c' & v & kids & sub & rest & X & _)];
    [|discriminate].
  rewrite <- Esub in Hs. rewrite El. split; intros Hp; apply alln_wrap; try exact Hp.
  - unfold q_pure. cbn [cls_eqb]. exact Hs.
  - reflexivity.
Qed.

(* ================================================================================================
   D. lifting a list relation through the drivers
   ================================================================================================ *)
Section Lift.
Variable NR : node -> node -> Prop.
Variable LR : list node -> list node -> Prop.
Hypothesis NR_refl : forall n, NR n n.
Hypothesis LR_refl : forall l, LR l l.
Hypothesis LR_trans : forall a b c, LR a b -> LR b c -> LR a c.
Hypothesis R_grp : forall c v kids kids', LR kids kids' -> NR (Grp c v kids) (Grp c v kids').
Hypothesis R_Forall2 : forall l l', Forall2 NR l l' -> LR l l'.

Lemma mapM_R (f : node -> res node) (l l' : list node) :
  Forall (fun k => forall k', f k = Ok k' -> NR k k') l ->
  mapM f l = Ok l' -> Forall2 NR l l'.
Proof.
  revert l'; induction l as [|k l IH]; intros l' Hf H; cbn [mapM] in H.
  - injection H as <-. constructor.
  - inversion Hf as [|? ? Hk Hl]; subst.
    destruct (f k) as [k'|] eqn:E; [|discriminate]. cbn [bind] in H.
    destruct (mapM f l) as [r|] eqn:E2; [|discriminate]. cbn [bind] in H. injection H as <-.
    constructor; auto.
Qed.

Lemma mapM2_R {C} (f : node -> C -> res node) (d : C) (l l' : list node) (m : list C) :
  Forall (fun k => forall c k', f k c = Ok k' -> NR k k') l ->
  mapM2 f d l m = Ok l' -> Forall2 NR l l'.
Proof.
  revert l' m; induction l as [|k l IH]; intros l' m Hf H; cbn [mapM2] in H.
  - injection H as <-. constructor.
  - inversion Hf as [|? ? Hk Hl]; subst.
    destruct (f k _) as [k'|] eqn:E; [|discriminate]. cbn [bind] in H.
    destruct (mapM2 f d l (tl m)) as [r|] eqn:E2; [|discriminate]. cbn [bind] in H.
    injection H as <-. constructor; eauto.
Qed.

(* ---- scan / @recurse ------------------------------------------------------------------------------ *)
Definition body_R (find : nat -> list node -> option (nat * node))
           (body : nat -> node -> list node -> res (list node * nat)) : Prop :=
  forall start tidx token l l' cont,
    find start l = Some (tidx, token) -> body tidx token l = Ok (l', cont) -> LR l l'.

Lemma scan_loop_R find body : body_R find body -> forall fuel start l r,
  scan_loop find body fuel start l = Ok r -> LR l r.
Proof.
  intros Hb. induction fuel as [|fuel IH]; intros start l r H; cbn [scan_loop] in H; [discriminate|].
  destruct (find start l) as [[tidx token]|] eqn:Ef; [|injection H as <-; apply LR_refl].
  destruct (body tidx token l) as [[l' cont]|] eqn:E; [|discriminate]. cbn [bind] in H.
  eapply LR_trans; [eapply Hb; eauto | eauto].
Qed.

Lemma scan_R find body l r : body_R find body -> scan find body l = Ok r -> LR l r.
Proof. intros Hb. apply scan_loop_R, Hb. Qed.

Definition f_R (f : cls -> list node -> res (list node)) : Prop :=
  forall c l l', f c l = Ok l' -> LR l l'.

Theorem recurse_pass_R skip f : f_R f -> forall n n', recurse_pass skip f n = Ok n' -> NR n n'.
Proof.
  intros Hf. induction n as [ty v | c v kids IH] using node_ind'; intros n' H;
    cbn [recurse_pass] in H.
  - injection H as <-. apply NR_refl.
  - destruct (mapM _ kids) as [kids1|] eqn:E1; [|discriminate]. cbn [bind] in H.
    destruct (f c kids1) as [kids2|] eqn:E2; [|discriminate]. cbn [bind] in H. injection H as <-.
    apply R_grp. eapply LR_trans; [|eapply Hf; eauto].
    apply R_Forall2. eapply mapM_R; [|exact E1].
    eapply Forall_impl; [|exact IH]. intros k Hk k' Hk'. cbv beta in Hk'.
    destruct (is_group k && negb (inst_any k skip)); [auto|]. injection Hk' as <-. apply NR_refl.
Qed.

(* ---- _group ----------------------------------------------------------------------------------------- *)
Definition loop_R (p : gparams) : Prop :=
  forall l s, group_loop p l 0 (ginit l) = Ok s -> LR l (g_live s).

Definition gt_R (p : gparams) : Prop :=
  forall start stop l l' g, group_tokens (g_cls p) start stop (g_extend p) l = Ok (l', g) -> LR l l'.

(* passes whose post function leaves the list alone *)
Definition post_id (p : gparams) : Prop :=
  forall l pidx tidx nidx l1 f t, g_post p l pidx tidx nidx = Ok (l1, f, t) -> l1 = l.

Lemma group_loop_R p : post_id p -> gt_R p -> forall snap idx s s',
  group_loop p snap idx s = Ok s' -> LR (g_live s) (g_live s').
Proof.
  intros Hp HG. induction snap as [|token snap IH]; intros idx s s' H; cbn [group_loop] in H.
  - injection H as <-. apply LR_refl.
  - destruct (Z.ltb (Z.of_nat idx - g_off s) 0); [apply IH in H; exact H|].
    destruct (is_ws token); [apply IH in H; exact H|].
    destruct (g_match p token); [|apply IH in H; exact H].
    destruct (g_prev s) as [pv|]; [|apply IH in H; exact H].
    destruct (g_pidx s) as [pidx|]; [|apply IH in H; exact H].
    destruct (g_vprev p pv && g_vnext p _); [|apply IH in H; exact H].
    destruct (g_post p (g_live s) pidx _ _) as [[[live1 from_idx] to_idx]|] eqn:E1;
      [|discriminate].
    cbn [bind] in H.
    destruct (group_tokens (g_cls p) from_idx (S to_idx) (g_extend p) live1) as [[live2 grp]|] eqn:E2;
      [|discriminate].
    cbn [bind] in H.
    apply IH in H. cbn [g_live] in H.
    apply Hp in E1. subst live1.
    eapply LR_trans; [eapply HG; eauto | exact H].
Qed.

Lemma loop_R_id p : post_id p -> gt_R p -> loop_R p.
Proof. intros Hp HG l s H. apply (group_loop_R p Hp HG _ _ _ _ H). Qed.

(* passes whose post function edits the token at tidx (group_operator): the synchronisation
   invariant of DriverTotal.v says that this token is the snapshot token that matched *)
Definition post_sync_R (p : gparams) : Prop :=
  forall l pidx tidx nidx token l1 f t,
    g_match p token = true -> nth_error l tidx = Some token ->
    g_post p l pidx tidx nidx = Ok (l1, f, t) -> LR l l1.

Lemma group_loop_sync_R p :
  post_ok p -> (forall t, g_match p t = true -> g_vnext p (Some t) = false) ->
  post_sync_R p -> gt_R p ->
  forall snap idx s s', linv p snap idx s ->
    group_loop p snap idx s = Ok s' -> LR (g_live s) (g_live s').
Proof.
  intros Hpost Hmv HP HG. induction snap as [|token snap IH]; intros idx s s' HI H;
    cbn [group_loop] in H.
  - injection H as <-. apply LR_refl.
  - destruct (Z.ltb (Z.of_nat idx - g_off s) 0) eqn:Hneg.
    { apply Z.ltb_lt in Hneg. apply IH in H; [exact H|].
      eapply linv_skip; [exact HI | left; exact Hneg | reflexivity | reflexivity | reflexivity]. }
    apply Z.ltb_ge in Hneg.
    destruct (is_ws token) eqn:Hws.
    { apply IH in H; [exact H|].
      eapply linv_skip; [exact HI | right; exact Hws | reflexivity | reflexivity | reflexivity]. }
    destruct (linv_nonws _ _ _ _ _ HI Hws) as (A & HL & HZ & HPi & Hsy).
    assert (HA : 1 <= length A) by lia.
    assert (Ht : Z.to_nat (Z.of_nat idx - g_off s) = length A - 1) by lia.
    rewrite Ht in H.
    assert (Hplain : forall prev recs,
              group_loop p snap (S idx)
                         {| g_live := g_live s; g_off := g_off s; g_pidx := Some (length A - 1);
                            g_prev := prev; g_rec := recs |} = Ok s' ->
              LR (g_live s) (g_live s')).
    { intros prev recs H0. apply IH in H0; [exact H0|].
      exists A, snap, []. cbn [g_live g_off g_pidx app length].
      split; [exact HL|]. split; [reflexivity|]. split; [lia|]. split; [left; reflexivity|].
      intros pi Hpi. injection Hpi as <-. lia. }
    destruct (g_match p token) eqn:M; [|eapply Hplain; exact H].
    destruct (g_prev s) as [pv|]; [|eapply Hplain; exact H].
    destruct (g_pidx s) as [pidx|] eqn:Epi; [|eapply Hplain; exact H].
    destruct (g_vprev p pv && g_vnext p _) eqn:V; [|eapply Hplain; exact H].
    apply andb_true_iff in V. destruct V as [_ V].
    specialize (HPi pidx eq_refl).
    assert (Hlt : length A - 1 < length (g_live s)).
    { rewrite HL, app_length. lia. }
    destruct (Hpost (g_live s) pidx (length A - 1) token) as
        (l1 & from & to & Ep & Hlen & Hskip & Hne & Hfrom & Hto); try assumption; try lia.
    unfold nidx_of in Ep. rewrite Ep in H. cbn [bind] in H.
    assert (Hfl : from <= length A - 1) by (destruct Hfrom; lia).
    destruct (group_tokens (g_cls p) from (S to) (g_extend p) l1) as [[live2 grp]|] eqn:Eg;
      [|discriminate].
    cbn [bind] in H.
    assert (Hnth : nth_error (g_live s) (length A - 1) = Some token).
    { destruct Hsy as [Hsy | Hsy]; [exact Hsy|]. rewrite (Hmv _ M) in Hsy. discriminate. }
    match type of H with group_loop _ _ _ ?st = _ =>
      destruct (linv_grouped p A snap idx (g_off s) (g_live s) l1 from to live2 grp
                             (g_cls p) (g_extend p) st) as (Hft & HI2) end;
      try assumption; try reflexivity.
    { replace (S (length A - 1)) with (length A) in Hskip by lia.
      rewrite Hskip, HL. apply skipn_app_length. }
    { destruct Hto as [Hto | (n & Hn)]; [left; exact Hto|]. right. exists n. split; [exact Hn|].
      unfold next_of in V. rewrite Hn in V. exact V. }
    apply (IH _ _ _ HI2) in H. cbn [g_live] in H.
    eapply LR_trans; [eapply HP; eauto|].
    eapply LR_trans; [eapply HG; eauto | exact H].
Qed.

Lemma loop_R_sync p :
  post_ok p -> (forall t, g_match p t = true -> g_vnext p (Some t) = false) ->
  post_sync_R p -> gt_R p -> loop_R p.
Proof.
  intros H1 H2 H3 H4 l s H.
  apply (group_loop_sync_R p H1 H2 H3 H4 l 0 (ginit l) s (linv_init p l) H).
Qed.

Theorem group_driver_R p : loop_R p -> forall n n', group_driver p n = Ok n' -> NR n n'.
Proof.
  intros Hp. induction n as [ty v | c0 v kids IH] using node_ind'; intros n' H;
    cbn [group_driver] in H.
  - injection H as <-. apply NR_refl.
  - destruct (group_loop p kids 0 (ginit kids)) as [dry|] eqn:E0; [|discriminate]. cbn [bind] in H.
    destruct (mapM2 _ false kids (rev (g_rec dry))) as [kids1|] eqn:E1; [|discriminate].
    cbn [bind] in H.
    destruct (group_loop p kids1 0 (ginit kids1)) as [fin|] eqn:E2; [|discriminate].
    cbn [bind] in H. injection H as <-.
    apply R_grp. eapply LR_trans.
    + apply R_Forall2. eapply mapM2_R; [|exact E1].
      eapply Forall_impl; [|exact IH]. intros k Hk f k' Hf. cbv beta in Hf.
      destruct (f && is_group k && negb (inst k (g_cls p))); [auto|].
      injection Hf as <-. apply NR_refl.
    + apply (Hp _ _ E2).
Qed.

Theorem group_driver_flat_R p : loop_R p -> forall n n', group_driver_flat p n = Ok n' -> NR n n'.
Proof.
  intros Hp [ty v | c0 v kids] n' H; cbn [group_driver_flat] in H.
  - injection H as <-. apply NR_refl.
  - destruct (group_loop p kids 0 (ginit kids)) as [fin|] eqn:E; [|discriminate].
    cbn [bind] in H. injection H as <-. apply R_grp. apply (Hp _ _ E).
Qed.

Hypothesis NR_trans : forall a b c, NR a b -> NR b c -> NR a c.

Lemma run_passes_R ps : Forall (fun p => forall n n', p n = Ok n' -> NR n n') ps ->
  forall n n', run_passes ps n = Ok n' -> NR n n'.
Proof.
  induction 1 as [|p ps Hp _ IH]; intros n n' H; cbn [run_passes] in H.
  - injection H as <-. apply NR_refl.
  - destruct (p n) as [n1|] eqn:E; [|discriminate]. cbn [bind] in H.
    eapply NR_trans; [apply Hp; exact E | apply IH; exact H].
Qed.
End Lift.

(* ================================================================================================
   E. the passes
   ================================================================================================ *)
(* ---- searches --------------------------------------------------------------------------------------- *)
Lemma find_last_aux_split f : forall l base best i x,
  find_last_aux f l base best = Some (i, x) ->
  (best = Some (i, x) /\ Forall (fun y => f y = false) l) \/
  (exists pre post, l = pre ++ x :: post /\ i = base + length pre /\ f x = true /\
                    Forall (fun y => f y = false) post).
Proof.
  induction l as [|y l IH]; intros base best i x H; cbn [find_last_aux] in H.
  - left. split; [exact H | constructor].
  - apply IH in H. destruct H as [[Hb Hl] | (pre & post & -> & -> & Hx & Hpost)].
    + destruct (f y) eqn:Fy.
      * injection Hb as <- <-. right. exists [], l. cbn [app length]. repeat split; auto; lia.
      * left. split; [exact Hb | constructor; assumption].
    + right. exists (y :: pre), post. cbn [app length]. repeat split; auto; lia.
Qed.

(* the slice pidx+1 .. tidx between token_prev(tidx) and tidx: whitespace, then the token *)
Lemma token_prev_slice tidx l pidx prev_ token :
  token_prev true false tidx l = Some (pidx, prev_) -> nth_error l tidx = Some token ->
  exists post, firstn (S tidx - S pidx) (skipn (S pidx) l) = post ++ [token] /\
               Forall (fun y => is_ws y = true) post.
Proof.
  unfold token_prev, find_before. intros H Ht. apply find_last_aux_split in H.
  destruct H as [[H _] | (pre & post & E & -> & _ & Hpost)]; [discriminate|].
  exists post. split.
  - assert (Hlt : tidx < length l) by (apply nth_error_Some; congruence).
    assert (Hlen : length (pre ++ prev_ :: post) = tidx).
    { rewrite <- E, firstn_length. lia. }
    rewrite app_length in Hlen. cbn [length] in Hlen.
    assert (El : l = (pre ++ [prev_]) ++ post ++ token :: skipn (S tidx) l).
    { rewrite <- (firstn_skipn tidx l) at 1. rewrite E, (nth_error_split_skipn _ _ _ Ht).
      rewrite <- !app_assoc. reflexivity. }
    rewrite El. cbn [plus].
    replace (S (length pre)) with (length (pre ++ [prev_])) by (rewrite app_length; cbn [length]; lia).
    rewrite skipn_app_length.
    replace (S tidx - length (pre ++ [prev_])) with (length (post ++ [token]))
      by (rewrite !app_length; cbn [length]; lia).
    replace (post ++ token :: skipn (S tidx) l) with ((post ++ [token]) ++ skipn (S tidx) l)
      by (rewrite <- app_assoc; reflexivity).
    apply firstn_app_length.
  - eapply Forall_impl; [|exact Hpost]. intros y Hy. cbv beta in Hy. rewrite skip_matcher_ws in Hy.
    destruct (is_ws y); [reflexivity | discriminate].
Qed.

Lemma tin_newline_ws ty : tin ty T_Newline = true -> tin ty T_Whitespace = true.
Proof.
  destruct ty as [|a [|b [|c ty]]]; cbn [tin T_Newline T_Whitespace]; try discriminate.
  - destruct (tcomp_eqb Text a); discriminate.
  - destruct (tcomp_eqb Text a); [|discriminate]. destruct (tcomp_eqb Whitespace b); discriminate.
  - destruct (tcomp_eqb Text a); [|discriminate]. destruct (tcomp_eqb Whitespace b); [|discriminate].
    reflexivity.
Qed.

Lemma ws_trivial y : is_ws y = true -> forallb triv_tok (leaves y) = true.
Proof.
  destruct y as [ty v | c v kids]; [|discriminate]. cbn [is_ws tt_in leaves forallb]. intros H.
  unfold triv_tok, triv_ty. cbn [fst]. rewrite H. reflexivity.
Qed.

Lemma Forall_trivial (P : node -> Prop) l :
  (forall y, P y -> forallb triv_tok (leaves y) = true) -> Forall P l ->
  forallb triv_tok (leaves_list l) = true.
Proof.
  intros HP. induction 1 as [|y l Hy _ IH]; [reflexivity|].
  rewrite leaves_list_cons, forallb_app, (HP y Hy), IH. reflexivity.
Qed.

Lemma imt_comment_grp token : imt (Some token) [CComment] [] TNone = true ->
  exists v kids, token = Grp CComment v kids.
Proof.
  destruct token as [ty v | c v kids]; [discriminate|].
  cbn [imt inst_any existsb inst tmatch]. rewrite !orb_false_r.
  intros H. apply cls_eqb_eq in H. subst c. eauto.
Qed.

Lemma pure_nth_comment l i v kids :
  alln q_pure l = true -> nth_error l i = Some (Grp CComment v kids) ->
  forallb triv_tok (leaves_list kids) = true.
Proof.
  intros Hp Hn. unfold alln in Hp. rewrite forallb_forall in Hp.
  specialize (Hp _ (nth_error_In _ _ Hn)). rewrite all_nodes_grp in Hp.
  apply andb_true_iff in Hp. destruct Hp as [Hp _]. exact Hp.
Qed.

(* ---- instances of the lifting ----------------------------------------------------------------------- *)
Definition s_scan := scan_R sgood sgood_refl sgood_trans.
Definition s_recurse := recurse_pass_R nsgood sgood nsgood_refl sgood_trans sgood_grp sgood_Forall2.
Definition s_driver := group_driver_R nsgood sgood nsgood_refl sgood_trans sgood_grp sgood_Forall2.
Definition s_driver_flat := group_driver_flat_R nsgood sgood nsgood_refl sgood_grp.
Definition s_loop_id := loop_R_id sgood sgood_refl sgood_trans.
Definition s_loop_sync := loop_R_sync sgood sgood_refl sgood_trans.

Ltac sg_plain :=
  eapply group_tokens_sgood; [ | | | eassumption]; reflexivity.

(* ---- the @recurse passes 8-10, 13, 14, 21, 23 ------------------------------------------------------- *)
Lemma fs_over : f_R sgood f_over.
Proof.
  intros c l l' H. unfold f_over in H. eapply s_scan; [|exact H].
  intros start tidx token l0 l0' cont _ Hb. cbv beta in Hb.
  destruct (token_next true false tidx l0) as [[nidx next_]|]; [|injection Hb as <- _; apply sgood_refl].
  destruct (imt _ _ _ _); [|injection Hb as <- _; apply sgood_refl].
  destruct (group_tokens COver tidx (S nidx) false l0) as [[l1 g]|] eqn:E; [|discriminate].
  cbn [bind] in Hb. injection Hb as <- _. sg_plain.
Qed.

Lemma fs_functions : f_R sgood f_functions.
Proof.
  intros c l l' H. unfold f_functions in H.
  destruct (_ && _ && negb _); [injection H as <-; apply sgood_refl|].
  eapply s_scan; [|exact H].
  intros start tidx token l0 l0' cont _ Hb. cbv beta in Hb.
  destruct (token_next true false tidx l0) as [[nidx next_]|]; [|injection Hb as <- _; apply sgood_refl].
  destruct (inst next_ CParenthesis); [|injection Hb as <- _; apply sgood_refl].
  match type of Hb with context [group_tokens ?a ?b ?c ?d ?e] =>
    destruct (group_tokens a b c d e) as [[l1 g]|] eqn:E; [|discriminate] end.
  cbn [bind] in Hb. injection Hb as <- _. sg_plain.
Qed.

Lemma fs_where : f_R sgood f_where.
Proof.
  intros c l l' H. unfold f_where in H. eapply s_scan; [|exact H].
  intros start tidx token l0 l0' cont _ Hb. cbv beta in Hb.
  match type of Hb with context [bind ?m _] => destruct m as [eidx|] eqn:E0; [|discriminate] end.
  cbn [bind] in Hb.
  destruct (group_tokens CWhere tidx (S eidx) false l0) as [[l1 g]|] eqn:E; [|discriminate].
  cbn [bind] in Hb. injection Hb as <- _. sg_plain.
Qed.

Lemma fs_identifier : f_R sgood f_identifier.
Proof.
  intros c l l' H. unfold f_identifier in H. eapply s_scan; [|exact H].
  intros start tidx token l0 l0' cont _ Hb. cbv beta in Hb.
  destruct (group_tokens CIdentifier tidx (S tidx) false l0) as [[l1 g]|] eqn:E; [|discriminate].
  cbn [bind] in Hb. injection Hb as <- _. sg_plain.
Qed.

Lemma fs_order : f_R sgood f_order.
Proof.
  intros c l l' H. unfold f_order in H. eapply s_scan; [|exact H].
  intros start tidx token l0 l0' cont _ Hb. cbv beta in Hb.
  destruct (token_prev true false tidx l0) as [[pidx prev_]|]; [|injection Hb as <- _; apply sgood_refl].
  destruct (imt _ _ _ _); [|injection Hb as <- _; apply sgood_refl].
  destruct (group_tokens CIdentifier pidx (S tidx) false l0) as [[l1 g]|] eqn:E; [|discriminate].
  cbn [bind] in Hb. injection Hb as <- _. sg_plain.
Qed.

Lemma fs_aliased : f_R sgood f_aliased.
Proof.
  intros c l l' H. unfold f_aliased in H. eapply s_scan; [|exact H].
  intros start tidx token l0 l0' cont _ Hb. cbv beta in Hb.
  destruct (token_next true false tidx l0) as [[nidx next_]|]; [|injection Hb as <- _; apply sgood_refl].
  destruct (inst next_ CIdentifier); [|injection Hb as <- _; apply sgood_refl].
  destruct (group_tokens CIdentifier tidx (S nidx) true l0) as [[l1 g]|] eqn:E; [|discriminate].
  cbn [bind] in Hb. injection Hb as <- _. sg_plain.
Qed.

(* align_comments: the only pass that can extend a bracket group; what it appends is the
   whitespace before a Comment group and that group, which is pure *)
Lemma fs_align_comments : f_R sgood f_align_comments.
Proof.
  intros c l l' H. unfold f_align_comments in H. eapply s_scan; [|exact H].
  intros start tidx token l0 l0' cont Hf Hb. cbv beta in Hb.
  destruct (token_prev true false tidx l0) as [[pidx prev_]|] eqn:Ep;
    [|injection Hb as <- _; apply sgood_refl].
  destruct (inst prev_ CTokenList); [|injection Hb as <- _; apply sgood_refl].
  destruct (group_tokens CTokenList pidx (S tidx) true l0) as [[l1 g]|] eqn:E; [|discriminate].
  cbn [bind] in Hb. injection Hb as <- _.
  intros Hp. revert Hp. change (sgood l0 l1). intros Hp.
  apply next_by_from_range in Hf. destruct Hf as (_ & _ & Hn & Hc).
  apply imt_comment_grp in Hc. destruct Hc as (v & kids & ->).
  destruct (token_prev_slice _ _ _ _ _ Ep Hn) as (post & Es & Hws).
  eapply group_tokens_sgood_triv; [exact E | | exact Hp].
  rewrite Es, leaves_list_app, forallb_app.
  rewrite (Forall_trivial _ _ ws_trivial Hws).
  cbn [leaves_list flat_map]. rewrite app_nil_r, leaves_grp.
  rewrite (pure_nth_comment _ _ _ _ Hp Hn). reflexivity.
Qed.

Theorem group_values_sgood n n' : group_values n = Ok n' -> nsgood n n'.
Proof.
  destruct n as [ty v | c v l]; cbn [group_values]; intros H.
  - injection H as <-. apply nsgood_refl.
  - destruct (next_by_from _ _ _ 0 l) as [[start_idx token]|]; [|injection H as <-; apply nsgood_refl].
    destruct (values_scan _ _ _ _ _) as [e|]; [|discriminate]. cbn [bind] in H.
    destruct e as [end_idx|]; [|injection H as <-; apply nsgood_refl].
    destruct (group_tokens CValues start_idx (S end_idx) true l) as [[l1 g]|] eqn:E; [|discriminate].
    cbn [bind] in H. injection H as <-. apply sgood_grp. sg_plain.
Qed.

(* ---- the _group passes ------------------------------------------------------------------------------- *)
Lemma pid_pn p : g_post p = post_pn -> post_id p.
Proof.
  intros Hp l pidx tidx nidx l1 f t. rewrite Hp. unfold post_pn.
  destruct nidx; [|discriminate]. intros H; injection H as <- _ _. reflexivity.
Qed.
Lemma pid_tn p : g_post p = post_tn -> post_id p.
Proof.
  intros Hp l pidx tidx nidx l1 f t. rewrite Hp. unfold post_tn.
  destruct nidx; [|discriminate]. intros H; injection H as <- _ _. reflexivity.
Qed.

Lemma pid_period : post_id p_period.
Proof.
  intros l pidx tidx nidx l1 f t. cbn [g_post p_period].
  destruct (imt _ _ _ _).
  - destruct nidx; [|discriminate]. intros H; injection H as <- _ _. reflexivity.
  - intros H; injection H as <- _ _. reflexivity.
Qed.

Lemma pid_arrays : post_id p_arrays.
Proof. intros l pidx tidx nidx l1 f t. cbn [g_post p_arrays]. intros H; injection H as <- _ _. reflexivity. Qed.

Lemma pid_assignment : post_id p_assignment.
Proof.
  intros l pidx tidx nidx l1 f t. cbn [g_post p_assignment].
  destruct nidx; [|discriminate].
  destruct (next_by_from _ _ _ _ _) as [[si x]|]; intros H; injection H as <- _ _; reflexivity.
Qed.

Lemma gt_sgood_cls p :
  is_bracket (g_cls p) = false -> cls_eqb (g_cls p) CComment = false ->
  cls_eqb (g_cls p) CTokenList = false -> gt_R sgood p.
Proof. intros H1 H2 H3 start stop l l' g H. eapply group_tokens_sgood; eauto. Qed.

Lemma ls_typecasts : loop_R sgood p_typecasts.
Proof. apply s_loop_id; [apply pid_pn | apply gt_sgood_cls]; reflexivity. Qed.
Lemma ls_tzcasts : loop_R sgood p_tzcasts.
Proof. apply s_loop_id; [apply pid_pn | apply gt_sgood_cls]; reflexivity. Qed.
Lemma ls_typed1 : loop_R sgood p_typed_literal1.
Proof. apply s_loop_id; [apply pid_tn | apply gt_sgood_cls]; reflexivity. Qed.
Lemma ls_typed2 : loop_R sgood p_typed_literal2.
Proof. apply s_loop_id; [apply pid_tn | apply gt_sgood_cls]; reflexivity. Qed.
Lemma ls_comparison : loop_R sgood p_comparison.
Proof. apply s_loop_id; [apply pid_pn | apply gt_sgood_cls]; reflexivity. Qed.
Lemma ls_as : loop_R sgood p_as.
Proof. apply s_loop_id; [apply pid_pn | apply gt_sgood_cls]; reflexivity. Qed.
Lemma ls_idlist : loop_R sgood p_identifier_list.
Proof. apply s_loop_id; [apply pid_pn | apply gt_sgood_cls]; reflexivity. Qed.
Lemma ls_period : loop_R sgood p_period.
Proof. apply s_loop_id; [apply pid_period | apply gt_sgood_cls; reflexivity]. Qed.
Lemma ls_arrays : loop_R sgood p_arrays.
Proof. apply s_loop_id; [apply pid_arrays | apply gt_sgood_cls; reflexivity]. Qed.
Lemma ls_assignment : loop_R sgood p_assignment.
Proof. apply s_loop_id; [apply pid_assignment | apply gt_sgood_cls; reflexivity]. Qed.

(* group_operator re-types the operator token: an Operator or Wildcard leaf becomes Operator *)
Lemma set_nth_retype_sgood (l : list node) i tk :
  nth_error l i = Some tk -> imt (Some tk) [] [] (TMany [T_Operator; T_Wildcard]) = true ->
  sgood l (set_nth i (retype_operator tk) l).
Proof.
  intros E M. destruct tk as [ty v | c v kids]; [|discriminate].
  assert (Hty : ty = T_Operator \/ ty = T_Wildcard).
  { cbn [imt inst_any existsb orb tmatch tt_among] in M. rewrite orb_false_r in M.
    apply orb_true_iff in M. destruct M as [M | M]; apply ttype_eqb_eq in M; auto. }
  rewrite (set_nth_split _ _ _ _ E).
  assert (El : l = firstn i l ++ [Leaf ty v] ++ skipn (S i) l).
  { rewrite <- (firstn_skipn i l) at 1. rewrite (nth_error_split_skipn _ _ _ E). reflexivity. }
  clear E. revert El. generalize (firstn i l) (skipn (S i) l). intros A R ->.
  cbn [retype_operator app]. intros Hp. split; [|split].
  - rewrite alln_app, alln_cons in *. exact Hp.
  - rewrite !leaves_list_app, !leaves_list_cons. apply osim_app; [apply osim_refl|].
    cbn [leaves app]. constructor; [|apply osim_refl].
    right. cbn [fst snd]. auto.
  - intros base. rewrite !spans_list_app, !spans_list_cons. reflexivity.
Qed.

Lemma ls_operator : loop_R sgood p_operator.
Proof.
  apply s_loop_sync.
  - apply po_operator.
  - intros t M. apply operator_not_operand. exact M.
  - intros l pidx tidx nidx token l1 f t M Hn. cbn [g_post p_operator]. rewrite Hn.
    destruct nidx as [ni|]; [|discriminate].
    destruct (is_group token); [discriminate|].
    intros H; injection H as <- _ _. apply set_nth_retype_sgood; assumption.
  - apply gt_sgood_cls; reflexivity.
Qed.

(* ---- the 18 passes ----------------------------------------------------------------------------------- *)
Definition pass_sgood (p : node -> res node) : Prop := forall n n', p n = Ok n' -> nsgood n n'.

Lemma passes_sgood : Forall pass_sgood (skipn 7 passes).
Proof.
  unfold passes. cbn [skipn].
  repeat match goal with
         | |- Forall _ (_ :: _) => apply Forall_cons
         | |- Forall _ [] => apply Forall_nil
         end; unfold pass_sgood.
  - apply s_recurse, fs_over.
  - apply s_recurse, fs_functions.
  - apply s_recurse, fs_where.
  - apply s_driver, ls_period.
  - apply s_driver_flat, ls_arrays.
  - apply s_recurse, fs_identifier.
  - apply s_recurse, fs_order.
  - apply s_driver, ls_typecasts.
  - apply s_driver, ls_tzcasts.
  - intros n n' H.
    destruct (group_driver p_typed_literal1 n) as [n1|] eqn:E; [|discriminate]. cbn [bind] in H.
    eapply nsgood_trans; [eapply s_driver; [apply ls_typed1 | exact E]|].
    eapply s_driver; [apply ls_typed2 | exact H].
  - apply s_driver, ls_operator.
  - apply s_driver, ls_comparison.
  - apply s_driver, ls_as.
  - apply s_recurse, fs_aliased.
  - apply s_driver, ls_assignment.
  - apply s_recurse, fs_align_comments.
  - apply s_driver, ls_idlist.
  - apply group_values_sgood.
Qed.

(* ================================================================================================
   F. the pipeline
   ================================================================================================ *)
Theorem run_passes_sgood n n' : run_passes (skipn 7 passes) n = Ok n' -> nsgood n n'.
Proof. apply (run_passes_R nsgood nsgood_refl nsgood_trans), passes_sgood. Qed.

(* MAIN: passes 8-25 keep every bracket span (and Comment groups pure, and the leaves up to the
   Operator re-typing) *)
Theorem pipeline_spans n n' :
  comments_pure n = true -> run_passes (skipn 7 passes) n = Ok n' ->
  spans n' = spans n /\ comments_pure n' = true /\ osim (leaves n) (leaves n').
Proof.
  intros Hp H. destruct (run_passes_sgood _ _ H Hp) as (Hp' & O & S).
  split; [apply S|]. split; assumption.
Qed.

(* the hypothesis is needed: align_comments moves a Comment group holding a name into the
   parenthesis before it *)
Theorem pipeline_spans_unconditional_refuted :
  exists n n', run_passes (skipn 7 passes) n = Ok n' /\ spans n' <> spans n.
Proof.
  exists impure_tree. eexists. split; [vm_compute; reflexivity|]. vm_compute. discriminate.
Qed.

(* ---- pass 1: group_comments establishes comments_pure ---------------------------------------------- *)
Lemma comment_or_newline_trivial y :
  negb (imt (Some y) [] [] (TOne T_Comment) || is_newline y) = false ->
  forallb triv_tok (leaves y) = true.
Proof.
  destruct y as [ty v | c v kids]; [|discriminate].
  cbn [imt inst_any existsb orb tmatch tt_in is_newline leaves forallb]. intros H.
  apply negb_false_iff in H. unfold triv_tok, triv_ty. cbn [fst]. rewrite andb_true_r.
  apply orb_true_iff in H. destruct H as [H | H].
  - rewrite H. apply orb_true_r.
  - rewrite (tin_newline_ws _ H). reflexivity.
Qed.

Lemma fl_comments : f_R lgood f_comments.
Proof.
  intros c l l' H. unfold f_comments in H. eapply (scan_R lgood lgood_refl lgood_trans); [|exact H].
  intros start tidx token l0 l0' cont _ Hb. cbv beta in Hb.
  destruct (find_from _ tidx l0) as [[eidx x]|] eqn:Ef; [|injection Hb as <- _; apply lgood_refl].
  destruct eidx as [|e1]; [discriminate|].
  destruct (group_tokens CComment tidx (S e1) false l0) as [[l1 g]|] eqn:E; [|discriminate].
  cbn [bind] in Hb. injection Hb as <- _.
  eapply group_tokens_lgood_comment; [exact E|].
  apply find_from_spec in Ef. destruct Ef as (pre & post & Es & Ee & Hpre & _).
  rewrite Es, Ee. replace (tidx + length pre - tidx) with (length pre) by lia.
  rewrite firstn_app_length.
  eapply Forall_trivial; [|exact Hpre]. intros y Hy. apply comment_or_newline_trivial, Hy.
Qed.

Theorem group_comments_lgood n n1 : recurse_pass [CComment] f_comments n = Ok n1 -> nlgood n n1.
Proof.
  apply (recurse_pass_R nlgood lgood nlgood_refl lgood_trans lgood_grp lgood_Forall2), fl_comments.
Qed.

(* ---- passes 2-7: the stack matchers ------------------------------------------------------------------ *)
Lemma stack_match_rec_all Q c :
  (forall o mid cl, kind_of c o = KOpen -> kind_of c cl = KClose ->
                    Q c (leaves_list (o :: mid ++ [cl])) = true) ->
  forall n, all_nodes Q n = true -> all_nodes Q (stack_match_rec c n) = true.
Proof.
  intros HQ. induction n as [ty v | c0 v kids IH] using node_ind'; intros H;
    cbn [stack_match_rec]; [exact H|].
  rewrite all_nodes_grp in *. apply andb_true_iff in H. destruct H as [H1 H2].
  set (f := fun k => if is_group k && negb (inst k c) then stack_match_rec c k else k).
  assert (Hl : leaves_list (map f kids) = leaves_list kids).
  { clear. unfold leaves_list. induction kids as [|k kids IHk]; cbn [map flat_map]; [reflexivity|].
    rewrite IHk. f_equal. unfold f. destruct (is_group k && negb (inst k c)); [|reflexivity].
    apply stack_match_rec_leaves. }
  rewrite stack_match_leaves, Hl, H1. cbn [andb].
  unfold alln. apply forallb_Forall.
  apply stack_match_Forall.
  - unfold alln in H2. apply forallb_Forall in H2.
    apply Forall_forall. intros x Hx. apply in_map_iff in Hx. destruct Hx as (k & <- & Hk).
    rewrite Forall_forall in IH, H2. unfold f.
    destruct (is_group k && negb (inst k c)); [apply IH; auto | apply H2, Hk].
  - intros o mid cl Ko Kc Xo Xc Xm. unfold mk_grp. rewrite all_nodes_grp.
    rewrite (HQ o mid cl Ko Kc). cbn [andb]. unfold alln. apply forallb_Forall.
    constructor; [exact Xo|]. apply Forall_app. split; [exact Xm | constructor; [exact Xc | constructor]].
Qed.

Lemma close_not_triv c ty v :
  is_bracket c = true -> matches (Leaf ty v) (m_close c) = true -> triv_ty ty = false.
Proof.
  intros Hc H. destruct c; try discriminate Hc; cbn [m_close matches existsb match_pat fst] in H;
    rewrite orb_false_r in H; apply andb_true_iff in H; destruct H as [H _];
    apply ttype_eqb_eq in H; subst ty; reflexivity.
Qed.

Lemma first_last_pair c o mid cl :
  is_bracket c = true -> kind_of c o = KOpen -> kind_of c cl = KClose ->
  first_last c (leaves_list (o :: mid ++ [cl])) = true.
Proof.
  intros Hc Ko Kc.
  pose proof (kind_open_matches _ _ Ko) as Mo. pose proof (kind_close_matches _ _ Kc) as Mc.
  destruct o as [ty v | ? ? ?]; [|apply kind_open_leaf in Ko; discriminate].
  destruct cl as [ty2 v2 | ? ? ?]; [|apply kind_close_leaf in Kc; discriminate].
  rewrite leaves_list_cons, leaves_list_app. cbn [leaves app leaves_list flat_map].
  unfold first_last. apply andb_true_iff. split; [exact Mo|].
  change ((ty, v) :: leaves_list mid ++ [(ty2, v2)]) with (((ty, v) :: leaves_list mid) ++ [(ty2, v2)]).
  set (X := (ty, v) :: leaves_list mid).
  rewrite map_app. cbn [map]. unfold triv_tok at 2. cbn [fst].
  rewrite (close_not_triv _ _ _ Hc Mc), sig_len_last, map_length, nth_error_app_mid. exact Mc.
Qed.

Theorem stack_match_rec_lgood c n : is_bracket c = true -> nlgood n (stack_match_rec c n).
Proof.
  intros Hc. split; [apply stack_match_rec_leaves|]. split.
  - apply stack_match_rec_all. intros o mid cl _ _. apply q_pure_other. destruct c; try discriminate; reflexivity.
  - apply stack_match_rec_all. intros o mid cl Ko Kc. unfold q_fl. rewrite Hc.
    apply first_last_pair; assumption.
Qed.

Theorem match_all_lgood n : nlgood n (match_all n).
Proof.
  unfold match_all.
  repeat (eapply nlgood_trans; [|apply stack_match_rec_lgood; reflexivity]).
  apply nlgood_refl.
Qed.

(* the tree after pass 7 IS the six stack matchers applied to the tree after group_comments *)
Theorem group_upto7_eq n :
  group_upto 7 n = (n1 <- recurse_pass [CComment] f_comments n ;; Ok (match_all n1)).
Proof.
  unfold group_upto, passes. cbn [firstn run_passes].
  destruct (recurse_pass [CComment] f_comments n) as [n1|]; cbn [bind]; [|reflexivity].
  repeat (rewrite group_matching_spec; cbn [bind]). reflexivity.
Qed.

Lemma group_upto1_eq n : group_upto 1 n = recurse_pass [CComment] f_comments n.
Proof.
  unfold group_upto, passes. cbn [firstn run_passes].
  destruct (recurse_pass [CComment] f_comments n); reflexivity.
Qed.

Theorem group_upto7_matchers n n1 :
  group_upto 1 n = Ok n1 -> group_upto 7 n = Ok (match_all n1).
Proof. rewrite group_upto1_eq, group_upto7_eq. intros ->. reflexivity. Qed.

Theorem group_upto7_lgood n n7 : group_upto 7 n = Ok n7 -> nlgood n n7.
Proof.
  rewrite group_upto7_eq.
  destruct (recurse_pass [CComment] f_comments n) as [n1|] eqn:E; [|discriminate].
  cbn [bind]. intros H; injection H as <-.
  eapply nlgood_trans; [apply group_comments_lgood, E | apply match_all_lgood].
Qed.

(* ---- the statement the splitter builds ---------------------------------------------------------------- *)
Lemma statement_alln Q toks : alln Q (map (fun tk : tok => Leaf (fst tk) (snd tk)) toks) = true.
Proof. induction toks as [|t toks IH]; [reflexivity | exact IH]. Qed.

Lemma statement_pure toks : comments_pure (statement_of toks) = true.
Proof.
  unfold comments_pure, statement_of, mk_grp. rewrite all_nodes_grp, statement_alln. reflexivity.
Qed.

Lemma statement_fl toks : fl_ok (statement_of toks) = true.
Proof.
  unfold fl_ok, statement_of, mk_grp. rewrite all_nodes_grp, statement_alln. reflexivity.
Qed.

Theorem group_upto7_statement toks n7 :
  group_upto 7 (statement_of toks) = Ok n7 ->
  leaves n7 = toks /\ comments_pure n7 = true /\ fl_ok n7 = true.
Proof.
  intros H. apply group_upto7_lgood in H. destruct H as (L & P & F).
  rewrite statement_leaves in L. split; [exact L|].
  split; [apply P, statement_pure | apply F, statement_fl].
Qed.

Lemma group_split n : group n = (n7 <- group_upto 7 n ;; run_passes (skipn 7 passes) n7).
Proof.
  unfold group, group_upto. rewrite <- run_passes_app, firstn_skipn. reflexivity.
Qed.

(* MAIN: for a statement, the spans after all 25 passes are those after pass 7 *)
Theorem pipeline_statement toks n7 n25 :
  group_upto 7 (statement_of toks) = Ok n7 -> group (statement_of toks) = Ok n25 ->
  spans n25 = spans n7 /\ osim toks (leaves n25) /\ comments_pure n25 = true.
Proof.
  intros H7 H. rewrite group_split, H7 in H. cbn [bind] in H.
  destruct (group_upto7_statement _ _ H7) as (L & P & _).
  destruct (pipeline_spans _ _ P H) as (S & P' & O). rewrite L in O. auto.
Qed.

(* ---- first and last leaf --------------------------------------------------------------------------------- *)
Lemma spans_list_In x : forall l base, In x (spans_list base l) ->
  exists pre k post, l = pre ++ k :: post /\ In x (spans_at (base + length (leaves_list pre)) k).
Proof.
  induction l as [|k l IH]; intros base H; cbn [spans_list] in H; [contradiction|].
  apply in_app_or in H. destruct H as [H | H].
  - exists [], k, l. cbn [app leaves_list flat_map length]. rewrite Nat.add_0_r. auto.
  - apply IH in H. destruct H as (pre & k' & post & -> & H).
    exists (k :: pre), k', post. split; [reflexivity|].
    rewrite leaves_list_cons, app_length, Nat.add_assoc. exact H.
Qed.

(* in a tree satisfying fl_ok, every span starts at a leaf matching M_OPEN and ends (exclusive)
   just behind a leaf matching M_CLOSE *)
Lemma spans_fl : forall n base c i j,
  fl_ok n = true -> In (c, i, j) (spans_at base n) ->
  is_bracket c = true /\ base <= i /\ i < j /\
  exists o cl, nth_error (leaves n) (i - base) = Some o /\ tok_matches o (m_open c) = true /\
               nth_error (leaves n) (j - 1 - base) = Some cl /\ tok_matches cl (m_close c) = true.
Proof.
  unfold fl_ok.
  induction n as [ty v | c0 v kids IH] using node_ind'; intros base c i j Hf H; [contradiction|].
  rewrite spans_at_grp in H. rewrite all_nodes_grp in Hf.
  apply andb_true_iff in Hf. destruct Hf as [Hq Hk].
  apply in_app_or in H. destruct H as [H | H].
  - destruct (is_bracket c0) eqn:B; [|contradiction].
    destruct H as [H | []]. injection H as <- <- <-.
    unfold q_fl in Hq. rewrite B in Hq. unfold first_last in Hq.
    apply andb_true_iff in Hq. destruct Hq as [H1 H2]. rewrite leaves_grp.
    unfold flags_list.
    destruct (leaves_list kids) as [|o ls] eqn:El; [discriminate|].
    destruct (sig_len (map triv_tok (o :: ls))) as [|k] eqn:Es; [discriminate|].
    destruct (nth_error (o :: ls) k) as [cl|] eqn:En; [|discriminate].
    split; [exact B|]. split; [lia|]. split; [lia|].
    exists o, cl. replace (base - base) with 0 by lia. replace (base + S k - 1 - base) with k by lia.
    auto.
  - apply spans_list_In in H. destruct H as (pre & k & post & -> & H).
    unfold alln in Hk. rewrite forallb_app in Hk. apply andb_true_iff in Hk. destruct Hk as [_ Hk].
    cbn [forallb] in Hk. apply andb_true_iff in Hk. destruct Hk as [Hk _].
    rewrite Forall_forall in IH.
    destruct (IH k (in_elt k pre post) _ _ _ _ Hk H) as (B & H1 & H2 & o & cl & Ho & Mo & Hc & Mc).
    split; [exact B|]. split; [lia|]. split; [exact H2|].
    exists o, cl. rewrite leaves_grp, leaves_list_app, leaves_list_cons.
    assert (Hi : forall m x, nth_error (leaves k) (m - (base + length (leaves_list pre))) = Some x ->
                             base + length (leaves_list pre) <= m ->
                             nth_error (leaves_list pre ++ leaves k ++ leaves_list post) (m - base) = Some x).
    { intros m x Hx Hm. rewrite nth_error_app2 by lia.
      replace (m - base - length (leaves_list pre)) with (m - (base + length (leaves_list pre))) by lia.
      rewrite nth_error_app1; [exact Hx|]. apply nth_error_Some. congruence. }
    split; [apply Hi; [exact Ho | lia]|]. split; [exact Mo|]. split; [|exact Mc].
    apply Hi; [exact Hc | lia].
Qed.

(* a leaf that matches an opener / closer pattern of a bracket class is not re-typed *)
Lemma otok_sim_open c o o' :
  is_bracket c = true -> tok_matches o (m_open c) = true -> otok_sim o o' -> o' = o.
Proof.
  intros Hc M [<- | (_ & _ & S)]; [reflexivity|]. exfalso.
  destruct o as [ty v]. unfold tok_matches in M. cbn [fst snd] in *.
  destruct c; try discriminate Hc; cbn [m_open matches existsb match_pat fst] in M;
    rewrite orb_false_r in M; apply andb_true_iff in M; destruct M as [M _];
    apply ttype_eqb_eq in M; subst ty; destruct S; discriminate.
Qed.

Lemma otok_sim_close c o o' :
  is_bracket c = true -> tok_matches o (m_close c) = true -> otok_sim o o' -> o' = o.
Proof.
  intros Hc M [<- | (_ & _ & S)]; [reflexivity|]. exfalso.
  destruct o as [ty v]. unfold tok_matches in M. cbn [fst snd] in *.
  destruct c; try discriminate Hc; cbn [m_close matches existsb match_pat fst] in M;
    rewrite orb_false_r in M; apply andb_true_iff in M; destruct M as [M _];
    apply ttype_eqb_eq in M; subst ty; destruct S; discriminate.
Qed.

Lemma osim_nth a b i x : osim a b -> nth_error a i = Some x ->
  exists y, nth_error b i = Some y /\ otok_sim x y.
Proof.
  intros H; revert i. induction H as [|x0 y0 a b Hxy _ IH]; intros [|i] Hx; cbn [nth_error] in *;
    try discriminate.
  - injection Hx as <-. eauto.
  - apply IH, Hx.
Qed.

(* MAIN: in the final tree of a statement every bracket node starts with its opening token and,
   ignoring trailing comments and whitespace, ends with its closing token; the tokens are those of
   the statement's token stream, at the same positions *)
Theorem pipeline_first_last toks n25 c i j :
  group (statement_of toks) = Ok n25 -> In (c, i, j) (spans n25) ->
  is_bracket c = true /\ i < j /\
  exists o cl,
    nth_error toks i = Some o /\ tok_matches o (m_open c) = true /\
    nth_error toks (j - 1) = Some cl /\ tok_matches cl (m_close c) = true /\
    nth_error (leaves n25) i = Some o /\ nth_error (leaves n25) (j - 1) = Some cl.
Proof.
  intros H Hin.
  destruct (group_upto_total 7 toks) as (n7 & H7).
  destruct (pipeline_statement _ _ _ H7 H) as (S & O & _).
  destruct (group_upto7_statement _ _ H7) as (L & _ & F).
  unfold spans in *. rewrite S in Hin.
  destruct (spans_fl _ _ _ _ _ F Hin) as (B & _ & Hij & o & cl & Ho & Mo & Hc & Mc).
  rewrite L, !Nat.sub_0_r in *.
  split; [exact B|]. split; [exact Hij|]. exists o, cl.
  destruct (osim_nth _ _ _ _ O Ho) as (o' & Ho' & So).
  destruct (osim_nth _ _ _ _ O Hc) as (cl' & Hc' & Sc).
  rewrite (otok_sim_open _ _ _ B Mo So) in Ho'. rewrite (otok_sim_close _ _ _ B Mc Sc) in Hc'.
  repeat split; assumption.
Qed.

(* ---- `spans` has exactly one triple per bracket node, in pre-order ------------------------------------- *)
Lemma spans_classes : forall n base,
  map (fun t => fst (fst t)) (spans_at base n) = bracket_nodes n.
Proof.
  induction n as [ty v | c v kids IH] using node_ind'; intros base; [reflexivity|].
  rewrite spans_at_grp, map_app. cbn [bracket_nodes]. f_equal.
  - destruct (is_bracket c); reflexivity.
  - revert base. induction IH as [|k kids Hk _ IHk]; intros base; [reflexivity|].
    rewrite spans_list_cons, map_app, Hk, IHk. reflexivity.
Qed.

Corollary pipeline_bracket_nodes n n' :
  comments_pure n = true -> run_passes (skipn 7 passes) n = Ok n' ->
  bracket_nodes n' = bracket_nodes n.
Proof.
  intros Hp H. destruct (pipeline_spans _ _ Hp H) as (S & _).
  rewrite <- (spans_classes n' 0), <- (spans_classes n 0). unfold spans in S. rewrite S. reflexivity.
Qed.

Print Assumptions pipeline_spans.
Print Assumptions pipeline_spans_unconditional_refuted.
Print Assumptions group_upto7_matchers.
Print Assumptions pipeline_statement.
Print Assumptions pipeline_first_last.
Print Assumptions pipeline_bracket_nodes.

(* ---- examples --------------------------------------------------------------------------------------------- *)
(*  ( a ) --c\n b : align_comments appends " --c\n" to the parenthesis (7 leaves), its span still
    stops behind `)`  *)
Example pipeline_example_comment :
  spans_res (group_upto 7 (statement_of ex_paren_comment)) = Some [(CParenthesis, 0, 5)] /\
  spans_res (group (statement_of ex_paren_comment)) = Some [(CParenthesis, 0, 5)] /\
  match group (statement_of ex_paren_comment) with
  | Ok (Grp _ _ (p :: _)) => length (leaves p) = 7
  | _ => False
  end.
Proof. vm_compute. repeat split. Qed.

(*  case begin end : the Begin group is nested at the END of the Case group; both end at `end` *)
Example pipeline_example_case_begin :
  spans_res (group (statement_of ex_case_begin)) = Some [(CCase, 0, 5); (CBegin, 2, 5)].
Proof. vm_compute. reflexivity. Qed.

(*  (as)  and  ( :: int ) : the brackets themselves are wrapped into an Identifier INSIDE the group *)
Example pipeline_example_as :
  spans_res (group (statement_of ex_paren_as)) = Some [(CParenthesis, 0, 3)] /\
  spans_res (group (statement_of ex_paren_cast)) = Some [(CParenthesis, 0, 7)] /\
  spans_res (group (statement_of ex_if_comma)) = Some [(CIf, 0, 5)].
Proof. vm_compute. repeat split. Qed.

(* the hypotheses of pipeline_statement / pipeline_first_last are satisfiable, and the re-typing
   really happens: a * ( b . * ) --c\n + 1 *)
Example pipeline_example_mixed :
  exists n7 n25,
    group_upto 7 (statement_of ex_mixed) = Ok n7 /\ group (statement_of ex_mixed) = Ok n25 /\
    spans n25 = [(CParenthesis, 4, 9)] /\ leaves n25 <> ex_mixed /\ comments_pure n7 = true.
Proof.
  eexists. eexists. split; [vm_compute; reflexivity|]. split; [vm_compute; reflexivity|].
  split; [vm_compute; reflexivity|]. split; [vm_compute; discriminate | vm_compute; reflexivity].
Qed.
