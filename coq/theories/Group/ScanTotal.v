(* Totality of the @recurse passes built on `scan` (the while-loops over the live list) and of
   group_values, with (NE) and - for the passes that run before group_where - preservation of the
   bracket shape.

   PROGRESS: each iteration handles the token found at tidx >= start and continues after [cont];
   every body either leaves the list alone and continues after tidx, or replaces the slice
   start..stop-1 (start <= tidx < stop) by one group and continues after start.  Hence
   |l| - next_start strictly decreases; the fuel S |l| of `scan` is never exhausted. *)
From SqlModel Require Import Base PyStr Node Inv Passes GroupFacts TotalDefs TotalBase.

(* (NE) relative to the initial list *)
Definition InvA (l0 l : list node) : Prop := (NEL l0 -> NEL l) /\ (l = [] -> l0 = []).

Lemma InvA_refl l : InvA l l. Proof. split; auto. Qed.

Lemma InvA_step l0 c' start stop ext l l' g :
  InvA l0 l -> start < stop -> group_tokens c' start stop ext l = Ok (l', g) -> InvA l0 l'.
Proof.
  intros [H1 H2] Hlt Eg. split.
  - intros H0. eapply group_tokens_ne; [exact Eg | auto | left; exact Hlt].
  - intros Hn. apply group_tokens_at in Eg. tauto.
Qed.

Section Scan.
Variable find : nat -> list node -> option (nat * node).
Variable body : nat -> node -> list node -> res (list node * nat).

Definition find_ok : Prop := forall s l i x, find s l = Some (i, x) -> s <= i /\ i < length l.

Section WithInv.
Variable Inv : list node -> Prop.

Definition body_ok : Prop := forall s l i x, Inv l -> find s l = Some (i, x) ->
  exists l' cont, body i x l = Ok (l', cont) /\ Inv l' /\ length l' - S cont <= length l - S i.

Lemma scan_loop_total : find_ok -> body_ok -> forall fuel start l,
  Inv l -> length l - start < fuel -> exists r, scan_loop find body fuel start l = Ok r /\ Inv r.
Proof.
  intros Hf Hb. induction fuel as [|fuel IH]; intros start l HI Hm; [lia|]. cbn [scan_loop].
  destruct (find start l) as [[i x]|] eqn:E; [|eauto].
  destruct (Hf _ _ _ _ E) as [H1 H2]. destruct (Hb _ _ _ _ HI E) as (l' & cont & Eb & HI' & Hd).
  rewrite Eb. cbn [bind]. apply IH; [exact HI' | lia].
Qed.

Theorem scan_total : find_ok -> body_ok -> forall l, Inv l ->
  exists r, scan find body l = Ok r /\ Inv r.
Proof. intros Hf Hb l HI. apply scan_loop_total; auto. lia. Qed.
End WithInv.

(* the uniform shape of the nine loop bodies: at most one group_tokens call *)
Definition calls (c' : cls) (ext : bool) (Pre : list node -> Prop)
           (Bnd : list node -> nat -> nat -> Prop) : Prop :=
  forall s l i x, Pre l -> find s l = Some (i, x) ->
    body i x l = Ok (l, i) \/
    exists start stop, start <= i /\ i < stop /\ start < length l /\ Bnd l start stop /\
      forall l' g, group_tokens c' start stop ext l = Ok (l', g) -> body i x l = Ok (l', start).

Lemma calls_body_ok c' ext Pre Bnd (Inv : list node -> Prop) :
  calls c' ext Pre Bnd -> (forall l, Inv l -> Pre l) ->
  (forall l start stop l' g, Inv l -> Bnd l start stop -> start < stop ->
      group_tokens c' start stop ext l = Ok (l', g) -> Inv l') ->
  body_ok Inv.
Proof.
  intros Hc HP HG s l i x HI E.
  destruct (Hc s l i x (HP l HI) E) as [Eb | (start & stop & H1 & H2 & H3 & HB & Eb)].
  - exists l, i. auto.
  - destruct (group_tokens_ok c' start stop ext l H3) as (l' & g & Eg).
    exists l', start. split; [eauto|]. split; [eapply HG; eauto; lia|].
    rewrite (group_tokens_length _ _ _ _ _ _ _ Eg) by lia. lia.
Qed.

Theorem scan_calls_total c' ext Bnd : find_ok -> calls c' ext (fun _ => True) Bnd ->
  forall l, exists r, scan find body l = Ok r /\ (NEL l -> NEL r) /\ (r = [] -> l = []).
Proof.
  intros Hf Hc l.
  destruct (scan_total (InvA l) Hf) with (l := l) as (r & E & HI).
  - eapply calls_body_ok; [exact Hc | intros ? ?; exact I |].
    intros l1 start stop l' g HI _ Hlt Eg. eapply InvA_step; eauto.
  - apply InvA_refl.
  - exists r. split; [exact E | exact HI].
Qed.

Theorem scan_calls_brk c c' Pre Bnd : find_ok -> calls c' false Pre Bnd -> is_brk c' = false ->
  (forall l, LInv c l -> Pre l) ->
  (forall l start stop, LInv c l -> Bnd l start stop -> start < stop ->
      is_brk c = true -> 1 <= start /\ stop < length l) ->
  forall l, LInv c l ->
  exists r, scan find body l = Ok r /\ (NEL l -> NEL r) /\ (r = [] -> l = []) /\ LInv c r.
Proof.
  intros Hf Hc Hc' HP HB l HL.
  destruct (scan_total (fun x => InvA l x /\ LInv c x) Hf) with (l := l) as (r & E & HI & HL').
  - eapply calls_body_ok; [exact Hc | intros l1 [_ H1]; auto |].
    intros l1 start stop l' g [HI HL1] Hb Hlt Eg. split; [eapply InvA_step; eauto|].
    eapply group_tokens_LInv; eauto.
  - split; [apply InvA_refl | exact HL].
  - exists r. destruct HI. auto.
Qed.
End Scan.

(* ---- the @recurse decorator ---------------------------------------------------------------------- *)
Definition f_total (f : cls -> list node -> res (list node)) : Prop :=
  forall c l, exists l', f c l = Ok l' /\ (NEL l -> NEL l') /\ (l' = [] -> l = []).

Definition f_brk (f : cls -> list node -> res (list node)) : Prop :=
  forall c l, LInv c l ->
  exists l', f c l = Ok l' /\ (NEL l -> NEL l') /\ (l' = [] -> l = []) /\ LInv c l'.

Lemma grp_kid_rel c v kids kids1 kids2 :
  Forall2 kid_rel kids kids1 -> (NEL kids1 -> NEL kids2) -> (kids2 = [] -> kids1 = []) ->
  kid_rel (Grp c v kids) (Grp c v kids2).
Proof.
  intros HR N1 N2. split; [discriminate|]. split; [|split].
  - intros c1 v1 k1 E. injection E as <- <- <-. eauto.
  - intros Hne. apply ne_grp in Hne. destruct Hne as [Hk1 Hk2]. apply ne_grp. split.
    + intros Hn. apply N2 in Hn. apply (kid_rel_nil _ _ HR) in Hn. contradiction.
    + apply N1. eapply kid_rel_NEL; eauto.
  - cbn [nkids]. intros Hk. apply N1. eapply kid_rel_NEL; eauto.
Qed.

Theorem recurse_pass_total skip f : f_total f ->
  forall n, exists n', recurse_pass skip f n = Ok n' /\ kid_rel n n'.
Proof.
  intros HT. induction n as [ty v | c v kids IH] using node_ind'; cbn [recurse_pass].
  - eexists. split; [reflexivity | apply kid_rel_refl].
  - destruct (mapM_total (fun k => if is_group k && negb (inst_any k skip)
                                    then recurse_pass skip f k else Ok k) kid_rel kids)
      as (kids1 & E1 & HR).
    { eapply Forall_impl; [|exact IH]. intros k (k' & Ek & Rk). cbv beta.
      destruct (is_group k && negb (inst_any k skip)); [eauto|].
      exists k. split; [reflexivity | apply kid_rel_refl]. }
    rewrite E1. cbn [bind]. destruct (HT c kids1) as (kids2 & E2 & N1 & N2).
    rewrite E2. cbn [bind]. eexists. split; [reflexivity|]. eapply grp_kid_rel; eauto.
Qed.

Theorem recurse_pass_brk skip f : f_brk f ->
  forall n, bok n -> exists n', recurse_pass skip f n = Ok n' /\ kid_rel n n' /\ bok n'.
Proof.
  intros HT. induction n as [ty v | c v kids IH] using node_ind'; intros Hb; cbn [recurse_pass].
  - eexists. split; [reflexivity|]. split; [apply kid_rel_refl | exact Hb].
  - apply brk_ok_grp in Hb. destruct Hb as [Hb Hs].
    destruct (mapM_total (fun k => if is_group k && negb (inst_any k skip)
                                    then recurse_pass skip f k else Ok k)
                         (fun k k' => kid_rel k k' /\ bok k') kids)
      as (kids1 & E1 & HR).
    { rewrite Forall_forall in IH, Hb. apply Forall_forall. intros k Hk. cbv beta.
      destruct (is_group k && negb (inst_any k skip)).
      - destruct (IH k Hk (Hb k Hk)) as (k' & Ek & Rk & Bk). eauto.
      - exists k. split; [reflexivity|]. split; [apply kid_rel_refl | apply Hb, Hk]. }
    rewrite E1. cbn [bind].
    assert (HR1 : Forall2 kid_rel kids kids1).
    { clear -HR. induction HR as [|? ? ? ? [H _] _ IHR]; constructor; auto. }
    assert (HB1 : Forall bok kids1).
    { clear -HR. induction HR as [|? ? ? ? [_ H] _ IHR]; constructor; auto. }
    destruct (HT c kids1) as (kids2 & E2 & N1 & N2 & HL2).
    { split; [exact HB1 | eapply shape_if_kid_rel; eauto]. }
    rewrite E2. cbn [bind]. eexists. split; [reflexivity|].
    split; [eapply grp_kid_rel; eauto | apply brk_ok_grp, HL2].
Qed.

(* ---- the searches the passes use ----------------------------------------------------------------- *)
Lemma next_by_find_ok i m t : find_ok (next_by_from i m t).
Proof. intros s l j x H. apply next_by_from_range in H. lia. Qed.

(* what keeps a group_tokens call strictly inside a bracket list: neither its first nor its last
   token is a Punctuation leaf *)
Definition not_punct (y : node) : Prop := forall v, y <> Leaf T_Punctuation v.

Definition inner (l : list node) (start stop : nat) : Prop :=
  (exists x, nth_error l start = Some x /\ not_punct x) /\
  (stop < length l \/ exists y, nth_error l (stop - 1) = Some y /\ not_punct y).

Lemma inner_bounds c l start stop : shape_if c l = true -> inner l start stop -> start < stop ->
  is_brk c = true -> 1 <= start /\ stop < length l.
Proof.
  intros Hs [(x & Ex & Nx) Hstop] Hlt Hc. unfold shape_if in Hs. rewrite Hc in Hs.
  destruct (shape_ends _ _ Hc Hs) as (vo & mid & vc & El). split.
  - destruct start as [|s]; [|lia]. rewrite El in Ex. cbn [nth_error] in Ex. injection Ex as <-.
    exfalso. eapply Nx. reflexivity.
  - destruct Hstop as [H | (y & Ey & Ny)]; [exact H|].
    assert (Hl : stop - 1 < length l) by (apply nth_error_Some; congruence).
    destruct (Nat.eq_dec (stop - 1) (length l - 1)) as [Heq | Hneq]; [|lia].
    rewrite Heq, El, nth_error_last_app in Ey. injection Ey as <-. exfalso. eapply Ny. reflexivity.
Qed.

Lemma group_not_punct y : is_group y = true -> not_punct y.
Proof. intros H v ->. discriminate. Qed.

Ltac np_leaf H := let v := fresh "v" in intros v ->; cbn in H; discriminate H.

(* ---- group_comments -------------------------------------------------------------------------------- *)
Lemma calls_comments :
  calls (next_by_from [] [] (TOne T_Comment))
        (fun tidx (_ : node) l =>
          match find_from (fun tk => negb (imt (Some tk) [] [] (TOne T_Comment) || is_newline tk)) tidx l with
          | Some (eidx, _) =>
              match eidx with
              | O => Err TypeError
              | S e1 => '(l', _) <- group_tokens CComment tidx (S e1) false l ;; Ok (l', tidx)
              end
          | None => Ok (l, tidx)
          end)
        CComment false (fun _ => True) inner.
Proof.
  intros s l i x _ E. apply next_by_from_range in E. destruct E as (_ & Hi & Ex & Px). cbv beta.
  destruct (find_from _ i l) as [[eidx y]|] eqn:E2; [|left; reflexivity].
  apply find_from_range in E2. destruct E2 as (H1 & H2 & Ey & Py).
  assert (Hne : eidx <> i).
  { intros ->. rewrite Ex in Ey. injection Ey as <-. rewrite Px in Py. discriminate. }
  destruct eidx as [|e1]; [lia|]. right. exists i, (S e1).
  split; [lia|]. split; [lia|]. split; [exact Hi|]. split.
  - split; [|left; exact H2]. exists x. split; [exact Ex|]. np_leaf Px.
  - intros l' g Eg. rewrite Eg. reflexivity.
Qed.

Lemma ft_comments : f_total f_comments.
Proof. intros c l. eapply scan_calls_total; [apply next_by_find_ok | apply calls_comments]. Qed.

Lemma fb_comments : f_brk f_comments.
Proof.
  intros c l HL. eapply scan_calls_brk; try exact HL;
    [apply next_by_find_ok | apply calls_comments | reflexivity | intros ? ?; exact I |].
  intros l1 start stop [_ HL1] Hb Hlt Hc. eapply inner_bounds; eauto.
Qed.

(* ---- group_over ---------------------------------------------------------------------------------- *)
Lemma calls_over :
  calls (next_by_from [] (m_open COver) TNone)
        (fun tidx (_ : node) l =>
          match token_next true false tidx l with
          | Some (nidx, next_) =>
              if imt (Some next_) [CParenthesis] [] (TOne T_Name)
              then '(l', _) <- group_tokens COver tidx (S nidx) false l ;; Ok (l', tidx)
              else Ok (l, tidx)
          | None => Ok (l, tidx)
          end)
        COver false (fun _ => True) inner.
Proof.
  intros s l i x _ E. apply next_by_from_range in E. destruct E as (_ & Hi & Ex & Px). cbv beta.
  destruct (token_next true false i l) as [[nidx nn]|] eqn:E2; [|left; reflexivity].
  destruct (imt (Some nn) _ _ _) eqn:Pn; [|left; reflexivity].
  apply token_next_range in E2. destruct E2 as (H1 & H2 & En).
  right. exists i, (S nidx). split; [lia|]. split; [lia|]. split; [exact Hi|]. split.
  - split.
    + exists x. split; [exact Ex|]. np_leaf Px.
    + right. exists nn. rewrite Nat.sub_succ, Nat.sub_0_r. split; [exact En|]. np_leaf Pn.
  - intros l' g Eg. rewrite Eg. reflexivity.
Qed.

Lemma ft_over : f_total f_over.
Proof. intros c l. eapply scan_calls_total; [apply next_by_find_ok | apply calls_over]. Qed.

Lemma fb_over : f_brk f_over.
Proof.
  intros c l HL. eapply scan_calls_brk; try exact HL;
    [apply next_by_find_ok | apply calls_over | reflexivity | intros ? ?; exact I |].
  intros l1 start stop [_ HL1] Hb Hlt Hc. eapply inner_bounds; eauto.
Qed.

(* ---- group_functions ------------------------------------------------------------------------------ *)
Lemma calls_functions :
  calls (next_by_from [] [] (TOne T_Name))
        (fun tidx (_ : node) l =>
          match token_next true false tidx l with
          | Some (nidx, next_) =>
              if inst next_ CParenthesis then
                let eidx := match token_next true false nidx l with
                            | Some (oidx, over) => if inst over COver then oidx else nidx
                            | None => nidx
                            end in
                '(l', _) <- group_tokens CFunction tidx (S eidx) false l ;; Ok (l', tidx)
              else Ok (l, tidx)
          | None => Ok (l, tidx)
          end)
        CFunction false (fun _ => True) inner.
Proof.
  intros s l i x _ E. apply next_by_from_range in E. destruct E as (_ & Hi & Ex & Px). cbv beta.
  destruct (token_next true false i l) as [[nidx nn]|] eqn:E2; [|left; reflexivity].
  destruct (inst nn CParenthesis) eqn:Pn; [|left; reflexivity].
  apply token_next_range in E2. destruct E2 as (H1 & H2 & En).
  cbv zeta.
  set (eidx := match token_next true false nidx l with
               | Some (oidx, over) => if inst over COver then oidx else nidx
               | None => nidx
               end).
  assert (He : nidx <= eidx /\ exists y, nth_error l eidx = Some y /\ is_group y = true).
  { unfold eidx. destruct (token_next true false nidx l) as [[oidx over]|] eqn:E3.
    - destruct (inst over COver) eqn:Po.
      + apply token_next_range in E3. destruct E3 as (H3 & H4 & Eo). split; [lia|].
        exists over. split; [exact Eo|]. destruct over; [discriminate | reflexivity].
      + split; [lia|]. exists nn. split; [exact En|]. destruct nn; [discriminate | reflexivity].
    - split; [lia|]. exists nn. split; [exact En|]. destruct nn; [discriminate | reflexivity]. }
  destruct He as (He1 & y & Ey & Gy).
  right. exists i, (S eidx). split; [lia|]. split; [lia|]. split; [exact Hi|]. split.
  - split.
    + exists x. split; [exact Ex|]. np_leaf Px.
    + right. exists y. rewrite Nat.sub_succ, Nat.sub_0_r. split; [exact Ey|].
      apply group_not_punct, Gy.
  - intros l' g Eg. rewrite Eg. reflexivity.
Qed.

Lemma ft_functions : f_total f_functions.
Proof.
  intros c l. unfold f_functions. destruct (_ && _ && negb _).
  - exists l. auto.
  - eapply scan_calls_total; [apply next_by_find_ok | apply calls_functions].
Qed.

Lemma fb_functions : f_brk f_functions.
Proof.
  intros c l HL. unfold f_functions. destruct (_ && _ && negb _).
  - exists l. auto.
  - eapply scan_calls_brk; try exact HL;
      [apply next_by_find_ok | apply calls_functions | reflexivity | intros ? ?; exact I |].
    intros l1 start stop [_ HL1] Hb Hlt Hc. eapply inner_bounds; eauto.
Qed.

(* ---- group_where ------------------------------------------------------------------------------------
   needs the bracket shape: tlist._groupable_tokens[-1] of a Parenthesis / SquareBrackets is
   tokens[1:-1][-1] *)
Lemma groupable_last_index_brk c l : is_brk c = true -> 3 <= length l ->
  groupable_last_index c l = Ok (length l - 2).
Proof.
  intros Hc Hl. destruct c; try discriminate Hc; cbn [groupable_last_index];
    (replace (Nat.leb (length l) 2) with false by (symmetry; apply Nat.leb_gt; lia)); reflexivity.
Qed.

Lemma groupable_last_index_other c l : is_brk c = false -> l <> [] ->
  groupable_last_index c l = Ok (length l - 1).
Proof.
  intros Hc Hl. destruct l as [|y l]; [contradiction|].
  destruct c; try discriminate Hc; reflexivity.
Qed.

Definition where_bnd (c : cls) (l : list node) (start stop : nat) : Prop :=
  is_brk c = true -> 1 <= start /\ stop < length l.

Lemma calls_where c :
  calls (next_by_from [] (m_open CWhere) TNone)
        (fun tidx (_ : node) l =>
          eidx <- match next_by_from [] (m_close CWhere) TNone (S tidx) l with
                  | Some (ci, _) => match ci with O => Err Stuck | S e => Ok e end
                  | None => groupable_last_index c l
                  end ;;
          '(l', _) <- group_tokens CWhere tidx (S eidx) false l ;; Ok (l', tidx))
        CWhere false (fun l => shape_if c l = true) (where_bnd c).
Proof.
  intros s l i x Hs E. apply next_by_from_range in E. destruct E as (_ & Hi & Ex & Px). cbv beta.
  (* inside a bracket list the WHERE keyword is strictly between the brackets *)
  assert (Hin : is_brk c = true -> 1 <= i /\ S i < length l).
  { intros Hc. apply (inner_bounds c l i (S i)); auto. split.
    - exists x. split; [exact Ex|]. np_leaf Px.
    - right. exists x. rewrite Nat.sub_succ, Nat.sub_0_r. split; [exact Ex|]. np_leaf Px. }
  right.
  destruct (next_by_from [] (m_close CWhere) TNone (S i) l) as [[ci y]|] eqn:E2.
  - apply next_by_from_range in E2. destruct E2 as (H1 & H2 & _).
    destruct ci as [|e]; [lia|]. exists i, (S e).
    split; [lia|]. split; [lia|]. split; [exact Hi|]. split.
    + intros Hc. destruct (Hin Hc). lia.
    + intros l' g Eg. cbn [bind]. rewrite Eg. reflexivity.
  - destruct (is_brk c) eqn:Hc.
    + destruct (Hin eq_refl) as [Hi1 Hi2].
      rewrite groupable_last_index_brk by (auto; lia). exists i, (S (length l - 2)).
      split; [lia|]. split; [lia|]. split; [exact Hi|]. split.
      * intros _. lia.
      * intros l' g Eg. cbn [bind]. rewrite Eg. reflexivity.
    + rewrite groupable_last_index_other; [|exact Hc | intros ->; cbn [length] in Hi; lia].
      exists i, (S (length l - 1)).
      split; [lia|]. split; [lia|]. split; [exact Hi|]. split.
      * unfold where_bnd. rewrite Hc. discriminate.
      * intros l' g Eg. cbn [bind]. rewrite Eg. reflexivity.
Qed.

(* group_where is total on every list that has the bracket shape (and keeps it) *)
Lemma fb_where : f_brk f_where.
Proof.
  intros c l HL. unfold f_where. eapply scan_calls_brk; try exact HL;
    [apply next_by_find_ok | apply calls_where | reflexivity | intros l1 [_ H1]; exact H1 |].
  intros l1 start stop _ Hb _ Hc. apply Hb, Hc.
Qed.

(* ... and on every list of a non-bracket class *)
Lemma ft_where_other c l : is_brk c = false ->
  exists l', f_where c l = Ok l' /\ (NEL l -> NEL l') /\ (l' = [] -> l = []).
Proof.
  intros Hc. unfold f_where.
  match goal with |- exists l', scan ?f ?b l = _ /\ _ =>
    destruct (scan_total f b (InvA l) (next_by_find_ok _ _ _)) with (l := l) as (r & E & HI) end;
    [| apply InvA_refl | exists r; split; [exact E | exact HI]].
  eapply calls_body_ok; [apply (calls_where c) | | ].
  - intros l1 _. unfold shape_if. rewrite Hc. reflexivity.
  - intros l1 start stop l' g HI _ Hlt Eg. eapply InvA_step; eauto.
Qed.

(* ---- group_identifier ---------------------------------------------------------------------------- *)
Lemma calls_identifier :
  calls (next_by_from [] [] (TMany [T_Symbol; T_Name]))
        (fun tidx (_ : node) l =>
           '(l', _) <- group_tokens CIdentifier tidx (S tidx) false l ;; Ok (l', tidx))
        CIdentifier false (fun _ => True) (fun _ _ _ => True).
Proof.
  intros s l i x _ E. apply next_by_from_range in E. destruct E as (_ & Hi & Ex & Px). cbv beta.
  right. exists i, (S i). split; [lia|]. split; [lia|]. split; [exact Hi|]. split; [exact I|].
  intros l' g Eg. rewrite Eg. reflexivity.
Qed.

Lemma ft_identifier : f_total f_identifier.
Proof. intros c l. eapply scan_calls_total; [apply next_by_find_ok | apply calls_identifier]. Qed.

(* ---- group_order ---------------------------------------------------------------------------------- *)
Lemma calls_order :
  calls (next_by_from [] [] (TOne T_Order))
        (fun tidx (_ : node) l =>
          match token_prev true false tidx l with
          | Some (pidx, prev_) =>
              if imt (Some prev_) [CIdentifier] [] (TOne T_Number)
              then '(l', _) <- group_tokens CIdentifier pidx (S tidx) false l ;; Ok (l', pidx)
              else Ok (l, tidx)
          | None => Ok (l, tidx)
          end)
        CIdentifier false (fun _ => True) (fun _ _ _ => True).
Proof.
  intros s l i x _ E. apply next_by_from_range in E. destruct E as (_ & Hi & Ex & Px). cbv beta.
  destruct (token_prev true false i l) as [[pidx pv]|] eqn:E2; [|left; reflexivity].
  destruct (imt (Some pv) _ _ _); [|left; reflexivity].
  apply token_prev_range in E2. destruct E2 as (H1 & H2 & _).
  right. exists pidx, (S i). split; [lia|]. split; [lia|]. split; [exact H2|]. split; [exact I|].
  intros l' g Eg. rewrite Eg. reflexivity.
Qed.

Lemma ft_order : f_total f_order.
Proof. intros c l. eapply scan_calls_total; [apply next_by_find_ok | apply calls_order]. Qed.

(* ---- group_aliased -------------------------------------------------------------------------------- *)
Lemma calls_aliased :
  calls (next_by_from [CParenthesis; CFunction; CCase; CIdentifier; COperation; CComparison] []
                      (TOne T_Number))
        (fun tidx (_ : node) l =>
          match token_next true false tidx l with
          | Some (nidx, next_) =>
              if inst next_ CIdentifier
              then '(l', _) <- group_tokens CIdentifier tidx (S nidx) true l ;; Ok (l', tidx)
              else Ok (l, tidx)
          | None => Ok (l, tidx)
          end)
        CIdentifier true (fun _ => True) (fun _ _ _ => True).
Proof.
  intros s l i x _ E. apply next_by_from_range in E. destruct E as (_ & Hi & Ex & Px). cbv beta.
  destruct (token_next true false i l) as [[nidx nn]|] eqn:E2; [|left; reflexivity].
  destruct (inst nn CIdentifier); [|left; reflexivity].
  apply token_next_range in E2. destruct E2 as (H1 & H2 & _).
  right. exists i, (S nidx). split; [lia|]. split; [lia|]. split; [exact Hi|]. split; [exact I|].
  intros l' g Eg. rewrite Eg. reflexivity.
Qed.

Lemma ft_aliased : f_total f_aliased.
Proof. intros c l. eapply scan_calls_total; [apply next_by_find_ok | apply calls_aliased]. Qed.

(* ---- align_comments -------------------------------------------------------------------------------- *)
Lemma calls_align_comments :
  calls (next_by_from [CComment] [] TNone)
        (fun tidx (_ : node) l =>
          match token_prev true false tidx l with
          | Some (pidx, prev_) =>
              if inst prev_ CTokenList
              then '(l', _) <- group_tokens CTokenList pidx (S tidx) true l ;; Ok (l', pidx)
              else Ok (l, tidx)
          | None => Ok (l, tidx)
          end)
        CTokenList true (fun _ => True) (fun _ _ _ => True).
Proof.
  intros s l i x _ E. apply next_by_from_range in E. destruct E as (_ & Hi & Ex & Px). cbv beta.
  destruct (token_prev true false i l) as [[pidx pv]|] eqn:E2; [|left; reflexivity].
  destruct (inst pv CTokenList); [|left; reflexivity].
  apply token_prev_range in E2. destruct E2 as (H1 & H2 & _).
  right. exists pidx, (S i). split; [lia|]. split; [lia|]. split; [exact H2|]. split; [exact I|].
  intros l' g Eg. rewrite Eg. reflexivity.
Qed.

Lemma ft_align_comments : f_total f_align_comments.
Proof. intros c l. eapply scan_calls_total; [apply next_by_find_ok | apply calls_align_comments]. Qed.

(* ---- group_values ---------------------------------------------------------------------------------- *)
Lemma values_scan_total l : forall fuel tidx token e,
  length l - tidx < fuel ->
  exists r, values_scan fuel tidx token e l = Ok r /\ (r = e \/ exists j, r = Some j /\ tidx <= j).
Proof.
  induction fuel as [|fuel IH]; intros tidx token e Hm; [lia|]. cbn [values_scan].
  destruct (token_next true false tidx l) as [[nidx nn]|] eqn:E.
  - apply token_next_range in E. destruct E as (H1 & H2 & _).
    destruct (IH nidx nn (if inst token CParenthesis then Some tidx else e)) as (r & Er & Hr); [lia|].
    exists r. split; [exact Er|].
    destruct Hr as [-> | (j & -> & Hj)].
    + destruct (inst token CParenthesis); [right; exists tidx; auto | left; reflexivity].
    + right. exists j. split; [reflexivity | lia].
  - eexists. split; [reflexivity|].
    destruct (inst token CParenthesis); [right; exists tidx; auto | left; reflexivity].
Qed.

Theorem group_values_total : forall n, exists n', group_values n = Ok n' /\ kid_rel n n'.
Proof.
  intros [ty v | c v l]; cbn [group_values].
  - eexists. split; [reflexivity | apply kid_rel_refl].
  - destruct (next_by_from [] [(T_Keyword, Some [s_VALUES])] TNone 0 l) as [[start_idx token]|] eqn:E.
    2:{ eexists. split; [reflexivity | apply kid_rel_refl]. }
    apply next_by_from_range in E. destruct E as (_ & Hs & _).
    destruct (values_scan_total l (S (length l)) start_idx token None) as (r & Er & Hr); [lia|].
    rewrite Er. cbn [bind].
    destruct Hr as [-> | (j & -> & Hj)].
    { eexists. split; [reflexivity | apply kid_rel_refl]. }
    destruct (group_tokens_ok CValues start_idx (S j) true l Hs) as (l' & g & Eg).
    rewrite Eg. cbn [bind]. eexists. split; [reflexivity|].
    eapply grp_kid_rel with (kids1 := l).
    + clear. induction l; constructor; [apply kid_rel_refl | assumption].
    + intros Hl. eapply group_tokens_ne; [exact Eg | exact Hl | left; lia].
    + intros Hn. apply group_tokens_at in Eg. tauto.
Qed.

Print Assumptions scan_total.
Print Assumptions recurse_pass_total.
Print Assumptions recurse_pass_brk.
Print Assumptions fb_where.
Print Assumptions group_values_total.
