(* Predicates used by the totality proofs of grouping.group (TotalBase / DriverTotal / ScanTotal /
   ShapeFacts / TotalFacts).  No proofs in this file. *)
From SqlModel Require Import Base PyStr Node Passes.
From Coq Require Import ZArith.

(* ---- (NE) every group has at least one child ------------------------------------------------ *)
Definition is_nil {A} (l : list A) : bool := match l with [] => true | _ :: _ => false end.

Fixpoint nonempty_groups (n : node) : bool :=
  match n with
  | Leaf _ _ => true
  | Grp _ _ kids => negb (is_nil kids) && forallb nonempty_groups kids
  end.

(* the same, but the root itself may be empty (statement_of [] is an empty Statement) *)
Definition nonempty_below (n : node) : bool := forallb nonempty_groups (nkids n).

(* ---- the bracket-shape invariant --------------------------------------------------------------
   every Parenthesis / SquareBrackets node has at least two children, its first child matches the
   class's M_OPEN and its last child matches M_CLOSE (both are then Punctuation leaves). *)
Definition is_brk (c : cls) : bool :=
  match c with CParenthesis | CSquareBrackets => true | _ => false end.

Definition shape (c : cls) (kids : list node) : bool :=
  match kids with
  | o :: r => match rev r with
              | cl :: _ => matches o (m_open c) && matches cl (m_close c)
              | [] => false
              end
  | [] => false
  end.

Definition shape_if (c : cls) (kids : list node) : bool := if is_brk c then shape c kids else true.

Fixpoint brk_ok (n : node) : bool :=
  match n with
  | Leaf _ _ => true
  | Grp c _ kids => shape_if c kids && forallb brk_ok kids
  end.

(* the root is not itself a bracket group (it is a Statement in the pipeline) *)
Definition top_ok (n : node) : bool :=
  match n with Leaf _ _ => true | Grp c _ _ => negb (is_brk c) end.

(* the tokens of  select,a:=:=c;  : group_assignment computes to_idx < from_idx here, i.e.
   `tidx_offset += to_idx - from_idx` DEcreases the offset (the reason why g_off is an integer) *)
Definition stuck_toks : list tok :=
  [ (T_DML, [115; 101; 108; 101; 99; 116]%N); (T_Punctuation, s_comma); (T_Name, [97]%N);
    (T_Assignment, s_assign); (T_Assignment, s_assign); (T_Name, [99]%N); (T_Punctuation, s_semi) ].

(* a tree on which group_where raises / creates an empty group: a Parenthesis that lost its
   brackets (cannot come out of passes 1-9) *)
Definition kw_where : node := Leaf T_Keyword s_WHERE.
Definition bad_paren1 : node := mk_grp CStatement [mk_grp CParenthesis [kw_where]].
Definition bad_paren2 : node :=
  mk_grp CStatement [mk_grp CParenthesis [Leaf T_Name [97]%N; Leaf T_Name [98]%N; kw_where]].
