(* _group_matching IS the textbook stack matcher: the index/snapshot/offset loop of
   Passes.matching_loop computes exactly MatchSpec.stack_match, for every input; hence it never
   fails (totality), the groups it creates are exactly opener .. closer pairs whose inside is
   completely matched, what is left ungrouped is `closers* openers*` (maximality), the leaves are
   preserved and the pass is idempotent. *)
From SqlModel Require Import Base PyStr Node Inv Passes GroupFacts MatchSpec.

(* ---- list surgery ------------------------------------------------------------------------------ *)
Lemma firstn_length_app {A} (a b : list A) : firstn (length a) (a ++ b) = a.
Proof. induction a as [|x a IH]; cbn [length app firstn]; [reflexivity | rewrite IH; reflexivity]. Qed.

Lemma skipn_length_app {A} (a b : list A) : skipn (length a) (a ++ b) = b.
Proof. induction a as [|x a IH]; cbn [length app skipn]; [reflexivity | exact IH]. Qed.

(* the group_tokens call of the loop rewrites exactly the slice opener .. closer into one group *)
Lemma group_tokens_exact c (A M : list node) t R :
  group_tokens c (length A) (S (length A + length M)) false (A ++ M ++ t :: R)
  = Ok (A ++ mk_grp c (M ++ [t]) :: R, mk_grp c (M ++ [t])).
Proof.
  unfold group_tokens.
  destruct (nth_error (A ++ M ++ t :: R) (length A)) as [first|] eqn:E.
  2:{ apply nth_error_None in E. rewrite !app_length in E. cbn [length] in E. lia. }
  cbn [andb].
  rewrite firstn_length_app, skipn_length_app.
  replace (S (length A + length M) - length A) with (length (M ++ [t]))
    by (rewrite app_length; cbn [length]; lia).
  replace (Nat.max (length A) (S (length A + length M))) with (length (A ++ M ++ [t]))
    by (rewrite !app_length; cbn [length]; lia).
  replace (A ++ M ++ t :: R) with ((A ++ M ++ [t]) ++ R)
    by (rewrite <- !app_assoc; reflexivity).
  rewrite skipn_length_app.
  replace (M ++ t :: R) with ((M ++ [t]) ++ R) by (rewrite <- app_assoc; reflexivity).
  rewrite firstn_length_app. reflexivity.
Qed.

(* ---- the flattened state ----------------------------------------------------------------------- *)
Lemma flat_push x st : flat (push_plain x st) = flat st ++ [x].
Proof. destruct st as [[|f s] out]; reflexivity. Qed.

Lemma flat_open t s out : flat ([t] :: s, out) = flat (s, out) ++ [t].
Proof. reflexivity. Qed.

Lemma flat_frame f s out : flat (f :: s, out) = flat (s, out) ++ rev f.
Proof. unfold flat. cbn [fst snd concat]. rewrite <- app_assoc, rev_app_distr. reflexivity. Qed.

Lemma opens_push x st :
  opens_of (fst (push_plain x st)) (snd (push_plain x st)) = opens_of (fst st) (snd st).
Proof. destruct st as [[|f s] out]; reflexivity. Qed.

(* ---- the simulation ---------------------------------------------------------------------------- *)
(* After the snapshot prefix of length idx, with specification state st:
     live  = flat st ++ (remaining snapshot)
     off   = idx - |flat st|
     opens = the live index of every open frame's opener, innermost first. *)
Lemma matching_loop_sim c : forall snap st idx off,
  idx = off + length (flat st) ->
  matching_loop c snap idx (flat st ++ snap) (opens_of (fst st) (snd st)) off
  = Ok (flat (fold_left (step c) snap st)).
Proof.
  induction snap as [|t snap IH]; intros st idx off Hidx; cbn [matching_loop fold_left].
  - rewrite app_nil_r. reflexivity.
  - assert (L : Nat.ltb idx off = false) by (apply Nat.ltb_ge; lia). rewrite L.
    assert (Hplain : matching_loop c snap (S idx) (flat st ++ t :: snap)
                       (opens_of (fst st) (snd st)) off
                     = Ok (flat (fold_left (step c) snap (push_plain t st)))).
    { replace (flat st ++ t :: snap) with (flat (push_plain t st) ++ snap)
        by (rewrite flat_push, <- app_assoc; reflexivity).
      rewrite <- (opens_push t st). apply IH. rewrite flat_push, app_length. cbn [length]. lia. }
    destruct (is_ws t) eqn:W.
    { replace (step c st t) with (push_plain t st) by (unfold step, kind_of; rewrite W; reflexivity).
      exact Hplain. }
    destruct (is_group t && negb (inst t c)) eqn:G.
    { replace (step c st t) with (push_plain t st)
        by (unfold step, kind_of; rewrite W, G; reflexivity).
      exact Hplain. }
    destruct (matches t (m_open c)) eqn:O.
    { replace (step c st t) with ([t] :: fst st, snd st)
        by (unfold step, kind_of; rewrite W, G, O; reflexivity).
      destruct st as [s out]. cbn [fst snd] in *.
      replace (flat (s, out) ++ t :: snap) with (flat ([t] :: s, out) ++ snap)
        by (rewrite flat_open, <- app_assoc; reflexivity).
      replace (idx - off) with (length (flat (s, out))) by lia.
      apply (IH ([t] :: s, out)). rewrite flat_open, app_length. cbn [length]. lia. }
    destruct (matches t (m_close c)) eqn:Cl.
    2:{ replace (step c st t) with (push_plain t st)
          by (unfold step, kind_of; rewrite W, G, O, Cl; reflexivity).
        exact Hplain. }
    destruct st as [[|f s] out].
    { replace (step c ([], out) t) with (push_plain t ([], out))
        by (unfold step, kind_of; rewrite W, G, O, Cl; reflexivity).
      exact Hplain. }
    replace (step c (f :: s, out) t) with (push_plain (mk_grp c (rev (t :: f))) (s, out))
      by (unfold step, kind_of; rewrite W, G, O, Cl; reflexivity).
    cbn [fst snd opens_of].
    rewrite flat_frame in Hidx. rewrite app_length in Hidx.
    replace (idx - off) with (length (flat (s, out)) + length (rev f)) by lia.
    rewrite flat_frame, <- app_assoc.
    rewrite group_tokens_exact. cbn [bind].
    set (g := mk_grp c (rev (t :: f))).
    change (mk_grp c (rev f ++ [t])) with g.
    replace (flat (s, out) ++ g :: snap) with (flat (push_plain g (s, out)) ++ snap)
      by (rewrite flat_push, <- app_assoc; reflexivity).
    change (opens_of s out) with (opens_of (fst (s, out)) (snd (s, out))).
    rewrite <- (opens_push g (s, out)).
    apply IH. rewrite flat_push, app_length. cbn [length]. lia.
Qed.

(* MAIN 1: the loop, started as _group_matching starts it, returns the textbook result; in
   particular neither Err Stuck (idx < tidx_offset) nor IndexError (group_tokens) is reachable. *)
Theorem matching_loop_spec : forall c l,
  matching_loop c l 0 l [] 0 = Ok (stack_match c l).
Proof. intros c l. exact (matching_loop_sim c l ([], []) 0 0 eq_refl). Qed.
Print Assumptions matching_loop_spec.

Lemma mapM_map {A B} (f : A -> res B) (g : A -> B) (l : list A) :
  Forall (fun k => f k = Ok (g k)) l -> mapM f l = Ok (map g l).
Proof.
  induction 1 as [|k l Hk _ IH]; cbn [mapM map]; [reflexivity|].
  rewrite Hk, IH. reflexivity.
Qed.

(* MAIN 2: the whole pass (with the recursion into groups of other classes) is total and equals
   the specification *)
Theorem group_matching_spec : forall c n, group_matching c n = Ok (stack_match_rec c n).
Proof.
  intros c. induction n as [ty v | c0 v kids IH] using node_ind'; cbn [group_matching stack_match_rec].
  - reflexivity.
  - rewrite (mapM_map _ (fun k => if is_group k && negb (inst k c) then stack_match_rec c k else k)).
    + cbn [bind]. rewrite matching_loop_spec. reflexivity.
    + eapply Forall_impl; [|exact IH]. intros k Hk. cbv beta.
      destruct (is_group k && negb (inst k c)); [exact Hk | reflexivity].
Qed.
Print Assumptions group_matching_spec.

Corollary group_matching_total : forall c n, exists n', group_matching c n = Ok n'.
Proof. intros c n. eexists. apply group_matching_spec. Qed.

(* ---- kinds ------------------------------------------------------------------------------------- *)
Lemma matches_grp c0 v kids ps : matches (Grp c0 v kids) ps = false.
Proof. unfold matches. induction ps as [|p ps IH]; [reflexivity | exact IH]. Qed.

(* a group of the class being matched is inert: neither entered, nor opener, nor closer *)
Lemma kind_of_grp_same c v kids : kind_of c (Grp c v kids) = KPlain.
Proof.
  unfold kind_of. cbn [is_ws tt_in is_group inst].
  replace (cls_eqb c c) with true by (symmetry; apply cls_eqb_eq; reflexivity).
  cbn [orb negb andb]. rewrite !matches_grp. reflexivity.
Qed.

Lemma kind_of_group c c0 v kids : kind_of c (Grp c0 v kids) = KPlain.
Proof.
  unfold kind_of. cbn [is_ws tt_in].
  destruct (is_group (Grp c0 v kids) && negb (inst (Grp c0 v kids) c)); [reflexivity|].
  rewrite !matches_grp. reflexivity.
Qed.

Lemma kind_open_matches c t : kind_of c t = KOpen -> matches t (m_open c) = true.
Proof.
  unfold kind_of. destruct (is_ws t); [discriminate|].
  destruct (is_group t && negb (inst t c)); [discriminate|].
  destruct (matches t (m_open c)); [reflexivity|].
  destruct (matches t (m_close c)); discriminate.
Qed.

Lemma kind_close_matches c t : kind_of c t = KClose -> matches t (m_close c) = true.
Proof.
  unfold kind_of. destruct (is_ws t); [discriminate|].
  destruct (is_group t && negb (inst t c)); [discriminate|].
  destruct (matches t (m_open c)); [discriminate|].
  destruct (matches t (m_close c)); [reflexivity | discriminate].
Qed.

Lemma kind_open_leaf c t : kind_of c t = KOpen -> is_group t = false.
Proof. destruct t as [ty v | c0 v kids]; [reflexivity | rewrite kind_of_group; discriminate]. Qed.

Lemma kind_close_leaf c t : kind_of c t = KClose -> is_group t = false.
Proof. destruct t as [ty v | c0 v kids]; [reflexivity | rewrite kind_of_group; discriminate]. Qed.

(* ---- shape of the result ----------------------------------------------------------------------- *)
(* the nodes of the result, over the original siblings P: an original sibling, or a new group
   opener :: mid ++ [closer] where opener and closer are original siblings of the right kind and
   mid consists of result nodes none of which is an opener or a closer (its brackets are all
   matched already). *)
Inductive Built (c : cls) (P : node -> Prop) : node -> Prop :=
| Built_orig x : P x -> Built c P x
| Built_pair o mid cl :
    P o -> P cl -> kind_of c o = KOpen -> kind_of c cl = KClose ->
    Forall (Built c P) mid -> Forall (fun x => kind_of c x = KPlain) mid ->
    Built c P (mk_grp c (o :: mid ++ [cl])).

Definition frame_ok (c : cls) (P : node -> Prop) (f : list node) : Prop :=
  exists o mid, rev f = o :: mid /\ P o /\ kind_of c o = KOpen /\
                Forall (Built c P) mid /\ Forall (fun x => kind_of c x = KPlain) mid.

Definition st_ok (c : cls) (P : node -> Prop) (st : mstate) : Prop :=
  Forall (frame_ok c P) (fst st) /\ Forall (Built c P) (snd st) /\
  Forall (fun x => kind_of c x <> KOpen) (snd st).

Lemma push_plain_ok c (P : node -> Prop) x st :
  Built c P x -> kind_of c x = KPlain -> st_ok c P st -> st_ok c P (push_plain x st).
Proof.
  intros Hb Hk (Hs & Ho & Hn). destruct st as [[|f s] out]; cbn [push_plain fst snd] in *.
  - split; [constructor|]. split; constructor; auto. rewrite Hk. discriminate.
  - inversion Hs as [|? ? Hf Hs']; subst.
    split; [|split; assumption]. constructor; [|assumption].
    destruct Hf as (o & mid & E & Po & Ko & Bm & Km).
    exists o, (mid ++ [x]). cbn [rev]. rewrite E. split; [reflexivity|].
    repeat split; try assumption; apply Forall_app; split; auto.
Qed.

Lemma step_ok c (P : node -> Prop) st t : P t -> st_ok c P st -> st_ok c P (step c st t).
Proof.
  intros Pt Hst. unfold step. destruct (kind_of c t) eqn:K.
  - apply push_plain_ok; [apply Built_orig, Pt | exact K | exact Hst].
  - destruct Hst as (Hs & Ho & Hn). split; [|split; assumption]. cbn [fst].
    constructor; [|assumption]. exists t, []. cbn [rev app]. repeat split; auto.
  - destruct st as [[|f s] out].
    + destruct Hst as (Hs & Ho & Hn). cbn [push_plain fst snd] in *.
      split; [constructor|]. split; constructor; auto; [apply Built_orig, Pt|].
      rewrite K. discriminate.
    + destruct Hst as (Hs & Ho & Hn). cbn [fst snd] in *.
      inversion Hs as [|? ? Hf Hs']; subst.
      destruct Hf as (o & mid & E & Po & Ko & Bm & Km).
      cbn [rev]. rewrite E. cbn [app].
      apply push_plain_ok.
      * apply Built_pair; assumption.
      * apply kind_of_grp_same.
      * split; [|split]; assumption.
Qed.

Lemma fold_step_ok c (P : node -> Prop) : forall l st, Forall P l -> st_ok c P st -> st_ok c P (fold_left (step c) l st).
Proof.
  induction l as [|t l IH]; intros st Hl Hst; cbn [fold_left]; [exact Hst|].
  inversion Hl as [|? ? Pt Hl']; subst. apply IH; [assumption|]. apply step_ok; assumption.
Qed.

Lemma st_ok_init c (P : node -> Prop) : st_ok c P ([], []).
Proof. split; [|split]; constructor. Qed.

Lemma frame_ok_built c (P : node -> Prop) f : frame_ok c P f -> Forall (Built c P) f.
Proof.
  intros (o & mid & E & Po & Ko & Bm & Km).
  rewrite <- (rev_involutive f), E. apply Forall_rev. constructor; [apply Built_orig, Po | exact Bm].
Qed.

Lemma frame_ok_noclose c (P : node -> Prop) f : frame_ok c P f -> Forall (fun x => kind_of c x <> KClose) (rev f).
Proof.
  intros (o & mid & E & Po & Ko & Bm & Km). rewrite E.
  constructor; [rewrite Ko; discriminate|].
  eapply Forall_impl; [|exact Km]. intros x Hx. cbv beta in Hx. rewrite Hx. discriminate.
Qed.

Lemma st_ok_flat_built c (P : node -> Prop) st : st_ok c P st -> Forall (Built c P) (flat st).
Proof.
  intros (Hs & Ho & Hn). unfold flat. apply Forall_rev. apply Forall_app. split; [|exact Ho].
  induction Hs as [|f s Hf _ IH]; cbn [concat]; [constructor|].
  apply Forall_app. split; [eapply frame_ok_built; eauto | exact IH].
Qed.

(* MAIN 3a: every sibling of the result is an original sibling or a well-formed new group *)
Theorem stack_match_built : forall c l,
  Forall (Built c (fun x => In x l)) (stack_match c l).
Proof.
  intros c l. apply st_ok_flat_built. apply fold_step_ok; [|apply st_ok_init].
  apply Forall_forall. auto.
Qed.
Print Assumptions stack_match_built.

(* MAIN 3b: a sibling of the result that was not there before is a group of class c whose first
   child is an (original) opener, whose last child is an (original) closer, and no child in
   between is an opener or a closer *)
Theorem stack_match_shape : forall c l g,
  In g (stack_match c l) -> ~ In g l ->
  exists o mid cl,
    g = mk_grp c (o :: mid ++ [cl]) /\ In o l /\ In cl l /\
    matches o (m_open c) = true /\ matches cl (m_close c) = true /\
    is_group o = false /\ is_group cl = false /\
    Forall (fun x => kind_of c x = KPlain) mid /\
    Forall (Built c (fun x => In x l)) mid.
Proof.
  intros c l g Hin Hnot.
  pose proof (stack_match_built c l) as HB. rewrite Forall_forall in HB. specialize (HB g Hin).
  inversion HB as [x Hx | o mid cl Po Pcl Ko Kcl Bm Km]; subst; [contradiction|].
  exists o, mid, cl. repeat split; auto.
  - apply kind_open_matches, Ko.
  - apply kind_close_matches, Kcl.
  - eapply kind_open_leaf, Ko.
  - eapply kind_close_leaf, Kcl.
Qed.
Print Assumptions stack_match_shape.

(* ---- maximality: what stays ungrouped is closers* openers* (with plain tokens anywhere) --------- *)
Theorem stack_match_residual : forall c l,
  exists a b, stack_match c l = a ++ b /\
              Forall (fun x => kind_of c x <> KOpen) a /\
              Forall (fun x => kind_of c x <> KClose) b.
Proof.
  intros c l.
  assert (H : st_ok c (fun x => In x l) (fold_left (step c) l ([], []))).
  { apply fold_step_ok; [apply Forall_forall; auto | apply st_ok_init]. }
  unfold stack_match. destruct (fold_left (step c) l ([], [])) as [s out].
  destruct H as (Hs & Ho & Hn). cbn [fst snd] in *.
  exists (rev out), (rev (concat s)). split; [unfold flat; cbn [fst snd]; apply rev_app_distr|].
  split; [apply Forall_rev, Hn|].
  clear Ho Hn. induction Hs as [|f s Hf _ IH]; cbn [concat]; [constructor|].
  rewrite rev_app_distr. apply Forall_app. split; [exact IH | eapply frame_ok_noclose; eauto].
Qed.
Print Assumptions stack_match_residual.

Lemma fold_step_noopen c : forall a out,
  Forall (fun x => kind_of c x <> KOpen) a ->
  fold_left (step c) a ([], out) = ([], rev a ++ out).
Proof.
  induction a as [|t a IH]; intros out Ha; cbn [fold_left rev app]; [reflexivity|].
  inversion Ha as [|? ? Ht Ha']; subst.
  replace (step c ([], out) t) with (([] : list (list node)), t :: out)
    by (unfold step; destruct (kind_of c t); [reflexivity | contradiction | reflexivity]).
  rewrite IH by assumption. rewrite <- app_assoc. reflexivity.
Qed.

Lemma fold_step_noclose c : forall b st,
  Forall (fun x => kind_of c x <> KClose) b ->
  flat (fold_left (step c) b st) = flat st ++ b.
Proof.
  induction b as [|t b IH]; intros st Hb; cbn [fold_left]; [rewrite app_nil_r; reflexivity|].
  inversion Hb as [|? ? Ht Hb']; subst. rewrite IH by assumption.
  replace (flat (step c st t)) with (flat st ++ [t]); [rewrite <- app_assoc; reflexivity|].
  unfold step. destruct (kind_of c t); [rewrite flat_push; reflexivity | | contradiction].
  destruct st as [s out]. reflexivity.
Qed.

(* the pass is idempotent: nothing is left to match *)
Theorem stack_match_idem : forall c l, stack_match c (stack_match c l) = stack_match c l.
Proof.
  intros c l. destruct (stack_match_residual c l) as (a & b & E & Ha & Hb). rewrite E.
  unfold stack_match at 1. rewrite fold_left_app, fold_step_noopen by assumption.
  rewrite fold_step_noclose by assumption. unfold flat at 1. cbn [fst snd concat app].
  rewrite app_nil_r, rev_involutive. reflexivity.
Qed.
Print Assumptions stack_match_idem.

(* the recursive pass is idempotent too *)
Lemma stack_match_rec_cond c k :
  is_group (stack_match_rec c k) && negb (inst (stack_match_rec c k) c)
  = is_group k && negb (inst k c).
Proof. destruct k as [ty v | c0 v kids]; reflexivity. Qed.

Theorem stack_match_rec_idem : forall c n,
  stack_match_rec c (stack_match_rec c n) = stack_match_rec c n.
Proof.
  intros c. induction n as [ty v | c0 v kids IH] using node_ind'; cbn [stack_match_rec]; [reflexivity|].
  set (f := fun k => if is_group k && negb (inst k c) then stack_match_rec c k else k).
  f_equal.
  assert (Hf : forall x, In x (map f kids) -> f x = x).
  { intros x Hx. apply in_map_iff in Hx. destruct Hx as (k & <- & Hk).
    rewrite Forall_forall in IH. specialize (IH k Hk). unfold f.
    destruct (is_group k && negb (inst k c)) eqn:G; [|rewrite G; reflexivity].
    rewrite stack_match_rec_cond, G. exact IH. }
  assert (Hid : map f (stack_match c (map f kids)) = stack_match c (map f kids)).
  { pose proof (stack_match_built c (map f kids)) as HB.
    induction HB as [|x r Hx _ IHr]; cbn [map]; [reflexivity|]. rewrite IHr. f_equal.
    inversion Hx as [y Hy | o mid cl Po Pcl Ko Kcl Bm Km]; subst; [apply Hf, Hy|].
    unfold f, mk_grp. cbn [is_group inst].
    replace (cls_eqb c c) with true by (symmetry; apply cls_eqb_eq; reflexivity). reflexivity. }
  rewrite Hid. apply stack_match_idem.
Qed.
Print Assumptions stack_match_rec_idem.

Corollary group_matching_idem : forall c n n1,
  group_matching c n = Ok n1 -> group_matching c n1 = Ok n1.
Proof.
  intros c n n1 H. rewrite group_matching_spec in H. injection H as <-.
  rewrite group_matching_spec, stack_match_rec_idem. reflexivity.
Qed.

(* ---- leaves ------------------------------------------------------------------------------------- *)
Lemma step_leaves c st t : leaves_list (flat (step c st t)) = leaves_list (flat st) ++ leaves t.
Proof.
  assert (Hp : forall x s, leaves_list (flat (push_plain x s)) = leaves_list (flat s) ++ leaves x).
  { intros x s. rewrite flat_push, leaves_list_app. unfold leaves_list at 2. cbn [flat_map].
    rewrite app_nil_r. reflexivity. }
  unfold step. destruct (kind_of c t).
  - apply Hp.
  - destruct st as [s out]. cbn [fst snd]. rewrite flat_open, leaves_list_app.
    unfold leaves_list at 2. cbn [flat_map]. rewrite app_nil_r. reflexivity.
  - destruct st as [[|f s] out]; [apply Hp|].
    rewrite Hp, flat_frame, leaves_list_app, leaves_mk_grp. cbn [rev].
    rewrite leaves_list_app, <- app_assoc. unfold leaves_list at 3. cbn [flat_map].
    rewrite app_nil_r. reflexivity.
Qed.

Lemma fold_step_leaves c : forall l st,
  leaves_list (flat (fold_left (step c) l st)) = leaves_list (flat st) ++ leaves_list l.
Proof.
  induction l as [|t l IH]; intros st; cbn [fold_left].
  - unfold leaves_list at 3. cbn [flat_map]. rewrite app_nil_r. reflexivity.
  - rewrite IH, step_leaves, leaves_list_cons, <- app_assoc. reflexivity.
Qed.

(* MAIN 3c: the leaf sequence (types and values) is untouched *)
Theorem stack_match_leaves : forall c l, leaves_list (stack_match c l) = leaves_list l.
Proof. intros c l. unfold stack_match. rewrite fold_step_leaves. reflexivity. Qed.
Print Assumptions stack_match_leaves.

Theorem stack_match_rec_leaves : forall c n, leaves (stack_match_rec c n) = leaves n.
Proof.
  intros c. induction n as [ty v | c0 v kids IH] using node_ind'; cbn [stack_match_rec]; [reflexivity|].
  rewrite !leaves_grp, stack_match_leaves. unfold leaves_list.
  induction IH as [|k kids Hk _ IHk]; cbn [map flat_map]; [reflexivity|].
  rewrite IHk. f_equal. destruct (is_group k && negb (inst k c)); [exact Hk | reflexivity].
Qed.
Print Assumptions stack_match_rec_leaves.

Corollary stack_match_text : forall c l, text_of_list (stack_match c l) = text_of_list l.
Proof. intros c l. rewrite !text_of_list_leaves, stack_match_leaves. reflexivity. Qed.

(* ---- examples ------------------------------------------------------------------------------------ *)
(*  ( a ( b ) c ) ) (    : nested groups, an unmatched closer, an unmatched opener *)
Example stack_match_balanced_example1 :
  stack_match CParenthesis [tk_lp; tk_a; tk_lp; tk_b; tk_rp; tk_c; tk_rp; tk_rp; tk_lp]
  = [paren [tk_lp; tk_a; paren [tk_lp; tk_b; tk_rp]; tk_c; tk_rp]; tk_rp; tk_lp].
Proof. vm_compute. reflexivity. Qed.

(* the model's loop on the same input *)
Example matching_loop_example1 :
  let l := [tk_lp; tk_a; tk_lp; tk_b; tk_rp; tk_c; tk_rp; tk_rp; tk_lp] in
  matching_loop CParenthesis l 0 l [] 0
  = Ok [paren [tk_lp; tk_a; paren [tk_lp; tk_b; tk_rp]; tk_c; tk_rp]; tk_rp; tk_lp].
Proof. vm_compute. reflexivity. Qed.

(*  ) ( ( a )   : closer first stays; the outer opener stays open, the inner pair is grouped *)
Example stack_match_balanced_example2 :
  stack_match CParenthesis [tk_rp; tk_lp; tk_ws; tk_lp; tk_a; tk_rp]
  = [tk_rp; tk_lp; tk_ws; paren [tk_lp; tk_a; tk_rp]].
Proof. vm_compute. reflexivity. Qed.

(*  ( ) ( )  : siblings; empty parentheses *)
Example stack_match_balanced_example3 :
  stack_match CParenthesis [tk_lp; tk_rp; tk_ws; tk_lp; tk_rp]
  = [paren [tk_lp; tk_rp]; tk_ws; paren [tk_lp; tk_rp]].
Proof. vm_compute. reflexivity. Qed.

(* "inside, never across": square brackets are matched inside a parenthesis group, and an opener
   outside never pairs with a closer inside a group.   [ ( [ a ] ] )  with the parenthesis already
   grouped *)
Definition tk_lb : node := Leaf T_Punctuation s_lbrack.
Definition tk_rb : node := Leaf T_Punctuation s_rbrack.
Example stack_match_rec_example :
  stack_match_rec CSquareBrackets
    (mk_grp CStatement [tk_lb; paren [tk_lp; tk_lb; tk_a; tk_rb; tk_rb; tk_rp]])
  = Grp CStatement [91; 40; 91; 97; 93; 93; 41]%N
      [tk_lb; paren [tk_lp; mk_grp CSquareBrackets [tk_lb; tk_a; tk_rb]; tk_rb; tk_rp]].
Proof. vm_compute. reflexivity. Qed.

Example group_matching_example :
  group_matching CSquareBrackets
    (mk_grp CStatement [tk_lb; paren [tk_lp; tk_lb; tk_a; tk_rb; tk_rb; tk_rp]])
  = Ok (Grp CStatement [91; 40; 91; 97; 93; 93; 41]%N
      [tk_lb; paren [tk_lp; mk_grp CSquareBrackets [tk_lb; tk_a; tk_rb]; tk_rb; tk_rp]]).
Proof. vm_compute. reflexivity. Qed.

(* the hypotheses of stack_match_shape are satisfiable: the outer group of example 1 is new *)
Example stack_match_shape_example :
  let l := [tk_lp; tk_a; tk_lp; tk_b; tk_rp; tk_c; tk_rp; tk_rp; tk_lp] in
  let g := paren [tk_lp; tk_a; paren [tk_lp; tk_b; tk_rp]; tk_c; tk_rp] in
  In g (stack_match CParenthesis l) /\ ~ In g l.
Proof.
  split; [left; vm_compute; reflexivity|].
  intros H. cbn [In] in H.
  repeat (destruct H as [H|H]; [discriminate H|]). exact H.
Qed.
