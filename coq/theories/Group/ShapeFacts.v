(* _group_matching (passes 2-7) keeps (NE) and the bracket shape: the groups it creates are
   opener .. closer, and the brackets of the existing Parenthesis / SquareBrackets lists are plain
   tokens for every OTHER class, so they stay first and last. *)
From SqlModel Require Import Base PyStr Node Inv Passes GroupFacts MatchSpec MatchFacts TotalDefs TotalBase.

(* ---- a usable elimination principle for MatchFacts.Built ------------------------------------------ *)
Lemma Built_elim c (P X : node -> Prop) :
  (forall x, P x -> X x) ->
  (forall o mid cl, kind_of c o = KOpen -> kind_of c cl = KClose -> X o -> X cl -> Forall X mid ->
                    X (mk_grp c (o :: mid ++ [cl]))) ->
  forall x, Built c P x -> X x.
Proof.
  intros HP HG. fix IH 2. intros x H.
  destruct H as [x Hx | o mid cl Po Pcl Ko Kc Bm Km].
  - apply HP, Hx.
  - apply HG; auto.
    clear Km. revert mid Bm.
    fix go 2. intros mid Bm. destruct Bm as [|y mid' Hy Hr].
    + constructor.
    + constructor; [apply IH, Hy | apply go, Hr].
Qed.

Lemma stack_match_Forall c (X : node -> Prop) l :
  Forall X l ->
  (forall o mid cl, kind_of c o = KOpen -> kind_of c cl = KClose -> X o -> X cl -> Forall X mid ->
                    X (mk_grp c (o :: mid ++ [cl]))) ->
  Forall X (stack_match c l).
Proof.
  intros Hl HG. pose proof (stack_match_built c l) as HB.
  eapply Forall_impl; [|exact HB]. intros x Hx.
  eapply Built_elim; [| exact HG | exact Hx].
  intros y Hy. rewrite Forall_forall in Hl. apply Hl, Hy.
Qed.

(* ---- the result is not empty ----------------------------------------------------------------------- *)
Lemma flat_step_nonnil c st t : flat (step c st t) <> [].
Proof.
  assert (Hp : forall x s, flat (push_plain x s) <> []).
  { intros x s. rewrite flat_push. intros H. apply app_eq_nil in H. destruct H; discriminate. }
  unfold step. destruct (kind_of c t).
  - apply Hp.
  - destruct st as [s out]. cbn [fst snd]. rewrite flat_open. intros H. apply app_eq_nil in H.
    destruct H; discriminate.
  - destruct st as [[|f s] out]; apply Hp.
Qed.

Lemma stack_match_nonnil c l : stack_match c l = [] -> l = [].
Proof.
  destruct (rev_cons_case l) as [-> | (m & z & ->)]; [reflexivity|].
  unfold stack_match. rewrite fold_left_app. cbn [fold_left]. intros H.
  apply flat_step_nonnil in H. contradiction.
Qed.

(* ---- plain tokens at both ends stay at both ends ---------------------------------------------------- *)
Lemma step_out_prefix c st t : exists pre, snd (step c st t) = pre ++ snd st.
Proof.
  assert (Hp : forall x s, exists pre, snd (push_plain x s) = pre ++ snd s).
  { intros x [[|f s] out]; cbn [push_plain snd]; [exists [x] | exists []]; reflexivity. }
  unfold step. destruct (kind_of c t).
  - apply Hp.
  - exists []. reflexivity.
  - destruct st as [[|f s] out]; [apply Hp|].
    destruct (Hp (mk_grp c (rev (t :: f))) (s, out)) as (pre & E). exists pre. exact E.
Qed.

Lemma fold_out_prefix c : forall l st, exists pre, snd (fold_left (step c) l st) = pre ++ snd st.
Proof.
  induction l as [|t l IH]; intros st; cbn [fold_left]; [exists []; reflexivity|].
  destruct (IH (step c st t)) as (pre & E). destruct (step_out_prefix c st t) as (pre' & E').
  exists (pre ++ pre'). rewrite E, E', app_assoc. reflexivity.
Qed.

Lemma stack_match_head c o rest : kind_of c o = KPlain ->
  exists Y, stack_match c (o :: rest) = o :: Y.
Proof.
  intros K. unfold stack_match. cbn [fold_left].
  replace (step c ([], []) o) with (([] : list (list node)), [o]) by (unfold step; rewrite K; reflexivity).
  destruct (fold_out_prefix c rest ([], [o])) as (pre & E). cbn [snd] in E.
  unfold flat. rewrite E, app_assoc, rev_app_distr. cbn [rev app]. eauto.
Qed.

Lemma stack_match_ends c o mid cl : kind_of c o = KPlain -> kind_of c cl = KPlain ->
  exists mid', stack_match c (o :: mid ++ [cl]) = o :: mid' ++ [cl].
Proof.
  intros Ko Kc. destruct (stack_match_head c o mid Ko) as (Y & EY).
  exists Y. unfold stack_match in *.
  change (o :: mid ++ [cl]) with ((o :: mid) ++ [cl]). rewrite fold_left_app.
  set (st' := fold_left (step c) (o :: mid) ([], [])) in *. cbn [fold_left].
  replace (step c st' cl) with (push_plain cl st') by (unfold step; rewrite Kc; reflexivity).
  rewrite flat_push, EY. reflexivity.
Qed.

(* the brackets of one bracket class are plain tokens for every other class *)
Lemma leaf_punct_value ty v s :
  matches (Leaf ty v) [(T_Punctuation, Some [s])] = true -> ty = T_Punctuation /\ v = s.
Proof.
  cbn [matches existsb match_pat fst snd]. rewrite orb_false_r. intros H.
  apply andb_true_iff in H. destruct H as [H1 H2]. apply ttype_eqb_eq in H1. subst ty.
  cbn [tin T_Punctuation T_Keyword tcomp_eqb andb existsb] in H2. rewrite orb_false_r in H2.
  apply text_eqb_eq in H2. auto.
Qed.

Lemma brk_end_plain c0 c o : is_brk c0 = true -> cls_eqb c0 c = false ->
  matches o (m_open c0) = true \/ matches o (m_close c0) = true -> kind_of c o = KPlain.
Proof.
  intros H0 Hne H. destruct o as [ty v | cg vg kids]; [|apply kind_of_group].
  destruct c0; try discriminate H0; cbn [m_open m_close] in H;
    (destruct H as [H | H]; apply leaf_punct_value in H; destruct H as [-> ->];
     destruct c; try discriminate Hne; reflexivity).
Qed.

Lemma stack_match_shape_if c0 c l : (is_brk c0 = true -> cls_eqb c0 c = false) ->
  shape_if c0 l = true -> shape_if c0 (stack_match c l) = true.
Proof.
  intros Hne. unfold shape_if. destruct (is_brk c0) eqn:B; [|auto].
  specialize (Hne eq_refl). intros H. apply shape_iff in H.
  destruct H as (o & mid & cl & -> & Ho & Hc).
  destruct (stack_match_ends c o mid cl) as (mid' & ->).
  - eapply brk_end_plain; eauto.
  - eapply brk_end_plain; eauto.
  - apply shape_iff. eauto 7.
Qed.

(* ---- the whole pass ------------------------------------------------------------------------------ *)
Lemma map_kid_rel (f : node -> node) kids :
  Forall (fun k => kid_rel k (f k)) kids -> Forall2 kid_rel kids (map f kids).
Proof. induction 1; cbn [map]; constructor; auto. Qed.

Theorem stack_match_rec_kid_rel c : forall n, kid_rel n (stack_match_rec c n).
Proof.
  induction n as [ty v | c0 v kids IH] using node_ind'; cbn [stack_match_rec].
  - apply kid_rel_refl.
  - set (f := fun k => if is_group k && negb (inst k c) then stack_match_rec c k else k).
    assert (HR : Forall2 kid_rel kids (map f kids)).
    { apply map_kid_rel. eapply Forall_impl; [|exact IH]. intros k Hk. unfold f.
      destruct (is_group k && negb (inst k c)); [exact Hk | apply kid_rel_refl]. }
    assert (HN : NEL kids -> NEL (stack_match c (map f kids))).
    { intros Hk2. apply stack_match_Forall; [eapply kid_rel_NEL; eauto|].
      intros o mid cl _ _ Xo Xcl Xm. apply ne_mk_grp; [discriminate|].
      constructor; [exact Xo|]. apply Forall_app. split; [exact Xm | constructor; auto]. }
    split; [discriminate|]. split; [|split].
    + intros c1 v1 k1 E. injection E as <- <- <-. eauto.
    + intros Hne. apply ne_grp in Hne. destruct Hne as [Hk1 Hk2]. apply ne_grp. split.
      * intros Hn. apply stack_match_nonnil in Hn. apply (kid_rel_nil _ _ HR) in Hn. contradiction.
      * apply HN, Hk2.
    + cbn [nkids]. exact HN.
Qed.

Lemma inst_false_cls c0 v kids c : inst (Grp c0 v kids) c = false -> cls_eqb c0 c = false.
Proof. cbn [inst]. intros H. apply orb_false_iff in H. tauto. Qed.

Theorem stack_match_rec_bok c : forall n,
  bok n -> (forall c0 v kids, n = Grp c0 v kids -> is_brk c0 = true -> cls_eqb c0 c = false) ->
  bok (stack_match_rec c n).
Proof.
  induction n as [ty v | c0 v kids IH] using node_ind'; intros Hb Hroot; cbn [stack_match_rec].
  - exact Hb.
  - apply brk_ok_grp in Hb. destruct Hb as [Hb Hs].
    set (f := fun k => if is_group k && negb (inst k c) then stack_match_rec c k else k).
    assert (HR : Forall2 kid_rel kids (map f kids)).
    { apply map_kid_rel. apply Forall_forall. intros k _. unfold f.
      destruct (is_group k && negb (inst k c)); [apply stack_match_rec_kid_rel | apply kid_rel_refl]. }
    assert (HB : Forall bok (map f kids)).
    { rewrite Forall_forall in IH, Hb. apply Forall_forall. intros k' Hk'.
      apply in_map_iff in Hk'. destruct Hk' as (k & <- & Hk). unfold f.
      destruct (is_group k && negb (inst k c)) eqn:G; [|apply Hb, Hk].
      apply IH; [exact Hk | apply Hb, Hk|].
      intros ck vk kk -> _. apply andb_true_iff in G. destruct G as [_ G].
      apply negb_true_iff in G. eapply inst_false_cls; eauto. }
    apply brk_ok_grp. split.
    + apply stack_match_Forall; [exact HB|].
      intros o mid cl Ko Kc Xo Xcl Xm. apply brk_ok_grp. split.
      * constructor; [exact Xo|]. apply Forall_app. split; [exact Xm | constructor; auto].
      * unfold shape_if. destruct (is_brk c); [|reflexivity]. apply shape_iff.
        exists o, mid, cl. split; [reflexivity|].
        split; [apply kind_open_matches, Ko | apply kind_close_matches, Kc].
    + apply stack_match_shape_if; [eapply Hroot; reflexivity|].
      eapply shape_if_kid_rel; eauto.
Qed.

Lemma kid_rel_top n n' : kid_rel n n' -> top_ok n = true -> top_ok n' = true.
Proof.
  intros (H1 & H2 & _). destruct n as [ty v | c v kids].
  - rewrite (H1 eq_refl). auto.
  - destruct (H2 c v kids eq_refl) as (kids' & ->). auto.
Qed.

Theorem group_matching_total' c n : exists n', group_matching c n = Ok n' /\ kid_rel n n'.
Proof. exists (stack_match_rec c n). split; [apply group_matching_spec | apply stack_match_rec_kid_rel]. Qed.

Theorem group_matching_bok c n : bok n -> top_ok n = true ->
  exists n', group_matching c n = Ok n' /\ kid_rel n n' /\ bok n'.
Proof.
  intros Hb Ht. exists (stack_match_rec c n). split; [apply group_matching_spec|].
  split; [apply stack_match_rec_kid_rel|]. apply stack_match_rec_bok; [exact Hb|].
  intros c0 v kids -> B. cbn [top_ok] in Ht. rewrite B in Ht. discriminate.
Qed.

Print Assumptions group_matching_total'.
Print Assumptions group_matching_bok.
