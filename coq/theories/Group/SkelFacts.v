(* C11 at the grouping level: the bracket matcher (_group_matching, all six instances) commutes with
   taking shapes, so two trees of equal shape are grouped to trees of equal shape -- provided the
   annotation determines how the pass classifies a leaf.  Proofs for Skel.v. *)
From SqlModel Require Import Base PyStr Node Inv Passes MatchSpec MatchFacts SplitDefs Skeleton SkeletonFacts Skel.
From SqlModel Require Import Splitter.
From SqlModel.Gen Require Import CaseTabs SplitTab.

Section Facts.
Context {A : Type}.
Variable kap : ttype -> text -> A.
Variable c : cls.
Variable kd : A -> kind.
(* the annotation determines the classification of significant leaves *)
Hypothesis Hk : forall ty v, is_ws (Leaf ty v) = false -> kind_of c (Leaf ty v) = kd (kap ty v).

Notation ashape := (ashape kap).
Notation ashapes := (ashapes kap).
Notation astep := (astep c kd).
Notation amatch := (amatch c kd).
Notation amatch_rec := (amatch_rec c kd).

Lemma ashapes_app l l' : ashapes (l ++ l') = ashapes l ++ ashapes l'.
Proof. unfold Skel.ashapes. rewrite map_app, concat_app. reflexivity. Qed.

Lemma ashapes_cons t l : ashapes (t :: l) = (if is_ws t then [] else [ashape t]) ++ ashapes l.
Proof. reflexivity. Qed.

Lemma ashapes_rev l : ashapes (rev l) = rev (ashapes l).
Proof.
  induction l as [|t l IH]; [reflexivity|]. cbn [rev]. rewrite ashapes_app, IH, !ashapes_cons.
  destruct (is_ws t); cbn [app]; [rewrite app_nil_r; reflexivity|].
  change (ashape t :: Skel.ashapes kap l) with ([ashape t] ++ Skel.ashapes kap l).
  rewrite rev_app_distr. reflexivity.
Qed.

Lemma ashapes_concat ll : ashapes (concat ll) = concat (map ashapes ll).
Proof.
  induction ll as [|l ll IH]; [reflexivity|]. cbn [concat map]. rewrite ashapes_app, IH. reflexivity.
Qed.

Lemma ashape_grp c0 v kids : ashape (Grp c0 v kids) = AGrp c0 (ashapes kids).
Proof. reflexivity. Qed.

Lemma akind_ashape t : is_ws t = false -> akind kd (ashape t) = kind_of c t.
Proof.
  destruct t as [ty v | c0 v kids]; intros H.
  - cbn [Skel.ashape akind]. symmetry. apply Hk, H.
  - rewrite kind_of_group. reflexivity.
Qed.

Definition abs (st : mstate) : astate := (map ashapes (fst st), ashapes (snd st)).

Lemma abs_push_ws t st : is_ws t = true -> abs (push_plain t st) = abs st.
Proof.
  intros H. destruct st as [[|f s] out]; unfold abs; cbn [push_plain fst snd map];
    rewrite ashapes_cons, H; reflexivity.
Qed.

Lemma abs_push t st : is_ws t = false -> abs (push_plain t st) = apush (ashape t) (abs st).
Proof.
  intros H. destruct st as [[|f s] out]; unfold abs; cbn [push_plain fst snd map apush];
    rewrite ashapes_cons, H; reflexivity.
Qed.

Lemma is_ws_kind t : is_ws t = true -> kind_of c t = KPlain.
Proof. intros H. unfold kind_of. rewrite H. reflexivity. Qed.

Lemma step_abs st t :
  abs (step c st t) = if is_ws t then abs st else astep (abs st) (ashape t).
Proof.
  destruct (is_ws t) eqn:W.
  - unfold step. rewrite (is_ws_kind _ W). apply abs_push_ws, W.
  - unfold step, Skel.astep. rewrite (akind_ashape _ W).
    destruct (kind_of c t) eqn:K.
    + apply abs_push, W.
    + unfold abs. cbn [fst snd map]. rewrite ashapes_cons, W. reflexivity.
    + destruct st as [[|f s] out].
      * apply abs_push, W.
      * rewrite abs_push by reflexivity. unfold abs at 2. cbn [fst snd map].
        unfold mk_grp. rewrite ashape_grp, ashapes_rev, ashapes_cons, W. reflexivity.
Qed.

Lemma fold_abs : forall l st,
  abs (fold_left (step c) l st) = fold_left astep (ashapes l) (abs st).
Proof.
  induction l as [|t l IH]; intros st; [reflexivity|].
  cbn [fold_left]. rewrite IH, step_abs, ashapes_cons.
  destruct (is_ws t); [reflexivity|]. reflexivity.
Qed.

Lemma flat_abs st : ashapes (flat st) = aflat (abs st).
Proof.
  unfold flat, aflat, abs. cbn [fst snd]. rewrite ashapes_rev, ashapes_app, ashapes_concat. reflexivity.
Qed.

(* the matcher commutes with taking shapes *)
Theorem stack_match_shapes l : ashapes (stack_match c l) = amatch (ashapes l).
Proof. unfold stack_match, Skel.amatch. rewrite flat_abs, fold_abs. reflexivity. Qed.

Lemma enter_ashape k : is_group k && negb (inst k c) = a_enter c (ashape k).
Proof. destruct k as [ty v | c0 v kids]; reflexivity. Qed.

Theorem stack_match_rec_shape : forall n, ashape (stack_match_rec c n) = amatch_rec (ashape n).
Proof.
  induction n as [ty v | c0 v kids IH] using node_ind'; [reflexivity|].
  cbn [stack_match_rec]. rewrite !ashape_grp. cbn [Skel.amatch_rec]. f_equal.
  rewrite stack_match_shapes. f_equal.
  induction IH as [|k kids Hk0 _ IHk]; [reflexivity|].
  cbn [map]. rewrite !ashapes_cons, map_app, <- IHk. f_equal.
  destruct k as [ty1 v1 | c1 v1 ks].
  - cbn [is_group andb]. destruct (is_ws (Leaf ty1 v1)); reflexivity.
  - replace (is_ws (Grp c1 v1 ks)) with false by reflexivity.
    destruct (is_group (Grp c1 v1 ks) && negb (inst (Grp c1 v1 ks) c)) eqn:G.
    + cbn [map]. rewrite <- enter_ashape, G. cbn [stack_match_rec] in *.
      replace (is_ws (Grp c1 v1 _)) with false by reflexivity. rewrite Hk0. reflexivity.
    + cbn [map]. rewrite <- enter_ashape, G.
      replace (is_ws (Grp c1 v1 ks)) with false by reflexivity. reflexivity.
Qed.

(* C11 for _group_matching: trees of equal (annotated) shape are grouped to trees of equal shape *)
Theorem group_matching_shape_inv n n' :
  ashape n = ashape n' -> ashape (stack_match_rec c n) = ashape (stack_match_rec c n').
Proof. intros H. rewrite !stack_match_rec_shape, H. reflexivity. Qed.

Corollary group_matching_shape_inv' n n' m m' :
  ashape n = ashape n' -> group_matching c n = Ok m -> group_matching c n' = Ok m' -> ashape m = ashape m'.
Proof.
  intros H E E'. rewrite group_matching_spec in E, E'. injection E as <-. injection E' as <-.
  apply group_matching_shape_inv, H.
Qed.

End Facts.

(* ================================================================================================
   instances
   ================================================================================================ *)
(* (i) the guarded shape: leaves carry their classification by the pass *)
Theorem C11_group_matching_guarded c n n' :
  gshape c n = gshape c n' -> gshape c (stack_match_rec c n) = gshape c (stack_match_rec c n').
Proof. apply (group_matching_shape_inv (kap1 c) c snd). intros ty v _. reflexivity. Qed.

(* (ii) classes whose M_OPEN / M_CLOSE values contain no whitespace: the C11 shape alone suffices *)
Lemma eqb_collapse_self u w : has_space w = false -> text_eqb (collapse u) w = text_eqb u w.
Proof.
  intros Hw. unfold collapse. destruct (has_space u) eqn:Hu.
  - pose proof (collapse_space _ Hu) as Hc.
    assert (X : text_eqb (collapse_go space_set false u) w = false).
    { destruct (text_eqb (collapse_go space_set false u) w) eqn:E; [|reflexivity].
      apply text_eqb_eq in E. congruence. }
    assert (Y : text_eqb u w = false).
    { destruct (text_eqb u w) eqn:E; [|reflexivity]. apply text_eqb_eq in E. congruence. }
    congruence.
  - rewrite (collapse_nospace _ _ Hu). reflexivity.
Qed.

Lemma existsb_ext_in {X} (f g : X -> bool) l : (forall x, In x l -> f x = g x) -> existsb f l = existsb g l.
Proof.
  induction l as [|x l IH]; intros H; [reflexivity|]. cbn [existsb].
  rewrite (H x (or_introl eq_refl)), IH; [reflexivity|]. intros y Hy. apply H. right. exact Hy.
Qed.

Lemma key_match_spec ty v p : match_pat (Leaf ty v) p = key_match (kap0 ty v) p.
Proof.
  unfold match_pat, key_match, kap0, skey, is_kw_tok. cbn [fst snd]. f_equal.
  destruct (snd p) as [vals|]; [|reflexivity].
  destruct (tin ty T_Keyword); [|reflexivity].
  unfold knorm, kw_key, collapse, join_split.
  rewrite (js_collapse_go (upper v) JsStart false) by discriminate. reflexivity.
Qed.

Lemma kd0_spec c ty v : is_ws (Leaf ty v) = false -> kind_of c (Leaf ty v) = kd0 c (kap0 ty v).
Proof.
  intros W. unfold kind_of, kd0. rewrite W. cbn [is_group andb]. unfold matches.
  rewrite (existsb_ext_in (match_pat (Leaf ty v)) (key_match (kap0 ty v)) (m_open c)).
  2:{ intros p Hp. apply key_match_spec. }
  rewrite (existsb_ext_in (match_pat (Leaf ty v)) (key_match (kap0 ty v)) (m_close c)).
  2:{ intros p Hp. apply key_match_spec. }
  reflexivity.
Qed.

(* every class -- If ('END IF') and For ('END LOOP') included since Token.normalized collapses the white
   space inside compound keywords (fix in /repo; before, this needed nospace_cls c = true) *)
Theorem C11_group_matching c n n' :
  shape n = shape n' -> shape (stack_match_rec c n) = shape (stack_match_rec c n').
Proof.
  apply (group_matching_shape_inv kap0 c (kd0 c)). intros ty v W. apply kd0_spec; assumption.
Qed.

(* Parenthesis, SquareBrackets, Case, Begin (and the classes without M_OPEN/M_CLOSE) qualify;
   If ('END IF'), For ('END LOOP') and Where ('ORDER BY', 'GROUP BY', 'UNION ALL') do not *)
Example nospace_classes :
  map nospace_cls [CParenthesis; CSquareBrackets; CCase; CBegin; CIf; CFor; CWhere]
  = [true; true; true; true; false; false; false].
Proof. vm_compute. reflexivity. Qed.

Print Assumptions C11_group_matching.
Print Assumptions C11_group_matching_guarded.

(* ---- from the splitter to the matcher: the shape of a freshly built statement is the list of
        its significant tokens ------------------------------------------------------------------ *)
Lemma shapes_leaves l :
  shapes (map (fun tk : tok => Leaf (fst tk) (snd tk)) l) = map (fun k => ALeaf k) (sig l).
Proof.
  induction l as [|[ty v] l IH]; [reflexivity|].
  cbn [map]. unfold shapes in *. rewrite ashapes_cons, IH.
  unfold sig. cbn [filter fst snd]. unfold is_ws, tt_in, is_ws_tok. cbn [fst].
  destruct (tin ty T_Whitespace); reflexivity.
Qed.

Lemma shape_statement_of l :
  shape (statement_of l) = AGrp CStatement (map (fun k => ALeaf k) (sig l)).
Proof. unfold statement_of, mk_grp, shape. rewrite ashape_grp. fold shapes. rewrite shapes_leaves. reflexivity. Qed.

(* skeleton-related streams: the same statements, and after any bracket-matching pass whose
   M_OPEN/M_CLOSE contain no whitespace, trees of the same shape *)
Theorem C11_split_then_match c l l' :
  skelb l l' = true ->
  map (fun s => shape (stack_match_rec c (statement_of s)))
      (process reset_sstate change_splitlevel eos_ttypes is_terminator l)
  = map (fun s => shape (stack_match_rec c (statement_of s)))
        (process reset_sstate change_splitlevel eos_ttypes is_terminator l').
Proof.
  intros H. apply split_skelb_invariant in H. unfold stmt_sigs in H.
  revert H. generalize (process reset_sstate change_splitlevel eos_ttypes is_terminator l).
  generalize (process reset_sstate change_splitlevel eos_ttypes is_terminator l').
  intros ss'. induction ss' as [|s' ss' IH]; intros [|s ss0] H; cbn [map] in *; try discriminate; [reflexivity|].
  injection H as H1 H2. f_equal; [|apply IH, H2].
  apply C11_group_matching. rewrite !shape_statement_of, H1. reflexivity.
Qed.
Print Assumptions C11_split_then_match.
