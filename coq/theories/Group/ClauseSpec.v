(* SPECIFICATIONS of the passes of grouping.py that build the clause nodes of property C13:
     group_where            (Where)
     group_functions        (Function)
     group_typed_literal    (TypedLiteral, two _group runs)
     group_comparison       (Comparison)
     group_identifier_list  (IdentifierList)
   Each specification is ONE structurally recursive left-to-right function on a sibling list:
   it looks ahead in the rest of the list, emits a group, and passes over ([skip]) the tokens the
   group has swallowed.  No indices, no snapshot/live distinction, no offsets, no fuel.
   No proofs in this file (pass = spec is proved in ClauseFacts.v). *)
From SqlModel Require Import Base PyStr Node Passes TotalDefs.
From SqlModel.Gen Require Import CaseTabs.
From Coq Require Import ZArith.

(* [break f l] = (the longest prefix without an f-token, the rest starting at the first f-token) *)
Fixpoint break (f : node -> bool) (l : list node) : list node * list node :=
  match l with
  | [] => ([], [])
  | x :: r => if f x then ([], l) else let '(a, b) := break f r in (x :: a, b)
  end.

(* leading whitespace and what follows it (token_next(skip_ws=True)) *)
Definition span_ws (l : list node) : list node * list node := break (fun x => negb (is_ws x)) l.

Definition split_last (l : list node) : option (list node * node) :=
  match rev l with cl :: m => Some (rev m, cl) | [] => None end.

(* ================================================================================================
   group_where
   ================================================================================================ *)
Definition is_where_open (n : node) : bool := matches n (m_open CWhere).
Definition is_where_close (n : node) : bool := matches n (m_close CWhere).

(* every WHERE keyword opens a group that extends to just before the next sibling matching
   Where.M_CLOSE, or else to the end of the list; scanning continues AFTER the group: whatever is
   inside the extent (a second WHERE, for instance) is swallowed unseen. *)
Fixpoint where_run (skip : nat) (l : list node) : list node :=
  match l with
  | [] => []
  | x :: r =>
      match skip with
      | S k => where_run k r
      | O => if is_where_open x
             then let body := fst (break is_where_close r) in
                  mk_grp CWhere (x :: body) :: where_run (length body) r
             else x :: where_run 0 r
      end
  end.

(* _groupable_tokens of a Parenthesis / SquareBrackets is tokens[1:-1]: the closing bracket stays
   outside *)
Definition where_spec (c : cls) (l : list node) : list node :=
  if is_brk c
  then match split_last l with Some (m, cl) => where_run 0 m ++ [cl] | None => [] end
  else where_run 0 l.

(* the whole pass: @recurse(sql.Where): children first (not into Where nodes), then the list *)
Fixpoint where_rec (n : node) : node :=
  match n with
  | Leaf _ _ => n
  | Grp c v kids =>
      Grp c v (where_spec c (map (fun k => if is_group k && negb (inst_any k [CWhere])
                                           then where_rec k else k) kids))
  end.

(* ================================================================================================
   group_functions
   ================================================================================================ *)
Definition is_name (n : node) : bool := tt_in n T_Name.   (* ttype in T.Name: any Name subtype *)

(* the early exit: CREATE and TABLE among the siblings' values and no sibling whose value is AS
   (all three in any letter case) *)
Definition fn_early_exit (l : list node) : bool :=
  existsb (fun tk => text_eqb (upper (nvalue tk)) s_CREATE) l
  && existsb (fun tk => text_eqb (upper (nvalue tk)) s_TABLE) l
  && negb (existsb (fun tk => text_eqb (upper (nvalue tk)) s_AS) l).

(* name ws* Parenthesis (ws* Over)?  becomes one Function; scanning continues after it *)
Fixpoint fn_run (skip : nat) (l : list node) : list node :=
  match l with
  | [] => []
  | x :: r =>
      match skip with
      | S k => fn_run k r
      | O =>
          if is_name x then
            match span_ws r with
            | (ws1, par :: r1) =>
                if inst par CParenthesis then
                  let short := mk_grp CFunction (x :: ws1 ++ [par]) :: fn_run (S (length ws1)) r in
                  match span_ws r1 with
                  | (ws2, ov :: _) =>
                      if inst ov COver
                      then mk_grp CFunction (x :: ws1 ++ par :: ws2 ++ [ov])
                           :: fn_run (S (length ws1) + S (length ws2)) r
                      else short
                  | (_, []) => short
                  end
                else x :: fn_run 0 r
            | (_, []) => x :: fn_run 0 r
            end
          else x :: fn_run 0 r
      end
  end.

Definition functions_spec (l : list node) : list node :=
  if fn_early_exit l then l else fn_run 0 l.

Fixpoint functions_rec (n : node) : node :=
  match n with
  | Leaf _ _ => n
  | Grp c v kids =>
      Grp c v (functions_spec (map (fun k => if is_group k && negb (inst_any k [CFunction])
                                             then functions_rec k else k) kids))
  end.

(* ================================================================================================
   _group with post = (pidx, nidx) or (tidx, nidx)
   ================================================================================================ *)
Inductive jmode := FromPrev | FromMatch.

(* group_tokens(cls, from, to, extend): a first token that already is an instance of cls is
   extended in place when extend=True, otherwise a new group wraps first .. last *)
Definition join_group (p : gparams) (first : node) (sub : list node) : node :=
  if g_extend p && inst first (g_cls p)
  then match first with
       | Grp c' _ kids => mk_grp c' (kids ++ sub)
       | Leaf _ _ => first
       end
  else mk_grp (g_cls p) (first :: sub).

(* [out]: the siblings already emitted, REVERSED;  [prev]: the last non-whitespace token as
   WRITTEN (it may meanwhile sit inside the group at the head of [out]: the code keeps the stale
   token object in prev_);  [skip]: how many of the coming tokens the last group has swallowed. *)
Fixpoint join_run (p : gparams) (m : jmode) (out : list node) (prev : option node) (skip : nat)
         (l : list node) : list node :=
  match l with
  | [] => rev out
  | y :: r =>
      match skip with
      | S k => join_run p m out prev k r
      | O =>
          if is_ws y then join_run p m (y :: out) prev 0 r else
          let plain := join_run p m (y :: out) (Some y) 0 r in
          if g_match p y then
            match prev, span_ws r with
            | Some pv, (ws2, nx :: _) =>
                if g_vprev p pv && g_vnext p (Some nx) then
                  match m with
                  | FromMatch =>
                      join_run p m (join_group p y (ws2 ++ [nx]) :: out) (Some nx) (S (length ws2)) r
                  | FromPrev =>
                      match span_ws out with
                      | (ws1, item :: out') =>
                          join_run p m (join_group p item (rev ws1 ++ y :: ws2 ++ [nx]) :: out')
                                   (Some nx) (S (length ws2)) r
                      | (_, []) => plain
                      end
                  end
                else plain
            | _, _ => plain
            end
          else plain
      end
  end.

Definition join_spec (p : gparams) (m : jmode) (l : list node) : list node :=
  join_run p m [] None 0 l.

(* the whole pass: _group(..., recurse=True) enters every child group that is not an instance of
   cls, before the list itself is processed *)
Fixpoint join_rec (p : gparams) (m : jmode) (n : node) : node :=
  match n with
  | Leaf _ _ => n
  | Grp c v kids =>
      Grp c v (join_spec p m (map (fun k => if is_group k && negb (inst k (g_cls p))
                                            then join_rec p m k else k) kids))
  end.

(* the hypotheses of the generic theorem, as a boolean-free record of facts about p *)
Definition post_mode (p : gparams) (m : jmode) : Prop :=
  match m with FromPrev => g_post p = post_pn | FromMatch => g_post p = post_tn end.

(* ---- the four instances ------------------------------------------------------------------------ *)
Definition typed1_spec (l : list node) : list node := join_spec p_typed_literal1 FromMatch l.
Definition typed2_spec (l : list node) : list node := join_spec p_typed_literal2 FromMatch l.
Definition typed_literal_spec (l : list node) : list node := typed2_spec (typed1_spec l).
Definition comparison_spec (l : list node) : list node := join_spec p_comparison FromPrev l.
Definition identifier_list_spec (l : list node) : list node := join_spec p_identifier_list FromPrev l.

Definition typed_literal_rec (n : node) : node :=
  join_rec p_typed_literal2 FromMatch (join_rec p_typed_literal1 FromMatch n).

(* ---- written forms used by the unbounded corollaries ------------------------------------------- *)
(* an item list as written: first item, then (ws* , ws* item)* *)
Definition sep_item := (list node * node * list node * node)%type.   (* ws1, separator, ws2, item *)

Definition render_seps (l : list sep_item) : list node :=
  flat_map (fun '(ws1, s, ws2, it) => ws1 ++ s :: ws2 ++ [it]) l.

(* a comparison chain a0 op a1 op a2 ... nests to the LEFT: ((a0 op a1) op a2) ... *)
Definition nest_left (c : cls) (a0 : node) (l : list sep_item) : node :=
  fold_left (fun acc '(ws1, s, ws2, it) => mk_grp c (acc :: ws1 ++ s :: ws2 ++ [it])) l a0.

Definition last_item (a0 : node) (l : list sep_item) : node :=
  match rev l with (_, _, _, it) :: _ => it | [] => a0 end.

(* ---- concrete tokens for the examples ---------------------------------------------------------- *)
Definition c_ws : node := Leaf T_Whitespace [32%N].
Definition c_nl : node := Leaf T_Newline [10%N].
Definition c_name (ch : N) : node := Leaf T_Name [ch].
Definition c_int (ch : N) : node := Leaf T_Integer [ch].
Definition c_comma : node := Leaf T_Punctuation s_comma.
Definition c_eq : node := Leaf T_Comparison [61%N].
Definition c_lp : node := Leaf T_Punctuation s_lparen.
Definition c_rp : node := Leaf T_Punctuation s_rparen.
Definition c_kw (v : text) : node := Leaf T_Keyword v.
Definition c_where : node := c_kw s_WHERE.
Definition c_and : node := c_kw [65; 78; 68]%N.
Definition c_select : node := Leaf T_DML [115; 101; 108; 101; 99; 116]%N.
Definition c_date : node := Leaf T_Builtin [68; 65; 84; 69]%N.
Definition c_str : node := Leaf T_Single [39; 120; 39]%N.
Definition c_paren (kids : list node) : node := mk_grp CParenthesis (c_lp :: kids ++ [c_rp]).
